(* Proofs about Host/Servo.v. *)
From Coq Require Import ZArith QArith Qfield Lia Lqa List Bool.
From RV Require Import Base.Wire Base.NumM Gen.C19Motor Host.Servo Proofs.NumMP.
Import ListNotations.
Open Scope Q_scope.

(* ---- statements' vocabulary ---- *)

(* the calibration is a proper one: both ranges non-degenerate *)
Definition servo_cfg_ok (s : servo) : Prop := min_a s < max_a s /\ min_p s < max_p s.

(* the C19 servo invariant (DESIGN.md A.4) *)
Definition servo_inv (s : servo) : Prop :=
  (min_a s <= cur_a s /\ cur_a s <= max_a s) /\
  (min_p s <= cur_p s /\ cur_p s <= max_p s) /\
  cur_p s == a2p s (cur_a s) /\
  cur_a s == p2a s (cur_p s).

(* pin and calibration never change *)
Definition same_config (s s' : servo) : Prop :=
  sv_pin s' = sv_pin s /\ min_a s' = min_a s /\ max_a s' = max_a s /\
  min_p s' = min_p s /\ max_p s' = max_p s.

(* ---- affine map facts ---- *)

Lemma lin_bounds lo hi lo' hi' x :
  lo < hi -> lo' < hi' -> lo <= x -> x <= hi ->
  lo' <= lo' + ((x - lo) / (hi - lo)) * (hi' - lo') /\
  lo' + ((x - lo) / (hi - lo)) * (hi' - lo') <= hi'.
Proof.
  intros Hs Hs' Hl Hh.
  assert (Hpos : 0 < hi - lo) by lra.
  assert (Ht0 : 0 <= (x - lo) / (hi - lo)).
  { apply Qle_shift_div_l; [exact Hpos | lra]. }
  assert (Ht1 : (x - lo) / (hi - lo) <= 1).
  { apply Qle_shift_div_r; [exact Hpos | lra]. }
  set (t := (x - lo) / (hi - lo)) in *.
  assert (Hw : 0 <= hi' - lo') by lra.
  assert (H0 : 0 <= t * (hi' - lo')) by (apply Qmult_le_0_compat; assumption).
  assert (H1 : t * (hi' - lo') <= 1 * (hi' - lo')) by (apply Qmult_le_compat_r; assumption).
  split; lra.
Qed.

Lemma lin_inverse lo hi lo' hi' x :
  lo < hi -> lo' < hi' ->
  lo + (((lo' + ((x - lo) / (hi - lo)) * (hi' - lo')) - lo') / (hi' - lo')) * (hi - lo) == x.
Proof.
  intros Hs Hs'. field. split; intro E; lra.
Qed.

Lemma lin_compat lo hi lo' hi' x y :
  x == y ->
  lo' + ((x - lo) / (hi - lo)) * (hi' - lo') == lo' + ((y - lo) / (hi - lo)) * (hi' - lo').
Proof. intro E. rewrite E. reflexivity. Qed.

(* ---- constructor ---- *)

Lemma py_ge_false x y : py_ge x y = Some false -> qval x < qval y.
Proof.
  unfold py_ge, py_le, qval. destruct (qof y) as [b|]; destruct (qof x) as [a|]; try discriminate.
  intro H. injection H as H. apply Qleb_false in H. exact H.
Qed.

Lemma ctor_accepts a s :
  servo_ctor a = inl s ->
  sv_pin s = dflt servo_default_pin (a_pin a) /\
  min_a s = qval (dflt servo_default_min_angle (a_min_a a)) /\
  max_a s = qval (dflt servo_default_max_angle (a_max_a a)) /\
  min_p s = qval (dflt servo_default_min_pulse (a_min_p a)) /\
  max_p s = qval (dflt servo_default_max_pulse (a_max_p a)) /\
  cur_a s = min_a s /\ cur_p s = min_p s /\
  servo_cfg_ok s.
Proof.
  unfold servo_ctor. rewrite !py_not_lt_ge.
  destruct (py_ge (dflt servo_default_min_angle (a_min_a a)) (dflt servo_default_max_angle (a_max_a a)))
    as [[|]|] eqn:Ea; try discriminate.
  destruct (py_ge (dflt servo_default_min_pulse (a_min_p a)) (dflt servo_default_max_pulse (a_max_p a)))
    as [[|]|] eqn:Ep; try discriminate.
  intro H. injection H as H. subst s. cbn.
  repeat split; try reflexivity; apply py_ge_false; assumption.
Qed.

Lemma init_inv s : servo_cfg_ok s -> cur_a s = min_a s -> cur_p s = min_p s -> servo_inv s.
Proof.
  intros [Ha Hp] Ea Ep. unfold servo_inv, a2p, p2a. rewrite Ea, Ep.
  repeat split; try lra.
  - field. intro E. lra.
  - field. intro E. lra.
Qed.

(* ---- one step ---- *)

Lemma between_true lo hi v : py_between lo hi v = Some true -> lo <= qval v /\ qval v <= hi.
Proof.
  unfold py_between, qval. destruct (qof v) as [q|]; [|discriminate].
  intro H. injection H as H. apply andb_true_iff in H as [H1 H2].
  apply Qleb_true in H1. apply Qleb_true in H2. split; assumption.
Qed.

Lemma between_spec lo hi v :
  match py_between lo hi v with
  | None => qof v = None
  | Some true => exists q, qof v = Some q /\ lo <= q /\ q <= hi
  | Some false => exists q, qof v = Some q /\ ~ (lo <= q /\ q <= hi)
  end.
Proof.
  unfold py_between. destruct (qof v) as [q|]; [|reflexivity].
  destruct (Qleb lo q && Qleb q hi) eqn:E.
  - apply andb_true_iff in E as [H1 H2]. apply Qleb_true in H1. apply Qleb_true in H2.
    exists q. repeat split; assumption.
  - exists q. split; [reflexivity|]. intros [H1 H2].
    apply Qleb_true in H1. apply Qleb_true in H2. rewrite H1, H2 in E. discriminate.
Qed.

Lemma step_config s op : same_config s (sstate (sstep s op)).
Proof.
  unfold same_config, sstate. destruct op as [v|v| |]; cbn [sstep].
  - destruct (py_between (min_a s) (max_a s) v) as [[|]|]; cbn; repeat split; reflexivity.
  - destruct (py_between (min_p s) (max_p s) v) as [[|]|]; cbn; repeat split; reflexivity.
  - cbn; repeat split; reflexivity.
  - cbn; repeat split; reflexivity.
Qed.

Lemma step_inv s op : servo_cfg_ok s -> servo_inv s -> servo_inv (sstate (sstep s op)).
Proof.
  intros [Ha Hp] Hinv. unfold sstate. destruct op as [v|v| |]; cbn [sstep]; try exact Hinv.
  - destruct (py_between (min_a s) (max_a s) v) as [[|]|] eqn:E; cbn [fst]; try exact Hinv.
    apply between_true in E as [H1 H2].
    unfold servo_inv, a2p, p2a, set_pos. cbn [cur_a cur_p min_a max_a min_p max_p].
    split; [split; assumption|]. split; [apply lin_bounds; assumption|].
    split; [reflexivity|]. symmetry. apply lin_inverse; assumption.
  - destruct (py_between (min_p s) (max_p s) v) as [[|]|] eqn:E; cbn [fst]; try exact Hinv.
    apply between_true in E as [H1 H2].
    unfold servo_inv, a2p, p2a, set_pos. cbn [cur_a cur_p min_a max_a min_p max_p].
    split; [apply lin_bounds; assumption|]. split; [split; assumption|].
    split; [|reflexivity]. symmetry. apply lin_inverse; assumption.
Qed.

Lemma cfg_ok_config s s' : same_config s s' -> servo_cfg_ok s -> servo_cfg_ok s'.
Proof.
  intros (_ & E1 & E2 & E3 & E4) [Ha Hp]. unfold servo_cfg_ok. rewrite E1, E2, E3, E4. split; assumption.
Qed.

Lemma same_config_trans a b c : same_config a b -> same_config b c -> same_config a c.
Proof.
  unfold same_config. intros (A0 & A1 & A2 & A3 & A4) (B0 & B1 & B2 & B3 & B4).
  repeat split; congruence.
Qed.

Lemma same_config_refl a : same_config a a.
Proof. unfold same_config. repeat split; reflexivity. Qed.

(* ---- every history ---- *)

Lemma run_inv ops : forall s,
  servo_cfg_ok s -> servo_inv s -> servo_inv (srun ops s) /\ same_config s (srun ops s).
Proof.
  induction ops as [|op ops IH]; intros s Hc Hi.
  - cbn. split; [exact Hi | apply same_config_refl].
  - unfold srun. cbn [fold_left]. fold (srun ops (sstate (sstep s op))).
    pose proof (step_config s op) as Hcfg.
    destruct (IH (sstate (sstep s op))) as [I1 I2].
    + exact (cfg_ok_config _ _ Hcfg Hc).
    + apply step_inv; assumption.
    + split; [exact I1 | exact (same_config_trans _ _ _ Hcfg I2)].
Qed.

Lemma servo_reachable_inv a s0 ops :
  servo_ctor a = inl s0 ->
  servo_inv (srun ops s0) /\ same_config s0 (srun ops s0) /\ servo_cfg_ok s0.
Proof.
  intro H. apply ctor_accepts in H as (_ & _ & _ & _ & _ & Ea & Ep & Hc).
  destruct (run_inv ops s0 Hc (init_inv s0 Hc Ea Ep)) as [I1 I2].
  split; [exact I1 | split; [exact I2 | exact Hc]].
Qed.

(* ---- round trips ---- *)

Lemma write_read s v q :
  servo_cfg_ok s -> qof v = Some q -> min_a s <= q -> q <= max_a s ->
  let r := sstep s (SWrite v) in
  sresult r = Ok SNone /\
  sresult (sstep (sstate r) SRead) = Ok (SFloat q) /\
  exists p, sresult (sstep (sstate r) SReadUs) = Ok (SFloat p) /\ p == a2p s q /\
            sevents r = [SLvl q p].
Proof.
  intros Hc Hq H1 H2. cbn zeta. unfold sresult, sstate, sevents. cbn [sstep].
  unfold py_between, qval. rewrite Hq.
  apply Qleb_true in H1. apply Qleb_true in H2. rewrite H1, H2. cbn.
  split; [reflexivity|]. split; [reflexivity|].
  eexists. split; [reflexivity|]. split; reflexivity.
Qed.

Lemma write_us_read_us s v q :
  servo_cfg_ok s -> qof v = Some q -> min_p s <= q -> q <= max_p s ->
  let r := sstep s (SWriteUs v) in
  sresult r = Ok SNone /\
  sresult (sstep (sstate r) SReadUs) = Ok (SFloat q) /\
  exists a, sresult (sstep (sstate r) SRead) = Ok (SFloat a) /\ a == p2a s q /\
            sevents r = [SLvl a q].
Proof.
  intros Hc Hq H1 H2. cbn zeta. unfold sresult, sstate, sevents. cbn [sstep].
  unfold py_between, qval. rewrite Hq.
  apply Qleb_true in H1. apply Qleb_true in H2. rewrite H1, H2. cbn.
  split; [reflexivity|]. split; [reflexivity|].
  eexists. split; [reflexivity|]. split; reflexivity.
Qed.

(* the statement of C19_servo_roundtrip, with == on the returned floats *)
Definition reads (r : result sret) (q : Q) : Prop :=
  exists x, r = Ok (SFloat x) /\ x == q.

Lemma servo_roundtrip a s0 ops v q :
  servo_ctor a = inl s0 ->
  let s := srun ops s0 in
  qof v = Some q ->
  (min_a s0 <= q /\ q <= max_a s0 ->
     reads (sresult (sstep (sstate (sstep s (SWrite v))) SRead)) q /\
     reads (sresult (sstep (sstate (sstep s (SWrite v))) SReadUs)) (a2p s0 q)) /\
  (min_p s0 <= q /\ q <= max_p s0 ->
     reads (sresult (sstep (sstate (sstep s (SWriteUs v))) SReadUs)) q /\
     reads (sresult (sstep (sstate (sstep s (SWriteUs v))) SRead)) (p2a s0 q)).
Proof.
  intros Hctor s Hq.
  destruct (servo_reachable_inv a s0 ops Hctor) as (_ & Hcfg & Hc0).
  fold s in Hcfg.
  assert (Hc : servo_cfg_ok s) by exact (cfg_ok_config _ _ Hcfg Hc0).
  destruct Hcfg as (_ & E1 & E2 & E3 & E4).
  assert (Ea : forall x, a2p s x = a2p s0 x) by (intro x; unfold a2p; rewrite E1, E2, E3, E4; reflexivity).
  assert (Ep : forall x, p2a s x = p2a s0 x) by (intro x; unfold p2a; rewrite E1, E2, E3, E4; reflexivity).
  split; intros [H1 H2].
  - rewrite <- E1 in H1. rewrite <- E2 in H2.
    destruct (write_read s v q Hc Hq H1 H2) as (_ & R1 & p & R2 & Hp & _).
    split.
    + exists q. split; [exact R1 | reflexivity].
    + exists p. split; [exact R2 | rewrite <- Ea; exact Hp].
  - rewrite <- E3 in H1. rewrite <- E4 in H2.
    destruct (write_us_read_us s v q Hc Hq H1 H2) as (_ & R1 & x & R2 & Hx & _).
    split.
    + exists q. split; [exact R1 | reflexivity].
    + exists x. split; [exact R2 | rewrite <- Ep; exact Hx].
Qed.

(* write a, read the pulse back, command that pulse: the angle is a again *)
Lemma servo_cross_roundtrip s q :
  servo_cfg_ok s -> p2a s (a2p s q) == q /\ a2p s (p2a s q) == q.
Proof.
  intros [Ha Hp]. unfold a2p, p2a. split; field; split; intro E; lra.
Qed.

(* ---- failing calls ---- *)

Lemma servo_failed_atomic s op s' evs k :
  sstep s op = (s', evs, Raised k) -> s' = s /\ evs = [].
Proof.
  destruct op as [v|v| |]; cbn [sstep].
  - destruct (py_between (min_a s) (max_a s) v) as [[|]|]; intro H; inversion H; split; reflexivity.
  - destruct (py_between (min_p s) (max_p s) v) as [[|]|]; intro H; inversion H; split; reflexivity.
  - intro H; inversion H.
  - intro H; inversion H.
Qed.

(* exactly which calls raise, and what *)
Lemma servo_raises s op :
  sresult (sstep s op) =
  match op with
  | SWrite v =>
      match qof v with
      | None => Raised TypeError
      | Some q => if Qleb (min_a s) q && Qleb q (max_a s) then Ok SNone else Raised ValueError
      end
  | SWriteUs v =>
      match qof v with
      | None => Raised TypeError
      | Some q => if Qleb (min_p s) q && Qleb q (max_p s) then Ok SNone else Raised ValueError
      end
  | SRead => Ok (SFloat (cur_a s))
  | SReadUs => Ok (SFloat (cur_p s))
  end.
Proof.
  unfold sresult. destruct op as [v|v| |]; cbn [sstep]; try reflexivity.
  - unfold py_between. destruct (qof v) as [q|]; [|reflexivity].
    destruct (Qleb (min_a s) q && Qleb q (max_a s)); reflexivity.
  - unfold py_between. destruct (qof v) as [q|]; [|reflexivity].
    destruct (Qleb (min_p s) q && Qleb q (max_p s)); reflexivity.
Qed.

(* ---- exactly when the constructor raises ---- *)

Lemma py_ge_spec x y :
  match py_ge x y with
  | None => qof x = None \/ qof y = None
  | Some true => qof x <> None /\ qof y <> None /\ qval y <= qval x
  | Some false => qof x <> None /\ qof y <> None /\ qval x < qval y
  end.
Proof.
  unfold py_ge, py_le, qval. destruct (qof y) as [b|]; destruct (qof x) as [a|];
    try (left; reflexivity); try (right; reflexivity).
  destruct (Qleb b a) eqn:E.
  - apply Qleb_true in E. repeat split; try discriminate. exact E.
  - apply Qleb_false in E. repeat split; try discriminate. exact E.
Qed.

Lemma ctor_raises a :
  let mina := dflt servo_default_min_angle (a_min_a a) in
  let maxa := dflt servo_default_max_angle (a_max_a a) in
  let minp := dflt servo_default_min_pulse (a_min_p a) in
  let maxp := dflt servo_default_max_pulse (a_max_p a) in
  match servo_ctor a with
  | inl _ => qval mina < qval maxa /\ qval minp < qval maxp /\
             qof mina <> None /\ qof maxa <> None /\ qof minp <> None /\ qof maxp <> None
  | inr TypeError => qof mina = None \/ qof maxa = None \/
                     (qval mina < qval maxa /\ (qof minp = None \/ qof maxp = None))
  | inr ValueError => (qof mina <> None /\ qof maxa <> None /\ qval maxa <= qval mina) \/
                      (qval mina < qval maxa /\ qof minp <> None /\ qof maxp <> None /\ qval maxp <= qval minp)
  end.
Proof.
  cbn zeta. unfold servo_ctor. rewrite !py_not_lt_ge.
  pose proof (py_ge_spec (dflt servo_default_min_angle (a_min_a a)) (dflt servo_default_max_angle (a_max_a a))) as Ha.
  pose proof (py_ge_spec (dflt servo_default_min_pulse (a_min_p a)) (dflt servo_default_max_pulse (a_max_p a))) as Hp.
  destruct (py_ge (dflt servo_default_min_angle (a_min_a a)) (dflt servo_default_max_angle (a_max_a a))) as [[|]|].
  - left. exact Ha.
  - destruct Ha as (A1 & A2 & A3).
    destruct (py_ge (dflt servo_default_min_pulse (a_min_p a)) (dflt servo_default_max_pulse (a_max_p a))) as [[|]|].
    + right. destruct Hp as (P1 & P2 & P3). repeat split; assumption.
    + destruct Hp as (P1 & P2 & P3). repeat split; assumption.
    + right. right. split; [exact A3 | exact Hp].
  - destruct Ha as [Ha|Ha]; [left | right; left]; exact Ha.
Qed.

(* ---- more about the maps ---- *)

Lemma map_endpoints s :
  servo_cfg_ok s ->
  a2p s (min_a s) == min_p s /\ a2p s (max_a s) == max_p s /\
  p2a s (min_p s) == min_a s /\ p2a s (max_p s) == max_a s.
Proof.
  intros [Ha Hp]. unfold a2p, p2a. repeat split; field; intro E; lra.
Qed.

Lemma lin_strict lo hi lo' hi' x y :
  lo < hi -> lo' < hi' -> x < y ->
  lo' + ((x - lo) / (hi - lo)) * (hi' - lo') < lo' + ((y - lo) / (hi - lo)) * (hi' - lo').
Proof.
  intros Hs Hs' Hxy.
  assert (Hpos : 0 < hi - lo) by lra.
  assert (Hw : 0 < hi' - lo') by lra.
  assert (Hd : (x - lo) / (hi - lo) < (y - lo) / (hi - lo)).
  { unfold Qdiv. apply Qmult_lt_compat_r; [apply Qinv_lt_0_compat; exact Hpos | lra]. }
  assert (Hm : ((x - lo) / (hi - lo)) * (hi' - lo') < ((y - lo) / (hi - lo)) * (hi' - lo')).
  { apply Qmult_lt_compat_r; assumption. }
  lra.
Qed.

Lemma map_monotone s x y :
  servo_cfg_ok s -> x < y -> a2p s x < a2p s y /\ p2a s x < p2a s y.
Proof.
  intros [Ha Hp] Hxy. unfold a2p, p2a. split; apply lin_strict; assumption.
Qed.

Lemma getters_pure s :
  sstep s SRead = (s, [], Ok (SFloat (cur_a s))) /\ sstep s SReadUs = (s, [], Ok (SFloat (cur_p s))).
Proof. split; reflexivity. Qed.

Lemma servo_events s op :
  let r := sstep s op in
  match op, sresult r with
  | (SWrite _ | SWriteUs _), Ok _ => sevents r = [SLvl (cur_a (sstate r)) (cur_p (sstate r))]
  | _, _ => sevents r = []
  end.
Proof.
  cbn zeta. unfold sresult, sevents, sstate. destruct op as [v|v| |]; cbn [sstep].
  - destruct (py_between (min_a s) (max_a s) v) as [[|]|]; reflexivity.
  - destruct (py_between (min_p s) (max_p s) v) as [[|]|]; reflexivity.
  - reflexivity.
  - reflexivity.
Qed.

(* ---- every position the servo is ever commanded to ---- *)

(* the invariant, read on one level event under the calibration of s *)
Definition sev_ok (s : servo) (e : sev) : Prop :=
  match e with
  | SLvl a p => (min_a s <= a /\ a <= max_a s) /\ (min_p s <= p /\ p <= max_p s) /\
                p == a2p s a /\ a == p2a s p
  end.

Lemma sev_ok_config s s' e : same_config s s' -> sev_ok s e -> sev_ok s' e.
Proof.
  intros (_ & E1 & E2 & E3 & E4). destruct e as [a p]. unfold sev_ok, a2p, p2a.
  rewrite E1, E2, E3, E4. intro H. exact H.
Qed.

Lemma step_sev s op :
  servo_cfg_ok s -> servo_inv s -> Forall (sev_ok s) (sevents (sstep s op)).
Proof.
  intros Hc Hi.
  pose proof (step_inv s op Hc Hi) as Hi'. pose proof (step_config s op) as Hcfg.
  pose proof (servo_events s op) as He. cbn zeta in He.
  assert (Hnew : sev_ok s (SLvl (cur_a (sstate (sstep s op))) (cur_p (sstate (sstep s op))))).
  { destruct Hcfg as (_ & E1 & E2 & E3 & E4). unfold sev_ok, servo_inv, a2p, p2a in *.
    rewrite E1, E2, E3, E4 in Hi'. exact Hi'. }
  destruct op as [v|v| |].
  - revert He. destruct (sresult (sstep s (SWrite v))); intro He; rewrite He;
      [constructor; [exact Hnew | constructor] | constructor].
  - revert He. destruct (sresult (sstep s (SWriteUs v))); intro He; rewrite He;
      [constructor; [exact Hnew | constructor] | constructor].
  - rewrite He. constructor.
  - rewrite He. constructor.
Qed.

(* every position any history ever commands lies inside both ranges and on the configured line *)
Lemma trace_sev ops : forall s, servo_cfg_ok s -> servo_inv s -> Forall (sev_ok s) (strace ops s).
Proof.
  induction ops as [|op ops IH]; intros s Hc Hi.
  - constructor.
  - cbn [strace]. apply Forall_app. split; [apply step_sev; assumption|].
    pose proof (step_config s op) as Hcfg.
    assert (Hcfg' : same_config (sstate (sstep s op)) s).
    { destruct Hcfg as (A0 & A1 & A2 & A3 & A4). unfold same_config. repeat split; symmetry; assumption. }
    eapply Forall_impl; [intros e He; exact (sev_ok_config _ _ e Hcfg' He)|].
    apply IH; [exact (cfg_ok_config _ _ Hcfg Hc) | apply step_inv; assumption].
Qed.

Lemma trace_sev_reachable a s0 pre ops :
  servo_ctor a = inl s0 -> Forall (sev_ok s0) (strace ops (srun pre s0)).
Proof.
  intro H. destruct (servo_reachable_inv a s0 pre H) as (Hi & Hcfg & Hc).
  assert (Hcfg' : same_config (srun pre s0) s0).
  { destruct Hcfg as (A0 & A1 & A2 & A3 & A4). unfold same_config. repeat split; symmetry; assumption. }
  eapply Forall_impl; [intros e He; exact (sev_ok_config _ _ e Hcfg' He)|].
  apply trace_sev; [exact (cfg_ok_config _ _ Hcfg Hc) | exact Hi].
Qed.

(* one level event per successful write, none for getters and failing calls *)
Definition swrites_ok (s : servo) (op : sop) : bool :=
  match op, sresult (sstep s op) with
  | (SWrite _ | SWriteUs _), Ok _ => true
  | _, _ => false
  end.

Lemma step_sev_count s op : length (sevents (sstep s op)) = if swrites_ok s op then 1%nat else 0%nat.
Proof.
  pose proof (servo_events s op) as He. cbn zeta in He. unfold swrites_ok.
  destruct op as [v|v| |].
  - revert He. destruct (sresult (sstep s (SWrite v))); intro He; rewrite He; reflexivity.
  - revert He. destruct (sresult (sstep s (SWriteUs v))); intro He; rewrite He; reflexivity.
  - rewrite He. reflexivity.
  - rewrite He. reflexivity.
Qed.
