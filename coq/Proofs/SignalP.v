(* Lemmas about the canonicaliser Device/Signal.v. *)
From Coq Require Import ZArith Lia List Bool.
From RV Require Import Device.Signal.
Import ListNotations.
Open Scope Z_scope.

Lemma crun_app : forall a b s,
  crun s (a ++ b) =
  (fst (crun (fst (crun s a)) b), snd (crun s a) ++ snd (crun (fst (crun s a)) b)).
Proof.
  induction a as [|e a IH]; intros b s.
  - cbn [app crun fst snd]. destruct (crun s b); reflexivity.
  - cbn [app crun]. destruct (cstep s e) as [s1 o1]. rewrite IH.
    destruct (crun s1 a) as [s2 o2]. cbn [fst snd].
    destruct (crun s2 b) as [s3 o3]. cbn [fst snd]. rewrite app_assoc. reflexivity.
Qed.

Lemma cstep_lookup : forall s e c,
  lookup (fst (fst (cstep s e))) c =
  match e with TL c' v => if c' =? c then v else lookup (fst s) c | TD _ => lookup (fst s) c end.
Proof.
  intros [m t] e c. destruct e as [c' v|d]; cbn [cstep fst].
  - destruct (lookup m c' =? v) eqn:E; cbn [fst lookup].
    + destruct (c' =? c) eqn:Ec; [|reflexivity].
      apply Z.eqb_eq in Ec. subst c'. apply Z.eqb_eq in E. exact E.
    + reflexivity.
  - reflexivity.
Qed.

(* the level of a channel after a trace is the last level written to it *)
Lemma lvl_after : forall tr s c,
  lookup (fst (fst (crun s tr))) c = last_lv c tr (lookup (fst s) c).
Proof.
  induction tr as [|e tr IH]; intros s c.
  - reflexivity.
  - cbn [crun]. pose proof (cstep_lookup s e c) as H.
    destruct (cstep s e) as [s1 o1]. specialize (IH s1 c).
    destruct (crun s1 tr) as [s2 o2]. cbn [fst] in *. rewrite IH, H.
    destruct e; reflexivity.
Qed.

(* a write of the level the channel already has is invisible *)
Lemma crun_noop_head : forall s c v r, lookup (fst s) c = v -> crun s (TL c v :: r) = crun s r.
Proof.
  intros [m t] c v r H. cbn [fst] in H. cbn [crun cstep]. rewrite H, Z.eqb_refl.
  destruct (crun (m, t) r). reflexivity.
Qed.

Lemma crun_noop_mid : forall a c v b s,
  last_lv c a (lookup (fst s) c) = v -> crun s (a ++ TL c v :: b) = crun s (a ++ b).
Proof.
  intros a c v b s H. rewrite !crun_app. rewrite crun_noop_head; [reflexivity|].
  rewrite lvl_after. exact H.
Qed.

Lemma last_lv_app : forall c a b d, last_lv c (a ++ b) d = last_lv c b (last_lv c a d).
Proof.
  induction a as [|e a IH]; intros b d; [reflexivity|].
  destruct e; cbn [app last_lv]; apply IH.
Qed.

(* congruence: equal canonical behaviour of the parts gives equal behaviour of the whole *)
Lemma crun_cong : forall a a' b b' s,
  crun s a = crun s a' ->
  (crun (fst (crun s a)) b = crun (fst (crun s a)) b') ->
  crun s (a ++ b) = crun s (a' ++ b').
Proof.
  intros a a' b b' s Ha Hb. rewrite !crun_app. rewrite <- Ha. rewrite Hb. reflexivity.
Qed.
