(* Accept-and-preserve: inside the guard, with well-placed `break`s, the translation exists and
   simulates. *)
From Coq Require Import ZArith QArith List Bool Lia.
From RV Require Import Base.Wire Base.Text Lang.StmtAst Lang.Transl Lang.StmtSem Lang.StmtGuard
  Lang.SemFacts Lang.StmtSimple.
From RV Require Import Proofs.SimTopP Proofs.TranslAcceptP.
Import ListNotations.
Open Scope Z_scope.

Theorem accept_and_preserve :
  forall sem augsem p,
    guard_ok p = true -> breaks_ok p = true -> sem_facts sem augsem p ->
    exists c, transl p = Some c /\
      forall fuel n tr, pprog_exec sem augsem fuel n p = Some tr ->
      exists F, forall F', (F <= F')%nat ->
        cprog_exec sem augsem (info_of p) F' n (match p_main p with Some _ => true | None => false end) c = Some tr.
Proof.
  intros sem augsem p HG HB HF. destruct (guard_accepts p HG HB) as (c & HT).
  exists c. split; [exact HT|]. intros fuel n tr HP.
  exact (stmt_preserve_partial sem augsem p c HT HG HF fuel n tr HP).
Qed.
