(* Syntactic facts about the guard (StmtGuard.g_block / StmtSimple.g_step), the simple
   translation (trt / trm), written names (wr), and the simulation relation [Rel]. *)
From Coq Require Import ZArith QArith List Bool Lia.
From RV Require Import Base.Wire Base.Text Lang.StmtAst Lang.Transl Lang.StmtSem Lang.StmtGuard
  Lang.SemFacts Lang.StmtSimple.
From RV Require Import Proofs.SimStoreP Proofs.StmtUnfoldP.
Import ListNotations.
Open Scope Z_scope.

(* ---- induction principle reaching inside the nested lists of pstmt ---- *)
Section PInd.
  Variable Q : pstmt -> Prop.
  Hypothesis HAssign : forall x e, Q (PAssign x e).
  Hypothesis HAug : forall x op e t, Q (PAug x op e t).
  Hypothesis HTuple : forall xs es, Q (PTuple xs es).
  Hypothesis HIf : forall c b el e, Forall Q b -> Forall (fun cb => Forall Q (snd cb)) el -> Forall Q e -> Q (PIf c b el e).
  Hypothesis HWhile : forall c b, Forall Q b -> Q (PWhile c b).
  Hypothesis HFor : forall x c b, Forall Q b -> Q (PFor x c b).
  Hypothesis HBreak : Q PBreak.
  Hypothesis HContinue : Q PContinue.
  Hypothesis HWrite : forall e, Q (PWrite e).
  Hypothesis HSleep : forall e, Q (PSleep e).
  Hypothesis HExprS : forall e, Q (PExprS e).
  Fixpoint pstmt_ind' (p : pstmt) : Q p :=
    let fix go (l : list pstmt) : Forall Q l :=
      match l with [] => Forall_nil _ | x :: r => Forall_cons _ (pstmt_ind' x) (go r) end in
    let fix gob (l : list (ann * list pstmt)) : Forall (fun cb => Forall Q (snd cb)) l :=
      match l with [] => Forall_nil _ | (c, b) :: r => Forall_cons (c, b) (go b) (gob r) end in
    match p with
    | PAssign x e => HAssign x e | PAug x op e t => HAug x op e t | PTuple xs es => HTuple xs es
    | PIf c b el e => HIf c b el e (go b) (gob el) (go e)
    | PWhile c b => HWhile c b (go b) | PFor x c b => HFor x c b (go b)
    | PBreak => HBreak | PContinue => HContinue | PWrite e => HWrite e | PSleep e => HSleep e | PExprS e => HExprS e
    end.
End PInd.

(* ---- written names are assigned names ---- *)
Lemma wr_in_sub l : Forall (fun p => incl (wr p) (assigned p)) l -> incl (wr_in l) (asg_in l).
Proof.
  induction 1 as [|p l Hp _ IH]; cbn; [apply incl_refl|].
  apply incl_app; [apply incl_appl; exact Hp|apply incl_appr; exact IH].
Qed.

Lemma wr_sub_assigned p : incl (wr p) (assigned p).
Proof.
  induction p using pstmt_ind'; rewrite wr_unfold, assigned_unfold; try apply incl_refl.
  - apply incl_app; [apply incl_appl; apply wr_in_sub; assumption|].
    apply incl_appr. apply incl_app; [apply incl_appl|apply incl_appr; apply wr_in_sub; assumption].
    induction H0 as [|[c' b'] l Hb _ IHl]; cbn; [apply incl_refl|].
    apply incl_app; [apply incl_appl; apply wr_in_sub; exact Hb|apply incl_appr; exact IHl].
  - apply wr_in_sub; assumption.
  - apply incl_tl. apply wr_in_sub; assumption.
Qed.

Lemma wr_in_sub_assigned l : incl (wr_in l) (assigned_in l).
Proof. rewrite assigned_in_asg. apply wr_in_sub. apply Forall_forall. intros; apply wr_sub_assigned. Qed.

(* ---- membership in the lists of the elif branches ---- *)
Lemma anns_inb_In c b el : In (c, b) el -> incl (c :: anns_in b) (anns_inb el).
Proof.
  induction el as [|[c' b'] r IH]; [intros []|]. intros [E|I]; cbn.
  - inversion E; subst. intros y [<-|Hy]; [left; reflexivity|right; apply in_or_app; left; exact Hy].
  - intros y Hy. right. apply in_or_app. right. apply IH; assumption.
Qed.
Lemma augs_inb_In c b el : In (c, b) el -> incl (augs_in b) (augs_inb el).
Proof.
  induction el as [|[c' b'] r IH]; [intros []|]. intros [E|I]; cbn.
  - inversion E; subst. apply incl_appl, incl_refl.
  - apply incl_appr. apply IH; assumption.
Qed.
Lemma wr_inb_In c b el : In (c, b) el -> incl (wr_in b) (wr_inb el).
Proof.
  induction el as [|[c' b'] r IH]; [intros []|]. intros [E|I]; cbn.
  - inversion E; subst. apply incl_appl, incl_refl.
  - apply incl_appr. apply IH; assumption.
Qed.

(* ---- the guard ---- *)
Definition ext (D D1 : tenv) : Prop := forall y t, tlookup y D = Some t -> tlookup y D1 = Some t.

Lemma ext_refl D : ext D D.
Proof. intros y t H; exact H. Qed.
Lemma ext_trans A B C : ext A B -> ext B C -> ext A C.
Proof. intros H1 H2 y t H. auto. Qed.
Lemma ext_app D X : ext D (D ++ X).
Proof. intros y u H. rewrite tlookup_app, H. reflexivity. Qed.
Lemma ext_snoc D x t : ext D (D ++ [(x, t)]).
Proof. apply ext_app. Qed.

Lemma map_fst_combine {A B} (a : list A) (b : list B) : length a = length b -> map fst (combine a b) = a.
Proof.
  revert b. induction a as [|x a IH]; intros [|y b] H; cbn in *; try discriminate; [reflexivity|].
  f_equal. apply IH. congruence.
Qed.

Lemma nodupb_NoDup l : nodupb l = true -> NoDup l.
Proof.
  induction l as [|x r IH]; cbn; intro H; [constructor|].
  apply andb_true_iff in H as [H1 H2]. apply negb_true_iff in H1. constructor; [|auto].
  intro HI. apply tmem_In in HI. congruence.
Qed.

Lemma NoDup_app' {A} (a b : list A) : NoDup a -> NoDup b -> (forall x, In x a -> ~ In x b) -> NoDup (a ++ b).
Proof.
  induction 1 as [|x a Hx Ha IH]; intros Hb Hd; cbn; [exact Hb|].
  constructor.
  - intro HI. apply in_app_or in HI as [HI|HI]; [contradiction|]. apply (Hd x); [left; reflexivity|exact HI].
  - apply IH; [exact Hb|]. intros y Hy. apply Hd. right. exact Hy.
Qed.

Lemma tuple_decl_ok_inv D L xs es : tuple_decl_ok D L xs es = true ->
  length xs = length es /\ forallb (fv_ok D L) es = true /\
  (forall x, In x xs -> tmem x (map fst D) = false /\ tmem x L = false) /\ nodupb xs = true.
Proof.
  unfold tuple_decl_ok. intro H.
  apply andb_true_iff in H as [H H4]. apply andb_true_iff in H as [H H3]. apply andb_true_iff in H as [H1 H2].
  apply Nat.eqb_eq in H1. split; [exact H1|]. split; [exact H2|]. split; [|exact H4].
  intros x Hx. rewrite forallb_forall in H3. apply H3 in Hx. apply andb_true_iff in Hx as [Hx _].
  apply andb_true_iff in Hx as [A B].
  apply negb_true_iff in A, B. auto.
Qed.

Lemma tuple_decl_ok_nt D L xs es : tuple_decl_ok D L xs es = true -> forall x, In x xs -> is_tmp x = false.
Proof.
  unfold tuple_decl_ok. intro H.
  apply andb_true_iff in H as [H _]. apply andb_true_iff in H as [_ H3].
  intros x Hx. rewrite forallb_forall in H3. apply H3 in Hx. apply andb_true_iff in Hx as [_ Hx].
  apply negb_true_iff in Hx. exact Hx.
Qed.


Lemma tuple_asg_tys_inv D L : forall xs es, tuple_asg_tys D L xs es = true ->
  length xs = length es /\ forall x, In x xs -> tmem x (map fst D) = true /\ tmem x L = false.
Proof.
  induction xs as [|x xr IH]; intros [|e er] H; cbn in H; try discriminate.
  - split; [reflexivity|intros x []].
  - apply andb_true_iff in H as [H H3]. apply andb_true_iff in H as [H1 H2].
    destruct (IH er H3) as [I1 I2]. split; [cbn; congruence|].
    intros y [<-|Hy]; [|apply I2; exact Hy]. apply negb_true_iff in H1. split; [|exact H1].
    destruct (tlookup x D) eqn:E; [|discriminate]. eapply tlookup_dom_true; eauto.
Qed.

Lemma tuple_asg_ok_inv D L xs es : tuple_asg_ok D L xs es = true ->
  xs <> [] /\ forallb (fv_ok D L) es = true /\ tuple_asg_tys D L xs es = true.
Proof.
  unfold tuple_asg_ok. intro H. apply andb_true_iff in H as [H H3]. apply andb_true_iff in H as [H1 H2].
  split; [destruct xs; [discriminate|discriminate]|auto].
Qed.

Lemma ty_eqb_eq a b : ty_eqb a b = true -> a = b.
Proof. destruct a, b; cbn; intro H; try discriminate; reflexivity. Qed.

Lemma g_step_cases f top D L p D1 :
  g_step f top D L p = Some D1 ->
  D1 = D \/ (exists x e, p = PAssign x e /\ top = true /\ tlookup x D = None /\ D1 = D ++ [(x, a_ty e)])
  \/ (exists xs es, p = PTuple xs es /\ top = true /\ tuple_asg_ok D L xs es = false /\ tuple_decl_ok D L xs es = true /\ D1 = D ++ combine xs (map a_ty es)).
Proof.
  unfold g_step. destruct p;
    repeat match goal with
    | |- context [match tlookup ?x ?DD with _ => _ end] => destruct (tlookup x DD) eqn:?
    | |- context [if ?c then _ else _] => destruct c eqn:?
    end; intro H; inversion H; subst; auto.
  - right. left. apply andb_true_iff in Heqb0 as [-> _]. eauto 10.
  - right. right. apply andb_true_iff in Heqb0 as [-> Hk]. eauto 10.
Qed.

Lemma g_step_nested f D L p D1 : g_step f false D L p = Some D1 -> D1 = D.
Proof.
  intro H. apply g_step_cases in H as [H|[(x & e & _ & H & _)|(xs & es & _ & H & _)]]; [exact H|discriminate|discriminate].
Qed.

Lemma g_step_ext f top D L p D1 : g_step f top D L p = Some D1 -> ext D D1.
Proof.
  intro H. apply g_step_cases in H as [->|[(x & e & _ & _ & _ & ->)|(xs & es & _ & _ & _ & _ & ->)]];
    [apply ext_refl|apply ext_snoc|apply ext_app].
Qed.

Lemma g_block_nested : forall f D L ps D', g_block f false D L ps = Some D' -> D' = D.
Proof.
  induction f as [|f IH]; intros D L ps D' H; [discriminate|].
  destruct ps as [|p rest]; [inversion H; reflexivity|].
  rewrite g_block_cons in H. destruct (g_step f false D L p) as [D1|] eqn:E; [|discriminate].
  apply g_step_nested in E. subst. eapply IH; eauto.
Qed.

Lemma g_block_ext : forall f top D L ps D', g_block f top D L ps = Some D' -> ext D D'.
Proof.
  induction f as [|f IH]; intros top D L ps D' H; [discriminate|].
  destruct ps as [|p rest]; [inversion H; apply ext_refl|].
  rewrite g_block_cons in H. destruct (g_step f top D L p) as [D1|] eqn:E; [|discriminate].
  eapply ext_trans; [eapply g_step_ext; eauto|eapply IH; eauto].
Qed.

Lemma nested_true f D L b :
  (match g_block f false D L b with Some _ => true | None => false end) = true ->
  g_block f false D L b = Some D.
Proof.
  destruct (g_block f false D L b) as [D'|] eqn:E; [|discriminate].
  intros _. apply g_block_nested in E as ->. reflexivity.
Qed.

Lemma ext_dom D D1 x : ext D D1 -> tmem x (map fst D) = true -> tmem x (map fst D1) = true.
Proof.
  intros HE H. apply tmem_dom_lookup in H as [t Ht]. apply HE in Ht. eapply tlookup_dom_true; eauto.
Qed.

(* names written by a guarded statement are declared *)
Lemma wr_dom_step f top D L p D1 :
  (forall D0 L0 ps D', g_block f false D0 L0 ps = Some D' -> forall x, In x (wr_in ps) -> tmem x (map fst D0) = true) ->
  g_step f top D L p = Some D1 -> forall x, In x (wr p) -> tmem x (map fst D1) = true.
Proof.
  intros IH HS x Hx. pose proof (g_step_ext _ _ _ _ _ _ HS) as HE.
  rewrite wr_unfold in Hx. unfold g_step in HS. destruct p; try (destruct Hx; fail).
  - (* assign *)
    destruct Hx as [<-|[]].
    destruct (negb (fv_ok D L e) || tmem x0 L); [discriminate|].
    destruct (tlookup x0 D) as [t|] eqn:El.
    + apply (ext_dom D); [exact HE|]. eapply tlookup_dom_true; eauto.
    + destruct (top && negb (is_tmp x0)); [|discriminate]. inversion HS; subst.
      rewrite map_app, tmem_app. cbn. rewrite text_eqb_refl. cbn. apply orb_true_r.
  - destruct Hx as [<-|[]].
    destruct (negb (fv_ok D L e) || tmem x0 L); [discriminate|].
    destruct (tlookup x0 D) as [t0|] eqn:El; [|discriminate].
    apply (ext_dom D); [exact HE|]. eapply tlookup_dom_true; eauto.
  - (* tuple assignment / declaration *)
    destruct (tuple_asg_ok D L xs es) eqn:Hq.
    { inversion HS; subst D1. apply tuple_asg_ok_inv in Hq as (_ & _ & Hq). apply tuple_asg_tys_inv in Hq as [_ Hq].
      apply (Hq x Hx). }
    destruct (top && tuple_decl_ok D L xs es) eqn:Hk; [|discriminate]. inversion HS; subst D1.
    apply andb_true_iff in Hk as [_ Hk]. apply tuple_decl_ok_inv in Hk as (Hlen & _ & _ & _).
    rewrite map_app, tmem_app, map_fst_combine by (rewrite map_length; exact Hlen).
    apply tmem_In in Hx. rewrite Hx. apply orb_true_r.
  - (* if *)
    destruct (fv_ok D L c && _ && _ && _) eqn:Hc; [|discriminate]. inversion HS; subst D1.
    apply andb_true_iff in Hc as [Hc H3]. apply andb_true_iff in Hc as [Hc H2]. apply andb_true_iff in Hc as [Hc H1].
    apply in_app_or in Hx as [Hx|Hx]; [|apply in_app_or in Hx as [Hx|Hx]].
    + apply nested_true in H1. eapply IH; eauto.
    + clear H1 H3. induction elifs as [|[c' b'] r IHr]; [destruct Hx|].
      cbn in H2. apply andb_true_iff in H2 as [Hh Ht]. apply andb_true_iff in Hh as [_ Hh].
      cbn in Hx. apply in_app_or in Hx as [Hx|Hx].
      * apply nested_true in Hh. eapply IH; eauto.
      * apply IHr; assumption.
    + apply nested_true in H3. eapply IH; eauto.
  - destruct (fv_ok D L c && _) eqn:Hc; [|discriminate]. inversion HS; subst D1.
    apply andb_true_iff in Hc as [_ H1]. apply nested_true in H1. eapply IH; eauto.
  - match type of HS with (if ?c then _ else _) = _ => destruct c eqn:Hc; [|discriminate] end.
    inversion HS; subst D1. apply andb_true_iff in Hc as [_ H1]. apply nested_true in H1. eapply IH; eauto.
Qed.

Lemma wr_dom_nested : forall f D L ps D', g_block f false D L ps = Some D' ->
  forall x, In x (wr_in ps) -> tmem x (map fst D) = true.
Proof.
  induction f as [|f IH]; intros D L ps D' H x Hx; [discriminate|].
  destruct ps as [|p rest]; [destruct Hx|].
  rewrite g_block_cons in H. destruct (g_step f false D L p) as [D1|] eqn:E; [|discriminate].
  pose proof (g_step_nested _ _ _ _ _ E) as ->.
  cbn in Hx. apply in_app_or in Hx as [Hx|Hx].
  - eapply wr_dom_step; [|exact E|exact Hx]. exact IH.
  - eapply IH; eauto.
Qed.

Lemma wr_dom_step' f top D L p D1 :
  g_step f top D L p = Some D1 -> forall x, In x (wr p) -> tmem x (map fst D1) = true.
Proof. apply wr_dom_step. apply wr_dom_nested. Qed.

(* ---- the simple translation ---- *)
Lemma tup_globals_names xs es g : In g (tup_globals xs es) -> In (g_name g) xs.
Proof.
  revert es. induction xs as [|x xr IH]; intros [|e er] H; cbn in H; try contradiction.
  destruct H as [<-|H]; [left; reflexivity|right; eapply IH; eauto].
Qed.

Lemma tup_globals_map xs es : length xs = length es -> map g_name (tup_globals xs es) = xs.
Proof.
  revert es. induction xs as [|x xr IH]; intros [|e er] H; cbn in *; try discriminate; [reflexivity|].
  f_equal. apply IH. congruence.
Qed.

Lemma trt_fresh ret : forall ps k D g, In g (snd (trt ret k D ps)) -> tmem (g_name g) D = false.
Proof.
  induction ps as [|p r IH]; intros k D g Hg; [destruct Hg|].
  assert (K : forall k', In g (snd (trt ret k' D r)) -> tmem (g_name g) D = false) by (intro k'; apply IH).
  assert (K2 : forall X, In g (snd (trt ret k (D ++ X) r)) -> tmem (g_name g) D = false).
  { intros X H. apply IH in H. rewrite tmem_app in H. apply orb_false_iff in H as [H _]. exact H. }
  destruct p; cbn [trt snd] in Hg; try (eapply K; exact Hg).
  - destruct (tmem x D) eqn:Ex; [eapply K; exact Hg|].
    destruct (closed_const e); cbn [snd] in Hg; destruct Hg as [<-|Hg]; cbn [g_name]; eauto.
  - match type of Hg with context [if ?c then _ else _] => destruct c eqn:Hc end; cbn [snd] in Hg; [|eapply K; exact Hg].
    apply andb_true_iff in Hc as [Hc _]. apply andb_true_iff in Hc as [_ Hc].
    apply in_app_or in Hg as [Hg|Hg]; [|eapply K2; eauto].
    apply tup_globals_names in Hg. rewrite forallb_forall in Hc. apply Hc in Hg. apply negb_true_iff in Hg. exact Hg.
Qed.

Lemma trt_nodup ret : forall ps k D, NoDup (map g_name (snd (trt ret k D ps))).
Proof.
  induction ps as [|p r IH]; intros k D; [constructor|].
  destruct p; cbn [trt snd]; try apply IH.
  - destruct (tmem x D) eqn:Ex; [apply IH|].
    assert (N : ~ In x (map g_name (snd (trt ret k (D ++ [x]) r)))).
    { intro HI. apply in_map_iff in HI as (g & <- & Hg). apply trt_fresh in Hg.
      rewrite tmem_app in Hg. apply orb_false_iff in Hg as [_ Hg]. cbn in Hg. rewrite text_eqb_refl in Hg. discriminate. }
    destruct (closed_const e); cbn [snd map g_name]; constructor; auto.
  - match goal with |- context [if ?c then _ else _] => destruct c eqn:Hc end; cbn [snd]; [|apply IH].
    apply andb_true_iff in Hc as [Hc H3]. apply andb_true_iff in Hc as [H1 _]. apply Nat.eqb_eq in H1.
    rewrite map_app, (tup_globals_map _ _ H1). apply NoDup_app'; [apply nodupb_NoDup; exact H3|apply IH|].
    intros y Hy HI. apply in_map_iff in HI as (g & <- & Hg). apply trt_fresh in Hg.
    rewrite tmem_app in Hg. apply orb_false_iff in Hg as [_ Hg]. apply tmem_In in Hy. congruence.
Qed.

(* the globals of the main-loop body: fresh, pairwise distinct *)
Lemma trl_fresh ret : forall ps k D g, In g (snd (trl ret k D ps)) -> tmem (g_name g) D = false.
Proof.
  induction ps as [|p r IH]; intros k D g Hg; [destruct Hg|].
  assert (K : forall k', In g (snd (trl ret k' D r)) -> tmem (g_name g) D = false) by (intro k'; apply IH).
  destruct p; cbn [trl snd] in Hg; try (eapply K; exact Hg).
  destruct (tmem x D) eqn:Ex; cbn [snd] in Hg; [eapply K; exact Hg|].
  destruct Hg as [<-|Hg]; [exact Ex|]. apply IH in Hg. rewrite tmem_app in Hg. apply orb_false_iff in Hg as [Hg _]. exact Hg.
Qed.

Lemma trl_nodup ret : forall ps k D, NoDup (map g_name (snd (trl ret k D ps))).
Proof.
  induction ps as [|p r IH]; intros k D; [constructor|].
  destruct p; cbn [trl snd]; try apply IH.
  destruct (tmem x D) eqn:Ex; cbn [snd]; [apply IH|].
  cbn [map g_name]. constructor; [|apply IH].
  intro HI. apply in_map_iff in HI as (g & <- & Hg). apply trl_fresh in Hg.
  rewrite tmem_app in Hg. apply orb_false_iff in Hg as [_ Hg]. cbn in Hg. rewrite text_eqb_refl in Hg. discriminate.
Qed.

Lemma trl_default ret : forall ps k D g, In g (snd (trl ret k D ps)) -> g_init g = XDefault (g_ty g).
Proof.
  induction ps as [|p r IH]; intros k D g Hg; [destruct Hg|].
  destruct p; cbn [trl snd] in Hg; try (eapply IH; exact Hg).
  destruct (tmem x D); cbn [snd] in Hg; [eapply IH; exact Hg|].
  destruct Hg as [<-|Hg]; [reflexivity|eapply IH; exact Hg].
Qed.

Lemma trm_fresh ret k top lm D ps g : In g (snd (trm ret k top lm D ps)) -> tmem (g_name g) (map fst D) = false.
Proof. destruct top, lm; cbn; try (intros []); [apply trl_fresh|apply trt_fresh]. Qed.

Lemma trm_nil ret k top lm D : trm ret k top lm D [] = ([], []).
Proof. destruct top, lm; reflexivity. Qed.

Lemma trm_cons_old ret k top lm D x e rest t : tlookup x D = Some t ->
  trm ret k top lm D (PAssign x e :: rest) = (tr1 ret k (PAssign x e) ++ fst (trm ret k top lm D rest), snd (trm ret k top lm D rest)).
Proof.
  intro H. destruct top; [|reflexivity]. destruct lm; unfold trm; cbn [trt trl];
    match goal with |- context [tmem x ?l] => replace (tmem x l) with true by (symmetry; eapply tlookup_dom_true; eauto) end;
    reflexivity.
Qed.

Lemma trm_cons_new ret k D x e rest : tlookup x D = None ->
  trm ret k true false D (PAssign x e :: rest) =
  if closed_const e
  then (fst (trm ret k true false (D ++ [(x, a_ty e)]) rest),
        {| g_name := x; g_ty := a_ty e; g_init := XE (a_id e) |} :: snd (trm ret k true false (D ++ [(x, a_ty e)]) rest))
  else (NAssign x (XE (a_id e)) :: fst (trm ret k true false (D ++ [(x, a_ty e)]) rest),
        {| g_name := x; g_ty := a_ty e; g_init := XDefault (a_ty e) |} :: snd (trm ret k true false (D ++ [(x, a_ty e)]) rest)).
Proof.
  intro H. unfold trm. cbn [trt].
  match goal with |- context [tmem x ?l] => replace (tmem x l) with false by (symmetry; eapply tlookup_dom_false; eauto) end.
  rewrite map_app. reflexivity.
Qed.

Lemma trm_cons_newl ret k D x e rest : tlookup x D = None ->
  trm ret k true true D (PAssign x e :: rest) =
  (NAssign x (XE (a_id e)) :: fst (trm ret k true true (D ++ [(x, a_ty e)]) rest),
   {| g_name := x; g_ty := a_ty e; g_init := XDefault (a_ty e) |} :: snd (trm ret k true true (D ++ [(x, a_ty e)]) rest)).
Proof.
  intro H. unfold trm. cbn [trl fst snd].
  match goal with |- context [tmem x ?l] => replace (tmem x l) with false by (symmetry; eapply tlookup_dom_false; eauto) end.
  rewrite map_app. reflexivity.
Qed.

Lemma trm_cons_tuple ret k D L xs es rest : tuple_decl_ok D L xs es = true ->
  trm ret k true false D (PTuple xs es :: rest) =
  (tup_nodes xs es ++ fst (trm ret k true false (D ++ combine xs (map a_ty es)) rest),
   tup_globals xs es ++ snd (trm ret k true false (D ++ combine xs (map a_ty es)) rest)).
Proof.
  intro H. apply tuple_decl_ok_inv in H as (Hlen & _ & Hnew & Hnd).
  unfold trm. cbn [trt]. rewrite map_app, map_fst_combine by (rewrite map_length; exact Hlen).
  assert (E : Nat.eqb (length xs) (length es) && forallb (fun x => negb (tmem x (map fst D))) xs && nodupb xs = true).
  { apply Nat.eqb_eq in Hlen. rewrite Hlen, Hnd. cbn. rewrite andb_true_r. apply forallb_forall.
    intros x Hx. apply negb_true_iff. apply (Hnew x Hx). }
  rewrite E. reflexivity.
Qed.

Lemma trm_cons_other ret k top lm D p rest :
  match p with PAssign _ _ | PTuple _ _ => False | _ => True end ->
  trm ret k top lm D (p :: rest) = (tr1 ret k p ++ fst (trm ret (knext k p) top lm D rest), snd (trm ret (knext k p) top lm D rest)).
Proof. intro H. destruct top, lm; destruct p; try reflexivity; destruct H. Qed.

(* a tuple assignment to declared names goes through temporaries at every level *)
Lemma trm_cons_tuple_asg ret k top lm D L xs es rest : tuple_asg_ok D L xs es = true ->
  trm ret k top lm D (PTuple xs es :: rest) =
  (tr1 ret k (PTuple xs es) ++ fst (trm ret (knext k (PTuple xs es)) top lm D rest), snd (trm ret (knext k (PTuple xs es)) top lm D rest)).
Proof.
  intro H. destruct top; [|reflexivity]. destruct lm; [reflexivity|].
  apply tuple_asg_ok_inv in H as (Hne & _ & Ht). apply tuple_asg_tys_inv in Ht as [_ Hd].
  unfold trm. cbn [trt].
  destruct xs as [|x xr]; [congruence|]. destruct (Hd x (or_introl eq_refl)) as [Hx _].
  cbn [forallb]. rewrite Hx. cbn [negb andb]. rewrite andb_false_r. reflexivity.
Qed.


Lemma closed_const_fv e : closed_const e = true -> a_fv e = [].
Proof. unfold closed_const. destruct (a_const e); [|discriminate]. destruct (a_fv e); [reflexivity|discriminate]. Qed.

Lemma bool_contra b : b = true -> b = false -> False.
Proof. intros -> H. discriminate. Qed.

(* ---- the simulation relation ---- *)
Definition Rel (D : tenv) (L : list ident) (rho : penv) (sg : StmtSem.cstore) : Prop :=
  (forall x t, tlookup x D = Some t ->
     exists v, plook rho x = Some v /\ has_ty t v = true /\ tlookup x sg = Some (t, v)) /\
  (forall x, tmem x L = true ->
     exists i, plook rho x = Some (VI i) /\ tlookup x sg = Some (TyInt, VI i)).

Lemma Rel_mono D D1 L rho sg : ext D D1 -> Rel D1 L rho sg -> Rel D L rho sg.
Proof. intros HE [R1 R2]. split; [|exact R2]. intros x t H. apply R1. apply HE. exact H. Qed.

Lemma Rel_set D D1 L rho sg sg' x t v :
  Rel D L rho sg ->
  (forall y t', tlookup y D1 = Some t' -> (y = x /\ t' = t) \/ (y <> x /\ tlookup y D = Some t')) ->
  tmem x L = false -> has_ty t v = true ->
  tlookup x sg' = Some (t, v) -> (forall y, y <> x -> tlookup y sg' = tlookup y sg) ->
  Rel D1 L (pset x v rho) sg'.
Proof.
  intros [R1 R2] HD HL Hv Hx Hy. split.
  - intros y t' Hl. destruct (HD _ _ Hl) as [[-> ->]|[Hn Hl']].
    + exists v. rewrite plook_pset_same. auto.
    + destruct (R1 _ _ Hl') as (u & P1 & P2 & P3). exists u.
      rewrite plook_pset_other by exact Hn. rewrite Hy by exact Hn. auto.
  - intros y Hm. assert (Hn : y <> x) by (intros ->; congruence).
    destruct (R2 _ Hm) as (i & P1 & P2). exists i.
    rewrite plook_pset_other by exact Hn. rewrite Hy by exact Hn. auto.
Qed.

Lemma set_old (D : tenv) x (t : ty) : tlookup x D = Some t ->
  forall y t', tlookup y D = Some t' -> (y = x /\ t' = t) \/ (y <> x /\ tlookup y D = Some t').
Proof.
  intros H y t' Hy. destruct (text_eqb y x) eqn:E.
  - apply text_eqb_eq in E. subst y. left. split; congruence.
  - apply text_eqb_neq in E. right. auto.
Qed.

Lemma set_new (D : tenv) x (t : ty) : tlookup x D = None ->
  forall y t', tlookup y (D ++ [(x, t)]) = Some t' -> (y = x /\ t' = t) \/ (y <> x /\ tlookup y D = Some t').
Proof.
  intros H y t' Hy. rewrite tlookup_app in Hy. destruct (tlookup y D) as [u|] eqn:E.
  - inversion Hy; subst. right. split; [|reflexivity]. intros ->. congruence.
  - cbn in Hy. destruct (text_eqb y x) eqn:Ex; [|discriminate]. apply text_eqb_eq in Ex. inversion Hy. auto.
Qed.

Lemma Rel_push D L rho sg x i :
  Rel D L rho sg -> tmem x (map fst D) = false ->
  Rel D (x :: L) (pset x (VI i) rho) ((x, (TyInt, VI i)) :: sg).
Proof.
  intros [R1 R2] HD. split.
  - intros y t Hl. assert (Hn : y <> x).
    { intros ->. apply tlookup_dom_true in Hl. exact (bool_contra _ Hl HD). }
    destruct (R1 _ _ Hl) as (u & P1 & P2 & P3). exists u.
    rewrite plook_pset_other by exact Hn. cbn [tlookup]. apply text_eqb_neq in Hn. rewrite Hn. auto.
  - intros y Hm. cbn [tmem] in Hm. destruct (text_eqb y x) eqn:E.
    + apply text_eqb_eq in E. subst y. exists i. rewrite plook_pset_same. cbn [tlookup]. rewrite text_eqb_refl. auto.
    + cbn in Hm. destruct (R2 _ Hm) as (j & P1 & P2). exists j.
      rewrite plook_pset_other by (apply text_eqb_neq; exact E). cbn [tlookup]. rewrite E. auto.
Qed.

Lemma Rel_pop D L rho sg x b :
  Rel D (x :: L) rho ((x, b) :: sg) -> tmem x (map fst D) = false -> tmem x L = false -> Rel D L rho sg.
Proof.
  intros [R1 R2] HD HL. split.
  - intros y t Hl. assert (Hn : y <> x).
    { intros ->. apply tlookup_dom_true in Hl. exact (bool_contra _ Hl HD). }
    destruct (R1 _ _ Hl) as (u & P1 & P2 & P3). exists u.
    cbn [tlookup] in P3. apply text_eqb_neq in Hn. rewrite Hn in P3. auto.
  - intros y Hm. assert (Hn : y <> x) by (intros ->; congruence).
    assert (Hm' : tmem y (x :: L) = true) by (cbn; rewrite Hm; apply orb_true_r).
    destruct (R2 _ Hm') as (j & P1 & P2). exists j.
    cbn [tlookup] in P2. apply text_eqb_neq in Hn. rewrite Hn in P2. auto.
Qed.

Lemma args_agree D L rho sg fv :
  Rel D L rho sg -> forallb (fun x => tmem x (map fst D) || tmem x L) fv = true ->
  map (clook sg) fv = map (plook rho) fv /\ Forall (fun o => o <> None) (map (plook rho) fv).
Proof.
  intros [R1 R2]. induction fv as [|y r IH]; cbn; [split; [reflexivity|constructor]|].
  intro H. apply andb_true_iff in H as [Hy Hr]. destruct (IH Hr) as [I1 I2].
  assert (K : exists v, plook rho y = Some v /\ clook sg y = Some v).
  { apply orb_true_iff in Hy as [Hy|Hy].
    - apply tmem_dom_lookup in Hy as [t Ht]. destruct (R1 _ _ Ht) as (v & P1 & _ & P3).
      exists v. split; [exact P1|]. unfold clook. rewrite P3. reflexivity.
    - destruct (R2 _ Hy) as (i & P1 & P2). exists (VI i). split; [exact P1|].
      unfold clook. rewrite P2. reflexivity. }
  destruct K as (v & K1 & K2). rewrite K1, K2, I1. split; [reflexivity|].
  constructor; [discriminate|exact I2].
Qed.

Lemma clook_head x b (sg : StmtSem.cstore) : clook ((x, b) :: sg) x = Some (snd b).
Proof. unfold clook. cbn [tlookup]. rewrite text_eqb_refl. reflexivity. Qed.

Lemma clook_tail x y b (sg : StmtSem.cstore) : y <> x -> clook ((x, b) :: sg) y = clook sg y.
Proof. intro H. unfold clook. cbn [tlookup]. apply text_eqb_neq in H. rewrite H. reflexivity. Qed.

Lemma tlookup_nodup {A} (l : list (text * A)) k v :
  NoDup (map fst l) -> In (k, v) l -> tlookup k l = Some v.
Proof.
  induction l as [|[k0 v0] r IH]; [intros _ []|]. cbn [map fst]. intros HN [E|I].
  - inversion E; subst. cbn. rewrite text_eqb_refl. reflexivity.
  - inversion HN as [|? ? Hni HN']; subst. cbn. destruct (text_eqb k k0) eqn:Ek.
    + apply text_eqb_eq in Ek. subst k0. exfalso. apply Hni. apply in_map_iff. exists (k, v). auto.
    + apply IH; assumption.
Qed.

Lemma Rel_drop D D1 L rho (sg : StmtSem.cstore) q :
  Rel D1 L rho (q :: sg) -> ext D D1 -> tmem (fst q) (map fst D) = false -> tmem (fst q) L = false ->
  Rel D L rho sg.
Proof.
  intros [R1 R2] HE HD HL. destruct q as [x b]. cbn [fst] in *. split.
  - intros y t Hl. assert (Hn : y <> x).
    { intros ->. apply tlookup_dom_true in Hl. exact (bool_contra _ Hl HD). }
    destruct (R1 _ _ (HE _ _ Hl)) as (u & P1 & P2 & P3). exists u.
    cbn [tlookup] in P3. apply text_eqb_neq in Hn. rewrite Hn in P3. auto.
  - intros y Hm. assert (Hn : y <> x) by (intros ->; congruence).
    destruct (R2 _ Hm) as (j & P1 & P2). exists j.
    cbn [tlookup] in P2. apply text_eqb_neq in Hn. rewrite Hn in P2. auto.
Qed.

Lemma Fr_cons_inv' N p (a b : SimStoreP.cstore) :
  Fr N (p :: a) b -> exists q b', b = q :: b' /\ fst q = fst p /\ Fr N a b'.
Proof.
  intro H. inversion H as [|? q ? b' (E1 & E2 & E3) Hr]; subst. exists q, b'. auto.
Qed.

Lemma lastn_app_r {A} n (l1 l2 : list A) : length l2 = n -> lastn n (l1 ++ l2) = l2.
Proof.
  intro H. unfold lastn. rewrite app_length, H.
  replace (length l1 + n - n)%nat with (length l1) by lia.
  induction l1 as [|x l1 IH]; cbn; [reflexivity|exact IH].
Qed.

Lemma Rel_frame D L rho (sg sg' : StmtSem.cstore) :
  Rel D L rho sg ->
  (forall y, tmem y (map fst D) = true \/ tmem y L = true -> tlookup y sg' = tlookup y sg) ->
  Rel D L rho sg'.
Proof.
  intros [R1 R2] H. split.
  - intros y t Hl. destruct (R1 _ _ Hl) as (u & P1 & P2 & P3). exists u.
    rewrite H by (left; eapply tlookup_dom_true; eauto). auto.
  - intros y Hm. destruct (R2 _ Hm) as (i & P1 & P2). exists i. rewrite H by (right; exact Hm). auto.
Qed.

Lemma tmem_false_lookup {A} x (l : list (text * A)) : tmem x (map fst l) = false -> tlookup x l = None.
Proof.
  intro H. destruct (tlookup x l) eqn:E; [|reflexivity]. apply tlookup_dom_true in E. exact (match bool_contra _ E H with end).
Qed.

(* ---- declared names are not temporaries' names ---- *)
Definition NT (D : tenv) (L : list ident) : Prop :=
  forall x, tmem x (map fst D) = true \/ tmem x L = true -> is_tmp x = false.

Lemma NT_push D L x : NT D L -> is_tmp x = false -> NT D (x :: L).
Proof.
  intros H Hx y [Hy|Hy]; [apply H; left; exact Hy|]. cbn [tmem] in Hy.
  destruct (text_eqb y x) eqn:E; [apply text_eqb_eq in E; subst; exact Hx|]. apply H. right. exact Hy.
Qed.

Lemma NT_app D L X : NT D L -> (forall x, In x (map fst X) -> is_tmp x = false) -> NT (D ++ X) L.
Proof.
  intros H HX y [Hy|Hy]; [|apply H; right; exact Hy].
  rewrite map_app, tmem_app in Hy. apply orb_true_iff in Hy as [Hy|Hy]; [apply H; left; exact Hy|].
  apply HX. apply tmem_In. exact Hy.
Qed.

Lemma g_step_NT f top D L p D1 : g_step f top D L p = Some D1 -> NT D L -> NT D1 L.
Proof.
  intros HS HNT. destruct (g_step_cases _ _ _ _ _ _ HS) as [->|[(x & e & -> & -> & Hl & ->)|(xs & es & -> & -> & _ & Hk & ->)]].
  - exact HNT.
  - apply NT_app; [exact HNT|]. intros y [<-|[]].
    cbn [g_step] in HS. destruct (negb (fv_ok D L e) || tmem x L); [discriminate|]. rewrite Hl in HS.
    cbn [fst]. destruct (is_tmp x); [discriminate|reflexivity].
  - apply NT_app; [exact HNT|]. intros y Hy.
    destruct (tuple_decl_ok_inv _ _ _ _ Hk) as (Hlen & _).
    rewrite map_fst_combine in Hy by (rewrite map_length; exact Hlen).
    eapply tuple_decl_ok_nt; eauto.
Qed.

Lemma no_top_tuple_tail D D1 p rest : ext D D1 -> no_top_tuple D (p :: rest) = true -> no_top_tuple D1 rest = true.
Proof.
  intros HE H. cbn [no_top_tuple forallb] in H. apply andb_true_iff in H as [_ H].
  unfold no_top_tuple in *. rewrite forallb_forall in *. intros q Hq. specialize (H q Hq).
  destruct q; try exact H. destruct xs as [|x xr]; [exact H|].
  rewrite forallb_forall in *. intros y Hy. eapply ext_dom; [exact HE|]. apply H. exact Hy.
Qed.

Lemma no_top_tuple_decl D L xs es rest :
  no_top_tuple D (PTuple xs es :: rest) = true -> tuple_decl_ok D L xs es = true -> False.
Proof.
  intros H Hk. cbn [no_top_tuple forallb] in H. apply andb_true_iff in H as [H _].
  destruct xs as [|x xr]; [discriminate|]. rewrite forallb_forall in H. specialize (H x (or_introl eq_refl)).
  destruct (tuple_decl_ok_inv _ _ _ _ Hk) as (_ & _ & Hn & _). destruct (Hn x (or_introl eq_refl)) as [A _]. congruence.
Qed.

(* a binding of a temporary on top of the store is invisible to the relation *)
Lemma Rel_tmp D L rho (sg : StmtSem.cstore) k b : NT D L -> Rel D L rho sg -> Rel D L rho ((tmp_name k, b) :: sg).
Proof.
  intros HNT HR. eapply Rel_frame; [exact HR|]. intros y Hy. cbn [tlookup].
  destruct (text_eqb y (tmp_name k)) eqn:E; [|reflexivity].
  apply text_eqb_eq in E. subst y. apply HNT in Hy. discriminate.
Qed.

Lemma g_block_NT : forall f top D L ps D', g_block f top D L ps = Some D' -> NT D L -> NT D' L.
Proof.
  induction f as [|f IH]; intros top D L ps D' H HN; [discriminate|].
  destruct ps as [|p rest]; [inversion H; subst; exact HN|].
  rewrite g_block_cons in H. destruct (g_step f top D L p) as [D1|] eqn:E; [|discriminate].
  eapply IH; [exact H|]. eapply g_step_NT; eauto.
Qed.

Definition TmpKeys (T : StmtSem.cstore) : Prop := forall z, tmem z (map fst T) = true -> is_tmp z = true.

Lemma tlookup_skip_tmps (T s : StmtSem.cstore) y : TmpKeys T -> is_tmp y = false -> tlookup y (T ++ s) = tlookup y s.
Proof.
  intros HT Hy. rewrite tlookup_app. destruct (tlookup y T) eqn:E; [|reflexivity].
  apply tlookup_dom_true in E. apply HT in E. congruence.
Qed.

Lemma Rel_tmps D L rho (T s : StmtSem.cstore) : NT D L -> TmpKeys T -> Rel D L rho s -> Rel D L rho (T ++ s).
Proof. intros HN HT HR. eapply Rel_frame; [exact HR|]. intros y Hy. apply tlookup_skip_tmps; [exact HT|apply HN; exact Hy]. Qed.

Lemma Rel_untmps D L rho (T s : StmtSem.cstore) : NT D L -> TmpKeys T -> Rel D L rho (T ++ s) -> Rel D L rho s.
Proof. intros HN HT HR. eapply Rel_frame; [exact HR|]. intros y Hy. symmetry. apply tlookup_skip_tmps; [exact HT|apply HN; exact Hy]. Qed.

Lemma TmpKeys_app T1 T2 : TmpKeys T1 -> TmpKeys T2 -> TmpKeys (T1 ++ T2).
Proof. intros H1 H2 z Hz. rewrite map_app, tmem_app in Hz. apply orb_true_iff in Hz as [Hz|Hz]; auto. Qed.

Lemma TmpKeys_nil : TmpKeys [].
Proof. intros z Hz. discriminate. Qed.

Lemma Fr_app_inv N (a1 a2 b : SimStoreP.cstore) : Fr N (a1 ++ a2) b ->
  exists b1 b2, b = b1 ++ b2 /\ Fr N a1 b1 /\ Fr N a2 b2.
Proof.
  revert b. induction a1 as [|p a1 IH]; intros b H.
  - exists [], b. split; [reflexivity|]. split; [constructor|exact H].
  - inversion H as [|? q ? b' Hpq Hr]; subst. destruct (IH b' Hr) as (b1 & b2 & -> & H1 & H2).
    exists (q :: b1), b2. split; [reflexivity|]. split; [constructor; assumption|exact H2].
Qed.

Lemma Fr_keys N (a b : SimStoreP.cstore) : Fr N a b -> map fst b = map fst a.
Proof. induction 1 as [|p q a b (E1 & _) _ IH]; cbn; [reflexivity|]. rewrite IH, E1. reflexivity. Qed.

Lemma Fr_TmpKeys N (a b : SimStoreP.cstore) : Fr N a b -> TmpKeys a -> TmpKeys b.
Proof. intros H HT z Hz. rewrite (Fr_keys _ _ _ H) in Hz. apply HT. exact Hz. Qed.

(* the globals a guarded top-level statement list declares have proper (non-temporary) names *)
Lemma trt_names_nt ret : forall ps gf k D L D' g,
  g_block gf true D L ps = Some D' -> In g (snd (trt ret k (map fst D) ps)) -> is_tmp (g_name g) = false.
Proof.
  induction ps as [|p r IH]; intros gf k D L D' g HG Hg; [destruct Hg|].
  apply g_block_cons_inv in HG as (gf' & D1 & -> & HS & HG).
  assert (SAME : D1 = D -> forall k', In g (snd (trt ret k' (map fst D) r)) -> is_tmp (g_name g) = false).
  { intros -> k' H. eapply IH; eauto. }
  destruct p; cbn [trt snd] in Hg.
  all: try (destruct (g_step_cases _ _ _ _ _ _ HS) as [E|[(x0 & e0 & E & _)|(xs0 & es0 & E & _)]]; try discriminate E;
            eapply SAME; [exact E|exact Hg]).
  - (* PAssign *)
    cbn [g_step] in HS. destruct (negb (fv_ok D L e) || tmem x L); [discriminate|].
    destruct (tlookup x D) as [t|] eqn:Hl.
    + match type of Hg with context [tmem x ?l] => replace (tmem x l) with true in Hg by (symmetry; eapply tlookup_dom_true; eauto) end. destruct (ty_eqb t (a_ty e)); [|discriminate]. inversion HS; subst D1.
      eapply SAME; [reflexivity|exact Hg].
    + match type of Hg with context [tmem x ?l] => replace (tmem x l) with false in Hg by (symmetry; eapply tlookup_dom_false; eauto) end.
      destruct (is_tmp x) eqn:Hxt; [discriminate HS|].
      cbn [andb negb] in HS. inversion HS; subst D1.
      destruct (closed_const e); cbn [snd] in Hg; (destruct Hg as [<-|Hg]; [exact Hxt|]);
        (eapply IH; [exact HG|]; rewrite map_app; exact Hg).
  - (* PTuple *)
    cbn [g_step] in HS.
    match type of Hg with context [if ?c then _ else _] => destruct c eqn:Hc end; cbn [snd] in Hg.
    + destruct (tuple_asg_ok D L xs es) eqn:Hq.
      { exfalso. apply tuple_asg_ok_inv in Hq as (Hne & _ & Hty). apply tuple_asg_tys_inv in Hty as [_ Hd].
        destruct xs as [|x xr]; [congruence|]. destruct (Hd x (or_introl eq_refl)) as [Hx _].
        apply andb_true_iff in Hc as [Hc _]. apply andb_true_iff in Hc as [_ Hc]. cbn [forallb] in Hc.
        rewrite Hx in Hc. discriminate. }
      cbn [andb] in HS. destruct (tuple_decl_ok D L xs es) eqn:Hk; [|discriminate]. inversion HS; subst D1.
      destruct (tuple_decl_ok_inv _ _ _ _ Hk) as (Hlen & _).
      apply in_app_or in Hg as [Hg|Hg].
      * apply tup_globals_names in Hg. eapply tuple_decl_ok_nt; eauto.
      * eapply IH; [exact HG|]. rewrite map_app, map_fst_combine by (rewrite map_length; exact Hlen). exact Hg.
    + destruct (tuple_asg_ok D L xs es) eqn:Hq.
      { inversion HS; subst D1. eapply SAME; [reflexivity|exact Hg]. }
      cbn [andb] in HS. destruct (tuple_decl_ok D L xs es) eqn:Hk; [|discriminate]. exfalso.
      destruct (tuple_decl_ok_inv _ _ _ _ Hk) as (Hlen & _ & Hnew & Hnd).
      apply Nat.eqb_eq in Hlen. rewrite Hlen, Hnd in Hc. cbn in Hc. rewrite andb_true_r in Hc.
      assert (X : forallb (fun x => negb (tmem x (map fst D))) xs = true).
      { apply forallb_forall. intros x Hx. apply negb_true_iff. apply (Hnew x Hx). }
      congruence.
Qed.

(* ... and so have the globals the guarded main-loop body declares *)
Lemma trl_names_nt ret : forall ps gf k D L D' g,
  no_top_tuple D ps = true ->
  g_block gf true D L ps = Some D' -> In g (snd (trl ret k (map fst D) ps)) -> is_tmp (g_name g) = false.
Proof.
  induction ps as [|p r IH]; intros gf k D L D' g HT HG Hg; [destruct Hg|].
  apply g_block_cons_inv in HG as (gf' & D1 & -> & HS & HG).
  pose proof (no_top_tuple_tail D D1 p r (g_step_ext _ _ _ _ _ _ HS) HT) as HT1.
  destruct (g_step_cases _ _ _ _ _ _ HS) as [E|[(x0 & e0 & E & _ & Hl & E1)|(xs0 & es0 & E & _ & _ & Hk & _)]].
  - subst D1. destruct p; cbn [trl snd] in Hg; try (eapply IH; [exact HT1|exact HG|exact Hg]).
    destruct (tmem x (map fst D)) eqn:Ex; cbn [snd] in Hg; [eapply IH; [exact HT1|exact HG|exact Hg]|].
    exfalso. cbn [g_step] in HS. destruct (negb (fv_ok D L e) || tmem x L); [discriminate|].
    destruct (tlookup x D) as [t|] eqn:Hl.
    + erewrite tlookup_dom_true in Ex by eauto. discriminate.
    + destruct (true && negb (is_tmp x)); [|discriminate]. inversion HS as [HD].
      assert (Hlen : length (D ++ [(x, a_ty e)]) = length D) by (rewrite HD; reflexivity).
      rewrite app_length in Hlen. cbn in Hlen. clear - Hlen. induction (length D); cbn in Hlen; [discriminate|]. apply IHn. injection Hlen as Hlen. exact Hlen.
  - subst p D1. cbn [trl snd] in Hg.
    replace (tmem x0 (map fst D)) with false in Hg by (symmetry; eapply tlookup_dom_false; eauto).
    cbn [snd] in Hg. destruct Hg as [<-|Hg].
    + cbn [g_name]. cbn [g_step] in HS. destruct (negb (fv_ok D L e0) || tmem x0 L); [discriminate|]. rewrite Hl in HS.
      destruct (is_tmp x0); [discriminate|reflexivity].
    + eapply IH; [exact HT1|exact HG|]. rewrite map_app. exact Hg.
  - subst p. exfalso. eapply no_top_tuple_decl; eauto.
Qed.

(* the globals a guarded top-level statement list declares are names of its final declaration environment *)
Lemma trt_names_in ret : forall ps gf k D L D' g,
  g_block gf true D L ps = Some D' -> In g (snd (trt ret k (map fst D) ps)) -> tmem (g_name g) (map fst D') = true.
Proof.
  induction ps as [|p r IH]; intros gf k D L D' g HG Hg; [destruct Hg|].
  apply g_block_cons_inv in HG as (gf' & D1 & -> & HS & HG).
  pose proof (g_block_ext _ _ _ _ _ _ HG) as HX.
  assert (SAME : D1 = D -> forall k', In g (snd (trt ret k' (map fst D) r)) -> tmem (g_name g) (map fst D') = true).
  { intros -> k' H. eapply IH; eauto. }
  destruct p; cbn [trt snd] in Hg.
  all: try (destruct (g_step_cases _ _ _ _ _ _ HS) as [E|[(x0 & e0 & E & _)|(xs0 & es0 & E & _)]]; try discriminate E;
            eapply SAME; [exact E|exact Hg]).
  - (* PAssign *)
    cbn [g_step] in HS. destruct (negb (fv_ok D L e) || tmem x L); [discriminate|].
    destruct (tlookup x D) as [t|] eqn:Hl.
    + match type of Hg with context [tmem x ?l] => replace (tmem x l) with true in Hg by (symmetry; eapply tlookup_dom_true; eauto) end. destruct (ty_eqb t (a_ty e)); [|discriminate]. inversion HS; subst D1.
      eapply SAME; [reflexivity|exact Hg].
    + match type of Hg with context [tmem x ?l] => replace (tmem x l) with false in Hg by (symmetry; eapply tlookup_dom_false; eauto) end.
      destruct (is_tmp x) eqn:Hxt; [discriminate HS|].
      cbn [andb negb] in HS. inversion HS; subst D1.
      assert (Hx : tmem x (map fst D') = true).
      { eapply ext_dom; [exact HX|]. rewrite map_app, tmem_app. cbn. rewrite text_eqb_refl. apply orb_true_r. }
      destruct (closed_const e); cbn [snd] in Hg; (destruct Hg as [<-|Hg]; [exact Hx|]);
        (eapply IH; [exact HG|]; rewrite map_app; exact Hg).
  - (* PTuple *)
    cbn [g_step] in HS.
    match type of Hg with context [if ?c then _ else _] => destruct c eqn:Hc end; cbn [snd] in Hg.
    + destruct (tuple_asg_ok D L xs es) eqn:Hq.
      { exfalso. apply tuple_asg_ok_inv in Hq as (Hne & _ & Hty). apply tuple_asg_tys_inv in Hty as [_ Hd].
        destruct xs as [|x xr]; [congruence|]. destruct (Hd x (or_introl eq_refl)) as [Hx _].
        apply andb_true_iff in Hc as [Hc _]. apply andb_true_iff in Hc as [_ Hc]. cbn [forallb] in Hc.
        rewrite Hx in Hc. discriminate. }
      cbn [andb] in HS. destruct (tuple_decl_ok D L xs es) eqn:Hk; [|discriminate]. inversion HS; subst D1.
      destruct (tuple_decl_ok_inv _ _ _ _ Hk) as (Hlen & _).
      apply in_app_or in Hg as [Hg|Hg].
      * apply tup_globals_names in Hg. eapply ext_dom; [exact HX|].
        rewrite map_app, tmem_app, map_fst_combine by (rewrite map_length; exact Hlen).
        apply tmem_In in Hg. rewrite Hg. apply orb_true_r.
      * eapply IH; [exact HG|]. rewrite map_app, map_fst_combine by (rewrite map_length; exact Hlen). exact Hg.
    + destruct (tuple_asg_ok D L xs es) eqn:Hq.
      { inversion HS; subst D1. eapply SAME; [reflexivity|exact Hg]. }
      cbn [andb] in HS. destruct (tuple_decl_ok D L xs es) eqn:Hk; [|discriminate]. exfalso.
      destruct (tuple_decl_ok_inv _ _ _ _ Hk) as (Hlen & _ & Hnew & Hnd).
      apply Nat.eqb_eq in Hlen. rewrite Hlen, Hnd in Hc. cbn in Hc. rewrite andb_true_r in Hc.
      assert (X : forallb (fun x => negb (tmem x (map fst D))) xs = true).
      { apply forallb_forall. intros x Hx. apply negb_true_iff. apply (Hnew x Hx). }
      congruence.
Qed.
