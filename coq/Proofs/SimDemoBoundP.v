(* The simulation theorem instantiated on a for-range loop whose bound is a bare variable: every initial value, every
   number of passes. *)
From Coq Require Import ZArith QArith List Bool Lia.
From RV Require Import Base.Wire Base.Text Lang.StmtAst Lang.Transl Lang.StmtSem Lang.StmtGuard
  Lang.SemFacts Lang.StmtSimple Lang.StmtDemo Lang.StmtDemoBound.
From RV Require Import Proofs.SimTopP Proofs.SimDemoP.
Import ListNotations.
Open Scope Z_scope.

Lemma demo_bound_facts : forall v0, sem_facts (demo_bound_sem v0) demo_aug demo_bound.
Proof.
  intro v0. split.
  - intros a Ha args v _ Hs. typed_cases Ha Hs.
  - intros op e t Ha. cbn in Ha. destruct Ha.
Qed.

Lemma demo_bound_guard : guard_ok demo_bound = true.
Proof. vm_compute; reflexivity. Qed.

Lemma demo_bound_follows :
  forall v0 fuel n tr,
    pprog_exec (demo_bound_sem v0) demo_aug fuel n demo_bound = Some tr ->
    exists c, transl demo_bound = Some c /\
      (exists r, c_loop c = NFor ni 2 [NWrite 3] :: r) /\
      exists F, forall F', (F <= F')%nat ->
        cprog_exec (demo_bound_sem v0) demo_aug (info_of demo_bound) F' n true c = Some tr.
Proof.
  intros v0 fuel n tr Hp.
  destruct (transl demo_bound) as [c|] eqn:Ht; [|vm_compute in Ht; discriminate].
  exists c. split; [reflexivity|]. split.
  - vm_compute in Ht. inversion Ht. eexists. reflexivity.
  - exact (stmt_preserve_partial (demo_bound_sem v0) demo_aug demo_bound c Ht demo_bound_guard (demo_bound_facts v0) fuel n tr Hp).
Qed.

Lemma demo_bound_ok :
  guard_ok demo_bound = true /\ breaks_ok demo_bound = true /\
  pprog_exec (demo_bound_sem 1) demo_aug 30 3 demo_bound = Some demo_bound_trace /\
  exists c, transl demo_bound = Some c /\
            cprog_exec (demo_bound_sem 1) demo_aug (info_of demo_bound) 30 3 true c = Some demo_bound_trace.
Proof.
  split; [vm_compute; reflexivity|]. split; [vm_compute; reflexivity|]. split; [vm_compute; reflexivity|].
  eexists. split; [vm_compute; reflexivity|]. vm_compute. reflexivity.
Qed.
