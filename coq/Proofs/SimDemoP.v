(* Non-vacuity of the statement-layer simulation theorem and the witnesses that force the
   clauses of its guard. *)
From Coq Require Import ZArith QArith List Bool Lia.
From RV Require Import Base.Wire Base.Text Lang.StmtAst Lang.Transl Lang.StmtSem Lang.StmtGuard
  Lang.SemFacts Lang.StmtSimple Lang.StmtDemo.
Import ListNotations.
Open Scope Z_scope.

Ltac typed_cases Ha Hs :=
  cbn in Ha; repeat (destruct Ha as [<-|Ha]; [|]); try contradiction;
  cbn in Hs;
  repeat match type of Hs with
         | match ?x with _ => _ end = _ => destruct x; try discriminate
         end;
  inversion Hs; reflexivity.

Lemma demo_facts : sem_facts demo_sem demo_aug demo.
Proof.
  split.
  - intros a Ha args v _ Hs. typed_cases Ha Hs.
  - intros op e t Ha u v w Hu Hv Hw. cbn in Ha. destruct Ha as [Ha|[]]. inversion Ha; subst.
    destruct u, v; cbn in Hw; try discriminate. inversion Hw. reflexivity.
Qed.

Lemma demo_ok :
  guard_ok demo = true /\ sem_facts demo_sem demo_aug demo /\
  pprog_exec demo_sem demo_aug 30 4 demo = Some demo_trace /\
  exists c, transl demo = Some c /\
            cprog_exec demo_sem demo_aug (info_of demo) 30 4 true c = Some demo_trace.
Proof.
  split; [vm_compute; reflexivity|]. split; [exact demo_facts|]. split; [vm_compute; reflexivity|].
  eexists. split; [vm_compute; reflexivity|]. vm_compute. reflexivity.
Qed.

Lemma reeval_facts : sem_facts reeval_sem demo_aug reeval.
Proof.
  split.
  - intros a Ha args v _ Hs. typed_cases Ha Hs.
  - intros op e t Ha. cbn in Ha. destruct Ha.
Qed.

Lemma reeval_refuted :
  exists c trP trC,
    transl reeval = Some c /\ sem_facts reeval_sem demo_aug reeval /\
    pprog_exec reeval_sem demo_aug 20 0 reeval = Some trP /\
    cprog_exec reeval_sem demo_aug (info_of reeval) 20 0 false c = Some trC /\
    trP <> trC /\ guard_ok reeval = false.
Proof.
  eexists. exists [EvSer (VI 0); EvSer (VI 1); EvSer (VI 2)], [EvSer (VI 0); EvSer (VI 1)].
  split; [vm_compute; reflexivity|]. split; [exact reeval_facts|].
  split; [vm_compute; reflexivity|]. split; [vm_compute; reflexivity|].
  split; [discriminate|vm_compute; reflexivity].
Qed.

Lemma loopvar_facts : sem_facts loopvar_sem demo_aug loopvar.
Proof.
  split.
  - intros a Ha args v _ Hs. typed_cases Ha Hs.
  - intros op e t Ha. cbn in Ha. destruct Ha.
Qed.

Lemma loopvar_refuted :
  exists c trP trC,
    transl loopvar = Some c /\ sem_facts loopvar_sem demo_aug loopvar /\
    pprog_exec loopvar_sem demo_aug 40 0 loopvar = Some trP /\
    cprog_exec loopvar_sem demo_aug (info_of loopvar) 40 0 false c = Some trC /\
    trP <> trC /\ guard_ok loopvar = false.
Proof.
  eexists. exists [EvSer (VI 0); EvSer (VI 2); EvSer (VI 1); EvSer (VI 3); EvSer (VI 2); EvSer (VI 4); EvSer (VI 3); EvSer (VI 5)],
                  [EvSer (VI 0); EvSer (VI 2); EvSer (VI 3); EvSer (VI 5)].
  split; [vm_compute; reflexivity|]. split; [exact loopvar_facts|].
  split; [vm_compute; reflexivity|]. split; [vm_compute; reflexivity|].
  split; [discriminate|vm_compute; reflexivity].
Qed.

Lemma retype_facts : sem_facts retype_sem demo_aug retype.
Proof.
  split.
  - intros a Ha args v _ Hs. typed_cases Ha Hs.
  - intros op e t Ha. cbn in Ha. destruct Ha.
Qed.

Lemma retype_refuted :
  exists c trP trC,
    transl retype = Some c /\ sem_facts retype_sem demo_aug retype /\
    pprog_exec retype_sem demo_aug 20 0 retype = Some trP /\
    cprog_exec retype_sem demo_aug (info_of retype) 20 0 false c = Some trC /\
    trP <> trC /\ guard_ok retype = false.
Proof.
  eexists. exists [EvSer (VF (5 # 2))], [EvSer (VF (inject_Z 2))].
  split; [vm_compute; reflexivity|]. split; [exact retype_facts|].
  split; [vm_compute; reflexivity|]. split; [vm_compute; reflexivity|].
  split; [discriminate|vm_compute; reflexivity].
Qed.

Lemma reinit_facts : sem_facts reinit_sem demo_aug reinit.
Proof.
  split.
  - intros a Ha args v _ Hs. typed_cases Ha Hs.
  - intros op e t Ha. cbn in Ha. destruct Ha.
Qed.

(* the witness of the repaired finding F-C01-hoisted-decl-reinit: both sides write 5 (the device used to write 0);
   the program stays outside the guard of the simulation theorem (it hoists), so this is a statement about the witness *)
Lemma reinit_preserved :
  exists c tr,
    transl reinit = Some c /\ sem_facts reinit_sem demo_aug reinit /\
    pprog_exec reinit_sem demo_aug 20 0 reinit = Some tr /\
    cprog_exec reinit_sem demo_aug (info_of reinit) 20 0 false c = Some tr /\
    tr = [EvSer (VI 5)] /\ guard_ok reinit = false.
Proof.
  eexists. exists [EvSer (VI 5)].
  split; [vm_compute; reflexivity|]. split; [exact reinit_facts|].
  split; [vm_compute; reflexivity|]. split; [vm_compute; reflexivity|].
  split; [reflexivity|vm_compute; reflexivity].
Qed.

Lemma looplocal_facts : sem_facts looplocal_sem demo_aug looplocal.
Proof.
  split.
  - intros a Ha args v _ Hs. typed_cases Ha Hs.
  - intros op e t Ha. cbn in Ha. destruct Ha.
Qed.

(* the witness of the repaired finding F-C01-loop-local-reinit: z, first assigned under an `if` inside `while True:`,
   is a sketch global; both sides write 5 5 (the device used to write 5 0) *)
Lemma looplocal_preserved :
  exists c tr,
    transl looplocal = Some c /\ sem_facts looplocal_sem demo_aug looplocal /\
    pprog_exec looplocal_sem demo_aug 20 2 looplocal = Some tr /\
    cprog_exec looplocal_sem demo_aug (info_of looplocal) 20 2 true c = Some tr /\
    tr = [EvSer (VI 5); EvSer (VI 5)] /\ map g_name (c_globals c) = [[119]; [122]] /\ guard_ok looplocal = false.
Proof.
  eexists. exists [EvSer (VI 5); EvSer (VI 5)].
  split; [vm_compute; reflexivity|]. split; [exact looplocal_facts|].
  split; [vm_compute; reflexivity|]. split; [vm_compute; reflexivity|].
  split; [reflexivity|]. split; vm_compute; reflexivity.
Qed.

(* the two rewriters drop the hoisted declaration of a name the enclosing block hoists again, keep every other node,
   and still turn a first assignment into a plain assignment *)
Lemma hoisted_dropped pn x t l : tmem x pn = true ->
  map (rewrite_deep pn) (drop_hoisted pn (NDecl x t (XDefault t) false :: l)) = map (rewrite_deep pn) (drop_hoisted pn l) /\
  map (rewrite_if pn) (drop_hoisted pn (NDecl x t (XDefault t) false :: l)) = map (rewrite_if pn) (drop_hoisted pn l).
Proof. intro H. unfold drop_hoisted. cbn [filter is_hoisted]. rewrite H. cbn [negb]. split; reflexivity. Qed.

Lemma first_assignment_kept pn x t id l : tmem x pn = true ->
  map (rewrite_deep pn) (drop_hoisted pn (NDecl x t (XE id) false :: l)) = NAssign x (XE id) :: map (rewrite_deep pn) (drop_hoisted pn l) /\
  map (rewrite_if pn) (drop_hoisted pn (NDecl x t (XE id) false :: l)) = NAssign x (XE id) :: map (rewrite_if pn) (drop_hoisted pn l).
Proof. intro H. unfold drop_hoisted. cbn [filter is_hoisted negb map]. cbn [rewrite_deep rewrite_if]. rewrite H. split; reflexivity. Qed.

(* a first assignment at the body level of the main loop: a global with the default initialiser, the assignment in place;
   no static initialiser even for a name-free constant (the assignment runs on every pass) *)
Lemma main_loop_first_assignment x e s : is_declared x s = false ->
  tr_assign true x (rt_ann true e) s =
  ([NAssign x (XE (a_id e))],
   add_global {| g_name := x; g_ty := a_ty e; g_init := XDefault (a_ty e) |} (declare x (with_ty x (a_ty e) s))).
Proof. intro H. unfold tr_assign. cbn [rt_ann a_ty a_id]. rewrite H. reflexivity. Qed.

Lemma demo_local_facts : sem_facts demo_local_sem demo_aug demo_local.
Proof.
  split.
  - intros a Ha args v _ Hs. typed_cases Ha Hs.
  - intros op e t Ha. cbn in Ha. destruct Ha.
Qed.

Lemma demo_local_ok :
  guard_ok demo_local = true /\ sem_facts demo_local_sem demo_aug demo_local /\
  pprog_exec demo_local_sem demo_aug 30 3 demo_local = Some demo_local_trace /\
  exists c, transl demo_local = Some c /\
            cprog_exec demo_local_sem demo_aug (info_of demo_local) 30 3 true c = Some demo_local_trace.
Proof.
  split; [vm_compute; reflexivity|]. split; [exact demo_local_facts|]. split; [vm_compute; reflexivity|].
  eexists. split; [vm_compute; reflexivity|]. vm_compute. reflexivity.
Qed.

Lemma demo_tuple_facts : sem_facts demo_tuple_sem demo_aug demo_tuple.
Proof.
  split.
  - intros a Ha args v _ Hs. typed_cases Ha Hs.
  - intros op e t Ha. cbn in Ha. destruct Ha.
Qed.

Lemma demo_tuple_ok :
  guard_ok demo_tuple = true /\ sem_facts demo_tuple_sem demo_aug demo_tuple /\
  pprog_exec demo_tuple_sem demo_aug 30 0 demo_tuple = Some demo_tuple_trace /\
  exists c, transl demo_tuple = Some c /\
            cprog_exec demo_tuple_sem demo_aug (info_of demo_tuple) 30 0 false c = Some demo_tuple_trace.
Proof.
  split; [vm_compute; reflexivity|]. split; [exact demo_tuple_facts|]. split; [vm_compute; reflexivity|].
  eexists. split; [vm_compute; reflexivity|]. vm_compute. reflexivity.
Qed.

Lemma demo_breaks_ok : guard_ok demo = true /\ StmtSimple.breaks_ok demo = true /\ sem_facts demo_sem demo_aug demo.
Proof. split; [vm_compute; reflexivity|]. split; [vm_compute; reflexivity|exact demo_facts]. Qed.

Lemma demo_cont_facts : sem_facts demo_cont_sem demo_aug demo_cont.
Proof.
  split.
  - intros a Ha args v _ Hs. typed_cases Ha Hs.
  - intros op e t Ha. cbn in Ha. destruct Ha.
Qed.

Lemma demo_cont_ok :
  guard_ok demo_cont = true /\ breaks_ok demo_cont = true /\ sem_facts demo_cont_sem demo_aug demo_cont /\
  pprog_exec demo_cont_sem demo_aug 30 3 demo_cont = Some demo_cont_trace /\
  exists c, transl demo_cont = Some c /\
            In NReturn (match c_loop c with [_; NIf [(_, b)] _; _] => b | _ => [] end) /\
            cprog_exec demo_cont_sem demo_aug (info_of demo_cont) 30 3 true c = Some demo_cont_trace.
Proof.
  split; [vm_compute; reflexivity|]. split; [vm_compute; reflexivity|]. split; [exact demo_cont_facts|].
  split; [vm_compute; reflexivity|].
  eexists. split; [vm_compute; reflexivity|]. split; [left; reflexivity|]. vm_compute. reflexivity.
Qed.

Lemma demo_swap_facts : sem_facts demo_swap_sem demo_aug demo_swap.
Proof.
  split.
  - intros a Ha args v _ Hs. typed_cases Ha Hs.
  - intros op e t Ha. cbn in Ha. destruct Ha.
Qed.

Lemma demo_swap_ok :
  guard_ok demo_swap = true /\ breaks_ok demo_swap = true /\ sem_facts demo_swap_sem demo_aug demo_swap /\
  pprog_exec demo_swap_sem demo_aug 30 2 demo_swap = Some demo_swap_trace /\
  exists c, transl demo_swap = Some c /\
            (exists t e r, c_loop c = NDeclTmp 2 t e :: r) /\
            cprog_exec demo_swap_sem demo_aug (info_of demo_swap) 30 2 true c = Some demo_swap_trace.
Proof.
  split; [vm_compute; reflexivity|]. split; [vm_compute; reflexivity|]. split; [exact demo_swap_facts|].
  split; [vm_compute; reflexivity|].
  eexists. split; [vm_compute; reflexivity|]. split; [eexists; eexists; eexists; reflexivity|]. vm_compute. reflexivity.
Qed.
