(* The statement-level simulation: inside the guard, the C execution of the simple
   translation produces the trace of the Python execution (induction on the Python fuel,
   store relation [Rel], frame [Fr], pending globals [Pend]). *)
From Coq Require Import ZArith QArith List Bool Lia.
From RV Require Import Base.Wire Base.Text Lang.StmtAst Lang.Transl Lang.StmtSem Lang.StmtGuard
  Lang.SemFacts Lang.StmtSimple.
From RV Require Import Proofs.SimStoreP Proofs.StmtUnfoldP Proofs.SimBaseP.
Import ListNotations.
Open Scope Z_scope.

Section Sim.
  Variable sem : Z -> list (option val) -> option val.
  Variable augsem : Z -> val -> val -> option val.
  Variable info : Z -> option ann.
  Variable P : pprog.
  Hypothesis Hfacts : sem_facts sem augsem P.
  Hypothesis Hinfo : forall a, In a (prog_anns P) -> exists b, info (a_id a) = Some b /\ a_fv b = a_fv a.

  Notation pexec := (pexec sem augsem).
  Notation cexec := (cexec sem augsem info).
  Notation cev := (cev sem info).
  Notation peval := (peval sem).

  Lemma cev_peval a (sg : StmtSem.cstore) rho :
    In a (prog_anns P) -> map (clook sg) (a_fv a) = map (plook rho) (a_fv a) ->
    cev (a_id a) sg = peval a rho.
  Proof.
    intros Hin Hm. unfold StmtSem.cev, StmtSem.peval. destruct (Hinfo a Hin) as (b & Hb & Hfv).
    rewrite Hb, Hfv, Hm. reflexivity.
  Qed.

  Lemma peval_typed a rho v :
    In a (prog_anns P) -> Forall (fun o => o <> None) (map (plook rho) (a_fv a)) ->
    peval a rho = Some v -> has_ty (a_ty a) v = true.
  Proof. intros Hin Hn He. eapply (sf_typed _ _ _ Hfacts); eauto. Qed.

  Lemma eval_ok D L rho sg a v :
    Rel D L rho sg -> fv_ok D L a = true -> In a (prog_anns P) -> peval a rho = Some v ->
    cev (a_id a) sg = Some v /\ has_ty (a_ty a) v = true.
  Proof.
    intros HR Hfv Hin He. destruct (args_agree D L rho sg (a_fv a) HR Hfv) as [Hm Hn].
    split; [rewrite (cev_peval a sg rho Hin Hm); exact He|eapply peval_typed; eauto].
  Qed.

  (* ---- pending globals ---- *)
  Definition pend_val (g : gdecl) : val :=
    match g_init g with
    | XE id => match sem id [] with Some v => v | None => default_val (g_ty g) end
    | _ => default_val (g_ty g)
    end.
  (* a global whose first assignment has not run yet (in this pass): one with a constant initialiser holds that value;
     one with the default initialiser is bound at its type - to the default value before its first assignment ever, to
     the value of the previous pass when it is first assigned inside the main loop *)
  Definition pend_at (g : gdecl) (o : option (ty * val)) : Prop :=
    match g_init g with
    | XE _ => o = Some (g_ty g, pend_val g)
    | _ => exists u, o = Some (g_ty g, u)
    end.
  Definition Pend (gs : list gdecl) (sg : StmtSem.cstore) : Prop :=
    forall g, In g gs -> pend_at g (tlookup (g_name g) sg).
  Definition const_ok (g : gdecl) : Prop :=
    match g_init g with
    | XE id => exists v, sem id [] = Some v /\ has_ty (g_ty g) v = true /\ forall s0, cev id s0 = Some v
    | XDefault t => t = g_ty g
    | _ => False
    end.
  Definition ConstsOk (gs : list gdecl) : Prop := Forall const_ok gs.

  Lemma Pend_frame gs N sg s1 :
    Pend gs sg -> Fr N sg s1 -> (forall g, In g gs -> tmem (g_name g) N = false) -> Pend gs s1.
  Proof. intros HP HF HN g Hg. rewrite (Fr_tlookup N sg s1 _ HF (HN g Hg)). apply HP. exact Hg. Qed.

  Lemma fresh_not_written ret k top lm D ps (N : list ident) g :
    (forall x, In x N -> tmem x (map fst D) = true) ->
    In g (snd (trm ret k top lm D ps)) -> tmem (g_name g) N = false.
  Proof.
    intros HN Hg. apply trm_fresh in Hg. destruct (tmem (g_name g) N) eqn:E; [|reflexivity].
    apply tmem_In in E. apply HN in E. exfalso. exact (bool_contra _ E Hg).
  Qed.

  (* ---- branch selection ---- *)
  Lemma oc_false o : oc false o = o.
  Proof. destruct o; reflexivity. Qed.

  Lemma pick_agree ret k rho sg els l b :
    (forall cb, In cb l -> cev (a_id (fst cb)) sg = peval (fst cb) rho) ->
    ppick sem rho els l = Some b ->
    cpick sem info sg (trn ret k els) (trnb ret k l) = Some (trn ret k b) /\ (b = els \/ exists c', In (c', b) l).
  Proof.
    induction l as [|[c' b'] r IH]; intros HC HP; cbn [ppick cpick trnb] in *.
    - inversion HP; subst. auto.
    - pose proof (HC (c', b') (or_introl eq_refl)) as H0. cbn [fst] in H0. rewrite H0.
      destruct (peval c' rho) as [v|]; [|discriminate].
      destruct (truthy v).
      + inversion HP; subst. split; [reflexivity|]. right. exists c'. left. reflexivity.
      + destruct (IH (fun cb H => HC cb (or_intror H)) HP) as [I1 [I2|(c2 & I2)]]; split; auto.
        right. exists c2. right. exact I2.
  Qed.

  (* ---- the simulation statement at Python fuel f ---- *)
  (* [loc] = the locals the statement list declares (main-loop body only), on top of the store
     [sg'] that has the shape of the initial store *)
  Definition sim_at (f : nat) : Prop :=
    forall ps ret k top lm gf D L D' rho sg rho' tr o,
    implb lm (no_top_tuple D ps) = true ->
    g_block gf top D L ps = Some D' ->
    incl (anns_in ps) (prog_anns P) -> incl (augs_in ps) (prog_augs P) ->
    NT D L ->
    Rel D L rho sg -> Pend (snd (trm ret k top lm D ps)) sg ->
    pexec f rho ps = Some (rho', tr, o) ->
    exists loc sg' F,
      (forall F', (F <= F')%nat -> cexec F' sg (fst (trm ret k top lm D ps)) = Some (loc ++ sg', tr, oc ret o))
      /\ Fr (wr_in ps) sg sg'
      /\ Rel D L rho' sg'
      /\ (top && lm = false -> TmpKeys loc)
      /\ (o = ONormal -> Rel D' L rho' (loc ++ sg') /\ ConstsOk (snd (trm ret k top lm D ps))).

  Lemma Fr_app_l N1 N2 a b : Fr N1 a b -> Fr (N1 ++ N2) a b.
  Proof. apply Fr_mono. intros x H. rewrite tmem_app, H. reflexivity. Qed.
  Lemma Fr_app_r N1 N2 a b : Fr N2 a b -> Fr (N1 ++ N2) a b.
  Proof. apply Fr_mono. intros x H. rewrite tmem_app, H. apply orb_true_r. Qed.
  Lemma Fr_incl N1 N2 a b : incl N1 N2 -> Fr N1 a b -> Fr N2 a b.
  Proof. intro HI. apply Fr_mono. intros x H. apply tmem_In. apply HI. apply tmem_In. exact H. Qed.

  Lemma sim_tail f (IH : sim_at f) ret k1 top lm gf' D D1 L D' rho1 sg s1 p rest nsp gsp e1 F1 rho2 e2 o :
    NT D1 L ->
    implb lm (no_top_tuple D1 rest) = true ->
    g_block gf' top D1 L rest = Some D' ->
    incl (anns_in rest) (prog_anns P) -> incl (augs_in rest) (prog_augs P) ->
    ext D D1 ->
    Rel D1 L rho1 s1 ->
    Pend (snd (trm ret k1 top lm D1 rest)) sg ->
    Fr (wr p) sg s1 ->
    (forall x, In x (wr p) -> tmem x (map fst D1) = true) ->
    (forall F' restC, (F1 <= F')%nat -> cexec (S F') sg (nsp ++ restC) =
        match cexec F' s1 restC with None => None | Some (s2, e2, o) => Some (s2, e1 ++ e2, o) end) ->
    ConstsOk gsp ->
    pexec f rho1 rest = Some (rho2, e2, o) ->
    exists loc sg' F,
      (forall F', (F <= F')%nat -> cexec F' sg (nsp ++ fst (trm ret k1 top lm D1 rest)) = Some (loc ++ sg', e1 ++ e2, oc ret o))
      /\ Fr (wr_in (p :: rest)) sg sg'
      /\ Rel D L rho2 sg'
      /\ (top && lm = false -> TmpKeys loc)
      /\ (o = ONormal -> Rel D' L rho2 (loc ++ sg') /\ ConstsOk (gsp ++ snd (trm ret k1 top lm D1 rest))).
  Proof.
    intros HNT HT HG Han Hau HE HR HP HF HW HH HC HX.
    assert (HP1 : Pend (snd (trm ret k1 top lm D1 rest)) s1).
    { eapply Pend_frame; [exact HP|exact HF|]. intros g Hg. eapply fresh_not_written; eauto. }
    destruct (IH rest ret k1 top lm gf' D1 L D' rho1 s1 rho2 e2 o HT HG Han Hau HNT HR HP1 HX) as (loc & sg' & F2 & C2 & Fr2 & R2 & L2 & N2).
    exists loc, sg', (S (Nat.max F1 F2)). split; [|split; [|split; [|split]]].
    - intros F' HF'. destruct F' as [|F'']; [lia|]. rewrite HH by lia. rewrite C2 by lia. reflexivity.
    - cbn [wr_in]. eapply Fr_trans_same; [apply Fr_app_l; exact HF|apply Fr_app_r; exact Fr2].
    - eapply Rel_mono; [exact HE|exact R2].
    - exact L2.
    - intro Ho. destruct (N2 Ho) as [N21 N22]. split; [exact N21|]. apply Forall_app. auto.
  Qed.

  (* ---- tuple declaration of new globals ---- *)
  Lemma tuple_head D L rho : forall xs es vs Dc rhoc (sgc : StmtSem.cstore) gsr,
    length xs = length es ->
    pevals sem es rho = Some vs ->
    (forall e, In e es -> fv_ok D L e = true /\ In e (prog_anns P)) ->
    NoDup xs ->
    (forall x, In x xs -> tlookup x Dc = None /\ tmem x L = false /\ tmem x (map fst D) = false) ->
    Rel D L rho sgc -> Rel Dc L rhoc sgc ->
    Pend (tup_globals xs es ++ gsr) sgc ->
    (forall g, In g gsr -> ~ In (g_name g) xs) ->
    exists sg1,
      Fr xs sgc sg1 /\
      Rel (Dc ++ combine xs (map a_ty es)) L (pbinds xs vs rhoc) sg1 /\
      ConstsOk (tup_globals xs es) /\
      (forall restC s2 e2 o F2, (forall F', (F2 <= F')%nat -> cexec F' sg1 restC = Some (s2, e2, o)) ->
         exists F, forall F', (F <= F')%nat -> cexec F' sgc (tup_nodes xs es ++ restC) = Some (s2, e2, o)).
  Proof.
    induction xs as [|x xr IH]; intros es vs Dc rhoc sgc gsr Hlen Hev Hes Hnd Hnew HR0 HRc HP Hgsr.
    - destruct es; [|discriminate]. cbn in Hev. inversion Hev; subst vs.
      exists sgc. cbn [combine map tup_globals tup_nodes pbinds app]. rewrite app_nil_r.
      split; [apply Fr_refl|]. split; [exact HRc|]. split; [constructor|].
      intros restC s2 e2 o F2 HC. exists F2. exact HC.
    - destruct es as [|e er]; [discriminate|]. cbn [length] in Hlen. injection Hlen as Hlen.
      cbn [pevals] in Hev. destruct (peval e rho) as [v|] eqn:Ev; [|discriminate].
      destruct (pevals sem er rho) as [vr|] eqn:Evr; [|discriminate]. inversion Hev; subst vs. clear Hev.
      destruct (Hes e (or_introl eq_refl)) as [Hfv Hin].
      destruct (eval_ok D L rho sgc e v HR0 Hfv Hin Ev) as [Hc Hv].
      destruct (Hnew x (or_introl eq_refl)) as (HxD & HxL & HxD0).
      inversion Hnd as [|? ? Hxr Hnd']; subst.
      cbn [tup_globals tup_nodes combine map pbinds app] in *.
      set (g := {| g_name := x; g_ty := a_ty e; g_init := if closed_const e then XE (a_id e) else XDefault (a_ty e) |}) in *.
      assert (Hnew' : forall x', In x' xr -> tlookup x' (Dc ++ [(x, a_ty e)]) = None /\ tmem x' L = false /\ tmem x' (map fst D) = false).
      { intros x' Hx'. destruct (Hnew x' (or_intror Hx')) as (A & B & C). split; [|auto].
        rewrite tlookup_app, A. cbn. assert (x' <> x) by (intros ->; contradiction).
        apply text_eqb_neq in H. rewrite H. reflexivity. }
      assert (Hes' : forall e0, In e0 er -> fv_ok D L e0 = true /\ In e0 (prog_anns P)) by (intros; apply Hes; right; assumption).
      assert (Hgsr' : forall g0, In g0 gsr -> ~ In (g_name g0) xr) by (intros g0 H0 H1; apply (Hgsr g0 H0); right; exact H1).
      destruct (closed_const e) eqn:Hcc.
      + (* constant: already in the global initialiser *)
        pose proof (closed_const_fv e Hcc) as Hfv0.
        assert (Hs0 : sem (a_id e) [] = Some v).
        { unfold StmtSem.peval in Ev. rewrite Hfv0 in Ev. exact Ev. }
        assert (Hg : tlookup x sgc = Some (a_ty e, v)).
        { pose proof (HP g (or_introl eq_refl)) as Hg. unfold pend_val in Hg. cbn in Hg. rewrite Hs0 in Hg. exact Hg. }
        assert (HR1 : Rel (Dc ++ [(x, a_ty e)]) L (pset x v rhoc) sgc).
        { eapply Rel_set; [exact HRc|apply set_new; exact HxD| | | |]; eauto. }
        destruct (IH er vr _ _ sgc gsr Hlen Evr Hes' Hnd' Hnew' HR0 HR1) as (sg1 & F1 & R1 & C1 & K1).
        { intros g' Hg'. apply HP. right. exact Hg'. }
        { exact Hgsr'. }
        exists sg1. split; [eapply Fr_incl; [|exact F1]; apply incl_tl, incl_refl|].
        split; [rewrite <- app_assoc in R1; exact R1|]. split; [|exact K1].
        constructor; [|exact C1]. unfold const_ok. cbn. exists v. split; [exact Hs0|]. split; [exact Hv|].
        intro s0. unfold StmtSem.cev. destruct (Hinfo e Hin) as (b & Hb & Hfb). rewrite Hb, Hfb, Hfv0. exact Hs0.
      + (* run-time initialiser *)
        assert (Hg : exists u0, tlookup x sgc = Some (a_ty e, u0)).
        { exact (HP g (or_introl eq_refl)). }
        destruct Hg as [u0 Hg].
        destruct (cupd_spec (x :: xr) x v sgc _ _ Hg) as (b & Hb & L1 & L2 & HF).
        { cbn. rewrite text_eqb_refl. reflexivity. }
        rewrite (conv_has_ty _ _ Hv) in L1.
        assert (HR0' : Rel D L rho b).
        { eapply Rel_frame; [exact HR0|]. intros y [Hy|Hy]; apply L2; intros ->; congruence. }
        assert (HR1 : Rel (Dc ++ [(x, a_ty e)]) L (pset x v rhoc) b).
        { eapply Rel_set; [exact HRc|apply set_new; exact HxD| | | |]; eauto. }
        destruct (IH er vr _ _ b gsr Hlen Evr Hes' Hnd' Hnew' HR0' HR1) as (sg1 & F1 & R1 & C1 & K1).
        { intros g' Hg'. rewrite L2; [apply HP; right; exact Hg'|].
          apply in_app_or in Hg' as [Hg'|Hg'].
          - apply tup_globals_names in Hg'. intros E. rewrite E in Hg'. contradiction.
          - intros E. apply (Hgsr g' Hg'). left. symmetry. exact E. }
        { exact Hgsr'. }
        exists sg1. split; [eapply Fr_trans_same; [exact HF|eapply Fr_incl; [|exact F1]; apply incl_tl, incl_refl]|].
        split; [rewrite <- app_assoc in R1; exact R1|]. split; [constructor; [unfold const_ok; cbn; reflexivity|exact C1]|].
        intros restC s2 e2 o F2 HC. destruct (K1 restC s2 e2 o F2 HC) as (F & HCF).
        exists (S F). intros F' HF'. destruct F' as [|F'']; [lia|].
        cbn [app]. rewrite cexec_assign. cbn [ceval]. rewrite Hc, Hb. cbn [ccont]. rewrite HCF by lia. reflexivity.
  Qed.

  (* ---- tuple assignment to declared names, through temporaries ---- *)
  Fixpoint TmOk (Tm : StmtSem.cstore) (k : Z) (es : list ann) (vs : list val) : Prop :=
    match es, vs with
    | [], [] => True
    | e :: er, v :: vr =>
        tlookup (tmp_name k) Tm = Some (a_ty e, v) /\ has_ty (a_ty e) v = true /\ TmOk Tm (k + 1) er vr
    | _, _ => False
    end.

  Lemma TmOk_app Tm b : forall es vs k, TmOk Tm k es vs -> TmOk (Tm ++ b) k es vs.
  Proof.
    induction es as [|e er IH]; intros [|v vr] k H; cbn in *; auto.
    destruct H as (H1 & H2 & H3). split; [rewrite tlookup_app, H1; reflexivity|]. split; [exact H2|apply IH; exact H3].
  Qed.

  Lemma tmp_name_inj a b : tmp_name a = tmp_name b -> a = b.
  Proof. unfold tmp_name. intro H. inversion H. reflexivity. Qed.

  Lemma is_tmp_tmp_name j : is_tmp (tmp_name j) = true.
  Proof. reflexivity. Qed.

  Lemma tmps_run D L rho : NT D L -> forall es k vs s,
    Rel D L rho s -> pevals sem es rho = Some vs ->
    (forall e, In e es -> fv_ok D L e = true /\ In e (prog_anns P)) ->
    exists Tm,
      (forall y, tmem y (map fst Tm) = true -> exists j, y = tmp_name j /\ k <= j) /\
      TmOk Tm k es vs /\
      (forall restC r F2, (forall F', (F2 <= F')%nat -> cexec F' (Tm ++ s) restC = Some r) ->
         exists F, forall F', (F <= F')%nat -> cexec F' s (tuple_tmps es k ++ restC) = Some r).
  Proof.
    intros HNT. induction es as [|e er IH]; intros k vs s HR Hev Hes.
    - cbn in Hev. inversion Hev; subst vs. exists []. split; [intros y Hy; discriminate|]. split; [exact I|].
      intros restC r F2 HC. exists F2. exact HC.
    - cbn [pevals] in Hev. destruct (peval e rho) as [v|] eqn:Ev; [|discriminate].
      destruct (pevals sem er rho) as [vr|] eqn:Evr; [|discriminate]. inversion Hev; subst vs. clear Hev.
      destruct (Hes e (or_introl eq_refl)) as [Hfv Hin].
      destruct (eval_ok D L rho s e v HR Hfv Hin Ev) as [Hc Hv].
      set (b := (tmp_name k, (a_ty e, v))).
      assert (HR1 : Rel D L rho (b :: s)) by (apply Rel_tmp; assumption).
      destruct (IH (k + 1) vr (b :: s) HR1 eq_refl) as (Tm' & K1 & K2 & K3).
      { intros e0 He0. apply Hes. right. exact He0. }
      exists (Tm' ++ [b]). split; [|split].
      + intros y Hy. rewrite map_app, tmem_app in Hy. apply orb_true_iff in Hy as [Hy|Hy].
        * destruct (K1 y Hy) as (j & -> & Hj). exists j. split; [reflexivity|lia].
        * cbn in Hy. rewrite orb_false_r in Hy. apply text_eqb_eq in Hy. exists k. split; [exact Hy|lia].
      + cbn [TmOk]. split; [|split; [exact Hv|apply TmOk_app; exact K2]].
        rewrite tlookup_app.
        assert (HN : tlookup (tmp_name k) Tm' = None).
        { apply tmem_false_lookup. destruct (tmem (tmp_name k) (map fst Tm')) eqn:E; [|reflexivity].
          destruct (K1 _ E) as (j & Hj & Hle). apply tmp_name_inj in Hj. lia. }
        rewrite HN. unfold b. cbn [tlookup]. rewrite text_eqb_refl. reflexivity.
      + intros restC r F2 HC. rewrite <- app_assoc in HC. cbn [app] in HC.
        destruct (K3 restC r F2 HC) as (F & HF). exists (S F). intros F' HF'. destruct F' as [|F'']; [lia|].
        cbn [tuple_tmps app]. rewrite cexec_decltmp. cbn [ceval]. rewrite Hc. rewrite (conv_has_ty _ _ Hv).
        fold b. cbn [ccont]. rewrite HF by lia. destruct r as [[r1 r2] r3]. rewrite app_nil_l. reflexivity.
  Qed.

  Lemma cupd_skip x v (Tm s : StmtSem.cstore) : tmem x (map fst Tm) = false ->
    cupd x v (Tm ++ s) = match cupd x v s with Some b => Some (Tm ++ b) | None => None end.
  Proof.
    induction Tm as [|[y [t u]] r IH]; cbn; intro H; [destruct (cupd x v s); reflexivity|].
    apply orb_false_iff in H as [H1 H2]. rewrite H1. rewrite (IH H2). destruct (cupd x v s); reflexivity.
  Qed.

  Lemma asgs_run D L (Tm : StmtSem.cstore) : NT D L ->
    (forall y, tmem y (map fst Tm) = true -> is_tmp y = true) ->
    forall xs es vs k rhoc sgc,
    TmOk Tm k es vs -> tuple_asg_tys D L xs es = true -> Rel D L rhoc sgc ->
    exists sg1, Fr xs sgc sg1 /\ Rel D L (pbinds xs vs rhoc) sg1 /\
      (forall restC r F2, (forall F', (F2 <= F')%nat -> cexec F' (Tm ++ sg1) restC = Some r) ->
         exists F, forall F', (F <= F')%nat -> cexec F' (Tm ++ sgc) (tup_asgs xs k ++ restC) = Some r).
  Proof.
    intros HNT HTm. induction xs as [|x xr IH]; intros es vs k rhoc sgc HT Hty HR.
    - destruct es; [|discriminate]. destruct vs; [|destruct HT]. exists sgc. cbn [pbinds tup_asgs app].
      split; [apply Fr_refl|]. split; [exact HR|]. intros restC r F2 HC. exists F2. exact HC.
    - destruct es as [|e er]; [discriminate|]. destruct vs as [|v vr]; [destruct HT|].
      cbn [TmOk] in HT. destruct HT as (T1 & T2 & T3).
      cbn [tuple_asg_tys] in Hty. apply andb_true_iff in Hty as [Hty H3]. apply andb_true_iff in Hty as [H1 H2].
      apply negb_true_iff in H1. destruct (tlookup x D) as [t|] eqn:Hl; [|discriminate].
      apply ty_eqb_eq in H2. subst t.
      pose proof HR as [R1 R2]. destruct (R1 _ _ Hl) as (u & P1 & P2 & P3).
      destruct (cupd_spec (x :: xr) x v sgc _ _ P3) as (b & Hb & L1 & L2 & HF).
      { cbn. rewrite text_eqb_refl. reflexivity. }
      rewrite (conv_has_ty _ _ T2) in L1.
      assert (HxT : tmem x (map fst Tm) = false).
      { destruct (tmem x (map fst Tm)) eqn:E; [|reflexivity]. apply HTm in E.
        rewrite (HNT x) in E; [discriminate|]. left. eapply tlookup_dom_true; eauto. }
      assert (HR1 : Rel D L (pset x v rhoc) b).
      { eapply Rel_set; [exact HR|apply set_old; exact Hl| | | |]; eauto. }
      destruct (IH er vr (k + 1) (pset x v rhoc) b T3 H3 HR1) as (sg1 & F1 & RR & K).
      exists sg1. split; [eapply Fr_trans_same; [exact HF|eapply Fr_incl; [|exact F1]; apply incl_tl, incl_refl]|].
      split; [exact RR|].
      intros restC r F2 HC. destruct (K restC r F2 HC) as (F & HCF). exists (S F). intros F' HF'.
      destruct F' as [|F'']; [lia|]. cbn [tup_asgs app]. rewrite cexec_assign. cbn [ceval].
      unfold clook. rewrite tlookup_app, T1. cbn [option_map snd]. rewrite (cupd_skip _ _ _ _ HxT), Hb. cbn [ccont].
      rewrite HCF by lia. destruct r as [[r1 r2] r3]. rewrite app_nil_l. reflexivity.
  Qed.

  Lemma lastn_Fr N (sg s1 : StmtSem.cstore) : Fr N sg s1 -> lastn (length sg) s1 = s1.
  Proof. intro H. apply lastn_all. eapply Fr_length; eauto. Qed.

  Lemma sim_all : forall f, sim_at f.
  Proof.
    induction f as [|f IH]; intros ps ret k top lm gf D L D' rho sg rho' tr o Htup HG Han Hau HNT HR HP HE; [discriminate|].
    destruct ps as [|p rest].
    - (* nil *)
      rewrite pexec_nil in HE. inversion HE; subst.
      destruct gf; [discriminate|]. rewrite g_block_nil in HG. inversion HG; subst.
      exists [], sg, 1%nat. rewrite trm_nil. cbn [fst snd app]. split; [|split; [|split; [|split]]].
      + intros F' HF. destruct F'; [lia|]. reflexivity.
      + apply Fr_refl.
      + assumption.
      + intros _. apply TmpKeys_nil.
      + intros _. split; [assumption|constructor].
    - apply g_block_cons_inv in HG as (gf' & D1 & -> & HS & HG).
      cbn [anns_in augs_in] in Han, Hau.
      apply incl_app_inv in Han as [Han1 Han2]. apply incl_app_inv in Hau as [Hau1 Hau2].
      pose proof (wr_dom_step' _ _ _ _ _ _ HS) as HWD.
      pose proof (g_step_ext _ _ _ _ _ _ HS) as HEXT.
      pose proof (g_step_NT _ _ _ _ _ _ HS HNT) as HNT1.
      assert (Htr : implb lm (no_top_tuple D1 rest) = true).
      { destruct lm; [|reflexivity]. cbn [implb] in Htup |- *. eapply no_top_tuple_tail; eauto. }
      destruct p.
      + (* ---------- PAssign ---------- *)
        rewrite pexec_assign in HE. destruct (peval e rho) as [v|] eqn:Ev; [|discriminate]. cbn [pcont] in HE.
        destruct (pexec f (pset x v rho) rest) as [[[rho2 e2] o2]|] eqn:Er; [|discriminate].
        inversion HE; subst rho' tr o. clear HE.
        cbn [g_step] in HS. destruct (fv_ok D L e) eqn:Hfv; [|discriminate].
        destruct (tmem x L) eqn:HxL; [discriminate|]. cbn [negb orb] in HS.
        rewrite anns_of_unfold in Han1. assert (Hin : In e (prog_anns P)) by (apply Han1; left; reflexivity).
        destruct (eval_ok D L rho sg e v HR Hfv Hin Ev) as [Hc Hv].
        destruct (tlookup x D) as [t|] eqn:Hl.
        * (* already declared *)
          destruct (ty_eqb t (a_ty e)) eqn:Ht; [|discriminate]. inversion HS; subst D1. clear HS.
          apply ty_eqb_eq in Ht. subst t.
          destruct HR as [R1 R2]. destruct (R1 _ _ Hl) as (u & P1 & P2 & P3).
          destruct (cupd_spec (wr (PAssign x e)) x v sg _ _ P3) as (b & Hb & L1 & L2 & HF).
          { cbn. rewrite text_eqb_refl. reflexivity. }
          rewrite (conv_has_ty _ _ Hv) in L1.
          rewrite (trm_cons_old ret k top lm D x e rest _ Hl) in HP |- *. cbn [fst snd] in HP |- *. rewrite tr1_unfold.
          eapply (sim_tail f IH ret _ top lm gf' D D L D' (pset x v rho) sg b (PAssign x e) rest
                    [NAssign x (XE (a_id e))] [] [] 0%nat rho2 e2 o2 HNT1);
          [exact Htr|exact HG|exact Han2|exact Hau2| | | | | | | |exact Er].
          -- apply ext_refl.
          -- eapply Rel_set; [split; eassumption|apply set_old; exact Hl| | | |]; eauto.
          -- exact HP.
          -- exact HF.
          -- exact HWD.
          -- intros F' restC _. cbn [app]. rewrite cexec_assign. cbn [ceval]. rewrite Hc, Hb. reflexivity.
          -- constructor.
        * (* first assignment at the declaring level *)
          destruct top; [|discriminate]. destruct (is_tmp x) eqn:Hxt; [discriminate|]. cbn [andb negb] in HS.
          inversion HS; subst D1. clear HS.
          destruct lm.
          { (* main-loop body: a global with the default initialiser, assigned in place on every pass *)
            rewrite (trm_cons_newl ret k D x e rest Hl) in HP |- *. cbn [fst snd] in HP |- *.
            set (g := {| g_name := x; g_ty := a_ty e; g_init := XDefault (a_ty e) |}) in *.
            assert (Hg : exists u0, tlookup x sg = Some (a_ty e, u0)).
            { exact (HP g (or_introl eq_refl)). }
            destruct Hg as [u0 Hg].
            destruct (cupd_spec (wr (PAssign x e)) x v sg _ _ Hg) as (b & Hb & L1 & L2 & HF).
            { cbn. rewrite text_eqb_refl. reflexivity. }
            rewrite (conv_has_ty _ _ Hv) in L1.
            change (NAssign x (XE (a_id e)) :: fst (trm ret k true true (D ++ [(x, a_ty e)]) rest))
              with ([NAssign x (XE (a_id e))] ++ fst (trm ret k true true (D ++ [(x, a_ty e)]) rest)).
            change (g :: snd (trm ret k true true (D ++ [(x, a_ty e)]) rest))
              with ([g] ++ snd (trm ret k true true (D ++ [(x, a_ty e)]) rest)).
            eapply (sim_tail f IH ret _ true true gf' D (D ++ [(x, a_ty e)]) L D' (pset x v rho) sg b (PAssign x e) rest
                   [NAssign x (XE (a_id e))] [g] [] 0%nat rho2 e2 o2 HNT1);
            [exact Htr|exact HG|exact Han2|exact Hau2| | | | | | | |exact Er].
            - apply ext_snoc.
            - eapply Rel_set; [exact HR|apply set_new; exact Hl| | | |]; eauto.
            - intros g' Hg'. apply HP. right. exact Hg'.
            - exact HF.
            - exact HWD.
            - intros F' restC _. cbn [app]. rewrite cexec_assign. cbn [ceval]. rewrite Hc, Hb. reflexivity.
            - constructor; [|constructor]. unfold const_ok. cbn. reflexivity. }
          rewrite (trm_cons_new ret k D x e rest Hl) in *.
          destruct (closed_const e) eqn:Hcc; cbn [fst snd] in *.
          -- (* constant initialiser: no node *)
             pose proof (closed_const_fv e Hcc) as Hfv0.
             assert (Hs0 : sem (a_id e) [] = Some v).
             { unfold StmtSem.peval in Ev. rewrite Hfv0 in Ev. exact Ev. }
             set (g := {| g_name := x; g_ty := a_ty e; g_init := XE (a_id e) |}) in *.
             assert (Hg : tlookup x sg = Some (a_ty e, v)).
             { pose proof (HP g (or_introl eq_refl)) as Hg. unfold pend_val in Hg. cbn in Hg. rewrite Hs0 in Hg. exact Hg. }
             assert (HR1 : Rel (D ++ [(x, a_ty e)]) L (pset x v rho) sg).
             { eapply Rel_set; [exact HR|apply set_new; exact Hl| | | |]; eauto. }
             assert (HP1 : Pend (snd (trm ret k true false (D ++ [(x, a_ty e)]) rest)) sg).
             { intros g' Hg'. apply HP. right. exact Hg'. }
             destruct (IH rest ret k true false gf' _ L D' _ sg rho2 e2 o2 eq_refl HG Han2 Hau2 HNT1 HR1 HP1 Er) as (loc & sg' & F2 & C2 & Fr2 & R2' & L2 & N2).
             exists loc, sg', F2. split; [|split; [|split; [|split]]].
             ++ exact C2.
             ++ cbn [wr_in]. apply Fr_app_r. exact Fr2.
             ++ eapply Rel_mono; [apply ext_snoc|exact R2'].
             ++ exact L2.
             ++ intro Ho. destruct (N2 Ho) as [N21 N22]. split; [exact N21|]. constructor; [|exact N22].
                unfold const_ok. cbn. exists v. split; [exact Hs0|]. split; [exact Hv|].
                intro s0. unfold StmtSem.cev. destruct (Hinfo e Hin) as (b & Hb & Hfb). rewrite Hb, Hfb, Hfv0. exact Hs0.
          -- (* run-time initialiser: global with default value + assignment *)
             set (g := {| g_name := x; g_ty := a_ty e; g_init := XDefault (a_ty e) |}) in *.
             assert (Hg : exists u0, tlookup x sg = Some (a_ty e, u0)).
             { exact (HP g (or_introl eq_refl)). }
             destruct Hg as [u0 Hg].
             destruct (cupd_spec (wr (PAssign x e)) x v sg _ _ Hg) as (b & Hb & L1 & L2 & HF).
             { cbn. rewrite text_eqb_refl. reflexivity. }
             rewrite (conv_has_ty _ _ Hv) in L1.
             change (NAssign x (XE (a_id e)) :: fst (trm ret k true false (D ++ [(x, a_ty e)]) rest))
               with ([NAssign x (XE (a_id e))] ++ fst (trm ret k true false (D ++ [(x, a_ty e)]) rest)).
             change (g :: snd (trm ret k true false (D ++ [(x, a_ty e)]) rest))
               with ([g] ++ snd (trm ret k true false (D ++ [(x, a_ty e)]) rest)).
             eapply (sim_tail f IH ret _ true false gf' D (D ++ [(x, a_ty e)]) L D' (pset x v rho) sg b (PAssign x e) rest
                    [NAssign x (XE (a_id e))] [g] [] 0%nat rho2 e2 o2 HNT1);
          [exact Htr|exact HG|exact Han2|exact Hau2| | | | | | | |exact Er].
             ++ apply ext_snoc.
             ++ eapply Rel_set; [exact HR|apply set_new; exact Hl| | | |]; eauto.
             ++ intros g' Hg'. apply HP. right. exact Hg'.
             ++ exact HF.
             ++ exact HWD.
             ++ intros F' restC _. cbn [app]. rewrite cexec_assign. cbn [ceval]. rewrite Hc, Hb. reflexivity.
             ++ constructor; [|constructor]. unfold const_ok. cbn. reflexivity.
      + (* ---------- PAug ---------- *)
        rewrite pexec_aug in HE. destruct (plook rho x) as [u|] eqn:Eu; [|discriminate].
        destruct (peval e rho) as [v|] eqn:Ev; [|discriminate].
        destruct (augsem op u v) as [w|] eqn:Ew; [|discriminate]. cbn [pcont] in HE.
        destruct (pexec f (pset x w rho) rest) as [[[rho2 e2] o2]|] eqn:Er; [|discriminate].
        inversion HE; subst rho' tr o. clear HE.
        cbn [g_step] in HS. destruct (fv_ok D L e) eqn:Hfv; [|discriminate].
        destruct (tmem x L) eqn:HxL; [discriminate|]. cbn [negb orb] in HS.
        rewrite anns_of_unfold in Han1. assert (Hin : In e (prog_anns P)) by (apply Han1; left; reflexivity).
        rewrite augs_of_unfold in Hau1. assert (Hia : In (op, e, t_after) (prog_augs P)) by (apply Hau1; left; reflexivity).
        destruct (eval_ok D L rho sg e v HR Hfv Hin Ev) as [Hc Hv].
        destruct (tlookup x D) as [t|] eqn:Hl; [|discriminate].
        destruct (ty_eqb t t_after) eqn:Ht; [|discriminate]. inversion HS; subst D1. clear HS.
        apply ty_eqb_eq in Ht. subst t.
        destruct HR as [R1 R2]. destruct (R1 _ _ Hl) as (u' & P1 & P2 & P3).
        assert (u' = u) by congruence. subst u'.
        assert (Hw : has_ty t_after w = true) by (eapply (sf_aug _ _ _ Hfacts); eauto).
        destruct (cupd_spec (wr (PAug x op e t_after)) x w sg _ _ P3) as (b & Hb & L1 & L2 & HF).
        { cbn. rewrite text_eqb_refl. reflexivity. }
        rewrite (conv_has_ty _ _ Hw) in L1.
        rewrite (trm_cons_other ret k top lm D (PAug x op e t_after) rest I) in HP |- *. cbn [fst snd] in HP |- *. rewrite tr1_unfold.
        eapply (sim_tail f IH ret _ top lm gf' D D L D' (pset x w rho) sg b (PAug x op e t_after) rest
                  [NAssign x (XAug x op (a_id e))] [] [] 0%nat rho2 e2 o2 HNT1);
          [exact Htr|exact HG|exact Han2|exact Hau2| | | | | | | |exact Er].
        * apply ext_refl.
        * eapply Rel_set; [split; eassumption|apply set_old; exact Hl| | | |]; eauto.
        * exact HP.
        * exact HF.
        * exact HWD.
        * intros F' restC _. cbn [app]. rewrite cexec_assign. cbn [ceval].
          rewrite (clook_tlookup _ _ _ _ P3), Hc, Ew, Hb. reflexivity.
        * constructor.
      + (* ---------- PTuple ---------- *)
        cbn [g_step] in HS. destruct (tuple_asg_ok D L xs es) eqn:Hq.
        { (* assignment of declared names through temporaries of the enclosing block *)
          inversion HS; subst D1. clear HS.
          destruct (tuple_asg_ok_inv _ _ _ _ Hq) as (Hne & Hfvs & Hty).
          destruct (tuple_asg_tys_inv _ _ _ _ Hty) as [Hlen Hdom].
          rewrite pexec_tuple in HE. rewrite Hlen, Nat.leb_refl, firstn_all in HE.
          destruct (pevals sem es rho) as [vs|] eqn:Evs; [|discriminate]. cbn [pcont] in HE.
          destruct (pexec f (pbinds xs vs rho) rest) as [[[rho2 e2] o2]|] eqn:Er; [|discriminate].
          inversion HE; subst rho' tr o. clear HE.
          rewrite anns_of_unfold in Han1.
          rewrite (trm_cons_tuple_asg ret k top lm D L xs es rest Hq) in HP |- *. cbn [fst snd] in HP |- *. rewrite tr1_unfold.
          destruct (tmps_run D L rho HNT es k vs sg HR Evs) as (Tm & K1 & K2 & K3).
          { intros e He. split; [rewrite forallb_forall in Hfvs; apply Hfvs; exact He|apply Han1; exact He]. }
          assert (HTm : TmpKeys Tm).
          { intros y Hy. destruct (K1 y Hy) as (j & -> & _). reflexivity. }
          destruct (asgs_run D L Tm HNT HTm xs es vs k rho sg K2 Hty HR) as (sg1 & F1 & R1 & K4).
          assert (HP1 : Pend (snd (trm ret (knext k (PTuple xs es)) top lm D rest)) (Tm ++ sg1)).
          { intros g Hg. rewrite tlookup_skip_tmps; [| exact HTm |].
            - eapply Pend_frame; [exact HP|exact F1| |exact Hg]. intros g0 Hg0. eapply fresh_not_written; [|exact Hg0].
              intros y Hy. apply (Hdom y Hy).
            - destruct top; [|destruct Hg]. destruct lm; [|eapply trt_names_nt; [exact HG|exact Hg]].
              eapply trl_names_nt; [|exact HG|exact Hg]. cbn [implb] in Htr. exact Htr. }
          destruct (IH rest ret _ top lm gf' D L D' _ (Tm ++ sg1) rho2 e2 o2 Htr HG Han2 Hau2 HNT (Rel_tmps _ _ _ _ _ HNT HTm R1) HP1 Er)
            as (loc & sgX & F2 & C2 & Fr2 & R2 & L2 & N2).
          destruct (Fr_app_inv _ _ _ _ Fr2) as (TmX & sg' & -> & FrT & FrS).
          pose proof (Fr_TmpKeys _ _ _ FrT HTm) as HTX.
          destruct (K4 _ _ F2 C2) as (F3 & C3). destruct (K3 _ _ F3 C3) as (F4 & C4).
          exists (loc ++ TmX), sg', F4. split; [|split; [|split; [|split]]].
          - intros F' HF'. rewrite <- !app_assoc in *. apply C4. exact HF'.
          - cbn [wr_in]. rewrite wr_unfold. eapply Fr_trans_same; [apply Fr_app_l; exact F1|apply Fr_app_r; exact FrS].
          - eapply Rel_untmps; [exact HNT|exact HTX|exact R2].
          - intro Htl. apply TmpKeys_app; [apply L2; exact Htl|exact HTX].
          - intro Ho. destruct (N2 Ho) as [N21 N22]. rewrite <- app_assoc. split; [exact N21|exact N22]. }
        (* declaration of new globals at top level of the setup part *)
        cbn [g_step] in HS. destruct (top && tuple_decl_ok D L xs es) eqn:Hk; [|discriminate].
        inversion HS; subst D1. clear HS. apply andb_true_iff in Hk as [-> Hk].
        destruct lm; [exfalso; cbn [implb] in Htup; eapply no_top_tuple_decl; eauto|].
        destruct (tuple_decl_ok_inv _ _ _ _ Hk) as (Hlen & Hfvs & Hnew & Hnd).
        rewrite pexec_tuple in HE. rewrite Hlen, Nat.leb_refl, firstn_all in HE.
        destruct (pevals sem es rho) as [vs|] eqn:Evs; [|discriminate]. cbn [pcont] in HE.
        destruct (pexec f (pbinds xs vs rho) rest) as [[[rho2 e2] o2]|] eqn:Er; [|discriminate].
        inversion HE; subst rho' tr o. clear HE.
        rewrite anns_of_unfold in Han1.
        rewrite (trm_cons_tuple ret k D L xs es rest Hk) in HP |- *. cbn [fst snd] in HP |- *.
        set (D1 := D ++ combine xs (map a_ty es)) in *.
        assert (HgsF : forall g, In g (snd (trm ret k true false D1 rest)) -> ~ In (g_name g) xs).
        { intros g Hg HI. apply trm_fresh in Hg. unfold D1 in Hg.
          rewrite map_app, tmem_app, map_fst_combine in Hg by (rewrite map_length; exact Hlen).
          apply orb_false_iff in Hg as [_ Hg]. apply tmem_In in HI. congruence. }
        destruct (tuple_head D L rho xs es vs D rho sg (snd (trm ret k true false D1 rest)) Hlen Evs) as (sg1 & F1 & R1 & C1 & K1).
        { intros e He. split; [rewrite forallb_forall in Hfvs; apply Hfvs; exact He|apply Han1; exact He]. }
        { apply nodupb_NoDup. exact Hnd. }
        { intros x Hx. destruct (Hnew x Hx) as [A B]. split; [apply tmem_false_lookup; exact A|auto]. }
        { exact HR. } { exact HR. } { exact HP. } { exact HgsF. }
        assert (HP1 : Pend (snd (trm ret k true false D1 rest)) sg1).
        { eapply Pend_frame; [|exact F1|].
          - intros g Hg. apply HP. apply in_or_app. right. exact Hg.
          - intros g Hg. apply tmem_false. apply HgsF. exact Hg. }
        destruct (IH rest ret k true false gf' D1 L D' _ sg1 rho2 e2 o2 eq_refl HG Han2 Hau2 HNT1 R1 HP1 Er) as (loc & sg' & F2 & C2 & Fr2 & R2 & L2 & N2).
        destruct (K1 _ _ _ _ F2 C2) as (F & HCF).
        exists loc, sg', F. split; [exact HCF|]. split; [|split; [|split]].
        * cbn [wr_in]. rewrite wr_unfold. eapply Fr_trans_same; [apply Fr_app_l; exact F1|apply Fr_app_r; exact Fr2].
        * eapply Rel_mono; [apply ext_app|exact R2].
        * exact L2.
        * intro Ho. destruct (N2 Ho) as [N21 N22]. split; [exact N21|]. apply Forall_app. auto.
      + (* ---------- PIf ---------- *)
        rewrite pexec_if in HE.
        destruct (ppick sem rho els ((c, body) :: elifs)) as [b|] eqn:Epick; [|discriminate].
        destruct (pexec f rho b) as [[[rho1 e1] o1]|] eqn:Eb; [|discriminate].
        cbn [g_step] in HS.
        match type of HS with (if ?cnd then _ else _) = _ => destruct cnd eqn:Hc; [|discriminate] end.
        inversion HS; subst D1. clear HS.
        apply andb_true_iff in Hc as [Hc H3]. apply andb_true_iff in Hc as [Hc H2]. apply andb_true_iff in Hc as [Hc H1].
        apply nested_true in H1. apply nested_true in H3.
        rewrite anns_of_unfold in Han1. rewrite augs_of_unfold in Hau1.
        (* facts for every block of the statement *)
        assert (GOOD : forall b0, (b0 = els \/ exists c', In (c', b0) ((c, body) :: elifs)) ->
                  g_block gf' false D L b0 = Some D /\ incl (anns_in b0) (prog_anns P) /\
                  incl (augs_in b0) (prog_augs P) /\ incl (wr_in b0) (wr (PIf c body elifs els))).
        { rewrite wr_unfold. intros b0 [->|(c' & [E|I])].
          - split; [exact H3|]. split; [|split].
            + intros y Hy. apply Han1. right. apply in_or_app. right. apply in_or_app. right. exact Hy.
            + intros y Hy. apply Hau1. apply in_or_app. right. apply in_or_app. right. exact Hy.
            + apply incl_appr, incl_appr, incl_refl.
          - inversion E; subst c' b0. split; [exact H1|]. split; [|split].
            + intros y Hy. apply Han1. right. apply in_or_app. left. exact Hy.
            + intros y Hy. apply Hau1. apply in_or_app. left. exact Hy.
            + apply incl_appl, incl_refl.
          - split; [|split; [|split]].
            + rewrite forallb_forall in H2. specialize (H2 _ I). cbn [fst snd] in H2.
              apply andb_true_iff in H2 as [_ H2]. apply nested_true in H2. exact H2.
            + intros y Hy. apply Han1. right. apply in_or_app. right. apply in_or_app. left.
              apply (anns_inb_In c' b0 elifs I). right. exact Hy.
            + intros y Hy. apply Hau1. apply in_or_app. right. apply in_or_app. left.
              apply (augs_inb_In c' b0 elifs I). exact Hy.
            + apply incl_appr, incl_appl. apply (wr_inb_In c' b0 elifs I). }
        assert (CONDS : forall cb, In cb ((c, body) :: elifs) -> cev (a_id (fst cb)) sg = peval (fst cb) rho).
        { intros [c' b'] [E|I]; cbn [fst].
          - inversion E; subst c' b'. apply cev_peval; [apply Han1; left; reflexivity|].
            apply (args_agree D L rho sg _ HR Hc).
          - rewrite forallb_forall in H2. specialize (H2 _ I). cbn [fst snd] in H2.
            apply andb_true_iff in H2 as [H2 _]. apply cev_peval.
            + apply Han1. right. apply in_or_app. right. apply in_or_app. left.
              apply (anns_inb_In c' b' elifs I). left. reflexivity.
            + apply (args_agree D L rho sg _ HR H2). }
        destruct (pick_agree ret k rho sg els _ b CONDS Epick) as [Hcp Hb].
        destruct (GOOD b Hb) as (Gb & Anb & Aub & Wrb).
        destruct (IH b ret k false false gf' D L D rho sg rho1 e1 o1 eq_refl Gb Anb Aub HNT HR) as (loc0 & s1 & Fb & Cb & Frb & Rb & Hl0 & _); [intros g []|exact Eb|].
        cbn [trm fst] in Cb.
        assert (HEAD : forall F', (Fb <= F')%nat ->
                  (match cpick sem info sg (trn ret k els) ((a_id c, trn ret k body) :: trnb ret k elifs) with
                   | Some b0 => cblock sem augsem info F' sg b0 | None => None end) = Some (s1, e1, oc ret o1)).
        { intros F' HF'. cbn [trnb] in Hcp. rewrite Hcp. unfold cblock. rewrite Cb by exact HF'.
          rewrite (lastn_app_r (length sg) loc0 s1) by (eapply Fr_length; eauto). reflexivity. }
        rewrite (trm_cons_other ret k top lm D (PIf c body elifs els) rest I) in HP |- *. cbn [fst snd] in HP |- *. rewrite tr1_unfold.
        destruct o1; cbn [pcont] in HE.
        * destruct (pexec f rho1 rest) as [[[rho2 e2] o2]|] eqn:Er; [|discriminate].
          inversion HE; subst rho' tr o. clear HE.
          eapply (sim_tail f IH ret _ top lm gf' D D L D' rho1 sg s1 (PIf c body elifs els) rest
                    [NIf ((a_id c, trn ret k body) :: trnb ret k elifs) (trn ret k els)] [] e1 Fb rho2 e2 o2 HNT1);
          [exact Htr|exact HG|exact Han2|exact Hau2| | | | | | | |exact Er].
          -- apply ext_refl.
          -- exact Rb.
          -- exact HP.
          -- eapply Fr_incl; [exact Wrb|exact Frb].
          -- exact HWD.
          -- intros F' restC HF'. cbn [app]. rewrite cexec_if. rewrite (HEAD F' HF'). reflexivity.
          -- constructor.
        * inversion HE; subst rho' tr o. clear HE.
          exists [], s1, (S Fb). split; [|split; [|split; [|split]]].
          -- intros F' HF'. destruct F' as [|F'']; [lia|]. cbn [app]. rewrite cexec_if.
             rewrite (HEAD F'') by lia. reflexivity.
          -- cbn [wr_in]. apply Fr_app_l. eapply Fr_incl; [exact Wrb|exact Frb].
          -- exact Rb.
          -- intros _. apply TmpKeys_nil.
          -- discriminate.
        * inversion HE; subst rho' tr o. clear HE.
          exists [], s1, (S Fb). split; [|split; [|split; [|split]]].
          -- intros F' HF'. destruct F' as [|F'']; [lia|]. cbn [app]. rewrite cexec_if.
             rewrite (HEAD F'') by lia. destruct ret; reflexivity.
          -- cbn [wr_in]. apply Fr_app_l. eapply Fr_incl; [exact Wrb|exact Frb].
          -- exact Rb.
          -- intros _. apply TmpKeys_nil.
          -- discriminate.
        * inversion HE; subst rho' tr o. clear HE.
          exists [], s1, (S Fb). split; [|split; [|split; [|split]]].
          -- intros F' HF'. destruct F' as [|F'']; [lia|]. cbn [app]. rewrite cexec_if.
             rewrite (HEAD F'') by lia. reflexivity.
          -- cbn [wr_in]. apply Fr_app_l. eapply Fr_incl; [exact Wrb|exact Frb].
          -- exact Rb.
          -- intros _. apply TmpKeys_nil.
          -- discriminate.
      + (* ---------- PWhile ---------- *)
        rewrite pexec_while in HE. destruct (peval c rho) as [v|] eqn:Ec; [|discriminate].
        pose proof HS as HS0. cbn [g_step] in HS.
        match type of HS with (if ?cnd then _ else _) = _ => destruct cnd eqn:Hc; [|discriminate] end.
        inversion HS; subst D1.
        apply andb_true_iff in Hc as [Hc H1]. apply nested_true in H1.
        rewrite anns_of_unfold in Han1. rewrite augs_of_unfold in Hau1.
        assert (Hin : In c (prog_anns P)) by (apply Han1; left; reflexivity).
        destruct (eval_ok D L rho sg c v HR Hc Hin Ec) as [Hcv _].
        assert (Anb : incl (anns_in body) (prog_anns P)) by (intros y Hy; apply Han1; right; exact Hy).
        pose proof (wr_unfold (PWhile c body)) as HWR.
        pose proof (trm_cons_other ret k top lm D (PWhile c body) rest I) as HTRM. rewrite tr1_unfold in HTRM.
        destruct (truthy v) eqn:Etv.
        * destruct (pexec f rho body) as [[[rho1 e1] o1]|] eqn:Eb; [|discriminate].
          destruct (IH body false k false false gf' D L D rho sg rho1 e1 o1 eq_refl H1 Anb Hau1 HNT HR) as (loc0 & s1 & Fb & Cb & Frb & Rb & Hl0 & _); [intros g []|exact Eb|].
          rewrite oc_false in Cb.
          cbn [trm fst] in Cb.
          assert (BLK : forall F', (Fb <= F')%nat -> cblock sem augsem info F' sg (trn false k body) = Some (s1, e1, o1)).
          { intros F' HF'. unfold cblock. rewrite Cb by exact HF'.
            rewrite (lastn_app_r (length sg) loc0 s1) by (eapply Fr_length; eauto). reflexivity. }
          assert (AGAIN : (o1 = ONormal \/ o1 = OContinue) ->
                    match pexec f rho1 (PWhile c body :: rest) with
                    | None => None | Some (rho2, e2, o) => Some (rho2, e1 ++ e2, o) end = Some (rho', tr, o) ->
                    exists loc sg' F,
                      (forall F', (F <= F')%nat -> cexec F' sg (fst (trm ret k top lm D (PWhile c body :: rest))) = Some (loc ++ sg', tr, oc ret o))
                      /\ Fr (wr_in (PWhile c body :: rest)) sg sg'
                      /\ Rel D L rho' sg'
                      /\ (top && lm = false -> TmpKeys loc)
                      /\ (o = ONormal -> Rel D' L rho' (loc ++ sg') /\ ConstsOk (snd (trm ret k top lm D (PWhile c body :: rest))))).
          { intros Ho1 HE'.
             destruct (pexec f rho1 (PWhile c body :: rest)) as [[[rho2 e2] o2]|] eqn:Er; [|discriminate].
             inversion HE'; subst rho' tr o. clear HE'.
             assert (HG' : g_block (S gf') top D L (PWhile c body :: rest) = Some D').
             { rewrite g_block_cons, HS0. exact HG. }
             assert (HP1 : Pend (snd (trm ret k top lm D (PWhile c body :: rest))) s1).
             { eapply Pend_frame; [exact HP|exact Frb|]. intros g Hg.
               eapply fresh_not_written; [|exact Hg]. intros y Hy. eapply wr_dom_nested; eauto. }
             assert (Han' : incl (anns_in (PWhile c body :: rest)) (prog_anns P)).
             { cbn [anns_in]. rewrite anns_of_unfold. apply incl_app; assumption. }
             assert (Hau' : incl (augs_in (PWhile c body :: rest)) (prog_augs P)).
             { cbn [augs_in]. rewrite augs_of_unfold. apply incl_app; assumption. }
             destruct (IH _ ret k top lm _ D L D' rho1 s1 rho2 e2 o2 Htup HG' Han' Hau' HNT Rb HP1 Er) as (loc & s2 & F2 & C2 & Fr2 & R2 & L2 & N2).
             rewrite HTRM in *. cbn [fst snd app] in *.
             exists loc, s2, (S (Nat.max Fb F2)). split; [|split; [|split; [|split]]].
             ++ intros F' HF'. destruct F' as [|F'']; [lia|]. rewrite cexec_while, Hcv, Etv.
                rewrite BLK by lia. rewrite C2 by lia. destruct Ho1 as [-> | ->]; reflexivity.
             ++ eapply Fr_trans_same; [|exact Fr2]. cbn [wr_in]. apply Fr_app_l. rewrite HWR. exact Frb.
             ++ exact R2.
             ++ exact L2.
             ++ exact N2. }
          destruct o1; [apply AGAIN; [left; reflexivity|exact HE]| |apply AGAIN; [right; reflexivity|exact HE]|discriminate].
          -- (* break: continue after the loop *)
             destruct (pexec f rho1 rest) as [[[rho2 e2] o2]|] eqn:Er; [|discriminate].
             inversion HE; subst rho' tr o. clear HE.
             rewrite HTRM in HP |- *. cbn [fst snd] in HP |- *.
             eapply (sim_tail f IH ret _ top lm gf' D D L D' rho1 sg s1 (PWhile c body) rest
                       [NWhile (a_id c) (trn false k body)] [] e1 Fb rho2 e2 o2 HNT1);
          [exact Htr|exact HG|exact Han2|exact Hau2| | | | | | | |exact Er].
             ++ apply ext_refl.
             ++ exact Rb.
             ++ exact HP.
             ++ rewrite HWR. exact Frb.
             ++ exact HWD.
             ++ intros F' restC HF'. cbn [app]. rewrite cexec_while, Hcv, Etv. rewrite BLK by exact HF'. reflexivity.
             ++ constructor.
        * (* condition false *)
          rewrite HTRM in HP |- *. cbn [fst snd] in HP |- *.
          change tr with ([] ++ tr).
          eapply (sim_tail f IH ret _ top lm gf' D D L D' rho sg sg (PWhile c body) rest
                    [NWhile (a_id c) (trn false k body)] [] [] 0%nat rho' tr o HNT1);
          [exact Htr|exact HG|exact Han2|exact Hau2| | | | | | | |exact HE].
          -- apply ext_refl.
          -- exact HR.
          -- exact HP.
          -- apply Fr_refl.
          -- exact HWD.
          -- intros F' restC _. cbn [app]. rewrite cexec_while, Hcv, Etv.
             destruct (cexec F' sg restC) as [[[? ?] ?]|]; reflexivity.
          -- constructor.
      + (* ---------- PFor ---------- *)
        rewrite pexec_for in HE. destruct (peval cnt rho) as [nv|] eqn:Ec; [|discriminate].
        destruct (as_count nv) as [n|] eqn:En; [|discriminate].
        destruct (piter sem augsem f x body (Z.to_nat n) 0 rho) as [[rho1 e1]|] eqn:Eit; [|discriminate].
        destruct (pexec f rho1 rest) as [[[rho2 e2] o2]|] eqn:Er; [|discriminate].
        inversion HE; subst rho' tr o. clear HE.
        cbn [g_step] in HS.
        match type of HS with (if ?cnd then _ else _) = _ => destruct cnd eqn:Hc; [|discriminate] end.
        inversion HS; subst D1. clear HS.
        apply andb_true_iff in Hc as [Hc H8]. apply andb_true_iff in Hc as [Hc H7].
        apply andb_true_iff in Hc as [Hc H6]. apply andb_true_iff in Hc as [Hc H5].
        apply andb_true_iff in Hc as [Hc H4t].
        apply andb_true_iff in Hc as [Hc H4]. apply andb_true_iff in Hc as [Hc H3].
        apply andb_true_iff in Hc as [Hc H2].
        apply nested_true in H8. apply negb_true_iff in H3, H4, H4t, H5, H7.
        rewrite anns_of_unfold in Han1. rewrite augs_of_unfold in Hau1.
        assert (Hin : In cnt (prog_anns P)) by (apply Han1; left; reflexivity).
        assert (Anb : incl (anns_in body) (prog_anns P)) by (intros y Hy; apply Han1; right; exact Hy).
        pose proof (wr_unfold (PFor x cnt body)) as HWR.
        assert (HxW : tmem x (wr_in body) = false).
        { apply tmem_false. intro HI. apply wr_in_sub_assigned in HI. apply tmem_In in HI. exact (bool_contra _ HI H7). }
        destruct (args_agree D L rho sg (a_fv cnt) HR Hc) as [Hm0 _].
        (* the bound evaluates to the same value in every iteration *)
        assert (HCNT : forall i sg0, Fr (wr_in body) sg sg0 -> cev (a_id cnt) ((x, (TyInt, VI i)) :: sg0) = Some nv).
        { intros i sg0 HF0. rewrite <- Ec. apply cev_peval; [exact Hin|]. rewrite <- Hm0.
          apply map_ext_in. intros y Hy.
          assert (Hyx : y <> x) by (intros ->; apply tmem_In in Hy; exact (bool_contra _ Hy H5)).
          rewrite (clook_tail x y _ sg0 Hyx). unfold clook. f_equal.
          apply (Fr_tlookup _ _ _ _ HF0). apply tmem_false. intro HI.
          apply wr_in_sub_assigned in HI. unfold disjoint in H6. rewrite forallb_forall in H6.
          specialize (H6 _ Hy). apply negb_true_iff in H6. apply tmem_In in HI. exact (bool_contra _ HI H6). }
        assert (IT : forall kn i rho0 sg0 rhoE eE,
                  Rel D L rho0 sg0 -> Fr (wr_in body) sg sg0 -> kn = Z.to_nat (n - i) ->
                  piter sem augsem f x body kn i rho0 = Some (rhoE, eE) ->
                  exists sgE vE FE,
                    (forall F' kk, (FE <= F')%nat -> (kn < kk)%nat ->
                       citer sem augsem info F' x (a_id cnt) (trn false k body) kk ((x, (TyInt, VI i)) :: sg0)
                       = Some ((x, (TyInt, vE)) :: sgE, eE, false))
                    /\ Rel D L rhoE sgE /\ Fr (wr_in body) sg sgE).
        { induction kn as [|kn IHk]; intros i rho0 sg0 rhoE eE HR0 HF0 Hk HI.
          - cbn in HI. inversion HI; subst rhoE eE. exists sg0, (VI i), 0%nat. split; [|split; assumption].
            intros F' kk _ Hkk. destruct kk as [|kk']; [lia|]. cbn [citer].
            rewrite clook_head. cbn [snd]. rewrite (HCNT i sg0 HF0), En.
            assert (Hlt : (i <? n) = false) by (apply Z.ltb_ge; lia). rewrite Hlt. reflexivity.
          - cbn [piter] in HI.
            destruct (pexec f (pset x (VI i) rho0) body) as [[[rhoB eB] oB]|] eqn:Eb; [|discriminate].
            destruct (IH body false k false false gf' D (x :: L) D (pset x (VI i) rho0) ((x, (TyInt, VI i)) :: sg0) rhoB eB oB eq_refl H8 Anb Hau1 (NT_push D L x HNT H4t))
              as (loc0 & s1 & Fb & Cb & Frb & Rb & Hl0 & _); [apply Rel_push; assumption|intros g []|exact Eb|].
            rewrite oc_false in Cb.
            cbn [trm fst] in Cb.
            destruct (Fr_cons_inv _ _ _ _ Frb HxW) as (sg1 & -> & Frb').
            apply Rel_pop in Rb; [|assumption|assumption].
            assert (BLK : forall F', (Fb <= F')%nat ->
                      cblock sem augsem info F' ((x, (TyInt, VI i)) :: sg0) (trn false k body) = Some ((x, (TyInt, VI i)) :: sg1, eB, oB)).
            { intros F' HF'. unfold cblock. rewrite Cb by exact HF'.
              rewrite (lastn_app_r (length ((x, (TyInt, VI i)) :: sg0)) loc0 ((x, (TyInt, VI i)) :: sg1)) by (eapply Fr_length; eauto). reflexivity. }
            assert (Hlt : (i <? n) = true) by (apply Z.ltb_lt; lia).
            assert (HF1 : Fr (wr_in body) sg sg1) by (eapply Fr_trans_same; eauto).
            assert (NEXT : (oB = ONormal \/ oB = OContinue) ->
                      match piter sem augsem f x body kn (i + 1) rhoB with
                      | None => None | Some (rho2, e2) => Some (rho2, eB ++ e2) end = Some (rhoE, eE) ->
                      exists sgE vE FE,
                        (forall F' kk, (FE <= F')%nat -> (S kn < kk)%nat ->
                           citer sem augsem info F' x (a_id cnt) (trn false k body) kk ((x, (TyInt, VI i)) :: sg0)
                           = Some ((x, (TyInt, vE)) :: sgE, eE, false))
                        /\ Rel D L rhoE sgE /\ Fr (wr_in body) sg sgE).
            { intros HoB HI'.
              destruct (piter sem augsem f x body kn (i + 1) rhoB) as [[rho2' e2']|] eqn:E2; [|discriminate].
              inversion HI'; subst rhoE eE. clear HI'.
              destruct (IHk (i + 1) rhoB sg1 rho2' e2' Rb HF1) as (sgE & vE & FE & CE & RE & FrE); [lia|exact E2|].
              exists sgE, vE, (Nat.max Fb FE). split; [|split; assumption].
              intros F' kk HF' Hkk. destruct kk as [|kk']; [lia|]. cbn [citer].
              rewrite clook_head. cbn [snd]. rewrite (HCNT i sg0 HF0), En, Hlt.
              rewrite BLK by lia.
              destruct HoB as [-> | ->]; rewrite clook_head; cbn [snd cupd]; rewrite text_eqb_refl; cbn [conv];
                rewrite CE by lia; reflexivity. }
            destruct oB; [apply NEXT; [left; reflexivity|exact HI]| |apply NEXT; [right; reflexivity|exact HI]|discriminate].
            + inversion HI; subst rhoE eE. clear HI.
              exists sg1, (VI i), Fb. split; [|split; assumption].
              intros F' kk HF' Hkk. destruct kk as [|kk']; [lia|]. cbn [citer].
              rewrite clook_head. cbn [snd]. rewrite (HCNT i sg0 HF0), En, Hlt.
              rewrite BLK by lia. reflexivity. }
        destruct (IT (Z.to_nat n) 0 rho sg rho1 e1 HR (Fr_refl _ _)) as (sgE & vE & FE & CE & RE & FrE);
          [f_equal; lia|exact Eit|].
        rewrite (trm_cons_other ret k top lm D (PFor x cnt body) rest I) in HP |- *. cbn [fst snd] in HP |- *. rewrite tr1_unfold.
        eapply (sim_tail f IH ret _ top lm gf' D D L D' rho1 sg sgE (PFor x cnt body) rest
                  [NFor x (a_id cnt) (trn false k body)] [] e1 (Nat.max FE (Z.to_nat n)) rho2 e2 o2 HNT1);
          [exact Htr|exact HG|exact Han2|exact Hau2| | | | | | | |exact Er].
        * apply ext_refl.
        * exact RE.
        * exact HP.
        * rewrite HWR. exact FrE.
        * exact HWD.
        * intros F' restC HF'. cbn [app]. rewrite cexec_for. rewrite CE by lia.
          rewrite (lastn_cons (length sg) _ sgE) by (eapply Fr_length; eauto). reflexivity.
        * constructor.
      + (* ---------- PBreak ---------- *)
        rewrite pexec_break in HE. inversion HE; subst rho' tr o. clear HE.
        cbn [g_step] in HS. inversion HS; subst D1.
        rewrite (trm_cons_other ret k top lm D PBreak rest I). cbn [fst snd]. rewrite tr1_unfold.
        exists [], sg, 1%nat. split; [|split; [|split; [|split]]].
        * intros F' HF'. destruct F' as [|F'']; [lia|]. cbn [app]. apply cexec_break.
        * apply Fr_refl.
        * exact HR.
        * intros _. apply TmpKeys_nil.
        * discriminate.
      + (* ---------- PContinue ---------- *)
        rewrite pexec_continue in HE. inversion HE; subst rho' tr o. clear HE.
        cbn [g_step] in HS. inversion HS; subst D1.
        rewrite (trm_cons_other ret k top lm D PContinue rest I). cbn [fst snd]. rewrite tr1_unfold.
        exists [], sg, 1%nat. split; [|split; [|split; [|split]]].
        * intros F' HF'. destruct F' as [|F'']; [lia|]. destruct ret; cbn [app oc]; [apply cexec_return|apply cexec_continue].
        * apply Fr_refl.
        * exact HR.
        * intros _. apply TmpKeys_nil.
        * discriminate.
      + (* ---------- PWrite ---------- *)
        rewrite pexec_write in HE. destruct (peval e rho) as [v|] eqn:Ev; [|discriminate]. cbn [pcont] in HE.
        destruct (pexec f rho rest) as [[[rho2 e2] o2]|] eqn:Er; [|discriminate].
        inversion HE; subst rho' tr o. clear HE.
        cbn [g_step] in HS. destruct (fv_ok D L e) eqn:Hfv; [|discriminate]. inversion HS; subst D1.
        rewrite anns_of_unfold in Han1. assert (Hin : In e (prog_anns P)) by (apply Han1; left; reflexivity).
        destruct (eval_ok D L rho sg e v HR Hfv Hin Ev) as [Hc Hv].
        rewrite (trm_cons_other ret k top lm D (PWrite e) rest I) in HP |- *. cbn [fst snd] in HP |- *. rewrite tr1_unfold.
        eapply (sim_tail f IH ret _ top lm gf' D D L D' rho sg sg (PWrite e) rest
                  [NWrite (a_id e)] [] [EvSer v] 0%nat rho2 e2 o2 HNT1);
          [exact Htr|exact HG|exact Han2|exact Hau2| | | | | | | |exact Er].
        * apply ext_refl.
        * exact HR.
        * exact HP.
        * apply Fr_refl.
        * exact HWD.
        * intros F' restC _. cbn [app]. rewrite cexec_write, Hc. reflexivity.
        * constructor.
      + (* ---------- PSleep ---------- *)
        rewrite pexec_sleep in HE. destruct (peval e rho) as [v|] eqn:Ev; [|discriminate]. cbn [pcont] in HE.
        destruct (pexec f rho rest) as [[[rho2 e2] o2]|] eqn:Er; [|discriminate].
        inversion HE; subst rho' tr o. clear HE.
        cbn [g_step] in HS. destruct (fv_ok D L e) eqn:Hfv; [|discriminate]. inversion HS; subst D1.
        rewrite anns_of_unfold in Han1. assert (Hin : In e (prog_anns P)) by (apply Han1; left; reflexivity).
        destruct (eval_ok D L rho sg e v HR Hfv Hin Ev) as [Hc Hv].
        rewrite (trm_cons_other ret k top lm D (PSleep e) rest I) in HP |- *. cbn [fst snd] in HP |- *. rewrite tr1_unfold.
        eapply (sim_tail f IH ret _ top lm gf' D D L D' rho sg sg (PSleep e) rest
                  [NSleep (a_id e)] [] [EvDelay v] 0%nat rho2 e2 o2 HNT1);
          [exact Htr|exact HG|exact Han2|exact Hau2| | | | | | | |exact Er].
        * apply ext_refl.
        * exact HR.
        * exact HP.
        * apply Fr_refl.
        * exact HWD.
        * intros F' restC _. cbn [app]. rewrite cexec_sleep, Hc. reflexivity.
        * constructor.
      + (* ---------- PExprS ---------- *)
        rewrite pexec_exprs in HE. destruct (peval e rho) as [v|] eqn:Ev; [|discriminate]. cbn [pcont] in HE.
        destruct (pexec f rho rest) as [[[rho2 e2] o2]|] eqn:Er; [|discriminate].
        inversion HE; subst rho' tr o. clear HE.
        cbn [g_step] in HS. destruct (fv_ok D L e) eqn:Hfv; [|discriminate]. inversion HS; subst D1.
        rewrite anns_of_unfold in Han1. assert (Hin : In e (prog_anns P)) by (apply Han1; left; reflexivity).
        destruct (eval_ok D L rho sg e v HR Hfv Hin Ev) as [Hc Hv].
        rewrite (trm_cons_other ret k top lm D (PExprS e) rest I) in *. cbn [fst snd] in *. rewrite tr1_unfold.
        destruct (closed_const e) eqn:Hcc.
        * (* a constant expression statement is dropped on both sides *)
          cbn [app] in *.
          destruct (IH rest ret k top lm gf' D L D' rho sg rho2 e2 o2 Htr HG Han2 Hau2 HNT HR HP Er) as (loc & sg' & F2 & C2 & Fr2 & R2 & L2 & N2).
          exists loc, sg', F2. split; [exact C2|]. split; [cbn [wr_in]; apply Fr_app_r; exact Fr2|].
          split; [|split]; assumption.
        * eapply (sim_tail f IH ret _ top lm gf' D D L D' rho sg sg (PExprS e) rest
                    [NExprS (a_id e)] [] [EvX (a_id e) v] 0%nat rho2 e2 o2 HNT1);
          [exact Htr|exact HG|exact Han2|exact Hau2| | | | | | | |exact Er].
          -- apply ext_refl.
          -- exact HR.
          -- exact HP.
          -- apply Fr_refl.
          -- exact HWD.
          -- intros F' restC _. cbn [app]. rewrite cexec_exprs, Hc. reflexivity.
          -- constructor.
  Qed.
End Sim.
