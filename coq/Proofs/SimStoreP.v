(* Store algebra for the statement-layer simulation: association lists keyed by text,
   the Python environment (pset/plook), the C store (clook/cupd/lastn) and the frame
   relation [Fr]. *)
From Coq Require Import ZArith QArith List Bool Lia.
From RV Require Import Base.Wire Base.Text Lang.StmtAst Lang.StmtSem.
Import ListNotations.
Open Scope Z_scope.

Lemma text_eqb_neq a b : text_eqb a b = false <-> a <> b.
Proof.
  split; intro H.
  - intro E. apply text_eqb_eq in E. congruence.
  - destruct (text_eqb a b) eqn:E; [|reflexivity]. apply text_eqb_eq in E. contradiction.
Qed.

Lemma text_eqb_sym a b : text_eqb a b = text_eqb b a.
Proof.
  destruct (text_eqb a b) eqn:E; symmetry.
  - apply text_eqb_eq in E. subst. apply text_eqb_refl.
  - apply text_eqb_neq in E. apply text_eqb_neq. congruence.
Qed.

Lemma tmem_false a l : tmem a l = false <-> ~ In a l.
Proof.
  split; intro H.
  - intro I. apply tmem_In in I. congruence.
  - destruct (tmem a l) eqn:E; [|reflexivity]. apply tmem_In in E. contradiction.
Qed.

Lemma tmem_app a l1 l2 : tmem a (l1 ++ l2) = tmem a l1 || tmem a l2.
Proof. induction l1 as [|b r IH]; cbn; [reflexivity|]. rewrite IH, orb_assoc. reflexivity. Qed.

(* ---- tlookup ---- *)
Lemma tlookup_app {A} x (l1 l2 : list (text * A)) :
  tlookup x (l1 ++ l2) = match tlookup x l1 with Some v => Some v | None => tlookup x l2 end.
Proof.
  induction l1 as [|[k v] r IH]; cbn; [reflexivity|].
  destruct (text_eqb x k); [reflexivity|apply IH].
Qed.

Lemma tlookup_dom_true {A} x (l : list (text * A)) v :
  tlookup x l = Some v -> tmem x (map fst l) = true.
Proof.
  induction l as [|[k u] r IH]; cbn; [discriminate|].
  destruct (text_eqb x k); cbn; [reflexivity|exact IH].
Qed.

Lemma tlookup_dom_false {A} x (l : list (text * A)) :
  tlookup x l = None -> tmem x (map fst l) = false.
Proof.
  induction l as [|[k u] r IH]; cbn; [reflexivity|].
  destruct (text_eqb x k); cbn; [discriminate|exact IH].
Qed.

Lemma tmem_dom_lookup {A} x (l : list (text * A)) :
  tmem x (map fst l) = true -> exists v, tlookup x l = Some v.
Proof.
  intro H. destruct (tlookup x l) eqn:E; [eauto|].
  apply tlookup_dom_false in E. congruence.
Qed.

Lemma tlookup_In {A} x (l : list (text * A)) v : tlookup x l = Some v -> In (x, v) l.
Proof.
  induction l as [|[k u] r IH]; cbn; [discriminate|].
  destruct (text_eqb x k) eqn:E; intro H.
  - apply text_eqb_eq in E. inversion H; subst. left; reflexivity.
  - right; auto.
Qed.

(* ---- Python environment ---- *)
Lemma plook_pset_same x v rho : plook (pset x v rho) x = Some v.
Proof.
  unfold plook. induction rho as [|[y u] r IH]; cbn.
  - rewrite text_eqb_refl. reflexivity.
  - destruct (text_eqb x y) eqn:E; cbn; rewrite ?text_eqb_refl, ?E; auto.
Qed.

Lemma plook_pset_other x y v rho : y <> x -> plook (pset x v rho) y = plook rho y.
Proof.
  intro N. unfold plook. apply text_eqb_neq in N.
  induction rho as [|[z u] r IH]; cbn.
  - rewrite N. reflexivity.
  - destruct (text_eqb x z) eqn:E; cbn.
    + apply text_eqb_eq in E. subst z. rewrite N. reflexivity.
    + destruct (text_eqb y z); auto.
Qed.

(* ---- conversions ---- *)
Lemma conv_has_ty t v : has_ty t v = true -> conv t v = v.
Proof. destruct t, v; cbn; intro H; try discriminate; reflexivity. Qed.

Lemma has_ty_default t : has_ty t (default_val t) = true.
Proof. destruct t; reflexivity. Qed.

(* ---- lastn ---- *)
Lemma lastn_all {A} n (l : list A) : length l = n -> lastn n l = l.
Proof. intro H. unfold lastn. rewrite H, Nat.sub_diag. reflexivity. Qed.

Lemma lastn_cons {A} n (a : A) (l : list A) : length l = n -> lastn n (a :: l) = l.
Proof.
  intro H. unfold lastn. cbn [length]. rewrite H.
  replace (S n - n)%nat with 1%nat by lia. reflexivity.
Qed.

(* ---- the frame relation: same names and types position by position; bindings of names
        outside N are unchanged ---- *)
Definition cstore := list (ident * (ty * val)).

Definition fr1 (N : list ident) (p q : ident * (ty * val)) : Prop :=
  fst p = fst q /\ fst (snd p) = fst (snd q) /\ (tmem (fst p) N = false -> p = q).
Definition Fr (N : list ident) (a b : cstore) : Prop := Forall2 (fr1 N) a b.

Lemma Fr_refl N a : Fr N a a.
Proof. induction a; constructor; auto. repeat split; auto. Qed.

Lemma Fr_trans N1 N2 a b c :
  (forall x, tmem x N1 = true -> tmem x N2 = true) ->
  Fr N1 a b -> Fr N2 b c -> Fr N2 a c.
Proof.
  intros HN H1. revert c. induction H1 as [|p q a b Hpq _ IH]; intros c H2; inversion H2; subst.
  - constructor.
  - constructor; [|apply IH; assumption].
    destruct Hpq as (E1 & E2 & E3). destruct H1 as (F1 & F2 & F3).
    repeat split; try congruence.
    intro Hn. assert (Hn1 : tmem (fst p) N1 = false).
    { destruct (tmem (fst p) N1) eqn:E; [|reflexivity]. apply HN in E. congruence. }
    rewrite (E3 Hn1) in *. apply F3. assumption.
Qed.

Lemma Fr_trans_same N a b c : Fr N a b -> Fr N b c -> Fr N a c.
Proof. apply Fr_trans. auto. Qed.

Lemma Fr_mono N1 N2 a b :
  (forall x, tmem x N1 = true -> tmem x N2 = true) -> Fr N1 a b -> Fr N2 a b.
Proof. intros HN H. eapply Fr_trans; [exact HN|exact H|apply Fr_refl]. Qed.

Lemma Fr_length N a b : Fr N a b -> length b = length a.
Proof. intro H. induction H; cbn; congruence. Qed.

Lemma Fr_tlookup N a b x : Fr N a b -> tmem x N = false -> tlookup x b = tlookup x a.
Proof.
  intros H Hx. induction H as [|[k1 v1] [k2 v2] a b (E1 & E2 & E3) _ IH]; [reflexivity|].
  cbn in *. subst k2. destruct (text_eqb x k1) eqn:E; [|exact IH].
  apply text_eqb_eq in E. subst k1. specialize (E3 Hx). congruence.
Qed.

Lemma Fr_cons_inv N p a b :
  Fr N (p :: a) b -> tmem (fst p) N = false -> exists b', b = p :: b' /\ Fr N a b'.
Proof.
  intros H Hp. inversion H as [|? q ? b' (E1 & E2 & E3) Hr]; subst.
  rewrite <- (E3 Hp). eauto.
Qed.

Lemma Fr_cons N p a b : Fr N a b -> Fr N (p :: a) (p :: b).
Proof. intro H. constructor; [repeat split; auto|exact H]. Qed.

(* ---- cupd ---- *)
Lemma cupd_spec N x v (a : cstore) t u :
  tlookup x a = Some (t, u) -> tmem x N = true ->
  exists b, cupd x v a = Some b /\ tlookup x b = Some (t, conv t v) /\
            (forall y, y <> x -> tlookup y b = tlookup y a) /\ Fr N a b.
Proof.
  intros H HN. induction a as [|[k [t0 u0]] r IH]; cbn in *; [discriminate|].
  destruct (text_eqb x k) eqn:E.
  - inversion H; subst. apply text_eqb_eq in E. subst k.
    eexists; split; [reflexivity|]. cbn. rewrite text_eqb_refl. split; [reflexivity|]. split.
    + intros y Hy. apply text_eqb_neq in Hy. rewrite Hy. reflexivity.
    + constructor; [|apply Fr_refl]. repeat split; cbn; auto. congruence.
  - destruct (IH H) as (b & Hb & L1 & L2 & HF). rewrite Hb.
    eexists; split; [reflexivity|]. cbn. rewrite E. split; [exact L1|]. split.
    + intros y Hy. destruct (text_eqb y k); auto.
    + apply Fr_cons. exact HF.
Qed.

Lemma clook_tlookup (sg : cstore) x t v : tlookup x sg = Some (t, v) -> clook sg x = Some v.
Proof. unfold clook. intros ->. reflexivity. Qed.
