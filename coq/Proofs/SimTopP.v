(* Program-level simulation: transl + guard_ok + facts about the expression semantics imply
   that the C program (globals, setup(), n passes of loop()) produces the trace of the
   Python program (top-level statements, n passes of the `while True:` body). *)
From Coq Require Import ZArith QArith List Bool Lia.
From RV Require Import Base.Wire Base.Text Lang.StmtAst Lang.Transl Lang.StmtSem Lang.StmtGuard
  Lang.SemFacts Lang.StmtSimple.
From RV Require Import Proofs.SimStoreP Proofs.StmtUnfoldP Proofs.SimBaseP Proofs.SimP Proofs.TranslSimpleP.
Import ListNotations.
Open Scope Z_scope.

Lemma texts_eq (a b : list ident) :
  Nat.eqb (length a) (length b) = true ->
  forallb (fun xy => text_eqb (fst xy) (snd xy)) (combine a b) = true -> a = b.
Proof.
  revert b. induction a as [|x a IH]; intros [|y b] HL HF; cbn in *; try discriminate; [reflexivity|].
  apply andb_true_iff in HF as [H1 H2]. apply text_eqb_eq in H1. subst y. f_equal. apply IH; assumption.
Qed.

Lemma info_ok p : ids_consistent p = true ->
  forall a, In a (prog_anns p) -> exists b, info_of p (a_id a) = Some b /\ a_fv b = a_fv a.
Proof.
  unfold ids_consistent. intros H a Ha. rewrite forallb_forall in H. specialize (H a Ha).
  destruct (info_of p (a_id a)) as [b|]; [|discriminate]. exists b. split; [reflexivity|].
  unfold ann_eqb in H. apply andb_true_iff in H as [H H5]. apply andb_true_iff in H as [H H4].
  symmetry. apply texts_eq; assumption.
Qed.

Section Top.
  Variable sem : Z -> list (option val) -> option val.
  Variable augsem : Z -> val -> val -> option val.
  Variable p : pprog.
  Hypothesis Hfacts : sem_facts sem augsem p.
  Hypothesis Hids : ids_consistent p = true.

  Let info := info_of p.
  Let Hinfo := info_ok p Hids.

  Notation pexec := (pexec sem augsem).
  Notation cexec := (cexec sem augsem info).

  Definition bind (g : gdecl) : ident * (ty * val) := (g_name g, (g_ty g, pend_val sem g)).

  Lemma init_ok gs : ConstsOk sem info gs ->
    forall sg0, init_globals sem augsem info gs sg0 = Some (rev (map bind gs) ++ sg0).
  Proof.
    induction 1 as [|g r Hg _ IH]; intro sg0; [reflexivity|].
    cbn [init_globals map rev]. unfold const_ok in Hg.
    assert (E : match ceval sem augsem info (g_init g) sg0 with
                | Some v => Some (conv (g_ty g) v) | None => None end = Some (pend_val sem g)).
    { unfold pend_val. destruct (g_init g) as [id|t|k|x op id]; cbn [ceval]; try contradiction.
      - destruct Hg as (v & H1 & H2 & H3). rewrite H3, H1, (conv_has_ty _ _ H2). reflexivity.
      - subst t. rewrite (conv_has_ty _ _ (has_ty_default (g_ty g))). reflexivity. }
    destruct (ceval sem augsem info (g_init g) sg0) as [v|]; [|discriminate]. inversion E as [E'].
    rewrite E'. rewrite IH. rewrite <- app_assoc. reflexivity.
  Qed.

  Lemma pend_init gs : NoDup (map g_name gs) -> Pend sem gs (rev (map bind gs)).
  Proof.
    intros HN g Hg.
    assert (E : tlookup (g_name g) (rev (map bind gs)) = Some (g_ty g, pend_val sem g)).
    { apply (tlookup_nodup (rev (map bind gs)) (g_name g) (g_ty g, pend_val sem g)).
      - rewrite <- map_rev. rewrite map_map. cbn [bind fst]. rewrite map_rev. apply NoDup_rev. exact HN.
      - apply in_rev. rewrite rev_involutive. apply (in_map bind gs g Hg). }
    unfold pend_at. rewrite E. destruct (g_init g); try (eexists; reflexivity); reflexivity.
  Qed.

  Lemma Pend_app_l gs1 gs2 sg : Pend sem (gs1 ++ gs2) sg -> Pend sem gs1 sg.
  Proof. intros H g Hg. apply H. apply in_or_app. left. exact Hg. Qed.
  Lemma Pend_app_r gs1 gs2 sg : Pend sem (gs1 ++ gs2) sg -> Pend sem gs2 sg.
  Proof. intros H g Hg. apply H. apply in_or_app. right. exact Hg. Qed.

  Lemma Rel_nil sg : Rel [] [] [] sg.
  Proof. split; [intros x t H; discriminate|intros x H; discriminate]. Qed.

  Lemma NT_nil : NT [] [].
  Proof. intros x [H|H]; discriminate. Qed.

  Lemma Fr_bound N (a b : SimStoreP.cstore) x t u :
    Fr N a b -> tlookup x a = Some (t, u) -> exists u', tlookup x b = Some (t, u').
  Proof.
    intro H. induction H as [|[k1 [t1 v1]] [k2 [t2 v2]] a b (E1 & E2 & E3) _ IH]; cbn; [discriminate|].
    cbn in E1, E2. subst k2 t2. destruct (text_eqb x k1); [intros [= <- <-]; eexists; reflexivity|exact IH].
  Qed.

  (* a default-initialised global stays bound at its type, whatever a pass assigns to it *)
  Lemma Pend_default_frame gs N sg s1 :
    (forall g, In g gs -> g_init g = XDefault (g_ty g)) -> Pend sem gs sg -> Fr N sg s1 -> Pend sem gs s1.
  Proof.
    intros HD HP HF g Hg. specialize (HP g Hg). unfold pend_at in *. rewrite (HD g Hg) in *.
    destruct HP as [u Hu]. eapply Fr_bound; eauto.
  Qed.

  Lemma passes_sim fuel body D gf D2 k :
    NT D [] ->
    no_top_tuple D body = true ->
    g_block gf true D [] body = Some D2 ->
    incl (anns_in body) (prog_anns p) -> incl (augs_in body) (prog_augs p) ->
    forall n rho sg tr, Rel D [] rho sg -> Pend sem (snd (trm true k true true D body)) sg ->
    ppasses sem augsem fuel n rho body = Some tr ->
    exists F, forall F', (F <= F')%nat -> cpasses sem augsem info F' n sg (fst (trm true k true true D body)) = Some tr.
  Proof.
    intros HNTD HNT HG Han Hau. induction n as [|n IH]; intros rho sg tr HR HPd HP.
    - inversion HP; subst. exists 0%nat. intros; reflexivity.
    - cbn [ppasses] in HP. destruct (pexec fuel rho body) as [[[rho1 e1] o1]|] eqn:E; [|discriminate].
      assert (Ho : o1 = ONormal \/ o1 = OContinue) by (destruct o1; auto; discriminate).
      assert (HP' : match ppasses sem augsem fuel n rho1 body with Some e2 => Some (e1 ++ e2) | None => None end = Some tr)
        by (destruct Ho as [-> | ->]; exact HP).
      clear HP.
      destruct (ppasses sem augsem fuel n rho1 body) as [e2|] eqn:E2; [|discriminate]. inversion HP'; subst tr.
      destruct (sim_all sem augsem info p Hfacts Hinfo fuel body true k true true gf D [] D2 rho sg rho1 e1 o1 HNT HG Han Hau HNTD HR)
        as (loc & sg1 & F1 & C1 & Fr1 & R1 & _ & _); [exact HPd|exact E|].
      assert (HPd1 : Pend sem (snd (trm true k true true D body)) sg1).
      { eapply Pend_default_frame; [|exact HPd|exact Fr1]. intros g Hg. eapply trl_default. exact Hg. }
      destruct (IH rho1 sg1 e2 R1 HPd1 E2) as (F2 & C2).
      exists (Nat.max F1 F2). intros F' HF'. cbn [cpasses]. rewrite C1 by lia.
      destruct Ho as [-> | ->]; cbn [oc];
        rewrite (lastn_app_r (length sg) loc sg1) by (eapply Fr_length; eauto); rewrite C2 by lia; reflexivity.
  Qed.

  Theorem stmt_preserve c :
    transl p = Some c -> guard_ok p = true ->
    forall fuel n tr, pprog_exec sem augsem fuel n p = Some tr ->
    exists F, forall F', (F <= F')%nat ->
      cprog_exec sem augsem info F' n (match p_main p with Some _ => true | None => false end) c = Some tr.
  Proof.
    intros HT HGd fuel n tr HP.
    unfold guard_ok in HGd. rewrite Hids in HGd. cbn [andb] in HGd.
    destruct (g_block (bsize (p_pre p)) true [] [] (p_pre p)) as [D|] eqn:G1; [|discriminate].
    unfold transl in HT.
    destruct (tr_block false (bsize (p_pre p)) true 0 st0 (p_pre p)) as [[setup s1]|] eqn:T1; [|discriminate].
    assert (HD0 : Dec [] [] st0) by (intro x; reflexivity).
    destruct (tr_block_simple false _ _ true true false _ _ _ _ _ _ _ _ eq_refl eq_refl (fun _ => eq_refl) eq_refl G1 HD0 T1) as (S1 & S2 & S3 & _).
    change (rt false 0) with false in S1, S2. change (tmpc st0) with 0 in S1, S2.
    cbn [st0 globals app] in S2.
    unfold pprog_exec in HP.
    destruct (pexec fuel [] (p_pre p)) as [[[rho e0] o0]|] eqn:E0; [|discriminate].
    destruct o0; try discriminate.
    set (gsS := snd (trm false 0 true false [] (p_pre p))) in *.
    (* the globals the main-loop body declares are initialised (to their default values) before setup() as well *)
    set (gsL := match p_main p with Some body => snd (trm true (tmpc s1) true true D body) | None => [] end).
    set (gs := gsS ++ gsL).
    assert (HLd : forall g, In g gsL -> g_init g = XDefault (g_ty g) /\ tmem (g_name g) (map fst D) = false).
    { unfold gsL. destruct (p_main p) as [body|]; [|intros g []]. intros g Hg. split; [eapply trl_default; exact Hg|eapply trm_fresh; exact Hg]. }
    assert (HND : NoDup (map g_name gs)).
    { unfold gs. rewrite map_app. apply NoDup_app'.
      - apply trt_nodup.
      - unfold gsL. destruct (p_main p) as [body|]; [apply trl_nodup|constructor].
      - intros x Hx Hx'. apply in_map_iff in Hx as (g & <- & Hg). apply in_map_iff in Hx' as (g' & E' & Hg').
        pose proof (trt_names_in false (p_pre p) _ 0 [] [] D g G1 Hg) as H1.
        destruct (HLd g' Hg') as [_ H2]. rewrite E' in H2. congruence. }
    assert (Han0 : incl (anns_in (p_pre p)) (prog_anns p)).
    { unfold prog_anns. apply incl_appl. apply incl_refl. }
    assert (Hau0 : incl (augs_in (p_pre p)) (prog_augs p)).
    { unfold prog_augs. apply incl_appl, incl_refl. }
    pose proof (pend_init gs HND) as HPi.
    destruct (sim_all sem augsem info p Hfacts Hinfo fuel (p_pre p) false 0 true false _ [] [] D [] (rev (map bind gs)) rho e0 ONormal
                eq_refl G1 Han0 Hau0 NT_nil (Rel_nil _) (Pend_app_l gsS gsL _ HPi) E0)
      as (loc0 & sg1 & F1 & C1 & Fr1 & _ & Hl0 & N1).
    pose proof (g_block_NT _ _ _ _ _ _ G1 NT_nil) as HNTD.
    destruct (N1 eq_refl) as [R1 CO]. fold gsS in CO.
    apply (Rel_untmps _ _ _ _ _ HNTD (Hl0 eq_refl)) in R1.
    assert (COg : ConstsOk sem info gs).
    { unfold gs. apply Forall_app. split; [exact CO|]. apply Forall_forall. intros g Hg.
      destruct (HLd g Hg) as [Hd _]. unfold const_ok. rewrite Hd. reflexivity. }
    pose proof (init_ok gs COg []) as HI. rewrite app_nil_r in HI.
    rewrite <- S1 in C1.
    assert (HPL : Pend sem gsL sg1).
    { eapply Pend_default_frame; [|exact (Pend_app_r gsS gsL _ HPi)|exact Fr1]. intros g Hg. apply (HLd g Hg). }
    destruct (p_main p) as [body|] eqn:Em.
    - apply andb_true_iff in HGd as [HNT HGd].
      destruct (g_block (bsize body) true D [] body) as [D2|] eqn:G2; [|discriminate].
      destruct (tr_block true (bsize body) true 1 s1 body) as [[loop s2]|] eqn:T2; [|discriminate].
      destruct (tr_block_simple true _ _ true true true 1%nat _ _ _ _ _ _ _ eq_refl eq_refl (fun _ => eq_refl) HNT G2 S3 T2) as (U1 & U2 & U3 & _).
      change (rt true 1) with true in U1, U2.
      inversion HT; subst c. clear HT.
      destruct (ppasses sem augsem fuel n rho body) as [e1|] eqn:E1; [|discriminate]. inversion HP; subst tr.
      assert (Han1 : incl (anns_in body) (prog_anns p)).
      { unfold prog_anns. rewrite Em. apply incl_appr, incl_refl. }
      assert (Hau1 : incl (augs_in body) (prog_augs p)).
      { unfold prog_augs. rewrite Em. apply incl_appr, incl_refl. }
      destruct (passes_sim fuel body D _ D2 (tmpc s1) HNTD HNT G2 Han1 Hau1 n rho sg1 e1 R1 HPL E1) as (F2 & C2).
      exists (Nat.max F1 F2). intros F' HF'. unfold cprog_exec. cbn [c_globals c_setup c_loop].
      rewrite U2, S2. fold gsS. change (snd (trm true (tmpc s1) true true D body)) with gsL. fold gs.
      rewrite HI. rewrite C1 by lia. cbn [oc]. rewrite (lastn_app_r (length (rev (map bind gs))) loc0 sg1) by (eapply Fr_length; eauto).
      rewrite U1. rewrite C2 by lia. reflexivity.
    - inversion HT; subst c. clear HT. inversion HP; subst tr.
      exists F1. intros F' HF'. unfold cprog_exec. cbn [c_globals c_setup c_loop].
      rewrite S2. fold gsS. replace gsS with gs by (unfold gs, gsL; apply app_nil_r).
      rewrite HI. rewrite C1 by lia. reflexivity.
  Qed.
End Top.

Lemma guard_ids p : guard_ok p = true -> ids_consistent p = true.
Proof. unfold guard_ok. intro H. apply andb_true_iff in H as [H _]. exact H. Qed.

Theorem stmt_preserve_partial :
  forall sem augsem p c,
    transl p = Some c -> guard_ok p = true -> sem_facts sem augsem p ->
    forall fuel n tr, pprog_exec sem augsem fuel n p = Some tr ->
    exists F, forall F', (F <= F')%nat ->
      cprog_exec sem augsem (info_of p) F' n (match p_main p with Some _ => true | None => false end) c = Some tr.
Proof.
  intros sem augsem p c HT HG HF fuel n tr HP.
  exact (stmt_preserve sem augsem p HF (guard_ids p HG) c HT HG fuel n tr HP).
Qed.
