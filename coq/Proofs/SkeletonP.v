(* Skeleton preservation of the statement translation: control structure and effect
   statements are neither dropped, duplicated, reordered nor moved (C01_no_silent_drop),
   and `break` cannot leave the main loop (C01_break_guard / C05_break_guard). *)
From Coq Require Import ZArith List Bool Lia.
From RV Require Import Base.Wire Base.Text Lang.StmtAst Lang.Transl.
Import ListNotations.
Open Scope Z_scope.

Inductive skel : Type :=
| KIf (bs : list (Z * list skel)) (els : list skel)
| KWhile (c : Z) (b : list skel)
| KFor (x : ident) (c : Z) (b : list skel)
| KBreak | KContinue | KWrite (id : Z) | KSleep (id : Z) | KExprS (id : Z).

Fixpoint skel_cn (n : cnode) : list skel :=
  let fix go (l : list cnode) : list skel := match l with [] => [] | x :: r => skel_cn x ++ go r end in
  let fix gob (l : list (Z * list cnode)) : list (Z * list skel) :=
    match l with [] => [] | (c, b) :: r => (c, go b) :: gob r end in
  match n with
  | NIf bs els => [KIf (gob bs) (go els)]
  | NWhile c b => [KWhile c (go b)]
  | NFor x c b => [KFor x c (go b)]
  | NBreak => [KBreak] | NContinue | NReturn => [KContinue] | NWrite id => [KWrite id] | NSleep id => [KSleep id] | NExprS id => [KExprS id]
  | NDecl _ _ _ _ | NDeclTmp _ _ _ | NAssign _ _ => []
  end.
Fixpoint skel_c (l : list cnode) : list skel := match l with [] => [] | x :: r => skel_cn x ++ skel_c r end.
Fixpoint skel_cb (l : list (Z * list cnode)) : list (Z * list skel) :=
  match l with [] => [] | (c, b) :: r => (c, skel_c b) :: skel_cb r end.

Fixpoint skel_pn (p : pstmt) : list skel :=
  let fix go (l : list pstmt) : list skel := match l with [] => [] | x :: r => skel_pn x ++ go r end in
  let fix gob (l : list (ann * list pstmt)) : list (Z * list skel) :=
    match l with [] => [] | (c, b) :: r => (a_id c, go b) :: gob r end in
  match p with
  | PIf c body elifs els => [KIf ((a_id c, go body) :: gob elifs) (go els)]
  | PWhile c b => [KWhile (a_id c) (go b)]
  | PFor x c b => [KFor x (a_id c) (go b)]
  | PBreak => [KBreak] | PContinue => [KContinue] | PWrite e => [KWrite (a_id e)] | PSleep e => [KSleep (a_id e)]
  | PExprS e => if closed_const e then [] else [KExprS (a_id e)]
  | PAssign _ _ | PAug _ _ _ _ | PTuple _ _ => []
  end.
Fixpoint skel_p (l : list pstmt) : list skel := match l with [] => [] | x :: r => skel_pn x ++ skel_p r end.
Fixpoint skel_pb (l : list (ann * list pstmt)) : list (Z * list skel) :=
  match l with [] => [] | (c, b) :: r => (a_id c, skel_p b) :: skel_pb r end.

Lemma skel_cn_unfold n :
  skel_cn n = match n with
              | NIf bs els => [KIf (skel_cb bs) (skel_c els)]
              | NWhile c b => [KWhile c (skel_c b)]
              | NFor x c b => [KFor x c (skel_c b)]
              | NBreak => [KBreak] | NContinue | NReturn => [KContinue] | NWrite id => [KWrite id] | NSleep id => [KSleep id] | NExprS id => [KExprS id]
              | _ => [] end.
Proof.
  assert (G : forall l, (fix go (l : list cnode) : list skel := match l with [] => [] | x :: r => skel_cn x ++ go r end) l = skel_c l).
  { intro l. reflexivity. }
  destruct n; try reflexivity; cbn; rewrite ?G; try reflexivity.
  all: f_equal; f_equal.
  all: induction branches as [|[c b] r IH]; [reflexivity|]; cbn; rewrite G; f_equal; exact IH.
Qed.

Lemma skel_pn_unfold p :
  skel_pn p = match p with
              | PIf c body elifs els => [KIf ((a_id c, skel_p body) :: skel_pb elifs) (skel_p els)]
              | PWhile c b => [KWhile (a_id c) (skel_p b)]
              | PFor x c b => [KFor x (a_id c) (skel_p b)]
              | PBreak => [KBreak] | PContinue => [KContinue] | PWrite e => [KWrite (a_id e)] | PSleep e => [KSleep (a_id e)]
              | PExprS e => if closed_const e then [] else [KExprS (a_id e)]
              | _ => [] end.
Proof.
  assert (G : forall l, (fix go (l : list pstmt) : list skel := match l with [] => [] | x :: r => skel_pn x ++ go r end) l = skel_p l).
  { intro l. reflexivity. }
  destruct p; try reflexivity; cbn; rewrite ?G; try reflexivity.
  all: f_equal; f_equal; f_equal.
  all: induction elifs as [|[c' b] r IH]; [reflexivity|]; cbn; rewrite G; f_equal; exact IH.
Qed.

Lemma skel_c_app a b : skel_c (a ++ b) = skel_c a ++ skel_c b.
Proof. induction a as [|x a IH]; cbn; [reflexivity|]. rewrite IH, app_assoc. reflexivity. Qed.

(* ---- induction principle reaching inside the nested lists of cnode ---- *)
Section CInd.
  Variable P : cnode -> Prop.
  Hypothesis HDecl : forall x t i g, P (NDecl x t i g).
  Hypothesis HTmp : forall k t i, P (NDeclTmp k t i).
  Hypothesis HAssign : forall x e, P (NAssign x e).
  Hypothesis HIf : forall bs els, Forall (fun cb => Forall P (snd cb)) bs -> Forall P els -> P (NIf bs els).
  Hypothesis HWhile : forall c b, Forall P b -> P (NWhile c b).
  Hypothesis HFor : forall x c b, Forall P b -> P (NFor x c b).
  Hypothesis HBreak : P NBreak.
  Hypothesis HContinue : P NContinue.
  Hypothesis HReturn : P NReturn.
  Hypothesis HWrite : forall i, P (NWrite i).
  Hypothesis HSleep : forall i, P (NSleep i).
  Hypothesis HExprS : forall i, P (NExprS i).
  Fixpoint cnode_ind' (n : cnode) : P n :=
    let fix go (l : list cnode) : Forall P l :=
      match l with [] => Forall_nil _ | x :: r => Forall_cons _ (cnode_ind' x) (go r) end in
    let fix gob (l : list (Z * list cnode)) : Forall (fun cb => Forall P (snd cb)) l :=
      match l with [] => Forall_nil _ | (c, b) :: r => Forall_cons (c, b) (go b) (gob r) end in
    match n with
    | NDecl x t i g => HDecl x t i g | NDeclTmp k t i => HTmp k t i | NAssign x e => HAssign x e
    | NIf bs els => HIf bs els (gob bs) (go els)
    | NWhile c b => HWhile c b (go b) | NFor x c b => HFor x c b (go b)
    | NBreak => HBreak | NContinue => HContinue | NReturn => HReturn | NWrite i => HWrite i | NSleep i => HSleep i | NExprS i => HExprS i
    end.
End CInd.

Lemma rewrite_if_unfold pn n :
  rewrite_if pn n = match n with
                    | NDecl x t e false => if tmem x pn then NAssign x e else n
                    | NIf bs els => NIf (map (fun cb => (fst cb, map (rewrite_if pn) (snd cb))) bs) (map (rewrite_if pn) els)
                    | _ => n end.
Proof.
  destruct n; try reflexivity; cbn; f_equal.
  all: try reflexivity.
  all: induction branches as [|[c b] r IH]; [reflexivity|]; cbn; f_equal; exact IH.
Qed.

Lemma rewrite_deep_unfold pn n :
  rewrite_deep pn n = match n with
                      | NDecl x t e false => if tmem x pn then NAssign x e else n
                      | NIf bs els => NIf (map (fun cb => (fst cb, map (rewrite_deep pn) (snd cb))) bs) (map (rewrite_deep pn) els)
                      | NWhile c b => NWhile c (map (rewrite_deep pn) b)
                      | NFor x c b => NFor x c (map (rewrite_deep pn) b)
                      | _ => n end.
Proof.
  destruct n; try reflexivity; cbn; f_equal.
  all: try reflexivity.
  all: induction branches as [|[c b] r IH]; [reflexivity|]; cbn; f_equal; exact IH.
Qed.

Lemma skel_c_map_ext (f : cnode -> cnode) l :
  Forall (fun n => skel_cn (f n) = skel_cn n) l -> skel_c (map f l) = skel_c l.
Proof. induction 1 as [|x l Hx _ IH]; cbn; [reflexivity|]. rewrite Hx, IH. reflexivity. Qed.

Lemma skel_cb_map_ext (f : cnode -> cnode) bs :
  Forall (fun cb => Forall (fun n => skel_cn (f n) = skel_cn n) (snd cb)) bs ->
  skel_cb (map (fun cb => (fst cb, map f (snd cb))) bs) = skel_cb bs.
Proof.
  induction 1 as [|[c b] l Hx _ IH]; cbn; [reflexivity|]. cbn in Hx.
  rewrite (skel_c_map_ext f b Hx), IH. reflexivity.
Qed.

Lemma skel_rewrite_if pn n : skel_cn (rewrite_if pn n) = skel_cn n.
Proof.
  induction n using cnode_ind'; rewrite rewrite_if_unfold; try reflexivity.
  - destruct g; [reflexivity|]. destruct (tmem x pn); reflexivity.
  - rewrite !skel_cn_unfold. rewrite (skel_cb_map_ext _ bs H), (skel_c_map_ext _ els H0). reflexivity.
Qed.

Lemma skel_rewrite_deep pn n : skel_cn (rewrite_deep pn n) = skel_cn n.
Proof.
  induction n using cnode_ind'; rewrite rewrite_deep_unfold; try reflexivity.
  - destruct g; [reflexivity|]. destruct (tmem x pn); reflexivity.
  - rewrite !skel_cn_unfold. rewrite (skel_cb_map_ext _ bs H), (skel_c_map_ext _ els H0). reflexivity.
  - rewrite !skel_cn_unfold. rewrite (skel_c_map_ext _ b H). reflexivity.
  - rewrite !skel_cn_unfold. rewrite (skel_c_map_ext _ b H). reflexivity.
Qed.

Lemma skel_map_rewrite_if pn l : skel_c (map (rewrite_if pn) l) = skel_c l.
Proof. apply skel_c_map_ext. apply Forall_forall. intros; apply skel_rewrite_if. Qed.
Lemma skel_map_rewrite_deep pn l : skel_c (map (rewrite_deep pn) l) = skel_c l.
Proof. apply skel_c_map_ext. apply Forall_forall. intros; apply skel_rewrite_deep. Qed.

(* dropping hoisted declarations does not touch the skeleton *)
Lemma skel_drop_hoisted pn l : skel_c (drop_hoisted pn l) = skel_c l.
Proof.
  unfold drop_hoisted. induction l as [|n l IH]; [reflexivity|]. cbn [filter].
  destruct (is_hoisted pn n) eqn:E; cbn [negb].
  - rewrite IH. destruct n; try discriminate. reflexivity.
  - cbn [skel_c]. rewrite IH. reflexivity.
Qed.

(* declarations and assignments contribute nothing to the skeleton *)
Lemma skel_promo glob names s : skel_c (fst (promo_decls glob names s)) = [].
Proof.
  revert s. induction names as [|[x t] r IH]; intro s; cbn; [reflexivity|].
  destruct glob.
  - apply IH.
  - match goal with |- context [promo_decls false r ?S] => specialize (IH S); destruct (promo_decls false r S) end.
    cbn in *. exact IH.
Qed.

Lemma skel_tr_assign glob x e s : skel_c (fst (tr_assign glob x e s)) = [].
Proof.
  unfold tr_assign. destruct (is_declared x s); [reflexivity|].
  destruct glob; [destruct (closed_const e)|]; reflexivity.
Qed.

Lemma skel_tuple_global xs es s : skel_c (fst (tuple_global xs es s)) = [].
Proof.
  revert es s. induction xs as [|x xr IH]; intros [|e er] s; cbn; try reflexivity.
  destruct (closed_const e);
    match goal with |- context [tuple_global xr er ?S] => specialize (IH er S); destruct (tuple_global xr er S) end;
    cbn in *; exact IH.
Qed.
Lemma skel_tuple_tmps es k : skel_c (tuple_tmps es k) = [].
Proof. revert k. induction es as [|e er IH]; intro k; cbn; [reflexivity|apply IH]. Qed.
Lemma skel_tuple_binds xs es k s : skel_c (fst (tuple_binds xs es k s)) = [].
Proof.
  revert es k s. induction xs as [|x xr IH]; intros [|e er] k s; cbn; try reflexivity.
  destruct (is_declared x s);
    match goal with |- context [tuple_binds xr er ?K ?S] => specialize (IH er K S); destruct (tuple_binds xr er K S) end;
    cbn in *; exact IH.
Qed.
Lemma skel_tuple_binds_main xs es k s : skel_c (fst (tuple_binds_main xs es k s)) = [].
Proof.
  revert es k s. induction xs as [|x xr IH]; intros [|e er] k s; cbn; try reflexivity.
  match goal with |- context [tuple_binds_main xr er ?K ?S] => specialize (IH er K S); destruct (tuple_binds_main xr er K S) end.
  cbn in *. exact IH.
Qed.
Lemma skel_tr_tuple_main xs es s r : tr_tuple_main xs es s = Some r -> skel_c (fst r) = [].
Proof.
  unfold tr_tuple_main. destruct (negb _); [discriminate|].
  match goal with |- context [tuple_binds_main ?A ?B ?K ?S] => pose proof (skel_tuple_binds_main A B K S) as H; destruct (tuple_binds_main A B K S) end.
  intros [= <-]. cbn in *. rewrite skel_c_app, skel_tuple_tmps, H. reflexivity.
Qed.
Lemma skel_tr_tuple glob xs es s r : tr_tuple glob xs es s = Some r -> skel_c (fst r) = [].
Proof.
  unfold tr_tuple. destruct (negb _); [discriminate|].
  destruct (_ && glob).
  - intros [= <-]. apply skel_tuple_global.
  - match goal with |- context [tuple_binds ?A ?B ?K ?S] => pose proof (skel_tuple_binds A B K S) as H; destruct (tuple_binds A B K S) end.
    intros [= <-]. cbn in *. rewrite skel_c_app, skel_tuple_tmps, H. reflexivity.
Qed.

(* ---- main lemma ---- *)
Ltac head_opt H a0 a1 E :=
  match type of H with
  | (match ?R with Some _ => _ | None => None end) = _ => destruct R as [[a0 a1]|] eqn:E; [|discriminate]
  end.

Lemma tr_block_skeleton ml : forall fuel glob ld s ps ns s',
  tr_block ml fuel glob ld s ps = Some (ns, s') -> skel_c ns = skel_p ps.
Proof.
  induction fuel as [|f IH]; intros glob ld s ps ns s' H; [discriminate|].
  destruct ps as [|p rest]; [inversion H; reflexivity|].
  assert (K : forall ns0 s1,
             match tr_block ml f glob ld s1 rest with
             | None => None | Some (ms, s2) => Some (ns0 ++ ms, s2) end = Some (ns, s') ->
             skel_c ns0 = skel_pn p -> skel_c ns = skel_p (p :: rest)).
  { intros ns0 s1 Hr Hs.
    destruct (tr_block ml f glob ld s1 rest) as [[ms s2]|] eqn:E; [|discriminate].
    inversion Hr; subst. rewrite skel_c_app. cbn. rewrite Hs. f_equal. eapply IH; eauto. }
  destruct p; cbn [tr_block] in H.
  - (* PAssign *)
    pose proof (skel_tr_assign glob x (rt_ann ml e) s) as Hs.
    destruct (tr_assign glob x (rt_ann ml e) s) as [a0 a1]. eapply K; [exact H|exact Hs].
  - eapply K; [exact H|reflexivity].
  - (* PTuple *)
    head_opt H a0 a1 E. eapply K; [exact H|]. rewrite skel_pn_unfold.
    destruct (glob && ml); [apply (skel_tr_tuple_main _ _ _ _ E)|apply (skel_tr_tuple _ _ _ _ _ E)].
  - (* PIf *)
    head_opt H a0 a1 E. eapply K; [exact H|]. clear H K. rewrite skel_pn_unfold.
    destruct (tr_block ml f false ld (child_of s (globals s)) body) as [[ns1 cs1]|] eqn:E1; [|discriminate].
    match type of E with
    | context [?B (globals cs1) elifs] => set (BR := B) in *
    end.
    assert (HB : forall l gl brs gl', BR gl l = Some (brs, gl') ->
                 map (fun x => (fst (fst x), skel_c (snd (fst x)))) brs = skel_pb l).
    { induction l as [|[c' b] r IHl]; intros gl brs gl' Hb; cbn in Hb.
      - inversion Hb; reflexivity.
      - destruct (tr_block ml f false ld (child_of s gl) b) as [[nsb cs]|] eqn:Eb; [|discriminate].
        destruct (BR (globals cs) r) as [[rest' gl'']|] eqn:Er; [|discriminate].
        inversion Hb; subst. cbn. f_equal; [|eapply IHl; eauto].
        f_equal. eapply IH; eauto. }
    destruct (BR (globals cs1) elifs) as [[brs0 gl1]|] eqn:Eb; [|discriminate].
    apply HB in Eb.
    pose (brs := (a_id c, ns1, cs1) :: brs0).
    assert (Eb' : map (fun x => (fst (fst x), skel_c (snd (fst x)))) brs = (a_id c, skel_p body) :: skel_pb elifs).
    { cbn. rewrite Eb. f_equal. f_equal. eapply IH; eauto. }
    clear Eb. rename Eb' into Eb.
    assert (RW : forall pn (brs : list (Z * list cnode * tst)),
               skel_cb (map (fun x => (fst (fst x), map (rewrite_if pn) (drop_hoisted pn (snd (fst x))))) brs)
               = map (fun x => (fst (fst x), skel_c (snd (fst x)))) brs).
    { intros pn l. induction l as [|[[c0 n0] t0] r IHr]; cbn [map skel_cb fst snd]; [reflexivity|].
      rewrite skel_map_rewrite_if, skel_drop_hoisted. f_equal. exact IHr. }
    destruct els as [|e0 els'].
    + match type of E with (let '(decls, s3) := promo_decls ?G ?N ?S in _) = _ =>
        pose proof (skel_promo G N S) as Hp; destruct (promo_decls G N S) as [decls s3] end.
      inversion E; subst. cbn in Hp. rewrite skel_c_app, Hp. cbn [app skel_c]. rewrite skel_cn_unfold, app_nil_r.
      cbn [skel_cb]. rewrite skel_map_rewrite_if, skel_drop_hoisted, RW. unfold brs in Eb; cbn [map fst snd] in Eb. rewrite Eb. reflexivity.
    + destruct (tr_block ml f false ld (child_of s gl1) (e0 :: els')) as [[nse cse]|] eqn:Ee; [|discriminate].
      match type of E with (let '(decls, s3) := promo_decls ?G ?N ?S in _) = _ =>
        pose proof (skel_promo G N S) as Hp; destruct (promo_decls G N S) as [decls s3] end.
      inversion E; subst. cbn in Hp. rewrite skel_c_app, Hp. cbn [app skel_c]. rewrite skel_cn_unfold, app_nil_r.
      cbn [skel_cb]. rewrite !skel_map_rewrite_if, !skel_drop_hoisted, RW. unfold brs in Eb; cbn [map fst snd] in Eb. rewrite Eb. rewrite (IH _ _ _ _ _ _ Ee). reflexivity.
  - (* PWhile *)
    head_opt H a0 a1 E. eapply K; [exact H|]. clear H K. rewrite skel_pn_unfold.
    destruct (tr_block ml f false (S ld) (child_of s (globals s)) body) as [[nsb cs]|] eqn:Eb; [|discriminate].
    match type of E with (let '(decls, s3) := promo_decls ?G ?N ?S in _) = _ =>
      pose proof (skel_promo G N S) as Hp; destruct (promo_decls G N S) as [decls s3] end.
    inversion E; subst. cbn in Hp. rewrite skel_c_app, Hp. cbn [app skel_c]. rewrite skel_cn_unfold, app_nil_r.
    rewrite skel_map_rewrite_deep, skel_drop_hoisted. rewrite (IH _ _ _ _ _ _ Eb). reflexivity.
  - (* PFor *)
    head_opt H a0 a1 E. eapply K; [exact H|]. clear H K. rewrite skel_pn_unfold.
    match type of E with match tr_block ml f false (S ld) ?B body with _ => _ end = _ =>
      destruct (tr_block ml f false (S ld) B body) as [[nsb cs]|] eqn:Eb; [|discriminate] end.
    match type of E with (let '(decls, s3) := promo_decls ?G ?N ?S in _) = _ =>
      pose proof (skel_promo G N S) as Hp; destruct (promo_decls G N S) as [decls s3] end.
    inversion E; subst. cbn in Hp. rewrite skel_c_app, Hp. cbn [app skel_c]. rewrite skel_cn_unfold, app_nil_r.
    rewrite skel_map_rewrite_deep, skel_drop_hoisted. rewrite (IH _ _ _ _ _ _ Eb). reflexivity.
  - (* PBreak *)
    destruct ld as [|[|ld']]; [discriminate| |].
    + destruct ml; [discriminate|]. eapply K; [exact H|reflexivity].
    + eapply K; [exact H|reflexivity].
  - (* PContinue *)
    destruct ld as [|[|ld']]; [discriminate| |].
    + destruct ml; eapply K; [exact H|reflexivity|exact H|reflexivity].
    + eapply K; [exact H|reflexivity].
  - eapply K; [exact H|reflexivity].
  - eapply K; [exact H|reflexivity].
  - rewrite skel_pn_unfold in K. destruct (closed_const e); eapply K; [exact H|reflexivity|exact H|reflexivity].
Qed.

Theorem transl_skeleton : forall p c, transl p = Some c ->
  skel_c (c_setup c) = skel_p (p_pre p) /\
  skel_c (c_loop c) = match p_main p with Some b => skel_p b | None => [] end.
Proof.
  intros p c H. unfold transl in H.
  destruct (tr_block false (bsize (p_pre p)) true 0 st0 (p_pre p)) as [[setup s1]|] eqn:E1; [|discriminate].
  destruct (p_main p) as [body|].
  - destruct (tr_block true (bsize body) true 1 s1 body) as [[loop s2]|] eqn:E2; [|discriminate].
    inversion H; subst; cbn. split; eapply tr_block_skeleton; eauto.
  - inversion H; subst; cbn. split; [eapply tr_block_skeleton; eauto | reflexivity].
Qed.

(* ---- break guard ---- *)
Lemma tr_block_app_none ml : forall fuel glob ld s a b,
  (forall f' s1, tr_block ml f' glob ld s1 b = None) -> tr_block ml fuel glob ld s (a ++ b) = None.
Proof.
  induction fuel as [|f IH]; intros glob ld s a b Hb; [reflexivity|].
  destruct a as [|p a]; [apply Hb|].
  assert (K : forall ns0 s1,
             match tr_block ml f glob ld s1 (a ++ b) with
             | None => None | Some (ms, s2) => Some (ns0 ++ ms, s2) end = @None (list cnode * tst)).
  { intros ns0 s1. rewrite IH; [reflexivity|exact Hb]. }
  destruct p; cbn [tr_block app];
    repeat match goal with
    | |- (let (_, _) := ?R in _) = None => destruct R
    | |- context [tr_block ml f glob ld ?S (a ++ b)] => rewrite (IH glob ld S a b Hb)
    | |- match ?R with Some _ => _ | None => None end = None => destruct R as [[? ?]|]; [|reflexivity]
    end; reflexivity.
Qed.

Theorem break_guard : forall pre body rest,
  transl {| p_pre := pre; p_main := Some (PBreak :: rest) |} = None /\
  (forall c e, transl {| p_pre := pre; p_main := Some (body ++ [PIf c [PBreak] [] e]) |} = None).
Proof.
  intros pre body rest. split.
  - unfold transl; cbn [p_pre p_main].
    destruct (tr_block false (bsize pre) true 0 st0 pre) as [[setup s1]|]; [|reflexivity].
    unfold bsize. cbn. reflexivity.
  - intros c e. unfold transl; cbn [p_pre p_main].
    destruct (tr_block false (bsize pre) true 0 st0 pre) as [[setup s1]|]; [|reflexivity].
    rewrite tr_block_app_none; [reflexivity|].
    intros f' s2. destruct f' as [|f']; [reflexivity|]. cbn [tr_block].
    destruct f' as [|f'']; [reflexivity|]. cbn. reflexivity.
Qed.

(* `continue` placement: outside every loop it is rejected (also under an if); directly in the body
   of the main loop it becomes `return;`, inside a for/while loop `continue;` *)
Theorem continue_guard : forall pre rest main,
  transl {| p_pre := PContinue :: rest; p_main := main |} = None /\
  (forall c e, transl {| p_pre := pre ++ [PIf c [PContinue] [] e]; p_main := main |} = None).
Proof.
  intros pre rest main. split.
  - unfold transl; cbn [p_pre p_main]. unfold bsize. cbn. reflexivity.
  - intros c e. unfold transl; cbn [p_pre p_main].
    rewrite tr_block_app_none; [reflexivity|].
    intros f' s2. destruct f' as [|f']; [reflexivity|]. cbn [tr_block].
    destruct f' as [|f'']; [reflexivity|]. cbn. reflexivity.
Qed.

Theorem continue_translation : forall cnt e, let x := [107] in
  transl {| p_pre := []; p_main := Some [PContinue] |}
    = Some {| c_globals := []; c_setup := []; c_loop := [NReturn] |} /\
  transl {| p_pre := []; p_main := Some [PFor x cnt [PContinue]; PWrite e] |}
    = Some {| c_globals := []; c_setup := []; c_loop := [NFor x (a_id cnt) [NContinue]; NWrite (a_id e)] |} /\
  transl {| p_pre := [PWhile cnt [PContinue]]; p_main := None |}
    = Some {| c_globals := []; c_setup := [NWhile (a_id cnt) [NContinue]]; c_loop := [] |}.
Proof. intros cnt e x. subst x. repeat split; vm_compute; reflexivity. Qed.
