(* C15: the loop body never samples a button.  For every statement tree (whatever the positions in
   which is_pressed(), read() and measure_distance() occur), every sketch, every state:
   executing the body leaves the cached button samples untouched and emits no digitalRead event.
   Together with C15_one_sample_per_pass (the poll at the head of loop() reads the pin exactly once
   and stores that sample) this is "sampled exactly once per pass; every is_pressed() in that pass
   returns that sample" for all syntactic positions. *)
From Coq Require Import ZArith QArith List Bool Lia.
From RV Require Import Base.Wire Device.DButton Device.DPot Device.DUltra Wire.C15W.
Import ListNotations.
Open Scope Z_scope.

Definition is_dr (w : wv) : bool := match w with WL (WI 1 :: _) => true | _ => false end.
Definition no_dr (l : list wv) : Prop := Forall (fun w => is_dr w = false) l.

Definition ok2 (st : sstate) (r : sstate * list wv) : Prop :=
  s_btn (fst r) = s_btn st /\ no_dr (snd r).
Definition ok3 {A} (st : sstate) (r : sstate * list wv * A) : Prop :=
  s_btn (fst (fst r)) = s_btn st /\ no_dr (snd (fst r)).

Lemma no_dr_nil : no_dr []. Proof. constructor. Qed.
Lemma no_dr_app a b : no_dr a -> no_dr b -> no_dr (a ++ b).
Proof. intros. apply Forall_app. split; assumption. Qed.
Lemma no_dr_bad : no_dr [bad_ev]. Proof. repeat constructor. Qed.

Lemma ok3_here {A} st (x : A) : ok3 st (st, [], x).
Proof. split; [reflexivity|constructor]. Qed.
Lemma ok3_bad {A} st (x : A) : ok3 st (st, [bad_ev], x).
Proof. split; [reflexivity|apply no_dr_bad]. Qed.
Lemma ok2_bad st : ok2 st (st, [bad_ev]).
Proof. split; [reflexivity|apply no_dr_bad]. Qed.

Lemma no_dr_uev ud l : no_dr (flat_map (enc_uev ud) l).
Proof.
  induction l as [|e r IH]; [constructor|]. cbn [flat_map]. apply no_dr_app; [|exact IH].
  destruct e; repeat constructor.
Qed.

Lemma ok_read sk st j r : do_read sk st j = Some r -> ok3 st r.
Proof.
  unfold do_read. destruct (nth_error (k_pots sk) (Z.to_nat j)); [|discriminate].
  destruct (nth_error (s_pidx st) (Z.to_nat j)); [|discriminate].
  intro H. injection H as <-. split; [reflexivity|]. cbn. repeat constructor.
Qed.

Lemma ok_measure sk st u r : do_measure sk st u = Some r -> ok3 st r.
Proof.
  unfold do_measure. destruct (nth_error (k_ultras sk) (Z.to_nat u)); [|discriminate].
  destruct (nth_error (s_us st) (Z.to_nat u)) as [[us np]|]; [|discriminate].
  intro H. injection H as <-. split; [reflexivity|]. cbn [fst snd]. apply no_dr_uev.
Qed.

Lemma ok_sleep sk st ms : ok2 st (do_sleep sk st ms).
Proof. split; [reflexivity|repeat constructor]. Qed.

(* composition *)
Lemma ok3_seq {A B} st (r1 : sstate * list wv * A) (r2 : sstate * list wv * B) (y : B) :
  ok3 st r1 -> ok3 (fst (fst r1)) r2 ->
  ok3 st (fst (fst r2), snd (fst r1) ++ snd (fst r2), y).
Proof.
  intros [H1 E1] [H2 E2]. split; cbn [fst snd]; [congruence|apply no_dr_app; assumption].
Qed.

Ltac inst_i IHi :=
  match goal with
  | |- context [eval_i ?f ?sk ?g ?c ?s ?a] =>
      let H := fresh "Hi" in let s' := fresh "s" in let e' := fresh "e" in let x' := fresh "x" in
      pose proof (IHi sk g c s a) as H;
      destruct (eval_i f sk g c s a) as [[s' e'] x']; destruct H as [? ?]; cbn [fst snd] in *
  end.
Ltac inst_c IHc :=
  match goal with
  | |- context [eval_c ?f ?sk ?g ?c ?s ?a] =>
      let H := fresh "Hc" in let s' := fresh "s" in let e' := fresh "e" in let x' := fresh "t" in
      pose proof (IHc sk g c s a) as H;
      destruct (eval_c f sk g c s a) as [[s' e'] x']; destruct H as [? ?]; cbn [fst snd] in *
  end.
Ltac inst_f IHf :=
  match goal with
  | |- context [eval_f ?f ?sk ?g ?c ?s ?a] =>
      let H := fresh "Hf" in let s' := fresh "s" in let e' := fresh "e" in let x' := fresh "q" in
      pose proof (IHf sk g c s a) as H;
      destruct (eval_f f sk g c s a) as [[s' e'] x']; destruct H as [? ?]; cbn [fst snd] in *
  end.
Ltac fin :=
  first [ apply ok3_here | apply ok3_bad | apply ok2_bad
        | split; cbn [fst snd];
          [ congruence
          | repeat (first [assumption | apply no_dr_nil | apply no_dr_app | (repeat constructor; fail)]) ] ].

Lemma eval_f_ok fuel : forall sk g cnt st v, ok3 st (eval_f fuel sk g cnt st v).
Proof.
  induction fuel as [|f IH]; intros sk g cnt st v; cbn [eval_f]; [apply ok3_bad|].
  destruct v as [z|[|[tag|?] args]]; try apply ok3_bad.
  destruct (tag =? 20).
  { destruct args as [|[u|?] [|? ?]]; try apply ok3_bad.
    destruct (do_measure sk st u) as [r|] eqn:E; [eapply ok_measure; exact E|apply ok3_bad]. }
  destruct (tag =? 21); [|apply ok3_bad].
  destruct args as [|a [|? ?]]; try apply ok3_bad.
  inst_f IH. inst_f IH. fin.
Qed.

Lemma eval_ic_ok fuel :
  (forall sk g cnt st v, ok3 st (eval_i fuel sk g cnt st v)) /\
  (forall sk g cnt st v, ok3 st (eval_c fuel sk g cnt st v)).
Proof.
  induction fuel as [|f [IHi IHc]]; [split; intros; apply ok3_bad|].
  pose proof (eval_f_ok f) as IHf.
  split; intros sk g cnt st v.
  - cbn [eval_i]. destruct v as [z|[|[tag|?] args]]; try apply ok3_bad.
    destruct (tag =? 0). { destruct args as [|[n|?] [|? ?]]; fin. }
    destruct (tag =? 1). { destruct args as [|[i|?] [|? ?]]; try fin. destruct (do_pressed st i); fin. }
    destruct (tag =? 2).
    { destruct args as [|[j|?] [|? ?]]; try fin.
      destruct (do_read sk st j) as [r|] eqn:E; [eapply ok_read; exact E|fin]. }
    destruct (tag =? 3); [fin|]. destruct (tag =? 4); [fin|].
    destruct (tag =? 5).
    { destruct args as [|[op|?] [|a [|b [|? ?]]]]; try fin. inst_i IHi. inst_i IHi. fin. }
    destruct (tag =? 6).
    { destruct args as [|a [|? ?]]; try fin. inst_i IHi. inst_i IHi. fin. }
    destruct (tag =? 7).
    { destruct args as [|a [|? ?]]; try fin. inst_i IHi. fin. }
    destruct (tag =? 8); [|fin].
    destruct args as [|c [|a [|b [|? ?]]]]; try fin. inst_c IHc. inst_i IHi. fin.
  - cbn [eval_c]. destruct v as [z|[|[tag|?] args]]; try apply ok3_bad.
    destruct (tag =? 10). { destruct args as [|a [|? ?]]; try fin. inst_i IHi. fin. }
    destruct (tag =? 11). { destruct args as [|a [|? ?]]; try fin. inst_c IHc. fin. }
    destruct (tag =? 12).
    { destruct args as [|c [|d [|? ?]]]; try fin. inst_c IHc. destruct t; [inst_c IHc|]; fin. }
    destruct (tag =? 13).
    { destruct args as [|c [|d [|? ?]]]; try fin. inst_c IHc. destruct t; [|inst_c IHc]; fin. }
    destruct (tag =? 14).
    { destruct args as [|[op|?] [|a [|b [|? ?]]]]; try fin. inst_i IHi. inst_i IHi. fin. }
    destruct (tag =? 15); [|fin].
    destruct args as [|a [|thr [|? ?]]]; try fin. destruct (un_q thr); [|fin]. inst_f IHf. fin.
Qed.

(* the combinators preserve the invariant when their parameters do *)
Section Combinators.
  Variables (ex : exec_fn) (ec : cond_fn) (ei : int_fn).
  Hypothesis Hex : forall cnt st s, ok2 st (ex cnt st s).
  Hypothesis Hec : forall cnt st c, ok3 st (ec cnt st c).
  Hypothesis Hei : forall cnt st a, ok3 st (ei cnt st a).

  Lemma run_list_ok l : forall cnt st, ok2 st (run_list ex cnt st l).
  Proof.
    induction l as [|s r IH]; intros cnt st; cbn [run_list]; [split; [reflexivity|constructor]|].
    pose proof (Hex cnt st s) as [H1 E1]. destruct (ex cnt st s) as [s1 e1]. cbn [fst snd] in *.
    pose proof (IH cnt s1) as [H2 E2]. destruct (run_list ex cnt s1 r) as [s2 e2]. cbn [fst snd] in *.
    split; cbn [fst snd]; [congruence|apply no_dr_app; assumption].
  Qed.

  Lemma run_chain_ok cnt els l : forall st, ok2 st (run_chain ex ec cnt els st l).
  Proof.
    induction l as [|b r IH]; intros st; cbn [run_chain]; [apply run_list_ok|].
    destruct b as [z|[|c [|[z|body] [|? ?]]]]; try apply ok2_bad.
    pose proof (Hec cnt st c) as [H1 E1]. destruct (ec cnt st c) as [[s1 e1] t]. cbn [fst snd] in *.
    destruct t.
    - pose proof (run_list_ok body cnt s1) as [H2 E2]. destruct (run_list ex cnt s1 body) as [s2 e2]. cbn [fst snd] in *.
      split; cbn [fst snd]; [congruence|apply no_dr_app; assumption].
    - pose proof (IH s1) as [H2 E2]. destruct (run_chain ex ec cnt els s1 r) as [s2 e2]. cbn [fst snd] in *.
      split; cbn [fst snd]; [congruence|apply no_dr_app; assumption].
  Qed.

  Lemma run_while_ok c K order body k : forall n st, ok3 st (run_while ex ec c K order body k n st).
  Proof.
    induction k as [|k IH]; intros n st; cbn [run_while]; [apply ok3_bad|].
    assert (Hgo : ok3 st (if order =? 0 then let '(s1, e1, t) := ec n st c in (s1, e1, t && (n <? K))
                          else if n <? K then ec n st c else (st, [], false))).
    { destruct (order =? 0).
      - pose proof (Hec n st c) as H. destruct (ec n st c) as [[s1 e1] t]. exact H.
      - destruct (n <? K); [apply Hec|apply ok3_here]. }
    destruct (if order =? 0 then let '(s1, e1, t) := ec n st c in (s1, e1, t && (n <? K))
              else if n <? K then ec n st c else (st, [], false)) as [[s1 e1] go].
    destruct Hgo as [H1 E1]. cbn [fst snd] in *.
    destruct go; [|split; cbn [fst snd]; assumption].
    pose proof (run_list_ok body n s1) as [H2 E2]. destruct (run_list ex n s1 body) as [s2 e2]. cbn [fst snd] in *.
    pose proof (IH (n + 1) s2) as [H3 E3]. destruct (run_while ex ec c K order body k (n + 1) s2) as [[s3 e3] n3]. cbn [fst snd] in *.
    split; cbn [fst snd]; [congruence|repeat apply no_dr_app; assumption].
  Qed.

  Lemma run_for_ok a body cnt k : forall i st, ok2 st (run_for ex ei a body cnt k i st).
  Proof.
    induction k as [|k IH]; intros i st; cbn [run_for]; [apply ok2_bad|].
    pose proof (Hei cnt st a) as [H1 E1]. destruct (ei cnt st a) as [[s1 e1] x]. cbn [fst snd] in *.
    destruct (i <? x); [|split; cbn [fst snd]; assumption].
    pose proof (run_list_ok body i s1) as [H2 E2]. destruct (run_list ex i s1 body) as [s2 e2]. cbn [fst snd] in *.
    pose proof (IH (i + 1) s2) as [H3 E3]. destruct (run_for ex ei a body cnt k (i + 1) s2) as [s3 e3]. cbn [fst snd] in *.
    split; cbn [fst snd]; [congruence|repeat apply no_dr_app; assumption].
  Qed.
End Combinators.

Lemma exec_ok fuel : forall sk g cnt st v, ok2 st (exec fuel sk g cnt st v).
Proof.
  induction fuel as [|f IH]; intros sk g cnt st v; cbn [exec]; [apply ok2_bad|].
  pose proof (proj1 (eval_ic_ok f)) as IHi. pose proof (proj2 (eval_ic_ok f)) as IHc.
  pose proof (eval_f_ok f) as IHf.
  destruct v as [z|[|[tag|?] args]]; try apply ok2_bad.
  destruct (tag =? 30). { destruct args as [|a [|? ?]]; try fin. inst_i IHi. fin. }
  destruct (tag =? 32).
  { destruct args as [|[?|brs] [|[?|els] [|? ?]]]; try fin.
    apply run_chain_ok; intros; [apply IH|apply IHc]. }
  destruct (tag =? 33).
  { destruct args as [|c [|[K|?] [|[order|?] [|[?|body] [|? ?]]]]]; try fin.
    match goal with |- context [run_while ?ex ?ec c K order body ?k 0 st] =>
      pose proof (run_while_ok ex ec (fun cnt' st' s => IH sk g cnt' st' s) (fun cnt' st' s => IHc sk g cnt' st' s)
                               c K order body k 0 st) as [H1 E1];
      destruct (run_while ex ec c K order body k 0 st) as [[s9 e9] n9] end.
    cbn [fst snd] in *. fin. }
  destruct (tag =? 34).
  { destruct args as [|a [|[?|body] [|? ?]]]; try fin.
    apply run_for_ok; intros; [apply IH|apply IHi]. }
  destruct (tag =? 35).
  { destruct args as [|a [|? ?]]; try fin. inst_i IHi.
    pose proof (ok_sleep sk s x) as [H1 E1]. destruct (do_sleep sk s x) as [s2 e2]. cbn [fst snd] in *. fin. }
  destruct (tag =? 36). { destruct args as [|a [|? ?]]; try fin. inst_f IHf. fin. }
  destruct (tag =? 37); [|fin].
  destruct args as [|[?|body] [|? ?]]; try fin.
  apply run_list_ok. intros; apply IH.
Qed.

Lemma exec_body_ok sk g l : forall st, ok2 st (exec_body sk g st l).
Proof.
  induction l as [|s r IH]; intros st; cbn [exec_body]; [split; [reflexivity|constructor]|].
  destruct (pass_ends g s) as [[|]|]; [split; [reflexivity|constructor]|apply IH|].
  pose proof (exec_ok body_fuel sk g 0 st s) as [H1 E1]. destruct (exec body_fuel sk g 0 st s) as [s1 e1]. cbn [fst snd] in *.
  pose proof (IH s1) as [H2 E2]. destruct (exec_body sk g s1 r) as [s2 e2]. cbn [fst snd] in *.
  split; cbn [fst snd]; [congruence|apply no_dr_app; assumption].
Qed.

(* ---- the poll at the head of loop(): one digitalRead per button, whose result becomes the cached value *)
Lemma filter_dr_app a b : filter is_dr (a ++ b) = filter is_dr a ++ filter is_dr b.
Proof. apply filter_app. Qed.

Lemma filter_dr_none l : no_dr l -> filter is_dr l = [].
Proof.
  induction l as [|w r IH]; intro H; [reflexivity|]. inversion H as [|? ? Hw Hr]; subst.
  cbn [filter]. rewrite Hw. apply IH. exact Hr.
Qed.

Lemma poll_one_events pin idx h st next :
  filter is_dr (map (enc_bev pin idx) (snd (b_poll h st next))) = [ev [1; pin; boolz next]] /\
  b_value (fst (b_poll h st next)) = next.
Proof.
  split; [|reflexivity]. unfold b_poll. cbv zeta. cbn [snd map enc_bev filter is_dr ev b_prev b_value b_is_pressed].
  f_equal. apply filter_dr_none.
  destruct h as [n|]; [|constructor]. destruct (next && negb (b_prev st)); [|constructor].
  cbn [map enc_bev]. constructor; [reflexivity|].
  induction n as [|n IH]; [constructor|]. cbn [repeat map]. constructor; [reflexivity|exact IH].
Qed.

Lemma poll_all_ok k : forall bds sts idx,
  length sts = length bds ->
  filter is_dr (snd (poll_all k bds sts idx)) = map (fun bd => ev [1; bd_pin bd; boolz (sample_of bd k)]) bds /\
  map b_value (fst (poll_all k bds sts idx)) = map (fun bd => sample_of bd k) bds.
Proof.
  induction bds as [|bd r IH]; intros sts idx Hlen; destruct sts as [|st sts']; try discriminate; [split; reflexivity|].
  cbn [poll_all fst snd map]. rewrite filter_dr_app.
  destruct (poll_one_events (bd_pin bd) idx (bd_h bd) st (sample_of bd k)) as [H1 H2].
  destruct (IH sts' (idx + 1) ltac:(cbn in Hlen; congruence)) as [H3 H4].
  rewrite H1, H2, H3, H4. split; reflexivity.
Qed.

(* one whole pass of a sketch *)
Lemma run_pass_ok sk k st :
  length (s_btn st) = length (k_buttons sk) ->
  filter is_dr (snd (run_pass sk k st)) = map (fun bd => ev [1; bd_pin bd; boolz (sample_of bd k)]) (k_buttons sk) /\
  map b_value (s_btn (fst (run_pass sk k st))) = map (fun bd => sample_of bd k) (k_buttons sk).
Proof.
  intro Hlen. unfold run_pass.
  destruct (poll_all_ok k (k_buttons sk) (s_btn st) 0 Hlen) as [H1 H2].
  set (polled := poll_all k (k_buttons sk) (s_btn st) 0) in *.
  set (c := match k_passgaps sk with [] => s_clk st | _ => _ end).
  destruct (match k_gate sk with
            | Some gd => let v := nth_rep (pd_values gd) 0 k in (v, [ev [4; pd_pin gd; v]])
            | None => (0, [])
            end) as [g gev] eqn:Eg.
  assert (Hg : no_dr gev).
  { destruct (k_gate sk); injection Eg as <- <-; repeat constructor. }
  match goal with |- context [exec_body sk g ?s1 (k_body sk)] =>
    destruct (exec_body_ok sk g (k_body sk) s1) as [H3 H4]; set (r := exec_body sk g s1 (k_body sk)) in * end.
  cbn [fst snd s_btn] in *.
  rewrite !filter_dr_app, (filter_dr_none gev Hg), (filter_dr_none (snd r) H4), !app_nil_r.
  split; [exact H1|]. rewrite H3. exact H2.
Qed.

Definition pass_reads (w : wv) : list wv := match w with WL evs => filter is_dr evs | WI _ => [] end.

(* every pass of a run: exactly one digitalRead per button, in declaration order, nothing else reads a button pin *)
Lemma run_passes_ok sk n : forall k st,
  length (s_btn st) = length (k_buttons sk) ->
  map pass_reads (run_passes sk n k st) =
  map (fun j => map (fun bd => ev [1; bd_pin bd; boolz (sample_of bd j)]) (k_buttons sk)) (seq k n).
Proof.
  induction n as [|n IH]; intros k st Hlen; [reflexivity|].
  cbn [run_passes seq map pass_reads].
  destruct (run_pass_ok sk k st Hlen) as [H1 H2]. rewrite H1. f_equal.
  apply IH. rewrite <- (map_length b_value), H2, map_length. reflexivity.
Qed.
