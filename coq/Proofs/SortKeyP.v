(* C10 - sorted() with a key: a tie lets the set's iteration order through; an injective key does not. *)
From Coq Require Import ZArith List Bool Permutation Sorted String Lia.
From RV Require Import Base.Wire Base.Text Lang.Order Proofs.OrderP Lang.SortKey.
Import ListNotations.
Open Scope Z_scope.

Section KeyedP.
  Variable K : Type.
  Variable kle : K -> K -> bool.
  Variable key : ident -> K.

  Notation kinsert := (kinsert K kle key).
  Notation ksort := (ksort K kle key).
  Notation site := (keyed_sorted_site K kle key).
  Notation tie := (key_tie K kle key).

  Definition kle_p (a b : ident) : Prop := kle (key a) (key b) = true.

  Lemma kinsert_perm x l : Permutation (kinsert x l) (x :: l).
  Proof.
    induction l as [|y r IH]; cbn; [reflexivity|].
    destruct (kle (key x) (key y)); [reflexivity|].
    rewrite IH. apply perm_swap.
  Qed.

  Lemma ksort_perm l : Permutation (ksort l) l.
  Proof. induction l as [|x r IH]; cbn; [reflexivity|]. rewrite kinsert_perm. constructor. exact IH. Qed.

  Lemma site_perm s l : perm_oracle s -> Permutation (site s l) l.
  Proof. intros Hs. unfold keyed_sorted_site. rewrite ksort_perm. apply Hs. Qed.

  (* ANY tie separates two iteration orders *)
  Lemma tie_separates x y : x <> y -> tie x y = true -> site sid [x; y] <> site srev [x; y].
  Proof.
    intros Hne Ht. unfold key_tie in Ht. apply andb_true_iff in Ht as [Hxy Hyx].
    unfold keyed_sorted_site, sid, srev. cbn. rewrite Hxy, Hyx. intros E. inversion E. contradiction.
  Qed.

  (* ... and what comes out for a tied pair IS the iteration order of the set *)
  Lemma tie_keeps_iteration_order x y : tie x y = true -> site sid [x; y] = [x; y] /\ site srev [x; y] = [y; x].
  Proof.
    intros Ht. unfold key_tie in Ht. apply andb_true_iff in Ht as [Hxy Hyx].
    unfold keyed_sorted_site, sid, srev. cbn. rewrite Hxy, Hyx. split; reflexivity.
  Qed.

  Hypothesis kle_total : forall a b, kle a b = true \/ kle b a = true.
  Hypothesis kle_trans : forall a b c, kle a b = true -> kle b c = true -> kle a c = true.

  Lemma kinsert_sorted x l : StronglySorted kle_p l -> StronglySorted kle_p (kinsert x l).
  Proof.
    induction l as [|y r IH]; cbn; intros H.
    - constructor; constructor.
    - destruct (kle (key x) (key y)) eqn:E.
      + constructor; [exact H|]. constructor; [exact E|].
        inversion H as [|? ? _ Hall]; subst.
        eapply Forall_impl; [|exact Hall]. intros z Hz. unfold kle_p in *. eapply kle_trans; eauto.
      + inversion H as [|? ? Hr Hall]; subst.
        constructor; [auto|].
        assert (kle_p y x) as Hyx by (unfold kle_p; destruct (kle_total (key x) (key y)) as [A|A]; [congruence|exact A]).
        eapply Permutation_Forall; [symmetry; apply kinsert_perm|].
        constructor; assumption.
  Qed.

  Lemma ksort_sorted l : StronglySorted kle_p (ksort l).
  Proof. induction l as [|x r IH]; cbn; [constructor|apply kinsert_sorted; exact IH]. Qed.

  Lemma ksorted_perm_unique l1 : forall l2,
    key_injective_on K kle key l1 ->
    StronglySorted kle_p l1 -> StronglySorted kle_p l2 -> Permutation l1 l2 -> l1 = l2.
  Proof.
    induction l1 as [|x r1 IH]; intros l2 Hinj H1 H2 HP.
    - apply Permutation_nil in HP. auto.
    - destruct l2 as [|y r2]; [symmetry in HP; apply Permutation_nil in HP; discriminate|].
      inversion H1 as [|? ? Hr1 Ha1]; subst. inversion H2 as [|? ? Hr2 Ha2]; subst.
      assert (x = y) as ->.
      { assert (In x (y :: r2)) as Ix by (eapply Permutation_in; [exact HP|left; reflexivity]).
        assert (In y (x :: r1)) as Iy by (eapply Permutation_in; [symmetry; exact HP|left; reflexivity]).
        destruct Ix as [->|Ix]; [reflexivity|]. destruct Iy as [->|Iy]; [reflexivity|].
        rewrite Forall_forall in Ha1, Ha2.
        apply Hinj; [left; reflexivity|right; exact Iy|].
        unfold key_tie. apply andb_true_iff. split; [apply Ha1; exact Iy|apply Ha2; exact Ix]. }
      f_equal. apply IH; auto.
      + intros a b Ia Ib. apply Hinj; right; assumption.
      + eapply Permutation_cons_inv; exact HP.
  Qed.

  (* an injective key: one result whatever the iteration order *)
  Lemma keyed_site_independent s1 s2 l :
    perm_oracle s1 -> perm_oracle s2 -> key_injective_on K kle key l -> site s1 l = site s2 l.
  Proof.
    intros P1 P2 Hinj. apply ksorted_perm_unique; try apply ksort_sorted.
    - intros x y Ix Iy. apply Hinj.
      + eapply Permutation_in; [apply site_perm; exact P1|exact Ix].
      + eapply Permutation_in; [apply site_perm; exact P1|exact Iy].
    - rewrite (site_perm s1 l P1), (site_perm s2 l P2). reflexivity.
  Qed.
End KeyedP.

(* ---------------------------------------------------------------- the key-less site is the instance key = name *)
Lemma idkey_insert x l : kinsert text text_leb idkey x l = insert x l.
Proof.
  induction l as [|y r IH]; [reflexivity|].
  cbn [kinsert insert]. change (idkey x) with x. change (idkey y) with y.
  destruct (text_leb x y); [reflexivity|]. rewrite IH. reflexivity.
Qed.

Lemma idkey_sort l : ksort text text_leb idkey l = sort l.
Proof. induction l as [|x r IH]; cbn; [reflexivity|]. rewrite IH. apply idkey_insert. Qed.

Lemma keyless_is_idkey s l : keyed_sorted_site text text_leb idkey s l = sorted_site s l.
Proof. unfold keyed_sorted_site, sorted_site. apply idkey_sort. Qed.

Lemma idkey_injective l : key_injective_on text text_leb idkey l.
Proof.
  intros x y _ _ Ht. unfold key_tie, idkey in Ht. apply andb_true_iff in Ht as [A B]. apply text_leb_antisym; assumption.
Qed.

(* ---------------------------------------------------------------- witnesses *)
Lemma natkey_ties : natkey n_key1 = natkey n_key01 /\ n_key1 <> n_key01 /\
  key_tie (list chunk) chunks_leb natkey n_key1 n_key01 = true.
Proof. split; [vm_compute; reflexivity|]. split; [intro E; vm_compute in E; discriminate|vm_compute; reflexivity]. Qed.

Lemma natkey_site_refuted :
  exists s1 s2 l, perm_oracle s1 /\ perm_oracle s2 /\
    keyed_sorted_site (list chunk) chunks_leb natkey s1 l <> keyed_sorted_site (list chunk) chunks_leb natkey s2 l.
Proof.
  exists sid, srev, [n_key1; n_key01]. split; [exact sid_perm|]. split; [exact srev_perm|].
  apply tie_separates; apply natkey_ties.
Qed.

Lemma natkey_witness :
  keyed_sorted_site (list chunk) chunks_leb natkey sid [n_key1; n_key01; n_key2; n_key10] = [n_key1; n_key01; n_key2; n_key10] /\
  keyed_sorted_site (list chunk) chunks_leb natkey srev [n_key1; n_key01; n_key2; n_key10] = [n_key01; n_key1; n_key2; n_key10] /\
  sorted_site srev [n_key1; n_key01; n_key2; n_key10] = [n_key01; n_key1; n_key10; n_key2].
Proof. repeat split; vm_compute; reflexivity. Qed.

Lemma lowerkey_site_refuted :
  keyed_sorted_site text text_leb lowerkey sid [n_key1; n_Key1] <> keyed_sorted_site text text_leb lowerkey srev [n_key1; n_Key1].
Proof. apply tie_separates; [intro E; vm_compute in E; discriminate|vm_compute; reflexivity]. Qed.

Lemma lenkey_site_refuted :
  keyed_sorted_site Z Z.leb lenkey sid [n_key1; n_key2] <> keyed_sorted_site Z Z.leb lenkey srev [n_key1; n_key2].
Proof. apply tie_separates; [intro E; vm_compute in E; discriminate|vm_compute; reflexivity]. Qed.

(* the partial theorem is not vacuous: the natural key IS injective on names without redundant zeros *)
Lemma natkey_injective_example : key_injective_on (list chunk) chunks_leb natkey [n_key1; n_key2; n_key10] /\
  keyed_sorted_site (list chunk) chunks_leb natkey srev [n_key1; n_key2; n_key10] = [n_key1; n_key2; n_key10].
Proof.
  split; [|vm_compute; reflexivity].
  intros x y Ix Iy Ht. cbn in Ix, Iy.
  destruct Ix as [<-|[<-|[<-|[]]]]; destruct Iy as [<-|[<-|[<-|[]]]]; try reflexivity; vm_compute in Ht; discriminate.
Qed.
