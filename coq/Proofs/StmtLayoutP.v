(* Layout noise is invisible to the C01 statement model: composition of the block-skeleton round trip
   (Proofs/RoundTripP.v, unit C07) with the assembly of C01 statements from the block tree (Lang/StmtLayout.v). *)
From Coq Require Import ZArith List Bool Lia.
From RV Require Import Base.Wire Base.Text Lang.Lex Lang.PyLayout Lang.Layout Lang.StmtAst Lang.Transl Lang.StmtLayout.
From RV Require Import Proofs.RoundTripP Proofs.SkeletonP.
Import ListNotations.
Open Scope Z_scope.

Section Noise.
  Variable simple : text -> option pstmt.
  Variable cond_of : text -> option ann.
  Variable for_of : text -> option (ident * ann).

  (* every layout inside the guard is read as the statements of its skeleton *)
  Theorem stmts_of_layout : forall u ns,
    layout_ok u ns = true ->
    stmts_of_lines simple cond_of for_of (render_list (ind_unit u) O ns)
    = stmts_of_trees simple cond_of for_of (map lerase ns).
  Proof.
    intros u ns H. unfold stmts_of_lines. rewrite (parse_render_roundtrip u ns H). reflexivity.
  Qed.

  Theorem stmts_layout_invariant : forall u1 u2 ns1 ns2,
    layout_ok u1 ns1 = true -> layout_ok u2 ns2 = true -> map lerase ns1 = map lerase ns2 ->
    stmts_of_lines simple cond_of for_of (render_list (ind_unit u1) O ns1)
    = stmts_of_lines simple cond_of for_of (render_list (ind_unit u2) O ns2).
  Proof.
    intros u1 u2 ns1 ns2 H1 H2 E. rewrite (stmts_of_layout u1 ns1 H1), (stmts_of_layout u2 ns2 H2), E. reflexivity.
  Qed.

  (* the whole script: setup part and (optionally) the body of the main loop, each in any layout *)
  Definition layout_opt_ok (u : text) (m : option (list ltree)) : bool :=
    match m with Some ns => layout_ok u ns | None => true end.

  Theorem ir_layout_invariant : forall u1 u2 pre1 pre2 main1 main2,
    layout_ok u1 pre1 = true -> layout_ok u2 pre2 = true ->
    layout_opt_ok u1 main1 = true -> layout_opt_ok u2 main2 = true ->
    map lerase pre1 = map lerase pre2 -> option_map (map lerase) main1 = option_map (map lerase) main2 ->
    ir_of_lines simple cond_of for_of (render_list (ind_unit u1) O pre1) (option_map (render_list (ind_unit u1) O) main1)
    = ir_of_lines simple cond_of for_of (render_list (ind_unit u2) O pre2) (option_map (render_list (ind_unit u2) O) main2).
  Proof.
    intros u1 u2 pre1 pre2 main1 main2 H1 H2 M1 M2 E EM. unfold ir_of_lines.
    rewrite (stmts_layout_invariant u1 u2 pre1 pre2 H1 H2 E).
    destruct main1 as [m1|], main2 as [m2|]; cbn in EM; try discriminate; [|reflexivity].
    injection EM as EM. cbn [option_map]. cbn in M1, M2.
    rewrite (stmts_layout_invariant u1 u2 m1 m2 M1 M2 EM). reflexivity.
  Qed.

  (* from noisy source lines to the firmware IR: whatever the layout, an accepted script keeps every statement of
     its skeleton, in its block and in its phase *)
  Theorem noisy_lines_keep_every_statement : forall u pre main p m c,
    layout_ok u pre = true -> layout_ok u main = true ->
    stmts_of_trees simple cond_of for_of (map lerase pre) = Some p ->
    stmts_of_trees simple cond_of for_of (map lerase main) = Some m ->
    ir_of_lines simple cond_of for_of (render_list (ind_unit u) O pre) (Some (render_list (ind_unit u) O main)) = Some c ->
    skel_c (c_setup c) = skel_p p /\ skel_c (c_loop c) = skel_p m.
  Proof.
    intros u pre main p m c H1 H2 Ep Em Hc. unfold ir_of_lines in Hc.
    rewrite (stmts_of_layout u pre H1), Ep, (stmts_of_layout u main H2), Em in Hc.
    destruct (transl_skeleton _ _ Hc) as [A B]. cbn in A, B. split; assumption.
  Qed.
End Noise.

(* ---------------------------------------------------------------- witnesses *)
(* `if x > 1:` / `a = 1` / `b = 2` / `c = 3` with  c = 3  after the block *)
Definition t_if : text := [105;102;32;120;32;62;32;49;58].
Definition t_a : text := [97;32;61;32;49].
Definition t_b : text := [98;32;61;32;50;50].
Definition t_c : text := [99;32;61;32;51;51;51].
Definition cmt0 : text := [35;32;98;32;61;32;57].              (* "# b = 9" at column 0 *)
Definition cmt4 : text := [32;32;32;32;35;32;110].             (* "    # n" at the header's column when nested *)

(* plain layout *)
Definition lay_plain : list ltree :=
  [LBlock [] Lex.KIf t_if [] [LLeaf [] t_a []; LLeaf [] t_b []]; LLeaf [] t_c []].
(* noise: a column-0 comment and a blank line INSIDE the block, followed by a statement of the block; trailing
   comments on the header and on a statement; a comment before the statement after the block *)
Definition lay_noisy : list ltree :=
  [LBlock [cmt0] Lex.KIf t_if [32;32;35;32;104]
     [LLeaf [[]; cmt0] t_a [32;35;32;116]; LLeaf [cmt0; []; [32;32;35]] t_b []];
   LLeaf [cmt4] t_c [32;32]].
(* the program in which  b = 22  has left the block (what a parser that lets the dedented comment end the block reads) *)
Definition lay_moved : list ltree :=
  [LBlock [] Lex.KIf t_if [] [LLeaf [] t_a []]; LLeaf [] t_b []; LLeaf [] t_c []].

Lemma layout_noise_witness :
  layout_ok [32;32;32;32] lay_plain = true /\ layout_ok [32;32;32;32] lay_noisy = true
  /\ map lerase lay_plain = map lerase lay_noisy
  /\ length (render_list (ind_unit [32;32;32;32]) O lay_noisy) = 11%nat
  /\ demo_stmts (render_list (ind_unit [32;32;32;32]) O lay_noisy)
     = Some [PIf (demo_ann t_if) [PExprS (demo_ann t_a); PExprS (demo_ann t_b)] [] []; PExprS (demo_ann t_c)]
  /\ demo_stmts (render_list (ind_unit [32;32;32;32]) O lay_moved)
     = Some [PIf (demo_ann t_if) [PExprS (demo_ann t_a)] [] []; PExprS (demo_ann t_b); PExprS (demo_ann t_c)]
  /\ demo_stmts (render_list (ind_unit [32;32;32;32]) O lay_moved) <> demo_stmts (render_list (ind_unit [32;32;32;32]) O lay_noisy).
Proof. repeat split; try (vm_compute; reflexivity). intro H. vm_compute in H. discriminate H. Qed.

(* if / elif / else chains, while and for are assembled; a dangling else is refused *)
Definition t_elif : text := [101;108;105;102;32;120;32;62;32;48;58].
Definition t_else : text := [101;108;115;101;58].
Definition t_while : text := [119;104;105;108;101;32;97;32;60;32;51;58].
Definition t_for : text := [102;111;114;32;107;32;105;110;32;114;97;110;103;101;40;51;41;58].
Definition lay_chain : list ltree :=
  [LBlock [] Lex.KIf t_if [] [LLeaf [] t_a []];
   LBlock [cmt0; []] Lex.KElif t_elif [32;35] [LBlock [] Lex.KWhile t_while [] [LLeaf [cmt0] t_b []]];
   LBlock [cmt0] Lex.KElse t_else [32;35;32;111] [LBlock [] Lex.KFor t_for [] [LLeaf [] t_c [];  LLeaf [cmt0; cmt4] t_a []]];
   LLeaf [] t_c []].
Lemma layout_chain_witness :
  layout_ok [32;32] lay_chain = true
  /\ demo_stmts (render_list (ind_unit [32;32]) O lay_chain)
     = Some [PIf (demo_ann t_if) [PExprS (demo_ann t_a)]
                 [(demo_ann t_elif, [PWhile (demo_ann t_while) [PExprS (demo_ann t_b)]])]
                 [PFor [107] (demo_ann t_for) [PExprS (demo_ann t_c); PExprS (demo_ann t_a)]];
             PExprS (demo_ann t_c)]
  /\ stmts_of_trees demo_simple demo_cond demo_for [SBlock Lex.KElse t_else [SLeaf t_a]] = None.
Proof. repeat split; vm_compute; reflexivity. Qed.
