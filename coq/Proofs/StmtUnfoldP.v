(* Unfolding equations for the nested fixpoints of the statement layer (tr1, wr, anns_of,
   augs_of, assigned, g_block) and stand-alone mirrors of the local fixpoints of
   StmtSem.pexec / StmtSem.cexec (branch selection, for-loop iteration). *)
From Coq Require Import ZArith QArith List Bool Lia.
From RV Require Import Base.Wire Base.Text Lang.StmtAst Lang.Transl Lang.StmtSem Lang.StmtGuard
  Lang.SemFacts Lang.StmtSimple.
Import ListNotations.
Open Scope Z_scope.

(* ---------- syntactic functions ---------- *)
Lemma knext_unfold k p :
  knext k p = match p with
              | PTuple _ es => k + Z.of_nat (length es)
              | PWhile _ b | PFor _ _ b => klist k b
              | _ => k
              end.
Proof.
  assert (G : forall l k0, (fix go (k : Z) (l : list pstmt) : Z := match l with [] => k | x :: r => go (knext k x) r end) k0 l = klist k0 l).
  { intros l k0. reflexivity. }
  destruct p; try reflexivity; cbn; apply G.
Qed.

Lemma tr1_unfold ret k p :
  tr1 ret k p = match p with
          | PAssign x e => [NAssign x (XE (a_id e))]
          | PAug x op e _ => [NAssign x (XAug x op (a_id e))]
          | PTuple xs es => tuple_tmps es k ++ tup_asgs xs k
          | PIf c b el e => [NIf ((a_id c, trn ret k b) :: trnb ret k el) (trn ret k e)]
          | PWhile c b => [NWhile (a_id c) (trn false k b)]
          | PFor x c b => [NFor x (a_id c) (trn false k b)]
          | PBreak => [NBreak]
          | PContinue => if ret then [NReturn] else [NContinue]
          | PWrite e => [NWrite (a_id e)]
          | PSleep e => [NSleep (a_id e)]
          | PExprS e => if closed_const e then [] else [NExprS (a_id e)]
          end.
Proof.
  assert (G : forall rt l k0, (fix go (rt : bool) (k : Z) (l : list pstmt) : list cnode := match l with [] => [] | x :: r => tr1 rt k x ++ go rt (knext k x) r end) rt k0 l = trn rt k0 l).
  { intros rt l k0. reflexivity. }
  destruct p; try reflexivity; cbn; rewrite ?G; try reflexivity.
  all: f_equal; f_equal; f_equal.
  all: induction elifs as [|[c' b] r IH]; [reflexivity|]; cbn; rewrite G; f_equal; exact IH.
Qed.

Lemma wr_unfold p :
  wr p = match p with
         | PAssign x _ | PAug x _ _ _ => [x]
         | PTuple xs _ => xs
         | PIf _ b el e => wr_in b ++ wr_inb el ++ wr_in e
         | PWhile _ b => wr_in b
         | PFor _ _ b => wr_in b
         | _ => []
         end.
Proof.
  assert (G : forall l, (fix go (l : list pstmt) : list ident := match l with [] => [] | x :: r => wr x ++ go r end) l = wr_in l).
  { intro l. reflexivity. }
  destruct p; try reflexivity; cbn; rewrite ?G; try reflexivity.
  all: f_equal; f_equal.
  all: induction elifs as [|[c' b] r IH]; [reflexivity|]; cbn; rewrite G; f_equal; exact IH.
Qed.

Fixpoint anns_in (l : list pstmt) : list ann := match l with [] => [] | x :: r => anns_of x ++ anns_in r end.
Fixpoint anns_inb (l : list (ann * list pstmt)) : list ann :=
  match l with [] => [] | (c, b) :: r => c :: anns_in b ++ anns_inb r end.
Lemma anns_in_flat l : flat_map anns_of l = anns_in l.
Proof. reflexivity. Qed.

Lemma anns_of_unfold p :
  anns_of p = match p with
              | PAssign _ e | PAug _ _ e _ | PWrite e | PSleep e | PExprS e => [e]
              | PTuple _ es => es
              | PIf c b el e => c :: anns_in b ++ anns_inb el ++ anns_in e
              | PWhile c b => c :: anns_in b
              | PFor _ c b => c :: anns_in b
              | PBreak | PContinue => []
              end.
Proof.
  assert (G : forall l, (fix go (l : list pstmt) : list ann := match l with [] => [] | x :: r => anns_of x ++ go r end) l = anns_in l).
  { intro l. reflexivity. }
  destruct p; try reflexivity; cbn; rewrite ?G; try reflexivity.
  all: f_equal; f_equal; f_equal.
  all: induction elifs as [|[c' b] r IH]; [reflexivity|]; cbn; rewrite G; f_equal; f_equal; exact IH.
Qed.

Fixpoint augs_in (l : list pstmt) : list (Z * ann * ty) := match l with [] => [] | x :: r => augs_of x ++ augs_in r end.
Fixpoint augs_inb (l : list (ann * list pstmt)) : list (Z * ann * ty) :=
  match l with [] => [] | (_, b) :: r => augs_in b ++ augs_inb r end.

Lemma augs_of_unfold p :
  augs_of p = match p with
              | PAug _ op e t => [(op, e, t)]
              | PIf _ b el e => augs_in b ++ augs_inb el ++ augs_in e
              | PWhile _ b => augs_in b
              | PFor _ _ b => augs_in b
              | _ => []
              end.
Proof.
  assert (G : forall l, (fix go (l : list pstmt) : list (Z * ann * ty) := match l with [] => [] | x :: r => augs_of x ++ go r end) l = augs_in l).
  { intro l. reflexivity. }
  destruct p; try reflexivity; cbn; rewrite ?G; try reflexivity.
  all: f_equal; f_equal.
  all: induction elifs as [|[c' b] r IH]; [reflexivity|]; cbn; rewrite G; f_equal; exact IH.
Qed.

Fixpoint asg_in (l : list pstmt) : list ident := match l with [] => [] | x :: r => assigned x ++ asg_in r end.
Fixpoint asg_inb (l : list (ann * list pstmt)) : list ident :=
  match l with [] => [] | (_, b) :: r => asg_in b ++ asg_inb r end.
Lemma assigned_in_asg l : assigned_in l = asg_in l.
Proof. reflexivity. Qed.

Lemma assigned_unfold p :
  assigned p = match p with
               | PAssign x _ | PAug x _ _ _ => [x]
               | PTuple xs _ => xs
               | PIf _ b el e => asg_in b ++ asg_inb el ++ asg_in e
               | PWhile _ b => asg_in b
               | PFor x _ b => x :: asg_in b
               | _ => []
               end.
Proof.
  assert (G : forall l, (fix go (l : list pstmt) : list ident := match l with [] => [] | x :: r => assigned x ++ go r end) l = asg_in l).
  { intro l. reflexivity. }
  destruct p; try reflexivity; cbn; rewrite ?G; try reflexivity.
  all: f_equal; f_equal.
  all: induction elifs as [|[c' b] r IH]; [reflexivity|]; cbn; rewrite G; f_equal; exact IH.
Qed.

(* ---------- the guard ---------- *)
Lemma g_block_cons f top D L p rest :
  g_block (S f) top D L (p :: rest) =
  match g_step f top D L p with Some D1 => g_block f top D1 L rest | None => None end.
Proof. destruct p; reflexivity. Qed.

Lemma g_block_nil f top D L : g_block (S f) top D L [] = Some D.
Proof. reflexivity. Qed.

Lemma g_block_cons_inv gf top D L p rest D' :
  g_block gf top D L (p :: rest) = Some D' ->
  exists gf' D1, gf = S gf' /\ g_step gf' top D L p = Some D1 /\ g_block gf' top D1 L rest = Some D'.
Proof.
  destruct gf as [|gf']; [discriminate|]. rewrite g_block_cons.
  destruct (g_step gf' top D L p) as [D1|] eqn:E; [|discriminate].
  intro H. exists gf', D1. auto.
Qed.

(* ---------- mirrors of the local fixpoints of the semantics ---------- *)
Section Mirrors.
  Variable sem : Z -> list (option val) -> option val.
  Variable augsem : Z -> val -> val -> option val.
  Variable info : Z -> option ann.

  Section PPick.
    Variable rho : penv.
    Variable els : list pstmt.
    Fixpoint ppick (l : list (ann * list pstmt)) : option (list pstmt) :=
      match l with
      | [] => Some els
      | (c', b) :: r =>
          match peval sem c' rho with
          | Some v => if truthy v then Some b else ppick r
          | None => None
          end
      end.
  End PPick.

  Section CPick.
    Variable sg : cstore.
    Variable els : list cnode.
    Fixpoint cpick (l : list (Z * list cnode)) : option (list cnode) :=
      match l with
      | [] => Some els
      | (c, b) :: r =>
          match cev sem info c sg with
          | Some v => if truthy v then Some b else cpick r
          | None => None end
      end.
  End CPick.

  Section PIter.
    Variable f : nat.
    Variable x : ident.
    Variable body : list pstmt.
    Fixpoint piter (k : nat) (i : Z) (rho0 : penv) : option (penv * list ev) :=
      match k with
      | O => Some (rho0, [])
      | S k' =>
          match pexec sem augsem f (pset x (VI i) rho0) body with
          | None => None
          | Some (rho1, e1, OBreak) => Some (rho1, e1)
          | Some (rho1, e1, OReturn) => None
          | Some (rho1, e1, _) =>
              match piter k' (i + 1) rho1 with
              | None => None | Some (rho2, e2) => Some (rho2, e1 ++ e2) end
          end
      end.
  End PIter.

  Definition cblock (f : nat) (s0 : cstore) (b : list cnode) : option (cstore * list ev * outcome) :=
    match cexec sem augsem info f s0 b with
    | None => None
    | Some (s1, e1, o) => Some (lastn (length s0) s1, e1, o)
    end.

  Section CIter.
    Variable f : nat.
    Variable x : ident.
    Variable cnt : Z.
    Variable body : list cnode.
    Fixpoint citer (k : nat) (s0 : cstore) : option (cstore * list ev * bool) :=
      match k with
      | O => None
      | S k' =>
          match clook s0 x, cev sem info cnt s0 with
          | Some (VI i), Some nv =>
              match as_count nv with
              | None => None
              | Some n =>
                  if i <? n then
                    match cblock f s0 body with
                    | None => None
                    | Some (s1, e1, OBreak) => Some (s1, e1, false)
                    | Some (s1, e1, OReturn) => Some (s1, e1, true)
                    | Some (s1, e1, _) =>
                        match clook s1 x with
                        | Some (VI j) =>
                            match cupd x (VI (j + 1)) s1 with
                            | None => None
                            | Some s2 =>
                                match citer k' s2 with
                                | None => None | Some (s3, e3, r) => Some (s3, e1 ++ e3, r) end
                            end
                        | _ => None
                        end
                    end
                  else Some (s0, [], false)
              end
          | _, _ => None
          end
      end.
  End CIter.

  Notation pexec := (pexec sem augsem).
  Notation cexec := (cexec sem augsem info).

  Definition pcont (f : nat) (rest : list pstmt) (r : option (penv * list ev * outcome)) :=
    match r with
    | None => None
    | Some (rho1, e1, ONormal) =>
        match pexec f rho1 rest with
        | None => None
        | Some (rho2, e2, o) => Some (rho2, e1 ++ e2, o)
        end
    | Some (rho1, e1, o) => Some (rho1, e1, o)
    end.

  Definition ccont (f : nat) (rest : list cnode) (r : option (cstore * list ev * outcome)) :=
    match r with
    | None => None
    | Some (s1, e1, ONormal) =>
        match cexec f s1 rest with
        | None => None | Some (s2, e2, o) => Some (s2, e1 ++ e2, o) end
    | Some (s1, e1, o) => Some (s1, e1, o)
    end.

  (* --- Python side equations --- *)
  Lemma pexec_nil f rho : pexec (S f) rho [] = Some (rho, [], ONormal).
  Proof. reflexivity. Qed.

  Lemma pexec_assign f rho x e rest :
    pexec (S f) rho (PAssign x e :: rest) =
    pcont f rest (match peval sem e rho with Some v => Some (pset x v rho, [], ONormal) | None => None end).
  Proof. reflexivity. Qed.

  Lemma pexec_aug f rho x op e t rest :
    pexec (S f) rho (PAug x op e t :: rest) =
    pcont f rest (match plook rho x, peval sem e rho with
                  | Some u, Some v => match augsem op u v with
                                      | Some w => Some (pset x w rho, [], ONormal) | None => None end
                  | _, _ => None end).
  Proof. reflexivity. Qed.

  Lemma pexec_tuple f rho xs es rest :
    pexec (S f) rho (PTuple xs es :: rest) =
    pcont f rest (if Nat.leb (length xs) (length es)
                  then match pevals sem (firstn (length xs) es) rho with
                       | Some vs => Some (pbinds xs vs rho, [], ONormal) | None => None end
                  else None).
  Proof. reflexivity. Qed.

  Lemma pexec_break f rho rest : pexec (S f) rho (PBreak :: rest) = Some (rho, [], OBreak).
  Proof. reflexivity. Qed.
  Lemma pexec_continue f rho rest : pexec (S f) rho (PContinue :: rest) = Some (rho, [], OContinue).
  Proof. reflexivity. Qed.

  Lemma pexec_write f rho e rest :
    pexec (S f) rho (PWrite e :: rest) =
    pcont f rest (match peval sem e rho with Some v => Some (rho, [EvSer v], ONormal) | None => None end).
  Proof. reflexivity. Qed.

  Lemma pexec_sleep f rho e rest :
    pexec (S f) rho (PSleep e :: rest) =
    pcont f rest (match peval sem e rho with Some v => Some (rho, [EvDelay v], ONormal) | None => None end).
  Proof. reflexivity. Qed.

  Lemma pexec_exprs f rho e rest :
    pexec (S f) rho (PExprS e :: rest) =
    pcont f rest (match peval sem e rho with
                  | Some v => Some (rho, if closed_const e then [] else [EvX (a_id e) v], ONormal)
                  | None => None end).
  Proof. reflexivity. Qed.

  Lemma pexec_if f rho c body elifs els rest :
    pexec (S f) rho (PIf c body elifs els :: rest) =
    pcont f rest (match ppick rho els ((c, body) :: elifs) with
                  | Some b => pexec f rho b
                  | None => None end).
  Proof. reflexivity. Qed.

  Lemma pexec_while f rho c body rest :
    pexec (S f) rho (PWhile c body :: rest) =
    match peval sem c rho with
    | None => None
    | Some v =>
        if truthy v then
          match pexec f rho body with
          | None => None
          | Some (rho1, e1, OBreak) =>
              match pexec f rho1 rest with
              | None => None | Some (rho2, e2, o) => Some (rho2, e1 ++ e2, o) end
          | Some (rho1, e1, OReturn) => None
          | Some (rho1, e1, _) =>
              match pexec f rho1 (PWhile c body :: rest) with
              | None => None | Some (rho2, e2, o) => Some (rho2, e1 ++ e2, o) end
          end
        else pexec f rho rest
    end.
  Proof. reflexivity. Qed.

  Lemma pexec_for f rho x cnt body rest :
    pexec (S f) rho (PFor x cnt body :: rest) =
    match peval sem cnt rho with
    | None => None
    | Some nv =>
        match as_count nv with
        | None => None
        | Some n =>
            match piter f x body (Z.to_nat n) 0 rho with
            | None => None
            | Some (rho1, e1) =>
                match pexec f rho1 rest with
                | None => None | Some (rho2, e2, o) => Some (rho2, e1 ++ e2, o) end
            end
        end
    end.
  Proof. reflexivity. Qed.

  (* --- C side equations --- *)
  Lemma cexec_nil f sg : cexec (S f) sg [] = Some (sg, [], ONormal).
  Proof. reflexivity. Qed.

  Lemma cexec_assign f sg x e rest :
    cexec (S f) sg (NAssign x e :: rest) =
    ccont f rest (match ceval sem augsem info e sg with
                  | Some v => match cupd x v sg with Some s1 => Some (s1, [], ONormal) | None => None end
                  | None => None end).
  Proof. reflexivity. Qed.

  Lemma cexec_decl f sg x t init rest :
    cexec (S f) sg (NDecl x t init false :: rest) =
    ccont f rest (match ceval sem augsem info init sg with
                  | Some v => Some ((x, (t, conv t v)) :: sg, [], ONormal) | None => None end).
  Proof. reflexivity. Qed.

  Lemma cexec_decltmp f sg k t init rest :
    cexec (S f) sg (NDeclTmp k t init :: rest) =
    ccont f rest (match ceval sem augsem info init sg with
                  | Some v => Some ((tmp_name k, (t, conv t v)) :: sg, [], ONormal) | None => None end).
  Proof. reflexivity. Qed.

  Lemma cexec_break f sg rest : cexec (S f) sg (NBreak :: rest) = Some (sg, [], OBreak).
  Proof. reflexivity. Qed.

  Lemma cexec_write f sg id rest :
    cexec (S f) sg (NWrite id :: rest) =
    ccont f rest (match cev sem info id sg with Some v => Some (sg, [EvSer v], ONormal) | None => None end).
  Proof. reflexivity. Qed.

  Lemma cexec_sleep f sg id rest :
    cexec (S f) sg (NSleep id :: rest) =
    ccont f rest (match cev sem info id sg with Some v => Some (sg, [EvDelay v], ONormal) | None => None end).
  Proof. reflexivity. Qed.

  Lemma cexec_exprs f sg id rest :
    cexec (S f) sg (NExprS id :: rest) =
    ccont f rest (match cev sem info id sg with Some v => Some (sg, [EvX id v], ONormal) | None => None end).
  Proof. reflexivity. Qed.

  Lemma cexec_if f sg bs els rest :
    cexec (S f) sg (NIf bs els :: rest) =
    ccont f rest (match cpick sg els bs with Some b => cblock f sg b | None => None end).
  Proof. reflexivity. Qed.

  Lemma cexec_while f sg c body rest :
    cexec (S f) sg (NWhile c body :: rest) =
    match cev sem info c sg with
    | None => None
    | Some v =>
        if truthy v then
          match cblock f sg body with
          | None => None
          | Some (s1, e1, OBreak) =>
              match cexec f s1 rest with
              | None => None | Some (s2, e2, o) => Some (s2, e1 ++ e2, o) end
          | Some (s1, e1, OReturn) => Some (s1, e1, OReturn)
          | Some (s1, e1, _) =>
              match cexec f s1 (NWhile c body :: rest) with
              | None => None | Some (s2, e2, o) => Some (s2, e1 ++ e2, o) end
          end
        else cexec f sg rest
    end.
  Proof. reflexivity. Qed.

  Lemma cexec_for f sg x cnt body rest :
    cexec (S f) sg (NFor x cnt body :: rest) =
    match citer f x cnt body (S f) ((x, (TyInt, VI 0)) :: sg) with
    | None => None
    | Some (s1, e1, true) => Some (lastn (length sg) s1, e1, OReturn)
    | Some (s1, e1, false) =>
        match cexec f (lastn (length sg) s1) rest with
        | None => None | Some (s2, e2, o) => Some (s2, e1 ++ e2, o) end
    end.
  Proof. reflexivity. Qed.

  Lemma cexec_continue f sg rest : cexec (S f) sg (NContinue :: rest) = Some (sg, [], OContinue).
  Proof. reflexivity. Qed.
  Lemma cexec_return f sg rest : cexec (S f) sg (NReturn :: rest) = Some (sg, [], OReturn).
  Proof. reflexivity. Qed.
End Mirrors.
