(* Proofs about the concrete layer of target(): the configuration file names exactly the
   given port, platform, board and the needed libraries. *)
From Coq Require Import String ZArith List Bool Lia.
From RV Require Import Base.Wire Base.Text Gen.Registry Tool.Registry Proofs.RegistryP.
From RV Require Import Tool.Ini Proofs.IniP Tool.Target Proofs.TargetP Tool.TargetIni.
Import ListNotations.
Open Scope Z_scope.

Lemma validf_of_validate a :
  validf_of a VPlatform VBoard = true -> validate (c_platform a) (c_board a) = None.
Proof.
  unfold validf_of. cbn [den]. destruct (validate (c_platform a) (c_board a)); [discriminate|reflexivity].
Qed.

(* every platformio.ini text written during a run of a well-formed shape reads back as
   exactly the arguments of the call *)
Lemma config_exact a up pi how flt ss evs res :
  shape_ok ss = true ->
  value_ok (c_port a) = true -> forallb lib_ok (c_libs a) = true ->
  target_run (env_for a up pi how flt) ss = (evs, res) ->
  forall ev t, In ev evs -> ini_text a ev = Some t ->
    ini_read t = Some (expected_ini (c_platform a) (c_board a) (c_port a) (c_libs a)).
Proof.
  intros OK Hport Hlibs R ev t I T.
  destruct ev; try discriminate T.
  pose proof (writes_exact _ _ _ _ OK R _ I) as (-> & -> & -> & ->).
  apply in_split in I as (pre & post & E).
  destruct (no_write_before_checks _ _ _ _ _ _ _ OK R E eq_refl) as (V & _).
  cbn in V. apply validf_of_validate in V.
  cbn in T. injection T as <-.
  destruct (roundtrip_registered _ _ _ _ V Hport Hlibs) as (t' & W & RD).
  unfold write_ini in W. rewrite V in W. injection W as <-. exact RD.
Qed.

(* the four keys, one by one *)
Lemma expected_keys pl b port libs :
  let cfg := expected_ini pl b port libs in
  ini_key k_platform cfg = Some pl /\ ini_key k_board cfg = Some b /\ ini_key k_upload_port cfg = Some port.
Proof. cbn. repeat split. Qed.

(* a returning call has written such a file *)
Lemma returned_config a up pi how flt ss evs v :
  shape_ok ss = true ->
  value_ok (c_port a) = true -> forallb lib_ok (c_libs a) = true ->
  target_run (env_for a up pi how flt) ss = (evs, Returned v) ->
  exists t, In (WriteIni VPort VPlatform VBoard VLibs) evs /\
            t = render (c_platform a) (c_board a) (c_port a) (c_libs a) /\
            ini_read t = Some (expected_ini (c_platform a) (c_board a) (c_port a) (c_libs a)).
Proof.
  intros OK Hport Hlibs R.
  destruct (returns_emitted _ _ _ _ OK R) as (RE & _ & _).
  destruct (RE v eq_refl) as (_ & _ & _ & I). unfold ini_ev in I.
  eexists. split; [exact I|]. split; [reflexivity|].
  eapply (config_exact a up pi how flt ss evs _ OK Hport Hlibs R _ _ I). reflexivity.
Qed.

(* the regression class: formatting the board line from the sanitised name.
   Boards exist in the registry for which that file names another board. *)
Definition w_astar : text := Eval vm_compute in txt "a-star32U4"%string.
Definition w_atmelavr : text := Eval vm_compute in txt "atmelavr"%string.
Definition w_port0 : text := Eval vm_compute in txt "COM3"%string.

Lemma board_sanitized_refuted :
  validate w_atmelavr w_astar = None /\
  match ini_read (render_board_sanitized w_atmelavr w_astar w_port0 []) with
  | Some cfg => ini_key k_board cfg <> Some w_astar
  | None => True
  end /\
  (match ini_read (render w_atmelavr w_astar w_port0 []) with
   | Some cfg => ini_key k_board cfg = Some w_astar
   | None => False
   end).
Proof. vm_compute. repeat split; try reflexivity. discriminate. Qed.

Lemma boards_not_word_inhabited : In w_astar boards_not_word.
Proof. vm_compute. tauto. Qed.
