(* Proofs about the model of target() (Tool/Target.v), for every well-formed shape. *)
From Coq Require Import ZArith List Bool Lia.
From RV Require Import Base.Wire Tool.Target.
Import ListNotations.
Open Scope Z_scope.

(* ------------------------------------------------------------------ basics *)
Lemma val_eqb_eq a b : val_eqb a b = true -> a = b.
Proof. destruct a, b; cbn; intro H; try reflexivity; discriminate H. Qed.

Lemma guard_eqb_eq a b : guard_eqb a b = true -> a = b.
Proof. destruct a, b; cbn; intro H; try reflexivity; discriminate H. Qed.

Ltac split_and :=
  repeat match goal with
  | H : _ && _ = true |- _ => apply andb_true_iff in H; destruct H
  | H : val_eqb _ _ = true |- _ => apply val_eqb_eq in H
  | H : guard_eqb _ _ = true |- _ => apply guard_eqb_eq in H
  | H : negb _ = true |- _ => apply negb_true_iff in H
  end.

(* invert [step_ok s x = Some s'] for a concrete constructor x *)
Ltac inv_ok H :=
  unfold step_ok, ready in H;
  match type of H with
  | (if ?c then _ else _) = _ => let C := fresh "C" in destruct c eqn:C; [|discriminate H]
  end;
  injection H as <-; split_and; subst.

(* same for [step_ok s (SReturn v) = Some s], where the states coincide *)
Ltac inv_ret H :=
  unfold step_ok, ready in H;
  match type of H with
  | (if ?c then _ else _) = _ => let C := fresh "C" in destruct c eqn:C; [|discriminate H]
  end;
  clear H; split_and; subst.

Lemma kind_eqb_eq a b : kind_eqb a b = true -> a = b.
Proof. destruct a, b; cbn; intro H; try reflexivity; discriminate H. Qed.

(* wrapping clauses turn every failure of the probe into RuntimeError *)
Lemma wrap_kind h f : handlers_wrap h = true -> ensure_kind h f = RuntimeError.
Proof.
  unfold handlers_wrap. rewrite forallb_forall. intro H. apply kind_eqb_eq. apply H.
  destruct f; cbn; auto 6.
Qed.

Lemma exec_cons e s r :
  exec_list e (s :: r) =
  match exec_step e s with
  | (ev, Some res) => (ev, Some res)
  | (ev, None) => let '(ev', o) := exec_list e r in (ev ++ ev', o)
  end.
Proof. reflexivity. Qed.

Lemma run_exec e ss evs res :
  target_run e ss = (evs, res) ->
  exists o, exec_list e ss = (evs, o) /\ res = match o with Some r => r | None => FellOff end.
Proof.
  unfold target_run. destruct (exec_list e ss) as [ev o]. intros [= <- <-]. eauto.
Qed.

(* induction over the derivation of [check s ss = true] *)
Lemma check_ind (P : sst -> list step -> Prop) :
  (forall s v, step_ok s (SReturn v) = Some s -> P s [SReturn v]) ->
  (forall s x s' r, step_ok s x = Some s' -> is_return x = false -> check s' r = true ->
                    P s' r -> P s (x :: r)) ->
  forall ss s, check s ss = true -> P s ss.
Proof.
  intros Hret Hcons. induction ss as [|x r IH]; intros s H; cbn in H; [discriminate|].
  destruct (step_ok s x) as [s'|] eqn:OK; [|discriminate].
  destruct (is_return x) eqn:R.
  - destruct r; [|discriminate]. destruct x; try discriminate R.
    assert (s' = s) as ->.
    { unfold step_ok in OK. destruct (ready s && _ && _ && _ && _ && _); congruence. }
    apply Hret. exact OK.
  - eapply Hcons; eauto.
Qed.

(* the semantic content of the static facts a prefix has established *)
Definition hist (e : env) (s : sst) : Prop :=
  (k_validated s = true -> validf e VPlatform VBoard = true) /\
  (k_pio s = true -> upload e = true -> pio e = true) /\
  (k_prog s = true -> fault e FParse = false).

Lemma hist0 e : hist e st0.
Proof. repeat split; cbn; discriminate. Qed.

(* a step that falls through keeps [hist] *)
Lemma hist_step e s x s' ev :
  step_ok s x = Some s' -> hist e s -> exec_step e x = (ev, None) -> hist e s'.
Proof.
  intros OK (Hv & Hp & Hf) EX. destruct x; inv_ok OK; cbn in *;
    try (repeat split; cbn; auto; fail).
  - (* validate *) destruct (validf e VPlatform VBoard) eqn:V; [|discriminate].
    repeat split; cbn; auto.
  - (* ensure_pio *) destruct (upload e) eqn:U; cbn in EX.
    + destruct (pio e) eqn:Pp; [|discriminate]. repeat split; cbn; auto.
    + repeat split; cbn; auto. intros _ X. congruence.
  - (* parse *) destruct (fault e FParse) eqn:F; [discriminate|]. repeat split; cbn; auto.
Qed.

(* ---------------------------------------------------- shape of the first two statements *)
Lemma shape_head ss :
  shape_ok ss = true ->
  exists h r s2, ss = SValidate VPlatform VBoard :: SEnsurePio GIfUpload h :: r /\
               handlers_wrap h = true /\
               check s2 r = true /\ s2 = set_pio (set_validated st0).
Proof.
  unfold shape_ok. intro H. destruct ss as [|x r]; [discriminate|]. cbn [check] in H.
  destruct (step_ok st0 x) as [s1|] eqn:OK1; [|discriminate].
  destruct x; try (inv_ok OK1; cbn in *; congruence).
  inv_ok OK1. cbn [is_return] in H.
  destruct r as [|y r]; [discriminate|]. cbn [check] in H.
  destruct (step_ok (set_validated st0) y) as [s2|] eqn:OK2; [|discriminate].
  destruct y; try (inv_ok OK2; cbn in *; congruence).
  inv_ok OK2. cbn [is_return] in H. eauto 7.
Qed.

(* ------------------------------------------------------------ C12_validate_first *)
Lemma validate_first e ss :
  shape_ok ss = true -> validf e VPlatform VBoard = false ->
  target_run e ss = ([], Raised ValueError).
Proof.
  intros OK V. destruct (shape_head _ OK) as (h & r & s2 & -> & _ & _ & _).
  unfold target_run. cbn. rewrite V. reflexivity.
Qed.

(* ------------------------------------------------------ C12_missing_pio_with_upload *)
Lemma missing_pio_with_upload e ss :
  shape_ok ss = true -> validf e VPlatform VBoard = true -> upload e = true -> pio e = false ->
  target_run e ss = ([RunPioVersion], Raised RuntimeError).
Proof.
  intros OK V U Pp. destruct (shape_head _ OK) as (h & r & s2 & -> & W & _ & _).
  unfold target_run. cbn. rewrite V, U. cbn. rewrite Pp, (wrap_kind h (pio_how e) W). reflexivity.
Qed.

(* ------------------------------------------------------ events of a list, by parts *)
Lemma exec_events_cons e x r ev :
  In ev (fst (exec_list e (x :: r))) ->
  In ev (fst (exec_step e x)) \/
  (snd (exec_step e x) = None /\ In ev (fst (exec_list e r))).
Proof.
  rewrite exec_cons. destruct (exec_step e x) as [ev0 [res|]]; cbn; [auto|].
  destruct (exec_list e r) as [ev1 o]; cbn. intro I. apply in_app_or in I. tauto.
Qed.

(* a property of all events of all steps admitted by [step_ok] lifts to checked lists *)
Lemma events_all e (Q : event -> Prop) :
  (forall s x s' ev, step_ok s x = Some s' -> In ev (fst (exec_step e x)) -> Q ev) ->
  forall ss s, check s ss = true -> forall ev, In ev (fst (exec_list e ss)) -> Q ev.
Proof.
  intros HS ss s C. revert ss s C.
  apply (check_ind (fun s ss => forall ev, In ev (fst (exec_list e ss)) -> Q ev)).
  - intros s v OK ev I. cbn in I. contradiction.
  - intros s x s' r OK _ _ IH ev I. apply exec_events_cons in I as [I|[_ I]]; eauto.
Qed.

(* ------------------------------------------------- C12_transpile_only_without_pio *)
Lemma step_same e e' s x s' :
  step_ok s x = Some s' -> same_but_pio e e' -> upload e = false ->
  exec_step e x = exec_step e' x.
Proof.
  intros OK (V & U & F) UF. assert (upload e' = false) as UF' by congruence.
  destruct x; inv_ok OK; cbn; rewrite ?UF, ?UF'; cbn; rewrite ?V, ?F; reflexivity.
Qed.

Lemma exec_same e e' :
  same_but_pio e e' -> upload e = false ->
  forall ss s, check s ss = true -> exec_list e ss = exec_list e' ss.
Proof.
  intros SB UF.
  apply (check_ind (fun s ss => exec_list e ss = exec_list e' ss)).
  - intros s v _. reflexivity.
  - intros s x s' r OK _ _ IH. rewrite !exec_cons, IH, (step_same _ _ _ _ _ OK SB UF). reflexivity.
Qed.

Lemma step_no_run e s x s' ev :
  upload e = false -> step_ok s x = Some s' -> In ev (fst (exec_step e x)) -> is_run ev = false.
Proof.
  intros UF OK I. destruct x; inv_ok OK; cbn in I; rewrite ?UF in I; cbn in I;
    repeat match goal with
    | H : context [if ?c then _ else _] |- _ => destruct c; cbn in H
    end;
    repeat (destruct I as [<-|I]; [reflexivity|]); try contradiction.
Qed.

Lemma transpile_only_without_pio e e' ss :
  shape_ok ss = true -> same_but_pio e e' -> upload e = false ->
  target_run e ss = target_run e' ss /\ (forall ev, In ev (fst (target_run e ss)) -> is_run ev = false).
Proof.
  intros OK SB UF. split.
  - unfold target_run. rewrite (exec_same _ _ SB UF _ _ OK). reflexivity.
  - intros ev I. unfold target_run in I.
    destruct (exec_list e ss) as [evs o] eqn:E. cbn in I.
    eapply (events_all e (fun ev => is_run ev = false)); [| exact OK | rewrite E; exact I].
    intros s x s' ev0 OK0 I0. eapply step_no_run; eauto.
Qed.

(* ------------------------------------------------------------------ C12_upload_iff *)
Lemma step_tool_run_upload e s x s' ev :
  step_ok s x = Some s' -> In ev (fst (exec_step e x)) -> is_tool_run ev = true -> upload e = true.
Proof.
  intros OK I T. destruct (upload e) eqn:UF; [reflexivity|].
  assert (is_run ev = false) as R by (eapply step_no_run; eauto).
  destruct ev; cbn in *; congruence.
Qed.

Lemma tool_run_needs_upload e ss evs res :
  shape_ok ss = true -> target_run e ss = (evs, res) ->
  forall ev, In ev evs -> is_tool_run ev = true -> upload e = true.
Proof.
  intros OK R ev I T. apply run_exec in R as (o & E & _).
  eapply (events_all e (fun ev => is_tool_run ev = true -> upload e = true)); [| exact OK | rewrite E; exact I | exact T].
  intros s x s' ev0 OK0 I0 T0. eapply step_tool_run_upload; eauto.
Qed.

(* for ANY statement list: a failed build is never followed by an upload *)
Lemma build_fault_cases e k :
  build_fault e = Some k ->
  (fault e FBuildExec = true /\ k = OSError) \/
  (fault e FBuildExec = false /\ fault e FBuild = true /\ k = CalledProcessError).
Proof.
  unfold build_fault. destruct (fault e FBuildExec); [intros [= <-]; auto|].
  destruct (fault e FBuild); [intros [= <-]; auto|discriminate].
Qed.

Lemma step_build_fail_no_upload e x ev d k :
  build_fault e = Some k -> In ev (fst (exec_step e x)) -> ev <> RunUpload d.
Proof.
  intros FB I. apply build_fault_cases in FB as [[F1 _]|(F1 & F2 & _)];
  destruct x; cbn in I; rewrite ?F1, ?F2 in I;
    repeat match goal with
    | H : context [if ?c then _ else _] |- _ => destruct c eqn:?; cbn in H
    end;
    repeat (destruct I as [<-|I]; [discriminate|]); try contradiction; congruence.
Qed.

Lemma build_fail_no_upload_k e ss d k :
  build_fault e = Some k -> ~ In (RunUpload d) (fst (exec_list e ss)).
Proof.
  intros FB. induction ss as [|x r IH]; cbn [exec_list]; [cbn; tauto|].
  intro I. change (In (RunUpload d) (fst (exec_list e (x :: r)))) in I.
  apply exec_events_cons in I as [I|[_ I]]; [|tauto].
  eapply step_build_fail_no_upload; eauto.
Qed.

Lemma build_fail_no_upload e ss d :
  build_fault e <> None -> ~ In (RunUpload d) (fst (exec_list e ss)).
Proof.
  intro FB. destruct (build_fault e) as [k|] eqn:B; [|congruence].
  eapply build_fail_no_upload_k; eauto.
Qed.

Lemma step_build_fail_result e s x s' ev0 o0 d k :
  step_ok s x = Some s' -> build_fault e = Some k ->
  exec_step e x = (ev0, o0) -> In (RunBuild d) ev0 -> o0 = Some (Raised k).
Proof.
  intros OK FB EX I.
  destruct x; inv_ok OK; cbn in EX;
    try (repeat match goal with
         | H : context [if ?c then _ else _] |- _ => destruct c eqn:?; cbn in H
         end; injection EX as <- <-; cbn in I; intuition discriminate).
  (* compile_upload *)
  destruct (upload e) eqn:U; cbn in EX.
  - apply build_fault_cases in FB as [[F1 ->]|(F1 & F2 & ->)]; rewrite ?F1, ?F2 in EX; congruence.
  - injection EX as <- <-. contradiction.
Qed.

Lemma build_fail_result e k :
  build_fault e = Some k ->
  forall ss s, check s ss = true ->
  forall evs o d, exec_list e ss = (evs, o) -> In (RunBuild d) evs ->
                  o = Some (Raised k).
Proof.
  intro FB.
  apply (check_ind (fun s ss => forall evs o d, exec_list e ss = (evs, o) ->
                      In (RunBuild d) evs -> o = Some (Raised k))).
  - intros s v _ evs o d E I. cbn in E. injection E as <- <-. contradiction.
  - intros s x s' r OK _ _ IH evs o d E I. rewrite exec_cons in E.
    destruct (exec_step e x) as [ev0 [res|]] eqn:EX.
    + injection E as <- <-. eapply step_build_fail_result; eauto.
    + destruct (exec_list e r) as [ev1 o1] eqn:E1. injection E as <- <-.
      apply in_app_or in I as [I|I].
      * pose proof (step_build_fail_result _ _ _ _ _ _ _ _ OK FB EX I). discriminate.
      * eapply IH; eauto.
Qed.

Lemma step_nofault e s x s' :
  step_ok s x = Some s' -> is_return x = false -> no_fault e ->
  validf e VPlatform VBoard = true -> (upload e = true -> pio e = true) ->
  snd (exec_step e x) = None.
Proof.
  intros OK R NF V HP.
  destruct x; inv_ok OK; cbn; rewrite ?NF, ?V; cbn; try reflexivity; try discriminate R.
  - destruct (upload e) eqn:U; cbn; [rewrite (HP eq_refl)|]; reflexivity.
  - destruct (upload e); reflexivity.
Qed.

Lemma step_built_stays e s x s' ev :
  step_ok s x = Some s' -> k_built s = true ->
  k_built s' = true /\ (In ev (fst (exec_step e x)) -> is_tool_run ev = false).
Proof.
  intros OK B. destruct x; inv_ok OK; cbn; (split; [assumption || reflexivity || congruence|]);
    try congruence; intro I;
    repeat match goal with
    | H : context [if ?c then _ else _] |- _ => destruct c eqn:?; cbn in H
    end;
    repeat (destruct I as [<-|I]; [reflexivity|]); try contradiction.
Qed.

Lemma built_no_tool e :
  forall ss s, check s ss = true -> k_built s = true ->
  forall ev, In ev (fst (exec_list e ss)) -> is_tool_run ev = false.
Proof.
  apply (check_ind (fun s ss => k_built s = true ->
           forall ev, In ev (fst (exec_list e ss)) -> is_tool_run ev = false)).
  - intros s v _ _ ev I. cbn in I. contradiction.
  - intros s x s' r OK _ _ IH B ev I.
    destruct (step_built_stays e _ _ _ ev OK B) as [B' T].
    apply exec_events_cons in I as [I|[_ I]]; auto.
Qed.

Lemma upload_runs_both e :
  no_fault e -> validf e VPlatform VBoard = true -> upload e = true -> pio e = true ->
  forall ss s, check s ss = true -> k_built s = false ->
  exists a c, fst (exec_list e ss) = a ++ RunBuild VTmp :: RunUpload VTmp :: c /\
              (forall ev, In ev (a ++ c) -> is_tool_run ev = false).
Proof.
  intros NF V U Pp.
  apply (check_ind (fun s ss => k_built s = false ->
     exists a c, fst (exec_list e ss) = a ++ RunBuild VTmp :: RunUpload VTmp :: c /\
                 (forall ev, In ev (a ++ c) -> is_tool_run ev = false))).
  - intros s v OK B. inv_ret OK. congruence.
  - intros s x s' r OK R C IH B.
    pose proof (step_nofault e _ _ _ OK R NF V (fun _ => Pp)) as SN.
    rewrite exec_cons. destruct (exec_step e x) as [ev0 o0] eqn:EX. cbn in SN. subst o0.
    destruct (exec_list e r) as [ev1 o1] eqn:E1. cbn [fst] in *.
    destruct x; try discriminate R.
    all: try (inv_ok OK; cbn in EX; rewrite ?NF, ?V, ?U, ?Pp in EX; cbn in EX;
              rewrite ?NF, ?Pp in EX; cbn in EX; injection EX as <-;
              destruct (IH B) as (a & c & -> & T);
              first [ exists a, c; split; [reflexivity|exact T]
                    | eexists (_ :: a), c; split; [reflexivity|];
                      intros ev [<-|I]; [reflexivity|auto]
                    | eexists (_ :: _ :: _ :: a), c; split; [reflexivity|];
                      intros ev [<-|[<-|[<-|I]]]; try reflexivity; auto ]).
    (* compile_upload: this is the step that runs both *)
    inv_ok OK. cbn in EX. rewrite U in EX. cbn in EX.
    rewrite !NF in EX. injection EX as <-.
    exists [], ev1. split; [reflexivity|]. cbn. intros ev I.
    eapply (built_no_tool e r); eauto. rewrite E1. exact I.
Qed.

(* ------------------------------------------------------ C12_no_write_before_checks *)
(* what must hold of the events [pre] that precede a write *)
Definition wq (e : env) (pre : list event) : Prop :=
  validf e VPlatform VBoard = true /\
  (upload e = true -> pio e = true /\ In RunPioVersion pre) /\
  fault e FParse = false /\ In Parse pre.

Lemma wq_mono e pre l : wq e pre -> wq e (pre ++ l).
Proof.
  intros (V & U & F & I). repeat split; auto.
  - apply U; assumption.
  - apply in_or_app. left. apply U; assumption.
  - apply in_or_app. auto.
Qed.

(* every write event of [evs] has a [hev ++ prefix] satisfying Q *)
Fixpoint guarded (Q : list event -> Prop) (hev evs : list event) : Prop :=
  match evs with
  | [] => True
  | ev :: r => (is_write ev = true -> Q hev) /\ guarded Q (hev ++ [ev]) r
  end.

Lemma guarded_app Q a : forall hev b,
  guarded Q hev a -> guarded Q (hev ++ a) b -> guarded Q hev (a ++ b).
Proof.
  induction a as [|x a IH]; intros hev b Ga Gb; cbn in *.
  - rewrite app_nil_r in Gb. exact Gb.
  - destruct Ga as [G1 G2]. split; [exact G1|]. apply IH; [exact G2|].
    rewrite <- app_assoc. exact Gb.
Qed.

Lemma guarded_split Q evs : forall hev pre w post,
  guarded Q hev evs -> evs = pre ++ w :: post -> is_write w = true -> Q (hev ++ pre).
Proof.
  induction evs as [|x r IH]; intros hev pre w post G E W.
  - destruct pre; discriminate.
  - destruct pre as [|p pre]; cbn in E; injection E as -> ->.
    + rewrite app_nil_r. apply G. exact W.
    + destruct G as [_ G]. specialize (IH _ _ _ _ G eq_refl W).
      rewrite <- app_assoc in IH. exact IH.
Qed.

Lemma guarded_nonwrite Q evs : forall hev,
  (forall ev, In ev evs -> is_write ev = false) -> guarded Q hev evs.
Proof.
  induction evs as [|x r IH]; intros hev H; cbn; [exact I|]. split.
  - intro W. rewrite (H x (or_introl eq_refl)) in W. discriminate.
  - apply IH. intros ev I. apply H. right. exact I.
Qed.

Lemma guarded_mono e evs : forall hev, wq e hev -> guarded (wq e) hev evs.
Proof.
  induction evs as [|x r IH]; intros hev H; cbn; [exact I|]. split; [auto|].
  apply IH. apply wq_mono. exact H.
Qed.

Definition established (e : env) (s : sst) (hev : list event) : Prop :=
  hist e s /\
  (k_pio s = true -> upload e = true -> In RunPioVersion hev) /\
  (k_prog s = true -> In Parse hev).

Lemma established0 e : established e st0 [].
Proof. split; [apply hist0|]. split; cbn; discriminate. Qed.

Lemma est_step e s x s' hev ev0 :
  step_ok s x = Some s' -> established e s hev -> exec_step e x = (ev0, None) ->
  established e s' (hev ++ ev0).
Proof.
  intros OK (Hh & Hp & Hq) EX. split; [eapply hist_step; eauto|].
  destruct x; inv_ok OK; cbn in *;
    repeat match goal with
    | H : context [if ?c then _ else _] |- _ => destruct c eqn:?; cbn in H
    end;
    try discriminate EX; injection EX as <-;
    (split; [intros A B; apply in_or_app | intro A; apply in_or_app]);
    cbn; auto; try congruence.
Qed.

Lemma step_guarded e s x s' hev :
  step_ok s x = Some s' -> established e s hev ->
  (forall ev, In ev (fst (exec_step e x)) -> is_write ev = false) \/ wq e hev.
Proof.
  intros OK ((Hv & Hp & Hf) & Hq & Hr).
  destruct x; inv_ok OK;
    try (left; intros ev I; cbn in I;
         repeat match goal with
         | H : context [if ?c then _ else _] |- _ => destruct c eqn:?; cbn in H
         end;
         repeat (destruct I as [<-|I]; [reflexivity|]); contradiction);
    right; repeat split; auto.
Qed.

Lemma writes_guarded e :
  forall ss s, check s ss = true -> forall hev, established e s hev ->
  guarded (wq e) hev (fst (exec_list e ss)).
Proof.
  apply (check_ind (fun s ss => forall hev, established e s hev ->
                      guarded (wq e) hev (fst (exec_list e ss)))).
  - intros s v _ hev _. cbn. exact I.
  - intros s x s' r OK _ _ IH hev Es.
    assert (guarded (wq e) hev (fst (exec_step e x))) as G0.
    { destruct (step_guarded _ _ _ _ _ OK Es) as [NW|Q];
        [apply guarded_nonwrite; exact NW | apply guarded_mono; exact Q]. }
    rewrite exec_cons. destruct (exec_step e x) as [ev0 [res|]] eqn:EX; cbn [fst] in *; [exact G0|].
    destruct (exec_list e r) as [ev1 o1] eqn:E1. cbn [fst] in *.
    apply guarded_app; [exact G0|]. apply IH. eapply est_step; eauto.
Qed.

Lemma no_write_before_checks e ss evs res pre w post :
  shape_ok ss = true -> target_run e ss = (evs, res) -> evs = pre ++ w :: post -> is_write w = true ->
  wq e pre.
Proof.
  intros OK R E W. apply run_exec in R as (o & EX & _).
  pose proof (writes_guarded e _ _ OK [] (established0 e)) as G. rewrite EX in G. cbn [fst] in G.
  exact (guarded_split _ _ _ _ _ _ G E W).
Qed.

(* ------------------------------------------------------------ C12_failure_propagates *)
Definition fault_free (e : env) (l : list event) : Prop := forall ev, In ev l -> ev_fault e ev = None.

(* an outcome is either free of failing attempts, or ends at the first failing attempt
   with that attempt's exception *)
Inductive outcome_shape (e : env) : list event -> option result -> Prop :=
| OS_clean evs o : fault_free e evs -> outcome_shape e evs o
| OS_fault pre last k : fault_free e pre -> ev_fault e last = Some k ->
                        outcome_shape e (pre ++ [last]) (Some (Raised k)).

Ltac ff_solve :=
  intros ? I; cbn in I;
  repeat (destruct I as [<-|I];
          [cbn; repeat match goal with H : ?a = _ |- context [?a] => rewrite H end; reflexivity|]);
  contradiction.

Ltac os_solve e :=
  first
  [ apply OS_clean; ff_solve
  | match goal with |- outcome_shape _ [?a] _ =>
      apply (OS_fault e [] a); [ff_solve | cbn; repeat match goal with H : ?x = _ |- context [?x] => rewrite H end; reflexivity] end
  | match goal with |- outcome_shape _ [?a; ?b] _ =>
      apply (OS_fault e [a] b); [ff_solve | cbn; repeat match goal with H : ?x = _ |- context [?x] => rewrite H end; reflexivity] end
  | match goal with |- outcome_shape _ [?a; ?b; ?c] _ =>
      apply (OS_fault e [a; b] c); [ff_solve | cbn; repeat match goal with H : ?x = _ |- context [?x] => rewrite H end; reflexivity] end ].

Definition step_wraps (x : step) : bool :=
  match x with SEnsurePio _ h => handlers_wrap h | _ => true end.

Lemma step_outcome e x :
  step_wraps x = true -> outcome_shape e (fst (exec_step e x)) (snd (exec_step e x)).
Proof.
  intro W. destruct x; cbn in W; cbn;
    try rewrite (wrap_kind _ (pio_how e) W);
    repeat match goal with
    | |- context [if ?c then _ else _] => destruct c eqn:?; cbn
    end; os_solve e.
Qed.

Lemma fault_free_app e a b : fault_free e a -> fault_free e b -> fault_free e (a ++ b).
Proof. intros A B ev I. apply in_app_or in I as [I|I]; auto. Qed.

Lemma list_outcome e ss :
  wraps_all ss = true -> outcome_shape e (fst (exec_list e ss)) (snd (exec_list e ss)).
Proof.
  induction ss as [|x r IH]; intro W; [apply OS_clean; intros ev []|].
  unfold wraps_all in W. cbn [forallb] in W. apply andb_true_iff in W as [Wx Wr].
  specialize (IH Wr).
  rewrite exec_cons. pose proof (step_outcome e x Wx) as S.
  destruct (exec_step e x) as [ev0 [res|]]; cbn [fst snd] in *; [exact S|].
  destruct (exec_list e r) as [ev1 o1]; cbn [fst snd] in *.
  assert (fault_free e ev0) as F0.
  { inversion S; subst; assumption. }
  inversion IH; subst.
  - apply OS_clean. apply fault_free_app; assumption.
  - rewrite app_assoc. apply OS_fault; [apply fault_free_app; assumption|assumption].
Qed.

(* well-formed shapes wrap *)
Lemma check_wraps : forall ss s, check s ss = true -> wraps_all ss = true.
Proof.
  apply (check_ind (fun s ss => wraps_all ss = true)).
  - intros s v _. reflexivity.
  - intros s x s' r OK _ _ IH. unfold wraps_all. cbn [forallb]. apply andb_true_iff. split; [|exact IH].
    destruct x; try reflexivity. inv_ok OK. assumption.
Qed.

Lemma snoc_split {A} (pre : list A) : forall last pre' x post,
  pre ++ [last] = pre' ++ x :: post -> (post = [] /\ x = last) \/ In x pre.
Proof.
  induction pre as [|p pre IH]; intros last pre' x post E.
  - destruct pre' as [|q pre']; cbn in E.
    + injection E as <- <-. auto.
    + injection E as _ E. destruct pre'; discriminate.
  - destruct pre' as [|q pre']; cbn in E; injection E as -> E.
    + right. left. reflexivity.
    + apply IH in E as [E|E]; [left; exact E|right; right; exact E].
Qed.

(* for ANY statement list *)
Lemma failure_propagates e ss evs res pre ev post k :
  wraps_all ss = true ->
  target_run e ss = (evs, res) -> evs = pre ++ ev :: post -> ev_fault e ev = Some k ->
  post = [] /\ res = Raised k.
Proof.
  intros W R E F. apply run_exec in R as (o & EX & ->).
  pose proof (list_outcome e ss W) as S. rewrite EX in S. cbn [fst snd] in S.
  inversion S as [evs' o' FF | pre0 last k0 FF FL]; subst.
  - rewrite (FF ev) in F; [discriminate|]. apply in_or_app. right. left. reflexivity.
  - match goal with H : _ ++ [_] = _ ++ _ :: _ |- _ => apply snoc_split in H as [[-> ->]|I] end.
    + split; [reflexivity|]. congruence.
    + rewrite (FF ev I) in F. discriminate.
Qed.

(* conversely, on well-formed shapes every exception has such a cause, except the
   rejection of the platform/board pair *)
Lemma step_raise_cause e s x s' ev0 k :
  step_ok s x = Some s' -> hist e s -> k_validated s = true ->
  exec_step e x = (ev0, Some (Raised k)) ->
  exists pre last, ev0 = pre ++ [last] /\ ev_fault e last = Some k.
Proof.
  intros OK (Hv & Hp & Hf) KV EX.
  destruct x; inv_ok OK; cbn in EX; rewrite ?(Hv KV) in EX; cbn in EX;
    repeat match goal with
    | H : context [if ?c then _ else _] |- _ => destruct c eqn:?; cbn in H
    end; try discriminate EX; injection EX as <- <-;
    first [ exists []; eexists; split; [reflexivity|]
          | eexists [_]; eexists; split; [reflexivity|]
          | eexists [_; _]; eexists; split; [reflexivity|] ];
    cbn; repeat match goal with H : ?a = _ |- context [?a] => rewrite H end;
    try match goal with W : handlers_wrap ?h = true |- _ => rewrite (wrap_kind h (pio_how e) W) end;
    reflexivity.
Qed.

Lemma raised_has_cause e :
  forall ss s, check s ss = true -> hist e s -> k_validated s = true ->
  forall evs k, exec_list e ss = (evs, Some (Raised k)) ->
  exists pre last, evs = pre ++ [last] /\ ev_fault e last = Some k.
Proof.
  apply (check_ind (fun s ss => hist e s -> k_validated s = true ->
     forall evs k, exec_list e ss = (evs, Some (Raised k)) ->
     exists pre last, evs = pre ++ [last] /\ ev_fault e last = Some k)).
  - intros s v _ _ _ evs k E. cbn in E. discriminate.
  - intros s x s' r OK _ _ IH Hh KV evs k E. rewrite exec_cons in E.
    destruct (exec_step e x) as [ev0 [res|]] eqn:EX.
    + injection E as <- ->. eapply step_raise_cause; eauto.
    + destruct (exec_list e r) as [ev1 o1] eqn:E1. injection E as <- ->.
      assert (k_validated s' = true) as KV'.
      { destruct x; inv_ok OK; cbn; congruence. }
      destruct (IH (hist_step _ _ _ _ _ OK Hh EX) KV' _ _ eq_refl) as (pre & last & -> & F).
      exists (ev0 ++ pre), last. rewrite app_assoc. auto.
Qed.

Lemma raise_cause e ss evs k :
  shape_ok ss = true -> target_run e ss = (evs, Raised k) ->
  (evs = [] /\ k = ValueError /\ validf e VPlatform VBoard = false) \/
  (exists pre last, evs = pre ++ [last] /\ ev_fault e last = Some k).
Proof.
  intros OK R. destruct (validf e VPlatform VBoard) eqn:V.
  - right. destruct (shape_head _ OK) as (h & r & s2 & -> & W & C & ->).
    apply run_exec in R as (o & EX & RES).
    destruct o as [[v|k'|]|]; try discriminate RES. injection RES as <-.
    rewrite exec_cons in EX. cbn [exec_step] in EX. rewrite V in EX.
    destruct (exec_list e (SEnsurePio GIfUpload h :: r)) as [ev1 o1] eqn:E1.
    cbn in EX. injection EX as Eevs Eo. subst evs o1.
    refine (raised_has_cause e (SEnsurePio GIfUpload h :: r) (set_validated st0) _ _ _ ev1 k E1).
    + cbn [check step_ok]. cbn [guard_eqb set_validated st0 k_validated k_pio andb negb].
      rewrite W. cbn. exact C.
    + repeat split; cbn; auto; discriminate.
    + reflexivity.
  - left. rewrite (validate_first _ _ OK V) in R. injection R as <- <-. auto.
Qed.

(* -------------------------------------------------------------- C12_returns_emitted *)
Lemma step_no_return e x v : is_return x = false -> snd (exec_step e x) <> Some (Returned v).
Proof.
  intro R. destruct x; cbn; try discriminate R;
    repeat match goal with
    | |- context [if ?c then _ else _] => destruct c; cbn
    end; discriminate.
Qed.

Definition ini_ev : event := WriteIni VPort VPlatform VBoard VLibs.

Lemma step_progress e s x s' ev0 :
  step_ok s x = Some s' -> exec_step e x = (ev0, None) ->
  (k_cpp s = false -> k_cpp s' = false \/ In Emit ev0) /\
  (k_written s = false -> k_written s' = false \/ (In (WriteMain VCpp) ev0 /\ In ini_ev ev0)).
Proof.
  intros OK EX. unfold ini_ev.
  destruct x; inv_ok OK; cbn in *;
    repeat match goal with
    | H : context [if ?c then _ else _] |- _ => destruct c eqn:?; cbn in H
    end; try discriminate EX; injection EX as <-; cbn; auto 7.
Qed.

Lemma returned_emitted e :
  forall ss s, check s ss = true ->
  forall evs v, exec_list e ss = (evs, Some (Returned v)) ->
  v = VCpp /\ (k_cpp s = false -> In Emit evs) /\
  (k_written s = false -> In (WriteMain VCpp) evs /\ In ini_ev evs).
Proof.
  apply (check_ind (fun s ss => forall evs v, exec_list e ss = (evs, Some (Returned v)) ->
    v = VCpp /\ (k_cpp s = false -> In Emit evs) /\
    (k_written s = false -> In (WriteMain VCpp) evs /\ In ini_ev evs))).
  - intros s v OK evs v' E. cbn in E. injection E as <- <-. inv_ret OK.
    repeat split; congruence.
  - intros s x s' r OK R _ IH evs v E. rewrite exec_cons in E.
    destruct (exec_step e x) as [ev0 [res|]] eqn:EX.
    + injection E as <- ->. exfalso. apply (step_no_return e x v R). rewrite EX. reflexivity.
    + destruct (exec_list e r) as [ev1 o1] eqn:E1. injection E as <- ->.
      destruct (IH _ _ eq_refl) as (-> & IC & IW).
      destruct (step_progress _ _ _ _ _ OK EX) as (PC & PW).
      split; [reflexivity|]. split.
      * intro KC. apply in_or_app. destruct (PC KC) as [KC'|I]; auto.
      * intro KW. destruct (PW KW) as [KW'|[I1 I2]].
        -- destruct (IW KW') as [J1 J2]. split; apply in_or_app; auto.
        -- split; apply in_or_app; auto.
Qed.

Lemma nofault_returns e :
  no_fault e -> validf e VPlatform VBoard = true -> (upload e = true -> pio e = true) ->
  forall ss s, check s ss = true -> snd (exec_list e ss) = Some (Returned VCpp).
Proof.
  intros NF V HP.
  apply (check_ind (fun s ss => snd (exec_list e ss) = Some (Returned VCpp))).
  - intros s v OK. inv_ret OK. reflexivity.
  - intros s x s' r OK R _ IH. rewrite exec_cons.
    pose proof (step_nofault e _ _ _ OK R NF V HP) as SN.
    destruct (exec_step e x) as [ev0 o0]. cbn in SN. subst o0.
    destruct (exec_list e r) as [ev1 o1]. exact IH.
Qed.

Lemma never_falls_off e :
  forall ss s, check s ss = true -> snd (exec_list e ss) <> None.
Proof.
  apply (check_ind (fun s ss => snd (exec_list e ss) <> None)).
  - intros s v _. cbn. discriminate.
  - intros s x s' r _ _ _ IH. rewrite exec_cons.
    destruct (exec_step e x) as [ev0 [res|]]; [cbn; discriminate|].
    destruct (exec_list e r) as [ev1 o1]. exact IH.
Qed.

Lemma step_not_felloff e x : snd (exec_step e x) <> Some FellOff.
Proof.
  destruct x; cbn;
    repeat match goal with
    | |- context [if ?c then _ else _] => destruct c; cbn
    end; discriminate.
Qed.

Lemma exec_not_felloff e ss : snd (exec_list e ss) <> Some FellOff.
Proof.
  induction ss as [|x r IH]; [cbn; discriminate|]. rewrite exec_cons.
  pose proof (step_not_felloff e x) as S.
  destruct (exec_step e x) as [ev0 [res|]]; [exact S|].
  destruct (exec_list e r) as [ev1 o1]. exact IH.
Qed.

Lemma returns_emitted e ss evs res :
  shape_ok ss = true -> target_run e ss = (evs, res) ->
  (forall v, res = Returned v ->
     v = VCpp /\ In Emit evs /\ In (WriteMain VCpp) evs /\ In ini_ev evs) /\
  (no_fault e -> validf e VPlatform VBoard = true -> (upload e = true -> pio e = true) ->
     res = Returned VCpp) /\
  res <> FellOff.
Proof.
  intros OK R. apply run_exec in R as (o & EX & ->). split; [|split].
  - intros v Hv. destruct o as [[v'|k|]|]; try discriminate Hv. injection Hv as ->.
    destruct (returned_emitted e _ _ OK _ _ EX) as (-> & IC & IW).
    destruct (IW eq_refl) as [I1 I2]. repeat split; auto.
  - intros NF V HP. pose proof (nofault_returns e NF V HP _ _ OK) as N.
    rewrite EX in N. cbn in N. subst o. reflexivity.
  - pose proof (never_falls_off e _ _ OK) as N. rewrite EX in N. cbn in N.
    pose proof (exec_not_felloff e ss) as M. rewrite EX in M. cbn in M.
    destruct o as [[v'|k|]|]; congruence.
Qed.

(* ------------------------------------------------------------------- C12_writes_exact *)
Definition ev_exact (ev : event) : Prop :=
  match ev with
  | Mkdir d | RunBuild d | RunUpload d => d = VTmp
  | WriteMain t => t = VCpp
  | WriteIni po pl b l => po = VPort /\ pl = VPlatform /\ b = VBoard /\ l = VLibs
  | _ => True
  end.

Lemma step_exact e s x s' ev :
  step_ok s x = Some s' -> In ev (fst (exec_step e x)) -> ev_exact ev.
Proof.
  intros OK I. destruct x; inv_ok OK; cbn in I;
    repeat match goal with
    | H : context [if ?c then _ else _] |- _ => destruct c; cbn in H
    end;
    repeat (destruct I as [<-|I]; [cbn; auto|]); try contradiction.
Qed.

Lemma writes_exact e ss evs res :
  shape_ok ss = true -> target_run e ss = (evs, res) -> forall ev, In ev evs -> ev_exact ev.
Proof.
  intros OK R ev I. apply run_exec in R as (o & EX & _).
  eapply (events_all e ev_exact); [| exact OK | rewrite EX; exact I].
  intros s x s' ev0 OK0 I0. eapply step_exact; eauto.
Qed.

(* ------------------------------------------------ the defect of the pinned shape *)
Definition env_of (valid up pi : bool) (flt : fpoint -> bool) : env :=
  {| validf := fun _ _ => valid; upload := up; pio := pi; pio_how := PNotFound; fault := flt |}.

(* the same with the way the probe fails spelled out *)
Definition env_how (valid up : bool) (how : pfail) (flt : fpoint -> bool) : env :=
  {| validf := fun _ _ => valid; upload := up; pio := false; pio_how := how; fault := flt |}.

(* ------------------------------------------ the narrowed except clauses do not wrap *)
Lemma narrow_not_ok : shape_ok shape_narrow = false /\ handlers_wrap handlers_narrow = false.
Proof. vm_compute. split; reflexivity. Qed.

(* upload requested, a `pio` on PATH that cannot be executed: the raw OSError escapes,
   although an absent pio and a pio exiting non-zero are still RuntimeError *)
Lemma narrow_refuted :
  exists e, validf e VPlatform VBoard = true /\ upload e = true /\ pio e = false /\
    target_run e shape_narrow = ([RunPioVersion], Raised OSError) /\
    target_run (env_how true true PNotFound (fun _ => false)) shape_narrow = ([RunPioVersion], Raised RuntimeError) /\
    target_run (env_how true true PExit (fun _ => false)) shape_narrow = ([RunPioVersion], Raised RuntimeError).
Proof. exists (env_how true true PPerm (fun _ => false)). repeat split. Qed.

(* the wrapping predicate is exact: it holds iff every probe failure becomes RuntimeError *)
Lemma handlers_wrap_iff h :
  handlers_wrap h = true <-> forall f, ensure_kind h f = RuntimeError.
Proof.
  split; [intros W f; apply wrap_kind; exact W|].
  intro H. unfold handlers_wrap. apply forallb_forall. intros f _. rewrite H. reflexivity.
Qed.

(* on a well-formed shape the exception of a failing probe does not depend on HOW it fails *)
Lemma missing_pio_any_cause e ss :
  shape_ok ss = true -> validf e VPlatform VBoard = true -> upload e = true -> pio e = false ->
  forall how, target_run {| validf := validf e; upload := upload e; pio := false; pio_how := how; fault := fault e |} ss
              = ([RunPioVersion], Raised RuntimeError).
Proof.
  intros OK V U Pp how. apply missing_pio_with_upload; auto.
Qed.

Lemma pinned_refuted :
  exists e e', same_but_pio e e' /\ upload e = false /\
    target_run e shape_pinned = ([RunPioVersion], Raised RuntimeError) /\
    target_run e' shape_pinned =
      ([RunPioVersion; ReadMain; Parse; Emit; Mkdtemp; Mkdir VTmp; WriteMain VCpp; ini_ev],
       Returned VCpp).
Proof.
  exists (env_of true false false (fun _ => false)), (env_of true false true (fun _ => false)).
  repeat split.
Qed.

Lemma pinned_not_ok : shape_ok shape_pinned = false.
Proof. vm_compute. reflexivity. Qed.

Lemma repaired_ok : shape_ok shape_repaired = true.
Proof. vm_compute. reflexivity. Qed.

(* ------------------------------------------------------- C12_upload_iff, assembled *)
Lemma upload_iff e ss evs res :
  shape_ok ss = true -> target_run e ss = (evs, res) ->
  (forall ev, In ev evs -> is_tool_run ev = true -> upload e = true) /\
  (upload e = true -> pio e = true -> validf e VPlatform VBoard = true -> no_fault e ->
     exists a c, evs = a ++ RunBuild VTmp :: RunUpload VTmp :: c /\
                 (forall ev, In ev (a ++ c) -> is_tool_run ev = false)) /\
  (forall k, build_fault e = Some k ->
     (forall d, ~ In (RunUpload d) evs) /\
     (forall d, In (RunBuild d) evs -> res = Raised k)).
Proof.
  intros OK R. split; [|split].
  - eapply tool_run_needs_upload; eauto.
  - intros U Pp V NF. apply run_exec in R as (o & EX & _).
    destruct (upload_runs_both e NF V U Pp _ _ OK eq_refl) as (a & c & E & T).
    rewrite EX in E. cbn in E. eauto.
  - intros k FB. apply run_exec in R as (o & EX & ->). split.
    + intros d I. apply (build_fail_no_upload_k e ss d k FB). rewrite EX. exact I.
    + intros d I. rewrite (build_fail_result e k FB _ _ OK _ _ _ EX I). reflexivity.
Qed.

(* an upload that cannot be started / exits non-zero after a good build: its error is the result *)
Lemma upload_fault_result e ss evs res pre d post k :
  shape_ok ss = true -> target_run e ss = (evs, res) -> evs = pre ++ RunUpload d :: post ->
  ev_fault e (RunUpload d) = Some k -> post = [] /\ res = Raised k.
Proof.
  intros OK R E F. eapply failure_propagates; eauto. eapply check_wraps; exact OK.
Qed.
