(* Unit C01_expr: the repair of F-C01-strlit-concat (F-C06-literal-concat) and F-C01-int-strlit-cond.
   `+` of two expressions that are emitted as C string literals (or as a choice between two) gets a String(...) around
   its left operand; int() / float() of such an expression is emitted as String(...).toInt() / .toFloat(). *)
From Coq Require Import ZArith QArith List Bool Lia.
From RV Require Import Base.Wire Base.Text Lang.PyAst Lang.PySem Lang.CAst Lang.CSem Lang.ToC Gen.OpTables Proofs.ToCP Proofs.ToCPres.
Import ListNotations.
Open Scope Z_scope.

(* such an expression, when its translation is well typed, has the C++ type const char* ... *)
Lemma charp_src_charp G e : forall c t, charp_src e = true -> to_c G e = TOk c -> ctype (tc_types G) c = Some t -> t = TCharP.
Proof.
  induction e using pexpr_ind'; intros c0 ty0 Hc Ht Hty; try discriminate Hc.
  - cbn in Ht. inversion Ht; subst c0. cbn in Hty. destruct (lit_ok s); inversion Hty. reflexivity.
  - cbn [charp_src] in Hc. apply andb_true_iff in Hc as [Ha Hb].
    cbn [to_c] in Ht. apply tbind_ok in Ht as (c' & Hc' & Ht). apply tbind_ok in Ht as (a' & Ha' & Ht).
    apply tbind_ok in Ht as (b' & Hb' & Ht). inversion Ht; subst c0. cbn [ctype] in Hty.
    destruct (ctype (tc_types G) c') as [tc|]; [|discriminate Hty].
    destruct (ctype (tc_types G) a') as [ta|] eqn:Eta; [|discriminate Hty].
    destruct (ctype (tc_types G) b') as [tb|] eqn:Etb; [|discriminate Hty].
    destruct (truthable tc); [|discriminate Hty].
    match goal with IH : forall c t, charp_src ?a = true -> to_c G ?a = TOk c -> _ |- _ =>
      match type of Ha' with to_c G a = _ => pose proof (IH _ _ Ha Ha' Eta) end end.
    match goal with IH : forall c t, charp_src ?b = true -> to_c G ?b = TOk c -> _ |- _ =>
      match type of Hb' with to_c G b = _ => pose proof (IH _ _ Hb Hb' Etb) end end.
    subst ta tb. cbn in Hty. inversion Hty. reflexivity.
  - cbn [charp_src] in Hc. apply negb_true_iff in Hc. cbn [to_c] in Ht. rewrite Hc in Ht. inversion Ht; subst c0.
    cbn in Hty. destruct (lit_ok (lit_parts ps)); inversion Hty. reflexivity.
Qed.

(* ... and the type inference of the transpiler labels it String *)
Lemma charp_src_infer G e : charp_src e = true -> infer G e = Some LString.
Proof.
  induction e using pexpr_ind'; intro Hc; try discriminate Hc; try reflexivity.
  cbn [charp_src] in Hc. apply andb_true_iff in Hc as [Ha Hb]. cbn [infer].
  match goal with IH : charp_src ?a = true -> _ |- context [infer G ?a] => rewrite (IH Ha) end.
  match goal with IH : charp_src ?b = true -> _ |- context [infer G ?b] => rewrite (IH Hb) end.
  reflexivity.
Qed.

(* the translation of  <literal-like> + <literal-like> : String(a) + b *)
Lemma strlit_concat_wrapped G a b a' b' :
  charp_src a = true -> charp_src b = true -> to_c G a = TOk a' -> to_c G b = TOk b' ->
  to_c G (EBin Add a b) = TOk (CBin t_plus (CString a') b').
Proof.
  intros Ca Cb Ha Hb. cbn [to_c add_wrap]. rewrite Ca, Cb, Ha, Hb. cbn [tbind andb].
  destruct (bin_tok Add) eqn:Et; [|vm_compute in Et; discriminate Et].
  destruct (bin_form Add) as [[kind tok]|] eqn:Ef; [|vm_compute in Ef; discriminate Ef].
  vm_compute in Ef. inversion Ef; subst. reflexivity.
Qed.

(* it is well typed, a String, whenever its operands are *)
Lemma strlit_concat_typed G a b c :
  charp_src a = true -> charp_src b = true -> wt G a = true -> wt G b = true ->
  to_c G (EBin Add a b) = TOk c -> ctype (tc_types G) c = Some TString.
Proof.
  intros Ca Cb Wa Wb Ht. unfold wt, sty in Wa, Wb.
  destruct (to_c G a) as [a'| |] eqn:Ha; try discriminate Wa. destruct (to_c G b) as [b'| |] eqn:Hb; try discriminate Wb.
  destruct (ctype (tc_types G) a') as [ta|] eqn:Eta; [|discriminate Wa].
  destruct (ctype (tc_types G) b') as [tb|] eqn:Etb; [|discriminate Wb].
  rewrite (strlit_concat_wrapped G a b a' b' Ca Cb Ha Hb) in Ht. inversion Ht; subst c.
  pose proof (charp_src_charp G b b' tb Cb Hb Etb). subst tb.
  cbn [ctype]. rewrite Eta, Etb. reflexivity.
Qed.

(* and it is inside the guard of the preservation theorem whenever its operands are (before the repair the clause
   "not both operands of C type const char*" of bin_guard excluded exactly these) *)
Lemma strlit_concat_in_guard G rho a b x y :
  charp_src a = true -> charp_src b = true -> wt G a = true -> wt G b = true ->
  expr_guard G rho a = true -> expr_guard G rho b = true ->
  peval rho a = Ok (VStr x) -> peval rho b = Ok (VStr y) ->
  expr_guard G rho (EBin Add a b) = true.
Proof.
  intros Ca Cb Wa Wb Ga Gb Pa Pb. cbn [expr_guard add_wrap]. rewrite Ga, Gb, Ca, Cb. unfold pv. rewrite Pa, Pb.
  unfold wt in Wa, Wb. destruct (sty G a); [|discriminate Wa]. destruct (sty G b); [|discriminate Wb].
  reflexivity.
Qed.

(* int(<literal-like>) / float(<literal-like>) : String(a).toInt() / String(a).toFloat() *)
Lemma num_of_strlit_wrapped G (fl : bool) a a' :
  charp_src a = true -> to_c G a = TOk a' ->
  to_c G (ECall (if fl then n_float else n_int) [a] []) = TOk (CToNum fl true a').
Proof.
  intros Ca Ha. destruct fl; cbn [to_c];
    repeat match goal with
           | |- context [text_eqb ?p ?q] => let r := eval vm_compute in (text_eqb p q) in change (text_eqb p q) with r
           end; cbn [orb andb negb]; rewrite Ha; cbn [tbind]; rewrite (charp_src_infer G a Ca), Ca; reflexivity.
Qed.

(* well typed (an int) whenever the argument is *)
Lemma int_of_strlit_typed G a c :
  charp_src a = true -> wt G a = true -> to_c G (ECall n_int [a] []) = TOk c -> ctype (tc_types G) c = Some TInt.
Proof.
  intros Ca Wa Ht. unfold wt, sty in Wa. destruct (to_c G a) as [a'| |] eqn:Ha; try discriminate Wa.
  destruct (ctype (tc_types G) a') as [ta|] eqn:Eta; [|discriminate Wa].
  rewrite (num_of_strlit_wrapped G false a a' Ca Ha) in Ht. inversion Ht; subst c.
  pose proof (charp_src_charp G a a' ta Ca Ha Eta). subst ta. cbn [ctype]. rewrite Eta. reflexivity.
Qed.
