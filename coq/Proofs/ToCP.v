(* Proofs for unit C01_expr: the generated operator tables are the ones the C semantics
   understands; each C operator agrees with the Python operator it stands for under
   op_guard; value preservation of to_c by induction over expressions. *)
From Coq Require Import ZArith QArith Qround Qabs List Bool Lia.
From RV Require Import Base.Wire Base.Text Lang.PyAst Lang.PySem Lang.CAst Lang.CSem Lang.ToC Gen.OpTables.
Import ListNotations.
Open Scope Z_scope.

(* ------------------------------------------------------------------ *)
(* generic helpers                                                      *)
(* ------------------------------------------------------------------ *)
Lemma tbind_ok {A B} (r : tres A) (f : A -> tres B) c :
  tbind r f = TOk c -> exists x, r = TOk x /\ f x = TOk c.
Proof. destruct r; cbn; intro H; try discriminate. eauto. Qed.

Lemma bind_ok {A B} (r : res A) (f : A -> res B) v :
  bind r f = Ok v -> exists x, r = Ok x /\ f x = Ok v.
Proof. destruct r; cbn; intro H; try discriminate. eauto. Qed.

Lemma assoc_in {A} (code : A -> Z) k l t :
  assoc code k l = Some t -> exists k', In (k', t) l /\ code k = code k'.
Proof.
  induction l as [|[k' t'] r IH]; cbn; [discriminate|].
  destruct (code k =? code k') eqn:E.
  - intro H; inversion H; subst. apply Z.eqb_eq in E. exists k'. auto.
  - intro H. destruct (IH H) as (k2 & Hin & Hc). exists k2. auto.
Qed.

Lemma binop_code_inj a b : binop_code a = binop_code b -> a = b.
Proof. destruct a, b; cbn; intro H; try reflexivity; discriminate. Qed.
Lemma unop_code_inj a b : unop_code a = unop_code b -> a = b.
Proof. destruct a, b; cbn; intro H; try reflexivity; discriminate. Qed.
Lemma cmpop_code_inj a b : cmpop_code a = cmpop_code b -> a = b.
Proof. destruct a, b; cbn; intro H; try reflexivity; discriminate. Qed.

Lemma bin_tok_in op tok : bin_tok op = Some tok -> In (op, tok) OpTables.bin.
Proof. intro H. apply assoc_in in H as (k & Hin & Hc). apply binop_code_inj in Hc. subst. exact Hin. Qed.
Lemma un_tok_in op tok : un_tok op = Some tok -> In (op, tok) OpTables.un.
Proof. intro H. apply assoc_in in H as (k & Hin & Hc). apply unop_code_inj in Hc. subst. exact Hin. Qed.
Lemma cmp_tok_in op tok : cmp_tok op = Some tok -> In (op, tok) OpTables.cmp.
Proof. intro H. apply assoc_in in H as (k & Hin & Hc). apply cmpop_code_inj in Hc. subst. exact Hin. Qed.

(* ------------------------------------------------------------------ *)
(* the generated tables, checked by reflection                          *)
(* ------------------------------------------------------------------ *)
(* which C++ operator a Python operator has to become *)
Definition kop (op : binop) : option cbop :=
  match op with
  | Add => Some KAdd | Sub => Some KSub | Mult => Some KMul
  | Div => Some KDiv | FloorDiv => Some KDiv            (* inside op_guard only *)
  | Mod => Some KMod
  | BitAnd => Some KBand | BitOr => Some KBor | BitXor => Some KBxor
  | LShift => Some KShl | RShift => Some KShr
  | Pow | MatMult => None                                (* op_guard is false: nothing to show *)
  end.
Definition uop (op : unop) : option cuop :=
  match op with UAdd => Some KPos | USub => Some KNeg | Not => Some KNot | Invert => None end.

Definition cbop_eqb (a b : cbop) : bool :=
  match a, b with
  | KAdd, KAdd | KSub, KSub | KMul, KMul | KDiv, KDiv | KMod, KMod | KBand, KBand | KBor, KBor
  | KBxor, KBxor | KShl, KShl | KShr, KShr => true
  | _, _ => false
  end.
Lemma cbop_eqb_eq a b : cbop_eqb a b = true -> a = b.
Proof. destruct a, b; cbn; intro H; try reflexivity; discriminate. Qed.
Definition cuop_eqb (a b : cuop) : bool :=
  match a, b with KPos, KPos | KNeg, KNeg | KNot, KNot => true | _, _ => false end.
Lemma cuop_eqb_eq a b : cuop_eqb a b = true -> a = b.
Proof. destruct a, b; cbn; intro H; try reflexivity; discriminate. Qed.

Definition bin_pair_ok (p : binop * text) : bool :=
  match kop (fst p) with
  | Some k => match bintok (snd p) with Some k' => cbop_eqb k' k | None => false end
  | None => true
  end.
Definition un_pair_ok (p : unop * text) : bool :=
  match uop (fst p), untok (snd p) with Some k, Some k' => cuop_eqb k' k | _, _ => false end.
Definition cmp_pair_ok (p : cmpop * text) : bool :=
  match cmptok (snd p) with Some op' => cmpop_code op' =? cmpop_code (fst p) | None => false end.

Lemma generated_tables_ok :
  forallb bin_pair_ok OpTables.bin && forallb un_pair_ok OpTables.un && forallb cmp_pair_ok OpTables.cmp = true.
Proof. vm_compute. reflexivity. Qed.

Lemma bin_table op tok k : In (op, tok) OpTables.bin -> kop op = Some k -> bintok tok = Some k.
Proof.
  intros Hin Hk. pose proof generated_tables_ok as H.
  apply andb_true_iff in H as [H _]. apply andb_true_iff in H as [H _].
  rewrite forallb_forall in H. specialize (H _ Hin). unfold bin_pair_ok in H. cbn [fst snd] in H.
  rewrite Hk in H. destruct (bintok tok) as [k'|]; [|discriminate]. apply cbop_eqb_eq in H. congruence.
Qed.
Lemma un_table op tok : In (op, tok) OpTables.un -> exists k, uop op = Some k /\ untok tok = Some k.
Proof.
  intros Hin. pose proof generated_tables_ok as H.
  apply andb_true_iff in H as [H _]. apply andb_true_iff in H as [_ H].
  rewrite forallb_forall in H. specialize (H _ Hin). unfold un_pair_ok in H. cbn [fst snd] in H.
  destruct (uop op) as [k|]; [|discriminate]. destruct (untok tok) as [k'|]; [|discriminate].
  apply cuop_eqb_eq in H. subst. eauto.
Qed.
Lemma cmp_table op tok : In (op, tok) OpTables.cmp -> cmptok tok = Some op.
Proof.
  intros Hin. pose proof generated_tables_ok as H.
  apply andb_true_iff in H as [_ H].
  rewrite forallb_forall in H. specialize (H _ Hin). unfold cmp_pair_ok in H. cbn [fst snd] in H.
  destruct (cmptok tok) as [op'|]; [|discriminate]. apply Z.eqb_eq, cmpop_code_inj in H. congruence.
Qed.

(* ------------------------------------------------------------------ *)
(* value correspondence: basic facts                                    *)
(* ------------------------------------------------------------------ *)
Lemma fits_mkint z : fits z = true -> mkint z = COk (CInt z).
Proof. unfold mkint. intros ->. reflexivity. Qed.

Lemma vrel_truth v w : vrel v w -> is_numv v = true -> truth w = COk (truthy v).
Proof.
  destruct v, w; cbn; intros H Hn; try contradiction; try discriminate; subst; try reflexivity.
  destruct b; reflexivity.
Qed.

Lemma vrel_asq v w n : vrel v w -> as_num v = Some n -> as_q w = Some (qof n).
Proof.
  destruct v, w; cbn; intros H Hn; try contradiction; try discriminate; inversion Hn; subst; reflexivity.
Qed.

Lemma vrel_asint v w z : vrel v w -> is_intlike v = Some z -> as_int w = Some z.
Proof.
  destruct v, w; cbn; intros H Hn; try contradiction; try discriminate; inversion Hn; subst; reflexivity.
Qed.

Lemma vrel_tag_num v w : vrel v w -> is_numv v = true ->
  is_numty (tag_of w) = true /\ is_intty (tag_of w) = is_intv v.
Proof. destruct v, w; cbn; intros H Hn; try contradiction; try discriminate; auto. Qed.

Lemma vrel_tag_str v w : vrel v w -> is_strv v = true -> is_strty (tag_of w) = true /\ is_numty (tag_of w) = false.
Proof. destruct v, w; cbn; intros H Hn; try contradiction; try discriminate; auto. Qed.

(* ------------------------------------------------------------------ *)
(* C's truncating division against Python's flooring division           *)
(* ------------------------------------------------------------------ *)
Lemma quot_div_guard x y : y <> 0 -> same_sign_or_exact x y = true -> Z.quot x y = Z.div x y.
Proof.
  intros Hy H. unfold same_sign_or_exact in H.
  apply orb_true_iff in H as [H|H]; [apply orb_true_iff in H as [H|H]|].
  - apply Z.eqb_eq in H.
    pose proof (Z.quot_rem' x y) as E. rewrite H, Z.add_0_r in E.
    apply Z.div_unique_exact; [exact Hy|]. exact E.
  - apply andb_true_iff in H as [H1 H2]. apply Z.leb_le in H1. apply Z.ltb_lt in H2.
    apply Z.quot_div_nonneg; lia.
  - apply andb_true_iff in H as [H1 H2]. apply Z.leb_le in H1. apply Z.ltb_lt in H2.
    rewrite <- (Z.opp_involutive x), <- (Z.opp_involutive y) at 1.
    rewrite Z.quot_opp_opp by lia. rewrite Z.quot_div_nonneg by lia.
    rewrite Z.div_opp_opp by lia. reflexivity.
Qed.

Lemma rem_mod_guard x y : y <> 0 -> same_sign_or_exact x y = true -> Z.rem x y = Z.modulo x y.
Proof.
  intros Hy H.
  pose proof (quot_div_guard x y Hy H) as Q.
  pose proof (Z.quot_rem' x y) as E1. pose proof (Z.div_mod x y Hy) as E2.
  rewrite Q in E1. lia.
Qed.

(* ------------------------------------------------------------------ *)
(* one binary operator                                                  *)
(* ------------------------------------------------------------------ *)
Ltac split_ifs H :=
  repeat match type of H with
         | context [if ?c then _ else _] => let E := fresh "E" in destruct c eqn:E; try discriminate H
         end.

Lemma b01_if (b : bool) : (if b then 1 else 0) = b01 b. Proof. reflexivity. Qed.

Arguments b01 : simpl never.

Lemma bin_num_sound op k a b wa wb v :
  kop op = Some k -> vrel a wa -> vrel b wb -> op_guard op a b = true ->
  py_bin op a b = Ok v -> vfits v = true ->
  exists w, csem_bin_k k wa wb = COk w /\ vrel v w.
Proof.
  intros Hk Ha Hb Hg Hp Hf.
  destruct op; cbn in Hk; inversion Hk; subst k; clear Hk;
  (destruct a; try (cbn in Hg; discriminate Hg));
  (destruct b; try (cbn in Hg; rewrite ?andb_false_r in Hg; discriminate Hg));
  (destruct wa; cbn in Ha; try contradiction);
  (destruct wb; cbn in Hb; try contradiction); subst.
  all: cbn [py_bin py_bin_num as_num num_bin qof is_intlike] in Hp; rewrite ?b01_if in Hp; split_ifs Hp; inversion Hp; subst; clear Hp.
  all: cbn [csem_bin_k ctype_bin arith_ty tag_of is_numty is_intty andb as_int as_q as_text int_op float_op].
  all: cbn [vfits] in Hf.
  all: try (rewrite (fits_mkint _ Hf); eexists; split; reflexivity).
  all: try (eexists; split; reflexivity).
  all: try (rewrite E).
  all: try (eexists; split; reflexivity).
  all: cbn [op_guard is_intlike as_num qof is_intv is_numv is_floatv andb orb] in Hg; rewrite ?b01_if in Hg.
  (* integer // and % : truncation = flooring inside the guard *)
  all: try (apply Z.eqb_neq in E;
            first [ rewrite (quot_div_guard _ _ E Hg) | rewrite (rem_mod_guard _ _ E Hg) ];
            rewrite (fits_mkint _ Hf); eexists; split; reflexivity).
  (* float // : only with an integral quotient *)
  all: try (apply Qeq_bool_iff in Hg;
            eexists; split; [reflexivity|]; unfold vfloat, qfloor_div; cbn [vrel];
            apply Qred_complete; exact Hg).
  (* shifts *)
  all: try (rewrite Hg; rewrite (fits_mkint _ Hf); eexists; split; reflexivity).
  (* bool & bool etc. stay bool in Python, int 0/1 in C++ *)
  all: try (repeat match goal with b : bool |- _ => destruct b end; cbn; eexists; split; reflexivity).
Qed.

(* ------------------------------------------------------------------ *)
(* per-operator theorems over the generated tables                      *)
(* ------------------------------------------------------------------ *)
Lemma op_guard_kop op a b : op_guard op a b = true -> exists k, kop op = Some k.
Proof. destruct op; cbn; intro H; try discriminate; eauto. Qed.

Lemma binop_table_sound op tok :
  In (op, tok) OpTables.bin ->
  forall a b wa wb v, vrel a wa -> vrel b wb -> op_guard op a b = true ->
  py_bin op a b = Ok v -> vfits v = true -> exists w, csem_bin tok wa wb = COk w /\ vrel v w.
Proof.
  intros Hin a b wa wb v Ha Hb Hg Hp Hf. destruct (op_guard_kop _ _ _ Hg) as [k Hk].
  unfold csem_bin. rewrite (bin_table _ _ _ Hin Hk). eapply bin_num_sound; eauto.
Qed.

Lemma qnormal_eq q : qnormal q = true -> Qred q = q.
Proof.
  unfold qnormal. destruct (Qred q) as [n d]. destruct q as [n' d']. cbn [Qnum Qden].
  intro H. apply andb_true_iff in H as [H1 H2]. apply Z.eqb_eq in H1. apply Pos.eqb_eq in H2. congruence.
Qed.
Lemma Qred_idem q : Qred (Qred q) = Qred q.
Proof. apply Qred_complete. apply Qred_correct. Qed.
Lemma qnormal_red q : qnormal (Qred q) = true.
Proof.
  unfold qnormal. rewrite Qred_idem. rewrite Z.eqb_refl, Pos.eqb_refl. reflexivity.
Qed.

Lemma un_num_sound op k a wa v :
  uop op = Some k -> vrel a wa -> is_numv a = true -> py_un op a = Ok v -> vfits v = true ->
  exists w, csem_un_k k wa = COk w /\ vrel v w /\ ctype_un k (tag_of wa) = Some (tag_of w).
Proof.
  intros Hk Ha Hn Hp Hf.
  destruct op; cbn in Hk; inversion Hk; subst k; clear Hk;
  (destruct a; try discriminate Hn); (destruct wa; cbn in Ha; try contradiction); subst;
  cbn [py_un as_num truthy] in Hp; inversion Hp; subst; clear Hp; cbn [vfits] in Hf;
  cbn [csem_un_k as_int tag_of ctype_un is_intty is_numty truth cbind].
  all: try (rewrite (fits_mkint _ Hf); eexists; split; [reflexivity|split; reflexivity]).
  all: try (eexists; split; [reflexivity|split; reflexivity]).
  all: match goal with b : bool |- _ => destruct b end; (eexists; split; [reflexivity|split; reflexivity]).
Qed.

Lemma unop_table_sound op tok :
  In (op, tok) OpTables.un ->
  forall a wa v, vrel a wa -> is_numv a = true -> py_un op a = Ok v -> vfits v = true ->
  exists w, csem_un tok wa = COk w /\ vrel v w.
Proof.
  intros Hin a wa v Ha Hn Hp Hf. destruct (un_table _ _ Hin) as (k & Hk & Ht).
  unfold csem_un. rewrite Ht. destruct (un_num_sound _ _ _ _ _ Hk Ha Hn Hp Hf) as (w & H1 & H2 & _). eauto.
Qed.

Lemma cmp_sound op a b wa wb c :
  vrel a wa -> vrel b wb -> cmp_guard a b (tag_of wa) (tag_of wb) = true ->
  py_cmp op a b = Ok c -> ccmp op wa wb = COk c.
Proof.
  intros Ha Hb Hg Hp.
  destruct a; destruct b; try (cbn in Hg; discriminate Hg);
  (destruct wa; cbn in Ha; try contradiction); (destruct wb; cbn in Hb; try contradiction); subst;
  try (cbn in Hg; discriminate Hg);
  destruct op; cbn in Hp; try discriminate Hp; inversion Hp; subst; reflexivity.
Qed.

Lemma cmpop_table_sound op tok :
  In (op, tok) OpTables.cmp ->
  forall a b wa wb c, vrel a wa -> vrel b wb -> cmp_guard a b (tag_of wa) (tag_of wb) = true ->
  py_cmp op a b = Ok c -> exists op', cmptok tok = Some op' /\ ccmp op' wa wb = COk c.
Proof.
  intros Hin a b wa wb c Ha Hb Hg Hp. exists op. split; [apply cmp_table; exact Hin|].
  eapply cmp_sound; eauto.
Qed.

(* ------------------------------------------------------------------ *)
(* refutations: closed witnesses (empty environments)                   *)
(* ------------------------------------------------------------------ *)
Definition G0 : tcx := {| tc_types := []; tc_lens := [] |}.
(* what the firmware computes for a closed expression with the scripted readings [ins] *)
Definition c_of (e : pexpr) (ins : inputs) : option (cres (cval * inputs)) :=
  match to_c G0 e with TOk c => Some (crun [] [] c ins) | _ => None end.
Definition py_of (e : pexpr) : res pval := peval [] e.

Definition w_a0 : pexpr := ECall n_analog_read [EStr [65;48]] [].
Definition ins39 : inputs := [((true, 14), [3; 9; 1])].

Lemma floordiv_refuted : exists a b : Z, b <> 0 /\
  py_of (EBin FloorDiv (EInt a) (EInt b)) = Ok (VInt (-4)) /\
  c_of (EBin FloorDiv (EInt a) (EInt b)) [] = Some (COk (CInt (-3), [])).
Proof. exists (-7), 2. split; [lia|]. split; vm_compute; reflexivity. Qed.

Lemma floordiv_float_refuted : exists q : Q,
  py_of (EBin FloorDiv (EFloat q) (EInt 2)) = Ok (VFloat (-1 # 1)) /\
  c_of (EBin FloorDiv (EFloat q) (EInt 2)) [] = Some (COk (CFloat (-7 # 8), [])).
Proof. exists (-7 # 4). split; vm_compute; reflexivity. Qed.

Lemma mod_refuted : exists a b : Z, b <> 0 /\
  py_of (EBin Mod (EInt a) (EInt b)) = Ok (VInt 2) /\
  c_of (EBin Mod (EInt a) (EInt b)) [] = Some (COk (CInt (-1), [])).
Proof. exists (-7), 3. split; [lia|]. split; vm_compute; reflexivity. Qed.

Lemma mod_float_refuted : exists q : Q,
  py_of (EBin Mod (EFloat q) (EInt 2)) = Ok (VFloat (7 # 4)) /\
  c_of (EBin Mod (EFloat q) (EInt 2)) [] = Some CStuck.
Proof. exists (7 # 4). split; vm_compute; reflexivity. Qed.

Lemma truediv_refuted : exists a b : Z, b <> 0 /\
  py_of (EBin Div (EInt a) (EInt b)) = Ok (VFloat (7 # 2)) /\
  c_of (EBin Div (EInt a) (EInt b)) [] = Some (COk (CInt 3, [])).
Proof. exists 7, 2. split; [lia|]. split; vm_compute; reflexivity. Qed.

Lemma pow_refuted : exists a b : Z,
  py_of (EBin Pow (EInt a) (EInt b)) = Ok (VInt 49) /\
  c_of (EBin Pow (EInt a) (EInt b)) [] = Some CStuck.
Proof. exists 7, 2. split; vm_compute; reflexivity. Qed.

Lemma shift_range_refuted : exists a b : Z,
  py_of (EBin RShift (EInt a) (EInt b)) = Ok (VInt 0) /\
  c_of (EBin RShift (EInt a) (EInt b)) [] = Some CUndef.
Proof. exists 7, 33. split; vm_compute; reflexivity. Qed.

(* min(analog_read("A0"), 5): the argument alone reads 3, the macro reads twice (3, then 9) and yields 9 *)
Lemma minmax_double_eval_refuted : exists ins i1 i2,
  c_of w_a0 ins = Some (COk (CInt 3, i1)) /\
  c_of (ECall n_min [w_a0; EInt 5] []) ins = Some (COk (CInt 9, i2)) /\ i1 <> i2.
Proof. exists ins39. eexists. eexists. split; [vm_compute; reflexivity|]. split; [vm_compute; reflexivity|]. discriminate. Qed.

(* 0 < analog_read("A0") < 5: with the single reading 3 Python says True, the device reads 3 then 9 *)
Lemma chain_double_eval_refuted : exists ins i1 i2,
  c_of w_a0 ins = Some (COk (CInt 3, i1)) /\
  py_of (ECompare (EInt 0) [PyAst.Lt; PyAst.Lt] [EInt 3; EInt 5]) = Ok (VBool true) /\
  c_of (ECompare (EInt 0) [PyAst.Lt; PyAst.Lt] [w_a0; EInt 5]) ins = Some (COk (CBool false, i2)).
Proof. exists ins39. eexists. eexists. split; [vm_compute; reflexivity|]. split; vm_compute; reflexivity. Qed.

Lemma boolop_value_refuted : exists a b : Z,
  py_of (EBoolOp And [EInt a; EInt b]) = Ok (VInt 2) /\
  c_of (EBoolOp And [EInt a; EInt b]) [] = Some (COk (CBool true, [])).
Proof. exists 7, 2. split; vm_compute; reflexivity. Qed.

Lemma cond_mixed_refuted : exists e : pexpr,
  py_of e = Ok (VInt 7) /\ c_of e [] = Some (COk (CFloat (7 # 1), [])).
Proof. exists (EIfExp (EBool true) (EInt 7) (EFloat (5 # 2))). split; vm_compute; reflexivity. Qed.

Lemma str_bool_refuted : exists e : pexpr,
  py_of e = Ok (VStr t_True) /\ c_of e [] = Some (COk (CStr [49], [])).
Proof. exists (ECall n_str [EBool true] []). split; vm_compute; reflexivity. Qed.

Lemma strlit_concat_refuted : exists e : pexpr,
  py_of e = Ok (VStr [97; 99]) /\ c_of e [] = Some CStuck.
Proof. exists (EBin Add (EIfExp (EBool true) (EStr [97]) (EStr [98])) (EStr [99])). split; vm_compute; reflexivity. Qed.

Lemma int_strlit_cond_refuted : exists e : pexpr,
  py_of e = Ok (VInt 12) /\ c_of e [] = Some CStuck.
Proof. exists (ECall n_int [EIfExp (EBool true) (EStr [49; 50]) (EStr [49; 51])] []). split; vm_compute; reflexivity. Qed.

Lemma len_utf8_refuted : exists e : pexpr,
  py_of e = Ok (VInt 2) /\ c_of e [] = Some (COk (CInt 3, [])).
Proof. exists (ECall n_len [EBin Add (EStr [233]) (ECall n_str [EInt 2] [])] []). split; vm_compute; reflexivity. Qed.

(* the text of a value on the serial line: bool and float differ from Python's str() *)
Lemma serial_text_refuted :
  serial_text (CBool true) <> t_True /\ py_str (VBool true) = Ok t_True /\
  exists q, float_simple q = true /\ serial_text (CFloat q) <> float_text q.
Proof. split; [vm_compute; discriminate|]. split; [reflexivity|]. exists (5 # 2). split; [vm_compute; reflexivity|vm_compute; discriminate]. Qed.
