(* Proofs for unit C01_expr: the generated operator tables are the ones the C semantics
   understands; each C operator agrees with the Python operator it stands for under
   op_guard; value preservation of to_c by induction over expressions. *)
From Coq Require Import ZArith QArith Qround Qabs List Bool Lia.
From RV Require Import Base.Wire Base.Text Lang.PyAst Lang.PySem Lang.CAst Lang.CSem Lang.ToC Gen.OpTables.
Import ListNotations.
Open Scope Z_scope.

(* ------------------------------------------------------------------ *)
(* generic helpers                                                      *)
(* ------------------------------------------------------------------ *)
Lemma tbind_ok {A B} (r : tres A) (f : A -> tres B) c :
  tbind r f = TOk c -> exists x, r = TOk x /\ f x = TOk c.
Proof. destruct r; cbn; intro H; try discriminate. eauto. Qed.

Lemma bind_ok {A B} (r : res A) (f : A -> res B) v :
  bind r f = Ok v -> exists x, r = Ok x /\ f x = Ok v.
Proof. destruct r; cbn; intro H; try discriminate. eauto. Qed.

Lemma assoc_in {A} (code : A -> Z) k l t :
  assoc code k l = Some t -> exists k', In (k', t) l /\ code k = code k'.
Proof.
  induction l as [|[k' t'] r IH]; cbn; [discriminate|].
  destruct (code k =? code k') eqn:E.
  - intro H; inversion H; subst. apply Z.eqb_eq in E. exists k'. auto.
  - intro H. destruct (IH H) as (k2 & Hin & Hc). exists k2. auto.
Qed.

Lemma binop_code_inj a b : binop_code a = binop_code b -> a = b.
Proof. destruct a, b; cbn; intro H; try reflexivity; discriminate. Qed.
Lemma unop_code_inj a b : unop_code a = unop_code b -> a = b.
Proof. destruct a, b; cbn; intro H; try reflexivity; discriminate. Qed.
Lemma cmpop_code_inj a b : cmpop_code a = cmpop_code b -> a = b.
Proof. destruct a, b; cbn; intro H; try reflexivity; discriminate. Qed.

Lemma bin_tok_in op tok : bin_tok op = Some tok -> In (op, tok) OpTables.bin.
Proof. intro H. apply assoc_in in H as (k & Hin & Hc). apply binop_code_inj in Hc. subst. exact Hin. Qed.
Lemma un_tok_in op tok : un_tok op = Some tok -> In (op, tok) OpTables.un.
Proof. intro H. apply assoc_in in H as (k & Hin & Hc). apply unop_code_inj in Hc. subst. exact Hin. Qed.
Lemma cmp_tok_in op tok : cmp_tok op = Some tok -> In (op, tok) OpTables.cmp.
Proof. intro H. apply assoc_in in H as (k & Hin & Hc). apply cmpop_code_inj in Hc. subst. exact Hin. Qed.

(* ------------------------------------------------------------------ *)
(* the generated tables, checked by reflection                          *)
(* ------------------------------------------------------------------ *)
(* which C++ operator a Python operator has to become *)
Definition kop (op : binop) : option cbop :=
  match op with
  | Add => Some KAdd | Sub => Some KSub | Mult => Some KMul
  | Div => Some KDiv | FloorDiv => Some KDiv            (* inside op_guard only *)
  | Mod => Some KMod
  | BitAnd => Some KBand | BitOr => Some KBor | BitXor => Some KBxor
  | LShift => Some KShl | RShift => Some KShr
  | Pow | MatMult => None                                (* op_guard is false: nothing to show *)
  end.
Definition uop (op : unop) : option cuop :=
  match op with UAdd => Some KPos | USub => Some KNeg | Not => Some KNot | Invert => None end.

Definition cbop_eqb (a b : cbop) : bool :=
  match a, b with
  | KAdd, KAdd | KSub, KSub | KMul, KMul | KDiv, KDiv | KMod, KMod | KBand, KBand | KBor, KBor
  | KBxor, KBxor | KShl, KShl | KShr, KShr => true
  | _, _ => false
  end.
Lemma cbop_eqb_eq a b : cbop_eqb a b = true -> a = b.
Proof. destruct a, b; cbn; intro H; try reflexivity; discriminate. Qed.
Definition cuop_eqb (a b : cuop) : bool :=
  match a, b with KPos, KPos | KNeg, KNeg | KNot, KNot => true | _, _ => false end.
Lemma cuop_eqb_eq a b : cuop_eqb a b = true -> a = b.
Proof. destruct a, b; cbn; intro H; try reflexivity; discriminate. Qed.

Definition bin_pair_ok (p : binop * text) : bool :=
  match kop (fst p) with
  | Some k => match bintok (snd p) with Some k' => cbop_eqb k' k | None => false end
  | None => true
  end.
Definition un_pair_ok (p : unop * text) : bool :=
  match uop (fst p), untok (snd p) with Some k, Some k' => cuop_eqb k' k | _, _ => false end.
Definition cmp_pair_ok (p : cmpop * text) : bool :=
  match cmptok (snd p) with Some op' => cmpop_code op' =? cmpop_code (fst p) | None => false end.

Lemma generated_tables_ok :
  forallb bin_pair_ok OpTables.bin && forallb un_pair_ok OpTables.un && forallb cmp_pair_ok OpTables.cmp = true.
Proof. vm_compute. reflexivity. Qed.

Lemma bin_table op tok k : In (op, tok) OpTables.bin -> kop op = Some k -> bintok tok = Some k.
Proof.
  intros Hin Hk. pose proof generated_tables_ok as H.
  apply andb_true_iff in H as [H _]. apply andb_true_iff in H as [H _].
  rewrite forallb_forall in H. specialize (H _ Hin). unfold bin_pair_ok in H. cbn [fst snd] in H.
  rewrite Hk in H. destruct (bintok tok) as [k'|]; [|discriminate]. apply cbop_eqb_eq in H. congruence.
Qed.
Lemma un_table op tok : In (op, tok) OpTables.un -> exists k, uop op = Some k /\ untok tok = Some k.
Proof.
  intros Hin. pose proof generated_tables_ok as H.
  apply andb_true_iff in H as [H _]. apply andb_true_iff in H as [_ H].
  rewrite forallb_forall in H. specialize (H _ Hin). unfold un_pair_ok in H. cbn [fst snd] in H.
  destruct (uop op) as [k|]; [|discriminate]. destruct (untok tok) as [k'|]; [|discriminate].
  apply cuop_eqb_eq in H. subst. eauto.
Qed.
Lemma cmp_table op tok : In (op, tok) OpTables.cmp -> cmptok tok = Some op.
Proof.
  intros Hin. pose proof generated_tables_ok as H.
  apply andb_true_iff in H as [_ H].
  rewrite forallb_forall in H. specialize (H _ Hin). unfold cmp_pair_ok in H. cbn [fst snd] in H.
  destruct (cmptok tok) as [op'|]; [|discriminate]. apply Z.eqb_eq, cmpop_code_inj in H. congruence.
Qed.

(* ------------------------------------------------------------------ *)
(* value correspondence: basic facts                                    *)
(* ------------------------------------------------------------------ *)
Lemma fits_mkint z : fits z = true -> mkint z = COk (CInt z).
Proof. unfold mkint. intros ->. reflexivity. Qed.

Lemma vrel_truth v w : vrel v w -> is_numv v = true -> truth w = COk (truthy v).
Proof.
  destruct v, w; cbn; intros H Hn; try contradiction; try discriminate; subst; try reflexivity.
  destruct b; reflexivity.
Qed.

Lemma vrel_asq v w n : vrel v w -> as_num v = Some n -> as_q w = Some (qof n).
Proof.
  destruct v, w; cbn; intros H Hn; try contradiction; try discriminate; inversion Hn; subst; reflexivity.
Qed.

Lemma vrel_asint v w z : vrel v w -> is_intlike v = Some z -> as_int w = Some z.
Proof.
  destruct v, w; cbn; intros H Hn; try contradiction; try discriminate; inversion Hn; subst; reflexivity.
Qed.

Lemma vrel_tag_num v w : vrel v w -> is_numv v = true ->
  is_numty (tag_of w) = true /\ is_intty (tag_of w) = is_intv v.
Proof. destruct v, w; cbn; intros H Hn; try contradiction; try discriminate; auto. Qed.

Lemma vrel_tag_str v w : vrel v w -> is_strv v = true -> is_strty (tag_of w) = true /\ is_numty (tag_of w) = false.
Proof. destruct v, w; cbn; intros H Hn; try contradiction; try discriminate; auto. Qed.

(* ------------------------------------------------------------------ *)
(* C's truncating division against Python's flooring division           *)
(* ------------------------------------------------------------------ *)
Lemma quot_div_guard x y : y <> 0 -> same_sign_or_exact x y = true -> Z.quot x y = Z.div x y.
Proof.
  intros Hy H. unfold same_sign_or_exact in H.
  apply orb_true_iff in H as [H|H]; [apply orb_true_iff in H as [H|H]|].
  - apply Z.eqb_eq in H.
    pose proof (Z.quot_rem' x y) as E. rewrite H, Z.add_0_r in E.
    apply Z.div_unique_exact; [exact Hy|]. exact E.
  - apply andb_true_iff in H as [H1 H2]. apply Z.leb_le in H1. apply Z.ltb_lt in H2.
    apply Z.quot_div_nonneg; lia.
  - apply andb_true_iff in H as [H1 H2]. apply Z.leb_le in H1. apply Z.ltb_lt in H2.
    rewrite <- (Z.opp_involutive x), <- (Z.opp_involutive y) at 1.
    rewrite Z.quot_opp_opp by lia. rewrite Z.quot_div_nonneg by lia.
    rewrite Z.div_opp_opp by lia. reflexivity.
Qed.

Lemma rem_mod_guard x y : y <> 0 -> same_sign_or_exact x y = true -> Z.rem x y = Z.modulo x y.
Proof.
  intros Hy H.
  pose proof (quot_div_guard x y Hy H) as Q.
  pose proof (Z.quot_rem' x y) as E1. pose proof (Z.div_mod x y Hy) as E2.
  rewrite Q in E1. lia.
Qed.

(* ------------------------------------------------------------------ *)
(* one binary operator                                                  *)
(* ------------------------------------------------------------------ *)
Ltac split_ifs H :=
  repeat match type of H with
         | context [if ?c then _ else _] => let E := fresh "E" in destruct c eqn:E; try discriminate H
         end.

Lemma b01_if (b : bool) : (if b then 1 else 0) = b01 b. Proof. reflexivity. Qed.

Arguments b01 : simpl never.

Lemma bin_num_sound op k a b wa wb v :
  kop op = Some k -> vrel a wa -> vrel b wb -> op_guard op a b = true ->
  py_bin op a b = Ok v -> vfits v = true ->
  exists w, csem_bin_k k wa wb = COk w /\ vrel v w.
Proof.
  intros Hk Ha Hb Hg Hp Hf.
  destruct op; cbn in Hk; inversion Hk; subst k; clear Hk;
  (destruct a; try (cbn in Hg; discriminate Hg));
  (destruct b; try (cbn in Hg; rewrite ?andb_false_r in Hg; discriminate Hg));
  (destruct wa; cbn in Ha; try contradiction);
  (destruct wb; cbn in Hb; try contradiction); subst.
  all: cbn [py_bin py_bin_num as_num num_bin qof is_intlike] in Hp; rewrite ?b01_if in Hp; split_ifs Hp; inversion Hp; subst; clear Hp.
  all: cbn [csem_bin_k ctype_bin arith_ty tag_of is_numty is_intty andb as_int as_q as_text int_op float_op].
  all: cbn [vfits] in Hf.
  all: try (rewrite (fits_mkint _ Hf); eexists; split; reflexivity).
  all: try (eexists; split; reflexivity).
  all: try (rewrite E).
  all: try (eexists; split; reflexivity).
  all: cbn [op_guard is_intlike as_num qof is_intv is_numv is_floatv andb orb] in Hg; rewrite ?b01_if in Hg.
  (* integer // and % : truncation = flooring inside the guard *)
  all: try (apply Z.eqb_neq in E;
            first [ rewrite (quot_div_guard _ _ E Hg) | rewrite (rem_mod_guard _ _ E Hg) ];
            rewrite (fits_mkint _ Hf); eexists; split; reflexivity).
  (* float // : only with an integral quotient *)
  all: try (apply Qeq_bool_iff in Hg;
            eexists; split; [reflexivity|]; unfold vfloat, qfloor_div; cbn [vrel];
            apply Qred_complete; exact Hg).
  (* shifts *)
  all: try (rewrite Hg; rewrite (fits_mkint _ Hf); eexists; split; reflexivity).
  (* bool & bool etc. stay bool in Python, int 0/1 in C++ *)
  all: try (repeat match goal with b : bool |- _ => destruct b end; cbn; eexists; split; reflexivity).
Qed.
