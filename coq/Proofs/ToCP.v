(* Proofs for unit C01_expr: the generated operator tables are the ones the C semantics
   understands; each C operator agrees with the Python operator it stands for under
   op_guard; value preservation of to_c by induction over expressions. *)
From Coq Require Import ZArith QArith Qround Qabs List Bool Lia.
From RV Require Import Base.Wire Base.Text Lang.PyAst Lang.PySem Lang.CAst Lang.CSem Lang.ToC Gen.OpTables.
Import ListNotations.
Open Scope Z_scope.

(* ------------------------------------------------------------------ *)
(* generic helpers                                                      *)
(* ------------------------------------------------------------------ *)
Lemma tbind_ok {A B} (r : tres A) (f : A -> tres B) c :
  tbind r f = TOk c -> exists x, r = TOk x /\ f x = TOk c.
Proof. destruct r; cbn; intro H; try discriminate. eauto. Qed.

Lemma bind_ok {A B} (r : res A) (f : A -> res B) v :
  bind r f = Ok v -> exists x, r = Ok x /\ f x = Ok v.
Proof. destruct r; cbn; intro H; try discriminate. eauto. Qed.

Lemma assoc_in {A} (code : A -> Z) k l t :
  assoc code k l = Some t -> exists k', In (k', t) l /\ code k = code k'.
Proof.
  induction l as [|[k' t'] r IH]; cbn; [discriminate|].
  destruct (code k =? code k') eqn:E.
  - intro H; inversion H; subst. apply Z.eqb_eq in E. exists k'. auto.
  - intro H. destruct (IH H) as (k2 & Hin & Hc). exists k2. auto.
Qed.

Lemma binop_code_inj a b : binop_code a = binop_code b -> a = b.
Proof. destruct a, b; cbn; intro H; try reflexivity; discriminate. Qed.
Lemma unop_code_inj a b : unop_code a = unop_code b -> a = b.
Proof. destruct a, b; cbn; intro H; try reflexivity; discriminate. Qed.
Lemma cmpop_code_inj a b : cmpop_code a = cmpop_code b -> a = b.
Proof. destruct a, b; cbn; intro H; try reflexivity; discriminate. Qed.

Lemma bin_tok_in op tok : bin_tok op = Some tok -> In (op, tok) OpTables.bin.
Proof. intro H. apply assoc_in in H as (k & Hin & Hc). apply binop_code_inj in Hc. subst. exact Hin. Qed.
Lemma assoc2_in {A B} (code : A -> Z) k (l : list (A * B)) t :
  assoc2 code k l = Some t -> exists k', In (k', t) l /\ code k = code k'.
Proof.
  induction l as [|[k' t'] r IH]; cbn; [discriminate|].
  destruct (code k =? code k') eqn:E.
  - intro H; inversion H; subst. apply Z.eqb_eq in E. exists k'. auto.
  - intro H. destruct (IH H) as (k2 & Hin & Hc). exists k2. auto.
Qed.
Lemma bin_form_in op ft : bin_form op = Some ft -> In (op, ft) OpTables.binemit.
Proof. intro H. apply assoc2_in in H as (k & Hin & Hc). apply binop_code_inj in Hc. subst. exact Hin. Qed.
Lemma un_tok_in op tok : un_tok op = Some tok -> In (op, tok) OpTables.un.
Proof. intro H. apply assoc_in in H as (k & Hin & Hc). apply unop_code_inj in Hc. subst. exact Hin. Qed.
Lemma cmp_tok_in op tok : cmp_tok op = Some tok -> In (op, tok) OpTables.cmp.
Proof. intro H. apply assoc_in in H as (k & Hin & Hc). apply cmpop_code_inj in Hc. subst. exact Hin. Qed.

(* ------------------------------------------------------------------ *)
(* the generated tables, checked by reflection                          *)
(* ------------------------------------------------------------------ *)
(* which C++ operator a Python operator has to become *)
Definition kop (op : binop) : option cbop :=
  match op with
  | Add => Some KAdd | Sub => Some KSub | Mult => Some KMul
  | Div => Some KDiv
  | BitAnd => Some KBand | BitOr => Some KBor | BitXor => Some KBxor
  | LShift => Some KShl | RShift => Some KShr
  | FloorDiv | Mod | Pow | MatMult => None
  end.
(* which helper template a Python operator has to become (true: __redu_mod) *)
Definition hop (op : binop) : option bool :=
  match op with FloorDiv => Some false | Mod => Some true | _ => None end.
Definition uop (op : unop) : option cuop :=
  match op with UAdd => Some KPos | USub => Some KNeg | Not => Some KNot | Invert => None end.

Definition cbop_eqb (a b : cbop) : bool :=
  match a, b with
  | KAdd, KAdd | KSub, KSub | KMul, KMul | KDiv, KDiv | KMod, KMod | KBand, KBand | KBor, KBor
  | KBxor, KBxor | KShl, KShl | KShr, KShr => true
  | _, _ => false
  end.
Lemma cbop_eqb_eq a b : cbop_eqb a b = true -> a = b.
Proof. destruct a, b; cbn; intro H; try reflexivity; discriminate. Qed.
Definition cuop_eqb (a b : cuop) : bool :=
  match a, b with KPos, KPos | KNeg, KNeg | KNot, KNot => true | _, _ => false end.
Lemma cuop_eqb_eq a b : cuop_eqb a b = true -> a = b.
Proof. destruct a, b; cbn; intro H; try reflexivity; discriminate. Qed.

(* one row of the probed table of _emit_binop: an operator with a C++ counterpart is infix with that token, // and %
   are calls of the helper template that implements them, ** is rejected (MatMult is not in _BIN at all) *)
Definition bin_pair_ok (p : binop * (Z * text)) : bool :=
  let op := fst p in let kind := fst (snd p) in let txt := snd (snd p) in
  match kop op, hop op with
  | Some k, _ => (kind =? 0) && match bintok txt with Some k' => cbop_eqb k' k | None => false end
  | None, Some md => (kind =? 1) && match helper_name txt with Some md' => Bool.eqb md' md | None => false end
  | None, None => match op with Pow => kind =? 2 | _ => true end
  end.
Fixpoint zlist_eqb (a b : list Z) : bool :=
  match a, b with
  | [], [] => true
  | x :: a', y :: b' => (x =? y) && zlist_eqb a' b'
  | _, _ => false
  end.
(* _emit_binop was probed for exactly the operators of _BIN, in the same order *)
Definition same_ops : bool :=
  zlist_eqb (map (fun p => binop_code (fst p)) OpTables.bin) (map (fun p => binop_code (fst p)) OpTables.binemit).
(* every helper call adds a key to ctx["helpers"] for which emit() stitches a snippet into the sketch *)
Definition helper_row_ok (p : binop * (Z * text)) : bool :=
  if fst (snd p) =? 1 then
    match tlookup (snd (snd p)) OpTables.binemit_keys with
    | Some key => existsb (text_eqb key) OpTables.snippet_keys
    | None => false
    end
  else true.
Definition un_pair_ok (p : unop * text) : bool :=
  match uop (fst p), untok (snd p) with Some k, Some k' => cuop_eqb k' k | _, _ => false end.
Definition cmp_pair_ok (p : cmpop * text) : bool :=
  match cmptok (snd p) with Some op' => cmpop_code op' =? cmpop_code (fst p) | None => false end.

Definition tables_ok : bool :=
  forallb bin_pair_ok OpTables.binemit && forallb un_pair_ok OpTables.un && forallb cmp_pair_ok OpTables.cmp
  && same_ops && forallb helper_row_ok OpTables.binemit.

Lemma generated_tables_ok : tables_ok = true.
Proof. vm_compute. reflexivity. Qed.

Lemma bin_row op ft : In (op, ft) OpTables.binemit -> bin_pair_ok (op, ft) = true.
Proof.
  intros Hin. pose proof generated_tables_ok as H. unfold tables_ok in H.
  do 4 (apply andb_true_iff in H as [H _]).
  rewrite forallb_forall in H. exact (H _ Hin).
Qed.
Lemma bin_table op kind tok k : In (op, (kind, tok)) OpTables.binemit -> kop op = Some k -> kind = 0 /\ bintok tok = Some k.
Proof.
  intros Hin Hk. pose proof (bin_row _ _ Hin) as H. unfold bin_pair_ok in H. cbn [fst snd] in H.
  rewrite Hk in H. apply andb_true_iff in H as [H0 H]. apply Z.eqb_eq in H0.
  destruct (bintok tok) as [k'|]; [|discriminate]. apply cbop_eqb_eq in H. split; congruence.
Qed.
Lemma helper_table op kind f md : In (op, (kind, f)) OpTables.binemit -> hop op = Some md -> kind = 1 /\ helper_name f = Some md.
Proof.
  intros Hin Hh. pose proof (bin_row _ _ Hin) as H. unfold bin_pair_ok in H. cbn [fst snd] in H.
  rewrite Hh in H. assert (Hk : kop op = None) by (destruct op; try discriminate Hh; reflexivity). rewrite Hk in H.
  apply andb_true_iff in H as [H0 H]. apply Z.eqb_eq in H0.
  destruct (helper_name f) as [md'|]; [|discriminate]. apply Bool.eqb_prop in H. split; congruence.
Qed.
Lemma pow_table kind f : In (Pow, (kind, f)) OpTables.binemit -> kind = 2.
Proof. intros Hin. pose proof (bin_row _ _ Hin) as H. unfold bin_pair_ok in H. cbn in H. apply Z.eqb_eq in H. exact H. Qed.
Lemma un_table op tok : In (op, tok) OpTables.un -> exists k, uop op = Some k /\ untok tok = Some k.
Proof.
  intros Hin. pose proof generated_tables_ok as H. unfold tables_ok in H.
  do 3 (apply andb_true_iff in H as [H _]). apply andb_true_iff in H as [_ H].
  rewrite forallb_forall in H. specialize (H _ Hin). unfold un_pair_ok in H. cbn [fst snd] in H.
  destruct (uop op) as [k|]; [|discriminate]. destruct (untok tok) as [k'|]; [|discriminate].
  apply cuop_eqb_eq in H. subst. eauto.
Qed.
Lemma cmp_table op tok : In (op, tok) OpTables.cmp -> cmptok tok = Some op.
Proof.
  intros Hin. pose proof generated_tables_ok as H. unfold tables_ok in H.
  do 2 (apply andb_true_iff in H as [H _]). apply andb_true_iff in H as [_ H].
  rewrite forallb_forall in H. specialize (H _ Hin). unfold cmp_pair_ok in H. cbn [fst snd] in H.
  destruct (cmptok tok) as [op'|]; [|discriminate]. apply Z.eqb_eq, cmpop_code_inj in H. congruence.
Qed.

(* ------------------------------------------------------------------ *)
(* value correspondence: basic facts                                    *)
(* ------------------------------------------------------------------ *)
Lemma fits_mkint z : fits z = true -> mkint z = COk (CInt z).
Proof. unfold mkint. intros ->. reflexivity. Qed.

Lemma vrel_truth v w : vrel v w -> is_numv v = true -> truth w = COk (truthy v).
Proof.
  destruct v, w; cbn; intros H Hn; try contradiction; try discriminate; subst; try reflexivity.
  destruct b; reflexivity.
Qed.

Lemma vrel_asq v w n : vrel v w -> as_num v = Some n -> as_q w = Some (qof n).
Proof.
  destruct v, w; cbn; intros H Hn; try contradiction; try discriminate; inversion Hn; subst; reflexivity.
Qed.

Lemma vrel_asint v w z : vrel v w -> is_intlike v = Some z -> as_int w = Some z.
Proof.
  destruct v, w; cbn; intros H Hn; try contradiction; try discriminate; inversion Hn; subst; reflexivity.
Qed.

Lemma vrel_tag_num v w : vrel v w -> is_numv v = true ->
  is_numty (tag_of w) = true /\ is_intty (tag_of w) = is_intv v.
Proof. destruct v, w; cbn; intros H Hn; try contradiction; try discriminate; auto. Qed.

Lemma vrel_tag_str v w : vrel v w -> is_strv v = true -> is_strty (tag_of w) = true /\ is_numty (tag_of w) = false.
Proof. destruct v, w; cbn; intros H Hn; try contradiction; try discriminate; auto. Qed.

(* ------------------------------------------------------------------ *)
(* the helper templates against Python's flooring division and modulo    *)
(* ------------------------------------------------------------------ *)
Lemma c_floordiv_div x y : y <> 0 -> c_floordiv x y = Z.div x y.
Proof.
  intro Hy. unfold c_floordiv.
  pose proof (Z.quot_rem' x y) as E. pose proof (Z.rem_bound_abs x y Hy) as B.
  pose proof (Z.rem_sign_mul x y Hy) as S.
  destruct (Z.rem x y =? 0) eqn:E0; cbn [negb andb].
  - apply Z.eqb_eq in E0. rewrite E0, Z.add_0_r in E. apply Z.div_unique_exact; [exact Hy|exact E].
  - apply Z.eqb_neq in E0.
    assert (S1 : x < 0 -> Z.rem x y < 0) by (intro; destruct (Z.ltb_spec (Z.rem x y) 0); [assumption|nia]).
    assert (S2 : 0 <= x -> 0 < Z.rem x y).
    { intro. destruct (Z.eq_dec x 0) as [X0|X0]; [subst x; rewrite Z.rem_0_l in E0 by exact Hy; congruence|].
      destruct (Z.ltb_spec 0 (Z.rem x y)); [assumption|nia]. }
    destruct (Z.ltb_spec x 0), (Z.ltb_spec y 0); cbn [Bool.eqb negb].
    + apply (Z.div_unique _ _ _ (Z.rem x y)); [right; lia|lia].
    + apply (Z.div_unique _ _ _ (Z.rem x y + y)); [left; lia|lia].
    + apply (Z.div_unique _ _ _ (Z.rem x y + y)); [right; lia|lia].
    + apply (Z.div_unique _ _ _ (Z.rem x y)); [left; lia|lia].
Qed.

Lemma c_mod_mod x y : y <> 0 -> c_mod x y = Z.modulo x y.
Proof.
  intro Hy. unfold c_mod.
  pose proof (Z.quot_rem' x y) as E. pose proof (Z.rem_bound_abs x y Hy) as B.
  destruct (Z.rem x y =? 0) eqn:E0; cbn [negb andb].
  - apply Z.eqb_eq in E0. rewrite E0. rewrite E0, Z.add_0_r in E.
    apply (Z.mod_unique _ _ (Z.quot x y)); [destruct (Z.ltb_spec 0 y); [left|right]; lia|lia].
  - apply Z.eqb_neq in E0.
    destruct (Z.ltb_spec (Z.rem x y) 0), (Z.ltb_spec y 0); cbn [Bool.eqb negb].
    + apply (Z.mod_unique _ _ (Z.quot x y)); [right; lia|lia].
    + apply (Z.mod_unique _ _ (Z.quot x y - 1)); [left; lia|lia].
    + apply (Z.mod_unique _ _ (Z.quot x y - 1)); [right; lia|lia].
    + apply (Z.mod_unique _ _ (Z.quot x y)); [left; lia|lia].
Qed.

(* ------------------------------------------------------------------ *)
(* one binary operator                                                  *)
(* ------------------------------------------------------------------ *)
Ltac split_ifs H :=
  repeat match type of H with
         | context [if ?c then _ else _] => let E := fresh "E" in destruct c eqn:E; try discriminate H
         end.

Lemma b01_if (b : bool) : (if b then 1 else 0) = b01 b. Proof. reflexivity. Qed.

Arguments b01 : simpl never.

Lemma bin_num_sound op k a b wa wb v :
  kop op = Some k -> vrel a wa -> vrel b wb -> op_guard op a b = true ->
  py_bin op a b = Ok v -> vfits v = true ->
  exists w, csem_bin_k k wa wb = COk w /\ vrel v w.
Proof.
  intros Hk Ha Hb Hg Hp Hf.
  destruct op; cbn in Hk; inversion Hk; subst k; clear Hk;
  (destruct a; try (cbn in Hg; discriminate Hg));
  (destruct b; try (cbn in Hg; rewrite ?andb_false_r in Hg; discriminate Hg));
  (destruct wa; cbn in Ha; try contradiction);
  (destruct wb; cbn in Hb; try contradiction); subst.
  all: cbn [py_bin py_bin_num as_num num_bin qof is_intlike] in Hp; rewrite ?b01_if in Hp; split_ifs Hp; inversion Hp; subst; clear Hp.
  all: cbn [csem_bin_k ctype_bin arith_ty tag_of is_numty is_intty andb as_int as_q as_text int_op float_op].
  all: cbn [vfits] in Hf.
  all: try (rewrite (fits_mkint _ Hf); eexists; split; reflexivity).
  all: try (eexists; split; reflexivity).
  all: try (rewrite E).
  all: try (eexists; split; reflexivity).
  all: cbn [op_guard is_intlike as_num qof is_intv is_numv is_floatv andb orb] in Hg; rewrite ?b01_if in Hg.
  (* shifts *)
  all: try (rewrite Hg; rewrite (fits_mkint _ Hf); eexists; split; reflexivity).
  (* bool & bool etc. stay bool in Python, int 0/1 in C++ *)
  all: try (repeat match goal with b : bool |- _ => destruct b end; cbn; eexists; split; reflexivity).
Qed.

(* // and % : the helper templates *)
Lemma helper_num_sound op md a b wa wb v :
  hop op = Some md -> vrel a wa -> vrel b wb -> op_guard op a b = true ->
  py_bin op a b = Ok v -> vfits v = true ->
  exists w, csem_helper md wa wb = COk w /\ vrel v w /\ arith_ty (tag_of wa) (tag_of wb) = Some (tag_of w).
Proof.
  intros Hh Ha Hb Hg Hp Hf.
  destruct op; cbn in Hh; inversion Hh; subst md; clear Hh;
  (destruct a; try (cbn in Hg; discriminate Hg));
  (destruct b; try (cbn in Hg; rewrite ?andb_false_r in Hg; discriminate Hg));
  (destruct wa; cbn in Ha; try contradiction);
  (destruct wb; cbn in Hb; try contradiction); subst.
  all: cbn [py_bin py_bin_num as_num num_bin qof is_intlike] in Hp; rewrite ?b01_if in Hp; split_ifs Hp; inversion Hp; subst; clear Hp.
  all: cbn [csem_helper arith_ty tag_of is_numty is_intty andb as_int as_q].
  all: cbn [vfits] in Hf.
  all: try rewrite E.
  all: try (apply Z.eqb_neq in E; first [rewrite (c_floordiv_div _ _ E) | rewrite (c_mod_mod _ _ E)];
            rewrite (fits_mkint _ Hf); eexists; split; [reflexivity|split; reflexivity]).
  all: eexists; split; [reflexivity|split; reflexivity].
Qed.

(* ------------------------------------------------------------------ *)
(* per-operator theorems over the generated tables                      *)
(* ------------------------------------------------------------------ *)
Lemma op_guard_cases op a b : op_guard op a b = true -> (exists k, kop op = Some k) \/ (exists md, hop op = Some md).
Proof. destruct op; cbn; intro H; try discriminate; eauto. Qed.

Lemma kop_hop op k md : kop op = Some k -> hop op = Some md -> False.
Proof. destruct op; cbn; intros; discriminate. Qed.

Lemma binop_table_sound op tok :
  In (op, (0, tok)) OpTables.binemit ->
  forall a b wa wb v, vrel a wa -> vrel b wb -> op_guard op a b = true ->
  py_bin op a b = Ok v -> vfits v = true -> exists w, csem_bin tok wa wb = COk w /\ vrel v w.
Proof.
  intros Hin a b wa wb v Ha Hb Hg Hp Hf. destruct (op_guard_cases _ _ _ Hg) as [[k Hk]|[md Hh]].
  - unfold csem_bin. destruct (bin_table _ _ _ _ Hin Hk) as [_ Hb']. rewrite Hb'. eapply bin_num_sound; eauto.
  - destruct (helper_table _ _ _ _ Hin Hh) as [H0 _]. discriminate H0.
Qed.

Lemma binop_helper_sound op f :
  In (op, (1, f)) OpTables.binemit ->
  forall a b wa wb v, vrel a wa -> vrel b wb -> op_guard op a b = true ->
  py_bin op a b = Ok v -> vfits v = true ->
  exists md w, helper_name f = Some md /\ csem_helper md wa wb = COk w /\ vrel v w.
Proof.
  intros Hin a b wa wb v Ha Hb Hg Hp Hf. destruct (op_guard_cases _ _ _ Hg) as [[k Hk]|[md Hh]].
  - destruct (bin_table _ _ _ _ Hin Hk) as [H0 _]. discriminate H0.
  - destruct (helper_table _ _ _ _ Hin Hh) as [_ Hn]. exists md.
    destruct (helper_num_sound _ _ _ _ _ _ _ Hh Ha Hb Hg Hp Hf) as (w & Hw & Hv & _). eauto.
Qed.

Lemma qnormal_eq q : qnormal q = true -> Qred q = q.
Proof.
  unfold qnormal. destruct (Qred q) as [n d]. destruct q as [n' d']. cbn [Qnum Qden].
  intro H. apply andb_true_iff in H as [H1 H2]. apply Z.eqb_eq in H1. apply Pos.eqb_eq in H2. congruence.
Qed.
Lemma Qred_idem q : Qred (Qred q) = Qred q.
Proof. apply Qred_complete. apply Qred_correct. Qed.
Lemma qnormal_red q : qnormal (Qred q) = true.
Proof.
  unfold qnormal. rewrite Qred_idem. rewrite Z.eqb_refl, Pos.eqb_refl. reflexivity.
Qed.

Lemma un_num_sound op k a wa v :
  uop op = Some k -> vrel a wa -> is_numv a = true -> py_un op a = Ok v -> vfits v = true ->
  exists w, csem_un_k k wa = COk w /\ vrel v w /\ ctype_un k (tag_of wa) = Some (tag_of w).
Proof.
  intros Hk Ha Hn Hp Hf.
  destruct op; cbn in Hk; inversion Hk; subst k; clear Hk;
  (destruct a; try discriminate Hn); (destruct wa; cbn in Ha; try contradiction); subst;
  cbn [py_un as_num truthy] in Hp; inversion Hp; subst; clear Hp; cbn [vfits] in Hf;
  cbn [csem_un_k as_int tag_of ctype_un is_intty is_numty truth cbind].
  all: try (rewrite (fits_mkint _ Hf); eexists; split; [reflexivity|split; reflexivity]).
  all: try (eexists; split; [reflexivity|split; reflexivity]).
  all: match goal with b : bool |- _ => destruct b end; (eexists; split; [reflexivity|split; reflexivity]).
Qed.

Lemma unop_table_sound op tok :
  In (op, tok) OpTables.un ->
  forall a wa v, vrel a wa -> is_numv a = true -> py_un op a = Ok v -> vfits v = true ->
  exists w, csem_un tok wa = COk w /\ vrel v w.
Proof.
  intros Hin a wa v Ha Hn Hp Hf. destruct (un_table _ _ Hin) as (k & Hk & Ht).
  unfold csem_un. rewrite Ht. destruct (un_num_sound _ _ _ _ _ Hk Ha Hn Hp Hf) as (w & H1 & H2 & _). eauto.
Qed.

Lemma cmp_sound op a b wa wb c :
  vrel a wa -> vrel b wb -> cmp_guard a b (tag_of wa) (tag_of wb) = true ->
  py_cmp op a b = Ok c -> ccmp op wa wb = COk c.
Proof.
  intros Ha Hb Hg Hp.
  destruct a; destruct b; try (cbn in Hg; discriminate Hg);
  (destruct wa; cbn in Ha; try contradiction); (destruct wb; cbn in Hb; try contradiction); subst;
  try (cbn in Hg; discriminate Hg);
  destruct op; cbn in Hp; try discriminate Hp; inversion Hp; subst; reflexivity.
Qed.

Lemma cmpop_table_sound op tok :
  In (op, tok) OpTables.cmp ->
  forall a b wa wb c, vrel a wa -> vrel b wb -> cmp_guard a b (tag_of wa) (tag_of wb) = true ->
  py_cmp op a b = Ok c -> exists op', cmptok tok = Some op' /\ ccmp op' wa wb = COk c.
Proof.
  intros Hin a b wa wb c Ha Hb Hg Hp. exists op. split; [apply cmp_table; exact Hin|].
  eapply cmp_sound; eauto.
Qed.

(* ------------------------------------------------------------------ *)
(* refutations: closed witnesses (empty environments)                   *)
(* ------------------------------------------------------------------ *)
Definition G0 : tcx := {| tc_types := []; tc_lens := [] |}.
(* what the firmware computes for a closed expression with the scripted readings [ins] *)
Definition c_of (e : pexpr) (ins : inputs) : option (cres (cval * inputs)) :=
  match to_c G0 e with TOk c => Some (crun [] [] c ins) | _ => None end.
Definition py_of (e : pexpr) : res pval := peval [] e.

Definition w_a0 : pexpr := ECall n_analog_read [EStr [65;48]] [].
Definition ins39 : inputs := [((true, 14), [3; 9; 1])].

(* // and % (repaired defects F-C01-floordiv, F-C01-mod-sign, F-C01-mod-float): the old witnesses now agree *)
Lemma floordiv_witness :
  py_of (EBin FloorDiv (EInt (-7)) (EInt 2)) = Ok (VInt (-4)) /\
  c_of (EBin FloorDiv (EInt (-7)) (EInt 2)) [] = Some (COk (CInt (-4), [])).
Proof. split; vm_compute; reflexivity. Qed.

Lemma floordiv_float_witness :
  py_of (EBin FloorDiv (EFloat (-7 # 4)) (EInt 2)) = Ok (VFloat (-1 # 1)) /\
  c_of (EBin FloorDiv (EFloat (-7 # 4)) (EInt 2)) [] = Some (COk (CFloat (-1 # 1), [])).
Proof. split; vm_compute; reflexivity. Qed.

Lemma mod_witness :
  py_of (EBin Mod (EInt (-7)) (EInt 3)) = Ok (VInt 2) /\
  c_of (EBin Mod (EInt (-7)) (EInt 3)) [] = Some (COk (CInt 2, [])).
Proof. split; vm_compute; reflexivity. Qed.

Lemma mod_float_witness :
  py_of (EBin Mod (EFloat (7 # 4)) (EInt 2)) = Ok (VFloat (7 # 4)) /\
  c_of (EBin Mod (EFloat (7 # 4)) (EInt 2)) [] = Some (COk (CFloat (7 # 4), [])).
Proof. split; vm_compute; reflexivity. Qed.

(* for all int operands: the closed expression a // b, a % b computes Python's value on the device *)
Lemma c_of_helper_int op md f a b :
  bin_tok op <> None -> bin_form op = Some (1, f) -> helper_name f = Some md ->
  fits a = true -> fits b = true -> b <> 0 -> fits (if md then c_mod a b else c_floordiv a b) = true ->
  c_of (EBin op (EInt a) (EInt b)) [] = Some (COk (CInt (if md then c_mod a b else c_floordiv a b), [])).
Proof.
  intros Ht Hf Hn Ha Hb Hb0 Hr. unfold c_of. cbn [to_c].
  assert (EW : add_wrap op (EInt a) (EInt b) = false) by (destruct op; reflexivity).
  destruct (bin_tok op); [|congruence]. cbn [tbind]. rewrite EW, Hf. cbn zeta.
  assert (Hmin : text_eqb f t_min || text_eqb f t_max = false).
  { unfold helper_name in Hn. destruct (text_eqb f t_floordiv) eqn:E1.
    - apply text_eqb_eq in E1. subst f. reflexivity.
    - destruct (text_eqb f t_mod) eqn:E2; [|discriminate]. apply text_eqb_eq in E2. subst f. reflexivity. }
  apply orb_false_iff in Hmin as [Hmin Hmax].
  unfold crun. cbn [ctype]. rewrite Hmin, Hmax, Hn, Ha, Hb. cbn [orb arith_ty is_numty is_intty andb].
  cbn [ceval]. rewrite Hmin, Hmax, Hn. unfold mkint at 1. rewrite Hb. cbn [cbind]. unfold mkint at 1. rewrite Ha. cbn [cbind].
  cbn [csem_helper tag_of arith_ty is_numty is_intty andb as_int].
  apply Z.eqb_neq in Hb0. rewrite Hb0. rewrite (fits_mkint _ Hr). reflexivity.
Qed.

Lemma floordiv_closed a b :
  fits a = true -> fits b = true -> b <> 0 -> fits (a / b) = true ->
  py_of (EBin FloorDiv (EInt a) (EInt b)) = Ok (VInt (a / b)) /\
  c_of (EBin FloorDiv (EInt a) (EInt b)) [] = Some (COk (CInt (a / b), [])).
Proof.
  intros Ha Hb Hb0 Hr. split.
  - unfold py_of. cbn. apply Z.eqb_neq in Hb0. rewrite Hb0. reflexivity.
  - destruct (bin_form FloorDiv) as [[kind f]|] eqn:Ef; [|vm_compute in Ef; discriminate Ef].
    destruct (helper_table _ _ _ false (bin_form_in _ _ Ef) eq_refl) as [-> Hn].
    rewrite <- (c_floordiv_div a b Hb0) in *.
    apply (c_of_helper_int FloorDiv false f a b); auto. vm_compute. discriminate.
Qed.

Lemma mod_closed a b :
  fits a = true -> fits b = true -> b <> 0 ->
  py_of (EBin Mod (EInt a) (EInt b)) = Ok (VInt (a mod b)) /\
  c_of (EBin Mod (EInt a) (EInt b)) [] = Some (COk (CInt (a mod b), [])).
Proof.
  intros Ha Hb Hb0. split.
  - unfold py_of. cbn. apply Z.eqb_neq in Hb0. rewrite Hb0. reflexivity.
  - destruct (bin_form Mod) as [[kind f]|] eqn:Ef; [|vm_compute in Ef; discriminate Ef].
    destruct (helper_table _ _ _ true (bin_form_in _ _ Ef) eq_refl) as [-> Hn].
    assert (Hr : fits (a mod b) = true).
    { unfold fits in *. apply andb_true_iff in Hb as [Hb1 Hb2]. apply Z.leb_le in Hb1, Hb2.
      apply andb_true_iff. split; apply Z.leb_le.
      - destruct (Z.ltb_spec 0 b); [pose proof (Z.mod_pos_bound a b); lia|pose proof (Z.mod_neg_bound a b); lia].
      - destruct (Z.ltb_spec 0 b); [pose proof (Z.mod_pos_bound a b); lia|pose proof (Z.mod_neg_bound a b); lia]. }
    rewrite <- (c_mod_mod a b Hb0) in *.
    apply (c_of_helper_int Mod true f a b); auto. vm_compute. discriminate.
Qed.

(* ** (repaired defect F-C01-pow): an expression with ** is never translated - the emitter raises ValueError (or the
   model does not transcribe an operand) *)
Lemma pow_rejected G a b c : to_c G (EBin Pow a b) <> TOk c.
Proof.
  intro H. cbn [to_c] in H. destruct (bin_tok Pow); [|discriminate H].
  apply tbind_ok in H as (a' & _ & H). apply tbind_ok in H as (b' & _ & H).
  destruct (bin_form Pow) as [[kind f]|] eqn:Ef; [|discriminate H].
  rewrite (pow_table _ _ (bin_form_in _ _ Ef)) in H. discriminate H.
Qed.

Lemma pow_witness : py_of (EBin Pow (EInt 7) (EInt 2)) = Ok (VInt 49) /\ to_c G0 (EBin Pow (EInt 7) (EInt 2)) = Rejected.
Proof. split; vm_compute; reflexivity. Qed.

Lemma truediv_refuted : exists a b : Z, b <> 0 /\
  py_of (EBin Div (EInt a) (EInt b)) = Ok (VFloat (7 # 2)) /\
  c_of (EBin Div (EInt a) (EInt b)) [] = Some (COk (CInt 3, [])).
Proof. exists 7, 2. split; [lia|]. split; vm_compute; reflexivity. Qed.

Lemma shift_range_refuted : exists a b : Z,
  py_of (EBin RShift (EInt a) (EInt b)) = Ok (VInt 0) /\
  c_of (EBin RShift (EInt a) (EInt b)) [] = Some CUndef.
Proof. exists 7, 33. split; vm_compute; reflexivity. Qed.

(* min(analog_read("A0"), 5): the argument alone reads 3, the macro reads twice (3, then 9) and yields 9 *)
Lemma minmax_double_eval_refuted : exists ins i1 i2,
  c_of w_a0 ins = Some (COk (CInt 3, i1)) /\
  c_of (ECall n_min [w_a0; EInt 5] []) ins = Some (COk (CInt 9, i2)) /\ i1 <> i2.
Proof. exists ins39. eexists. eexists. split; [vm_compute; reflexivity|]. split; [vm_compute; reflexivity|]. discriminate. Qed.

(* 0 < analog_read("A0") < 5: with the single reading 3 Python says True, the device reads 3 then 9 *)
Lemma chain_double_eval_refuted : exists ins i1 i2,
  c_of w_a0 ins = Some (COk (CInt 3, i1)) /\
  py_of (ECompare (EInt 0) [PyAst.Lt; PyAst.Lt] [EInt 3; EInt 5]) = Ok (VBool true) /\
  c_of (ECompare (EInt 0) [PyAst.Lt; PyAst.Lt] [w_a0; EInt 5]) ins = Some (COk (CBool false, i2)).
Proof. exists ins39. eexists. eexists. split; [vm_compute; reflexivity|]. split; vm_compute; reflexivity. Qed.

Lemma boolop_value_refuted : exists a b : Z,
  py_of (EBoolOp And [EInt a; EInt b]) = Ok (VInt 2) /\
  c_of (EBoolOp And [EInt a; EInt b]) [] = Some (COk (CBool true, [])).
Proof. exists 7, 2. split; vm_compute; reflexivity. Qed.

Lemma cond_mixed_refuted : exists e : pexpr,
  py_of e = Ok (VInt 7) /\ c_of e [] = Some (COk (CFloat (7 # 1), [])).
Proof. exists (EIfExp (EBool true) (EInt 7) (EFloat (5 # 2))). split; vm_compute; reflexivity. Qed.

Lemma str_bool_refuted : exists e : pexpr,
  py_of e = Ok (VStr t_True) /\ c_of e [] = Some (COk (CStr [49], [])).
Proof. exists (ECall n_str [EBool true] []). split; vm_compute; reflexivity. Qed.

(* "lit" + "lit" and int(<choice between literals>) (repaired defects F-C01-strlit-concat / F-C06-literal-concat and
   F-C01-int-strlit-cond): the old witnesses now compute Python's value; the general statements are in Proofs/ToCLitP.v *)
Lemma strlit_concat_witness :
  let e := EBin Add (EIfExp (EBool true) (EStr [97]) (EStr [98])) (EStr [99]) in
  py_of e = Ok (VStr [97; 99]) /\ c_of e [] = Some (COk (CStr [97; 99], [])) /\ expr_guard G0 [] e = true.
Proof. cbv zeta. split; [|split]; vm_compute; reflexivity. Qed.

Lemma int_strlit_cond_witness :
  let e := ECall n_int [EIfExp (EBool true) (EStr [49; 50]) (EStr [49; 51])] [] in
  py_of e = Ok (VInt 12) /\ c_of e [] = Some (COk (CInt 12, [])) /\ expr_guard G0 [] e = true.
Proof. cbv zeta. split; [|split]; vm_compute; reflexivity. Qed.

Lemma len_utf8_refuted : exists e : pexpr,
  py_of e = Ok (VInt 2) /\ c_of e [] = Some (COk (CInt 3, [])).
Proof. exists (ECall n_len [EBin Add (EStr [233]) (ECall n_str [EInt 2] [])] []). split; vm_compute; reflexivity. Qed.

(* the text of a value on the serial line: bool and float differ from Python's str() *)
Lemma serial_text_refuted :
  serial_text (CBool true) <> t_True /\ py_str (VBool true) = Ok t_True /\
  exists q, float_simple q = true /\ serial_text (CFloat q) <> float_text q.
Proof. split; [vm_compute; discriminate|]. split; [reflexivity|]. exists (5 # 2). split; [vm_compute; reflexivity|vm_compute; discriminate]. Qed.
