(* Unit C01_expr: value preservation of to_c inside expr_guard, by induction over expressions. *)
From Coq Require Import ZArith QArith Qround Qabs List Bool Lia.
From RV Require Import Base.Wire Base.Text Lang.PyAst Lang.PySem Lang.CAst Lang.CSem Lang.ToC Gen.OpTables Proofs.ToCP.
Import ListNotations.
Open Scope Z_scope.

(* ---- the local recursions of peval, as top-level functions ---- *)
Section PevalLists.
  Variable rho : env.
  Fixpoint evals' (l : list pexpr) : res (list pval) :=
    match l with [] => Ok [] | x :: r => do v <- peval rho x; do vs <- evals' r; Ok (v :: vs) end.
  Fixpoint evand' (l : list pexpr) (last : pval) : res pval :=
    match l with [] => Ok last | x :: r => do v <- peval rho x; if truthy v then evand' r v else Ok v end.
  Fixpoint evor' (l : list pexpr) (last : pval) : res pval :=
    match l with [] => Ok last | x :: r => do v <- peval rho x; if truthy v then Ok v else evor' r v end.
  Fixpoint chain' (left : pval) (ops : list cmpop) (rs : list pexpr) {struct rs} : res pval :=
    match rs, ops with
    | r :: rs', op :: ops' =>
        do rv <- peval rho r; do c <- py_cmp op left rv; if c then chain' rv ops' rs' else Ok (VBool false)
    | [], [] => Ok (VBool true)
    | _, _ => Err OutOfModel
    end.
  Fixpoint joined' (ps : list pexpr) : res text :=
    match ps with
    | [] => Ok []
    | p :: r =>
        do s <- match p with
                | EStr s => Ok s
                | EFmt true v => do x <- peval rho v; py_str x
                | _ => Err OutOfModel
                end;
        do t <- joined' r; Ok (s ++ t)
    end.

  Lemma peval_bin op a b : peval rho (EBin op a b) = do x <- peval rho a; do y <- peval rho b; py_bin op x y.
  Proof. reflexivity. Qed.
  Lemma peval_un op a : peval rho (EUn op a) = do x <- peval rho a; py_un op x.
  Proof. reflexivity. Qed.
  Lemma peval_and vs : peval rho (EBoolOp And vs) = evand' vs (VBool true).
  Proof. reflexivity. Qed.
  Lemma peval_or vs : peval rho (EBoolOp Or vs) = evor' vs (VBool false).
  Proof. reflexivity. Qed.
  Lemma peval_cmp l ops rs : peval rho (ECompare l ops rs) =
    match ops with [] => Err OutOfModel | _ => do lv <- peval rho l; chain' lv ops rs end.
  Proof. reflexivity. Qed.
  Lemma peval_if c a b : peval rho (EIfExp c a b) = do cv <- peval rho c; if truthy cv then peval rho a else peval rho b.
  Proof. reflexivity. Qed.
  Lemma peval_joined ps : peval rho (EJoined ps) = do s <- joined' ps; Ok (VStr s).
  Proof. reflexivity. Qed.
  Lemma peval_call f args : peval rho (ECall f args []) =
    match lookup f rho with Some _ => Err OutOfModel | None => do vs <- evals' args; py_call f vs end.
  Proof. reflexivity. Qed.
  Lemma peval_tuple es : peval rho (ETuple es) = do vs <- evals' es; Ok (VTuple vs).
  Proof. reflexivity. Qed.
  Lemma peval_list es : peval rho (EList es) = do vs <- evals' es; Ok (VList vs).
  Proof. reflexivity. Qed.
End PevalLists.

Lemma pv_some rho e x : pv rho e = Some x -> peval rho e = Ok x.
Proof. unfold pv. destruct (peval rho e); intro H; inversion H; reflexivity. Qed.

(* an expression the emitter treats as a C string literal (or a choice between two) denotes a string *)
Lemma charp_src_str rho e : forall y, charp_src e = true -> peval rho e = Ok y -> is_strv y = true.
Proof.
  induction e using pexpr_ind'; intros y Hc Hp; try discriminate Hc.
  - cbn in Hp. inversion Hp. reflexivity.
  - cbn [charp_src] in Hc. apply andb_true_iff in Hc as [Ha Hb].
    rewrite peval_if in Hp.
    match type of Hp with context [peval rho ?c0] => destruct (peval rho c0) as [cv|]; [|discriminate Hp] end.
    cbn [bind] in Hp. destruct (truthy cv); eauto.
  - rewrite peval_joined in Hp.
    match type of Hp with context [joined' rho ?l] => destruct (joined' rho l); [|discriminate Hp] end.
    cbn [bind] in Hp. inversion Hp. reflexivity.
Qed.

(* ---- static type of the result of an operator ---- *)
Lemma int_op_tag k x y w : int_op k x y = COk w -> tag_of w = TInt.
Proof.
  unfold int_op, mkint. intro H.
  destruct k; repeat match type of H with context [if ?c then _ else _] => destruct c end;
  inversion H; reflexivity.
Qed.
Lemma float_op_tag k p q w : float_op k p q = COk w -> tag_of w = TFloat.
Proof.
  unfold float_op, mkfloat. intro H.
  destruct k; repeat match type of H with context [if ?c then _ else _] => destruct c end;
  inversion H; reflexivity.
Qed.
Lemma csem_bin_k_tag k wa wb w :
  csem_bin_k k wa wb = COk w -> ctype_bin k (tag_of wa) (tag_of wb) = Some (tag_of w).
Proof.
  unfold csem_bin_k. destruct (ctype_bin k (tag_of wa) (tag_of wb)) as [[]|]; try discriminate.
  - destruct (as_int wa), (as_int wb); try discriminate. intro H. apply int_op_tag in H. rewrite H. reflexivity.
  - destruct (as_q wa), (as_q wb); try discriminate. intro H. apply float_op_tag in H. rewrite H. reflexivity.
  - destruct (as_text wa), (as_text wb); try discriminate. intro H. inversion H. reflexivity.
Qed.

(* ---- builtin calls: pure facts ---- *)
Lemma str_of_sound x w :
  (match x with VInt _ | VStr _ => true | _ => false end) = true -> vrel x w -> py_str x = Ok (string_of w).
Proof. destruct x; try discriminate; destruct w; cbn; try contradiction; intros; subst; reflexivity. Qed.

Lemma py_call_str x : py_call n_str [x] = do t <- py_str x; Ok (VStr t).
Proof. reflexivity. Qed.
Lemma py_call_bool x : py_call n_bool [x] = Ok (VBool (truthy x)).
Proof. reflexivity. Qed.
Lemma py_call_len x : py_call n_len [x] =
  match x with VStr t => Ok (VInt (Z.of_nat (length t))) | VList l | VTuple l => Ok (VInt (Z.of_nat (length l))) | _ => Err TypeErr end.
Proof. destruct x; reflexivity. Qed.

Lemma cast_int_sound x w v :
  is_numv x = true -> vrel x w -> py_call n_int [x] = Ok v -> vfits v = true ->
  exists w', cast TInt w = COk w' /\ vrel v w' /\ tag_of w' = TInt.
Proof.
  intros Hn Hr Hp Hf.
  destruct x; try discriminate Hn; (destruct w; cbn in Hr; try contradiction); subst;
  change (py_call n_int [?y]) with (match y with VInt z => Ok (VInt z) | VBool b => Ok (VInt (if b then 1 else 0))
     | VFloat q => Ok (VInt (qtrunc q)) | VStr t => do z <- parse_int t; Ok (VInt z) | _ => Err TypeErr end) in Hp;
  cbn beta iota in Hp; inversion Hp; subst; cbn [vfits] in Hf; cbn [cast as_int].
  all: try (rewrite (fits_mkint _ Hf)).
  all: eexists; (split; [reflexivity|split; [cbn; reflexivity|reflexivity]]).
Qed.

Lemma cast_float_sound x w v :
  is_numv x = true -> vrel x w -> py_call n_float [x] = Ok v ->
  exists w', cast TFloat w = COk w' /\ vrel v w' /\ tag_of w' = TFloat /\ vfits v = true.
Proof.
  intros Hn Hr Hp.
  destruct x; try discriminate Hn; (destruct w; cbn in Hr; try contradiction); subst;
  change (py_call n_float [?y]) with (match y with VStr _ => Err OutOfModel | v0 => match as_num v0 with Some n => Ok (vfloat (qof n)) | None => Err TypeErr end end) in Hp;
  cbn beta iota in Hp; cbn [as_num qof] in Hp; inversion Hp; subst; cbn [cast as_q];
  eexists; (split; [reflexivity|split; [cbn; reflexivity|split; [reflexivity|apply qnormal_red]]]).
Qed.

Lemma utf8_len_ascii t : ascii t = true -> utf8_len t = Z.of_nat (length t).
Proof.
  induction t as [|c r IH]; [reflexivity|].
  unfold ascii in *. cbn [forallb]. intro H. apply andb_true_iff in H as [H1 H2].
  apply andb_true_iff in H1 as [_ H1]. specialize (IH H2).
  unfold utf8_len in *. cbn [fold_right length]. rewrite IH. unfold utf8_width. rewrite H1. lia.
Qed.

Lemma evals_length rho es vs : evals' rho es = Ok vs -> length vs = length es.
Proof.
  revert vs. induction es as [|e r IH]; intros vs H; cbn in H.
  - inversion H. reflexivity.
  - destruct (peval rho e); [|discriminate]. cbn in H. destruct (evals' rho r) as [vr|]; [|discriminate].
    cbn in H. inversion H. cbn. rewrite (IH _ eq_refl). reflexivity.
Qed.

Lemma ccmp_gt0_int z : ccmp PyAst.Gt (CInt z) (CInt 0) = COk (0 <? z).
Proof.
  unfold ccmp. cbn [as_q]. unfold Qcompare. cbn [Qnum Qden inject_Z]. rewrite Z.mul_1_r. cbn [Z.mul].
  destruct (Z.compare_spec z 0), (Z.ltb_spec 0 z); cbn; try reflexivity; lia.
Qed.
Lemma ccmp_gt0_float q : ccmp PyAst.Gt (CFloat q) (CInt 0) = COk (0 <? Qnum q).
Proof.
  unfold ccmp. cbn [as_q]. unfold Qcompare. cbn [Qnum Qden inject_Z]. rewrite Z.mul_1_r. cbn [Z.mul].
  destruct (Z.compare_spec (Qnum q) 0), (Z.ltb_spec 0 (Qnum q)); cbn; try reflexivity; lia.
Qed.
Lemma Qabs_pos q : 0 < Qnum q -> Qabs q = q.
Proof. destruct q as [n d]. cbn. intro H. rewrite Z.abs_eq by lia. reflexivity. Qed.
Lemma Qabs_nonpos q : Qnum q <= 0 -> Qabs q = Qopp q.
Proof. destruct q as [n d]. cbn. intro H. rewrite Z.abs_neq by lia. reflexivity. Qed.

Lemma qcompare_inj_eq i j : Qcompare (inject_Z i) (inject_Z j) = Datatypes.Eq -> i = j.
Proof. unfold Qcompare. cbn [Qnum Qden inject_Z]. rewrite !Z.mul_1_r. apply Z.compare_eq. Qed.

Lemma tie_convert ty x y wa wb nx ny :
  kind_ok (Some (tag_of wa)) (Some (tag_of wb)) = true -> common_ty (tag_of wa) (tag_of wb) = Some ty ->
  vrel x wa -> vrel y wb -> as_num x = Some nx -> as_num y = Some ny ->
  Qcompare (qof nx) (qof ny) = Datatypes.Eq -> vfits x = true ->
  exists w', convert ty wb = COk w' /\ vrel x w' /\ tag_of w' = ty.
Proof.
  intros Hk Hc Hrx Hry Hnx Hny Hq Hf.
  destruct x; try discriminate Hnx; destruct y; try discriminate Hny;
  (destruct wa; cbn in Hrx; try contradiction); (destruct wb; cbn in Hry; try contradiction); subst;
  cbn in Hk; try discriminate Hk; cbn in Hc; inversion Hc; subst ty; clear Hc;
  cbn [as_num] in Hnx, Hny; inversion Hnx; inversion Hny; subst nx ny; cbn [qof] in Hq.
  all: try (apply qcompare_inj_eq in Hq;
            repeat match goal with b : bool |- _ => destruct b end; try discriminate Hq; subst;
            eexists; (split; [reflexivity|split; reflexivity])).
  (* float / float *)
  apply Qeq_alt in Hq. apply Qred_complete in Hq. cbn [vfits] in Hf. apply qnormal_eq in Hf.
  eexists. split; [reflexivity|]. split; [|reflexivity]. cbn. congruence.
Qed.

Lemma py_cmp_num op a b na nb : cmpop_code op <> 6 -> as_num a = Some na -> as_num b = Some nb ->
  py_cmp op a b = Ok (cmp_of op (Qcompare (qof na) (qof nb))).
Proof. intros Ho Ha Hb. unfold py_cmp. rewrite Ha, Hb. destruct op; try reflexivity. cbn in Ho. congruence. Qed.

Lemma ccmp_num op wa wb p q : as_q wa = Some p -> as_q wb = Some q -> ccmp op wa wb = COk (cmp_of op (Qcompare p q)).
Proof. intros Ha Hb. unfold ccmp. rewrite Ha, Hb. reflexivity. Qed.

Lemma numv_as_num x : is_numv x = true -> exists n, as_num x = Some n.
Proof. destruct x; try discriminate; cbn; eauto. Qed.

Section Preserve.
  Variables (G : tcx) (rho : env) (s : cenv) (ins : inputs).
  Hypothesis HR : env_rel G rho s.
  Notation T := (tc_types G).

  Definition good (c : cexpr) (v : pval) : Prop :=
    vfits v = true /\ exists w, ceval T s c ins = COk (w, ins) /\ vrel v w /\ ctype T c = Some (tag_of w).

  Definition P (e : pexpr) : Prop :=
    forall c v, to_c G e = TOk c -> expr_guard G rho e = true -> peval rho e = Ok v -> good c v.

  Lemma sty_of e c t : to_c G e = TOk c -> sty G e = Some t -> ctype T c = Some t.
  Proof. unfold sty. intros ->. auto. Qed.

  Lemma P_int z : P (EInt z).
  Proof.
    intros c v Ht Hg Hp. cbn in Ht, Hg, Hp. inversion Ht; inversion Hp; subst. split; [exact Hg|].
    exists (CInt z). cbn [ceval ctype]. rewrite (fits_mkint _ Hg), Hg. cbn. auto.
  Qed.
  Lemma P_bool b : P (EBool b).
  Proof.
    intros c v Ht Hg Hp. cbn in Ht, Hp. inversion Ht; inversion Hp; subst. split; [reflexivity|].
    exists (CBool b). cbn. auto.
  Qed.
  Lemma P_float q : P (EFloat q).
  Proof.
    intros c v Ht Hg Hp. cbn [to_c] in Ht. destruct (float_simple q); [|discriminate].
    cbn in Hp. inversion Ht; inversion Hp; subst. split; [apply qnormal_red|].
    exists (CFloat (Qred q)). repeat split; reflexivity.
  Qed.
  Lemma P_str t : P (EStr t).
  Proof.
    intros c v Ht Hg Hp. cbn in Ht, Hg, Hp. inversion Ht; inversion Hp; subst. split; [reflexivity|].
    exists (CLit t). cbn [ceval ctype]. rewrite Hg. cbn. auto.
  Qed.
  Lemma P_name x : P (EName x).
  Proof.
    intros c v Ht Hg Hp. cbn in Ht, Hg, Hp. inversion Ht; subst c.
    destruct (lookup x rho) as [v'|] eqn:E; [|discriminate]. inversion Hp; subst v'.
    split; [exact Hg|]. destruct HR as [H1 _]. destruct (H1 _ _ E Hg) as (w & Hw & Hr & Hty).
    exists w. cbn [ceval ctype]. rewrite Hw. auto.
  Qed.

  Lemma helper_not_minmax f md : helper_name f = Some md -> text_eqb f t_min = false /\ text_eqb f t_max = false.
  Proof.
    unfold helper_name. destruct (text_eqb f t_floordiv) eqn:E1.
    - apply text_eqb_eq in E1. subst f. intros _. split; reflexivity.
    - destruct (text_eqb f t_mod) eqn:E2; [|discriminate]. apply text_eqb_eq in E2. subst f. intros _. split; reflexivity.
  Qed.

  Lemma P_bin op a b : P a -> P b -> P (EBin op a b).
  Proof.
    intros IHa IHb c v Ht Hg Hp.
    cbn [to_c] in Ht. destruct (bin_tok op) as [tok0|] eqn:Etok; [|discriminate].
    apply tbind_ok in Ht as (a' & Ha' & Ht). apply tbind_ok in Ht as (b' & Hb' & Ht).
    cbn [expr_guard] in Hg.
    apply andb_true_iff in Hg as [Hg Hg3]. apply andb_true_iff in Hg as [Hga Hgb].
    destruct (pv rho a) as [x|] eqn:Ex; [|discriminate]. destruct (pv rho b) as [y|] eqn:Ey; [|discriminate].
    destruct (sty G a) as [ta|] eqn:Eta; [|discriminate]. destruct (sty G b) as [tb|] eqn:Etb; [|discriminate].
    apply andb_true_iff in Hg3 as [Hbg Hrf].
    apply pv_some in Ex. apply pv_some in Ey.
    rewrite peval_bin, Ex, Ey in Hp. cbn [bind] in Hp.
    destruct (IHa _ _ Ha' Hga Ex) as (Hfx & wa & Hca & Hra & Hta).
    destruct (IHb _ _ Hb' Hgb Ey) as (Hfy & wb & Hcb & Hrb & Htb).
    rewrite Hp in Hrf. cbn [res_fits] in Hrf.
    rewrite (sty_of _ _ _ Ha' Eta) in Hta. rewrite (sty_of _ _ _ Hb' Etb) in Htb.
    inversion Hta; inversion Htb; subst ta tb.
    split; [exact Hrf|].
    destruct (bin_form op) as [[kind tok]|] eqn:Ef; [|discriminate Ht].
    pose proof (bin_form_in _ _ Ef) as Hin.
    destruct (add_wrap op a b) eqn:EW.
    { (* "lit" + "lit": the left operand is wrapped as String(...) *)
      assert (op = Add) by (destruct op; try discriminate EW; reflexivity). subst op.
      destruct (bin_table _ _ _ KAdd Hin eq_refl) as [-> Hbt]. inversion Ht; subst c; clear Ht.
      unfold bin_guard in Hbg. destruct (is_numv x && is_numv y) eqn:En.
      - cbn [add_wrap] in EW. apply andb_true_iff in EW as [EWa _].
        pose proof (charp_src_str _ _ _ EWa Ex) as Hsx. destruct x; discriminate.
      - apply andb_true_iff in Hbg as [Hbg _]. apply andb_true_iff in Hbg as [Hsx Hsy].
        destruct x; try discriminate Hsx. destruct y; try discriminate Hsy.
        cbn in Hp. inversion Hp; subst v.
        exists (CStr (s0 ++ s1)). cbn [ceval ctype]. rewrite Hbt, Hca. cbn [cbind]. rewrite Hcb. cbn [cbind].
        rewrite (sty_of _ _ _ Ha' Eta), (sty_of _ _ _ Hb' Etb).
        destruct wa; cbn in Hra; try contradiction; destruct wb; cbn in Hrb; try contradiction; subst;
          cbn; repeat split; reflexivity. }
    (* which form the operator must have: infix with a known C++ operator, or a helper template *)
    assert (Hform : (exists k, kop op = Some k) \/ (exists md, hop op = Some md /\ is_numv x && is_numv y = true)).
    { unfold bin_guard in Hbg. destruct (is_numv x && is_numv y) eqn:En.
      - destruct (op_guard_cases _ _ _ Hbg) as [Hk|[md Hh]]; [left; exact Hk|right; eauto].
      - destruct op; try discriminate Hbg. left. eexists. reflexivity. }
    destruct Hform as [[k Hk]|[md [Hh En]]].
    - (* infix *)
      destruct (bin_table _ _ _ _ Hin Hk) as [-> Hbt]. inversion Ht; subst c; clear Ht.
      assert (Hsem : exists w, csem_bin_k k wa wb = COk w /\ vrel v w).
      { unfold bin_guard in Hbg. destruct (is_numv x && is_numv y) eqn:En.
        - exact (bin_num_sound _ _ _ _ _ _ _ Hk Hra Hrb Hbg Hp Hrf).
        - destruct op; try discriminate Hbg. cbn in Hk. inversion Hk; subst k.
          apply andb_true_iff in Hbg as [Hbg Hnl]. apply andb_true_iff in Hbg as [Hsx Hsy].
          destruct x; try discriminate Hsx. destruct y; try discriminate Hsy.
          cbn in Hp. inversion Hp; subst v.
          eexists.
          destruct wa; cbn in Hra; try contradiction; destruct wb; cbn in Hrb; try contradiction; subst;
          try (cbn in Hnl; discriminate Hnl); (split; [reflexivity|reflexivity]). }
      destruct Hsem as (w & Hsem & Hv).
      exists w. cbn [ceval ctype]. rewrite Hbt, Hca. cbn [cbind]. rewrite Hcb. cbn [cbind]. rewrite Hsem. cbn [cbind].
      split; [reflexivity|]. split; [exact Hv|].
      rewrite (sty_of _ _ _ Ha' Eta), (sty_of _ _ _ Hb' Etb). apply csem_bin_k_tag. exact Hsem.
    - (* helper template: both arguments are evaluated (no readings consumed), then the template *)
      destruct (helper_table _ _ _ _ Hin Hh) as [-> Hn]. inversion Ht; subst c; clear Ht.
      unfold bin_guard in Hbg. rewrite En in Hbg.
      destruct (helper_num_sound _ _ _ _ _ _ _ Hh Hra Hrb Hbg Hp Hrf) as (w & Hsem & Hv & Hty).
      destruct (helper_not_minmax _ _ Hn) as [Hmin Hmax].
      exists w. cbn [ceval ctype]. rewrite Hmin, Hmax, Hn. cbn [orb].
      rewrite Hcb. cbn [cbind]. rewrite Hca. cbn [cbind]. rewrite Hsem. cbn [cbind].
      split; [reflexivity|]. split; [exact Hv|].
      rewrite (sty_of _ _ _ Ha' Eta), (sty_of _ _ _ Hb' Etb). exact Hty.
  Qed.

  Lemma P_un op a : P a -> P (EUn op a).
  Proof.
    intros IHa c v Ht Hg Hp.
    cbn [to_c] in Ht. destruct (un_tok op) as [tok|] eqn:Etok; [|discriminate].
    apply tbind_ok in Ht as (a' & Ha' & Ht). inversion Ht; subst c; clear Ht.
    cbn [expr_guard] in Hg. apply andb_true_iff in Hg as [Hga Hg].
    destruct (pv rho a) as [x|] eqn:Ex; [|discriminate]. apply andb_true_iff in Hg as [Hn Hrf].
    apply pv_some in Ex. rewrite peval_un, Ex in Hp. cbn [bind] in Hp.
    destruct (IHa _ _ Ha' Hga Ex) as (Hfx & wa & Hca & Hra & Hta).
    rewrite Hp in Hrf. cbn [res_fits] in Hrf.
    destruct (un_table _ _ (un_tok_in _ _ Etok)) as (k & Hk & Hut).
    destruct (un_num_sound _ _ _ _ _ Hk Hra Hn Hp Hrf) as (w & Hw & Hv & Hty).
    split; [exact Hrf|]. exists w. cbn [ceval ctype]. rewrite Hut, Hca. cbn [cbind]. rewrite Hw. cbn [cbind].
    split; [reflexivity|]. split; [exact Hv|]. rewrite Hta. exact Hty.
  Qed.

  (* ---- conditional expression ---- *)
  Lemma kind_common ta tb : kind_ok (Some ta) (Some tb) = true -> exists ty, common_ty ta tb = Some ty.
  Proof. destruct ta, tb; cbn; intro H; try discriminate; eauto. Qed.

  Lemma convert_common ta tb ty v w :
    kind_ok (Some ta) (Some tb) = true -> common_ty ta tb = Some ty -> vrel v w -> vfits v = true ->
    (tag_of w = ta \/ tag_of w = tb) ->
    exists w', convert ty w = COk w' /\ vrel v w' /\ tag_of w' = ty.
  Proof.
    intros Hk Hc Hr Hf Ht.
    destruct ta, tb; cbn in Hk; try discriminate Hk; cbn in Hc; inversion Hc; subst ty; clear Hc;
    destruct Ht as [Ht|Ht]; (destruct w; cbn in Ht; try discriminate Ht);
    (destruct v; cbn in Hr; try contradiction); subst; cbn [convert as_int as_q as_text];
    try (eexists; split; [reflexivity|split; [cbn; reflexivity|reflexivity]]).
    all: cbn in Hf; eexists; (split; [reflexivity|split; [cbn; symmetry; apply qnormal_eq; exact Hf|reflexivity]]).
  Qed.

  Lemma numty_truthable t : is_numty t = true -> truthable t = true.
  Proof. destruct t; cbn; intro H; try discriminate; reflexivity. Qed.

  Lemma P_if c0 a b : P c0 -> P a -> P b -> P (EIfExp c0 a b).
  Proof.
    intros IHc IHa IHb c v Ht Hg Hp.
    cbn [to_c] in Ht.
    apply tbind_ok in Ht as (c' & Hc' & Ht). apply tbind_ok in Ht as (a' & Ha' & Ht).
    apply tbind_ok in Ht as (b' & Hb' & Ht). inversion Ht; subst c; clear Ht.
    cbn [expr_guard] in Hg. apply andb_true_iff in Hg as [Hgc Hg].
    destruct (pv rho c0) as [cv|] eqn:Ec; [|discriminate].
    apply andb_true_iff in Hg as [Hg Hgbr]. apply andb_true_iff in Hg as [Hn Hk].
    destruct (sty G a) as [ta|] eqn:Eta; [|cbn in Hk; discriminate].
    destruct (sty G b) as [tb|] eqn:Etb; [|cbn in Hk; destruct ta; discriminate].
    apply pv_some in Ec. rewrite peval_if, Ec in Hp. cbn [bind] in Hp.
    destruct (IHc _ _ Hc' Hgc Ec) as (Hfc & wc & Hcc & Hrc & Htc).
    pose proof (vrel_truth _ _ Hrc Hn) as Htr.
    destruct (vrel_tag_num _ _ Hrc Hn) as [Hnt _].
    destruct (kind_common _ _ Hk) as [ty Hty].
    pose proof (sty_of _ _ _ Ha' Eta) as Hsa. pose proof (sty_of _ _ _ Hb' Etb) as Hsb.
    assert (Hbr : exists wbr, (if truthy cv then ceval T s a' ins else ceval T s b' ins) = COk (wbr, ins)
                   /\ vrel v wbr /\ vfits v = true /\ (tag_of wbr = ta \/ tag_of wbr = tb)).
    { destruct (truthy cv).
      - destruct (IHa _ _ Ha' Hgbr Hp) as (Hfa & wa & Hca & Hra & Hta). exists wa.
        rewrite Hsa in Hta. inversion Hta. auto.
      - destruct (IHb _ _ Hb' Hgbr Hp) as (Hfb & wb & Hcb & Hrb & Htb). exists wb.
        rewrite Hsb in Htb. inversion Htb. auto. }
    destruct Hbr as (wbr & Hev & Hrv & Hfv & Htag).
    destruct (convert_common _ _ _ _ _ Hk Hty Hrv Hfv Htag) as (w' & Hcv & Hrv' & Htag').
    split; [exact Hfv|]. exists w'.
    cbn [ceval ctype]. unfold eval_cond. rewrite Hsa, Hsb, Hty, Hcc. cbn [cbind]. rewrite Htr. cbn [cbind].
    rewrite Hev. cbn [cbind]. rewrite Hcv. cbn [cbind].
    split; [reflexivity|]. split; [exact Hrv'|].
    rewrite Htc, (numty_truthable _ Hnt), Htag'. reflexivity.
  Qed.

  (* ---- and / or ---- *)
  Lemma and_sound vs : Forall P vs -> forall cs v,
    tseq (map (to_c G) vs) = TOk cs -> guard_bools (expr_guard G rho) rho true vs = true ->
    evand' rho vs (VBool true) = Ok v ->
    exists b, v = VBool b /\ eval_and (ceval T s) cs ins = COk (CBool b, ins).
  Proof.
    induction 1 as [|x r Hx Hr IH]; intros cs v Ht Hg Hp.
    - cbn in Ht, Hp. inversion Ht; inversion Hp; subst. exists true. auto.
    - cbn [map tseq] in Ht. apply tbind_ok in Ht as (cx & Hcx & Ht). apply tbind_ok in Ht as (cr & Hcr & Ht).
      inversion Ht; subst cs; clear Ht.
      cbn [guard_bools] in Hg. apply andb_true_iff in Hg as [Hgx Hg].
      destruct (pv rho x) as [vx|] eqn:Ex; [|discriminate]. destruct vx; try discriminate Hg.
      apply pv_some in Ex. cbn [evand'] in Hp. rewrite Ex in Hp. cbn [bind truthy] in Hp.
      destruct (Hx _ _ Hcx Hgx Ex) as (_ & wx & Hcwx & Hrx & _).
      pose proof (vrel_truth _ _ Hrx eq_refl) as Htr. cbn [truthy] in Htr.
      cbn [eval_and]. rewrite Hcwx. cbn [cbind]. rewrite Htr. cbn [cbind].
      destruct b; cbn [Bool.eqb] in Hg.
      + apply (IH _ _ Hcr Hg Hp).
      + inversion Hp. exists false. auto.
  Qed.

  Lemma or_sound vs : Forall P vs -> forall cs v,
    tseq (map (to_c G) vs) = TOk cs -> guard_bools (expr_guard G rho) rho false vs = true ->
    evor' rho vs (VBool false) = Ok v ->
    exists b, v = VBool b /\ eval_or (ceval T s) cs ins = COk (CBool b, ins).
  Proof.
    induction 1 as [|x r Hx Hr IH]; intros cs v Ht Hg Hp.
    - cbn in Ht, Hp. inversion Ht; inversion Hp; subst. exists false. auto.
    - cbn [map tseq] in Ht. apply tbind_ok in Ht as (cx & Hcx & Ht). apply tbind_ok in Ht as (cr & Hcr & Ht).
      inversion Ht; subst cs; clear Ht.
      cbn [guard_bools] in Hg. apply andb_true_iff in Hg as [Hgx Hg].
      destruct (pv rho x) as [vx|] eqn:Ex; [|discriminate]. destruct vx; try discriminate Hg.
      apply pv_some in Ex. cbn [evor'] in Hp. rewrite Ex in Hp. cbn [bind truthy] in Hp.
      destruct (Hx _ _ Hcx Hgx Ex) as (_ & wx & Hcwx & Hrx & _).
      pose proof (vrel_truth _ _ Hrx eq_refl) as Htr. cbn [truthy] in Htr.
      cbn [eval_or]. rewrite Hcwx. cbn [cbind]. rewrite Htr. cbn [cbind].
      destruct b; cbn [Bool.eqb] in Hg.
      + inversion Hp. exists true. auto.
      + apply (IH _ _ Hcr Hg Hp).
  Qed.

  Lemma P_boolop op vs : Forall P vs -> P (EBoolOp op vs).
  Proof.
    intros IH c v Ht Hg Hp.
    assert (Hwt : forall t, sty G (EBoolOp op vs) = Some t -> ctype T c = Some t).
    { intros t. apply sty_of. exact Ht. }
    cbn [to_c] in Ht. apply tbind_ok in Ht as (cs & Hcs & Ht). inversion Ht; subst c; clear Ht.
    cbn [expr_guard] in Hg. destruct vs as [|x r] eqn:Evs; [discriminate|]. rewrite <- Evs in *.
    apply andb_true_iff in Hg as [Hw Hg]. unfold wt in Hw.
    destruct (sty G (EBoolOp op vs)) as [t|] eqn:Est; [|discriminate]. specialize (Hwt _ eq_refl).
    destruct op.
    - rewrite peval_and in Hp. destruct (and_sound _ IH _ _ Hcs Hg Hp) as (b & -> & Hev).
      split; [reflexivity|]. exists (CBool b).
      cbn [ctype] in Hwt. cbn [ceval]. destruct cs as [|c0 cr]; [discriminate|].
      split; [exact Hev|]. split; [reflexivity|].
      cbn [ctype]. destruct (forallb _ (c0 :: cr)); [reflexivity|discriminate].
    - rewrite peval_or in Hp. destruct (or_sound _ IH _ _ Hcs Hg Hp) as (b & -> & Hev).
      split; [reflexivity|]. exists (CBool b).
      cbn [ctype] in Hwt. cbn [ceval]. destruct cs as [|c0 cr]; [discriminate|].
      split; [exact Hev|]. split; [reflexivity|].
      cbn [ctype]. destruct (forallb _ (c0 :: cr)); [reflexivity|discriminate].
  Qed.

  (* ---- comparison chains ---- *)
  Lemma chain_sound rs : Forall P rs -> forall ops ls lv el wl v,
    el ins = COk (wl, ins) -> vrel lv wl ->
    to_links (to_c G) ops rs = TOk ls ->
    guard_chain (expr_guard G rho) rho G lv (tag_of wl) ops rs = true ->
    chain' rho lv ops rs = Ok v ->
    exists b, v = VBool b /\ eval_chain (ceval T s) el ls ins = COk (CBool b, ins).
  Proof.
    induction 1 as [|r rs' Hx Hr IH]; intros ops ls lv el wl v Hel Hrl Ht Hg Hp.
    - destruct ops; cbn in Hg; [|discriminate]. cbn in Ht, Hp. inversion Ht; inversion Hp; subst.
      exists true. auto.
    - destruct ops as [|op ops']; [cbn in Hg; discriminate|].
      cbn [to_links] in Ht. destruct (cmp_tok op) as [tok|] eqn:Etok; [|discriminate].
      apply tbind_ok in Ht as (r' & Hr' & Ht). apply tbind_ok in Ht as (ls' & Hls' & Ht).
      inversion Ht; subst ls; clear Ht.
      cbn [guard_chain] in Hg. apply andb_true_iff in Hg as [Hgr Hg].
      destruct (pv rho r) as [rv|] eqn:Er; [|discriminate].
      destruct (sty G r) as [tr|] eqn:Etr; [|discriminate].
      apply andb_true_iff in Hg as [Hcg Hg].
      apply pv_some in Er. cbn [chain'] in Hp. rewrite Er in Hp. cbn [bind] in Hp.
      destruct (py_cmp op lv rv) as [cb|] eqn:Ecmp; [|discriminate]. cbn [bind] in Hp.
      destruct (Hx _ _ Hr' Hgr Er) as (_ & wr & Hcr & Hrr & Htr).
      rewrite (sty_of _ _ _ Hr' Etr) in Htr. inversion Htr; subst tr.
      pose proof (cmp_sound _ _ _ _ _ _ Hrl Hrr Hcg Ecmp) as Hcc.
      cbn [eval_chain]. rewrite (cmp_table _ _ (cmp_tok_in _ _ Etok)).
      unfold eval_cmp2. rewrite Hel. cbn [cbind]. rewrite Hcr. cbn [cbind]. rewrite Hcc. cbn [cbind].
      destruct cb.
      + apply (IH _ _ _ _ _ _ Hcr Hrr Hls' Hg Hp).
      + inversion Hp. exists false. auto.
  Qed.

  Lemma P_compare l ops rs : P l -> Forall P rs -> P (ECompare l ops rs).
  Proof.
    intros IHl IH c v Ht Hg Hp.
    assert (Hwt : forall t, sty G (ECompare l ops rs) = Some t -> ctype T c = Some t).
    { intros t. apply sty_of. exact Ht. }
    cbn [to_c] in Ht. apply tbind_ok in Ht as (l' & Hl' & Ht). apply tbind_ok in Ht as (ls & Hls & Ht).
    inversion Ht; subst c; clear Ht.
    cbn [expr_guard] in Hg. apply andb_true_iff in Hg as [Hg Hgc]. apply andb_true_iff in Hg as [Hw Hgl].
    unfold wt in Hw. destruct (sty G (ECompare l ops rs)) as [t|] eqn:Est; [|discriminate]. specialize (Hwt _ eq_refl).
    destruct ops as [|op ops'] eqn:Eops; [discriminate|]. rewrite <- Eops in *.
    destruct (pv rho l) as [lv|] eqn:El; [|discriminate].
    destruct (sty G l) as [tl|] eqn:Etl; [|discriminate].
    apply pv_some in El. rewrite peval_cmp in Hp. rewrite Eops in Hp. rewrite <- Eops in Hp.
    rewrite El in Hp. cbn [bind] in Hp.
    destruct (IHl _ _ Hl' Hgl El) as (_ & wl & Hcl & Hrl & Htl).
    rewrite (sty_of _ _ _ Hl' Etl) in Htl. inversion Htl; subst tl.
    destruct (chain_sound _ IH _ _ _ _ _ _ Hcl Hrl Hls Hgc Hp) as (b & -> & Hev).
    split; [reflexivity|]. exists (CBool b).
    cbn [ctype] in Hwt. cbn [ceval]. destruct ls as [|l0 lr]; [discriminate|].
    split; [exact Hev|]. split; [reflexivity|].
    cbn [ctype]. cbn [tag_of].
    match type of Hwt with (if ?g then _ else _) = _ => destruct g; [reflexivity|discriminate] end.
  Qed.


  (* ---- builtin calls ---- *)
  Ltac tq H :=
    repeat match type of H with
           | context [text_eqb ?a ?b] => let r := eval vm_compute in (text_eqb a b) in change (text_eqb a b) with r in H
           end; cbn [orb andb negb] in H.

  Ltac call_prelude IHa c v Ht Hg Hp a' Ha' :=
    intros IHa c v Ht Hg Hp; pose proof Ht as Ht0;
    cbn [to_c] in Ht; tq Ht; cbn [expr_guard] in Hg; tq Hg;
    rewrite peval_call in Hp; (destruct (lookup _ rho); [discriminate Hp|]); cbn [evals'] in Hp.

  Lemma P_call_str a : P a -> P (ECall n_str [a] []).
  Proof.
    call_prelude IHa c v Ht Hg Hp a' Ha'.
    apply tbind_ok in Ht as (a' & Ha' & Ht). inversion Ht; subst c; clear Ht.
    apply andb_true_iff in Hg as [Hga Hx]. destruct (pv rho a) as [x|] eqn:Ex; [|discriminate]. apply pv_some in Ex.
    rewrite Ex in Hp. cbn [bind] in Hp. rewrite py_call_str in Hp.
    destruct (IHa _ _ Ha' Hga Ex) as (_ & wa & Hca & Hra & Hta).
    rewrite (str_of_sound _ _ Hx Hra) in Hp. cbn [bind] in Hp. inversion Hp; subst v.
    split; [reflexivity|]. exists (CStr (string_of wa)). cbn [ceval ctype]. rewrite Hca, Hta. cbn [cbind]. repeat split; try reflexivity; auto.
  Qed.

  Lemma P_call_bool a : P a -> P (ECall n_bool [a] []).
  Proof.
    call_prelude IHa c v Ht Hg Hp a' Ha'.
    apply tbind_ok in Ht as (a' & Ha' & Ht). inversion Ht; subst c; clear Ht.
    apply andb_true_iff in Hg as [Hga Hx]. destruct (pv rho a) as [x|] eqn:Ex; [|discriminate]. apply pv_some in Ex.
    rewrite Ex in Hp. cbn [bind] in Hp. rewrite py_call_bool in Hp. inversion Hp; subst v.
    destruct (IHa _ _ Ha' Hga Ex) as (_ & wa & Hca & Hra & Hta).
    destruct (vrel_tag_num _ _ Hra Hx) as [Hnt _].
    split; [reflexivity|]. exists (CBool (truthy x)). cbn [ceval ctype cast]. rewrite Hca, Hta. cbn [cbind].
    rewrite (vrel_truth _ _ Hra Hx). cbn [cbind]. unfold castable. rewrite (numty_truthable _ Hnt). repeat split; try reflexivity; auto.
  Qed.

  Lemma P_call_float a : P a -> P (ECall n_float [a] []).
  Proof.
    call_prelude IHa c v Ht Hg Hp a' Ha'.
    apply tbind_ok in Ht as (a' & Ha' & Ht).
    apply andb_true_iff in Hg as [Hga Hx]. destruct (pv rho a) as [x|] eqn:Ex; [|discriminate]. apply pv_some in Ex.
    apply andb_true_iff in Hx as [Hn Hinf].
    rewrite Ex in Hp. cbn [bind] in Hp.
    destruct (IHa _ _ Ha' Hga Ex) as (_ & wa & Hca & Hra & Hta).
    destruct (vrel_tag_num _ _ Hra Hn) as [Hnt _].
    destruct (cast_float_sound _ _ _ Hn Hra Hp) as (w' & Hcw & Hrw & Htw & Hfv).
    assert (Hc : c = CCast TFloat a').
    { destruct (infer G a) as [[]|]; try discriminate Hinf; inversion Ht; reflexivity. }
    subst c. split; [exact Hfv|]. exists w'. cbn [ceval ctype]. rewrite Hca, Hta. cbn [cbind]. rewrite Hcw. cbn [cbind].
    unfold castable. rewrite Hnt, Htw. repeat split; try reflexivity; auto.
  Qed.

  Lemma P_call_int a : P a -> P (ECall n_int [a] []).
  Proof.
    call_prelude IHa c v Ht Hg Hp a' Ha'.
    apply tbind_ok in Ht as (a' & Ha' & Ht).
    apply andb_true_iff in Hg as [Hga Hx]. destruct (pv rho a) as [x|] eqn:Ex; [|discriminate]. apply pv_some in Ex.
    rewrite Ex in Hp. cbn [bind] in Hp.
    destruct (IHa _ _ Ha' Hga Ex) as (_ & wa & Hca & Hra & Hta).
    destruct (match x with VStr _ => true | _ => false end) eqn:Eisstr.
    - (* int(<str>) : String.toInt *)
      destruct x; try discriminate Eisstr. rename s0 into t.
      destruct (infer G a) as [[]|]; try discriminate Hx.
      apply andb_true_iff in Hx as [Hx Hatol]. apply andb_true_iff in Hx as [Hw Hrf].
      inversion Ht; subst c; clear Ht.
      change (py_call n_int [VStr t]) with (do z <- parse_int t; Ok (VInt z)) in Hp, Hrf.
      unfold atol_ok in Hatol. destruct (parse_int t) as [z|]; [|discriminate]. apply Z.eqb_eq in Hatol.
      cbn [bind] in Hp, Hrf. inversion Hp; subst v. cbn [res_fits vfits] in Hrf.
      unfold wt, sty in Hw. rewrite Ht0 in Hw. cbn [ctype] in Hw. rewrite Hta in Hw.
      split; [exact Hrf|]. exists (CInt z). cbn [ceval ctype]. rewrite Hca, Hta. cbn [cbind].
      destruct wa; cbn in Hra; try contradiction; subst s0;
      (destruct (charp_src a);
       cbn [tag_of is_strty as_text] in *; try discriminate Hw;
       rewrite Hatol, (fits_mkint _ Hrf); cbn [cbind]; repeat split; try reflexivity; auto).
    - (* int(<number>) : static_cast<int> *)
      assert (Hx' : is_numv x && match infer G a with Some LString | None => false | _ => true end && res_fits (py_call n_int [x]) = true).
      { destruct x; try discriminate Eisstr; exact Hx. }
      clear Hx. apply andb_true_iff in Hx' as [Hx Hrf]. apply andb_true_iff in Hx as [Hn Hinf].
      rewrite Hp in Hrf. cbn [res_fits] in Hrf.
      destruct (vrel_tag_num _ _ Hra Hn) as [Hnt _].
      destruct (cast_int_sound _ _ _ Hn Hra Hp Hrf) as (w' & Hcw & Hrw & Htw).
      assert (Hc : c = CCast TInt a').
      { destruct (infer G a) as [[]|]; try discriminate Hinf; inversion Ht; reflexivity. }
      subst c. split; [exact Hrf|]. exists w'. cbn [ceval ctype]. rewrite Hca, Hta. cbn [cbind]. rewrite Hcw. cbn [cbind].
      unfold castable. rewrite Hnt, Htw. repeat split; try reflexivity; auto.
  Qed.

  Lemma lit_len_sound a n x : lit_len G a = Some n -> peval rho a = Ok x -> py_len x = Some n.
  Proof.
    destruct a; cbn [lit_len]; try discriminate; intros Hl Hp.
    - inversion Hl. cbn in Hp. inversion Hp. reflexivity.
    - cbn in Hp. destruct (lookup x0 rho) eqn:E; [|discriminate]. inversion Hp; subst.
      destruct HR as [_ H2]. specialize (H2 _ _ Hl). rewrite E in H2. exact H2.
    - rewrite peval_list in Hp. destruct (evals' rho elts) eqn:E; [|discriminate]. cbn in Hp. inversion Hp; subst.
      cbn. rewrite (evals_length _ _ _ E). inversion Hl. reflexivity.
    - rewrite peval_tuple in Hp. destruct (evals' rho elts) eqn:E; [|discriminate]. cbn in Hp. inversion Hp; subst.
      cbn. rewrite (evals_length _ _ _ E). inversion Hl. reflexivity.
  Qed.

  Lemma P_call_len a : P a -> P (ECall n_len [a] []).
  Proof.
    call_prelude IHa c v Ht Hg Hp a' Ha'.
    destruct (lit_len G a) as [n|] eqn:El.
    - inversion Ht; subst c; clear Ht.
      destruct (peval rho a) as [x|] eqn:Ex; [|discriminate]. cbn [bind] in Hp.
      pose proof (lit_len_sound _ _ _ El Ex) as Hl. rewrite py_call_len in Hp.
      assert (v = VInt n) by (destruct x; cbn in Hl; try discriminate Hl; inversion Hl; inversion Hp; reflexivity).
      subst v. split; [exact Hg|]. exists (CInt n). cbn [ceval ctype]. rewrite (fits_mkint _ Hg), Hg. cbn. repeat split; try reflexivity; auto.
    - apply tbind_ok in Ht as (a' & Ha' & Ht). inversion Ht; subst c; clear Ht.
      apply andb_true_iff in Hg as [Hga Hx]. destruct (pv rho a) as [x|] eqn:Ex; [|discriminate]. apply pv_some in Ex.
      destruct x; try discriminate Hx. rename s0 into t. apply andb_true_iff in Hx as [Hasc Hfit].
      rewrite Ex in Hp. cbn [bind] in Hp. rewrite py_call_len in Hp. inversion Hp; subst v.
      destruct (IHa _ _ Ha' Hga Ex) as (_ & wa & Hca & Hra & Hta).
      destruct (vrel_tag_str _ _ Hra eq_refl) as [Hst _].
      split; [exact Hfit|]. exists (CInt (Z.of_nat (length t))). cbn [ceval ctype]. rewrite Hca, Hta, Hst. cbn [cbind].
      assert (Hat : as_text wa = Some t) by (destruct wa; cbn in Hra; try contradiction; subst; reflexivity).
      rewrite Hat, (utf8_len_ascii _ Hasc), (fits_mkint _ Hfit). cbn [cbind]. repeat split; try reflexivity; auto.
  Qed.


  Lemma P_call_abs a : P a -> P (ECall n_abs [a] []).
  Proof.
    call_prelude IHa c v Ht Hg Hp a' Ha'.
    apply tbind_ok in Ht as (a' & Ha' & Ht). inversion Ht; subst c; clear Ht.
    apply andb_true_iff in Hg as [Hga Hx]. destruct (pv rho a) as [x|] eqn:Ex; [|discriminate]. apply pv_some in Ex.
    apply andb_true_iff in Hx as [Hn Hrf].
    rewrite Ex in Hp. cbn [bind] in Hp. rewrite Hp in Hrf. cbn [res_fits] in Hrf.
    destruct (IHa _ _ Ha' Hga Ex) as (Hfx & wa & Hca & Hra & Hta).
    split; [exact Hrf|].
    change (py_call n_abs [x]) with (match as_num x with Some (NI z) => Ok (VInt (Z.abs z)) | Some (NF q) => Ok (vfloat (Qabs q)) | None => Err TypeErr end) in Hp.
    cbn [ceval ctype]. rewrite (text_eqb_refl t_abs). unfold eval_cond, eval_cmp2. rewrite Hta, Hca. cbn [cbind].
    destruct x; try discriminate Hn; (destruct wa; cbn in Hra; try contradiction); subst;
    cbn [as_num] in Hp; inversion Hp; subst v; clear Hp;
    cbn [tag_of ctype_un is_intty is_numty common_ty andb vfits] in *.
    - rewrite ccmp_gt0_int. cbn [cbind]. rewrite Hca. destruct (0 <? z0) eqn:E; cbn [cbind csem_un_k as_int convert].
      + apply Z.ltb_lt in E. exists (CInt z0). rewrite Z.abs_eq by lia. repeat split; reflexivity.
      + apply Z.ltb_ge in E. rewrite Z.abs_neq in * by lia. rewrite (fits_mkint _ Hrf). cbn [cbind convert as_int].
        exists (CInt (- z0)). repeat split; reflexivity.
    - rewrite ccmp_gt0_int. cbn [cbind]. rewrite Hca.
      destruct b; (eexists; split; [reflexivity|split; reflexivity]).
    - destruct b0;
      match goal with |- context [ccmp ?o ?x ?y] => let r := eval vm_compute in (ccmp o x y) in change (ccmp o x y) with r end;
      cbn [cbind]; rewrite Hca; (eexists; split; [reflexivity|split; reflexivity]).
    - rewrite ccmp_gt0_float. cbn [cbind]. rewrite Hca. unfold vfloat.
      destruct (0 <? Qnum q0) eqn:E; cbn [cbind csem_un_k as_int convert as_q]; unfold mkfloat; cbn [cbind convert as_q].
      + apply Z.ltb_lt in E. rewrite (Qabs_pos _ E). eexists. repeat split; reflexivity.
      + apply Z.ltb_ge in E. rewrite (Qabs_nonpos _ E), Qred_idem. eexists. repeat split; reflexivity.
  Qed.

  Lemma mm_core (mx : bool) a' b' x y wa wb v :
    ceval T s a' ins = COk (wa, ins) -> ceval T s b' ins = COk (wb, ins) ->
    ctype T a' = Some (tag_of wa) -> ctype T b' = Some (tag_of wb) ->
    vrel x wa -> vrel y wb -> is_numv x = true -> is_numv y = true -> vfits x = true -> vfits y = true ->
    kind_ok (Some (tag_of wa)) (Some (tag_of wb)) = true ->
    extremum mx x [y] = Ok v ->
    good (CCall (if mx then t_max else t_min) [a'; b']) v.
  Proof.
    intros Hca Hcb Hta Htb Hrx Hry Hnx Hny Hfx Hfy Hk Hp.
    destruct (numv_as_num _ Hnx) as [nx Hax]. destruct (numv_as_num _ Hny) as [ny Hay].
    destruct (kind_common _ _ Hk) as [ty Hty].
    cbn [extremum] in Hp.
    rewrite (py_cmp_num (if mx then PyAst.Gt else PyAst.Lt) _ _ _ _ ltac:(destruct mx; cbn; lia) Hay Hax) in Hp.
    cbn [bind] in Hp. inversion Hp; subst v; clear Hp.
    pose proof (ccmp_num (if mx then PyAst.Gt else PyAst.Lt) _ _ _ _ (vrel_asq _ _ _ Hrx Hax) (vrel_asq _ _ _ Hry Hay)) as Hcc.
    rewrite <- (Qcompare_antisym (qof nx) (qof ny)).
    assert (Hsel : exists w', convert ty (if cmp_of (if mx then PyAst.Gt else PyAst.Lt) (Qcompare (qof nx) (qof ny)) then wa else wb) = COk w'
              /\ vrel (if cmp_of (if mx then PyAst.Gt else PyAst.Lt) (CompOpp (Qcompare (qof nx) (qof ny))) then y else x) w'
              /\ tag_of w' = ty
              /\ vfits (if cmp_of (if mx then PyAst.Gt else PyAst.Lt) (CompOpp (Qcompare (qof nx) (qof ny))) then y else x) = true).
    { destruct (Qcompare (qof nx) (qof ny)) eqn:Hq; destruct mx; cbn [cmp_of CompOpp].
      all: try (destruct (tie_convert _ _ _ _ _ _ _ Hk Hty Hrx Hry Hax Hay Hq Hfx) as (w' & H1 & H2 & H3); exists w'; auto).
      all: try (destruct (convert_common _ _ _ _ _ Hk Hty Hrx Hfx (or_introl eq_refl)) as (w' & H1 & H2 & H3); exists w'; auto; fail).
      all: destruct (convert_common _ _ _ _ _ Hk Hty Hry Hfy (or_intror eq_refl)) as (w' & H1 & H2 & H3); exists w'; auto. }
    destruct Hsel as (w' & Hcv & Hrv & Htw & Hfv).
    split; [exact Hfv|]. exists w'.
    assert (Hev : ceval T s (CCall (if mx then t_max else t_min) [a'; b']) ins =
                  eval_cond (eval_cmp2 (if mx then PyAst.Gt else PyAst.Lt) (ceval T s a') (ceval T s b')) (ceval T s a') (ceval T s b')
                            (ctype T a') (ctype T b') ins) by (destruct mx; reflexivity).
    assert (Hct : ctype T (CCall (if mx then t_max else t_min) [a'; b']) =
                  match ctype T a', ctype T b' with
                  | Some ta, Some tb => if cmp_ok ta tb then common_ty ta tb else None
                  | _, _ => None end) by (destruct mx; reflexivity).
    rewrite Hev, Hct. unfold eval_cond, eval_cmp2. rewrite Hta, Htb, Hty, Hca. cbn [cbind]. rewrite Hcb. cbn [cbind].
    rewrite Hcc. cbn [cbind].
    assert (Hsel2 : (if cmp_of (if mx then PyAst.Gt else PyAst.Lt) (Qcompare (qof nx) (qof ny)) then ceval T s a' ins else ceval T s b' ins)
                   = COk ((if cmp_of (if mx then PyAst.Gt else PyAst.Lt) (Qcompare (qof nx) (qof ny)) then wa else wb), ins)).
    { destruct (cmp_of _ _); assumption. }
    rewrite Hsel2. cbn [cbind]. rewrite Hcv. cbn [cbind].
    split; [reflexivity|]. split; [exact Hrv|].
    destruct (vrel_tag_num _ _ Hrx Hnx) as [Hn1 _]. destruct (vrel_tag_num _ _ Hry Hny) as [Hn2 _].
    unfold cmp_ok. rewrite Hn1, Hn2, Htw. reflexivity.
  Qed.

  Lemma P_call_mm (mx : bool) a b : P a -> P b -> P (ECall (if mx then n_max else n_min) [a; b] []).
  Proof.
    intros IHa IHb c v Ht Hg Hp.
    assert (Ht' : tbind (to_c G a) (fun a' => tbind (to_c G b) (fun b' => TOk (CCall (if mx then t_max else t_min) [a'; b']))) = TOk c).
    { rewrite <- Ht. destruct mx;
      [change (to_c G (ECall n_max [a; b] [])) with
         (tbind (tseq [to_c G a; to_c G b]) (fun cs => match cs with c0 :: r => TOk (fold_minmax t_max c0 r) | [] => Rejected end))
      |change (to_c G (ECall n_min [a; b] [])) with
         (tbind (tseq [to_c G a; to_c G b]) (fun cs => match cs with c0 :: r => TOk (fold_minmax t_min c0 r) | [] => Rejected end))];
      cbn [tseq]; destruct (to_c G a); try reflexivity; destruct (to_c G b); reflexivity. }
    clear Ht. apply tbind_ok in Ht' as (a' & Ha' & Ht). apply tbind_ok in Ht as (b' & Hb' & Ht). inversion Ht; subst c; clear Ht.
    assert (Hg' : expr_guard G rho a && expr_guard G rho b &&
                  match pv rho a, pv rho b with
                  | Some x, Some y => is_numv x && is_numv y && kind_ok (sty G a) (sty G b)
                  | _, _ => false end = true).
    { rewrite <- Hg. destruct mx; reflexivity. }
    clear Hg. apply andb_true_iff in Hg' as [Hg Hxy]. apply andb_true_iff in Hg as [Hga Hgb].
    destruct (pv rho a) as [x|] eqn:Ex; [|discriminate]. destruct (pv rho b) as [y|] eqn:Ey; [|discriminate].
    apply pv_some in Ex. apply pv_some in Ey.
    apply andb_true_iff in Hxy as [Hn Hk]. apply andb_true_iff in Hn as [Hnx Hny].
    rewrite peval_call in Hp. destruct (lookup _ rho); [discriminate Hp|]. cbn [evals'] in Hp.
    rewrite Ex, Ey in Hp. cbn [bind] in Hp.
    assert (Hp' : extremum mx x [y] = Ok v).
    { rewrite <- Hp. destruct mx; destruct x; try discriminate Hnx; reflexivity. }
    destruct (IHa _ _ Ha' Hga Ex) as (Hfx & wa & Hca & Hra & Hta).
    destruct (IHb _ _ Hb' Hgb Ey) as (Hfy & wb & Hcb & Hrb & Htb).
    unfold sty in Hk. rewrite Ha', Hb', Hta, Htb in Hk.
    eapply mm_core; eauto.
  Qed.
  Lemma P_other e : expr_guard G rho e = false -> P e.
  Proof. intros H c v _ Hg. rewrite H in Hg. discriminate. Qed.

  Lemma P_call f args kws : Forall P args -> P (ECall f args kws).
  Proof.
    intros IH.
    destruct kws; [|apply P_other; destruct args as [|? [|? [|]]]; reflexivity].
    destruct args as [|a [|b [|c0 r]]].
    - apply P_other; reflexivity.
    - inversion IH as [|? ? IHa _]; subst.
      destruct (text_eqb f n_str) eqn:E1; [apply text_eqb_eq in E1; subst f; apply P_call_str; exact IHa|].
      destruct (text_eqb f n_int) eqn:E2; [apply text_eqb_eq in E2; subst f; apply P_call_int; exact IHa|].
      destruct (text_eqb f n_float) eqn:E3; [apply text_eqb_eq in E3; subst f; apply P_call_float; exact IHa|].
      destruct (text_eqb f n_bool) eqn:E4; [apply text_eqb_eq in E4; subst f; apply P_call_bool; exact IHa|].
      destruct (text_eqb f n_len) eqn:E5; [apply text_eqb_eq in E5; subst f; apply P_call_len; exact IHa|].
      destruct (text_eqb f n_abs) eqn:E6; [apply text_eqb_eq in E6; subst f; apply P_call_abs; exact IHa|].
      apply P_other. cbn [expr_guard]. rewrite E1, E2, E3, E4, E5, E6. reflexivity.
    - inversion IH as [|? ? IHa IH2]; subst. inversion IH2 as [|? ? IHb _]; subst.
      destruct (text_eqb f n_min) eqn:E1; [apply text_eqb_eq in E1; subst f; apply (P_call_mm false); assumption|].
      destruct (text_eqb f n_max) eqn:E2; [apply text_eqb_eq in E2; subst f; apply (P_call_mm true); assumption|].
      apply P_other. cbn [expr_guard]. rewrite E1, E2. reflexivity.
    - apply P_other; reflexivity.
  Qed.

  (* ---- f-strings ---- *)
  Definition PQ (e : pexpr) : Prop := P e /\ match e with EFmt _ x => P x | _ => True end.

  Lemma Forall_Q_P l : Forall PQ l -> Forall P l.
  Proof. intro H. eapply Forall_impl; [|exact H]. intros a [Ha _]. exact Ha. Qed.

  Definition accok (acc : option cexpr) (t0 : text) : Prop :=
    match acc with
    | None => t0 = []
    | Some a => ceval T s a ins = COk (CStr t0, ins) /\ ctype T a = Some TString
    end.

  Lemma acc_step acc t0 c w :
    accok acc t0 -> ceval T s c ins = COk (w, ins) -> ctype T c = Some (tag_of w) ->
    accok (Some (match acc with None => CString c | Some a => CBin t_plus a (CString c) end)) (t0 ++ string_of w).
  Proof.
    intros Ha Hc Ht. destruct acc as [a|]; cbn [accok] in *.
    - destruct Ha as [Ha1 Ha2]. cbn [ceval ctype].
      change (bintok t_plus) with (Some KAdd). rewrite Ha1. cbn [cbind]. rewrite Hc. cbn [cbind]. rewrite Ha2, Ht. split; reflexivity.
    - subst t0. cbn [ceval ctype]. rewrite Hc, Ht. cbn [cbind]. split; reflexivity.
  Qed.

  Lemma join_sound ps : Forall PQ ps -> forall acc t0 res t,
    accok acc t0 -> guard_parts (expr_guard G rho) rho ps = true ->
    join_parts (to_c G) acc ps = TOk res -> joined' rho ps = Ok t -> accok res (t0 ++ t).
  Proof.
    induction 1 as [|p r Hp Hr IH]; intros acc t0 res t Hacc Hg Hj Hs.
    - cbn in Hj, Hs. inversion Hj; inversion Hs; subst. rewrite app_nil_r. exact Hacc.
    - cbn [guard_parts] in Hg. apply andb_true_iff in Hg as [Hgp Hgr].
      cbn [joined'] in Hs. cbn [join_parts] in Hj.
      destruct p; try discriminate Hgp.
      + (* literal part *)
        cbn [bind] in Hs. destruct (joined' rho r) as [t'|] eqn:Et; [|discriminate]. cbn [bind] in Hs.
        inversion Hs; subst t; clear Hs.
        destruct s0 as [|ch cs].
        * apply (IH _ _ _ _ Hacc Hgr Hj eq_refl).
        * rewrite app_assoc. refine (IH _ _ _ _ _ Hgr Hj eq_refl).
          assert (Hl : ceval T s (CStrLit (ch :: cs)) ins = COk (CLit (ch :: cs), ins)) by (cbn [ceval]; rewrite Hgp; reflexivity).
          assert (Hlt : ctype T (CStrLit (ch :: cs)) = Some (tag_of (CLit (ch :: cs)))) by (cbn [ctype]; rewrite Hgp; reflexivity).
          destruct acc as [a|]; cbn [accok] in *.
          -- destruct Hacc as [Ha1 Ha2]. cbn [ceval ctype] in *. change (bintok t_plus) with (Some KAdd).
             rewrite Ha1, Ha2, Hgp. cbn [cbind]. split; reflexivity.
          -- subst t0. cbn [ceval ctype] in *. rewrite Hgp. cbn [cbind]. split; reflexivity.
      + (* {v} *)
        destruct ok; [|discriminate Hgp]. destruct Hp as [_ Pv].
        apply andb_true_iff in Hgp as [Hgv Hx]. destruct (pv rho p) as [x|] eqn:Ex; [|discriminate]. apply pv_some in Ex.
        apply tbind_ok in Hj as (c & Hc & Hj).
        destruct (Pv _ _ Hc Hgv Ex) as (_ & w & Hcw & Hrw & Htw).
        rewrite Ex in Hs. cbn [bind] in Hs. rewrite (str_of_sound _ _ Hx Hrw) in Hs. cbn [bind] in Hs.
        destruct (joined' rho r) as [t'|] eqn:Et; [|discriminate]. cbn [bind] in Hs. inversion Hs; subst t; clear Hs.
        rewrite app_assoc. refine (IH _ _ _ _ _ Hgr Hj eq_refl). apply acc_step; assumption.
  Qed.

  Lemma nofmt_joined ps t : has_fmt ps = false -> guard_parts (expr_guard G rho) rho ps = true ->
    joined' rho ps = Ok t -> t = lit_parts ps /\ lit_ok (lit_parts ps) = true.
  Proof.
    revert t. induction ps as [|p r IH]; intros t Hf Hg Hs.
    - cbn in Hs. inversion Hs. split; reflexivity.
    - cbn [guard_parts] in Hg. apply andb_true_iff in Hg as [Hgp Hgr].
      destruct p; try discriminate Hgp; [|cbn in Hf; discriminate Hf].
      cbn [joined' bind] in Hs. destruct (joined' rho r) as [t'|] eqn:Et; [|discriminate]. cbn [bind] in Hs.
      inversion Hs; subst t. destruct (IH _ Hf Hgr eq_refl) as [H1 H2].
      unfold lit_parts in *. cbn [map List.concat]. subst t'. split; [reflexivity|].
      unfold lit_ok in *. rewrite forallb_app, Hgp, H2. reflexivity.
  Qed.

  Lemma P_joined ps : Forall PQ ps -> P (EJoined ps).
  Proof.
    intros IH c v Ht Hg Hp. cbn [to_c] in Ht. cbn [expr_guard] in Hg.
    rewrite peval_joined in Hp. destruct (joined' rho ps) as [t|] eqn:Et; [|discriminate]. cbn [bind] in Hp.
    inversion Hp; subst v; clear Hp. split; [reflexivity|].
    destruct (has_fmt ps) eqn:Ef.
    - apply tbind_ok in Ht as (res & Hj & Ht). inversion Ht; subst c; clear Ht.
      pose proof (join_sound _ IH None [] _ _ eq_refl Hg Hj Et) as Hok. cbn [app] in Hok.
      destruct res as [r|]; cbn [accok] in Hok.
      + destruct Hok as [H1 H2]. exists (CStr t). split; [exact H1|]. split; [reflexivity|exact H2].
      + subst t. exists (CLit []). repeat split; reflexivity.
    - inversion Ht; subst c; clear Ht. destruct (nofmt_joined _ _ Ef Hg Et) as [-> Hl].
      exists (CLit (lit_parts ps)). cbn [ceval ctype]. rewrite Hl. repeat split; reflexivity.
  Qed.

  Lemma preserve_all : forall e, PQ e.
  Proof.
    induction e using pexpr_ind'; (split; [|try exact I]).
    - apply P_int.
    - apply P_bool.
    - apply P_float.
    - apply P_str.
    - apply P_other. reflexivity.
    - apply P_name.
    - apply P_bin; [apply IHe1|apply IHe2].
    - apply P_un. apply IHe.
    - apply P_boolop. apply Forall_Q_P. assumption.
    - apply P_compare; [apply IHe|apply Forall_Q_P; assumption].
    - apply P_if; [apply IHe1|apply IHe2|apply IHe3].
    - apply P_joined. assumption.
    - apply P_other. reflexivity.
    - apply IHe.
    - apply P_call. apply Forall_Q_P. assumption.
    - apply P_other. reflexivity.
    - apply P_other. reflexivity.
    - apply P_other. reflexivity.
    - apply P_other. reflexivity.
    - apply P_other. reflexivity.
  Qed.
End Preserve.

Lemma expr_preserve_partial : forall G rho s ins e c v,
  env_rel G rho s ->
  to_c G e = TOk c -> expr_guard G rho e = true -> peval rho e = Ok v ->
  exists w, crun (tc_types G) s c ins = COk (w, ins) /\ vrel v w.
Proof.
  intros G rho s ins e c v HR Ht Hg Hp.
  destruct (preserve_all G rho s ins HR e) as [HP _].
  destruct (HP _ _ Ht Hg Hp) as (_ & w & Hc & Hr & Hty).
  exists w. unfold crun. rewrite Hty. auto.
Qed.

(* non-vacuity: a = 7, t = True:  ((a + 2) * 3 < 100 <= a * a) or not t,  and  -a if t else a & 3 *)
Definition demo_G : tcx := {| tc_types := [([97], TInt); ([116], TBool)]; tc_lens := [] |}.
Definition demo_rho : env := [([97], VInt 7); ([116], VBool true)].
Definition demo_s : cenv := [([97], CInt 7); ([116], CBool true)].
Definition demo_e : pexpr :=
  EBoolOp Or [ECompare (EBin Mult (EBin Add (EName [97]) (EInt 2)) (EInt 3)) [PyAst.Lt; LtE]
                       [EInt 100; EBin Mult (EName [97]) (EName [97])];
              EUn Not (EName [116])].
Lemma demo_env_rel : env_rel demo_G demo_rho demo_s.
Proof.
  split.
  - intros x v H _. cbn in H.
    destruct (text_eqb x [97]) eqn:E1.
    + apply text_eqb_eq in E1. subst. inversion H; subst. exists (CInt 7). repeat split; reflexivity.
    + destruct (text_eqb x [116]) eqn:E2; [|discriminate].
      apply text_eqb_eq in E2. subst. inversion H; subst. exists (CBool true). repeat split; reflexivity.
  - intros x n H. cbn in H. discriminate.
Qed.
Lemma demo_nonvacuous :
  env_rel demo_G demo_rho demo_s /\ expr_guard demo_G demo_rho demo_e = true /\
  peval demo_rho demo_e = Ok (VBool false) /\ exists c, to_c demo_G demo_e = TOk c.
Proof.
  split; [exact demo_env_rel|]. split; [vm_compute; reflexivity|].
  split; [vm_compute; reflexivity|]. eexists. vm_compute. reflexivity.
Qed.

(* min(abs(-a), len(f"x{a}")) + int(str(a)) = 9 for a = 7 *)
Definition demo_e2 : pexpr :=
  EBin Add (ECall n_min [ECall n_abs [EUn USub (EName [97])] []; ECall n_len [EJoined [EStr [120]; EFmt true (EName [97])]] []] [])
           (ECall n_int [ECall n_str [EName [97]] []] []).
Lemma demo2_nonvacuous :
  expr_guard demo_G demo_rho demo_e2 = true /\ peval demo_rho demo_e2 = Ok (VInt 9) /\ exists c, to_c demo_G demo_e2 = TOk c.
Proof. split; [vm_compute; reflexivity|]. split; [vm_compute; reflexivity|]. eexists. vm_compute. reflexivity. Qed.
