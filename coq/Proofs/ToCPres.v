(* Unit C01_expr: value preservation of to_c inside expr_guard, by induction over expressions. *)
From Coq Require Import ZArith QArith Qround Qabs List Bool Lia.
From RV Require Import Base.Wire Base.Text Lang.PyAst Lang.PySem Lang.CAst Lang.CSem Lang.ToC Gen.OpTables Proofs.ToCP.
Import ListNotations.
Open Scope Z_scope.

(* ---- the local recursions of peval, as top-level functions ---- *)
Section PevalLists.
  Variable rho : env.
  Fixpoint evals' (l : list pexpr) : res (list pval) :=
    match l with [] => Ok [] | x :: r => do v <- peval rho x; do vs <- evals' r; Ok (v :: vs) end.
  Fixpoint evand' (l : list pexpr) (last : pval) : res pval :=
    match l with [] => Ok last | x :: r => do v <- peval rho x; if truthy v then evand' r v else Ok v end.
  Fixpoint evor' (l : list pexpr) (last : pval) : res pval :=
    match l with [] => Ok last | x :: r => do v <- peval rho x; if truthy v then Ok v else evor' r v end.
  Fixpoint chain' (left : pval) (ops : list cmpop) (rs : list pexpr) {struct rs} : res pval :=
    match rs, ops with
    | r :: rs', op :: ops' =>
        do rv <- peval rho r; do c <- py_cmp op left rv; if c then chain' rv ops' rs' else Ok (VBool false)
    | [], [] => Ok (VBool true)
    | _, _ => Err OutOfModel
    end.
  Fixpoint joined' (ps : list pexpr) : res text :=
    match ps with
    | [] => Ok []
    | p :: r =>
        do s <- match p with
                | EStr s => Ok s
                | EFmt true v => do x <- peval rho v; py_str x
                | _ => Err OutOfModel
                end;
        do t <- joined' r; Ok (s ++ t)
    end.

  Lemma peval_bin op a b : peval rho (EBin op a b) = do x <- peval rho a; do y <- peval rho b; py_bin op x y.
  Proof. reflexivity. Qed.
  Lemma peval_un op a : peval rho (EUn op a) = do x <- peval rho a; py_un op x.
  Proof. reflexivity. Qed.
  Lemma peval_and vs : peval rho (EBoolOp And vs) = evand' vs (VBool true).
  Proof. reflexivity. Qed.
  Lemma peval_or vs : peval rho (EBoolOp Or vs) = evor' vs (VBool false).
  Proof. reflexivity. Qed.
  Lemma peval_cmp l ops rs : peval rho (ECompare l ops rs) =
    match ops with [] => Err OutOfModel | _ => do lv <- peval rho l; chain' lv ops rs end.
  Proof. reflexivity. Qed.
  Lemma peval_if c a b : peval rho (EIfExp c a b) = do cv <- peval rho c; if truthy cv then peval rho a else peval rho b.
  Proof. reflexivity. Qed.
  Lemma peval_joined ps : peval rho (EJoined ps) = do s <- joined' ps; Ok (VStr s).
  Proof. reflexivity. Qed.
  Lemma peval_call f args : peval rho (ECall f args []) =
    match lookup f rho with Some _ => Err OutOfModel | None => do vs <- evals' args; py_call f vs end.
  Proof. reflexivity. Qed.
  Lemma peval_tuple es : peval rho (ETuple es) = do vs <- evals' es; Ok (VTuple vs).
  Proof. reflexivity. Qed.
  Lemma peval_list es : peval rho (EList es) = do vs <- evals' es; Ok (VList vs).
  Proof. reflexivity. Qed.
End PevalLists.

Lemma pv_some rho e x : pv rho e = Some x -> peval rho e = Ok x.
Proof. unfold pv. destruct (peval rho e); intro H; inversion H; reflexivity. Qed.

(* ---- static type of the result of an operator ---- *)
Lemma int_op_tag k x y w : int_op k x y = COk w -> tag_of w = TInt.
Proof.
  unfold int_op, mkint. intro H.
  destruct k; repeat match type of H with context [if ?c then _ else _] => destruct c end;
  inversion H; reflexivity.
Qed.
Lemma float_op_tag k p q w : float_op k p q = COk w -> tag_of w = TFloat.
Proof.
  unfold float_op, mkfloat. intro H.
  destruct k; repeat match type of H with context [if ?c then _ else _] => destruct c end;
  inversion H; reflexivity.
Qed.
Lemma csem_bin_k_tag k wa wb w :
  csem_bin_k k wa wb = COk w -> ctype_bin k (tag_of wa) (tag_of wb) = Some (tag_of w).
Proof.
  unfold csem_bin_k. destruct (ctype_bin k (tag_of wa) (tag_of wb)) as [[]|]; try discriminate.
  - destruct (as_int wa), (as_int wb); try discriminate. intro H. apply int_op_tag in H. rewrite H. reflexivity.
  - destruct (as_q wa), (as_q wb); try discriminate. intro H. apply float_op_tag in H. rewrite H. reflexivity.
  - destruct (as_text wa), (as_text wb); try discriminate. intro H. inversion H. reflexivity.
Qed.

(* the part of the language for which preservation is proved so far *)
Fixpoint call_free (e : pexpr) : bool :=
  match e with
  | EInt _ | EBool _ | EFloat _ | EStr _ | EName _ => true
  | EBin _ a b => call_free a && call_free b
  | EUn _ a => call_free a
  | EBoolOp _ vs => forallb call_free vs
  | ECompare l _ rs => call_free l && forallb call_free rs
  | EIfExp c a b => call_free c && call_free a && call_free b
  | _ => false
  end.

Section Preserve.
  Variables (G : tcx) (rho : env) (s : cenv) (ins : inputs).
  Hypothesis HR : env_rel G rho s.
  Notation T := (tc_types G).

  Definition good (c : cexpr) (v : pval) : Prop :=
    vfits v = true /\ exists w, ceval T s c ins = COk (w, ins) /\ vrel v w /\ ctype T c = Some (tag_of w).

  Definition P (e : pexpr) : Prop :=
    forall c v, to_c G e = TOk c -> expr_guard G rho e = true -> peval rho e = Ok v -> good c v.

  Lemma sty_of e c t : to_c G e = TOk c -> sty G e = Some t -> ctype T c = Some t.
  Proof. unfold sty. intros ->. auto. Qed.

  Lemma P_int z : P (EInt z).
  Proof.
    intros c v Ht Hg Hp. cbn in Ht, Hg, Hp. inversion Ht; inversion Hp; subst. split; [exact Hg|].
    exists (CInt z). cbn [ceval ctype]. rewrite (fits_mkint _ Hg), Hg. cbn. auto.
  Qed.
  Lemma P_bool b : P (EBool b).
  Proof.
    intros c v Ht Hg Hp. cbn in Ht, Hp. inversion Ht; inversion Hp; subst. split; [reflexivity|].
    exists (CBool b). cbn. auto.
  Qed.
  Lemma P_float q : P (EFloat q).
  Proof.
    intros c v Ht Hg Hp. cbn [to_c] in Ht. destruct (float_simple q); [|discriminate].
    cbn in Hp. inversion Ht; inversion Hp; subst. split; [apply qnormal_red|].
    exists (CFloat (Qred q)). repeat split; reflexivity.
  Qed.
  Lemma P_str t : P (EStr t).
  Proof.
    intros c v Ht Hg Hp. cbn in Ht, Hg, Hp. inversion Ht; inversion Hp; subst. split; [reflexivity|].
    exists (CLit t). cbn [ceval ctype]. rewrite Hg. cbn. auto.
  Qed.
  Lemma P_name x : P (EName x).
  Proof.
    intros c v Ht Hg Hp. cbn in Ht, Hg, Hp. inversion Ht; subst c.
    destruct (lookup x rho) as [v'|] eqn:E; [|discriminate]. inversion Hp; subst v'.
    split; [exact Hg|]. destruct HR as [H1 _]. destruct (H1 _ _ E Hg) as (w & Hw & Hr & Hty).
    exists w. cbn [ceval ctype]. rewrite Hw. auto.
  Qed.

  Lemma P_bin op a b : P a -> P b -> P (EBin op a b).
  Proof.
    intros IHa IHb c v Ht Hg Hp.
    cbn [to_c] in Ht. destruct (bin_tok op) as [tok|] eqn:Etok; [|discriminate].
    apply tbind_ok in Ht as (a' & Ha' & Ht). apply tbind_ok in Ht as (b' & Hb' & Ht). inversion Ht; subst c; clear Ht.
    cbn [expr_guard] in Hg.
    apply andb_true_iff in Hg as [Hg Hg3]. apply andb_true_iff in Hg as [Hga Hgb].
    destruct (pv rho a) as [x|] eqn:Ex; [|discriminate]. destruct (pv rho b) as [y|] eqn:Ey; [|discriminate].
    destruct (sty G a) as [ta|] eqn:Eta; [|discriminate]. destruct (sty G b) as [tb|] eqn:Etb; [|discriminate].
    apply andb_true_iff in Hg3 as [Hbg Hrf].
    apply pv_some in Ex. apply pv_some in Ey.
    rewrite peval_bin, Ex, Ey in Hp. cbn [bind] in Hp.
    destruct (IHa _ _ Ha' Hga Ex) as (Hfx & wa & Hca & Hra & Hta).
    destruct (IHb _ _ Hb' Hgb Ey) as (Hfy & wb & Hcb & Hrb & Htb).
    rewrite Hp in Hrf. cbn [res_fits] in Hrf.
    rewrite (sty_of _ _ _ Ha' Eta) in Hta. rewrite (sty_of _ _ _ Hb' Etb) in Htb.
    inversion Hta; inversion Htb; subst ta tb.
    split; [exact Hrf|].
    assert (Hk : exists k w, bintok tok = Some k /\ csem_bin_k k wa wb = COk w /\ vrel v w).
    { unfold bin_guard in Hbg. destruct (is_numv x && is_numv y) eqn:En.
      - destruct (op_guard_kop _ _ _ Hbg) as [k Hk]. exists k.
        destruct (bin_num_sound _ _ _ _ _ _ _ Hk Hra Hrb Hbg Hp Hrf) as (w & Hw & Hv).
        exists w. split; [|auto]. apply (bin_table op); [apply bin_tok_in; exact Etok|exact Hk].
      - destruct op; try discriminate Hbg.
        apply andb_true_iff in Hbg as [Hbg Hnl]. apply andb_true_iff in Hbg as [Hsx Hsy].
        destruct x; try discriminate Hsx. destruct y; try discriminate Hsy.
        cbn in Hp. inversion Hp; subst v.
        exists KAdd. eexists. split; [apply (bin_table Add); [apply bin_tok_in; exact Etok|reflexivity]|].
        destruct wa; cbn in Hra; try contradiction; destruct wb; cbn in Hrb; try contradiction; subst;
        try (cbn in Hnl; discriminate Hnl); (split; [reflexivity|reflexivity]). }
    destruct Hk as (k & w & Hbt & Hsem & Hv).
    exists w. cbn [ceval ctype]. rewrite Hbt, Hca. cbn [cbind]. rewrite Hcb. cbn [cbind]. rewrite Hsem. cbn [cbind].
    split; [reflexivity|]. split; [exact Hv|].
    rewrite (sty_of _ _ _ Ha' Eta), (sty_of _ _ _ Hb' Etb). apply csem_bin_k_tag. exact Hsem.
  Qed.

  Lemma P_un op a : P a -> P (EUn op a).
  Proof.
    intros IHa c v Ht Hg Hp.
    cbn [to_c] in Ht. destruct (un_tok op) as [tok|] eqn:Etok; [|discriminate].
    apply tbind_ok in Ht as (a' & Ha' & Ht). inversion Ht; subst c; clear Ht.
    cbn [expr_guard] in Hg. apply andb_true_iff in Hg as [Hga Hg].
    destruct (pv rho a) as [x|] eqn:Ex; [|discriminate]. apply andb_true_iff in Hg as [Hn Hrf].
    apply pv_some in Ex. rewrite peval_un, Ex in Hp. cbn [bind] in Hp.
    destruct (IHa _ _ Ha' Hga Ex) as (Hfx & wa & Hca & Hra & Hta).
    rewrite Hp in Hrf. cbn [res_fits] in Hrf.
    destruct (un_table _ _ (un_tok_in _ _ Etok)) as (k & Hk & Hut).
    destruct (un_num_sound _ _ _ _ _ Hk Hra Hn Hp Hrf) as (w & Hw & Hv & Hty).
    split; [exact Hrf|]. exists w. cbn [ceval ctype]. rewrite Hut, Hca. cbn [cbind]. rewrite Hw. cbn [cbind].
    split; [reflexivity|]. split; [exact Hv|]. rewrite Hta. exact Hty.
  Qed.

  (* ---- conditional expression ---- *)
  Lemma kind_common ta tb : kind_ok (Some ta) (Some tb) = true -> exists ty, common_ty ta tb = Some ty.
  Proof. destruct ta, tb; cbn; intro H; try discriminate; eauto. Qed.

  Lemma convert_common ta tb ty v w :
    kind_ok (Some ta) (Some tb) = true -> common_ty ta tb = Some ty -> vrel v w -> vfits v = true ->
    (tag_of w = ta \/ tag_of w = tb) ->
    exists w', convert ty w = COk w' /\ vrel v w' /\ tag_of w' = ty.
  Proof.
    intros Hk Hc Hr Hf Ht.
    destruct ta, tb; cbn in Hk; try discriminate Hk; cbn in Hc; inversion Hc; subst ty; clear Hc;
    destruct Ht as [Ht|Ht]; (destruct w; cbn in Ht; try discriminate Ht);
    (destruct v; cbn in Hr; try contradiction); subst; cbn [convert as_int as_q as_text];
    try (eexists; split; [reflexivity|split; [cbn; reflexivity|reflexivity]]).
    all: cbn in Hf; eexists; (split; [reflexivity|split; [cbn; symmetry; apply qnormal_eq; exact Hf|reflexivity]]).
  Qed.

  Lemma numty_truthable t : is_numty t = true -> truthable t = true.
  Proof. destruct t; cbn; intro H; try discriminate; reflexivity. Qed.

  Lemma P_if c0 a b : P c0 -> P a -> P b -> P (EIfExp c0 a b).
  Proof.
    intros IHc IHa IHb c v Ht Hg Hp.
    cbn [to_c] in Ht.
    apply tbind_ok in Ht as (c' & Hc' & Ht). apply tbind_ok in Ht as (a' & Ha' & Ht).
    apply tbind_ok in Ht as (b' & Hb' & Ht). inversion Ht; subst c; clear Ht.
    cbn [expr_guard] in Hg. apply andb_true_iff in Hg as [Hgc Hg].
    destruct (pv rho c0) as [cv|] eqn:Ec; [|discriminate].
    apply andb_true_iff in Hg as [Hg Hgbr]. apply andb_true_iff in Hg as [Hn Hk].
    destruct (sty G a) as [ta|] eqn:Eta; [|cbn in Hk; discriminate].
    destruct (sty G b) as [tb|] eqn:Etb; [|cbn in Hk; destruct ta; discriminate].
    apply pv_some in Ec. rewrite peval_if, Ec in Hp. cbn [bind] in Hp.
    destruct (IHc _ _ Hc' Hgc Ec) as (Hfc & wc & Hcc & Hrc & Htc).
    pose proof (vrel_truth _ _ Hrc Hn) as Htr.
    destruct (vrel_tag_num _ _ Hrc Hn) as [Hnt _].
    destruct (kind_common _ _ Hk) as [ty Hty].
    pose proof (sty_of _ _ _ Ha' Eta) as Hsa. pose proof (sty_of _ _ _ Hb' Etb) as Hsb.
    assert (Hbr : exists wbr, (if truthy cv then ceval T s a' ins else ceval T s b' ins) = COk (wbr, ins)
                   /\ vrel v wbr /\ vfits v = true /\ (tag_of wbr = ta \/ tag_of wbr = tb)).
    { destruct (truthy cv).
      - destruct (IHa _ _ Ha' Hgbr Hp) as (Hfa & wa & Hca & Hra & Hta). exists wa.
        rewrite Hsa in Hta. inversion Hta. auto.
      - destruct (IHb _ _ Hb' Hgbr Hp) as (Hfb & wb & Hcb & Hrb & Htb). exists wb.
        rewrite Hsb in Htb. inversion Htb. auto. }
    destruct Hbr as (wbr & Hev & Hrv & Hfv & Htag).
    destruct (convert_common _ _ _ _ _ Hk Hty Hrv Hfv Htag) as (w' & Hcv & Hrv' & Htag').
    split; [exact Hfv|]. exists w'.
    cbn [ceval ctype]. unfold eval_cond. rewrite Hsa, Hsb, Hty, Hcc. cbn [cbind]. rewrite Htr. cbn [cbind].
    rewrite Hev. cbn [cbind]. rewrite Hcv. cbn [cbind].
    split; [reflexivity|]. split; [exact Hrv'|].
    rewrite Htc, (numty_truthable _ Hnt), Htag'. reflexivity.
  Qed.

  (* ---- and / or ---- *)
  Lemma and_sound vs : Forall P vs -> forall cs v,
    tseq (map (to_c G) vs) = TOk cs -> guard_bools (expr_guard G rho) rho true vs = true ->
    evand' rho vs (VBool true) = Ok v ->
    exists b, v = VBool b /\ eval_and (ceval T s) cs ins = COk (CBool b, ins).
  Proof.
    induction 1 as [|x r Hx Hr IH]; intros cs v Ht Hg Hp.
    - cbn in Ht, Hp. inversion Ht; inversion Hp; subst. exists true. auto.
    - cbn [map tseq] in Ht. apply tbind_ok in Ht as (cx & Hcx & Ht). apply tbind_ok in Ht as (cr & Hcr & Ht).
      inversion Ht; subst cs; clear Ht.
      cbn [guard_bools] in Hg. apply andb_true_iff in Hg as [Hgx Hg].
      destruct (pv rho x) as [vx|] eqn:Ex; [|discriminate]. destruct vx; try discriminate Hg.
      apply pv_some in Ex. cbn [evand'] in Hp. rewrite Ex in Hp. cbn [bind truthy] in Hp.
      destruct (Hx _ _ Hcx Hgx Ex) as (_ & wx & Hcwx & Hrx & _).
      pose proof (vrel_truth _ _ Hrx eq_refl) as Htr. cbn [truthy] in Htr.
      cbn [eval_and]. rewrite Hcwx. cbn [cbind]. rewrite Htr. cbn [cbind].
      destruct b; cbn [Bool.eqb] in Hg.
      + apply (IH _ _ Hcr Hg Hp).
      + inversion Hp. exists false. auto.
  Qed.

  Lemma or_sound vs : Forall P vs -> forall cs v,
    tseq (map (to_c G) vs) = TOk cs -> guard_bools (expr_guard G rho) rho false vs = true ->
    evor' rho vs (VBool false) = Ok v ->
    exists b, v = VBool b /\ eval_or (ceval T s) cs ins = COk (CBool b, ins).
  Proof.
    induction 1 as [|x r Hx Hr IH]; intros cs v Ht Hg Hp.
    - cbn in Ht, Hp. inversion Ht; inversion Hp; subst. exists false. auto.
    - cbn [map tseq] in Ht. apply tbind_ok in Ht as (cx & Hcx & Ht). apply tbind_ok in Ht as (cr & Hcr & Ht).
      inversion Ht; subst cs; clear Ht.
      cbn [guard_bools] in Hg. apply andb_true_iff in Hg as [Hgx Hg].
      destruct (pv rho x) as [vx|] eqn:Ex; [|discriminate]. destruct vx; try discriminate Hg.
      apply pv_some in Ex. cbn [evor'] in Hp. rewrite Ex in Hp. cbn [bind truthy] in Hp.
      destruct (Hx _ _ Hcx Hgx Ex) as (_ & wx & Hcwx & Hrx & _).
      pose proof (vrel_truth _ _ Hrx eq_refl) as Htr. cbn [truthy] in Htr.
      cbn [eval_or]. rewrite Hcwx. cbn [cbind]. rewrite Htr. cbn [cbind].
      destruct b; cbn [Bool.eqb] in Hg.
      + inversion Hp. exists true. auto.
      + apply (IH _ _ Hcr Hg Hp).
  Qed.

  Lemma P_boolop op vs : Forall P vs -> P (EBoolOp op vs).
  Proof.
    intros IH c v Ht Hg Hp.
    assert (Hwt : forall t, sty G (EBoolOp op vs) = Some t -> ctype T c = Some t).
    { intros t. apply sty_of. exact Ht. }
    cbn [to_c] in Ht. apply tbind_ok in Ht as (cs & Hcs & Ht). inversion Ht; subst c; clear Ht.
    cbn [expr_guard] in Hg. destruct vs as [|x r] eqn:Evs; [discriminate|]. rewrite <- Evs in *.
    apply andb_true_iff in Hg as [Hw Hg]. unfold wt in Hw.
    destruct (sty G (EBoolOp op vs)) as [t|] eqn:Est; [|discriminate]. specialize (Hwt _ eq_refl).
    destruct op.
    - rewrite peval_and in Hp. destruct (and_sound _ IH _ _ Hcs Hg Hp) as (b & -> & Hev).
      split; [reflexivity|]. exists (CBool b).
      cbn [ctype] in Hwt. cbn [ceval]. destruct cs as [|c0 cr]; [discriminate|].
      split; [exact Hev|]. split; [reflexivity|].
      cbn [ctype]. destruct (forallb _ (c0 :: cr)); [reflexivity|discriminate].
    - rewrite peval_or in Hp. destruct (or_sound _ IH _ _ Hcs Hg Hp) as (b & -> & Hev).
      split; [reflexivity|]. exists (CBool b).
      cbn [ctype] in Hwt. cbn [ceval]. destruct cs as [|c0 cr]; [discriminate|].
      split; [exact Hev|]. split; [reflexivity|].
      cbn [ctype]. destruct (forallb _ (c0 :: cr)); [reflexivity|discriminate].
  Qed.

  (* ---- comparison chains ---- *)
  Lemma chain_sound rs : Forall P rs -> forall ops ls lv el wl v,
    el ins = COk (wl, ins) -> vrel lv wl ->
    to_links (to_c G) ops rs = TOk ls ->
    guard_chain (expr_guard G rho) rho G lv (tag_of wl) ops rs = true ->
    chain' rho lv ops rs = Ok v ->
    exists b, v = VBool b /\ eval_chain (ceval T s) el ls ins = COk (CBool b, ins).
  Proof.
    induction 1 as [|r rs' Hx Hr IH]; intros ops ls lv el wl v Hel Hrl Ht Hg Hp.
    - destruct ops; cbn in Hg; [|discriminate]. cbn in Ht, Hp. inversion Ht; inversion Hp; subst.
      exists true. auto.
    - destruct ops as [|op ops']; [cbn in Hg; discriminate|].
      cbn [to_links] in Ht. destruct (cmp_tok op) as [tok|] eqn:Etok; [|discriminate].
      apply tbind_ok in Ht as (r' & Hr' & Ht). apply tbind_ok in Ht as (ls' & Hls' & Ht).
      inversion Ht; subst ls; clear Ht.
      cbn [guard_chain] in Hg. apply andb_true_iff in Hg as [Hgr Hg].
      destruct (pv rho r) as [rv|] eqn:Er; [|discriminate].
      destruct (sty G r) as [tr|] eqn:Etr; [|discriminate].
      apply andb_true_iff in Hg as [Hcg Hg].
      apply pv_some in Er. cbn [chain'] in Hp. rewrite Er in Hp. cbn [bind] in Hp.
      destruct (py_cmp op lv rv) as [cb|] eqn:Ecmp; [|discriminate]. cbn [bind] in Hp.
      destruct (Hx _ _ Hr' Hgr Er) as (_ & wr & Hcr & Hrr & Htr).
      rewrite (sty_of _ _ _ Hr' Etr) in Htr. inversion Htr; subst tr.
      pose proof (cmp_sound _ _ _ _ _ _ Hrl Hrr Hcg Ecmp) as Hcc.
      cbn [eval_chain]. rewrite (cmp_table _ _ (cmp_tok_in _ _ Etok)).
      unfold eval_cmp2. rewrite Hel. cbn [cbind]. rewrite Hcr. cbn [cbind]. rewrite Hcc. cbn [cbind].
      destruct cb.
      + apply (IH _ _ _ _ _ _ Hcr Hrr Hls' Hg Hp).
      + inversion Hp. exists false. auto.
  Qed.

  Lemma P_compare l ops rs : P l -> Forall P rs -> P (ECompare l ops rs).
  Proof.
    intros IHl IH c v Ht Hg Hp.
    assert (Hwt : forall t, sty G (ECompare l ops rs) = Some t -> ctype T c = Some t).
    { intros t. apply sty_of. exact Ht. }
    cbn [to_c] in Ht. apply tbind_ok in Ht as (l' & Hl' & Ht). apply tbind_ok in Ht as (ls & Hls & Ht).
    inversion Ht; subst c; clear Ht.
    cbn [expr_guard] in Hg. apply andb_true_iff in Hg as [Hg Hgc]. apply andb_true_iff in Hg as [Hw Hgl].
    unfold wt in Hw. destruct (sty G (ECompare l ops rs)) as [t|] eqn:Est; [|discriminate]. specialize (Hwt _ eq_refl).
    destruct ops as [|op ops'] eqn:Eops; [discriminate|]. rewrite <- Eops in *.
    destruct (pv rho l) as [lv|] eqn:El; [|discriminate].
    destruct (sty G l) as [tl|] eqn:Etl; [|discriminate].
    apply pv_some in El. rewrite peval_cmp in Hp. rewrite Eops in Hp. rewrite <- Eops in Hp.
    rewrite El in Hp. cbn [bind] in Hp.
    destruct (IHl _ _ Hl' Hgl El) as (_ & wl & Hcl & Hrl & Htl).
    rewrite (sty_of _ _ _ Hl' Etl) in Htl. inversion Htl; subst tl.
    destruct (chain_sound _ IH _ _ _ _ _ _ Hcl Hrl Hls Hgc Hp) as (b & -> & Hev).
    split; [reflexivity|]. exists (CBool b).
    cbn [ctype] in Hwt. cbn [ceval]. destruct ls as [|l0 lr]; [discriminate|].
    split; [exact Hev|]. split; [reflexivity|].
    cbn [ctype]. cbn [tag_of].
    match type of Hwt with (if ?g then _ else _) = _ => destruct g; [reflexivity|discriminate] end.
  Qed.

  (*ASSEMBLY*)
  Definition PQ (e : pexpr) : Prop := P e /\ match e with EFmt _ x => P x | _ => True end.

  Lemma Forall_Q_P l : Forall PQ l -> Forall P l.
  Proof. intro H. eapply Forall_impl; [|exact H]. intros a [Ha _]. exact Ha. Qed.

  Lemma P_other e : expr_guard G rho e = false -> P e.
  Proof. intros H c v _ Hg. rewrite H in Hg. discriminate. Qed.

  Lemma preserve_all : forall e, call_free e = true -> PQ e.
  Proof.
    induction e using pexpr_ind'; intro Hcf; (split; [|try exact I]); cbn [call_free] in Hcf; try discriminate Hcf.
    - apply P_int.
    - apply P_bool.
    - apply P_float.
    - apply P_str.
    - apply P_name.
    - apply andb_true_iff in Hcf as [H1 H2]. apply P_bin; [apply IHe1|apply IHe2]; assumption.
    - apply P_un. apply IHe. assumption.
    - apply P_boolop. apply Forall_Q_P. rewrite forallb_forall in Hcf. rewrite Forall_forall in *.
      intros x Hx. apply H; auto.
    - apply andb_true_iff in Hcf as [H1 H2]. apply P_compare; [apply IHe; assumption|].
      apply Forall_Q_P. rewrite forallb_forall in H2. rewrite Forall_forall in *. intros x Hx. apply H; auto.
    - apply andb_true_iff in Hcf as [H1 H3]. apply andb_true_iff in H1 as [H1 H2].
      apply P_if; [apply IHe1|apply IHe2|apply IHe3]; assumption.
  Qed.
End Preserve.

Lemma expr_preserve_partial : forall G rho s ins e c v,
  env_rel G rho s -> call_free e = true ->
  to_c G e = TOk c -> expr_guard G rho e = true -> peval rho e = Ok v ->
  exists w, crun (tc_types G) s c ins = COk (w, ins) /\ vrel v w.
Proof.
  intros G rho s ins e c v HR Hcf Ht Hg Hp.
  destruct (preserve_all G rho s ins HR e Hcf) as [HP _].
  destruct (HP _ _ Ht Hg Hp) as (_ & w & Hc & Hr & Hty).
  exists w. unfold crun. rewrite Hty. auto.
Qed.

(* non-vacuity: a = 7, t = True:  ((a + 2) * 3 < 100 <= a * a) or not t,  and  -a if t else a & 3 *)
Definition demo_G : tcx := {| tc_types := [([97], TInt); ([116], TBool)]; tc_lens := [] |}.
Definition demo_rho : env := [([97], VInt 7); ([116], VBool true)].
Definition demo_s : cenv := [([97], CInt 7); ([116], CBool true)].
Definition demo_e : pexpr :=
  EBoolOp Or [ECompare (EBin Mult (EBin Add (EName [97]) (EInt 2)) (EInt 3)) [PyAst.Lt; LtE]
                       [EInt 100; EBin Mult (EName [97]) (EName [97])];
              EUn Not (EName [116])].
Lemma demo_env_rel : env_rel demo_G demo_rho demo_s.
Proof.
  split.
  - intros x v H _. cbn in H.
    destruct (text_eqb x [97]) eqn:E1.
    + apply text_eqb_eq in E1. subst. inversion H; subst. exists (CInt 7). repeat split; reflexivity.
    + destruct (text_eqb x [116]) eqn:E2; [|discriminate].
      apply text_eqb_eq in E2. subst. inversion H; subst. exists (CBool true). repeat split; reflexivity.
  - intros x n H. cbn in H. discriminate.
Qed.
Lemma demo_nonvacuous :
  env_rel demo_G demo_rho demo_s /\ call_free demo_e = true /\ expr_guard demo_G demo_rho demo_e = true /\
  peval demo_rho demo_e = Ok (VBool false) /\ exists c, to_c demo_G demo_e = TOk c.
Proof.
  split; [exact demo_env_rel|]. split; [reflexivity|]. split; [vm_compute; reflexivity|].
  split; [vm_compute; reflexivity|]. eexists. vm_compute. reflexivity.
Qed.
