(* Proofs about Lang/TopFlow.v: nothing is accepted after the main loop; every variant of a function
   has the block structure of its def. *)
From Coq Require Import ZArith List Bool Lia Arith.
From RV Require Import Base.Wire Base.Text Lang.Rx Lang.Lex Lang.EmitBlocks Lang.TopFlow.
From RV Require Import Proofs.EmitBlocksP Proofs.FirmwareBlocksP.
Import ListNotations.
Open Scope Z_scope.

Ltac split_if := match goal with |- context[if ?c then _ else _] => destruct c end.

Lemma ocons_some {A} (x : A) o its : ocons x o = Some its -> exists tl, o = Some tl /\ its = x :: tl.
Proof. destruct o as [tl|]; cbn; intros H; [|discriminate]. inversion H. eauto. Qed.

(* an accepted script is parsed exactly as Lex.top_parse says *)
Lemma flow_same : forall f seen ls its, top_flow f seen ls = Some its -> its = top_parse f ls.
Proof.
  induction f as [|f IH]; intros seen ls its; cbn [top_flow top_parse].
  - intros H. inversion H. reflexivity.
  - destruct ls as [|raw rest]; [intros H; inversion H; reflexivity|].
    cbv zeta.
    split_if; [apply IH|].
    destruct seen; [discriminate|].
    repeat (split_if; [first [apply IH | intros H; apply ocons_some in H; destruct H as [tl [H1 H2]]; subst its; f_equal; eapply IH; exact H1]|]).
    intros H; apply ocons_some in H; destruct H as [tl [H1 H2]]; subst its; f_equal; eapply IH; exact H1.
Qed.

(* after the main loop: only blank and comment lines are passed over, nothing is built *)
Lemma after_loop_nil : forall f ls its, top_flow f true ls = Some its -> its = [].
Proof.
  induction f as [|f IH]; intros ls its; cbn [top_flow].
  - intros H; inversion H; reflexivity.
  - destruct ls as [|raw rest]; [intros H; inversion H; reflexivity|].
    cbv zeta. split_if; [apply IH|discriminate].
Qed.

Lemma after_loop_rejects : forall f ls,
  (exists l, In l (firstn f ls) /\ top_junk l = false) -> top_flow f true ls = None.
Proof.
  induction f as [|f IH]; intros ls [l [Hin Hj]].
  - cbn in Hin. contradiction.
  - destruct ls as [|raw rest]; [cbn in Hin; contradiction|].
    cbn [firstn] in Hin. cbn [top_flow]. cbv zeta.
    destruct Hin as [He|Hin].
    + subst l. unfold top_junk in Hj. cbv zeta in Hj. rewrite Hj. reflexivity.
    + split_if; [|reflexivity]. apply IH. exists l. split; assumption.
Qed.

Lemma after_loop_all_junk : forall f ls its, top_flow f true ls = Some its ->
  forallb top_junk (firstn f ls) = true.
Proof.
  induction f as [|f IH]; intros ls its; [reflexivity|].
  destruct ls as [|raw rest]; [reflexivity|].
  cbn [top_flow firstn forallb]. cbv zeta. unfold top_junk at 1. cbv zeta.
  split_if; [|discriminate]. intros H. cbn. eapply IH. exact H.
Qed.

Lemma single_split {A} (x y : A) pre post : [x] = pre ++ y :: post -> post = [].
Proof.
  destruct pre as [|p pre]; cbn; intros H; inversion H; [reflexivity|].
  destruct pre; discriminate.
Qed.

(* the main loop is the last thing an accepted script contains *)
Lemma loop_last : forall f ls its, top_flow f false ls = Some its ->
  forall pre r n post, its = pre ++ TLoop r n :: post -> post = [].
Proof.
  induction f as [|f IH]; intros ls its; cbn [top_flow].
  - intros H; inversion H. intros pre r n post E. destruct pre; discriminate.
  - destruct ls as [|raw rest]; [intros H; inversion H; intros pre r n post E; destruct pre; discriminate|].
    cbv zeta.
    split_if; [apply IH|].
    split_if; [apply IH|].
    split_if; [apply IH|].
    split_if.
    { intros H; apply ocons_some in H; destruct H as [tl [H1 H2]].
      apply after_loop_nil in H1. subst tl its. intros pre r n post E. eapply single_split. exact E. }
    repeat (split_if; [intros H; apply ocons_some in H; destruct H as [tl [H1 H2]]; subst its;
                       intros pre r n post E; destruct pre as [|p pre]; cbn in E; inversion E; subst;
                       eapply IH; [exact H1|reflexivity]|]).
    intros H; apply ocons_some in H; destruct H as [tl [H1 H2]]; subst its;
      intros pre r n post E; destruct pre as [|p pre]; cbn in E; inversion E; subst;
      eapply IH; [exact H1|reflexivity].
Qed.

Lemma accepted_script : forall ls its, parse_flow ls = Some its ->
  its = parse_top ls /\ (forall pre r n post, its = pre ++ TLoop r n :: post -> post = []).
Proof.
  intros ls its H. split.
  - eapply flow_same. exact H.
  - eapply loop_last. exact H.
Qed.

(* the prefix of items handed to the statement layer before a rejection is a prefix of top_parse;
   for an accepted script it is everything *)
Lemma flow_prefix_accepted : forall f seen ls its, top_flow f seen ls = Some its -> flow_prefix f seen ls = its.
Proof.
  induction f as [|f IH]; intros seen ls its; cbn [top_flow flow_prefix].
  - intros H; inversion H; reflexivity.
  - destruct ls as [|raw rest]; [intros H; inversion H; reflexivity|].
    cbv zeta.
    split_if; [apply IH|].
    destruct seen; [discriminate|].
    repeat (split_if; [first [apply IH | intros H; apply ocons_some in H; destruct H as [tl [H1 H2]]; subst its; f_equal; eapply IH; exact H1]|]).
    intros H; apply ocons_some in H; destruct H as [tl [H1 H2]]; subst its; f_equal; eapply IH; exact H1.
Qed.

(* ---------------------------------------------------------------- function variants *)
Lemma top_parse_def_nodes : forall f ls h raw ns, In (TDef h raw ns) (top_parse f ls) -> ns = parse_lines raw.
Proof.
  induction f as [|f IH]; intros ls h raw ns; cbn [top_parse]; [intros []|].
  destruct ls as [|l rest]; [intros []|].
  cbv zeta.
  repeat (split_if; [first [apply IH | intros [H|H]; [first [discriminate H | inversion H; reflexivity]|eapply IH; exact H]]|]).
  intros [H|H]; [discriminate H|eapply IH; exact H].
Qed.

Lemma variant_structure : forall ls h raw ns,
  In (TDef h raw ns) (parse_top ls) -> map erase (variant_nodes raw) = map erase ns.
Proof.
  intros ls h raw ns H. unfold parse_top in H. apply top_parse_def_nodes in H. subst ns. reflexivity.
Qed.

(* whatever the statement layer does for a signature (tr cx fv fn ex are arbitrary): the compound
   statements of the variant's firmware are the ones Python's block tree of the def prescribes *)
Lemma variant_firmware_blocks : forall ls h raw ns tr cx fv fn ex ind,
  In (TDef h raw ns) (parse_top ls) -> is_blank ind = true -> chain_ok tr PvNone (map erase ns) = true ->
  c_read (emit_list ind (to_ir tr cx fv fn ex (map erase (variant_nodes raw)))) = Some (py_cs tr cx fv fn ex (map erase ns)).
Proof.
  intros ls h raw ns tr cx fv fn ex ind H Hb Hc.
  rewrite (variant_structure ls h raw ns H).
  apply firmware_blocks_are_pythons; assumption.
Qed.

Lemma variant_calls_are_the_defs : forall fuel ls h raw ns,
  In (TDef h raw ns) (parse_top ls) ->
  variant_calls fuel raw = (2, 1%nat, raw) :: calls_nodes fuel 2 2%nat ns.
Proof.
  intros fuel ls h raw ns H. unfold parse_top in H. apply top_parse_def_nodes in H. subst ns. reflexivity.
Qed.
