(* Round trip at the level of parse(): the model of parse()'s top-level dispatch ([top_parse]:
   target(...) lines, import filter, column-0 `while True:` / while / def / for headers, if / try
   chains, simple statements) applied to ANY layout of a script inside [top_layout_ok] gives back the
   skeleton.  Composes the nested round trip (RoundTripP.main_all) with the span functions that
   parse() uses at column 0 (_collect_block, _collect_if_structure, _collect_try_structure). *)
From Coq Require Import ZArith List Bool Lia Arith.
From RV Require Import Base.Wire Base.Text Lang.Rx Lang.Lex Lang.PyLayout Lang.Layout Proofs.RelayoutP Proofs.RoundTripP.
Import ListNotations.
Open Scope Z_scope.

Ltac rwtl H := let E := fresh "E" in pose proof H as E; unfold text in *; rewrite <- E; clear E.
Ltac rwt H := let E := fresh "E" in pose proof H as E; unfold text in *; rewrite E; clear E.

(* ================================================================ leading junk lines *)
Fixpoint takejunk (ls : list text) : list text :=
  match ls with l :: r => if junk l then l :: takejunk r else [] | [] => [] end.
Fixpoint dropjunk (ls : list text) : list text :=
  match ls with l :: r => if junk l then dropjunk r else ls | [] => [] end.

Lemma junk_split ls : takejunk ls ++ dropjunk ls = ls.
Proof. induction ls as [|l r IH]; [reflexivity|]. cbn. destruct (junk l); cbn; [rewrite IH|]; reflexivity. Qed.
Lemma takejunk_junk ls : forallb junk (takejunk ls) = true.
Proof. induction ls as [|l r IH]; [reflexivity|]. cbn. destruct (junk l) eqn:E; [cbn; rewrite E; exact IH|reflexivity]. Qed.
Lemma dropjunk_app J L : forallb junk J = true -> dropjunk (J ++ L) = dropjunk L.
Proof. induction J as [|x r IH]; intro H; [reflexivity|]. cbn in H. apply andb_true_iff in H as [Hx Hr]. cbn. rewrite Hx. exact (IH Hr). Qed.
Lemma dropjunk_all J : forallb junk J = true -> dropjunk J = [].
Proof. intro H. rewrite <- (app_nil_r J). rewrite (dropjunk_app J [] H). reflexivity. Qed.
Lemma takejunk_all J : forallb junk J = true -> takejunk J = J.
Proof. induction J as [|x r IH]; intro H; [reflexivity|]. cbn in H. apply andb_true_iff in H as [Hx Hr]. cbn. rewrite Hx, (IH Hr). reflexivity. Qed.
Lemma dropjunk_nj l r : junk l = false -> dropjunk (l :: r) = l :: r.
Proof. intro H. cbn. rewrite H. reflexivity. Qed.
Lemma dropjunk_idem ls : dropjunk (dropjunk ls) = dropjunk ls.
Proof. induction ls as [|l r IH]; [reflexivity|]. cbn. destruct (junk l) eqn:E; [exact IH|]. cbn. rewrite E. reflexivity. Qed.
Lemma dropjunk_length ls : (length (dropjunk ls) <= length ls)%nat.
Proof. induction ls as [|l r IH]; [cbn; lia|]. cbn. destruct (junk l); cbn; lia. Qed.
Lemma skipn_takejunk ls : skipn (length (takejunk ls)) ls = dropjunk ls.
Proof. induction ls as [|l r IH]; [reflexivity|]. cbn. destruct (junk l); [cbn; exact IH|reflexivity]. Qed.
Lemma skipn_app_l {A} (X P Q : list A) : skipn (length (X ++ P)) (X ++ Q) = skipn (length P) Q.
Proof. induction X as [|x r IH]; [reflexivity|]. cbn. exact IH. Qed.

(* ================================================================ top_parse and junk lines *)
Lemma top_skip_junk f l rest : junk l = true -> top_parse (S f) (l :: rest) = top_parse f rest.
Proof.
  intro H. rewrite top_parse_cons. cbv zeta. pose proof (probe_blank_is_junk l) as E. rewrite H in E.
  destruct (strip (strip_inline_comment l)); [reflexivity|discriminate].
Qed.

Lemma top_junk_front : forall L f, (length L < f)%nat ->
  exists f', (length (dropjunk L) < f')%nat /\ top_parse f L = top_parse f' (dropjunk L).
Proof.
  induction L as [|l r IH]; intros f Hf.
  - exists f. split; [exact Hf|reflexivity].
  - cbn [dropjunk]. destruct (junk l) eqn:Ej.
    + destruct f as [|f]; [cbn in Hf; lia|]. rewrite (top_skip_junk f l r Ej). apply IH. cbn in Hf. lia.
    + exists f. split; [exact Hf|reflexivity].
Qed.

(* ================================================================ the first character decides between the keywords *)
Definition head_is (c : Z) (t : text) : bool := match t with x :: _ => x =? c | [] => false end.

Lemma dp_none c r t : head_is c t = false -> drop_prefix (c :: r) t = None.
Proof. destruct t as [|x q]; intro H; [reflexivity|]. cbn in *. rewrite Z.eqb_sym, H. reflexivity. Qed.
Lemma head_other a b t : head_is a t = true -> a <> b -> head_is b t = false.
Proof. destruct t as [|x q]; intros H N; [discriminate|]. cbn in *. apply Z.eqb_eq in H. subst x. apply Z.eqb_neq. exact N. Qed.
Lemma dp_head c r t : drop_prefix (c :: r) t <> None -> head_is c t = true.
Proof. destruct (head_is c t) eqn:E; [reflexivity|]. intro H. exfalso. apply H. apply dp_none. exact E. Qed.

Lemma re_if_head t : re_if t = true -> head_is 105 t = true.
Proof. intro H. apply (dp_head 105 [102]). intro E. unfold re_if, re_kw_cond, kw_if in H. rewrite E in H. discriminate. Qed.
Lemma re_try_head t : re_try t = true -> head_is 116 t = true.
Proof. intro H. apply (dp_head 116 [114;121]). intro E. unfold re_try, re_kw_colon, kw_try in H. rewrite E in H. discriminate. Qed.
Lemma re_while_head t : re_while t = true -> head_is 119 t = true.
Proof. intro H. apply (dp_head 119 [104;105;108;101]). intro E. unfold re_while, re_kw_cond, kw_while in H. rewrite E in H. discriminate. Qed.
Lemma re_while_true_head t : re_while_true t = true -> head_is 119 t = true.
Proof. intro H. apply (dp_head 119 [104;105;108;101]). intro E. unfold re_while_true, kw_while in H. rewrite E in H. discriminate. Qed.
Lemma re_for_head t : re_for_range t = true -> head_is 102 t = true.
Proof. intro H. apply (dp_head 102 [111;114]). intro E. unfold re_for_range, kw_for in H. rewrite E in H. discriminate. Qed.
Lemma re_def_head t : re_def t = true -> head_is 100 t = true.
Proof. intro H. apply (dp_head 100 [101;102]). intro E. unfold re_def, kw_def in H. rewrite E in H. discriminate. Qed.

Lemma re_if_not c t : head_is c t = true -> c <> 105 -> re_if t = false.
Proof. intros H N. unfold re_if, re_kw_cond, kw_if. rewrite (dp_none 105 [102] t); [reflexivity|]. apply (head_other c); [exact H|exact N]. Qed.
Lemma re_try_not c t : head_is c t = true -> c <> 116 -> re_try t = false.
Proof. intros H N. unfold re_try, re_kw_colon, kw_try. rewrite (dp_none 116 [114;121] t); [reflexivity|]. apply (head_other c); [exact H|exact N]. Qed.
Lemma re_while_not c t : head_is c t = true -> c <> 119 -> re_while t = false.
Proof. intros H N. unfold re_while, re_kw_cond, kw_while. rewrite (dp_none 119 [104;105;108;101] t); [reflexivity|]. apply (head_other c); [exact H|exact N]. Qed.
Lemma re_while_true_not c t : head_is c t = true -> c <> 119 -> re_while_true t = false.
Proof. intros H N. unfold re_while_true, kw_while. rewrite (dp_none 119 [104;105;108;101] t); [reflexivity|]. apply (head_other c); [exact H|exact N]. Qed.
Lemma re_for_not c t : head_is c t = true -> c <> 102 -> re_for_range t = false.
Proof. intros H N. unfold re_for_range, kw_for. rewrite (dp_none 102 [111;114] t); [reflexivity|]. apply (head_other c); [exact H|exact N]. Qed.
Lemma re_def_not c t : head_is c t = true -> c <> 100 -> re_def t = false.
Proof. intros H N. unfold re_def, kw_def. rewrite (dp_none 100 [101;102] t); [reflexivity|]. apply (head_other c); [exact H|exact N]. Qed.

(* a line that does not start with `e` is none of elif / else / except *)
Lemma no_cont_head c h : head_is c h = true -> c <> 101 -> no_cont h = true.
Proof.
  destruct h as [|x q]; intros H N; [discriminate|]. cbn in H. apply Z.eqb_eq in H. subst x.
  assert (E : (101 =? c) = false) by (apply Z.eqb_neq; congruence).
  unfold no_cont, kw_elif, kw_else, kw_except. cbn [clash]. rewrite E. reflexivity.
Qed.

Lemma no_cont_re h : no_cont h = true -> re_elif h = false /\ re_else h = false /\ re_except h = false.
Proof.
  intro H. unfold no_cont in H. apply andb_true_iff in H as [H12 H3]. apply andb_true_iff in H12 as [H1 H2].
  pose proof (clash_drop _ h [] H1) as D1. pose proof (clash_drop _ h [] H2) as D2. pose proof (clash_drop _ h [] H3) as D3.
  rewrite app_nil_r in D1, D2, D3.
  unfold re_elif, re_else, re_except, re_kw_cond, re_kw_colon. rewrite D1, D2, D3. repeat split; reflexivity.
Qed.

Lemma classify_facts h k : classify h = Some k ->
  match k with
  | KIf => re_if h = true
  | KTry => re_if h = false /\ re_try h = true
  | KWhile => re_if h = false /\ re_try h = false /\ re_while h = true
  | KFor => re_if h = false /\ re_try h = false /\ re_while h = false /\ re_for_range h = true
  | _ => False
  end.
Proof.
  unfold classify. destruct (re_if h); [intro E; injection E as <-; reflexivity|].
  destruct (re_try h); [intro E; injection E as <-; split; reflexivity|].
  destruct (re_while h); [intro E; injection E as <-; repeat split; reflexivity|].
  destruct (re_for_range h); [intro E; injection E as <-; repeat split; reflexivity|discriminate].
Qed.

Lemma classify_none s : classify s = None -> re_if s = false /\ re_try s = false /\ re_while s = false /\ re_for_range s = false.
Proof.
  unfold classify. destruct (re_if s); [discriminate|]. destruct (re_try s); [discriminate|].
  destruct (re_while s); [discriminate|]. destruct (re_for_range s); [discriminate|]. repeat split; reflexivity.
Qed.

Lemma stmt_indent0 h : stmt_ok h = true -> indent_of h = 0%nat.
Proof. intro Hs. destruct (stmt_parts h Hs) as (c & q & -> & Hsp & _). apply indent_of_nonspace. exact Hsp. Qed.
Lemma stmt_not_nil h : stmt_ok h = true -> is_nil h = false.
Proof. intro Hs. destruct (stmt_parts h Hs) as (c & q & -> & _). reflexivity. Qed.

Lemma wf_seq_all : forall r c, wf_seq c r = true -> forallb wf_tree r = true.
Proof.
  induction r as [|x q IH]; intros c H; [reflexivity|]. cbn [wf_seq] in H.
  apply andb_true_iff in H as [H Hq]. apply andb_true_iff in H as [Hx _]. cbn [forallb]. rewrite Hx. exact (IH _ Hq).
Qed.

(* ================================================================ everything below is for one indentation unit and one tail of junk lines *)
Section Top.
  Variable u : text.
  Hypothesis Hu : unit_ok u = true.
  Variable fj : list text.
  Hypothesis Hfj : forallb junk fj = true.
  Local Notation ind := (ind_unit u).

  Definition R (ts : list ltop) : list text := flat_map (render_top1 ind) ts ++ fj.

  (* the lines that may follow a column-0 construct: junk, then nothing or a statement at column 0
     that is none of elif / else / except *)
  Definition stop_ok (L : list text) : Prop :=
    dropjunk L = [] \/
    exists h tr rest, dropjunk L = (h ++ tr) :: rest /\ stmt_ok h = true /\ trail_ok true tr = true /\ no_cont h = true.

  Lemma stop_ok_tail l r : junk l = true -> stop_ok (l :: r) -> stop_ok r.
  Proof. intros Ej H. unfold stop_ok in *. cbn [dropjunk] in H. rewrite Ej in H. exact H. Qed.

  Lemma line0_not_deep h tr : stmt_ok h = true -> deep 0 (h ++ tr) = false.
  Proof. intro Hs. exact (stmt_line_not_deep u Hu 0 h tr Hs). Qed.
  Lemma line0_not_junk h tr : stmt_ok h = true -> junk (h ++ tr) = false.
  Proof. intro Hs. exact (line_not_junk [] h tr eq_refl Hs). Qed.
  Lemma line0_indent h tr : stmt_ok h = true -> indent_of (h ++ tr) = 0%nat.
  Proof. intro Hs. rewrite (raw_indent h tr Hs). apply stmt_indent0. exact Hs. Qed.

  Lemma take_block_stop : forall L, stop_ok L -> take_block 0 L = takejunk L /\ drop_block 0 L = dropjunk L.
  Proof.
    induction L as [|l r IH]; intro H; [split; reflexivity|].
    rewrite take_block_deep. cbn [drop_block takejunk dropjunk]. destruct (junk l) eqn:Ej.
    - rewrite (junk_deep 0 l Ej). destruct (IH (stop_ok_tail l r Ej H)) as [A B]. rewrite A, B. split; reflexivity.
    - destruct H as [H|(h & tr & rest & H & Hs & _)]; cbn [dropjunk] in H; rewrite Ej in H; [discriminate|].
      injection H as -> _. rewrite (line0_not_deep h tr Hs). split; reflexivity.
  Qed.

  Lemma scan_deep_app re b : forall X Y, forallb (deep b) X = true ->
    struct_scan re b true (X ++ Y) = X ++ struct_scan re b true Y.
  Proof.
    induction X as [|x r IH]; intros Y H; [reflexivity|].
    cbn [forallb] in H. apply andb_true_iff in H as [Hx Hr]. cbn [app struct_scan andb].
    unfold deep in Hx. destruct (junk x); [rewrite (IH Y Hr); reflexivity|]. cbn [orb] in Hx.
    apply Nat.ltb_lt in Hx. destruct (Nat.leb_spec (indent_of x) b) as [Hle|Hgt]; [lia|]. cbn [negb].
    rewrite (IH Y Hr). reflexivity.
  Qed.

  (* one statement line at column 0 under the scanning loop of _collect_if/try_structure *)
  Lemma scan_line re h tr rest : stmt_ok h = true -> trail_ok true tr = true ->
    struct_scan re 0 true ((h ++ tr) :: rest) = if re h then (h ++ tr) :: struct_scan re 0 true rest else [].
  Proof.
    intros Hs Ht. cbn [struct_scan andb]. rewrite (line0_not_junk h tr Hs), (line0_indent h tr Hs). cbn [Nat.leb negb].
    rewrite (raw_code h tr Hs Ht), (stmt_not_nil h Hs). cbn [Nat.eqb negb]. reflexivity.
  Qed.

  Lemma scan_stop re : (forall h, no_cont h = true -> re h = false) ->
    forall L, stop_ok L -> struct_scan re 0 true L = takejunk L.
  Proof.
    intros Hre. induction L as [|l r IH]; intro H; [reflexivity|].
    cbn [takejunk]. destruct (junk l) eqn:Ej.
    - cbn [struct_scan andb]. rewrite Ej. rewrite (IH (stop_ok_tail l r Ej H)). reflexivity.
    - destruct H as [H|(h & tr & rest & H & Hs & Ht & Hn)]; cbn [dropjunk] in H; rewrite Ej in H; [discriminate|].
      injection H as -> _. rwt (scan_line re h tr r Hs Ht). rewrite (Hre h Hn). reflexivity.
  Qed.

  (* the continuation blocks (elif / else, or except) of a chain at column 0 *)
  Definition cont_nodes (pk : hkind -> bool) (r : list ltree) : bool :=
    forallb (fun n => match n with LBlock _ k _ _ _ => pk k | LLeaf _ _ _ => false end) r.

  Lemma body_deep body : wf_seq CNone body = true -> forallb (deep 0) (render_list ind 1 body) = true.
  Proof. intro H. exact (render_deep u Hu 0 (lsize body) body 1 CNone (le_n _) (Nat.lt_succ_diag_r 0) H). Qed.

  Lemma scan_chain re pk :
    (forall k h, pk k = true -> hdr_ok k h = true -> re h = true) ->
    (forall h, no_cont h = true -> re h = false) ->
    forall r L, forallb wf_tree r = true -> cont_nodes pk r = true -> stop_ok L ->
    struct_scan re 0 true (render_list ind 0 r ++ L) = render_list ind 0 r ++ takejunk L.
  Proof.
    intros Hyes Hno. induction r as [|n r2 IH]; intros L Hwf Hc Hst.
    - cbn [render_list flat_map app]. apply scan_stop; assumption.
    - cbn [forallb] in Hwf. apply andb_true_iff in Hwf as [Hn Hr2].
      unfold cont_nodes in Hc. cbn [forallb] in Hc. apply andb_true_iff in Hc as [Hk Hc2].
      destruct n as [pre s tr|pre k h tr body]; [discriminate|].
      rewrite wf_tree_block in Hn. apply andb_true_iff in Hn as [Hn H5]. apply andb_true_iff in Hn as [Hn H4].
      apply andb_true_iff in Hn as [Hn H3]. apply andb_true_iff in Hn as [H1 H2].
      assert (E : render_list ind 0 (LBlock pre k h tr body :: r2) ++ L
                  = pre ++ (h ++ tr) :: render_list ind 1 body ++ render_list ind 0 r2 ++ L).
      { unfold render_list. cbn [flat_map render]. rewrite <- !app_assoc. cbn [app ind_unit]. rewrite <- ?app_assoc. reflexivity. }
      rewrite E. rewrite (scan_deep_app re 0 pre _ (junk_all_deep 0 pre H1)).
      rewrite (scan_line re h tr _ H2 H4), (Hyes k h Hk H3).
      rewrite (scan_deep_app re 0 _ _ (body_deep body H5)).
      rewrite (IH L Hr2 Hc2 Hst).
      unfold render_list. cbn [flat_map render]. rewrite <- !app_assoc. cbn [app ind_unit]. rewrite <- ?app_assoc. reflexivity.
  Qed.

  (* ================================================================ the nested round trip, with trailing junk, at depth d *)
  Lemma parse_lines_seq d ns js : wf_seq CNone ns = true -> forallb junk js = true ->
    map erase (parse_lines (render_list ind d ns ++ js)) = map lerase ns.
  Proof.
    intros Hwf Hjs. unfold parse_lines.
    apply (main_all u Hu (S (length (render_list ind d ns ++ js))) ns d CNone js); [|exact Hwf|exact Hjs].
    pose proof (lsize_le_length u (lsize ns) ns d (le_n _)) as Hl. rewrite app_length. lia.
  Qed.

  (* ================================================================ items *)
  Definition item_pre (t : ltop) : list text :=
    match t with LChain (n :: _) => node_pre n | LChain [] => [] | LMain p _ _ _ | LDef p _ _ _ | LImp p _ _ => p end.
  Definition item_stmt (t : ltop) : text :=
    match t with LChain (n :: _) => node_stmt n | LChain [] => [] | LMain _ h _ _ | LDef _ h _ _ | LImp _ h _ => h end.
  Definition item_tr (t : ltop) : text :=
    match t with LChain (n :: _) => node_tr n | LChain [] => [] | LMain _ _ tr _ | LDef _ _ tr _ | LImp _ _ tr => tr end.
  Definition item_rest (t : ltop) : list text :=
    match t with
    | LChain (n :: r) => node_rest u 0 n ++ render_list ind 0 r
    | LChain [] => []
    | LMain _ _ _ body | LDef _ _ _ body => render_list ind 1 body
    | LImp _ _ _ => []
    end.

  Lemma render_item t : wf_top t = true ->
    render_top1 ind t = item_pre t ++ (item_stmt t ++ item_tr t) :: item_rest t.
  Proof.
    destruct t as [ns|pre h tr body|pre h tr body|pre s tr]; intro H; try reflexivity.
    destruct ns as [|n r]; [discriminate|].
    cbn [render_top1 item_pre item_stmt item_tr item_rest]. unfold render_list at 1. cbn [flat_map].
    rewrite (render_node u 0 n). rewrite <- app_assoc. reflexivity.
  Qed.

  Lemma wf_item t : wf_top t = true ->
    forallb junk (item_pre t) = true /\ stmt_ok (item_stmt t) = true /\ trail_ok true (item_tr t) = true
    /\ no_cont (item_stmt t) = true.
  Proof.
    destruct t as [ns|pre h tr body|pre h tr body|pre s tr]; cbn [wf_top]; intro H.
    - destruct ns as [|n r]; [discriminate|]. apply andb_true_iff in H as [Hc Hw].
      cbn [wf_seq] in Hw. apply andb_true_iff in Hw as [Hw _]. apply andb_true_iff in Hw as [Hn _].
      destruct n as [pre s tr|pre k h tr body]; cbn [item_pre item_stmt item_tr node_pre node_stmt node_tr].
      + cbn [wf_tree] in Hn. apply andb_true_iff in Hn as [Hn H5]. apply andb_true_iff in Hn as [Hn H4].
        apply andb_true_iff in Hn as [Hn H3]. apply andb_true_iff in Hn as [H1 H2]. repeat split; assumption.
      + rewrite wf_tree_block in Hn. apply andb_true_iff in Hn as [Hn H5]. apply andb_true_iff in Hn as [Hn H4].
        apply andb_true_iff in Hn as [Hn H3]. apply andb_true_iff in Hn as [H1 H2]. repeat split; try assumption.
        destruct k; try (cbn [chain_ok] in Hc; destruct r; discriminate); (eapply hdr_ok_nc_nocont; [|exact H3]; reflexivity).
    - repeat (apply andb_true_iff in H as [H ?]). cbn [item_pre item_stmt item_tr]. repeat split; try assumption.
      apply (no_cont_head 119); [apply re_while_true_head; assumption|discriminate].
    - repeat (apply andb_true_iff in H as [H ?]). cbn [item_pre item_stmt item_tr]. repeat split; try assumption.
      apply (no_cont_head 100); [apply re_def_head; assumption|discriminate].
    - repeat (apply andb_true_iff in H as [H ?]). cbn [item_pre item_stmt item_tr]. repeat split; assumption.
  Qed.

  Lemma R_cons t ts : wf_top t = true ->
    R (t :: ts) = item_pre t ++ (item_stmt t ++ item_tr t) :: item_rest t ++ R ts.
  Proof.
    intro H. unfold R. cbn [flat_map]. rewrite (render_item t H). rewrite <- !app_assoc. cbn [app]. rewrite <- ?app_assoc. reflexivity.
  Qed.

  Lemma R_stop ts : forallb wf_top ts = true -> stop_ok (R ts).
  Proof.
    destruct ts as [|t ts]; intro H.
    - left. unfold R. cbn [flat_map app]. apply dropjunk_all. exact Hfj.
    - cbn [forallb] in H. apply andb_true_iff in H as [Ht _]. right.
      destruct (wf_item t Ht) as (H1 & H2 & H3 & H4).
      exists (item_stmt t), (item_tr t), (item_rest t ++ R ts). split; [|repeat split; assumption].
      rewrite (R_cons t ts Ht), (dropjunk_app _ _ H1). apply dropjunk_nj. apply line0_not_junk. exact H2.
  Qed.

  (* ================================================================ one column-0 construct *)
  Section Step.
    Variable ts : list ltop.
    Hypothesis Hts : forallb wf_top ts = true.
    Hypothesis IH : forall f L, (length L < f)%nat -> dropjunk L = dropjunk (R ts) ->
                      map erase_item (top_parse f L) = lerase_tops ts.

    (* the block after a column-0 header (while True / while / for / def) *)
    Lemma block_after body : wf_seq CNone body = true ->
      take_block 0 (render_list ind 1 body ++ R ts) = render_list ind 1 body ++ takejunk (R ts)
      /\ skipn (length (take_block 0 (render_list ind 1 body ++ R ts))) (render_list ind 1 body ++ R ts) = dropjunk (R ts).
    Proof.
      intro Hb. rewrite skipn_take_block.
      rewrite (take_block_app 0 _ _ (body_deep body Hb)), (drop_block_app 0 _ _ (body_deep body Hb)).
      destruct (take_block_stop (R ts) (R_stop ts Hts)) as [A B]. rewrite A, B. split; reflexivity.
    Qed.

    Lemma block_after' body : wf_seq CNone body = true ->
      take_block 0 ((render_list ind 1 body ++ render_list ind 0 []) ++ R ts) = (render_list ind 1 body ++ render_list ind 0 []) ++ takejunk (R ts)
      /\ skipn (length (take_block 0 ((render_list ind 1 body ++ render_list ind 0 []) ++ R ts))) ((render_list ind 1 body ++ render_list ind 0 []) ++ R ts) = dropjunk (R ts).
    Proof. intro H. change (render_list ind 0 []) with (@nil text). rewrite app_nil_r. exact (block_after body H). Qed.

    Lemma continue_ok f (X : list text) : (length X < f)%nat -> (length (dropjunk (R ts)) <= length X)%nat ->
      map erase_item (top_parse f (dropjunk (R ts))) = lerase_tops ts.
    Proof. intros H1 H2. apply IH; [lia|apply dropjunk_idem]. Qed.

    Lemma len_rest (A : list text) : (length (dropjunk (R ts)) <= length (A ++ R ts))%nat.
    Proof. rewrite app_length. pose proof (dropjunk_length (R ts)). lia. Qed.

    Lemma top_step t f : wf_top t = true ->
      (length (item_rest t ++ R ts) < f)%nat ->
      map erase_item (top_parse (S f) ((item_stmt t ++ item_tr t) :: item_rest t ++ R ts))
      = lerase_top t ++ lerase_tops ts.
    Proof.
      intros Ht Hf. destruct (wf_item t Ht) as (_ & Hs & Htr & Hnc).
      rewrite top_parse_cons. cbv zeta.
      rewrite (raw_code _ _ Hs Htr), (line0_indent _ _ Hs), (stmt_not_nil_hash _ Hs). cbn [Nat.eqb andb].
      destruct t as [ns|pre h tr body|pre h tr body|pre s tr]; cbn [item_stmt item_tr item_rest lerase_top] in *.
      - (* a statement / a chain at column 0 *)
        destruct ns as [|n r]; [discriminate|]. cbn [wf_top] in Ht. apply andb_true_iff in Ht as [Hc Hw].
        assert (Hw' := Hw). cbn [wf_seq] in Hw'. apply andb_true_iff in Hw' as [Hw' Hr]. apply andb_true_iff in Hw' as [Hn Hacc].
        destruct (wf_node n Hn) as (_ & _ & Hset).
        assert (Hwset : wf_seq CNone (set_pre [] n :: r) = true).
        { cbn [wf_seq]. rewrite Hset, accepts_set_pre, Hacc, after_set_pre, Hr. reflexivity. }
        assert (Esn : forall J, (node_stmt n ++ node_tr n) :: (node_rest u 0 n ++ render_list ind 0 r) ++ J
                                = render_list ind 0 (set_pre [] n :: r) ++ J).
        { intro J. unfold render_list at 2. cbn [flat_map]. rewrite (render_node u 0 (set_pre [] n)).
          destruct n; cbn [set_pre node_pre node_stmt node_tr node_rest app ind_unit]; rewrite <- ?app_assoc; reflexivity. }
        assert (Eer : map lerase (set_pre [] n :: r) = map lerase (n :: r)).
        { cbn [map]. rewrite lerase_set_pre. reflexivity. }
        destruct n as [pre s tr|pre k h tr body]; cbn [node_stmt node_tr node_rest] in *.
        + (* simple statement *)
          destruct r as [|? ?]; [|discriminate]. cbn [chain_ok] in Hc.
          apply andb_true_iff in Hc as [Hc Hwt]. apply andb_true_iff in Hc as [Hp Hd].
          unfold top_plain in Hp. apply andb_true_iff in Hp as [Hp1 Hp2].
          apply negb_true_iff in Hwt, Hd, Hp1, Hp2.
          cbn [wf_tree] in Hn. apply andb_true_iff in Hn as [Hn _]. apply andb_true_iff in Hn as [Hn _]. apply andb_true_iff in Hn as [_ Hcl].
          destruct (classify s) eqn:Ecl; [discriminate|]. destruct (classify_none s Ecl) as (C1 & C2 & C3 & C4).
          rewrite Hp1, Hp2, Hwt, C3, Hd, C4, C1, C2.
          cbn [map erase_item].
          assert (P : map erase (parse_lines [s ++ tr]) = map lerase [LLeaf pre s tr]).
          { pose proof (parse_lines_seq 0 [LLeaf [] s tr] [] Hwset eq_refl) as P. rewrite app_nil_r in P. exact P. }
          rwt P. rewrite (IH f _ Hf eq_refl). reflexivity.
        + destruct k; try (cbn [chain_ok] in Hc; destruct r; discriminate).
          * (* if chain *)
            cbn [chain_ok] in Hc. apply andb_true_iff in Hc as [Hp Hcont].
            unfold top_plain in Hp. apply andb_true_iff in Hp as [Hp1 Hp2]. apply negb_true_iff in Hp1, Hp2.
            rewrite wf_tree_block in Hn. apply andb_true_iff in Hn as [Hn H5]. apply andb_true_iff in Hn as [Hn H4].
            apply andb_true_iff in Hn as [Hn H3].
            pose proof (classify_facts h KIf (hdr_ok_nc KIf h eq_refl H3)) as C1. cbn in C1.
            pose proof (re_if_head h C1) as Hh.
            rewrite Hp1, Hp2, (re_while_true_not 105 h Hh), (re_while_not 105 h Hh), (re_def_not 105 h Hh), (re_for_not 105 h Hh), C1 by discriminate.
            assert (Escan : struct_scan re_elif_or_else 0 true ((render_list ind 1 body ++ render_list ind 0 r) ++ R ts)
                            = (render_list ind 1 body ++ render_list ind 0 r) ++ takejunk (R ts)).
            { rewrite <- !app_assoc. rewrite (scan_deep_app _ 0 _ _ (body_deep body H5)). f_equal.
              apply (scan_chain re_elif_or_else (fun k => match k with KElif | KElse => true | _ => false end)).
              - intros k0 h0 Hk Hh0. unfold re_elif_or_else. destruct k0; try discriminate; cbn [hdr_ok] in Hh0.
                + rewrite Hh0. reflexivity.
                + apply andb_true_iff in Hh0 as [He _]. rewrite He. apply orb_true_r.
              - intros h0 Hn0. destruct (no_cont_re h0 Hn0) as (A & B & _). unfold re_elif_or_else. rewrite A, B. reflexivity.
              - exact (wf_seq_all r _ Hr).
              - unfold cont_nodes. clear - Hcont. induction r as [|x q IHq]; [reflexivity|]. cbn [forallb] in *.
                apply andb_true_iff in Hcont as [Hx Hq]. rewrite (IHq Hq), andb_true_r.
                destruct x as [|? k0 ? ? ?]; [discriminate|]. destruct k0; try discriminate; reflexivity.
              - exact (R_stop ts Hts). }
            rwt Escan. cbn [map erase_item].
            assert (P : map erase (parse_lines ((h ++ tr) :: (render_list ind 1 body ++ render_list ind 0 r) ++ takejunk (R ts)))
                        = map lerase (LBlock pre KIf h tr body :: r)).
            { rwt (Esn (takejunk (R ts))). rwtl Eer. apply parse_lines_seq; [exact Hwset|apply takejunk_junk]. }
            rwt P. rewrite skipn_app_l, skipn_takejunk. rewrite (continue_ok f _ Hf (len_rest _)). reflexivity.
          * (* try chain *)
            cbn [chain_ok] in Hc. apply andb_true_iff in Hc as [Hp Hcont].
            unfold top_plain in Hp. apply andb_true_iff in Hp as [Hp1 Hp2]. apply negb_true_iff in Hp1, Hp2.
            rewrite wf_tree_block in Hn. apply andb_true_iff in Hn as [Hn H5]. apply andb_true_iff in Hn as [Hn H4].
            apply andb_true_iff in Hn as [Hn H3].
            pose proof (classify_facts h KTry (hdr_ok_nc KTry h eq_refl H3)) as [C0 C1].
            pose proof (re_try_head h C1) as Hh.
            rewrite Hp1, Hp2, (re_while_true_not 116 h Hh), (re_while_not 116 h Hh), (re_def_not 116 h Hh), (re_for_not 116 h Hh), C0, C1 by discriminate.
            assert (Escan : struct_scan re_except 0 true ((render_list ind 1 body ++ render_list ind 0 r) ++ R ts)
                            = (render_list ind 1 body ++ render_list ind 0 r) ++ takejunk (R ts)).
            { rewrite <- !app_assoc. rewrite (scan_deep_app _ 0 _ _ (body_deep body H5)). f_equal.
              apply (scan_chain re_except (fun k => match k with KExcept => true | _ => false end)).
              - intros k0 h0 Hk Hh0. destruct k0; try discriminate; cbn [hdr_ok] in Hh0. exact Hh0.
              - intros h0 Hn0. destruct (no_cont_re h0 Hn0) as (_ & _ & C). exact C.
              - exact (wf_seq_all r _ Hr).
              - unfold cont_nodes. clear - Hcont. induction r as [|x q IHq]; [reflexivity|]. cbn [forallb] in *.
                apply andb_true_iff in Hcont as [Hx Hq]. rewrite (IHq Hq), andb_true_r.
                destruct x as [|? k0 ? ? ?]; [discriminate|]. destruct k0; try discriminate; reflexivity.
              - exact (R_stop ts Hts). }
            rwt Escan. cbn [map erase_item].
            assert (P : map erase (parse_lines ((h ++ tr) :: (render_list ind 1 body ++ render_list ind 0 r) ++ takejunk (R ts)))
                        = map lerase (LBlock pre KTry h tr body :: r)).
            { rwt (Esn (takejunk (R ts))). rwtl Eer. apply parse_lines_seq; [exact Hwset|apply takejunk_junk]. }
            rwt P. rewrite skipn_app_l, skipn_takejunk. rewrite (continue_ok f _ Hf (len_rest _)). reflexivity.
          * (* while *)
            destruct r as [|? ?]; [|discriminate]. cbn [chain_ok] in Hc. apply andb_true_iff in Hc as [Hp Hwt].
            unfold top_plain in Hp. apply andb_true_iff in Hp as [Hp1 Hp2]. apply negb_true_iff in Hp1, Hp2, Hwt.
            rewrite wf_tree_block in Hn. apply andb_true_iff in Hn as [Hn H5]. apply andb_true_iff in Hn as [Hn H4].
            apply andb_true_iff in Hn as [Hn H3].
            pose proof (classify_facts h KWhile (hdr_ok_nc KWhile h eq_refl H3)) as (C0 & C1 & C2).
            rewrite Hp1, Hp2, Hwt, C2.
            destruct (block_after' body H5) as [A B]. rwt B. rwt A. cbn [map erase_item].
            assert (P : map erase (parse_lines ((h ++ tr) :: (render_list ind 1 body ++ render_list ind 0 []) ++ takejunk (R ts)))
                        = map lerase [LBlock pre KWhile h tr body]).
            { rwt (Esn (takejunk (R ts))). rwtl Eer. apply parse_lines_seq; [exact Hwset|apply takejunk_junk]. }
            rwt P. rewrite (continue_ok f _ Hf (len_rest _)). reflexivity.
          * (* for *)
            destruct r as [|? ?]; [|discriminate]. cbn [chain_ok] in Hc.
            unfold top_plain in Hc. apply andb_true_iff in Hc as [Hp1 Hp2]. apply negb_true_iff in Hp1, Hp2.
            rewrite wf_tree_block in Hn. apply andb_true_iff in Hn as [Hn H5]. apply andb_true_iff in Hn as [Hn H4].
            apply andb_true_iff in Hn as [Hn H3].
            pose proof (classify_facts h KFor (hdr_ok_nc KFor h eq_refl H3)) as (C0 & C1 & C2 & C3).
            pose proof (re_for_head h C3) as Hh.
            rewrite Hp1, Hp2, (re_while_true_not 102 h Hh), C2, (re_def_not 102 h Hh), C3 by discriminate.
            destruct (block_after' body H5) as [A B]. rwt B. rwt A. cbn [map erase_item].
            assert (P : map erase (parse_lines ((h ++ tr) :: (render_list ind 1 body ++ render_list ind 0 []) ++ takejunk (R ts)))
                        = map lerase [LBlock pre KFor h tr body]).
            { rwt (Esn (takejunk (R ts))). rwtl Eer. apply parse_lines_seq; [exact Hwset|apply takejunk_junk]. }
            rwt P. rewrite (continue_ok f _ Hf (len_rest _)). reflexivity.
      - (* the main loop *)
        cbn [wf_top] in Ht. repeat (apply andb_true_iff in Ht as [Ht ?]).
        match goal with H : top_plain h = true |- _ => unfold top_plain in H; apply andb_true_iff in H as [Hp1 Hp2]; apply negb_true_iff in Hp1, Hp2 end.
        match goal with H : re_while_true h = true |- _ => rewrite Hp1, Hp2, H end.
        match goal with H : wf_seq CNone body = true |- _ => destruct (block_after body H) as [A B]; rwt B; rwt A;
          cbn [map erase_item]; rwt (parse_lines_seq 1 body (takejunk (R ts)) H (takejunk_junk (R ts))) end.
        rewrite (continue_ok f _ Hf (len_rest _)). reflexivity.
      - (* a function definition *)
        cbn [wf_top] in Ht. repeat (apply andb_true_iff in Ht as [Ht ?]).
        match goal with H : top_plain h = true |- _ => unfold top_plain in H; apply andb_true_iff in H as [Hp1 Hp2]; apply negb_true_iff in Hp1, Hp2 end.
        match goal with H : re_def h = true |- _ => pose proof (re_def_head h H) as Hh;
          rewrite Hp1, Hp2, (re_while_true_not 100 h Hh), (re_while_not 100 h Hh), H by discriminate end.
        match goal with H : wf_seq CNone body = true |- _ => destruct (block_after body H) as [A B]; rwt B; rwt A;
          cbn [map erase_item]; rwt (parse_lines_seq 1 body (takejunk (R ts)) H (takejunk_junk (R ts))) end.
        rewrite (continue_ok f _ Hf (len_rest _)). reflexivity.
      - (* an import line / a target(...) directive: filtered by parse() *)
        cbn [wf_top] in Ht. repeat (apply andb_true_iff in Ht as [Ht ?]).
        match goal with H : top_target s || top_import s = true |- _ => rename H into Hti end.
        cbn [app] in *.
        destruct (top_target s); [apply IH; [exact Hf|reflexivity]|].
        cbn [orb] in Hti. rewrite Hti. apply IH; [exact Hf|reflexivity].
    Qed.
  End Step.

  Lemma top_core : forall ts, forallb wf_top ts = true ->
    forall f L, (length L < f)%nat -> dropjunk L = dropjunk (R ts) ->
    map erase_item (top_parse f L) = lerase_tops ts.
  Proof.
    induction ts as [|t ts IH]; intros Hwf f L Hf HL.
    - destruct (top_junk_front L f Hf) as (f' & Hf' & E). rewrite E, HL. unfold R. cbn [flat_map app].
      rewrite (dropjunk_all fj Hfj). destruct f'; reflexivity.
    - cbn [forallb] in Hwf. apply andb_true_iff in Hwf as [Ht Hts].
      destruct (top_junk_front L f Hf) as (f' & Hf' & E). rewrite E, HL. rewrite HL in Hf'. clear E HL Hf L f.
      destruct (wf_item t Ht) as (H1 & H2 & _).
      assert (ED : dropjunk (R (t :: ts)) = (item_stmt t ++ item_tr t) :: item_rest t ++ R ts).
      { rewrite (R_cons t ts Ht), (dropjunk_app _ _ H1). apply dropjunk_nj. apply line0_not_junk. exact H2. }
      rewrite ED in *. destruct f' as [|f]; [cbn in Hf'; lia|].
      unfold lerase_tops. cbn [flat_map]. fold (lerase_tops ts).
      apply (top_step ts Hts (IH Hts) t f Ht). cbn [length] in Hf'. lia.
  Qed.

  Lemma parse_render_top_u : forall ts, forallb wf_top ts = true ->
    map erase_item (parse_top (render_top ind ts fj)) = lerase_tops ts.
  Proof.
    intros ts Hwf. unfold parse_top. apply (top_core ts Hwf); [lia|reflexivity].
  Qed.
End Top.

(* ================================================================ the theorems *)
Theorem parse_render_top : forall u ts fj,
  top_layout_ok u ts fj = true ->
  map erase_item (parse_top (render_top (ind_unit u) ts fj)) = lerase_tops ts.
Proof.
  intros u ts fj H. unfold top_layout_ok in H. apply andb_true_iff in H as [H Hfj]. apply andb_true_iff in H as [Hu Hwf].
  exact (parse_render_top_u u Hu fj Hfj ts Hwf).
Qed.

Theorem relayout_invariant_top : forall u1 u2 ts1 ts2 fj1 fj2,
  top_layout_ok u1 ts1 fj1 = true -> top_layout_ok u2 ts2 fj2 = true -> lerase_tops ts1 = lerase_tops ts2 ->
  map erase_item (parse_top (render_top (ind_unit u1) ts1 fj1)) = map erase_item (parse_top (render_top (ind_unit u2) ts2 fj2)).
Proof.
  intros u1 u2 ts1 ts2 fj1 fj2 H1 H2 E. rewrite (parse_render_top u1 ts1 fj1 H1), (parse_render_top u2 ts2 fj2 H2). exact E.
Qed.
