(* Inside the guard the parser model never rejects, except for a misplaced `break`:
   Transl.tr_block succeeds on every guarded statement list whose `break`s are inside for/while
   loops (not directly in the main loop).  With TranslSimpleP this gives: guard_ok + breaks_ok
   imply that transl accepts. *)
From Coq Require Import ZArith List Bool Lia.
From RV Require Import Base.Wire Base.Text Lang.StmtAst Lang.Transl Lang.StmtGuard Lang.StmtSimple.
From RV Require Import Proofs.SkeletonP Proofs.SimStoreP Proofs.StmtUnfoldP Proofs.SimBaseP Proofs.TranslSimpleP.
Import ListNotations.
Open Scope Z_scope.

Fixpoint sz (l : list pstmt) : nat := match l with [] => O | x :: r => (ssize x + sz r)%nat end.
Fixpoint szb (l : list (ann * list pstmt)) : nat :=
  match l with [] => O | (_, b) :: r => (S (sz b) + szb r)%nat end.

Lemma ssize_unfold p :
  ssize p = S (match p with
               | PIf _ b el e => S (sz b) + szb el + S (sz e)
               | PWhile _ b | PFor _ _ b => S (sz b)
               | _ => O end)%nat.
Proof.
  assert (G : forall l, (fix go (l : list pstmt) : nat := match l with [] => O | x :: r => (ssize x + go r)%nat end) l = sz l).
  { intro l. reflexivity. }
  destruct p; try reflexivity; cbn; rewrite ?G; try reflexivity.
Qed.

Lemma bsize_sz l : bsize l = S (sz l).
Proof. reflexivity. Qed.

Lemma brk_ok_unfold ml ld p :
  brk_ok ml ld p = match p with
                   | PBreak => match ld with O => false | S O => negb ml | _ => true end
                   | PContinue => match ld with O => false | _ => true end
                   | PIf _ b el e => brk_l ml ld b && brk_lb ml ld el && brk_l ml ld e
                   | PWhile _ b | PFor _ _ b => brk_l ml (S ld) b
                   | _ => true
                   end.
Proof.
  assert (G : forall d l, (fix go (d : nat) (l : list pstmt) : bool :=
                             match l with [] => true | x :: r => brk_ok ml d x && go d r end) d l = brk_l ml d l).
  { intros d l. induction l as [|x r IHl]; [reflexivity|]. cbn [brk_l]. rewrite <- IHl. reflexivity. }
  destruct p; try reflexivity; cbn; rewrite ?G; try reflexivity.
  all: try (f_equal; f_equal; induction elifs as [|[c' b] r IH]; [reflexivity|]; cbn; rewrite G; f_equal; exact IH).
Qed.

(* the head of a statement list is translated independently of what follows *)
Lemma tr_block_cons ml f glob ld s p rest ns0 s1 :
  (forall s0, tr_block ml f glob ld s0 [] = Some ([], s0)) ->
  tr_block ml (S f) glob ld s [p] = Some (ns0, s1) ->
  tr_block ml (S f) glob ld s (p :: rest) =
  match tr_block ml f glob ld s1 rest with None => None | Some (ms, s2) => Some (ns0 ++ ms, s2) end.
Proof.
  intro Hnil.
  assert (K : forall (hd : option (list cnode * tst)),
             match hd with
             | None => None
             | Some (ns, s1') => match tr_block ml f glob ld s1' [] with
                                 | None => None | Some (ms, s2) => Some (ns ++ ms, s2) end
             end = Some (ns0, s1) ->
             match hd with
             | None => None
             | Some (ns, s1') => match tr_block ml f glob ld s1' rest with
                                 | None => None | Some (ms, s2) => Some (ns ++ ms, s2) end
             end = match tr_block ml f glob ld s1 rest with None => None | Some (ms, s2) => Some (ns0 ++ ms, s2) end).
  { intros [[ns s1']|] H; [|discriminate]. rewrite Hnil in H. inversion H; subst. rewrite app_nil_r. reflexivity. }
  destruct p; cbn [tr_block]; try (apply K).
  - apply (K (Some (tr_assign glob x (rt_ann ml e) s))).
  - apply (K (Some ([NAssign x (XAug x op (a_id e))], with_ty x t_after s))).
  - apply (K (Some ([NWrite (a_id e)], s))).
  - apply (K (Some ([NSleep (a_id e)], s))).
Qed.

Lemma tr_block_accepts ml : forall f gf glob top lm ld s D L ps D',
  implb ml (Nat.leb 1 ld) = true ->
  glob = top -> (top = true -> ml = lm) -> implb lm (no_top_tuple D ps) = true ->
  g_block gf top D L ps = Some D' -> Dec D L s -> brk_l ml ld ps = true -> (S (sz ps) <= f)%nat ->
  exists ns s', tr_block ml f glob ld s ps = Some (ns, s').
Proof.
  induction f as [|f IH]; intros gf glob top lm ld s D L ps D' Hml HGL HLM Htup HG HD HB Hf; [lia|].
  destruct ps as [|p rest]; [eexists; eexists; reflexivity|].
  apply g_block_cons_inv in HG as (gf' & D1 & -> & HS & HG).
  cbn [brk_l] in HB. apply andb_true_iff in HB as [HB1 HBr]. cbn [sz] in Hf.
  pose proof (ssize_unfold p) as HSZ.
  destruct f as [|f']; [lia|]. remember (S f') as F eqn:HF.
  assert (Hnil : forall s0, tr_block ml F glob ld s0 [] = Some ([], s0)) by (intro s0; subst F; reflexivity).
  assert (Htr : implb lm (no_top_tuple D1 rest) = true).
  { destruct lm; [|reflexivity]. cbn [implb] in Htup |- *. eapply no_top_tuple_tail; [eapply g_step_ext; exact HS|exact Htup]. }
  assert (Htp : implb lm (no_top_tuple D [p]) = true).
  { destruct lm; [|reflexivity]. cbn [implb no_top_tuple forallb] in Htup |- *.
    apply andb_true_iff in Htup as [Htup _]. rewrite Htup. reflexivity. }
  (* the head alone *)
  assert (HEAD : exists ns0 s1, tr_block ml (S F) glob ld s [p] = Some (ns0, s1)).
  { rewrite brk_ok_unfold in HB1.
    destruct p; cbn [tr_block].
    - destruct (tr_assign glob x (rt_ann ml e) s) as [a b]. eexists; eexists; rewrite ?Hnil; reflexivity.
    - eexists; eexists; rewrite ?Hnil; reflexivity.
    - (* tuple *)
      cbn [g_step] in HS.
      assert (Hlen : length xs = length es).
      { destruct (tuple_asg_ok D L xs es) eqn:Hq.
        - apply tuple_asg_ok_inv in Hq as (_ & _ & Hq). apply tuple_asg_tys_inv in Hq as [Hq _]. exact Hq.
        - destruct (top && tuple_decl_ok D L xs es) eqn:Hk; [|discriminate].
          apply andb_true_iff in Hk as [_ Hk]. destruct (tuple_decl_ok_inv _ _ _ _ Hk) as (Hlen & _). exact Hlen. }
      destruct (glob && ml).
      { unfold tr_tuple_main. rewrite Hlen, Nat.leb_refl. cbn [negb].
        destruct (tuple_binds_main _ _ _ _) as [a b]. eexists; eexists; rewrite ?Hnil; reflexivity. }
      unfold tr_tuple. rewrite Hlen, Nat.leb_refl. cbn [negb].
      destruct (_ && glob).
      + destruct (tuple_global _ _ _) as [a b]. eexists; eexists; rewrite ?Hnil; reflexivity.
      + destruct (tuple_binds _ _ _ _) as [a b]. eexists; eexists; rewrite ?Hnil; reflexivity.
    - (* if *)
      cbn [g_step] in HS.
      match type of HS with (if ?cnd then _ else _) = _ => destruct cnd eqn:Hc; [|discriminate] end.
      apply andb_true_iff in Hc as [Hc H3]. apply andb_true_iff in Hc as [Hc H2]. apply andb_true_iff in Hc as [_ H1].
      apply nested_true in H1. apply nested_true in H3.
      apply andb_true_iff in HB1 as [HBb HBe]. apply andb_true_iff in HBb as [HBb HBl].
      assert (NEST : forall b gl, g_block gf' false D L b = Some D -> brk_l ml ld b = true -> (S (sz b) <= F)%nat ->
                     exists nsb cs, tr_block ml F false ld (child_of s gl) b = Some (nsb, cs)).
      { intros b gl Hg Hb Hs. eapply (IH gf' false false false ld _ D L b D Hml eq_refl (no_top ml) eq_refl Hg (Dec_child D L s gl HD) Hb Hs). }
      destruct (NEST body (globals s) H1 HBb ltac:(lia)) as (ns1 & cs1 & E1). rewrite E1.
      match goal with |- context [?B (globals cs1) elifs] => set (BR := B) end.
      assert (HBR : forall l gl, (forall cb, In cb l -> g_block gf' false D L (snd cb) = Some D) ->
                    brk_lb ml ld l = true -> (szb l <= F)%nat -> exists r, BR gl l = Some r).
      { induction l as [|[c' b] r IHl]; intros gl Hg Hb Hs; cbn.
        - eexists; reflexivity.
        - cbn [brk_lb] in Hb. apply andb_true_iff in Hb as [Hb1 Hb2]. cbn [szb] in Hs.
          destruct (NEST b gl (Hg (c', b) (or_introl eq_refl)) Hb1 ltac:(lia)) as (nsb & cs & Eb). rewrite Eb.
          destruct (IHl (globals cs) (fun cb H => Hg cb (or_intror H)) Hb2 ltac:(lia)) as ([rr gg] & Er). rewrite Er.
          eexists; reflexivity. }
      destruct (HBR elifs (globals cs1)) as ([brs0 gl1] & Ebr).
      { intros cb Hin. rewrite forallb_forall in H2. specialize (H2 _ Hin).
        apply andb_true_iff in H2 as [_ H2]. apply nested_true in H2. exact H2. }
      { exact HBl. } { lia. }
      rewrite Ebr.
      destruct els as [|e0 els'].
      + match goal with |- context [promo_decls ?G ?N ?S] => destruct (promo_decls G N S) as [decls s3] end.
        eexists; eexists; rewrite ?Hnil; reflexivity.
      + destruct (NEST (e0 :: els') gl1 H3 HBe ltac:(lia)) as (nse & cse & Ee). rewrite Ee.
        match goal with |- context [promo_decls ?G ?N ?S] => destruct (promo_decls G N S) as [decls s3] end.
        eexists; eexists; rewrite ?Hnil; reflexivity.
    - (* while *)
      cbn [g_step] in HS.
      match type of HS with (if ?cnd then _ else _) = _ => destruct cnd eqn:Hc; [|discriminate] end.
      apply andb_true_iff in Hc as [_ H1]. apply nested_true in H1.
      destruct (IH gf' false false false (S ld) (child_of s (globals s)) D L body D (ml_S _ _ Hml) eq_refl (no_top ml) eq_refl H1
                  (Dec_child D L s (globals s) HD) HB1 ltac:(lia)) as (nsb & cs & Eb).
      rewrite Eb.
      match goal with |- context [promo_decls ?G ?N ?S] => destruct (promo_decls G N S) as [decls s3] end.
      eexists; eexists; rewrite ?Hnil; reflexivity.
    - (* for *)
      cbn [g_step] in HS.
      match type of HS with (if ?cnd then _ else _) = _ => destruct cnd eqn:Hc; [|discriminate] end.
      apply andb_true_iff in Hc as [Hc H8]. apply andb_true_iff in Hc as [Hc H7].
      apply andb_true_iff in Hc as [Hc H6]. apply andb_true_iff in Hc as [Hc H5].
      apply andb_true_iff in Hc as [Hc H4t].
      apply andb_true_iff in Hc as [Hc H4]. apply andb_true_iff in Hc as [Hc H3].
      apply nested_true in H8. apply negb_true_iff in H3, H4.
      assert (Hnd : is_declared x s = false).
      { unfold is_declared. rewrite (HD x), H4, orb_false_r. exact H3. }
      rewrite Hnd.
      match goal with |- context [tr_block ml F false (S ld) ?B body] => set (base := B) end.
      assert (HDb : Dec D (x :: L) base).
      { intro y. unfold base. cbn [declared]. rewrite tmem_app, (HD y). cbn [tmem].
        destruct (tmem y (map fst D)), (tmem y L), (text_eqb y x); reflexivity. }
      destruct (IH gf' false false false (S ld) base D (x :: L) body D (ml_S _ _ Hml) eq_refl (no_top ml) eq_refl H8 HDb HB1 ltac:(lia)) as (nsb & cs & Eb).
      rewrite Eb.
      match goal with |- context [promo_decls ?G ?N ?S] => destruct (promo_decls G N S) as [decls s3] end.
      eexists; eexists; rewrite ?Hnil; reflexivity.
    - (* break *)
      destruct ld as [|[|ld']]; [discriminate| |].
      + destruct ml; [discriminate|]. eexists; eexists; rewrite ?Hnil; reflexivity.
      + eexists; eexists; rewrite ?Hnil; reflexivity.
    - (* continue *)
      destruct ld as [|[|ld']]; [discriminate| |].
      + destruct ml; eexists; eexists; rewrite ?Hnil; reflexivity.
      + eexists; eexists; rewrite ?Hnil; reflexivity.
    - eexists; eexists; rewrite ?Hnil; reflexivity.
    - eexists; eexists; rewrite ?Hnil; reflexivity.
    - destruct (closed_const e); eexists; eexists; rewrite ?Hnil; reflexivity. }
  destruct HEAD as (ns0 & s1 & HEAD).
  assert (HD1 : Dec D1 L s1).
  { assert (G1 : g_block (S gf') top D L [p] = Some D1).
    { rewrite g_block_cons, HS. destruct gf'; [discriminate HG|]. reflexivity. }
    destruct (tr_block_simple ml _ _ glob top lm _ _ _ _ _ _ _ _ Hml HGL HLM Htp G1 HD HEAD) as (_ & _ & X & _). exact X. }
  destruct (IH gf' glob top lm ld s1 D1 L rest D' Hml HGL HLM Htr HG HD1 HBr ltac:(lia)) as (ms & s2 & Er).
  exists (ns0 ++ ms), s2. rewrite (tr_block_cons _ _ _ _ _ _ rest _ _ Hnil HEAD), Er. reflexivity.
Qed.

Theorem guard_accepts p : guard_ok p = true -> breaks_ok p = true -> exists c, transl p = Some c.
Proof.
  unfold guard_ok, breaks_ok, transl. intros HG HB.
  apply andb_true_iff in HG as [_ HG]. apply andb_true_iff in HB as [HB1 HB2].
  destruct (g_block (bsize (p_pre p)) true [] [] (p_pre p)) as [D|] eqn:G1; [|discriminate].
  assert (HD0 : Dec [] [] st0) by (intro x; reflexivity).
  destruct (tr_block_accepts false (bsize (p_pre p)) _ true true false 0 st0 [] [] (p_pre p) D eq_refl eq_refl (fun _ => eq_refl) eq_refl G1 HD0 HB1)
    as (setup & s1 & T1); [rewrite bsize_sz; lia|].
  rewrite T1.
  destruct (p_main p) as [body|]; [|eexists; reflexivity].
  apply andb_true_iff in HG as [HNT HG].
  destruct (g_block (bsize body) true D [] body) as [D2|] eqn:G2; [|discriminate].
  destruct (tr_block_simple false _ _ true true false _ _ _ _ _ _ _ _ eq_refl eq_refl (fun _ => eq_refl) eq_refl G1 HD0 T1) as (_ & _ & S3 & _).
  destruct (tr_block_accepts true (bsize body) _ true true true 1 s1 D [] body D2 eq_refl eq_refl (fun _ => eq_refl) HNT G2 S3 HB2)
    as (loop & s2 & T2); [rewrite bsize_sz; lia|].
  rewrite T2. eexists; reflexivity.
Qed.
