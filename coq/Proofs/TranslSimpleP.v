(* Inside the guard, Transl.tr_block computes the simple translation StmtSimple.trm:
   no promotion, no temporaries, no local declarations; first top-level assignments
   become globals. *)
From Coq Require Import ZArith List Bool Lia.
From RV Require Import Base.Wire Base.Text Lang.StmtAst Lang.Transl Lang.StmtGuard Lang.StmtSimple.
From RV Require Import Proofs.SkeletonP Proofs.SimStoreP Proofs.StmtUnfoldP Proofs.SimBaseP.
Import ListNotations.
Open Scope Z_scope.

Definition Dec (D : tenv) (L : list ident) (s : tst) : Prop :=
  forall x, tmem x (declared s) = tmem x (map fst D) || tmem x L.

Lemma new_names_nil a b : (forall x, In x a -> tmem x b = true) -> new_names a b = [].
Proof.
  unfold new_names. induction a as [|y a IH]; cbn; intro H; [reflexivity|].
  rewrite (H y (or_introl eq_refl)). cbn. apply IH. intros; apply H; right; assumption.
Qed.

Lemma Dec_new_names D L s cs : Dec D L s -> Dec D L cs -> new_names (declared cs) (declared s) = [].
Proof.
  intros H1 H2. apply new_names_nil. intros x Hx. apply tmem_In in Hx. rewrite H1, <- H2. exact Hx.
Qed.

Lemma filter_tmem_nil (l : list ident) : filter (fun x => tmem x []) l = [].
Proof. induction l; cbn; auto. Qed.

Lemma map_id_Forall {A} (f : A -> A) l : Forall (fun n => f n = n) l -> map f l = l.
Proof. induction 1 as [|x l Hx _ IH]; cbn; [reflexivity|]. rewrite Hx, IH. reflexivity. Qed.

Lemma map_id_branches (f : cnode -> cnode) (bs : list (Z * list cnode)) :
  Forall (fun cb => Forall (fun n => f n = n) (snd cb)) bs ->
  map (fun cb => (fst cb, map f (snd cb))) bs = bs.
Proof.
  induction 1 as [|[c b] l Hx _ IH]; cbn; [reflexivity|]. cbn in Hx.
  rewrite (map_id_Forall f b Hx), IH. reflexivity.
Qed.

Lemma rewrite_deep_nil n : rewrite_deep [] n = n.
Proof.
  induction n using cnode_ind'; rewrite rewrite_deep_unfold; try reflexivity.
  - destruct g; reflexivity.
  - rewrite (map_id_branches _ bs H), (map_id_Forall _ els H0). reflexivity.
  - rewrite (map_id_Forall _ b H). reflexivity.
  - rewrite (map_id_Forall _ b H). reflexivity.
Qed.

Lemma rewrite_if_nil n : rewrite_if [] n = n.
Proof.
  induction n using cnode_ind'; rewrite rewrite_if_unfold; try reflexivity.
  - destruct g; reflexivity.
  - rewrite (map_id_branches _ bs H), (map_id_Forall _ els H0). reflexivity.
Qed.

Lemma map_rewrite_deep_nil l : map (rewrite_deep []) l = l.
Proof. apply map_id_Forall. apply Forall_forall. intros; apply rewrite_deep_nil. Qed.
Lemma map_rewrite_if_nil l : map (rewrite_if []) l = l.
Proof. apply map_id_Forall. apply Forall_forall. intros; apply rewrite_if_nil. Qed.

Lemma Dec_child D L s gl : Dec D L s -> Dec D L (child_of s gl).
Proof. intro H. exact H. Qed.

Lemma bool3 a b c : (a || c) || b = (a || b) || c.
Proof. destruct a, b, c; reflexivity. Qed.

Lemma set_tys_same : forall xs es s, declared (set_tys xs es s) = declared s /\ globals (set_tys xs es s) = globals s.
Proof.
  induction xs as [|x xr IH]; intros [|e er] s; cbn; auto.
  destruct (IH er (with_ty x (a_ty e) s)) as [A B]. rewrite A, B. auto.
Qed.

Lemma set_tys_tmpc : forall xs es s, tmpc (set_tys xs es s) = tmpc s.
Proof. induction xs as [|x xr IH]; intros [|e er] s; cbn; auto. rewrite IH. reflexivity. Qed.

Lemma tuple_global_tmpc : forall xs es s, tmpc (snd (tuple_global xs es s)) = tmpc s.
Proof.
  induction xs as [|x xr IH]; intros [|e er] s; cbn; auto.
  destruct (closed_const e);
    match goal with |- context [tuple_global xr er ?S] => specialize (IH er S); destruct (tuple_global xr er S) end;
    cbn [snd] in *; rewrite IH; reflexivity.
Qed.

(* all names declared: the bindings are plain assignments from the temporaries *)
Lemma tuple_binds_declared : forall xs es k s, length xs = length es ->
  (forall x, In x xs -> is_declared x s = true) ->
  tuple_binds xs es k s = (tup_asgs xs k, s).
Proof.
  induction xs as [|x xr IH]; intros [|e er] k s Hlen Hd; cbn in Hlen; try discriminate; [reflexivity|].
  cbn [tuple_binds tup_asgs]. rewrite (Hd x (or_introl eq_refl)).
  rewrite (IH er (k + 1) s); [reflexivity|congruence|intros; apply Hd; right; assumption].
Qed.

Lemma tuple_binds_main_declared : forall xs es k s, length xs = length es ->
  (forall x, In x xs -> is_declared x s = true) ->
  tuple_binds_main xs es k s = (tup_asgs xs k, s).
Proof.
  induction xs as [|x xr IH]; intros [|e er] k s Hlen Hd; cbn in Hlen; try discriminate; [reflexivity|].
  cbn [tuple_binds_main tup_asgs]. rewrite (Hd x (or_introl eq_refl)).
  rewrite (IH er (k + 1) s); [reflexivity|congruence|intros; apply Hd; right; assumption].
Qed.

Lemma tuple_tmps_len : forall es k, length (tuple_tmps es k) = length es.
Proof. induction es; intros; cbn; auto. Qed.

Lemma tuple_global_spec : forall xs es s, length xs = length es ->
  fst (tuple_global xs es s) = tup_nodes xs es /\
  declared (snd (tuple_global xs es s)) = declared s ++ xs /\
  globals (snd (tuple_global xs es s)) = globals s ++ tup_globals xs es.
Proof.
  induction xs as [|x xr IH]; intros [|e er] s Hlen; cbn in Hlen; try discriminate.
  - cbn. rewrite !app_nil_r. auto.
  - injection Hlen as Hlen. cbn [tuple_global tup_nodes tup_globals].
    destruct (closed_const e);
      match goal with |- context [tuple_global xr er ?S] =>
        destruct (IH er S Hlen) as (A & B & C); destruct (tuple_global xr er S) as [rest s3] end;
      cbn [fst snd] in *; rewrite A, B, C; cbn [declared globals add_global declare];
      rewrite <- !app_assoc; auto.
Qed.

(* the `continue` flag of the simple translation: at the level of the main loop *)
Definition rt (ml : bool) (ld : nat) : bool := ml && Nat.eqb ld 1.

Lemma rt_S ml ld : implb ml (Nat.leb 1 ld) = true -> rt ml (S ld) = false.
Proof. unfold rt. destruct ml; [|reflexivity]. destruct ld as [|ld']; [discriminate|reflexivity]. Qed.
Lemma ml_S ml ld : implb ml (Nat.leb 1 ld) = true -> implb ml (Nat.leb 1 (S ld)) = true.
Proof. destruct ml; reflexivity. Qed.

Lemma no_top (ml : bool) : false = true -> ml = false.
Proof. discriminate. Qed.

Lemma drop_hoisted_nil l : drop_hoisted [] l = l.
Proof.
  unfold drop_hoisted. induction l as [|n l IH]; [reflexivity|]. cbn [filter].
  replace (is_hoisted [] n) with false; [cbn [negb]; rewrite IH; reflexivity|].
  destruct n; try reflexivity. cbn. destruct init; try reflexivity. destruct glob; reflexivity.
Qed.

Lemma tr_block_simple ml : forall f gf glob top lm ld s D L ps D' ns s',
  implb ml (Nat.leb 1 ld) = true ->
  glob = top -> (top = true -> ml = lm) -> implb lm (no_top_tuple D ps) = true ->
  g_block gf top D L ps = Some D' -> Dec D L s ->
  tr_block ml f glob ld s ps = Some (ns, s') ->
  ns = fst (trm (rt ml ld) (tmpc s) top lm D ps) /\ globals s' = globals s ++ snd (trm (rt ml ld) (tmpc s) top lm D ps) /\ Dec D' L s'
  /\ (top = false -> tmpc s' = klist (tmpc s) ps).
Proof.
  induction f as [|f IH]; intros gf glob top lm ld s D L ps D' ns s' Hml HGL HLM Htup HG HD H; [discriminate|].
  destruct ps as [|p rest].
  - inversion H; subst. destruct gf; [discriminate|]. rewrite g_block_nil in HG. inversion HG; subst.
    rewrite trm_nil. cbn. rewrite app_nil_r. auto.
  - apply g_block_cons_inv in HG as (gf' & D1 & -> & HS & HG).
    assert (Htr : implb lm (no_top_tuple D1 rest) = true).
    { destruct lm; [|reflexivity]. cbn [implb] in Htup |- *. eapply no_top_tuple_tail; [eapply g_step_ext; exact HS|exact Htup]. }
    assert (K : forall ns0 s1 nsp gsp KN,
               trm (rt ml ld) (tmpc s) top lm D (p :: rest) = (nsp ++ fst (trm (rt ml ld) KN top lm D1 rest), gsp ++ snd (trm (rt ml ld) KN top lm D1 rest)) ->
               match tr_block ml f glob ld s1 rest with
               | None => None | Some (ms, s2) => Some (ns0 ++ ms, s2) end = Some (ns, s') ->
               ns0 = nsp -> globals s1 = globals s ++ gsp -> Dec D1 L s1 -> tmpc s1 = KN -> (top = false -> KN = knext (tmpc s) p) ->
               ns = fst (trm (rt ml ld) (tmpc s) top lm D (p :: rest)) /\ globals s' = globals s ++ snd (trm (rt ml ld) (tmpc s) top lm D (p :: rest)) /\ Dec D' L s'
               /\ (top = false -> tmpc s' = klist (tmpc s) (p :: rest))).
    { intros ns0 s1 nsp gsp KN HT Hr -> Hg Hd Hk1 Hk2.
      destruct (tr_block ml f glob ld s1 rest) as [[ms s2]|] eqn:E; [|discriminate].
      inversion Hr; subst ns s'. destruct (IH _ _ top lm _ _ _ _ _ _ _ _ Hml HGL HLM Htr HG Hd E) as (I1 & I2 & I3 & I4).
      rewrite HT. cbn [fst snd klist]. rewrite I1, I2, Hg, app_assoc, Hk1. repeat split; auto.
      intro Ht. rewrite (I4 Ht), Hk1, <- (Hk2 Ht). reflexivity. }
    destruct p; cbn [tr_block] in H.
    + (* PAssign *)
      cbn [g_step] in HS. destruct (fv_ok D L e); [|discriminate].
      destruct (tmem x L) eqn:HxL; [discriminate|]. cbn [negb orb] in HS.
      assert (Hrt : a_ty (rt_ann ml e) = a_ty e /\ a_id (rt_ann ml e) = a_id e) by (destruct ml; split; reflexivity).
      destruct Hrt as [Hrt1 Hrt2].
      unfold tr_assign, is_declared in H. rewrite Hrt1, Hrt2, (HD x), HxL, orb_false_r in H.
      destruct (tlookup x D) as [t|] eqn:Hl.
      * destruct (ty_eqb t (a_ty e)); [|discriminate]. inversion HS; subst D1.
        match type of H with context [tmem x ?l] => replace (tmem x l) with true in H by (symmetry; eapply tlookup_dom_true; eauto) end.
        eapply (K _ _ [NAssign x (XE (a_id e))] [] _); [|exact H|reflexivity|cbn; rewrite app_nil_r; reflexivity|exact HD|reflexivity|intros _; reflexivity].
        rewrite (trm_cons_old (rt ml ld) (tmpc s) top lm D x e rest _ Hl), tr1_unfold. reflexivity.
      * destruct top; [|discriminate]. destruct (is_tmp x); [discriminate|]. cbn [andb negb] in HS. inversion HS; subst D1.
        match type of H with context [tmem x ?l] => replace (tmem x l) with false in H by (symmetry; eapply tlookup_dom_false; eauto) end.
        subst glob. pose proof (HLM eq_refl) as Hmlm.
        assert (HD1 : forall g, Dec (D ++ [(x, a_ty e)]) L (add_global g (declare x (with_ty x (a_ty e) s)))).
        { intros g y. cbn [add_global declare with_ty declared]. rewrite map_app, !tmem_app, (HD y). cbn [map fst].
          apply bool3. }
        destruct lm.
        -- (* main-loop body: a global with the default initialiser + the assignment in place *)
           assert (Hcc : closed_const (rt_ann ml e) = false) by (rewrite Hmlm; reflexivity).
           rewrite Hcc in H.
           pose proof (trm_cons_newl (rt ml ld) (tmpc s) D x e rest Hl) as HT.
           eapply (K _ _ [NAssign x (XE (a_id e))] [_] _); [exact HT|exact H|reflexivity|reflexivity|apply HD1|reflexivity|intros _; reflexivity].
        -- assert (Hcc : closed_const (rt_ann ml e) = closed_const e) by (rewrite Hmlm; reflexivity).
           rewrite Hcc in H.
           pose proof (trm_cons_new (rt ml ld) (tmpc s) D x e rest Hl) as HT.
           destruct (closed_const e).
           ++ eapply (K _ _ [] [_] _); [exact HT|exact H|reflexivity|reflexivity|apply HD1|reflexivity|intros _; reflexivity].
           ++ eapply (K _ _ [NAssign x (XE (a_id e))] [_] _); [exact HT|exact H|reflexivity|reflexivity|apply HD1|reflexivity|intros _; reflexivity].
    + (* PAug *)
      cbn [g_step] in HS. destruct (fv_ok D L e); [|discriminate].
      destruct (tmem x L) eqn:HxL; [discriminate|]. cbn [negb orb] in HS.
      destruct (tlookup x D) as [t|] eqn:Hl; [|discriminate].
      destruct (ty_eqb t t_after); [|discriminate]. inversion HS; subst D1.
      eapply (K _ _ [NAssign x (XAug x op (a_id e))] [] _); [|exact H|reflexivity|cbn; rewrite app_nil_r; reflexivity|exact HD|reflexivity|intros _; reflexivity].
      rewrite (trm_cons_other (rt ml ld) (tmpc s) top lm D (PAug x op e t_after) rest I), tr1_unfold. reflexivity.
    + (* PTuple *)
      cbn [g_step] in HS. destruct (tuple_asg_ok D L xs es) eqn:Hq.
      { (* assignment of declared names: temporaries, then assignments *)
        inversion HS; subst D1.
        destruct (tuple_asg_ok_inv _ _ _ _ Hq) as (Hne & _ & Hty).
        destruct (tuple_asg_tys_inv _ _ _ _ Hty) as [Hlen Hdom].
        head_opt H a0 a1 E.
        assert (Hdec : forall x, In x xs -> is_declared x s = true).
        { intros x Hx. unfold is_declared. rewrite (HD x). destruct (Hdom x Hx) as [A _]. rewrite A. reflexivity. }
        assert (E0 : tr_tuple false xs es s = Some (a0, a1) \/ tr_tuple glob xs es s = Some (a0, a1)).
        { destruct (glob && ml) eqn:Egm; [left|right; exact E].
          unfold tr_tuple_main in E. unfold tr_tuple. rewrite Hlen, Nat.leb_refl, firstn_all in *. cbn [negb] in *.
          rewrite andb_false_r. cbv zeta in E |- *.
          destruct (set_tys_same xs es s) as [Y1 Y2].
          rewrite tuple_binds_main_declared in E; [|exact Hlen|].
          2:{ intros x Hx. unfold is_declared. cbn [with_tmpc declared]. rewrite Y1. apply Hdec. exact Hx. }
          rewrite tuple_binds_declared; [exact E|exact Hlen|].
          intros x Hx. unfold is_declared. cbn [with_tmpc declared]. rewrite Y1. apply Hdec. exact Hx. }
        clear E. assert (E : exists g0, tr_tuple g0 xs es s = Some (a0, a1)) by (destruct E0 as [E0|E0]; eexists; exact E0).
        destruct E as [g0 E].
        unfold tr_tuple in E. rewrite Hlen, Nat.leb_refl, firstn_all in E. cbn [negb] in E.
        assert (Hall : forallb (fun x => negb (is_declared x s)) xs = false).
        { destruct xs as [|x xr]; [congruence|]. cbn [forallb]. rewrite (Hdec x (or_introl eq_refl)). reflexivity. }
        rewrite Hall in E. cbn [andb] in E.
        destruct (set_tys_same xs es s) as [Y1 Y2]. pose proof (set_tys_tmpc xs es s) as Y3.
        cbv zeta in E. rewrite Y3 in E. rewrite tuple_binds_declared in E; [|exact Hlen|].
        2:{ intros x Hx. unfold is_declared. cbn [with_tmpc declared]. rewrite Y1. apply Hdec. exact Hx. }
        inversion E; subst a0 a1. clear E.
        eapply (K _ _ (tuple_tmps es (tmpc s) ++ tup_asgs xs (tmpc s)) [] _);
          [|exact H|reflexivity|cbn [with_tmpc globals]; rewrite Y2, app_nil_r; reflexivity| |cbn [with_tmpc tmpc]; reflexivity|intros _; reflexivity].
        - rewrite (trm_cons_tuple_asg (rt ml ld) (tmpc s) top lm D L xs es rest Hq), tr1_unfold. reflexivity.
        - intro y. cbn [with_tmpc declared]. rewrite Y1. apply HD. }
      destruct (top && tuple_decl_ok D L xs es) eqn:Hk; [|discriminate].
      inversion HS; subst D1. apply andb_true_iff in Hk as [-> Hk].
      destruct lm; [exfalso; cbn [implb] in Htup; eapply no_top_tuple_decl; eauto|]. subst glob. replace (true && ml) with false in H by (rewrite (HLM eq_refl); reflexivity).
      destruct (tuple_decl_ok_inv _ _ _ _ Hk) as (Hlen & _ & Hnew & Hnd).
      head_opt H a0 a1 E.
      unfold tr_tuple in E. rewrite Hlen, Nat.leb_refl, firstn_all in E. cbn [negb] in E.
      assert (Hall : forallb (fun x => negb (is_declared x s)) xs = true).
      { apply forallb_forall. intros x Hx. destruct (Hnew x Hx) as [A B]. unfold is_declared.
        rewrite (HD x). apply negb_true_iff. apply orb_false_iff. split; [exact (A)|exact B]. }
      rewrite Hall in E. cbn [andb] in E. inversion E as [E']. clear E.
      destruct (tuple_global_spec xs es (set_tys xs es s) Hlen) as (T1 & T2 & T3).
      destruct (set_tys_same xs es s) as [Y1 Y2]. rewrite Y1 in T2. rewrite Y2 in T3.
      rewrite E' in T1, T2, T3. cbn [fst snd] in T1, T2, T3.
      pose proof (tuple_global_tmpc xs es (set_tys xs es s)) as T4. rewrite E' in T4. cbn [snd] in T4. rewrite set_tys_tmpc in T4.
      eapply (K _ _ (tup_nodes xs es) (tup_globals xs es) _); [exact (trm_cons_tuple (rt ml ld) (tmpc s) D L xs es rest Hk)|exact H|exact T1|exact T3| |exact T4|].
      * intro y. rewrite T2, map_app, map_fst_combine by (rewrite map_length; exact Hlen).
        rewrite !tmem_app, (HD y). apply bool3.
      * intro Hf. discriminate Hf.
    + (* PIf *)
      cbn [g_step] in HS.
      match type of HS with (if ?cnd then _ else _) = _ => destruct cnd eqn:Hc; [|discriminate] end.
      inversion HS; subst D1. clear HS.
      apply andb_true_iff in Hc as [Hc H3]. apply andb_true_iff in Hc as [Hc H2]. apply andb_true_iff in Hc as [_ H1].
      apply nested_true in H1. apply nested_true in H3.
      assert (H2' : forall cb, In cb elifs -> g_block gf' false D L (snd cb) = Some D).
      { intros cb Hin. rewrite forallb_forall in H2. specialize (H2 _ Hin).
        apply andb_true_iff in H2 as [_ H2]. apply nested_true in H2. exact H2. }
      clear H2.
      assert (HT : trm (rt ml ld) (tmpc s) top lm D (PIf c body elifs els :: rest) =
                   ([NIf ((a_id c, trn (rt ml ld) (tmpc s) body) :: trnb (rt ml ld) (tmpc s) elifs) (trn (rt ml ld) (tmpc s) els)] ++ fst (trm (rt ml ld) (tmpc s) top lm D rest), [] ++ snd (trm (rt ml ld) (tmpc s) top lm D rest))).
      { rewrite (trm_cons_other (rt ml ld) (tmpc s) top lm D (PIf c body elifs els) rest I), tr1_unfold. reflexivity. }
      head_opt H a0 a1 E.
      destruct (tr_block ml f false ld (child_of s (globals s)) body) as [[ns1 cs1]|] eqn:E1; [|discriminate].
      destruct (IH _ false false false _ _ _ _ _ _ _ _ Hml eq_refl (no_top ml) eq_refl H1 (Dec_child D L s (globals s) HD) E1) as (I1 & I2 & I3 & I4).
      cbn [trm fst snd child_of globals tmpc] in I1, I2, I4. rewrite app_nil_r in I2.
      match type of E with
      | context [?B (globals cs1) elifs] => set (BR := B) in *
      end.
      assert (HB : forall l gl brs gl', gl = globals s ->
                   (forall cb, In cb l -> g_block gf' false D L (snd cb) = Some D) ->
                   BR gl l = Some (brs, gl') ->
                   gl' = globals s /\ map (fun x : Z * list cnode * tst => (fst (fst x), snd (fst x))) brs = trnb (rt ml ld) (tmpc s) l /\
                   Forall (fun x : Z * list cnode * tst => Dec D L (snd x)) brs).
      { induction l as [|[c' b] r IHl]; intros gl brs gl' Hgl Hgd Hb; cbn in Hb.
        - inversion Hb; subst. auto.
        - destruct (tr_block ml f false ld (child_of s gl) b) as [[nsb cs]|] eqn:Eb; [|discriminate].
          destruct (BR (globals cs) r) as [[rest' gl'']|] eqn:Er; [|discriminate].
          inversion Hb; subst brs gl''. clear Hb.
          destruct (IH _ false false false _ _ _ _ _ _ _ _ Hml eq_refl (no_top ml) eq_refl (Hgd (c', b) (or_introl eq_refl)) (Dec_child D L s gl HD) Eb) as (J1 & J2 & J3 & J4).
          cbn [trm fst snd child_of globals tmpc] in J1, J2. rewrite app_nil_r in J2.
          destruct (IHl (globals cs) rest' gl') as (K1 & K2 & K3); [congruence|intros; apply Hgd; right; assumption|exact Er|].
          split; [exact K1|]. split; [cbn; rewrite K2, J1; reflexivity|constructor; assumption]. }
      destruct (BR (globals cs1) elifs) as [[brs0 gl1]|] eqn:Ebr; [|discriminate].
      destruct (HB elifs (globals cs1) brs0 gl1 I2 H2' Ebr) as (B1 & B2 & B3).
      assert (RW : forall (brs : list (Z * list cnode * tst)),
                 map (fun x : Z * list cnode * tst => (fst (fst x), map (rewrite_if []) (drop_hoisted [] (snd (fst x))))) brs
                 = map (fun x : Z * list cnode * tst => (fst (fst x), snd (fst x))) brs).
      { intro l. apply map_ext. intros [[c0 n0] t0]. cbn [fst snd]. rewrite drop_hoisted_nil, map_rewrite_if_nil. reflexivity. }
      assert (FIN : forall (elsn : list cnode) (ctxs : list tst) (COL : list tst -> list ident -> list (ident * ty)),
                 (forall cl seen, Forall (Dec D L) cl -> COL cl seen = @nil (ident * ty)) ->
                 Forall (Dec D L) ctxs -> elsn = trn (rt ml ld) (tmpc s) els ->
                 (let '(decls, s3) :=
                    promo_decls glob (COL ctxs [])
                      (fold_left (fun acc xt => with_ty (fst xt) (snd xt) acc) (COL ctxs [])
                         {| declared := declared s; vtypes := vtypes s; globals := gl1; tmpc := tmpc s |}) in
                  Some (decls ++ [NIf (map (fun x : Z * list cnode * tst => (fst (fst x), map (rewrite_if (map fst (COL ctxs []))) (drop_hoisted (map fst (COL ctxs [])) (snd (fst x)))))
                                         ((a_id c, ns1, cs1) :: brs0))
                                      (map (rewrite_if (map fst (COL ctxs []))) (drop_hoisted (map fst (COL ctxs [])) elsn))], s3)) = Some (a0, a1) ->
                 ns = fst (trm (rt ml ld) (tmpc s) top lm D (PIf c body elifs els :: rest)) /\
                   globals s' = globals s ++ snd (trm (rt ml ld) (tmpc s) top lm D (PIf c body elifs els :: rest)) /\ Dec D' L s' /\
                   (top = false -> tmpc s' = klist (tmpc s) (PIf c body elifs els :: rest))).
      { intros elsn ctxs COL HCOL HF -> HE. rewrite (HCOL ctxs [] HF) in HE.
        cbn [promo_decls fold_left map] in HE. rewrite RW in HE. rewrite ?drop_hoisted_nil, !map_rewrite_if_nil in HE. cbn [map fst snd] in HE.
        rewrite B2, I1 in HE. inversion HE; subst a0 a1. clear HE.
        eapply (K _ _ _ _ _ HT); [exact H|reflexivity|cbn [globals]; rewrite B1, app_nil_r; reflexivity|exact HD|reflexivity|intros _; reflexivity]. }
      assert (HCOLg : forall cl seen, Forall (Dec D L) cl ->
                 (fix collect (cl : list tst) (seen : list ident) {struct cl} : list (ident * ty) :=
                    match cl with
                    | [] => []
                    | cs :: r =>
                        map (fun x : ident => (x, get_ty x (vtypes cs)))
                          (filter (fun x : text => negb (tmem x seen)) (new_names (declared cs) (declared s))) ++
                        collect r (seen ++ filter (fun x : text => negb (tmem x seen)) (new_names (declared cs) (declared s)))
                    end) cl seen = []).
      { induction cl as [|cs r IHc]; intros seen HF; [reflexivity|]. inversion HF; subst.
        rewrite (Dec_new_names D L s cs HD) by assumption. cbn [filter map app]. rewrite app_nil_r. apply IHc. assumption. }
      assert (B3' : Forall (Dec D L) (map (fun x : Z * list cnode * tst => snd x) ((a_id c, ns1, cs1) :: brs0))).
      { cbn [map snd]. constructor; [exact I3|]. apply Forall_map. exact B3. }
      destruct els as [|e0 els'].
      * eapply (FIN [] (map (fun x : Z * list cnode * tst => snd x) ((a_id c, ns1, cs1) :: brs0) ++ []) _ HCOLg); [|reflexivity|exact E].
        apply Forall_app. split; [exact B3'|constructor].
      * destruct (tr_block ml f false ld (child_of s gl1) (e0 :: els')) as [[nse cse]|] eqn:Ee; [|discriminate].
        destruct (IH _ false false false _ _ _ _ _ _ _ _ Hml eq_refl (no_top ml) eq_refl H3 (Dec_child D L s gl1 HD) Ee) as (J1 & J2 & J3 & J4).
        cbn [trm fst snd child_of globals tmpc] in J1, J2. rewrite app_nil_r in J2.
        cbn [globals] in E. rewrite J2 in E.
        eapply (FIN nse (map (fun x : Z * list cnode * tst => snd x) ((a_id c, ns1, cs1) :: brs0) ++ [cse]) _ HCOLg); [|exact J1|exact E].
        apply Forall_app. split; [exact B3'|constructor; [exact J3|constructor]].
    + (* PWhile *)
      cbn [g_step] in HS.
      match type of HS with (if ?cnd then _ else _) = _ => destruct cnd eqn:Hc; [|discriminate] end.
      inversion HS; subst D1. apply andb_true_iff in Hc as [_ H1]. apply nested_true in H1.
      head_opt H a0 a1 E.
      destruct (tr_block ml f false (S ld) (child_of s (globals s)) body) as [[nsb cs]|] eqn:Eb; [|discriminate].
      destruct (IH _ false false false _ _ _ _ _ _ _ _ (ml_S _ _ Hml) eq_refl (no_top ml) eq_refl H1 (Dec_child D L s (globals s) HD) Eb) as (I1 & I2 & I3 & I4).
      cbn [trm fst snd child_of globals tmpc] in I1, I2, I4. rewrite app_nil_r in I2.
      rewrite (Dec_new_names D L s cs HD I3) in E. rewrite filter_tmem_nil in E.
      cbn [dedup app filter map fold_left promo_decls] in E. rewrite drop_hoisted_nil, map_rewrite_deep_nil in E.
      inversion E; subst a0 a1. clear E.
      rewrite (rt_S _ _ Hml) in I1.
      eapply (K _ _ [NWhile (a_id c) (trn false (tmpc s) body)] [] _);
        [|exact H|subst nsb; reflexivity|cbn [globals]; rewrite I2, app_nil_r; reflexivity|exact HD|cbn [tmpc]; exact (I4 eq_refl)|intros _; rewrite knext_unfold; reflexivity].
      rewrite (trm_cons_other (rt ml ld) (tmpc s) top lm D (PWhile c body) rest I), tr1_unfold. reflexivity.
    + (* PFor *)
      cbn [g_step] in HS.
      match type of HS with (if ?cnd then _ else _) = _ => destruct cnd eqn:Hc; [|discriminate] end.
      inversion HS; subst D1.
      apply andb_true_iff in Hc as [Hc H8]. apply andb_true_iff in Hc as [Hc H7].
      apply andb_true_iff in Hc as [Hc H6]. apply andb_true_iff in Hc as [Hc H5].
      apply andb_true_iff in Hc as [Hc H4t].
      apply andb_true_iff in Hc as [Hc H4]. apply andb_true_iff in Hc as [Hc H3].
      apply nested_true in H8. apply negb_true_iff in H3, H4.
      head_opt H a0 a1 E.
      assert (Hnd : is_declared x s = false).
      { unfold is_declared. rewrite (HD x), H4, orb_false_r. exact H3. }
      rewrite Hnd in E.
      match type of E with match tr_block ml f false (S ld) ?B body with _ => _ end = _ =>
        set (base := B) in *;
        destruct (tr_block ml f false (S ld) base body) as [[nsb cs]|] eqn:Eb; [|discriminate] end.
      assert (HDb : Dec D (x :: L) base).
      { intro y. unfold base. cbn [declared]. rewrite tmem_app, (HD y). cbn [tmem].
        destruct (tmem y (map fst D)), (tmem y L), (text_eqb y x); reflexivity. }
      destruct (IH _ false false false _ _ _ _ _ _ _ _ (ml_S _ _ Hml) eq_refl (no_top ml) eq_refl H8 HDb Eb) as (I1 & I2 & I3 & I4).
      cbn [trm fst snd tmpc] in I1, I2, I4. rewrite app_nil_r in I2.
      rewrite (Dec_new_names D (x :: L) base cs HDb I3) in E. rewrite filter_tmem_nil in E.
      cbn [dedup app filter map fold_left promo_decls] in E. rewrite drop_hoisted_nil, map_rewrite_deep_nil in E.
      inversion E; subst a0 a1. clear E.
      rewrite (rt_S _ _ Hml) in I1.
      eapply (K _ _ [NFor x (a_id cnt) (trn false (tmpc s) body)] [] _);
        [|exact H|subst nsb; reflexivity|cbn [globals]; rewrite I2, app_nil_r; reflexivity|exact HD|cbn [tmpc]; exact (I4 eq_refl)|intros _; rewrite knext_unfold; reflexivity].
      rewrite (trm_cons_other (rt ml ld) (tmpc s) top lm D (PFor x cnt body) rest I), tr1_unfold. reflexivity.
    + (* PBreak *)
      cbn [g_step] in HS. inversion HS; subst D1.
      assert (HT : trm (rt ml ld) (tmpc s) top lm D (PBreak :: rest) = ([NBreak] ++ fst (trm (rt ml ld) (tmpc s) top lm D rest), [] ++ snd (trm (rt ml ld) (tmpc s) top lm D rest))).
      { rewrite (trm_cons_other (rt ml ld) (tmpc s) top lm D PBreak rest I), tr1_unfold. reflexivity. }
      destruct ld as [|[|ld']]; [discriminate| |].
      * destruct ml; [discriminate|].
        eapply (K _ _ _ _ _ HT); [exact H|reflexivity|cbn; rewrite app_nil_r; reflexivity|exact HD|reflexivity|intros _; reflexivity].
      * eapply (K _ _ _ _ _ HT); [exact H|reflexivity|cbn; rewrite app_nil_r; reflexivity|exact HD|reflexivity|intros _; reflexivity].
    + (* PContinue *)
      cbn [g_step] in HS. inversion HS; subst D1.
      assert (HT : trm (rt ml ld) (tmpc s) top lm D (PContinue :: rest) =
                   ((if rt ml ld then [NReturn] else [NContinue]) ++ fst (trm (rt ml ld) (tmpc s) top lm D rest), [] ++ snd (trm (rt ml ld) (tmpc s) top lm D rest))).
      { rewrite (trm_cons_other (rt ml ld) (tmpc s) top lm D PContinue rest I), tr1_unfold. reflexivity. }
      unfold rt in HT at 2.
      destruct ld as [|[|ld']]; [discriminate| |].
      * destruct ml; cbn [andb Nat.eqb] in HT;
          (eapply (K _ _ _ _ _ HT); [exact H|reflexivity|cbn; rewrite app_nil_r; reflexivity|exact HD|reflexivity|intros _; reflexivity]).
      * rewrite andb_false_r in HT. eapply (K _ _ _ _ _ HT); [exact H|reflexivity|cbn; rewrite app_nil_r; reflexivity|exact HD|reflexivity|intros _; reflexivity].
    + cbn [g_step] in HS. destruct (fv_ok D L e); [|discriminate]. inversion HS; subst D1.
      eapply (K _ _ [NWrite (a_id e)] [] _); [|exact H|reflexivity|cbn; rewrite app_nil_r; reflexivity|exact HD|reflexivity|intros _; reflexivity].
      rewrite (trm_cons_other (rt ml ld) (tmpc s) top lm D (PWrite e) rest I), tr1_unfold. reflexivity.
    + cbn [g_step] in HS. destruct (fv_ok D L e); [|discriminate]. inversion HS; subst D1.
      eapply (K _ _ [NSleep (a_id e)] [] _); [|exact H|reflexivity|cbn; rewrite app_nil_r; reflexivity|exact HD|reflexivity|intros _; reflexivity].
      rewrite (trm_cons_other (rt ml ld) (tmpc s) top lm D (PSleep e) rest I), tr1_unfold. reflexivity.
    + cbn [g_step] in HS. destruct (fv_ok D L e); [|discriminate]. inversion HS; subst D1.
      assert (HT : trm (rt ml ld) (tmpc s) top lm D (PExprS e :: rest) =
                   ((if closed_const e then [] else [NExprS (a_id e)]) ++ fst (trm (rt ml ld) (tmpc s) top lm D rest), [] ++ snd (trm (rt ml ld) (tmpc s) top lm D rest))).
      { rewrite (trm_cons_other (rt ml ld) (tmpc s) top lm D (PExprS e) rest I), tr1_unfold. reflexivity. }
      destruct (closed_const e);
        (eapply (K _ _ _ _ _ HT); [exact H|reflexivity|cbn; rewrite app_nil_r; reflexivity|exact HD|reflexivity|intros _; reflexivity]).
Qed.
