From Coq Require Import ZArith List Bool Lia.
From RV Require Import Base.Wire Base.Text Lang.StmtAst Lang.Transl Lang.TupleOrder.
Import ListNotations.
Open Scope Z_scope.

Lemma eval_order_app a b : eval_order (a ++ b) = eval_order a ++ eval_order b.
Proof. unfold eval_order. apply flat_map_app. Qed.

Lemma eval_order_tmps es : forall k, eval_order (tuple_tmps es k) = map a_id es.
Proof.
  induction es as [|e er IH]; intros k; [reflexivity|].
  cbn [tuple_tmps map]. unfold eval_order in *. cbn [flat_map node_ids cexpr_ids app]. rewrite IH. reflexivity.
Qed.

Lemma eval_order_binds xs : forall es k s, eval_order (fst (tuple_binds xs es k s)) = [].
Proof.
  induction xs as [|x xr IH]; intros [|e er] k s; try reflexivity.
  cbn [tuple_binds]. destruct (is_declared x s).
  - specialize (IH er (k + 1) s). destruct (tuple_binds xr er (k + 1) s) as [rest s2]. cbn [fst] in *.
    unfold eval_order in *. cbn [flat_map node_ids cexpr_ids app]. exact IH.
  - specialize (IH er (k + 1) (declare x s)). destruct (tuple_binds xr er (k + 1) (declare x s)) as [rest s2]. cbn [fst] in *.
    unfold eval_order in *. cbn [flat_map node_ids cexpr_ids app]. exact IH.
Qed.

Lemma eval_order_global xs : forall es s,
  length xs = length es ->
  eval_order (fst (tuple_global xs es s)) = map a_id (filter (fun e => negb (closed_const e)) es).
Proof.
  induction xs as [|x xr IH]; intros [|e er] s Hl; try reflexivity; try discriminate.
  cbn [tuple_global]. cbn [length] in Hl. injection Hl as Hl.
  destruct (closed_const e) eqn:C.
  - match goal with |- context [tuple_global xr er ?S] => specialize (IH er S Hl); destruct (tuple_global xr er S) as [rest s3] end.
    cbn [fst app filter] in *. rewrite C. cbn [negb]. exact IH.
  - match goal with |- context [tuple_global xr er ?S] => specialize (IH er S Hl); destruct (tuple_global xr er S) as [rest s3] end.
    cbn [fst filter] in *. rewrite C. cbn [negb map]. rewrite eval_order_app. rewrite IH. reflexivity.
Qed.

(* Through the temporaries the emitted statements evaluate the right-hand sides e0, e1, ..., en exactly once each and
   in source order, and every one of them before the first target is written. *)
Theorem tuple_order_tmps : forall glob xs es s ns s',
  tr_tuple glob xs es s = Some (ns, s') -> through_tmps glob xs s = true ->
  exists tmps binds,
    ns = tmps ++ binds /\ length tmps = length xs /\
    eval_order tmps = map a_id (firstn (length xs) es) /\ eval_order binds = [] /\
    eval_order ns = map a_id (firstn (length xs) es).
Proof.
  intros glob xs es s ns s' H T. unfold tr_tuple in H. unfold through_tmps in T.
  destruct (Nat.leb (length xs) (length es)) eqn:L; cbn [negb] in H; [|discriminate].
  set (es' := firstn (length xs) es) in *.
  set (s1 := set_tys xs es' s) in *.
  destruct (forallb (fun x => negb (is_declared x s)) xs && glob) eqn:A; [discriminate|].
  pose proof (eval_order_binds xs es' (tmpc s1) (with_tmpc (tmpc s1 + Z.of_nat (length es')) s1)) as B.
  destruct (tuple_binds xs es' (tmpc s1) (with_tmpc (tmpc s1 + Z.of_nat (length es')) s1)) as [binds s3].
  cbn [fst] in B. injection H as <- <-.
  exists (tuple_tmps es' (tmpc s1)), binds.
  assert (LEN : length es' = length xs).
  { unfold es'. apply firstn_length_le. apply Nat.leb_le. exact L. }
  repeat split.
  - clear -LEN. revert LEN. generalize (tmpc s1). generalize (length xs).
    induction es' as [|e er IH]; intros n k Hn; [exact Hn|]. cbn [tuple_tmps length] in *.
    destruct n; [discriminate|]. f_equal. apply (IH n (k + 1)). injection Hn as Hn. exact Hn.
  - apply eval_order_tmps.
  - exact B.
  - rewrite eval_order_app, eval_order_tmps, B. apply app_nil_r.
Qed.

(* Declaration of all-new names at module level: no temporaries; the run-time right-hand sides are evaluated in source
   order (name-free constants become static initialisers and are not evaluated by a statement at all). *)
Theorem tuple_order_global : forall xs es s ns s',
  tr_tuple true xs es s = Some (ns, s') -> through_tmps true xs s = false ->
  eval_order ns = map a_id (filter (fun e => negb (closed_const e)) (firstn (length xs) es)).
Proof.
  intros xs es s ns s' H T. unfold tr_tuple in H. unfold through_tmps in T.
  destruct (Nat.leb (length xs) (length es)) eqn:L; cbn [negb] in H; [|discriminate].
  apply negb_false_iff in T. rewrite T in H.
  injection H as H. 
  assert (LEN : length xs = length (firstn (length xs) es)).
  { symmetry. apply firstn_length_le. apply Nat.leb_le. exact L. }
  pose proof (eval_order_global xs (firstn (length xs) es) (set_tys xs (firstn (length xs) es) s) LEN) as G.
  rewrite H in G. exact G.
Qed.

Lemma tuple_order_demo :
  let s := declare [98] (declare [97] st0) in
  let e := fun id => {| a_id := id; a_ty := TyInt; a_const := false; a_fv := [] |} in
  through_tmps false [[97]; [98]; [99]] s = true /\
  exists ns s', tr_tuple false [[97]; [98]; [99]] [e 5; e 6; e 7] s = Some (ns, s') /\ eval_order ns = [5; 6; 7] /\
                length ns = 6%nat.
Proof. cbv zeta. split; [reflexivity|]. eexists; eexists. split; [reflexivity|]. split; reflexivity. Qed.
