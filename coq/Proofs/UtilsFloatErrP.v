(* Error of the binary64 Utils.map against the exact affine map (real numbers). *)
From Coq Require Import ZArith List Bool Reals Lia Lra SpecFloat.
From Flocq Require Import Core.Core Plus_error Relative IEEE754.BinarySingleNaN.
From RV Require Import Host.UtilsFloat Proofs.UtilsFloatP.
Open Scope R_scope.

(* unit roundoff of binary64 *)
Definition u : R := / 9007199254740992.

Lemma u_pos : 0 < u. Proof. unfold u. lra. Qed.

Lemma u_ro_val : / 2 * bpow radix2 (- prec + 1) = u.
Proof. unfold prec, u. simpl. lra. Qed.

(* |a - 1| <= al, |e| <= be  ->  |a (1 + e) - 1| <= al + be + al be *)
Lemma step_mul (a e al be : R) :
  Rabs (a - 1) <= al -> Rabs e <= be -> Rabs (a * (1 + e) - 1) <= al + be + al * be.
Proof.
  intros Ha He.
  replace (a * (1 + e) - 1) with ((a - 1) + e + (a - 1) * e) by ring.
  eapply Rle_trans; [apply Rabs_triang|].
  eapply Rle_trans; [apply Rplus_le_compat_r, Rabs_triang|].
  rewrite Rabs_mult.
  assert (0 <= Rabs (a - 1)) by apply Rabs_pos. assert (0 <= Rabs e) by apply Rabs_pos.
  assert (Rabs (a - 1) * Rabs e <= al * be) by (apply Rmult_le_compat; assumption).
  lra.
Qed.

(* |t - 1| <= al, |e| <= u  ->  |t / (1 + e) - 1| <= (al + u) (1 + 2u) *)
Lemma step_div (t e al : R) :
  Rabs (t - 1) <= al -> Rabs e <= u -> Rabs (t / (1 + e) - 1) <= (al + u) * (1 + 2 * u).
Proof.
  intros Ht He. assert (Hu := u_pos). assert (Hu2 : u <= / 2) by (unfold u; lra).
  assert (He' : - u <= e <= u) by (apply Rabs_le_inv; exact He).
  assert (Hp : 0 < 1 + e) by lra.
  replace (t / (1 + e) - 1) with ((t - 1 - e) * / (1 + e)) by (field; lra).
  rewrite Rabs_mult.
  assert (H1 : Rabs (t - 1 - e) <= al + u).
  { unfold Rminus at 1. eapply Rle_trans; [apply Rabs_triang|]. rewrite Rabs_Ropp. lra. }
  assert (H2 : Rabs (/ (1 + e)) <= 1 + 2 * u).
  { rewrite Rabs_pos_eq by (left; apply Rinv_0_lt_compat; exact Hp).
    apply Rmult_le_reg_l with (1 + e); [exact Hp|]. rewrite Rinv_r by lra. nra. }
  assert (0 <= Rabs (t - 1 - e)) by apply Rabs_pos.
  assert (0 <= Rabs (/ (1 + e))) by apply Rabs_pos.
  apply Rmult_le_compat; assumption.
Qed.

Definition st (al : R) : R := al + u + al * u.
Definition gam : R := (st (st (st u)) + u) * (1 + 2 * u).

Lemma gam_bound : gam + (1 + gam) * u <= 8 * u.
Proof. unfold gam, st, u. lra. Qed.

(* the algebra: six relative errors of at most u each *)
Lemma affine_error (A N D W e1 e2 e3 e4 e5 e6 : R) :
  D <> 0 ->
  Rabs e1 <= u -> Rabs e2 <= u -> Rabs e3 <= u -> Rabs e4 <= u -> Rabs e5 <= u -> Rabs e6 <= u ->
  Rabs ((A + ((N * (1 + e1)) / (D * (1 + e2)) * (1 + e3)) * (W * (1 + e4)) * (1 + e5)) * (1 + e6)
        - (A + N / D * W))
  <= 8 * u * (Rabs A + Rabs (N / D * W)).
Proof.
  intros HD H1 H2 H3 H4 H5 H6. assert (Hu := u_pos).
  assert (H2' : - u <= e2 <= u) by (apply Rabs_le_inv; exact H2).
  assert (Hu2 : u <= / 2) by (unfold u; lra).
  set (Bv := N / D * W).
  set (t := (1 + e1) * (1 + e3) * (1 + e4) * (1 + e5)).
  set (th := t / (1 + e2)).
  assert (E : (A + ((N * (1 + e1)) / (D * (1 + e2)) * (1 + e3)) * (W * (1 + e4)) * (1 + e5)) * (1 + e6)
              = (A + Bv * th) * (1 + e6)).
  { unfold Bv, th, t. field. split; lra. }
  rewrite E.
  assert (Ht : Rabs (t - 1) <= st (st (st u))).
  { unfold t. apply step_mul; [|exact H5]. apply step_mul; [|exact H4]. apply step_mul; [|exact H3].
    replace (1 + e1 - 1) with e1 by ring. exact H1. }
  assert (Hth : Rabs (th - 1) <= gam) by (apply step_div; assumption).
  replace ((A + Bv * th) * (1 + e6) - (A + Bv)) with (Bv * (th - 1) + (A + Bv * th) * e6) by ring.
  eapply Rle_trans; [apply Rabs_triang|]. rewrite !Rabs_mult.
  assert (Hth2 : Rabs th <= 1 + gam).
  { replace th with (1 + (th - 1)) by ring. eapply Rle_trans; [apply Rabs_triang|]. rewrite Rabs_R1. lra. }
  assert (HA : Rabs (A + Bv * th) <= Rabs A + Rabs Bv * (1 + gam)).
  { eapply Rle_trans; [apply Rabs_triang|]. rewrite Rabs_mult.
    apply Rplus_le_compat_l. apply Rmult_le_compat_l; [apply Rabs_pos|exact Hth2]. }
  assert (P1 := Rabs_pos A). assert (P2 := Rabs_pos Bv). assert (P3 := Rabs_pos (th - 1)).
  assert (P4 := Rabs_pos e6). assert (P5 := Rabs_pos (A + Bv * th)).
  assert (G := gam_bound).
  assert (Hg0 : 0 <= gam).
  { eapply Rle_trans; [apply Rabs_pos|exact Hth]. }
  assert (T1 : Rabs Bv * Rabs (th - 1) <= Rabs Bv * gam) by (apply Rmult_le_compat_l; assumption).
  assert (T2 : Rabs (A + Bv * th) * Rabs e6 <= (Rabs A + Rabs Bv * (1 + gam)) * u).
  { apply Rmult_le_compat; assumption. }
  nra.
Qed.

(* a value outside the subnormal range (or zero): its rounding has relative error <= u *)
Definition normal_or_zero (v : R) : Prop := v = 0 \/ bpow radix2 (-1022) <= Rabs v.

Lemma rnd_rel (v : R) : normal_or_zero v -> exists e, Rabs e <= u /\ rnd v = v * (1 + e).
Proof.
  intros [-> | H].
  - exists 0. rewrite rnd_0, Rabs_R0. split; [left; apply u_pos|ring].
  - destruct (relative_error_N_FLT_ex radix2 (SpecFloat.emin prec emax) prec Hprec
                (fun x => negb (Z.even x)) v) as (e & He & Hr).
    + exact H.
    + exists e. rewrite u_ro_val in He. split; [exact He|exact Hr].
Qed.

Lemma rnd_rel_plus (a b : R) :
  generic_format radix2 fexp64 a -> generic_format radix2 fexp64 b ->
  exists e, Rabs e <= u /\ rnd (a + b) = (a + b) * (1 + e).
Proof.
  intros Fa Fb.
  destruct (FLT_plus_error_N_ex radix2 (SpecFloat.emin prec emax) prec (fun x => negb (Z.even x)) a b Fa Fb)
    as (e & He & Hr).
  exists e. split; [|exact Hr].
  eapply Rle_trans; [exact He|]. eapply Rle_trans; [apply u_rod1pu_ro_le_u_ro|].
  unfold u_ro. rewrite u_ro_val. apply Rle_refl.
Qed.

Lemma rnd_rel_minus (a b : R) :
  generic_format radix2 fexp64 a -> generic_format radix2 fexp64 b ->
  exists e, Rabs e <= u /\ rnd (a - b) = (a - b) * (1 + e).
Proof. intros Fa Fb. apply rnd_rel_plus; [exact Fa|apply generic_format_opp; exact Fb]. Qed.

(* THE ERROR BOUND: as long as no intermediate result overflows and the quotient and the
   product stay out of the subnormal range (or are zero), the binary64 result is within
   8 u (|to_low| + |ratio * (to_high - to_low)|), u = 2^-53, of the exact affine map -
   at most 8 units in the last place of the larger of the two summands. *)
Theorem fmap_ff_error (x fl fh tl th : B) :
  fin x = true -> fin fl = true -> fin fh = true -> fin tl = true -> fin th = true ->
  b2r fl <> b2r fh ->
  let n := rnd (b2r x - b2r fl) in
  let d := rnd (b2r fh - b2r fl) in
  let q := rnd (n / d) in
  let w := rnd (b2r th - b2r tl) in
  let p := rnd (q * w) in
  let y := rnd (b2r tl + p) in
  in_range n -> in_range d -> in_range q -> in_range w -> in_range p -> in_range y ->
  normal_or_zero (n / d) -> normal_or_zero (q * w) ->
  exists r : B,
    fmap_ff (b2sf x) (b2sf fl) (b2sf fh) (b2sf tl) (b2sf th) = FOk (b2sf r) /\
    fin r = true /\
    Rabs (b2r r - (b2r tl + (b2r x - b2r fl) / (b2r fh - b2r fl) * (b2r th - b2r tl)))
    <= 8 * u * (Rabs (b2r tl) + Rabs ((b2r x - b2r fl) / (b2r fh - b2r fl) * (b2r th - b2r tl))).
Proof.
  intros Fx Ffl Ffh Ftl Fth Hne n d q w p y Rn Rd Rq Rw Rp Ry Nq Np.
  destruct (fmap_ff_rounding x fl fh tl th Fx Ffl Ffh Ftl Fth Hne Rn Rd Rq Rw Rp Ry) as (r & Hr & Fr & Er).
  exists r. split; [exact Hr|]. split; [exact Fr|].
  destruct (rnd_rel_minus (b2r x) (b2r fl) (generic_format_B2R _ _ x) (generic_format_B2R _ _ fl)) as (e1 & B1 & E1).
  destruct (rnd_rel_minus (b2r fh) (b2r fl) (generic_format_B2R _ _ fh) (generic_format_B2R _ _ fl)) as (e2 & B2 & E2).
  destruct (rnd_rel (n / d) Nq) as (e3 & B3 & E3).
  destruct (rnd_rel_minus (b2r th) (b2r tl) (generic_format_B2R _ _ th) (generic_format_B2R _ _ tl)) as (e4 & B4 & E4).
  destruct (rnd_rel (q * w) Np) as (e5 & B5 & E5).
  assert (Fp : generic_format radix2 fexp64 p) by (apply generic_format_round; typeclasses eauto).
  destruct (rnd_rel_plus (b2r tl) p (generic_format_B2R _ _ tl) Fp) as (e6 & B6 & E6).
  assert (HD : b2r fh - b2r fl <> 0) by lra.
  unfold y, p, q, w, n, d in *.
  rewrite Er, E6, E5, E3, E1, E2, E4.
  apply affine_error; assumption.
Qed.

(* ---------------------------------------------------------------------------
   Tie to the exact-rational model of Host/Utils.v: [sf_Q] (the Fraction the harness sends
   for a float) is the real value of the float, and Q2R of [map_val] is the affine map. *)
From Coq Require Import QArith Qreals.
From RV Require Import Base.NumC Host.Utils Proofs.UtilsFloatSP.
Open Scope R_scope.

Lemma Q2R_inject_Z (z : Z) : Q2R (inject_Z z) = IZR z.
Proof. unfold Q2R. simpl. field. Qed.

Lemma sf_Q_b2r (x : B) (q : Q) : sf_Q (b2sf x) = Some q -> Q2R q = b2r x.
Proof.
  destruct x as [s|s| |s m e Hb]; cbn [b2sf B2SF sf_Q]; try discriminate.
  - intros [= <-]. unfold Q2R. simpl. lra.
  - intros [= <-]. unfold B2R, F2R. cbn [Fnum Fexp].
    assert (Hv : (if s then Zneg m else Zpos m) = cond_Zopp s (Zpos m)) by (destruct s; reflexivity).
    rewrite Hv. destruct e as [|p|p].
    + rewrite Q2R_inject_Z, Z.mul_1_r. simpl; try ring.
    + rewrite Q2R_inject_Z, mult_IZR. f_equal.
    + unfold Q2R. cbn [Qnum Qden]. f_equal. simpl bpow. f_equal. f_equal.
      rewrite Pos2Z.inj_pow. reflexivity.
Qed.

Lemma Q2R_map_val (x fl fh tl th : Q) :
  ~ (fh - fl == 0)%Q ->
  Q2R (map_val x fl fh tl th) = Q2R tl + (Q2R x - Q2R fl) / (Q2R fh - Q2R fl) * (Q2R th - Q2R tl).
Proof.
  intro H. unfold map_val.
  rewrite Q2R_plus, Q2R_mult, Q2R_div by exact H. rewrite !Q2R_minus. reflexivity.
Qed.

(* the binary64 result against the exact-rational model [umap] of the same arguments *)
Theorem fmap_ff_error_Q (x fl fh tl th : B) (qx qfl qfh qtl qth : Q) :
  sf_Q (b2sf x) = Some qx -> sf_Q (b2sf fl) = Some qfl -> sf_Q (b2sf fh) = Some qfh ->
  sf_Q (b2sf tl) = Some qtl -> sf_Q (b2sf th) = Some qth ->
  ~ (qfl == qfh)%Q ->
  let n := rnd (b2r x - b2r fl) in
  let d := rnd (b2r fh - b2r fl) in
  let q := rnd (n / d) in
  let w := rnd (b2r th - b2r tl) in
  let p := rnd (q * w) in
  let y := rnd (b2r tl + p) in
  in_range n -> in_range d -> in_range q -> in_range w -> in_range p -> in_range y ->
  normal_or_zero (n / d) -> normal_or_zero (q * w) ->
  exists (r : B) (v : Q),
    umap qx qfl qfh qtl qth = UOk v /\
    fmap_ff (b2sf x) (b2sf fl) (b2sf fh) (b2sf tl) (b2sf th) = FOk (b2sf r) /\
    fin r = true /\
    Rabs (b2r r - Q2R v) <= 8 * u * (Rabs (Q2R qtl) + Rabs (Q2R v - Q2R qtl)).
Proof.
  intros Qx Qfl Qfh Qtl Qth Hne n d q w p y Rn Rd Rq Rw Rp Ry Nq Np.
  assert (Fin : forall (b : B) c, sf_Q (b2sf b) = Some c -> fin b = true).
  { intros b c. destruct b; cbn; congruence. }
  assert (Hd : ~ (qfh - qfl == 0)%Q).
  { intro E. apply Hne. setoid_replace qfl with (qfh - (qfh - qfl))%Q by ring. rewrite E. ring. }
  assert (Hne' : b2r fl <> b2r fh).
  { rewrite <- (sf_Q_b2r fl qfl Qfl), <- (sf_Q_b2r fh qfh Qfh). intro E. apply Hne. now apply eqR_Qeq. }
  destruct (fmap_ff_error x fl fh tl th (Fin _ _ Qx) (Fin _ _ Qfl) (Fin _ _ Qfh) (Fin _ _ Qtl) (Fin _ _ Qth)
              Hne' Rn Rd Rq Rw Rp Ry Nq Np) as (r & Hr & Fr & Er).
  exists r, (map_val qx qfl qfh qtl qth). split.
  - unfold umap. destruct (Qeq_bool qfl qfh) eqn:E; [|reflexivity].
    apply Qeq_bool_iff in E. contradiction.
  - split; [exact Hr|]. split; [exact Fr|].
    rewrite (Q2R_map_val _ _ _ _ _ Hd).
    rewrite (sf_Q_b2r x qx Qx), (sf_Q_b2r fl qfl Qfl), (sf_Q_b2r fh qfh Qfh), (sf_Q_b2r tl qtl Qtl), (sf_Q_b2r th qth Qth).
    match goal with |- _ <= _ * (_ + Rabs ?e) =>
      replace e with ((b2r x - b2r fl) / (b2r fh - b2r fl) * (b2r th - b2r tl)) by ring end.
    exact Er.
Qed.

(* ------------------------------------------------------------ non-vacuity
   map(5.0, 0.0, 10.0, 0.0, 100.0): every hypothesis of the rounding-sequence / end-point /
   error theorems holds, and the result is 50.0 *)
Definition B5 : B := @SF2B prec emax F5 (eq_refl true).
Definition B10 : B := @SF2B prec emax F10 (eq_refl true).
Definition B100 : B := @SF2B prec emax F100 (eq_refl true).
Definition Bz : B := B754_zero false.

Lemma B5_val : b2r B5 = 5.
Proof. unfold B5. rewrite B2R_SF2B. unfold F5, SF2R, F2R. simpl. lra. Qed.
Lemma B10_val : b2r B10 = 10.
Proof. unfold B10. rewrite B2R_SF2B. unfold F10, SF2R, F2R. simpl. lra. Qed.
Lemma B100_val : b2r B100 = 100.
Proof. unfold B100. rewrite B2R_SF2B. unfold F100, SF2R, F2R. simpl. lra. Qed.
Lemma Bz_val : b2r Bz = 0.
Proof. reflexivity. Qed.

Lemma small_in_range (r : R) : Rabs r <= 1000 -> in_range r.
Proof.
  intro H. unfold in_range. eapply Rle_lt_trans; [exact H|].
  apply Rlt_le_trans with (bpow radix2 10); [simpl; lra|]. apply bpow_le. unfold emax. lia.
Qed.

Lemma big_normal (r : R) : / 4 <= Rabs r -> normal_or_zero r.
Proof.
  intro H. right. eapply Rle_trans; [|exact H].
  apply Rle_trans with (bpow radix2 (-2)); [apply bpow_le; lia|simpl; lra].
Qed.

Lemma error_hyps_nonvacuous :
  fin B5 = true /\ fin Bz = true /\ fin B10 = true /\ fin B100 = true /\ b2r Bz <> b2r B10 /\
  let n := rnd (b2r B5 - b2r Bz) in
  let d := rnd (b2r B10 - b2r Bz) in
  let q := rnd (n / d) in
  let w := rnd (b2r B100 - b2r Bz) in
  let p := rnd (q * w) in
  let y := rnd (b2r Bz + p) in
  in_range n /\ in_range d /\ in_range q /\ in_range w /\ in_range p /\ in_range y /\
  normal_or_zero (n / d) /\ normal_or_zero (q * w) /\
  fmap_ff (b2sf B5) (b2sf Bz) (b2sf B10) (b2sf Bz) (b2sf B100) = FOk F50.
Proof.
  assert (En : rnd (b2r B5 - b2r Bz) = 5) by (rewrite Bz_val, Rminus_0_r, rnd_b2r; apply B5_val).
  assert (Ed : rnd (b2r B10 - b2r Bz) = 10) by (rewrite Bz_val, Rminus_0_r, rnd_b2r; apply B10_val).
  assert (Ew : rnd (b2r B100 - b2r Bz) = 100) by (rewrite Bz_val, Rminus_0_r, rnd_b2r; apply B100_val).
  assert (Eq : rnd (5 / 10) = / 2).
  { replace (5 / 10) with (bpow radix2 (-1)) by (simpl; lra).
    rewrite round_generic; [simpl; lra|typeclasses eauto|].
    apply generic_format_bpow. unfold fexp64, SpecFloat.fexp, SpecFloat.emin, prec, emax. lia. }
  assert (Ep : rnd (/ 2 * 100) = 50).
  { replace (/ 2 * 100) with (b2r B100 * bpow radix2 (-1)) by (rewrite B100_val; simpl; lra).
    assert (F50v : generic_format radix2 fexp64 50).
    { replace 50 with (F2R (Float radix2 50 0)) by (unfold F2R; simpl; lra).
      apply generic_format_F2R. intros _. unfold cexp, fexp64, SpecFloat.fexp, SpecFloat.emin, prec, emax.
      replace (F2R (Float radix2 50 0)) with 50 by (unfold F2R; simpl; lra).
      rewrite (mag_unique radix2 50 6); [cbn; lia|]. rewrite Rabs_pos_eq by lra. simpl. lra. }
    rewrite B100_val. replace (100 * bpow radix2 (-1)) with 50 by (simpl; lra).
    apply round_generic; [typeclasses eauto|exact F50v]. }
  repeat split; try reflexivity.
  - rewrite Bz_val, B10_val. lra.
  - rewrite En. apply small_in_range. rewrite Rabs_pos_eq; lra.
  - rewrite Ed. apply small_in_range. rewrite Rabs_pos_eq; lra.
  - rewrite En, Ed, Eq. apply small_in_range. rewrite Rabs_pos_eq; lra.
  - rewrite Ew. apply small_in_range. rewrite Rabs_pos_eq; lra.
  - rewrite En, Ed, Eq, Ew, Ep. apply small_in_range. rewrite Rabs_pos_eq; lra.
  - rewrite En, Ed, Eq, Ew, Ep, Bz_val, Rplus_0_l.
    replace 50 with (rnd (/ 2 * 100)) by exact Ep. rewrite rnd_rnd, Ep.
    apply small_in_range. rewrite Rabs_pos_eq; lra.
  - rewrite En, Ed. apply big_normal. rewrite Rabs_pos_eq; lra.
  - rewrite En, Ed, Eq, Ew. apply big_normal. rewrite Rabs_pos_eq; lra.
Qed.
