(* Lemmas about Host/UtilsFloat.v: the SpecFloat operations the model is written with are
   Flocq's IEEE-754 operations (round to nearest even in the FLT(-1074, 53) format), hence
   every step of Utils.map / Utils.sleep is a correctly rounded real operation.
   Imports Flocq (and therefore Coq's Reals: the theorems stated with real numbers depend on
   the three axioms of the classical Dedekind reals, as Print Assumptions reports). *)
From Coq Require Import ZArith List Bool Reals Lia Lra SpecFloat.
From Flocq Require Import Core.Core Plus_error Relative IEEE754.BinarySingleNaN.
From RV Require Import Host.UtilsFloat.
Import ListNotations.
Open Scope Z_scope.

#[global] Instance Hprec : Prec_gt_0 prec.
Proof. unfold Prec_gt_0, prec. lia. Qed.
#[global] Instance Hmax : Prec_lt_emax prec emax.
Proof. unfold Prec_lt_emax, prec, emax. lia. Qed.

Notation B := (binary_float prec emax).
Notation fexp64 := (SpecFloat.fexp prec emax).
Notation rnd := (round radix2 fexp64 ZnearestE).
Notation bplus := (@Bplus prec emax Hprec Hmax mode_NE).
Notation bminus := (@Bminus prec emax Hprec Hmax mode_NE).
Notation bmult := (@Bmult prec emax Hprec Hmax mode_NE).
Notation bdiv := (@Bdiv prec emax Hprec Hmax mode_NE).
Notation b2r := (@B2R prec emax).
Notation b2sf := (@B2SF prec emax).

(* ---------------------------------------------------------------------------
   The stdlib's SpecFloat operations are Flocq's (same argument as
   Flocq.IEEE754.PrimFloat, without the primitive floats). *)

Lemma round_nearest_even_equiv s m l :
  round_nearest_even m l = choice_mode mode_NE s m l.
Proof.
  case l; [reflexivity|intro c].
  case c; [ | reflexivity..].
  now simpl; unfold Round.cond_incr; case Z.even.
Qed.

Lemma binary_round_aux_equiv sx mx ex lx :
  SpecFloat.binary_round_aux prec emax sx mx ex lx
  = BinarySingleNaN.binary_round_aux prec emax mode_NE sx mx ex lx.
Proof.
  unfold SpecFloat.binary_round_aux, BinarySingleNaN.binary_round_aux.
  set (mrse' := shr_fexp _ _ _ _ _).
  case mrse'; intros mrs' e'; simpl.
  now rewrite (round_nearest_even_equiv sx).
Qed.

Lemma binary_round_equiv s m e :
  SpecFloat.binary_round prec emax s m e =
  BinarySingleNaN.binary_round prec emax mode_NE s m e.
Proof.
  unfold SpecFloat.binary_round, BinarySingleNaN.binary_round, shl_align_fexp.
  set (mez := shl_align _ _ _); case mez as [mz ez].
  apply binary_round_aux_equiv.
Qed.

Lemma binary_normalize_equiv m e szero :
  SpecFloat.binary_normalize prec emax m e szero
  = b2sf (@BinarySingleNaN.binary_normalize prec emax Hprec Hmax mode_NE m e szero).
Proof.
  case m as [ | p | p].
  - now simpl.
  - simpl; rewrite B2SF_SF2B; apply binary_round_equiv.
  - simpl; rewrite B2SF_SF2B; apply binary_round_equiv.
Qed.

Lemma fadd_B (x y : B) : fadd (b2sf x) (b2sf y) = b2sf (bplus x y).
Proof.
  unfold fadd.
  case x as [sx|sx| |sx mx ex Bx]; case y as [sy|sy| |sy my ey By];
    [now (trivial || simpl; case Bool.eqb).. | ].
  apply binary_normalize_equiv.
Qed.

Lemma fsub_B (x y : B) : fsub (b2sf x) (b2sf y) = b2sf (bminus x y).
Proof.
  unfold fsub.
  case x as [sx|sx| |sx mx ex Bx]; case y as [sy|sy| |sy my ey By];
    [now (trivial || simpl; case Bool.eqb).. | ].
  simpl. unfold Zminus. rewrite <- cond_Zopp_negb.
  apply binary_normalize_equiv.
Qed.

Lemma fmul_B (x y : B) : fmul (b2sf x) (b2sf y) = b2sf (bmult x y).
Proof.
  unfold fmul.
  case x as [sx|sx| |sx mx ex Bx]; case y as [sy|sy| |sy my ey By]; [now trivial.. | ].
  simpl. rewrite B2SF_SF2B. apply binary_round_aux_equiv.
Qed.

Lemma fdiv_B (x y : B) : fdiv (b2sf x) (b2sf y) = b2sf (bdiv x y).
Proof.
  unfold fdiv.
  case x as [sx|sx| |sx mx ex Bx]; case y as [sy|sy| |sy my ey By];
    [now (trivial || simpl; case Bool.eqb).. | ].
  simpl. rewrite B2SF_SF2B.
  set (melz := SFdiv_core_binary _ _ _ _ _ _).
  case melz as [[mz ez] lz].
  apply binary_round_aux_equiv.
Qed.

(* ---------------------------------------------------------------------------
   Each operation, when its rounded result is in range, is the correctly rounded real
   operation (Flocq's B*_correct, specialised). *)
Open Scope R_scope.

Notation fin := (@is_finite prec emax).
Definition in_range (r : R) : Prop := Rabs r < bpow radix2 emax.

#[global] Instance fexp64_valid : Valid_exp fexp64 := FLT_exp_valid (SpecFloat.emin prec emax) prec.
#[global] Instance fexp64_monotone : Monotone_exp fexp64 := FLT_exp_monotone (SpecFloat.emin prec emax) prec.

Lemma bminus_ok (x y : B) :
  fin x = true -> fin y = true -> in_range (rnd (b2r x - b2r y)) ->
  b2r (bminus x y) = rnd (b2r x - b2r y) /\ fin (bminus x y) = true.
Proof.
  intros Fx Fy H. generalize (Bminus_correct prec emax Hprec Hmax mode_NE x y Fx Fy).
  rewrite Rlt_bool_true by exact H. simpl round_mode. tauto.
Qed.

Lemma bplus_ok (x y : B) :
  fin x = true -> fin y = true -> in_range (rnd (b2r x + b2r y)) ->
  b2r (bplus x y) = rnd (b2r x + b2r y) /\ fin (bplus x y) = true.
Proof.
  intros Fx Fy H. generalize (Bplus_correct prec emax Hprec Hmax mode_NE x y Fx Fy).
  rewrite Rlt_bool_true by exact H. simpl round_mode. tauto.
Qed.

Lemma bmult_ok (x y : B) :
  fin x = true -> fin y = true -> in_range (rnd (b2r x * b2r y)) ->
  b2r (bmult x y) = rnd (b2r x * b2r y) /\ fin (bmult x y) = true.
Proof.
  intros Fx Fy H. generalize (Bmult_correct prec emax Hprec Hmax mode_NE x y).
  rewrite Rlt_bool_true by exact H. simpl round_mode. rewrite Fx, Fy. tauto.
Qed.

Lemma bdiv_ok (x y : B) :
  fin x = true -> b2r y <> 0 -> in_range (rnd (b2r x / b2r y)) ->
  b2r (bdiv x y) = rnd (b2r x / b2r y) /\ fin (bdiv x y) = true.
Proof.
  intros Fx Hy H. generalize (Bdiv_correct prec emax Hprec Hmax mode_NE x y Hy).
  rewrite Rlt_bool_true by exact H. simpl round_mode. rewrite Fx. tauto.
Qed.

(* the difference of two distinct binary64 numbers never rounds to zero (gradual underflow) *)
Lemma rnd_minus_neq_0 (x y : B) : b2r x <> b2r y -> rnd (b2r x - b2r y) <> 0.
Proof.
  intro H. unfold Rminus. apply round_plus_neq_0; try typeclasses eauto.
  - apply generic_format_B2R.
  - apply generic_format_opp, generic_format_B2R.
  - lra.
Qed.

Lemma is_fzero_b2r (x : B) : fin x = true -> b2r x <> 0 -> is_fzero (b2sf x) = false.
Proof. destruct x; simpl; intros F H; try reflexivity; try discriminate. now elim H. Qed.

Lemma rnd_b2r (x : B) : rnd (b2r x) = b2r x.
Proof. apply round_generic; [typeclasses eauto | apply generic_format_B2R]. Qed.

(* fmap_ff on well-formed floats, in terms of Flocq's operations *)
Lemma fmap_ff_B (x fl fh tl th : B) :
  Beqb fl fh = false ->
  is_fzero (b2sf (bminus fh fl)) = false ->
  fmap_ff (b2sf x) (b2sf fl) (b2sf fh) (b2sf tl) (b2sf th) =
  FOk (b2sf (bplus tl (bmult (bdiv (bminus x fl) (bminus fh fl)) (bminus th tl)))).
Proof.
  intros He Hz. unfold fmap_ff. unfold Beqb in He. rewrite He.
  rewrite !fsub_B, Hz, fdiv_B, fmul_B, fadd_B. reflexivity.
Qed.

(* THE ROUNDING SEQUENCE: on finite floats with a non-zero span, as long as no intermediate
   result overflows, Utils.map returns exactly
       rnd (tl + rnd (rnd (rnd (x - fl) / rnd (fh - fl)) * rnd (th - tl)))
   where rnd is rounding to the nearest binary64 number, ties to even (subnormals included). *)
Theorem fmap_ff_rounding (x fl fh tl th : B) :
  fin x = true -> fin fl = true -> fin fh = true -> fin tl = true -> fin th = true ->
  b2r fl <> b2r fh ->
  let n := rnd (b2r x - b2r fl) in
  let d := rnd (b2r fh - b2r fl) in
  let q := rnd (n / d) in
  let w := rnd (b2r th - b2r tl) in
  let p := rnd (q * w) in
  let y := rnd (b2r tl + p) in
  in_range n -> in_range d -> in_range q -> in_range w -> in_range p -> in_range y ->
  exists r : B,
    fmap_ff (b2sf x) (b2sf fl) (b2sf fh) (b2sf tl) (b2sf th) = FOk (b2sf r) /\
    fin r = true /\ b2r r = y.
Proof.
  intros Fx Ffl Ffh Ftl Fth Hne n d q w p y Rn Rd Rq Rw Rp Ry.
  destruct (bminus_ok x fl Fx Ffl Rn) as [En Fn].
  destruct (bminus_ok fh fl Ffh Ffl Rd) as [Ed Fd].
  assert (Hd0 : b2r (bminus fh fl) <> 0).
  { rewrite Ed. apply rnd_minus_neq_0. congruence. }
  assert (Rq' : in_range (rnd (b2r (bminus x fl) / b2r (bminus fh fl)))) by (rewrite En, Ed; exact Rq).
  destruct (bdiv_ok _ _ Fn Hd0 Rq') as [Eq Fq]. rewrite En, Ed in Eq.
  destruct (bminus_ok th tl Fth Ftl Rw) as [Ew Fw].
  assert (Rp' : in_range (rnd (b2r (bdiv (bminus x fl) (bminus fh fl)) * b2r (bminus th tl))))
    by (rewrite Eq, Ew; exact Rp).
  destruct (bmult_ok _ _ Fq Fw Rp') as [Ep Fp]. rewrite Eq, Ew in Ep.
  assert (Ry' : in_range (rnd (b2r tl + b2r (bmult (bdiv (bminus x fl) (bminus fh fl)) (bminus th tl)))))
    by (rewrite Ep; exact Ry).
  destruct (bplus_ok _ _ Ftl Fp Ry') as [Ey Fy]. rewrite Ep in Ey.
  eexists. split; [|split; [exact Fy | exact Ey]].
  apply fmap_ff_B.
  - rewrite (Beqb_correct prec emax fl fh Ffl Ffh). apply Req_bool_false. exact Hne.
  - apply is_fzero_b2r; assumption.
Qed.

Lemma in_range_0 : in_range 0.
Proof. unfold in_range. rewrite Rabs_R0. apply bpow_gt_0. Qed.

Lemma in_range_b2r (x : B) : in_range (b2r x).
Proof. apply abs_B2R_lt_emax. Qed.

Lemma rnd_0 : rnd 0 = 0.
Proof. apply round_0. typeclasses eauto. Qed.

Lemma rnd_1 : rnd 1 = 1.
Proof.
  apply round_generic; [typeclasses eauto|].
  apply (generic_format_FLT_1 radix2 (SpecFloat.emin prec emax) prec); unfold SpecFloat.emin, prec, emax; lia.
Qed.

Lemma rnd_rnd (r : R) : rnd (rnd r) = rnd r.
Proof. apply round_generic; [typeclasses eauto|]. apply generic_format_round; typeclasses eauto. Qed.

(* LOWER END POINT: map(from_low, from_low, from_high, to_low, to_high) is to_low, for all
   finite floats with a non-zero span, provided neither the span nor the output width
   overflows.  (The sign of a zero result may differ from to_low's: -0.0 + 0.0 = 0.0.) *)
Theorem fmap_ff_lower_endpoint (fl fh tl th : B) :
  fin fl = true -> fin fh = true -> fin tl = true -> fin th = true ->
  b2r fl <> b2r fh ->
  in_range (rnd (b2r fh - b2r fl)) -> in_range (rnd (b2r th - b2r tl)) ->
  exists r : B,
    fmap_ff (b2sf fl) (b2sf fl) (b2sf fh) (b2sf tl) (b2sf th) = FOk (b2sf r) /\
    fin r = true /\ b2r r = b2r tl.
Proof.
  intros Ffl Ffh Ftl Fth Hne Rd Rw.
  assert (E0 : rnd (b2r fl - b2r fl) = 0) by (rewrite Rminus_eq_0; apply rnd_0).
  assert (Eq : rnd (rnd (b2r fl - b2r fl) / rnd (b2r fh - b2r fl)) = 0).
  { rewrite E0. unfold Rdiv. rewrite Rmult_0_l. apply rnd_0. }
  assert (Ep : rnd (rnd (rnd (b2r fl - b2r fl) / rnd (b2r fh - b2r fl)) * rnd (b2r th - b2r tl)) = 0).
  { rewrite Eq, Rmult_0_l. apply rnd_0. }
  destruct (fmap_ff_rounding fl fl fh tl th Ffl Ffl Ffh Ftl Fth Hne) as (r & Hr & Fr & Er).
  - rewrite E0. apply in_range_0.
  - exact Rd.
  - rewrite Eq. apply in_range_0.
  - exact Rw.
  - rewrite Ep. apply in_range_0.
  - rewrite Ep, Rplus_0_r, rnd_b2r. apply in_range_b2r.
  - exists r. split; [exact Hr|]. split; [exact Fr|].
    rewrite Er, Ep, Rplus_0_r. apply rnd_b2r.
Qed.

(* UPPER END POINT: map(from_high, ...) is rnd (to_low + rnd (to_high - to_low)) - which is
   to_high whenever the subtraction to_high - to_low is exact, and need not be otherwise. *)
Theorem fmap_ff_upper_endpoint (fl fh tl th : B) :
  fin fl = true -> fin fh = true -> fin tl = true -> fin th = true ->
  b2r fl <> b2r fh ->
  in_range (rnd (b2r fh - b2r fl)) -> in_range (rnd (b2r th - b2r tl)) ->
  in_range (rnd (b2r tl + rnd (b2r th - b2r tl))) ->
  exists r : B,
    fmap_ff (b2sf fh) (b2sf fl) (b2sf fh) (b2sf tl) (b2sf th) = FOk (b2sf r) /\
    fin r = true /\ b2r r = rnd (b2r tl + rnd (b2r th - b2r tl)) /\
    (rnd (b2r th - b2r tl) = b2r th - b2r tl -> b2r r = b2r th).
Proof.
  intros Ffl Ffh Ftl Fth Hne Rd Rw Ry.
  assert (Hd : rnd (b2r fh - b2r fl) <> 0) by (apply rnd_minus_neq_0; congruence).
  assert (Eq : rnd (rnd (b2r fh - b2r fl) / rnd (b2r fh - b2r fl)) = 1).
  { unfold Rdiv. rewrite Rinv_r by exact Hd. apply rnd_1. }
  assert (Ep : rnd (rnd (rnd (b2r fh - b2r fl) / rnd (b2r fh - b2r fl)) * rnd (b2r th - b2r tl))
               = rnd (b2r th - b2r tl)).
  { rewrite Eq, Rmult_1_l. apply rnd_rnd. }
  destruct (fmap_ff_rounding fh fl fh tl th Ffh Ffl Ffh Ftl Fth Hne) as (r & Hr & Fr & Er).
  - exact Rd.
  - exact Rd.
  - rewrite Eq. unfold in_range. rewrite Rabs_R1. apply (bpow_lt radix2 0 emax). reflexivity.
  - exact Rw.
  - rewrite Ep. exact Rw.
  - rewrite Ep. exact Ry.
  - exists r. split; [exact Hr|]. split; [exact Fr|]. rewrite Ep in Er. split; [exact Er|].
    intro Hex. rewrite Er, Hex. replace (b2r tl + (b2r th - b2r tl)) with (b2r th) by ring.
    apply rnd_b2r.
Qed.

(* ------------------------------------------------------------------ sleep *)

Definition b1000 : B := @SF2B prec emax f1000 (eq_refl true).

Lemma b1000_sf : b2sf b1000 = f1000.
Proof. apply B2SF_SF2B. Qed.

Lemma b1000_val : b2r b1000 = 1000.
Proof.
  unfold b1000. rewrite B2R_SF2B.
  change f1000 with (S754_finite false 8796093022208000 (-43)).
  unfold SF2R, F2R. simpl. lra.
Qed.

Lemma in_range_div_1000 (d : B) : in_range (rnd (b2r d / 1000)).
Proof.
  unfold in_range. apply Rle_lt_trans with (Rabs (b2r d)); [|apply abs_B2R_lt_emax].
  apply abs_round_le_generic; try typeclasses eauto.
  - apply generic_format_abs, generic_format_B2R.
  - unfold Rdiv. rewrite Rabs_mult. rewrite <- (Rmult_1_r (Rabs (b2r d))) at 2.
    apply Rmult_le_compat_l; [apply Rabs_pos|].
    rewrite Rabs_pos_eq; lra.
Qed.

(* sleep(d) on a finite float: negatives are refused before the sleeper is called; otherwise
   the sleeper is called exactly once, with the correctly rounded quotient d / 1000
   (no overflow is possible).  -0.0 is not negative: sleep(-0.0) sleeps -0.0 seconds. *)
Theorem fsleep_float (d : B) :
  fin d = true ->
  (b2r d < 0 -> fsleep (NF (b2sf d)) = ([], FRaise EValue)) /\
  (0 <= b2r d -> exists s : B,
      fsleep (NF (b2sf d)) = ([b2sf s], FOk tt) /\ fin s = true /\ b2r s = rnd (b2r d / 1000)).
Proof.
  intro Fd.
  assert (Hlt : SFltb (b2sf d) fzero = Rlt_bool (b2r d) 0).
  { change fzero with (b2sf (B754_zero false)).
    change (SFltb (b2sf d) (b2sf (B754_zero false))) with (Bltb d (B754_zero false)).
    rewrite (Bltb_correct prec emax d (B754_zero false) Fd eq_refl). reflexivity. }
  unfold fsleep. cbn [of_num pv_ltz as_float]. rewrite Hlt. split; intro H.
  - rewrite Rlt_bool_true by exact H. reflexivity.
  - rewrite Rlt_bool_false by exact H.
    assert (H1000 : b2r b1000 <> 0) by (rewrite b1000_val; lra).
    assert (Rq : in_range (rnd (b2r d / b2r b1000))) by (rewrite b1000_val; apply in_range_div_1000).
    destruct (bdiv_ok d b1000 Fd H1000 Rq) as [E F].
    exists (bdiv d b1000). rewrite <- b1000_sf, fdiv_B. split; [reflexivity|]. split; [exact F|].
    rewrite E, b1000_val. reflexivity.
Qed.

(* specials: nan is not negative, the sleeper gets nan; +inf sleeps inf; -inf is refused *)
Lemma fsleep_specials :
  fsleep (NF S754_nan) = ([S754_nan], FOk tt) /\
  fsleep (NF (S754_infinity false)) = ([S754_infinity false], FOk tt) /\
  fsleep (NF (S754_infinity true)) = ([], FRaise EValue) /\
  fsleep (NF (S754_zero true)) = ([S754_zero true], FOk tt) /\
  fsleep NN = ([], FRaise EType).
Proof. vm_compute. repeat split. Qed.

(* ------------------------------------------------- guards one can check *)

(* anything of magnitude at most 2^1023 rounds into range *)
Lemma in_range_rnd_le (r : R) : Rabs r <= bpow radix2 1023 -> in_range (rnd r).
Proof.
  intro H. unfold in_range. apply Rle_lt_trans with (bpow radix2 1023).
  - apply abs_round_le_generic; try typeclasses eauto; [|exact H].
    apply generic_format_bpow. unfold fexp64, SpecFloat.fexp, SpecFloat.emin, prec, emax. lia.
  - apply bpow_lt. reflexivity.
Qed.

Lemma in_range_minus_small (a b : R) :
  Rabs a <= bpow radix2 1022 -> Rabs b <= bpow radix2 1022 -> in_range (rnd (a - b)).
Proof.
  intros Ha Hb. apply in_range_rnd_le.
  apply Rle_trans with (Rabs a + Rabs b).
  - unfold Rminus. eapply Rle_trans; [apply Rabs_triang|]. rewrite Rabs_Ropp. lra.
  - change 1023%Z with (1022 + 1)%Z. rewrite bpow_plus. change (bpow radix2 1) with 2. lra.
Qed.

(* the lower end point under a guard on the magnitudes alone: |.| <= 2^1022 (about 4.5e307) *)
Theorem fmap_ff_lower_endpoint_guard (fl fh tl th : B) :
  fin fl = true -> fin fh = true -> fin tl = true -> fin th = true ->
  b2r fl <> b2r fh ->
  Rabs (b2r fl) <= bpow radix2 1022 -> Rabs (b2r fh) <= bpow radix2 1022 ->
  Rabs (b2r tl) <= bpow radix2 1022 -> Rabs (b2r th) <= bpow radix2 1022 ->
  exists r : B,
    fmap_ff (b2sf fl) (b2sf fl) (b2sf fh) (b2sf tl) (b2sf th) = FOk (b2sf r) /\
    fin r = true /\ b2r r = b2r tl.
Proof.
  intros Ffl Ffh Ftl Fth Hne G1 G2 G3 G4.
  apply fmap_ff_lower_endpoint; try assumption; apply in_range_minus_small; assumption.
Qed.

(* float == float is equality of the values (so -0.0 == 0.0) *)
Lemma py_eq_floats (a b : B) :
  fin a = true -> fin b = true ->
  (py_eq (NF (b2sf a)) (NF (b2sf b)) = true <-> b2r a = b2r b).
Proof.
  intros Fa Fb. cbn [py_eq of_num pv_eq].
  change (SFeqb (b2sf a) (b2sf b)) with (Beqb a b).
  rewrite (Beqb_correct prec emax a b Fa Fb).
  destruct (Req_bool_spec (b2r a) (b2r b)); split; intros; congruence.
Qed.

(* every datum the wire decoder accepts is a binary_float: quantifying over B loses nothing *)
Lemma valid_is_B (f : sf) : fvalid f = true -> exists b : B, f = b2sf b.
Proof. intro H. exists (@SF2B prec emax f H). symmetry. apply B2SF_SF2B. Qed.

(* ------------------------------------------------------- float(int), sleep(int) *)

Notation bnorm := (@BinarySingleNaN.binary_normalize prec emax Hprec Hmax mode_NE).

Lemma F2R_int (z : Z) : F2R (Float radix2 z 0) = IZR z.
Proof. unfold F2R. simpl. ring. Qed.

(* float(z) is the correctly rounded value of z; OverflowError exactly when that is not
   below 2^1024 *)
Theorem z2f_correct (z : Z) :
  (in_range (rnd (IZR z)) ->
     exists b : B, z2f z = Some (b2sf b) /\ fin b = true /\ b2r b = rnd (IZR z)) /\
  (~ in_range (rnd (IZR z)) -> z2f z = None).
Proof.
  generalize (binary_normalize_correct prec emax Hprec Hmax mode_NE z 0 false).
  rewrite F2R_int. simpl round_mode. cbv zeta.
  assert (Eqv : SpecFloat.binary_normalize prec emax z 0 false = b2sf (bnorm z 0%Z false))
    by apply binary_normalize_equiv.
  split.
  - intro Hr. unfold in_range in Hr. rewrite Rlt_bool_true in H by exact Hr.
    destruct H as (Hv & Hf & _).
    exists (bnorm z 0%Z false). split; [|split; [exact Hf|exact Hv]].
    unfold z2f.
    destruct (1024 <=? Z.log2 (Z.abs z))%Z eqn:L.
    + exfalso. apply Z.leb_le in L.
      assert (Hz : (0 < Z.abs z)%Z).
      { destruct (Z.eq_dec (Z.abs z) 0) as [E|E]; [rewrite E in L; simpl in L; lia|]. pose proof (Z.abs_nonneg z). lia. }
      assert (Hp : (2 ^ 1024 <= Z.abs z)%Z).
      { apply Z.le_trans with (2 ^ Z.log2 (Z.abs z))%Z; [apply Z.pow_le_mono_r; lia|].
        apply (Z.log2_spec _ Hz). }
      assert (HR : bpow radix2 1024 <= Rabs (IZR z)).
      { rewrite <- abs_IZR. rewrite <- (IZR_Zpower radix2) by lia. apply IZR_le. exact Hp. }
      assert (HG : bpow radix2 1024 <= Rabs (rnd (IZR z))).
      { apply abs_round_ge_generic; try typeclasses eauto; [|exact HR].
        apply generic_format_bpow. unfold fexp64, SpecFloat.fexp, SpecFloat.emin, prec, emax. lia. }
      exact (Rlt_not_le _ _ Hr HG).
    + rewrite Eqv. destruct (bnorm z 0%Z false); try reflexivity; discriminate.
  - intro Hr. unfold in_range in Hr. rewrite Rlt_bool_false in H by (apply Rnot_lt_le; exact Hr).
    unfold z2f. destruct (1024 <=? Z.log2 (Z.abs z))%Z; [reflexivity|].
    rewrite Eqv, H. reflexivity.
Qed.

(* sleep(z) on an int: negatives refused, an int too large for float() raises OverflowError,
   otherwise ONE call with rnd (rnd z / 1000) (two roundings: float(z), then the division) *)
Theorem fsleep_int (z : Z) :
  ((z < 0)%Z -> fsleep (NI z) = ([], FRaise EValue)) /\
  ((0 <= z)%Z -> ~ in_range (rnd (IZR z)) -> fsleep (NI z) = ([], FRaise EOverflow)) /\
  ((0 <= z)%Z -> in_range (rnd (IZR z)) -> exists s : B,
      fsleep (NI z) = ([b2sf s], FOk tt) /\ fin s = true /\ b2r s = rnd (rnd (IZR z) / 1000)).
Proof.
  unfold fsleep. cbn [of_num pv_ltz as_float]. split; [|split].
  - intro H. apply Z.ltb_lt in H. now rewrite H.
  - intros H Hr. assert (E : (z <? 0)%Z = false) by (apply Z.ltb_ge; exact H). rewrite E.
    now rewrite (proj2 (z2f_correct z) Hr).
  - intros H Hr. assert (E : (z <? 0)%Z = false) by (apply Z.ltb_ge; exact H). rewrite E.
    destruct (proj1 (z2f_correct z) Hr) as (b & Hb & Fb & Vb). rewrite Hb.
    assert (H1000 : b2r b1000 <> 0) by (rewrite b1000_val; lra).
    assert (Rq : in_range (rnd (b2r b / b2r b1000))) by (rewrite b1000_val; apply in_range_div_1000).
    destruct (bdiv_ok b b1000 Fb H1000 Rq) as [Ev Fv].
    exists (bdiv b b1000). rewrite <- b1000_sf, fdiv_B. split; [reflexivity|]. split; [exact Fv|].
    rewrite Ev, b1000_val, Vb. reflexivity.
Qed.
