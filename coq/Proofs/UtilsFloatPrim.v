(* Cross-check of the SpecFloat model against Coq's PRIMITIVE binary64 floats (the kernel's
   hardware arithmetic): on a table of argument tuples, Utils.map evaluated with the primitive
   operations gives, bit for bit, what [fmap_ff] gives.  Evaluated by vm_compute; no axiom of
   Coq.Floats.FloatAxioms is used (only definitions are imported). *)
From Coq Require Import ZArith List Bool PrimFloat FloatOps SpecFloat.
From RV Require Import Host.UtilsFloat Proofs.UtilsFloatSP.
Import ListNotations.

Definition pmap (x fl fh tl th : float) : option float :=
  if (fl =? fh)%float then None
  else let d := (fh - fl)%float in
       if (d =? 0)%float then None
       else Some (tl + ((x - fl) / d) * (th - tl))%float.

Definition sf_same (a b : sf) : bool :=
  match a, b with
  | S754_zero s, S754_zero t => Bool.eqb s t
  | S754_infinity s, S754_infinity t => Bool.eqb s t
  | S754_nan, S754_nan => true
  | S754_finite s m e, S754_finite t n f => Bool.eqb s t && Pos.eqb m n && Z.eqb e f
  | _, _ => false
  end.

Definition agree (t : sf * sf * sf * sf * sf) : bool :=
  let '(x, fl, fh, tl, th) := t in
  match pmap (SF2Prim x) (SF2Prim fl) (SF2Prim fh) (SF2Prim tl) (SF2Prim th), fmap_ff x fl fh tl th with
  | Some r, FOk f => sf_same (Prim2SF r) f
  | None, FRaise _ => true
  | _, _ => false
  end.

Definition pool : list sf :=
  [F0; S754_zero true; F1; F1e16; Fm1e308; F03;
   S754_nan; S754_infinity false; S754_finite false 1 (-1074);
   S754_finite true 4503599627370497 (-1074); S754_finite false 9007199254740991 971].

Definition tuples : list (sf * sf * sf * sf * sf) :=
  flat_map (fun x => flat_map (fun fl => flat_map (fun fh => flat_map (fun tl =>
    map (fun th => (x, fl, fh, tl, th)) [F0; F1; F03; F1e308; S754_finite false 1 (-1074)])
    [F0; F01; Fm1e308; F1e16]) pool) pool) pool.

Lemma prim_agrees : (Z.of_nat (length tuples) =? 26620)%Z = true /\ forallb agree tuples = true.
Proof. split; vm_compute; reflexivity. Qed.
