(* Structural lemmas about Host/UtilsFloat.v that need no real numbers (no Flocq import):
   which exception comes from where, the all-float path, the exactness of the int/float
   comparison, the shape of sleep, and concrete witnesses evaluated by the kernel. *)
From Coq Require Import ZArith QArith List Bool Lia SpecFloat.
From RV Require Import Host.UtilsFloat.
Import ListNotations.
Open Scope Z_scope.

Definition not_value {A} (r : fres A) : Prop := r <> FRaise EValue.

Lemma fbind_nv {A C} (r : fres A) (k : A -> fres C) :
  not_value r -> (forall a, not_value (k a)) -> not_value (fbind r k).
Proof.
  intros Hr Hk. destruct r as [a|e]; cbn; [apply Hk|].
  intro H. apply Hr. injection H as ->. reflexivity.
Qed.

Lemma as_float_nv v : not_value (as_float v).
Proof. destruct v; cbn; [destruct (z2f z)|]; discriminate. Qed.

Lemma pv_sub_nv a b : not_value (pv_sub a b).
Proof.
  destruct a, b; cbn -[as_float fbind]; try discriminate;
    (apply fbind_nv; [apply as_float_nv|intro; apply fbind_nv; [apply as_float_nv|discriminate]]).
Qed.

Lemma pv_div_nv a b : not_value (pv_div a b).
Proof.
  destruct a, b; cbn -[as_float fbind].
  - destruct (z0 =? 0); [discriminate|]. destruct (int_truediv z z0); discriminate.
  - apply fbind_nv; [apply as_float_nv|intro; apply fbind_nv; [apply as_float_nv|intro y; destruct (is_fzero y); discriminate]].
  - apply fbind_nv; [apply as_float_nv|intro; apply fbind_nv; [apply as_float_nv|intro y; destruct (is_fzero y); discriminate]].
  - apply fbind_nv; [apply as_float_nv|intro; apply fbind_nv; [apply as_float_nv|intro y; destruct (is_fzero y); discriminate]].
Qed.

Lemma pv_mulf_nv r b : not_value (pv_mulf r b).
Proof. unfold pv_mulf. apply fbind_nv; [apply as_float_nv|discriminate]. Qed.

Lemma pv_addf_nv a p : not_value (pv_addf a p).
Proof. unfold pv_addf. apply fbind_nv; [apply as_float_nv|discriminate]. Qed.

(* ValueError comes from the zero-width test and from nowhere else: for ALL arguments
   (specials, huge ints, None included) map raises ValueError iff from_low == from_high *)
Lemma fmap_refuses_iff x fl fh tl th :
  fmap x fl fh tl th = FRaise EValue <-> py_eq fl fh = true.
Proof.
  unfold fmap. destruct (py_eq fl fh); [tauto|]. split; [|discriminate]. intro H. exfalso. revert H.
  change (not_value
    match of_num x, of_num fl with
    | Some vx, Some vfl =>
        fbind (pv_sub vx vfl) (fun n =>
        match of_num fh with
        | None => FRaise EType
        | Some vfh =>
            fbind (pv_sub vfh vfl) (fun d =>
            fbind (pv_div n d) (fun ratio =>
            match of_num th, of_num tl with
            | Some vth, Some vtl =>
                fbind (pv_sub vth vtl) (fun w => fbind (pv_mulf ratio w) (fun p => pv_addf vtl p))
            | _, _ => FRaise EType
            end))
        end)
    | _, _ => FRaise EType
    end).
  destruct (of_num x), (of_num fl); try discriminate.
  apply fbind_nv; [apply pv_sub_nv|intro n].
  destruct (of_num fh); [|discriminate].
  apply fbind_nv; [apply pv_sub_nv|intro d].
  apply fbind_nv; [apply pv_div_nv|intro ratio].
  destruct (of_num th), (of_num tl); try discriminate.
  apply fbind_nv; [apply pv_sub_nv|intro w].
  apply fbind_nv; [apply pv_mulf_nv|intro q]. apply pv_addf_nv.
Qed.

(* a None argument: TypeError (after the zero-width test) *)
Lemma fmap_none x fl fh tl th :
  py_eq fl fh = false -> (x = NN \/ fl = NN) -> fmap x fl fh tl th = FRaise EType.
Proof.
  intros He H. unfold fmap. rewrite He. destruct H as [-> | ->]; cbn; [reflexivity|].
  destruct (of_num x); reflexivity.
Qed.

(* the all-float path is fmap_ff *)
Lemma fmap_floats x fl fh tl th :
  fmap (NF x) (NF fl) (NF fh) (NF tl) (NF th) = fmap_ff x fl fh tl th.
Proof.
  unfold fmap, fmap_ff. cbn [py_eq of_num pv_eq]. destruct (SFeqb fl fh); [reflexivity|].
  cbn [pv_sub as_float fbind pv_div]. destruct (is_fzero (fsub fh fl)); reflexivity.
Qed.

(* ------------------------------------------------------------- comparisons *)

Lemma py_eq_ints a b : py_eq (NI a) (NI b) = (a =? b).
Proof. reflexivity. Qed.

Lemma py_eq_bool_int b a : py_eq (NB b) (NI a) = ((if b then 1 else 0) =? a).
Proof. reflexivity. Qed.

Lemma py_eq_none a : py_eq NN a = match a with NN => true | _ => false end.
Proof. destruct a; reflexivity. Qed.

(* the exact rational value of a finite float *)
Definition sf_Q (f : sf) : option Q :=
  match f with
  | S754_zero _ => Some 0%Q
  | S754_finite s m e =>
      let v := if s then Zneg m else Zpos m in
      Some (match e with
            | Zneg p => Qmake v (2 ^ p)%positive
            | _ => inject_Z (v * 2 ^ e)
            end)
  | _ => None
  end.

Lemma Qcompare_inject a b : (inject_Z a ?= inject_Z b)%Q = (a ?= b).
Proof. unfold Qcompare. cbn. now rewrite !Z.mul_1_r. Qed.

(* int == float / int < float use the exact mathematical values, whatever the magnitude *)
Lemma zf_compare_exact z f q :
  sf_Q f = Some q -> zf_compare z f = Some (inject_Z z ?= q)%Q.
Proof.
  destruct f as [s|s| |s m e]; cbn; try discriminate.
  - intros [= <-]. change 0%Q with (inject_Z 0). now rewrite Qcompare_inject.
  - intros [= <-]. destruct e as [|p|p].
    + now rewrite Qcompare_inject.
    + now rewrite Qcompare_inject.
    + unfold Qcompare. cbn [Qnum Qden]. rewrite Pos2Z.inj_pow. now rewrite Z.mul_1_r.
Qed.

Lemma py_eq_int_float_exact z f q :
  sf_Q f = Some q -> (py_eq (NI z) (NF f) = true <-> (inject_Z z == q)%Q).
Proof.
  intro H. cbn. rewrite (zf_compare_exact z f q H), Qeq_alt.
  destruct (inject_Z z ?= q)%Q; cbn; split; congruence.
Qed.

Lemma py_eq_specials :
  py_eq (NF S754_nan) (NF S754_nan) = false /\
  py_eq (NF (S754_zero true)) (NF (S754_zero false)) = true /\
  py_eq (NF (S754_zero true)) (NI 0) = true /\
  py_eq (NF (S754_infinity false)) (NF (S754_infinity false)) = true /\
  (forall z, py_eq (NI z) (NF (S754_infinity false)) = false) /\
  (forall z, py_eq (NI z) (NF S754_nan) = false).
Proof. repeat split. Qed.

(* ------------------------------------------------------------------ sleep *)

(* for EVERY argument: either an exception and the sleeper was not called, or exactly one
   call, with float(duration) / 1000.0 *)
Lemma fsleep_once d :
  (exists e, fsleep d = ([], FRaise e)) \/
  (exists v ms, of_num d = Some v /\ pv_ltz v = false /\ as_float v = FOk ms /\
                fsleep d = ([fdiv ms f1000], FOk tt)).
Proof.
  unfold fsleep. destruct (of_num d) as [v|]; [|left; eexists; reflexivity].
  destruct (pv_ltz v) eqn:E; [left; eexists; reflexivity|].
  destruct (as_float v) as [ms|e] eqn:A; [|left; eexists; reflexivity].
  right. exists v, ms. auto.
Qed.

Lemma fsleep_refusals d :
  (d = NN -> fsleep d = ([], FRaise EType)) /\
  (forall z, d = NI z -> z < 0 -> fsleep d = ([], FRaise EValue)) /\
  (forall z, d = NI z -> 2 ^ 1024 <= z -> fsleep d = ([], FRaise EOverflow)).
Proof.
  split; [intros ->; reflexivity|]. split; intros z -> H.
  - unfold fsleep. cbn [of_num pv_ltz]. apply Z.ltb_lt in H. now rewrite H.
  - unfold fsleep. cbn [of_num pv_ltz].
    assert (Hz : 0 < z) by (assert (0 < 2 ^ 1024) by (apply Z.pow_pos_nonneg; lia); lia).
    destruct (z <? 0) eqn:E; [apply Z.ltb_lt in E; lia|].
    cbn [as_float]. unfold z2f.
    assert (L : 1024 <= Z.log2 (Z.abs z)).
    { rewrite Z.abs_eq by lia. apply Z.log2_le_pow2; lia. }
    apply Z.leb_le in L. now rewrite L.
Qed.

(* ------------------------------------------------- literals for the witnesses *)
Definition F0 : sf := S754_zero false.
Definition F1 : sf := S754_finite false 4503599627370496 (-52).          (* 1.0 *)
Definition F5 : sf := S754_finite false 5629499534213120 (-50).          (* 5.0 *)
Definition F10 : sf := S754_finite false 5629499534213120 (-49).         (* 10.0 *)
Definition F50 : sf := S754_finite false 7036874417766400 (-47).         (* 50.0 *)
Definition F100 : sf := S754_finite false 7036874417766400 (-46).        (* 100.0 *)
Definition Fhalf : sf := S754_finite false 4503599627370496 (-53).       (* 0.5 *)
Definition F1e16 : sf := S754_finite false 5000000000000000 1.           (* 1e16 *)
Definition F1e308 : sf := S754_finite false 5010420900022432 971.        (* 1e308 *)
Definition Fm1e308 : sf := S754_finite true 5010420900022432 971.        (* -1e308 *)
Definition F2p53 : sf := S754_finite false 4503599627370496 1.           (* 2.0**53 *)
Definition F01 : sf := S754_finite false 7205759403792794 (-56).         (* 0.1 *)
Definition F03 : sf := S754_finite false 5404319552844595 (-54).         (* 0.3 *)

Lemma literals_valid :
  forallb fvalid [F0; F1; F5; F10; F50; F100; Fhalf; F1e16; F1e308; Fm1e308; F2p53; F01; F03] = true.
Proof. vm_compute. reflexivity. Qed.

(* ------------------------------------------------- int / int against float / float
   For ints that float() represents exactly, CPython's int true division (one rounding of
   the exact quotient) must coincide with the IEEE division of the two floats.  Checked by
   the kernel on a finite grid (the bound is in the statement): all pairs from
   -60..60 and a list of 53-bit boundary values. *)
Definition zgrid : list Z :=
  map (fun n => Z.of_nat n - 60) (seq 0 121) ++
  [2 ^ 53 - 1; 2 ^ 53; 2 ^ 52 + 1; - (2 ^ 53 - 1); 3 ^ 33; 10 ^ 15 + 7; 2 ^ 40 + 3; 999999999999999; 123456789].

Definition sf_eqb (a b : sf) : bool :=
  match a, b with
  | S754_zero s, S754_zero t => Bool.eqb s t
  | S754_infinity s, S754_infinity t => Bool.eqb s t
  | S754_nan, S754_nan => true
  | S754_finite s m e, S754_finite t n f => Bool.eqb s t && Pos.eqb m n && Z.eqb e f
  | _, _ => false
  end.

Definition truediv_agrees (a b : Z) : bool :=
  if b =? 0 then true else
  match int_truediv a b, z2f a, z2f b with
  | Some q, Some fa, Some fb =>
      (* 0 / negative is -0.0 in both; everything else bit for bit *)
      sf_eqb q (fdiv fa fb)
  | _, _, _ => false
  end.

Lemma int_truediv_grid :
  forallb (fun a => forallb (fun b => truediv_agrees a b) zgrid) zgrid = true.
Proof. vm_compute. reflexivity. Qed.

Lemma int_truediv_grid_all a b :
  In a zgrid -> In b zgrid -> b <> 0 ->
  exists q fa fb, int_truediv a b = Some q /\ z2f a = Some fa /\ z2f b = Some fb /\ sf_eqb q (fdiv fa fb) = true.
Proof.
  intros Ha Hb Hn. pose proof int_truediv_grid as G.
  rewrite forallb_forall in G. specialize (G a Ha). rewrite forallb_forall in G. specialize (G b Hb).
  unfold truediv_agrees in G. destruct (b =? 0) eqn:E; [apply Z.eqb_eq in E; contradiction|].
  destruct (int_truediv a b) as [q|]; [|discriminate].
  destruct (z2f a) as [fa|]; [|discriminate]. destruct (z2f b) as [fb|]; [|discriminate].
  exists q, fa, fb. auto.
Qed.
