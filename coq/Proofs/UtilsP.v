(* Lemmas about Host/Utils.v (C20: Utils.map is the exact affine map, sleep). *)
From Coq Require Import ZArith QArith List Bool Lia Lqa.
From RV Require Import Base.Wire Base.NumC Host.Utils.
Import ListNotations.
Open Scope Q_scope.

Lemma Qeq_bool_false a b : ~ a == b -> Qeq_bool a b = false.
Proof.
  intro H. destruct (Qeq_bool a b) eqn:E; [|reflexivity].
  apply Qeq_bool_iff in E. contradiction.
Qed.

Lemma map_affine x fl fh tl th :
  ~ fl == fh ->
  exists y,
    umap x fl fh tl th = UOk y /\
    y == tl + (x - fl) * (th - tl) / (fh - fl) /\
    (exists y0, umap fl fl fh tl th = UOk y0 /\ y0 == tl) /\
    (exists y1, umap fh fl fh tl th = UOk y1 /\ y1 == th).
Proof.
  intro H. unfold umap. rewrite (Qeq_bool_false _ _ H).
  assert (Hd : ~ fh - fl == 0) by (intro E; apply H; lra).
  exists (map_val x fl fh tl th). split; [reflexivity|]. unfold map_val. split; [|split].
  - field. exact Hd.
  - eexists; split; [reflexivity|]. field. exact Hd.
  - eexists; split; [reflexivity|]. field. exact Hd.
Qed.

(* affine in the algebraic sense: it commutes with affine combinations *)
Lemma map_affine_comb a x y fl fh tl th :
  ~ fl == fh ->
  map_val (a * x + (1 - a) * y) fl fh tl th ==
  a * map_val x fl fh tl th + (1 - a) * map_val y fl fh tl th.
Proof.
  intro H. assert (Hd : ~ fh - fl == 0) by (intro E; apply H; lra).
  unfold map_val. field. exact Hd.
Qed.

(* an affine function is determined by two points: any g that is affine and passes
   through (fl,tl) and (fh,th) agrees with map everywhere *)
Lemma map_unique (g : Q -> Q) fl fh tl th :
  ~ fl == fh ->
  (forall a x y, g (a * x + (1 - a) * y) == a * g x + (1 - a) * g y) ->
  (forall x y, x == y -> g x == g y) ->
  g fl == tl -> g fh == th ->
  forall x, g x == map_val x fl fh tl th.
Proof.
  intros H Hg Hext H0 H1 x.
  assert (Hd : ~ fh - fl == 0) by (intro E; apply H; lra).
  set (a := (x - fl) / (fh - fl)).
  assert (Hx : x == a * fh + (1 - a) * fl) by (unfold a; field; exact Hd).
  rewrite (Hext _ _ Hx), Hg, H0, H1. unfold map_val, a. field. exact Hd.
Qed.

Lemma map_refuses_zero_span x fl fh tl th :
  umap x fl fh tl th = URaise ValueError <-> fl == fh.
Proof.
  unfold umap. destruct (Qeq_bool fl fh) eqn:E.
  - apply Qeq_bool_iff in E. tauto.
  - split; [discriminate|]. intro H. apply Qeq_bool_iff in H. congruence.
Qed.

(* int / bool / float arguments enter through their numeric value *)
Lemma map_py x fl fh tl th a b c d e :
  qval x = Some a -> qval fl = Some b -> qval fh = Some c -> qval tl = Some d -> qval th = Some e ->
  umap_py x fl fh tl th = Some (umap a b c d e).
Proof. intros H1 H2 H3 H4 H5. unfold umap_py. rewrite H1, H2, H3, H4, H5. reflexivity. Qed.

(* ------------------------------------------------------------------ sleep *)

Lemma q_ltb_lt a b : q_ltb a b = true <-> a < b.
Proof. unfold q_ltb, Qlt. apply Z.ltb_lt. Qed.

Lemma sleep_spec d :
  match qval d with
  | None => usleep d = ([], URaise TypeError)
  | Some ms =>
      (ms < 0 -> usleep d = ([], URaise ValueError)) /\
      (0 <= ms -> usleep d = ([ms / 1000], UOk tt))
  end.
Proof.
  unfold usleep. destruct (qval d) as [ms|]; [|reflexivity].
  destruct (q_ltb ms 0) eqn:E.
  - apply q_ltb_lt in E. split; [reflexivity|]. intro H. lra.
  - split; [|reflexivity]. intro H. apply q_ltb_lt in H. congruence.
Qed.

(* the sleeper is called at most once, and exactly once iff sleep returns normally *)
Lemma sleep_calls d :
  (snd (usleep d) = UOk tt <-> length (fst (usleep d)) = 1%nat) /\
  (snd (usleep d) <> UOk tt <-> fst (usleep d) = []).
Proof.
  unfold usleep. destruct (qval d) as [ms|]; [destruct (q_ltb ms 0)|]; cbn;
    repeat split; intros; try discriminate; try congruence; auto.
Qed.
