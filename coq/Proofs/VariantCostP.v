(* Proofs about Lang/VariantCost.v: with the memo looked up THROUGH the alias table no (function, call signature) is
   parsed twice, whatever the script (recursion, forward calls, promoted parameters, any fuel); hence the number of body
   parses is at most (defs) + (distinct call signatures recorded).  Looked up by the raw signature it is not. *)
From Coq Require Import ZArith List Bool Lia Arith.
From RV Require Import Lang.VariantCost.
Import ListNotations.
Open Scope Z_scope.

Arguments key_dec : simpl never.
Arguments sig_dec : simpl never.

Definition hitP (s : st) (k : key) : Prop := In (fst k, canon s k) (defs s).

Lemma hit_true : forall s k, hit true s k = true <-> hitP s k.
Proof.
  intros s k. unfold hit, hitP. destruct (in_dec key_dec (fst k, canon s k) (defs s)); split; intro H; auto; discriminate.
Qed.

Fixpoint nones (l : list (Z * option sig)) : nat :=
  match l with
  | [] => O
  | (_, None) :: r => S (nones r)
  | (_, Some _) :: r => nones r
  end.

Lemma trace_len : forall l, length l = (nones l + length (forced l))%nat.
Proof. induction l as [|[n [sg|]] r IH]; simpl; lia. Qed.

Definition Inv (s : st) : Prop :=
  NoDup (forced (trace s)) /\
  (forall k, In k (forced (trace s)) -> In k (refr s) \/ hitP s k) /\
  (forall k, In k (forced (trace s)) -> In k (sigs s)) /\
  (forall k f, assoc k (alias s) = Some f -> In (fst k, f) (defs s)) /\
  NoDup (sigs s).

Definition ext (s s' : st) : Prop :=
  refr s' = refr s /\
  (forall k, hitP s k -> hitP s' k) /\
  (forall k, In k (sigs s) -> In k (sigs s')) /\
  nones (trace s') = nones (trace s).

Definition good (ens : key -> st -> st) : Prop :=
  forall k s, Inv s -> In k (sigs s) -> Inv (ens k s) /\ ext s (ens k s).

Lemma ext_refl : forall s, ext s s.
Proof. intro s. repeat split; auto. Qed.

Lemma ext_trans : forall a b c, ext a b -> ext b c -> ext a c.
Proof.
  intros a b c [A1 [A2 [A3 A4]]] [B1 [B2 [B3 B4]]]. repeat split.
  - congruence.
  - auto.
  - auto.
  - congruence.
Qed.

Lemma NoDup_snoc : forall (A : Type) (l : list A) (x : A), NoDup l -> ~ In x l -> NoDup (l ++ [x]).
Proof.
  intros A l x. induction l as [|a l IH]; intros N H; simpl.
  - constructor; [intros []|constructor].
  - inversion N as [|? ? Na Nl]; subst. constructor.
    + intro Hin. apply in_app_or in Hin. destruct Hin as [Hin|[Hin|[]]]; [auto|].
      subst. apply H. left. reflexivity.
    + apply IH; auto. intro Hx. apply H. right. exact Hx.
Qed.

Lemma record_sig_props : forall k s, Inv s ->
  Inv (record_sig k s) /\ ext s (record_sig k s) /\ In k (sigs (record_sig k s)).
Proof.
  intros k s [I1 [I2 [I3 [I4 I5]]]]. unfold record_sig.
  destruct (in_dec key_dec k (sigs s)) as [i|ni].
  - split; [repeat split; auto|split; [apply ext_refl|exact i]].
  - split; [|split].
    + repeat split; cbn; auto.
      * intros k' H. apply in_or_app. left. auto.
      * apply NoDup_snoc; auto.
    + repeat split; cbn; auto. intros k' H. apply in_or_app. left. exact H.
    + cbn. apply in_or_app. right. left. reflexivity.
Qed.

Section Good.
  Variable ens : key -> st -> st.
  Hypothesis G : good ens.

  Lemma infer_term_good : forall vt t s, Inv s ->
    Inv (snd (infer_term ens vt t s)) /\ ext s (snd (infer_term ens vt t s)).
  Proof.
    intros vt t s HI. destruct t as [i|t|f args]; simpl.
    - split; [exact HI|apply ext_refl].
    - split; [exact HI|apply ext_refl].
    - destruct (record_sig_props (f, map (arg_ty vt) args) s HI) as [R1 [R2 R3]].
      destruct (G _ _ R1 R3) as [G1 G2]. split; [exact G1|eapply ext_trans; eassumption].
  Qed.

  Lemma walk_rest_good : forall ts vt acc left s, Inv s ->
    Inv (snd (walk_rest ens vt acc left ts s)) /\ ext s (snd (walk_rest ens vt acc left ts s)).
  Proof.
    induction ts as [|t r IH]; intros vt acc left s HI; simpl.
    - split; [exact HI|apply ext_refl].
    - pose proof (infer_term_good vt t s HI) as H.
      destruct (infer_term ens vt t s) as [b s1]. simpl in H. destruct H as [H1 H2].
      destruct ((acc =? 3) || (b =? 3)).
      + destruct (IH (promote match left with Some l => promote vt l acc | None => vt end t b) 3 None s1 H1) as [A B].
        split; [exact A|eapply ext_trans; eassumption].
      + destruct (IH vt (tjoin acc b) None s1 H1) as [A B].
        split; [exact A|eapply ext_trans; eassumption].
  Qed.

  Lemma walk_good : forall ts vt s, Inv s ->
    Inv (snd (walk ens vt ts s)) /\ ext s (snd (walk ens vt ts s)).
  Proof.
    intros ts vt s HI. destruct ts as [|t r]; simpl.
    - split; [exact HI|apply ext_refl].
    - pose proof (infer_term_good vt t s HI) as H.
      destruct (infer_term ens vt t s) as [a s1]. simpl in H. destruct H as [H1 H2].
      destruct (walk_rest_good r vt a (Some t) s1 H1) as [A B].
      split; [exact A|eapply ext_trans; eassumption].
  Qed.
End Good.

(* storing the parsed variant: every earlier fast-path hit stays one, and the requested signature becomes one *)
Ltac inv_split := split; [|split; [|split; [|split]]].
Ltac ext_split := split; [|split; [|split]].

Lemma finish_props : forall name req final rt s, Inv s ->
  Inv (finish name req final rt s) /\ ext s (finish name req final rt s) /\ hitP (finish name req final rt s) (name, req) /\
  trace (finish name req final rt s) = trace s.
Proof.
  intros name req final rt s [I1 [I2 [I3 [I4 I5]]]]. unfold finish.
  destruct (sig_dec req final) as [e|ne]; cbn.
  - assert (M : forall k, hitP s k -> In (fst k, canon s k) ((name, final) :: defs s)) by (intros k H; right; exact H).
    split; [|split; [|split]].
    + inv_split; cbn.
      * exact I1.
      * intros k H. destruct (I2 k H) as [H1|H1]; [left; exact H1|right; apply M; exact H1].
      * exact I3.
      * intros k f H. right. apply I4. exact H.
      * exact I5.
    + ext_split; cbn; auto.
    + unfold hitP, canon; cbn. destruct (assoc (name, req) (alias s)) as [f|] eqn:E.
      * right. apply (I4 _ _ E).
      * left. cbn. rewrite e. reflexivity.
    + reflexivity.
  - assert (M : forall k, hitP s k ->
               In (fst k, match (if key_dec k (name, req) then Some final else assoc k (alias s)) with Some f => f | None => snd k end)
                  ((name, final) :: defs s)).
    { intros k H. destruct (key_dec k (name, req)) as [ek|nk].
      - left. subst k. reflexivity.
      - right. exact H. }
    split; [|split; [|split]].
    + inv_split; cbn.
      * exact I1.
      * intros k H. destruct (I2 k H) as [H1|H1]; [left; exact H1|right; unfold hitP, canon; cbn; apply M; exact H1].
      * exact I3.
      * intros k f H. destruct (key_dec k (name, req)) as [ek|nk].
        -- left. inversion H; subst. reflexivity.
        -- right. apply I4. exact H.
      * exact I5.
    + ext_split; cbn; auto; intros k H; unfold hitP, canon; cbn; apply M; exact H.
    + unfold hitP, canon; cbn. destruct (key_dec (name, req) (name, req)) as [_|n]; [left; reflexivity|exfalso; apply n; reflexivity].
    + reflexivity.
Qed.

Lemma pending_in : forall name s rq, In rq (pending name s) -> In (name, rq) (sigs s).
Proof.
  intros name s rq H. unfold pending in H. apply in_map_iff in H. destruct H as [[n sg] [E H]].
  apply filter_In in H. destruct H as [H1 H2]. simpl in *. apply Z.eqb_eq in H2. subst. exact H1.
Qed.

Lemma pending_loop : forall ens, good ens -> forall name vt l s, Inv s ->
  (forall rq, In rq l -> In (name, rq) (sigs s)) ->
  Inv (fold_left (fun acc rq => if sig_dec rq vt then acc else ens (name, rq) acc) l s) /\
  ext s (fold_left (fun acc rq => if sig_dec rq vt then acc else ens (name, rq) acc) l s).
Proof.
  intros ens G name vt l. induction l as [|rq r IH]; intros s HI HL; simpl.
  - split; [exact HI|apply ext_refl].
  - destruct (sig_dec rq vt) as [e|ne].
    + apply IH; [exact HI|]. intros q Hq. apply HL. right. exact Hq.
    + destruct (G (name, rq) s HI (HL rq (or_introl eq_refl))) as [G1 G2].
      destruct (IH (ens (name, rq) s) G1) as [A B].
      * intros q Hq. destruct G2 as [_ [_ [G3 _]]]. apply G3. apply HL. right. exact Hq.
      * split; [exact A|eapply ext_trans; eassumption].
Qed.

(* a forced parse of a key that is being refreshed and was never parsed before *)
Lemma parse_fn_forced : forall ens, good ens -> forall name f sg s,
  Inv s -> In (name, sg) (refr s) -> ~ In (name, sg) (forced (trace s)) -> In (name, sg) (sigs s) ->
  Inv (parse_fn ens name f (Some sg) s) /\ ext s (parse_fn ens name f (Some sg) s) /\
  (In (name, sg) (forced (trace (parse_fn ens name f (Some sg) s))) -> hitP (parse_fn ens name f (Some sg) s) (name, sg)).
Proof.
  intros ens G name f sg s HI Hr Hn Hs. unfold parse_fn.
  destruct (Nat.eqb (length sg) (f_arity f)).
  - set (s0 := set_trace ((name, Some sg) :: trace s) (set_sources ((name, f) :: sources s) s)).
    assert (I0 : Inv s0).
    { destruct HI as [I1 [I2 [I3 [I4 I5]]]]. inv_split; cbn.
      - constructor; assumption.
      - intros k [H|H]; [left; subst k; exact Hr|apply I2; exact H].
      - intros k [H|H]; [subst k; exact Hs|apply I3; exact H].
      - exact I4.
      - exact I5. }
    assert (E0 : ext s s0) by (ext_split; cbn; auto).
    pose proof (walk_good ens G (f_body f) sg s0 I0) as W.
    destruct (walk ens sg (f_body f) s0) as [[rt vt] s1]. simpl in W. destruct W as [W1 W2].
    destruct (finish_props name sg vt rt s1 W1) as [F1 [F2 [F3 F4]]].
    split; [exact F1|split; [|intros _; exact F3]].
    eapply ext_trans; [exact E0|eapply ext_trans; eassumption].
  - split; [|split].
    + destruct HI as [I1 [I2 [I3 [I4 I5]]]]. inv_split; cbn; assumption.
    + ext_split; cbn; auto.
    + cbn. intro H. contradiction.
Qed.

(* the def itself (no forced signature): one more entry without a signature, the forced entries stay duplicate-free *)
Lemma parse_fn_def : forall ens, good ens -> forall name f s, Inv s ->
  Inv (parse_fn ens name f None s) /\ refr (parse_fn ens name f None s) = refr s /\
  nones (trace (parse_fn ens name f None s)) = S (nones (trace s)).
Proof.
  intros ens G name f s HI. unfold parse_fn.
  set (s0 := set_trace ((name, None) :: trace s) (set_sources ((name, f) :: sources s) s)).
  assert (I0 : Inv s0) by (destruct HI as [I1 [I2 [I3 [I4 I5]]]]; inv_split; cbn; assumption).
  pose proof (walk_good ens G (f_body f) (repeat 0 (f_arity f)) s0 I0) as W.
  destruct (walk ens (repeat 0 (f_arity f)) (f_body f) s0) as [[rt vt] s1]. simpl in W. destruct W as [W1 W2].
  destruct (finish_props name vt vt rt s1 W1) as [F1 [F2 [F3 F4]]].
  destruct (pending_loop ens G name vt (pending name (finish name vt vt rt s1)) (finish name vt vt rt s1) F1) as [P1 P2].
  { intros rq H. apply pending_in. exact H. }
  split; [exact P1|].
  destruct W2 as [Wa [_ [_ Wd]]]. destruct F2 as [Fa [_ [_ Fd]]]. destruct P2 as [Pa [_ [_ Pd]]].
  split.
  - rewrite Pa, Fa, Wa. reflexivity.
  - rewrite Pd, Fd, Wd. reflexivity.
Qed.

Lemma remove_notin : forall (k : key) l, ~ In k l -> remove key_dec k l = l.
Proof.
  intros k l. induction l as [|a l IH]; intro H; simpl.
  - reflexivity.
  - destruct (key_dec k a) as [e|ne].
    + exfalso. apply H. left. symmetry. exact e.
    + f_equal. apply IH. intro Hi. apply H. right. exact Hi.
Qed.

Lemma ensure_S : forall ua fu k s, ensure ua (S fu) k s =
  if hit ua s k then s else
  match find_source (fst k) (sources s) with
  | None => s
  | Some f =>
    if in_dec key_dec k (refr s) then s else
    set_refr (remove key_dec k (refr (parse_fn (ensure ua fu) (fst k) f (Some (snd k)) (set_refr (k :: refr s) s))))
             (parse_fn (ensure ua fu) (fst k) f (Some (snd k)) (set_refr (k :: refr s) s))
  end.
Proof. reflexivity. Qed.

(* _ensure_function_variant with the alias-aware fast path keeps the invariant, for every fuel *)
Lemma ensure_good : forall fuel, good (ensure true fuel).
Proof.
  induction fuel as [|fu IH]; intros k s HI Hs; [simpl|rewrite ensure_S].
  - split; [destruct HI as [I1 [I2 [I3 [I4 I5]]]]; inv_split; cbn; assumption|ext_split; cbn; auto].
  - destruct (hit true s k) eqn:Hh; [split; [exact HI|apply ext_refl]|].
    destruct (find_source (fst k) (sources s)) as [f|]; [|split; [exact HI|apply ext_refl]].
    destruct (in_dec key_dec k (refr s)) as [i|ni]; [split; [exact HI|apply ext_refl]|].
    assert (Hnh : ~ hitP s k) by (intro H; apply hit_true in H; congruence).
    assert (Hnf : ~ In k (forced (trace s))).
    { intro H. destruct HI as [_ [I2 _]]. destruct (I2 k H) as [H1|H1]; contradiction. }
    set (s1 := set_refr (k :: refr s) s).
    assert (I1' : Inv s1) by (destruct HI as [I1 [I2 [I3 [I4 I5]]]]; inv_split; cbn; try assumption;
                              intros k' H; destruct (I2 k' H) as [H1|H1]; [left; right; exact H1|right; exact H1]).
    destruct k as [name sg]. cbn [fst snd].
    destruct (parse_fn_forced (ensure true fu) IH name f sg s1 I1') as [P1 [P2 P3]].
    { cbn. left. reflexivity. }
    { exact Hnf. }
    { exact Hs. }
    remember (parse_fn (ensure true fu) name f (Some sg) s1) as s2 eqn:Es2. clear Es2.
    destruct P2 as [Pa0 [Pb [Pc Pd]]].
    assert (Pa : refr s2 = (name, sg) :: refr s) by (rewrite Pa0; reflexivity).
    assert (Er : remove key_dec (name, sg) (refr s2) = refr s).
    { rewrite Pa. simpl. destruct (key_dec (name, sg) (name, sg)) as [_|n]; [|exfalso; apply n; reflexivity].
      apply remove_notin. exact ni. }
    split.
    + destruct P1 as [J1 [J2 [J3 [J4 J5]]]]. inv_split; cbn; try assumption.
      intros k' H. rewrite Er. destruct (key_dec k' (name, sg)) as [e|ne].
      * right. subst k'. apply P3. exact H.
      * destruct (J2 k' H) as [H1|H1]; [|right; exact H1].
        rewrite Pa in H1. destruct H1 as [H1|H1]; [exfalso; apply ne; symmetry; exact H1|left; exact H1].
    + ext_split; cbn.
      * exact Er.
      * intros k' H. apply Pb. exact H.
      * intros k' H. apply Pc. exact H.
      * exact Pd.
Qed.

Lemma step_inv : forall fuel s it, Inv s ->
  Inv (step true fuel s it) /\
  nones (trace (step true fuel s it)) = (nones (trace s) + match it with IDef _ _ => 1 | ICall _ _ => 0 end)%nat.
Proof.
  intros fuel s it HI. destruct it as [name f|name sg]; cbn [step].
  - destruct (parse_fn_def (ensure true fuel) (ensure_good fuel) name f s HI) as [A [_ C]].
    split; [exact A|rewrite C; lia].
  - destruct (record_sig_props (name, sg) s HI) as [R1 [R2 R3]].
    destruct (ensure_good fuel (name, sg) _ R1 R3) as [A B].
    split; [exact A|]. destruct B as [_ [_ [_ B]]]. destruct R2 as [_ [_ [_ R2]]]. rewrite B, R2. lia.
Qed.

Lemma inv_st0 : Inv st0.
Proof. inv_split; cbn; try constructor; intros; try contradiction; discriminate. Qed.

Lemma fold_inv : forall fuel p s, Inv s ->
  Inv (fold_left (step true fuel) p s) /\
  nones (trace (fold_left (step true fuel) p s)) = (nones (trace s) + n_defs p)%nat.
Proof.
  intros fuel p. induction p as [|it r IH]; intros s HI; simpl.
  - split; [exact HI|unfold n_defs; simpl; lia].
  - destruct (step_inv fuel s it HI) as [A B]. destruct (IH _ A) as [C D].
    split; [exact C|]. rewrite D, B. unfold n_defs. destruct it; simpl; lia.
Qed.

(* ---- the statements of Props/C11.v *)
Theorem variant_parsed_once : forall fuel p, NoDup (forced (trace (vrun true fuel p))).
Proof. intros fuel p. destruct (fold_inv fuel p st0 inv_st0) as [[I1 _] _]. exact I1. Qed.

Theorem variant_parsed_once_count : forall fuel p k, (count_occ key_dec (forced (trace (vrun true fuel p))) k <= 1)%nat.
Proof. intros fuel p k. apply (proj1 (NoDup_count_occ key_dec _)). apply variant_parsed_once. Qed.

Theorem variant_parsed_only_when_called : forall fuel p k,
  In k (forced (trace (vrun true fuel p))) -> In k (sigs (vrun true fuel p)).
Proof. intros fuel p k. destruct (fold_inv fuel p st0 inv_st0) as [[_ [_ [I3 _]]] _]. apply I3. Qed.

Theorem variant_parses_bounded : forall fuel p,
  (length (trace (vrun true fuel p)) <= n_defs p + length (sigs (vrun true fuel p)))%nat.
Proof.
  intros fuel p. rewrite trace_len.
  destruct (fold_inv fuel p st0 inv_st0) as [[I1 [_ [I3 _]]] N]. unfold vrun. rewrite N. simpl.
  apply Nat.add_le_mono_l. apply NoDup_incl_length; [exact I1|]. intros k H. apply I3. exact H.
Qed.

(* the fast path keyed by the RAW signature: a promoted variant is never found again *)
Theorem variant_raw_lookup_refuted : exists p k, (2 <= count_occ key_dec (forced (trace (vrun false 100 p))) k)%nat.
Proof. exists (chain 1 2), (0, [0]). vm_compute. lia. Qed.

Definition depths : list nat := [0; 1; 2; 3; 4; 5]%nat.

Example variant_chain_series :
  map (fun d => Z.of_nat (parses true (chain d 3))) depths = [2; 4; 6; 8; 10; 12] /\
  map (fun d => Z.of_nat (parses false (chain d 3))) depths = [2; 9; 31; 98; 300; 907] /\
  map (fun d => oof (vrun false 2000 (chain d 3))) depths = map (fun _ => false) depths /\
  rev (trace (vrun true 100 (chain 2 3))) = [(0, None); (1, None); (0, Some [0]); (2, None); (1, Some [0]); (2, Some [0])] /\
  alias (vrun true 100 (chain 1 3)) = [((1, [0]), [3]); ((0, [0]), [3])] /\
  n_defs (chain 5 3) = 6%nat /\ length (sigs (vrun true 2000 (chain 5 3))) = 6%nat.
Proof. vm_compute. repeat split. Qed.
