(* C10 - proofs about Lang/VariantSession.v *)
From Coq Require Import ZArith List Bool String.
From RV Require Import Base.Wire Base.Text Lang.Order Lang.VariantSession.
Import ListNotations.
Open Scope Z_scope.

(* from an empty guard set no call ever meets its key: the outcome is the guard-free one ... *)
Lemma calls_run_empty_outcome rel ds : forall cs vs vars,
  fst (calls_run rel ds cs vs vars []) = calls_spec ds cs vs vars.
Proof.
  induction cs as [|c r IH]; intros vs vars; [reflexivity|].
  cbn [calls_run calls_spec]. destruct (find_def (c_fn c) ds) as [d|]; [|apply IH].
  destruct (find_variant (c_fn c) (c_arg c) vs) as [rt|]; [apply IH|].
  cbn [key_mem existsb]. destruct (variant_ret d (c_arg c)) as [rt|]; [apply IH|reflexivity].
Qed.

(* ... and with a finally block the set is empty again whichever way the parse ends *)
Lemma calls_run_finally_empty ds : forall cs vs vars, snd (calls_run Finally ds cs vs vars []) = [].
Proof.
  induction cs as [|c r IH]; intros vs vars; [reflexivity|].
  cbn [calls_run]. destruct (find_def (c_fn c) ds) as [d|]; [|apply IH].
  destruct (find_variant (c_fn c) (c_arg c) vs) as [rt|]; [apply IH|].
  cbn [key_mem existsb]. destruct (variant_ret d (c_arg c)) as [rt|]; [apply IH|reflexivity].
Qed.

Lemma vrun_per_parse rel ms p : vrun (mk_vcfg PerParse rel) ms p = (vspec p, ms).
Proof.
  unfold vrun, vspec. cbn [v_scope v_release]. destruct (defs_run (p_defs p) []) as [vs0|]; [|reflexivity].
  pose proof (calls_run_empty_outcome rel (p_defs p) (p_calls p) vs0 []) as H.
  destruct (calls_run rel (p_defs p) (p_calls p) vs0 [] []) as [r g1]. cbn [fst] in H. rewrite H. reflexivity.
Qed.

Lemma vrun_module_finally p : vrun (mk_vcfg ModuleLevel Finally) [] p = (vspec p, []).
Proof.
  unfold vrun, vspec. cbn [v_scope v_release]. destruct (defs_run (p_defs p) []) as [vs0|]; [|reflexivity].
  pose proof (calls_run_empty_outcome Finally (p_defs p) (p_calls p) vs0 []) as H.
  pose proof (calls_run_finally_empty (p_defs p) (p_calls p) vs0 []) as G.
  destruct (calls_run Finally (p_defs p) (p_calls p) vs0 [] []) as [r g1]. cbn [fst snd] in *. rewrite H, G. reflexivity.
Qed.

Lemma vsession_per_parse rel : forall ps ms, vsession (mk_vcfg PerParse rel) ms ps = map vspec ps.
Proof.
  induction ps as [|p r IH]; intro ms; [reflexivity|]. cbn [vsession map]. rewrite vrun_per_parse. f_equal. apply IH.
Qed.

Lemma vsession_module_finally : forall ps, vsession (mk_vcfg ModuleLevel Finally) [] ps = map vspec ps.
Proof.
  induction ps as [|p r IH]; [reflexivity|]. cbn [vsession map]. rewrite vrun_module_finally. f_equal. exact IH.
Qed.

Theorem vsession_safe : forall c ps, cfg_safe c = true -> vsession c [] ps = map vspec ps.
Proof.
  intros [sc rel] ps Hs. destruct sc.
  - apply vsession_per_parse.
  - destruct rel; [apply vsession_module_finally|discriminate].
Qed.

Theorem vsession_stateless : forall c before p after, cfg_safe c = true ->
  nth_error (vsession c [] (before ++ p :: after)) (List.length before) = Some (vspec p).
Proof.
  intros c before p after Hs. rewrite (vsession_safe c _ Hs), map_app. cbn [map].
  rewrite nth_error_app2; rewrite map_length; [|apply Nat.le_refl]. rewrite Nat.sub_diag. reflexivity.
Qed.

(* a per-parse guard needs no release at all - whatever the module-level set holds *)
Theorem per_parse_guard_any_store : forall rel ms before p after,
  nth_error (vsession (mk_vcfg PerParse rel) ms (before ++ p :: after)) (List.length before) = Some (vspec p).
Proof.
  intros rel ms before p after. rewrite vsession_per_parse, map_app. cbn [map].
  rewrite nth_error_app2; rewrite map_length; [|apply Nat.le_refl]. rewrite Nat.sub_diag. reflexivity.
Qed.

(* one parse leaves the module-level set as it found it *)
Theorem vrun_leaves_store : forall c p, cfg_safe c = true -> vrun c [] p = (vspec p, []).
Proof.
  intros [sc rel] p Hs. destruct sc; [apply vrun_per_parse|]. destruct rel; [apply vrun_module_finally|discriminate].
Qed.

Lemma safe_nonvacuous :
  cfg_safe cfg_code = true /\ cfg_safe (mk_vcfg ModuleLevel Finally) = true /\ cfg_safe (mk_vcfg PerParse Straight) = true /\
  vsession cfg_code [] [rej_A; ok_B; rej_A] = [Rejected; Accepted [(n_v, 3)] [(n_pick, 3, 3)]; Rejected] /\
  vsession (mk_vcfg ModuleLevel Finally) [] [rej_A; ok_B; rej_A] = [Rejected; Accepted [(n_v, 3)] [(n_pick, 3, 3)]; Rejected] /\
  vsession (mk_vcfg PerParse Straight) [] [rej_A; ok_B; rej_A] = [Rejected; Accepted [(n_v, 3)] [(n_pick, 3, 3)]; Rejected].
Proof. repeat split; vm_compute; reflexivity. Qed.

(* ---------------------------------------------------------------- module-level guard, released by a statement after the call *)
Lemma leaky_witness :
  vspec rej_A = Rejected /\ vspec ok_B = Accepted [(n_v, 3)] [(n_pick, 3, 3)] /\
  vsession cfg_leaky [] [rej_A; ok_B] = [Rejected; Accepted [(n_v, 0)] []] /\
  vsession cfg_leaky [] [rej_A; rej_A] = [Rejected; Accepted [(n_v, 0)] []] /\
  vsession cfg_leaky [] [ok_B; rej_A; ok_B] = [Accepted [(n_v, 3)] [(n_pick, 3, 3)]; Rejected; Accepted [(n_v, 0)] []].
Proof. repeat split; vm_compute; reflexivity. Qed.

Theorem leaky_guard_refutes : exists A B, nth_error (vsession cfg_leaky [] ([A] ++ B :: [])) 1 <> Some (vspec B).
Proof. exists rej_A, ok_B. vm_compute. discriminate. Qed.

(* the rejected script itself is accepted at the second attempt *)
Theorem leaky_guard_rejected_then_accepted : exists A, vsession cfg_leaky [] [A; A] <> [vspec A; vspec A].
Proof. exists rej_A. vm_compute. discriminate. Qed.

(* only a REJECTED earlier script can leave a trace: sessions of accepted scripts are stateless even then *)
Lemma calls_run_accepted_keeps_guard rel ds : forall cs vs vars g st g',
  calls_run rel ds cs vs vars g = (Some st, g') -> g' = g.
Proof.
  induction cs as [|c r IH]; intros vs vars g st g' H; cbn [calls_run] in H.
  - inversion H. reflexivity.
  - destruct (find_def (c_fn c) ds) as [d|]; [|eapply IH; exact H].
    destruct (find_variant (c_fn c) (c_arg c) vs) as [rt|]; [eapply IH; exact H|].
    destruct (key_mem (c_fn c, c_arg c) g); [eapply IH; exact H|].
    destruct (variant_ret d (c_arg c)) as [rt|]; [eapply IH; exact H|discriminate].
Qed.

Theorem accepted_scripts_leave_no_trace : forall c p, vspec p <> Rejected -> vrun c [] p = (vspec p, []).
Proof.
  intros [sc rel] p Hacc. destruct sc; [apply vrun_per_parse|].
  unfold vrun, vspec in *. cbn [v_scope v_release]. destruct (defs_run (p_defs p) []) as [vs0|]; [|reflexivity].
  pose proof (calls_run_empty_outcome rel (p_defs p) (p_calls p) vs0 []) as H.
  destruct (calls_run rel (p_defs p) (p_calls p) vs0 [] []) as [r g1] eqn:E. cbn [fst] in H. rewrite <- H in *.
  destruct r as [st|]; [|exfalso; apply Hacc; reflexivity].
  apply calls_run_accepted_keeps_guard in E. subst g1. reflexivity.
Qed.
