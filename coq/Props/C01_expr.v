(* Unit C01_expr: the expression layer of C01.  Statements only; proofs are in Proofs/ToCP.v. *)
From Coq Require Import ZArith QArith List Bool.
From RV Require Import Base.Wire Base.Text Lang.PyAst Lang.PySem Lang.CAst Lang.CSem Lang.ToC Gen.OpTables Proofs.ToCP Proofs.ToCPres Proofs.ToCLitP Proofs.AtolP.
Import ListNotations.
Open Scope Z_scope.

(* an operator that _emit_binop prints infix: the C++ operator computes Python's value inside op_guard *)
Theorem C01_binop_table op tok :
  In (op, (0, tok)) OpTables.binemit ->
  forall a b wa wb v, vrel a wa -> vrel b wb -> op_guard op a b = true ->
  py_bin op a b = Ok v -> vfits v = true -> exists w, csem_bin tok wa wb = COk w /\ vrel v w.
Proof. exact (binop_table_sound op tok). Qed.
Print Assumptions C01_binop_table.

(* an operator that _emit_binop prints as a helper call (// and %): the helper template computes Python's value *)
Theorem C01_binop_helper_table op f :
  In (op, (1, f)) OpTables.binemit ->
  forall a b wa wb v, vrel a wa -> vrel b wb -> op_guard op a b = true ->
  py_bin op a b = Ok v -> vfits v = true ->
  exists md w, helper_name f = Some md /\ csem_helper md wa wb = COk w /\ vrel v w.
Proof. exact (binop_helper_sound op f). Qed.
Print Assumptions C01_binop_helper_table.

Theorem C01_unop_table op tok :
  In (op, tok) OpTables.un ->
  forall a wa v, vrel a wa -> is_numv a = true -> py_un op a = Ok v -> vfits v = true ->
  exists w, csem_un tok wa = COk w /\ vrel v w.
Proof. exact (unop_table_sound op tok). Qed.
Print Assumptions C01_unop_table.

Theorem C01_cmpop_table op tok :
  In (op, tok) OpTables.cmp ->
  forall a b wa wb c, vrel a wa -> vrel b wb -> cmp_guard a b (tag_of wa) (tag_of wb) = true ->
  py_cmp op a b = Ok c -> exists op', cmptok tok = Some op' /\ ccmp op' wa wb = COk c.
Proof. exact (cmpop_table_sound op tok). Qed.
Print Assumptions C01_cmpop_table.

(* the regenerated tables: every operator of _BIN is emitted in the form the C++ semantics needs - infix with the C++
   operator of the same meaning, // and % as calls of __redu_floordiv / __redu_mod whose snippet emit() adds, ** rejected *)
Theorem C01_tables_understood : tables_ok = true.
Proof. exact generated_tables_ok. Qed.
Print Assumptions C01_tables_understood.

(* ---- repaired defects F-C01-floordiv, F-C01-mod-sign, F-C01-mod-float: positive theorems that replace
   C01_floordiv_refuted, C01_floordiv_float_refuted, C01_mod_refuted, C01_mod_float_refuted ---- *)

(* the C++ text of the integer helper templates computes Python's floor division and modulo, for every divisor but 0 *)
Theorem C01_floordiv_helper_floors : forall x y, y <> 0 -> c_floordiv x y = Z.div x y.
Proof. exact c_floordiv_div. Qed.
Print Assumptions C01_floordiv_helper_floors.

Theorem C01_mod_helper_sign_of_divisor : forall x y, y <> 0 -> c_mod x y = Z.modulo x y.
Proof. exact c_mod_mod. Qed.
Print Assumptions C01_mod_helper_sign_of_divisor.

(* value level, all numeric operands (int, bool, float in any mix, any signs): the device computes what Python computes *)
Theorem C01_floordiv_preserved : forall a b wa wb v,
  vrel a wa -> vrel b wb -> is_numv a && is_numv b = true -> py_bin FloorDiv a b = Ok v -> vfits v = true ->
  exists w, csem_helper false wa wb = COk w /\ vrel v w /\ arith_ty (tag_of wa) (tag_of wb) = Some (tag_of w).
Proof. intros a b wa wb v Ha Hb Hn. exact (helper_num_sound FloorDiv false a b wa wb v eq_refl Ha Hb Hn). Qed.
Print Assumptions C01_floordiv_preserved.

Theorem C01_mod_preserved : forall a b wa wb v,
  vrel a wa -> vrel b wb -> is_numv a && is_numv b = true -> py_bin Mod a b = Ok v -> vfits v = true ->
  exists w, csem_helper true wa wb = COk w /\ vrel v w /\ arith_ty (tag_of wa) (tag_of wb) = Some (tag_of w).
Proof. intros a b wa wb v Ha Hb Hn. exact (helper_num_sound Mod true a b wa wb v eq_refl Ha Hb Hn). Qed.
Print Assumptions C01_mod_preserved.

(* closed expressions through the real tables: for all ints a, b (b <> 0, 32-bit) the emitted a // b and a % b
   evaluate on the device to Python's value *)
Theorem C01_floordiv_closed : forall a b : Z,
  fits a = true -> fits b = true -> b <> 0 -> fits (a / b) = true ->
  py_of (EBin FloorDiv (EInt a) (EInt b)) = Ok (VInt (a / b)) /\
  c_of (EBin FloorDiv (EInt a) (EInt b)) [] = Some (COk (CInt (a / b), [])).
Proof. exact floordiv_closed. Qed.
Print Assumptions C01_floordiv_closed.

Theorem C01_mod_closed : forall a b : Z,
  fits a = true -> fits b = true -> b <> 0 ->
  py_of (EBin Mod (EInt a) (EInt b)) = Ok (VInt (a mod b)) /\
  c_of (EBin Mod (EInt a) (EInt b)) [] = Some (COk (CInt (a mod b), [])).
Proof. exact mod_closed. Qed.
Print Assumptions C01_mod_closed.

(* the witnesses of the former findings *)
Example C01_floordiv_witness :
  py_of (EBin FloorDiv (EInt (-7)) (EInt 2)) = Ok (VInt (-4)) /\
  c_of (EBin FloorDiv (EInt (-7)) (EInt 2)) [] = Some (COk (CInt (-4), [])).
Proof. exact floordiv_witness. Qed.
Print Assumptions C01_floordiv_witness.

Example C01_floordiv_float_witness :
  py_of (EBin FloorDiv (EFloat (-7 # 4)) (EInt 2)) = Ok (VFloat (-1 # 1)) /\
  c_of (EBin FloorDiv (EFloat (-7 # 4)) (EInt 2)) [] = Some (COk (CFloat (-1 # 1), [])).
Proof. exact floordiv_float_witness. Qed.
Print Assumptions C01_floordiv_float_witness.

Example C01_mod_witness :
  py_of (EBin Mod (EInt (-7)) (EInt 3)) = Ok (VInt 2) /\
  c_of (EBin Mod (EInt (-7)) (EInt 3)) [] = Some (COk (CInt 2, [])).
Proof. exact mod_witness. Qed.
Print Assumptions C01_mod_witness.

Example C01_mod_float_witness :
  py_of (EBin Mod (EFloat (7 # 4)) (EInt 2)) = Ok (VFloat (7 # 4)) /\
  c_of (EBin Mod (EFloat (7 # 4)) (EInt 2)) [] = Some (COk (CFloat (7 # 4), [])).
Proof. exact mod_float_witness. Qed.
Print Assumptions C01_mod_float_witness.

(* ---- repaired defect F-C01-pow: replaces C01_pow_refuted (accepted, C++ does not compile) ---- *)
Theorem C01_pow_never_emitted : forall G a b c, to_c G (EBin Pow a b) <> TOk c.
Proof. exact pow_rejected. Qed.
Print Assumptions C01_pow_never_emitted.

Example C01_pow_witness :
  py_of (EBin Pow (EInt 7) (EInt 2)) = Ok (VInt 49) /\ to_c G0 (EBin Pow (EInt 7) (EInt 2)) = Rejected.
Proof. exact pow_witness. Qed.
Print Assumptions C01_pow_witness.

Theorem C01_truediv_refuted : exists a b : Z, b <> 0 /\
  py_of (EBin Div (EInt a) (EInt b)) = Ok (VFloat (7 # 2)) /\
  c_of (EBin Div (EInt a) (EInt b)) [] = Some (COk (CInt 3, [])).
Proof. exact truediv_refuted. Qed.
Print Assumptions C01_truediv_refuted.

Theorem C01_shift_range_refuted : exists a b : Z,
  py_of (EBin RShift (EInt a) (EInt b)) = Ok (VInt 0) /\
  c_of (EBin RShift (EInt a) (EInt b)) [] = Some CUndef.
Proof. exact shift_range_refuted. Qed.
Print Assumptions C01_shift_range_refuted.

Theorem C01_minmax_double_eval_refuted : exists ins i1 i2,
  c_of w_a0 ins = Some (COk (CInt 3, i1)) /\
  c_of (ECall n_min [w_a0; EInt 5] []) ins = Some (COk (CInt 9, i2)) /\ i1 <> i2.
Proof. exact minmax_double_eval_refuted. Qed.
Print Assumptions C01_minmax_double_eval_refuted.

Theorem C01_chain_double_eval_refuted : exists ins i1 i2,
  c_of w_a0 ins = Some (COk (CInt 3, i1)) /\
  py_of (ECompare (EInt 0) [PyAst.Lt; PyAst.Lt] [EInt 3; EInt 5]) = Ok (VBool true) /\
  c_of (ECompare (EInt 0) [PyAst.Lt; PyAst.Lt] [w_a0; EInt 5]) ins = Some (COk (CBool false, i2)).
Proof. exact chain_double_eval_refuted. Qed.
Print Assumptions C01_chain_double_eval_refuted.

Theorem C01_boolop_value_refuted : exists a b : Z,
  py_of (EBoolOp And [EInt a; EInt b]) = Ok (VInt 2) /\
  c_of (EBoolOp And [EInt a; EInt b]) [] = Some (COk (CBool true, [])).
Proof. exact boolop_value_refuted. Qed.
Print Assumptions C01_boolop_value_refuted.

Theorem C01_cond_mixed_refuted : exists e : pexpr,
  py_of e = Ok (VInt 7) /\ c_of e [] = Some (COk (CFloat (7 # 1), [])).
Proof. exact cond_mixed_refuted. Qed.
Print Assumptions C01_cond_mixed_refuted.

Theorem C01_str_bool_refuted : exists e : pexpr,
  py_of e = Ok (VStr t_True) /\ c_of e [] = Some (COk (CStr [49], [])).
Proof. exact str_bool_refuted. Qed.
Print Assumptions C01_str_bool_refuted.

(* ---- repaired defects F-C01-strlit-concat (= F-C06-literal-concat) and F-C01-int-strlit-cond: positive theorems that replace
   C01_strlit_concat_refuted and C01_int_strlit_cond_refuted.  charp_src = parser._is_c_string_literal: a string literal, an
   f-string without fields, a conditional expression choosing between such - what the emitter prints as const char* ---- *)

(* `+` of two such expressions is emitted with String(...) around the left operand ... *)
Theorem C01_strlit_concat_wrapped : forall G a b a' b',
  charp_src a = true -> charp_src b = true -> to_c G a = TOk a' -> to_c G b = TOk b' ->
  to_c G (EBin Add a b) = TOk (CBin t_plus (CString a') b').
Proof. exact strlit_concat_wrapped. Qed.
Print Assumptions C01_strlit_concat_wrapped.

(* ... which is well typed C++ (a String) whenever the operands are: no pointer + pointer any more ... *)
Theorem C01_strlit_concat_well_typed : forall G a b c,
  charp_src a = true -> charp_src b = true -> wt G a = true -> wt G b = true ->
  to_c G (EBin Add a b) = TOk c -> ctype (tc_types G) c = Some TString.
Proof. exact strlit_concat_typed. Qed.
Print Assumptions C01_strlit_concat_well_typed.

(* ... and inside the guard of C01_expr_preserve_partial whenever the operands are: the device computes Python's value *)
Theorem C01_strlit_concat_in_guard : forall G rho a b x y,
  charp_src a = true -> charp_src b = true -> wt G a = true -> wt G b = true ->
  expr_guard G rho a = true -> expr_guard G rho b = true ->
  peval rho a = Ok (VStr x) -> peval rho b = Ok (VStr y) ->
  expr_guard G rho (EBin Add a b) = true.
Proof. exact strlit_concat_in_guard. Qed.
Print Assumptions C01_strlit_concat_in_guard.

(* the emitter's test means what it should: such an expression denotes a string, has the C++ type const char*, and the
   transpiler's own inference labels it String *)
Theorem C01_charp_src_meaning : forall G rho e,
  charp_src e = true ->
  (forall v, peval rho e = Ok v -> is_strv v = true) /\
  (forall c t, to_c G e = TOk c -> ctype (tc_types G) c = Some t -> t = TCharP) /\
  infer G e = Some LString.
Proof.
  exact (fun G rho e H => conj (fun v => charp_src_str rho e v H)
                         (conj (fun c t => charp_src_charp G e c t H) (charp_src_infer G e H))).
Qed.
Print Assumptions C01_charp_src_meaning.

(* int() / float() of such an expression: String(...).toInt() / .toFloat() - a method call on an object, not on a pointer *)
Theorem C01_num_of_strlit_wrapped : forall G (fl : bool) a a',
  charp_src a = true -> to_c G a = TOk a' ->
  to_c G (ECall (if fl then n_float else n_int) [a] []) = TOk (CToNum fl true a').
Proof. exact num_of_strlit_wrapped. Qed.
Print Assumptions C01_num_of_strlit_wrapped.

Theorem C01_int_of_strlit_well_typed : forall G a c,
  charp_src a = true -> wt G a = true -> to_c G (ECall n_int [a] []) = TOk c -> ctype (tc_types G) c = Some TInt.
Proof. exact int_of_strlit_typed. Qed.
Print Assumptions C01_int_of_strlit_well_typed.

(* the witnesses of the two findings: translated, inside the guard, and the device computes Python's value *)
Example C01_strlit_concat_witness :
  let e := EBin Add (EIfExp (EBool true) (EStr [97]) (EStr [98])) (EStr [99]) in
  py_of e = Ok (VStr [97; 99]) /\ c_of e [] = Some (COk (CStr [97; 99], [])) /\ expr_guard G0 [] e = true.
Proof. exact strlit_concat_witness. Qed.
Print Assumptions C01_strlit_concat_witness.

Example C01_int_strlit_cond_witness :
  let e := ECall n_int [EIfExp (EBool true) (EStr [49; 50]) (EStr [49; 51])] [] in
  py_of e = Ok (VInt 12) /\ c_of e [] = Some (COk (CInt 12, [])) /\ expr_guard G0 [] e = true.
Proof. exact int_strlit_cond_witness. Qed.
Print Assumptions C01_int_strlit_cond_witness.

Theorem C01_len_utf8_refuted : exists e : pexpr,
  py_of e = Ok (VInt 2) /\ c_of e [] = Some (COk (CInt 3, [])).
Proof. exact len_utf8_refuted. Qed.
Print Assumptions C01_len_utf8_refuted.

Theorem C01_serial_text_refuted :
  serial_text (CBool true) <> t_True /\ py_str (VBool true) = Ok t_True /\
  exists q, float_simple q = true /\ serial_text (CFloat q) <> float_text q.
Proof. exact serial_text_refuted. Qed.
Print Assumptions C01_serial_text_refuted.

(* value preservation of the expression translation, for every expression of the fragment, every
   environment and every scripted input: inside expr_guard the emitted C++ expression is well typed,
   evaluates without consuming readings, and yields the value Python computes *)
Theorem C01_expr_preserve_partial : forall G rho s ins e c v,
  env_rel G rho s ->
  to_c G e = TOk c -> expr_guard G rho e = true -> peval rho e = Ok v ->
  exists w, crun (tc_types G) s c ins = COk (w, ins) /\ vrel v w.
Proof. exact expr_preserve_partial. Qed.
Print Assumptions C01_expr_preserve_partial.

Example C01_expr_nonvacuous :
  env_rel demo_G demo_rho demo_s /\ expr_guard demo_G demo_rho demo_e = true /\
  peval demo_rho demo_e = Ok (VBool false) /\ exists c, to_c demo_G demo_e = TOk c.
Proof. exact demo_nonvacuous. Qed.
Print Assumptions C01_expr_nonvacuous.

Example C01_expr_nonvacuous_calls :
  expr_guard demo_G demo_rho demo_e2 = true /\ peval demo_rho demo_e2 = Ok (VInt 9) /\ exists c, to_c demo_G demo_e2 = TOk c.
Proof. exact demo2_nonvacuous. Qed.
Print Assumptions C01_expr_nonvacuous_calls.

(* String.toInt (atol) reads the number Python's int() reads whenever int() succeeds: the clause atol_ok of
   expr_guard is implied by the hypothesis peval = Ok of the preservation theorem *)
Theorem C01_int_str_atol : forall s z, parse_int s = Ok z -> c_atol s = z.
Proof. exact parse_int_atol. Qed.
Print Assumptions C01_int_str_atol.

Theorem C01_atol_clause_redundant : forall s z, parse_int s = Ok z -> atol_ok s = true.
Proof. exact atol_ok_of_parse. Qed.
Print Assumptions C01_atol_clause_redundant.
