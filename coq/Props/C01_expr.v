(* placeholder while the proofs are being written *)
From RV Require Import Lang.ToC.
Example C01_placeholder : True. Proof. exact I. Qed.
Print Assumptions C01_placeholder.
