(* C01, statement layer.  Statements only; proofs in Proofs/TranslP.v, Proofs/SkeletonP.v. *)
From Coq Require Import ZArith QArith List Bool.
From RV Require Import Base.Wire Base.Text Lang.StmtAst Lang.Transl Lang.StmtSem Lang.StmtGuard.
From RV Require Import Proofs.SkeletonP.
Import ListNotations.
Open Scope Z_scope.

(* No statement is dropped, duplicated, reordered, or moved between setup() and loop():
   the IR has the same skeleton (statement kinds, expression ids, nesting, order) as the
   source, up to the hoisted declarations and constant expression statements. *)
Theorem C01_no_silent_drop : forall p c, transl p = Some c ->
  skel_c (c_setup c) = skel_p (p_pre p) /\
  skel_c (c_loop c) = match p_main p with Some b => skel_p b | None => [] end.
Proof. exact transl_skeleton. Qed.
Print Assumptions C01_no_silent_drop.

(* `break` can never leave the main loop: transl rejects it at loop depth 1 of `while True:` *)
Theorem C01_break_guard : forall pre body rest,
  transl {| p_pre := pre; p_main := Some (PBreak :: rest) |} = None /\
  (forall c e, transl {| p_pre := pre; p_main := Some (body ++ [PIf c [PBreak] [] e]) |} = None).
Proof. exact break_guard. Qed.
Print Assumptions C01_break_guard.
