(* C01, statement layer.  Statements only; proofs in Proofs/SkeletonP.v (skeleton, break guard)
   and Proofs/SimP.v, Proofs/TranslSimpleP.v, Proofs/SimTopP.v, Proofs/SimDemoP.v (simulation). *)
From Coq Require Import ZArith QArith List Bool.
From RV Require Import Base.Wire Base.Text Lang.StmtAst Lang.Transl Lang.StmtSem Lang.StmtGuard
  Lang.SemFacts Lang.StmtDemo.
From RV Require Import Lang.StmtSimple.
From RV Require Import Proofs.SkeletonP Proofs.SimTopP Proofs.SimDemoP Proofs.TranslAcceptP Proofs.SimAcceptP.
From RV Require Import Lang.FnRet Proofs.FnRetP Lang.TupleOrder Proofs.TupleOrderP.
From RV Require Import Lang.NoReinit Proofs.NoReinitP.
From RV Require Import Lang.StmtDemoBound Proofs.SimDemoBoundP.
Import ListNotations.
Open Scope Z_scope.

(* No statement is dropped, duplicated, reordered, or moved between setup() and loop():
   the IR has the same skeleton (statement kinds, expression ids, nesting, order) as the
   source, up to the hoisted declarations and constant expression statements. *)
Theorem C01_no_silent_drop : forall p c, transl p = Some c ->
  skel_c (c_setup c) = skel_p (p_pre p) /\
  skel_c (c_loop c) = match p_main p with Some b => skel_p b | None => [] end.
Proof. exact transl_skeleton. Qed.
Print Assumptions C01_no_silent_drop.

(* `break` can never leave the main loop: transl rejects it at loop depth 1 of `while True:` *)
Theorem C01_break_guard : forall pre body rest,
  transl {| p_pre := pre; p_main := Some (PBreak :: rest) |} = None /\
  (forall c e, transl {| p_pre := pre; p_main := Some (body ++ [PIf c [PBreak] [] e]) |} = None).
Proof. exact break_guard. Qed.
Print Assumptions C01_break_guard.

(* `continue` placement: outside every loop it is rejected (directly, and under an if); ... *)
Theorem C01_continue_guard : forall pre rest main,
  transl {| p_pre := PContinue :: rest; p_main := main |} = None /\
  (forall c e, transl {| p_pre := pre ++ [PIf c [PContinue] [] e]; p_main := main |} = None).
Proof. exact continue_guard. Qed.
Print Assumptions C01_continue_guard.

(* ... directly in the body of the main loop it is `return;` from loop() (the runtime starts the next
   pass), inside a for/while loop it is `continue;`. *)
Theorem C01_continue_translation : forall cnt e, let x := [107] in
  transl {| p_pre := []; p_main := Some [PContinue] |}
    = Some {| c_globals := []; c_setup := []; c_loop := [NReturn] |} /\
  transl {| p_pre := []; p_main := Some [PFor x cnt [PContinue]; PWrite e] |}
    = Some {| c_globals := []; c_setup := []; c_loop := [NFor x (a_id cnt) [NContinue]; NWrite (a_id e)] |} /\
  transl {| p_pre := [PWhile cnt [PContinue]]; p_main := None |}
    = Some {| c_globals := []; c_setup := [NWhile (a_id cnt) [NContinue]]; c_loop := [] |}.
Proof. exact continue_translation. Qed.
Print Assumptions C01_continue_translation.

(* Statement-level SIMULATION (reject-or-preserve, statement layer).  For every program that
   [transl] accepts and that lies inside the executable guard [guard_ok]
     - every variable is first assigned at top level of the setup part, or at top level of the
       `while True:` body before any read of it in the text of that body (either way it is a C global;
       the one of the main loop has the default initialiser and keeps its value between passes),
     - every later assignment / augmented assignment keeps the type label of the first one,
     - tuple assignment `x1, ..., xn = e1, ..., en` either as the declaration of n distinct NEW names at top
       level of the setup part (plain global declarations), or (n >= 1) to names that are ALL declared already and
       keep their types - swap, rotation, parallel assignment, at any nesting level and in the main loop: the
       right-hand sides go to temporaries `__tmp_assign_k` local to the enclosing block, then the names are
       assigned in order (a tuple that mixes new and declared names, or first-assigns names inside the main loop
       - globals assigned from the temporaries - stays outside),
     - declared names are not spelled like a temporary (StmtGuard.is_tmp; no Python identifier is),
     - range() bounds are int-labelled, do not read the loop variable nor any name the loop
       body assigns, loop variables are fresh, never assigned, and read only inside their loop,
     - expression ids identify annotations consistently,
     - `continue` anywhere (Python: next iteration of the innermost for/while loop, or next pass of the main
       loop; C: `continue;` - the for header still runs ++x - resp. `return;` from loop()),
   and for every expression semantics [sem]/[augsem] shared by both sides that satisfies
   [sem_facts] (the type label of an expression is the type of its value: the interface to the
   expression layer, units C01_expr / C02): whenever the Python execution (top-level statements,
   then n passes of the `while True:` body) terminates with trace tr, the C execution of the
   translated program (dynamic initialisation of the globals, setup(), n calls of loop()) produces
   the same trace tr, for every sufficiently large C fuel.  Python runs that are not well defined
   (unbound name, failing expression) or exhaust their fuel are excluded by the hypothesis. *)
Theorem C01_stmt_preserve_partial :
  forall sem augsem p c,
    transl p = Some c -> guard_ok p = true -> sem_facts sem augsem p ->
    forall fuel n tr, pprog_exec sem augsem fuel n p = Some tr ->
    exists F, forall F', (F <= F')%nat ->
      cprog_exec sem augsem (info_of p) F' n (match p_main p with Some _ => true | None => false end) c = Some tr.
Proof. exact stmt_preserve_partial. Qed.
Print Assumptions C01_stmt_preserve_partial.

(* Inside the guard the only reason for rejection is a misplaced `break` / `continue` ([breaks_ok]: every `break`
   is inside a for/while loop and not directly at the level of the main loop, every `continue` is inside a
   for/while loop or the main loop): the parser model
   accepts every other guarded program ... *)
Theorem C01_stmt_guard_accepts :
  forall p, guard_ok p = true -> breaks_ok p = true -> exists c, transl p = Some c.
Proof. exact guard_accepts. Qed.
Print Assumptions C01_stmt_guard_accepts.

(* ... so that inside the guard "reject-or-preserve" is "accept and preserve". *)
Theorem C01_stmt_accept_and_preserve_partial :
  forall sem augsem p,
    guard_ok p = true -> breaks_ok p = true -> sem_facts sem augsem p ->
    exists c, transl p = Some c /\
      forall fuel n tr, pprog_exec sem augsem fuel n p = Some tr ->
      exists F, forall F', (F <= F')%nat ->
        cprog_exec sem augsem (info_of p) F' n (match p_main p with Some _ => true | None => false end) c = Some tr.
Proof. exact accept_and_preserve. Qed.
Print Assumptions C01_stmt_accept_and_preserve_partial.

Example C01_stmt_accept_nonvacuous :
  guard_ok demo = true /\ breaks_ok demo = true /\ sem_facts demo_sem demo_aug demo.
Proof. exact demo_breaks_ok. Qed.
Print Assumptions C01_stmt_accept_nonvacuous.

(* The hypotheses are satisfiable by a non-trivial program (constant and run-time globals, a for
   loop, if/else with an augmented assignment, 4 passes of the main loop, 8 trace events), and
   on it both executions compute the stated trace. *)
Example C01_stmt_preserve_nonvacuous :
  guard_ok demo = true /\ sem_facts demo_sem demo_aug demo /\
  pprog_exec demo_sem demo_aug 30 4 demo = Some demo_trace /\
  exists c, transl demo = Some c /\
            cprog_exec demo_sem demo_aug (info_of demo) 30 4 true c = Some demo_trace.
Proof. exact demo_ok. Qed.
Print Assumptions C01_stmt_preserve_nonvacuous.

(* ... and by a program with `continue` in a for loop (-> `continue;`) and at the level of the main loop
   under an if (-> `return;`, which the translated program provably contains). *)
Example C01_stmt_preserve_nonvacuous_continue :
  guard_ok demo_cont = true /\ breaks_ok demo_cont = true /\ sem_facts demo_cont_sem demo_aug demo_cont /\
  pprog_exec demo_cont_sem demo_aug 30 3 demo_cont = Some demo_cont_trace /\
  exists c, transl demo_cont = Some c /\
            In NReturn (match c_loop c with [_; NIf [(_, b)] _; _] => b | _ => [] end) /\
            cprog_exec demo_cont_sem demo_aug (info_of demo_cont) 30 3 true c = Some demo_cont_trace.
Proof. exact demo_cont_ok. Qed.
Print Assumptions C01_stmt_preserve_nonvacuous_continue.

(* ... and by a program with tuple assignments to declared names (Fibonacci step in a for body, swap in the main
   loop), whose translation provably starts loop() with the declaration of temporary 2 (the for body used 0 and 1). *)
Example C01_stmt_preserve_nonvacuous_swap :
  guard_ok demo_swap = true /\ breaks_ok demo_swap = true /\ sem_facts demo_swap_sem demo_aug demo_swap /\
  pprog_exec demo_swap_sem demo_aug 30 2 demo_swap = Some demo_swap_trace /\
  exists c, transl demo_swap = Some c /\
            (exists t e r, c_loop c = NDeclTmp 2 t e :: r) /\
            cprog_exec demo_swap_sem demo_aug (info_of demo_swap) 30 2 true c = Some demo_swap_trace.
Proof. exact demo_swap_ok. Qed.
Print Assumptions C01_stmt_preserve_nonvacuous_swap.

(* ... and by a program whose main loop first-assigns a name at body level (a global of the sketch). *)
Example C01_stmt_preserve_nonvacuous_local :
  guard_ok demo_local = true /\ sem_facts demo_local_sem demo_aug demo_local /\
  pprog_exec demo_local_sem demo_aug 30 3 demo_local = Some demo_local_trace /\
  exists c, transl demo_local = Some c /\
            cprog_exec demo_local_sem demo_aug (info_of demo_local) 30 3 true c = Some demo_local_trace.
Proof. exact demo_local_ok. Qed.
Print Assumptions C01_stmt_preserve_nonvacuous_local.

(* ... and by a program with tuple declarations of new globals that read a re-assigned variable. *)
Example C01_stmt_preserve_nonvacuous_tuple :
  guard_ok demo_tuple = true /\ sem_facts demo_tuple_sem demo_aug demo_tuple /\
  pprog_exec demo_tuple_sem demo_aug 30 0 demo_tuple = Some demo_tuple_trace /\
  exists c, transl demo_tuple = Some c /\
            cprog_exec demo_tuple_sem demo_aug (info_of demo_tuple) 30 0 false c = Some demo_tuple_trace.
Proof. exact demo_tuple_ok. Qed.
Print Assumptions C01_stmt_preserve_nonvacuous_tuple.

(* A for-range loop whose bound is a BARE VARIABLE follows the variable.  `n = <literal v0>` above the main loop (a value
   known when the for line is parsed), `while True: for i in range(n): mon.write(i) / mon.write(n) / n = n + 1`: for EVERY
   initial value v0, every number of passes and every Python run, the translated program - whose loop() provably starts
   with the for node over expression 2, the bare name n, not over a number - produces the same trace: the C loop runs
   CPython's number of iterations on every pass, whatever was known about n at parse time.  (Instance of
   C01_stmt_preserve_partial; the class the seeded change C01-r1 breaks - there the IR has an int in place of expression 2.) *)
Theorem C01_for_variable_bound_follows_the_variable :
  forall v0 fuel n tr,
    pprog_exec (demo_bound_sem v0) demo_aug fuel n demo_bound = Some tr ->
    exists c, transl demo_bound = Some c /\
      (exists r, c_loop c = NFor ni 2 [NWrite 3] :: r) /\
      exists F, forall F', (F <= F')%nat ->
        cprog_exec (demo_bound_sem v0) demo_aug (info_of demo_bound) F' n true c = Some tr.
Proof. exact demo_bound_follows. Qed.
Print Assumptions C01_for_variable_bound_follows_the_variable.

(* its hypothesis is satisfiable: v0 = 1, three passes, 1 + 2 + 3 iterations (9 events) on both sides *)
Example C01_for_variable_bound_nonvacuous :
  guard_ok demo_bound = true /\ breaks_ok demo_bound = true /\
  pprog_exec (demo_bound_sem 1) demo_aug 30 3 demo_bound = Some demo_bound_trace /\
  exists c, transl demo_bound = Some c /\
            cprog_exec (demo_bound_sem 1) demo_aug (info_of demo_bound) 30 3 true c = Some demo_bound_trace.
Proof. exact demo_bound_ok. Qed.
Print Assumptions C01_for_variable_bound_nonvacuous.

(* The guard clause on range() bounds is necessary: `n = 3; for i in range(n): n = n - 1;
   mon.write(i)` is accepted, Python writes 0 1 2, the C for-loop (bound re-evaluated before
   every iteration) writes 0 1.  Finding F-C01-range-bound-reeval. *)
Theorem C01_stmt_range_bound_refuted :
  exists c trP trC,
    transl reeval = Some c /\ sem_facts reeval_sem demo_aug reeval /\
    pprog_exec reeval_sem demo_aug 20 0 reeval = Some trP /\
    cprog_exec reeval_sem demo_aug (info_of reeval) 20 0 false c = Some trC /\
    trP <> trC /\ guard_ok reeval = false.
Proof. exact reeval_refuted. Qed.
Print Assumptions C01_stmt_range_bound_refuted.

(* The guard clause "loop variables are never assigned" is necessary: `for i in range(4): mon.write(i); i = i + 2;
   mon.write(i)` is accepted; Python re-binds i from the range at the head of every iteration (0 2 1 3 2 4 3 5), the C
   for-loop counts with the assigned variable itself (0 2 3 5: two iterations).  Finding F-C01-loop-var-assigned. *)
Theorem C01_stmt_loop_var_assigned_refuted :
  exists c trP trC,
    transl loopvar = Some c /\ sem_facts loopvar_sem demo_aug loopvar /\
    pprog_exec loopvar_sem demo_aug 40 0 loopvar = Some trP /\
    cprog_exec loopvar_sem demo_aug (info_of loopvar) 40 0 false c = Some trC /\
    trP <> trC /\ guard_ok loopvar = false.
Proof. exact loopvar_refuted. Qed.
Print Assumptions C01_stmt_loop_var_assigned_refuted.

(* The guard clause on stable types is necessary: `x = 1; x = 2.5; mon.write(x)` is accepted,
   the C variable keeps the type of its first assignment (int), so the device prints 2 where
   Python prints 2.5.  Finding F-C01-retype-truncates. *)
Theorem C01_stmt_retype_refuted :
  exists c trP trC,
    transl retype = Some c /\ sem_facts retype_sem demo_aug retype /\
    pprog_exec retype_sem demo_aug 20 0 retype = Some trP /\
    cprog_exec retype_sem demo_aug (info_of retype) 20 0 false c = Some trC /\
    trP <> trC /\ guard_ok retype = false.
Proof. exact retype_refuted. Qed.
Print Assumptions C01_stmt_retype_refuted.

(* Hoisting ("promotion") out of nested blocks stays outside the guard of the simulation theorem, but the defect it
   used to have is repaired (F-C01-hoisted-decl-reinit): a name first assigned inside a loop nested in another loop is
   hoisted twice, and the inner hoisted declaration is now DROPPED by the outer block's rewrite instead of becoming
   `z = 0;` (re-executed on every outer iteration).  For every list of promoted names and every node list: the
   default-initialised declaration of a promoted name vanishes, a first assignment of a promoted name becomes a plain
   assignment (both rewriters). *)
Theorem C01_hoisted_declaration_dropped : forall pn x t l, tmem x pn = true ->
  map (rewrite_deep pn) (drop_hoisted pn (NDecl x t (XDefault t) false :: l)) = map (rewrite_deep pn) (drop_hoisted pn l) /\
  map (rewrite_if pn) (drop_hoisted pn (NDecl x t (XDefault t) false :: l)) = map (rewrite_if pn) (drop_hoisted pn l).
Proof. exact hoisted_dropped. Qed.
Print Assumptions C01_hoisted_declaration_dropped.

Theorem C01_first_assignment_becomes_assignment : forall pn x t id l, tmem x pn = true ->
  map (rewrite_deep pn) (drop_hoisted pn (NDecl x t (XE id) false :: l)) = NAssign x (XE id) :: map (rewrite_deep pn) (drop_hoisted pn l) /\
  map (rewrite_if pn) (drop_hoisted pn (NDecl x t (XE id) false :: l)) = NAssign x (XE id) :: map (rewrite_if pn) (drop_hoisted pn l).
Proof. exact first_assignment_kept. Qed.
Print Assumptions C01_first_assignment_becomes_assignment.

(* NOTHING IS RE-INITIALISED, for every program the translation accepts (hoisting at any depth, in the prologue and in
   the main loop, tuples, every nesting of if / elif / else / while / for): no node of setup() or loop(), at any depth,
   declares or assigns a variable with the type's default value ([nodef_prog], Lang/NoReinit.v) - the default
   initialisers of hoisted names and of names first assigned inside the main loop all sit in GLOBAL declarations,
   which run once.  This is the universally quantified statement both repaired findings contradicted: before the
   repair loop() began with `T z = <default>;` for a name hoisted inside `while True:` (F-C01-loop-local-reinit) and an
   enclosing block contained `z = <default>;` for a name hoisted twice (F-C01-hoisted-decl-reinit).  Proof: every block
   leaves hoisted declarations only at its own top level and only for names it introduced; the enclosing block promotes
   exactly those names and its rewrite drops them; at setup depth 0 and at the body level of the main loop
   promo_decls emits no node. *)
Theorem C01_nothing_is_reinitialised : forall p c, transl p = Some c -> nodef_prog c = true.
Proof. exact transl_default_free. Qed.
Print Assumptions C01_nothing_is_reinitialised.

Example C01_nothing_is_reinitialised_nonvacuous :
  (exists c, transl looplocal = Some c /\ nodef_prog c = true /\ existsb (fun g => is_def (g_init g)) (c_globals c) = true) /\
  (exists c, transl reinit = Some c /\ nodef_prog c = true /\ existsb (fun g => is_def (g_init g)) (c_globals c) = true).
Proof. exact default_free_demo. Qed.
Print Assumptions C01_nothing_is_reinitialised_nonvacuous.

(* the witness of the repaired finding: `w = 0; while w < 2: (for k in range(1 - w): z = 5); w = w + 1` then
   `mon.write(z)`: Python writes 5, and so does the device (it used to write 0). *)
Theorem C01_stmt_promotion_no_reinit :
  exists c tr,
    transl reinit = Some c /\ sem_facts reinit_sem demo_aug reinit /\
    pprog_exec reinit_sem demo_aug 20 0 reinit = Some tr /\
    cprog_exec reinit_sem demo_aug (info_of reinit) 20 0 false c = Some tr /\
    tr = [EvSer (VI 5)] /\ guard_ok reinit = false.
Proof. exact reinit_preserved. Qed.
Print Assumptions C01_stmt_promotion_no_reinit.

(* A name first assigned inside `while True:` is a sketch GLOBAL (repaired: F-C01-loop-local-reinit; it used to be a
   local of loop(), declared again on every pass).  At the body level of the main loop, for every name not declared
   yet, every expression and every translator state: a global with the type's default initialiser plus the
   assignment in place - never a static initialiser, the assignment runs on every pass.  Inside the guard this is part
   of C01_stmt_preserve_partial (the names the main-loop body first assigns at its top level are globals whose values
   carry over from pass to pass); a name hoisted to that level out of a nested block becomes a global the same way
   ([promo_decls true]). *)
Theorem C01_main_loop_first_assignment_is_global : forall x e s, is_declared x s = false ->
  tr_assign true x (rt_ann true e) s =
  ([NAssign x (XE (a_id e))],
   add_global {| g_name := x; g_ty := a_ty e; g_init := XDefault (a_ty e) |} (declare x (with_ty x (a_ty e) s))).
Proof. exact main_loop_first_assignment. Qed.
Print Assumptions C01_main_loop_first_assignment_is_global.

(* the witness of the repaired finding: `w = 0; while True: (if w == 0: z = 5); w = w + 1; mon.write(z)` writes 5 5
   in Python and on the device (it used to write 5 0); w and z are the globals of the sketch. *)
Theorem C01_stmt_loop_variable_persists :
  exists c tr,
    transl looplocal = Some c /\ sem_facts looplocal_sem demo_aug looplocal /\
    pprog_exec looplocal_sem demo_aug 20 2 looplocal = Some tr /\
    cprog_exec looplocal_sem demo_aug (info_of looplocal) 20 2 true c = Some tr /\
    tr = [EvSer (VI 5); EvSer (VI 5)] /\ map g_name (c_globals c) = [[119]; [122]] /\ guard_ok looplocal = false.
Proof. exact looplocal_preserved. Qed.
Print Assumptions C01_stmt_loop_variable_persists.

(* ================= helper functions with several return statements (Lang/FnRet.v) =================
   The C++ return type of a helper is _merge_return_types of the labels of its return statements ([merge_ret],
   compared with the real function on every label list of length <= 5 and with the emitted return type of every
   generated helper).  It never narrows: it covers the label of every return statement ... *)
Theorem C01_return_type_covers : forall ls rt,
  merge_ret ls false = RTy rt -> forall l, In l ls -> widens l rt = true.
Proof. exact merge_covers. Qed.
Print Assumptions C01_return_type_covers.

(* ... in particular a helper is a `bool` function only if EVERY return statement is a truth value, and one
   numeric return statement among truth values makes it an `int` function. *)
Theorem C01_bool_helper_only_truth_values : forall ls hv,
  merge_ret ls hv = RTy TyBool -> forall l, In l ls -> l = TyBool.
Proof. exact merge_bool_all_bool. Qed.
Print Assumptions C01_bool_helper_only_truth_values.

Theorem C01_number_or_truth_helper_is_int : forall ls,
  ls <> [] -> (forall l, In l ls -> l = TyInt \/ l = TyBool) -> In TyInt ls -> merge_ret ls false = RTy TyInt.
Proof. exact merge_int_like. Qed.
Print Assumptions C01_number_or_truth_helper_is_int.

(* A call used as a value.  For every helper body (opaque statements, `return e`, bare `return`, if/else, loops, any
   nesting, any number of return statements), every state type and every semantics [esem]/[dosem] of its
   expressions and statements shared by both sides: whenever the CPython run of the body ends in `return e` with
   value v, the C++ function - whose declared type is [ret_type] of the body - runs the same statements (same
   state, same events) and returns the same NUMBER (True = 1, 3 = 3.0; the same text for a string).  [ret_facts]:
   the value of a return expression has the type of its label (expression layer / C02). *)
Theorem C01_helper_call_value_preserved :
  forall (St : Type) (esem : Z -> St -> option val) (dosem : Z -> St -> option (St * list ev)) b rt,
    ret_type b = RTy rt -> ret_facts esem b ->
    forall fuel st st1 evs v, pcall esem dosem fuel st b = Some (st1, evs, v) ->
    exists v', ccall esem dosem rt fuel st b = Some (st1, evs, v') /\ same_number v' v.
Proof. exact call_value_preserved. Qed.
Print Assumptions C01_helper_call_value_preserved.

(* ... and the same SERIAL LINE at value level (int-like values print as integers, floats as decimals) inside the
   guard [uniform_kind]: the return statements of the helper are all int-like (int, bool), all float, or all str. *)
Theorem C01_helper_call_serial_preserved_partial :
  forall (St : Type) (esem : Z -> St -> option val) (dosem : Z -> St -> option (St * list ev)) b rt,
    ret_type b = RTy rt -> ret_facts esem b -> uniform_kind (map a_ty (body_rets b)) = true ->
    forall fuel st st1 evs v, pcall esem dosem fuel st b = Some (st1, evs, v) ->
    exists v', ccall esem dosem rt fuel st b = Some (st1, evs, v') /\ same_serial v' v.
Proof. exact call_serial_preserved_partial. Qed.
Print Assumptions C01_helper_call_serial_preserved_partial.

(* The hypotheses are satisfiable: `def credit(amount): if amount < 0: return False ; return amount + 10` is an int
   function; credit(5) is 15 on both sides, credit(-3) is False in CPython and 0 on the device. *)
Example C01_helper_call_nonvacuous :
  ret_type credit_body = RTy TyInt /\ ret_facts credit_sem credit_body /\
  uniform_kind (map a_ty (body_rets credit_body)) = true /\
  pcall credit_sem no_do 5 5 credit_body = Some (5, [], VI 15) /\
  ccall credit_sem no_do TyInt 5 5 credit_body = Some (5, [], VI 15) /\
  pcall credit_sem no_do 5 (-3) credit_body = Some (-3, [], VB false) /\
  ccall credit_sem no_do TyInt 5 (-3) credit_body = Some (-3, [], VI 0).
Proof. exact credit_ok. Qed.
Print Assumptions C01_helper_call_nonvacuous.

(* The guard is necessary: `def h(a): if a > 2: return a * 0.5 ; return a` is a float function, h(1) is the int 1 in
   CPython (serial line 1) and the float 1.0 on the device (serial line 1.00).  Finding F-C01-helper-mixed-return. *)
Theorem C01_helper_mixed_return_refuted :
  ret_type mixed_body = RTy TyFloat /\ ret_facts mixed_sem mixed_body /\
  uniform_kind (map a_ty (body_rets mixed_body)) = false /\
  pcall mixed_sem no_do 5 1 mixed_body = Some (1, [], VI 1) /\
  ccall mixed_sem no_do TyFloat 5 1 mixed_body = Some (1, [], VF (inject_Z 1)) /\
  ~ same_serial (VF (inject_Z 1)) (VI 1).
Proof. exact mixed_refuted. Qed.
Print Assumptions C01_helper_mixed_return_refuted.

(* ================= tuple assignment: evaluation order of the right-hand sides (Lang/TupleOrder.v) =================
   `t0, ..., tn = e0, ..., en` through the temporaries (at least one target declared already, or any tuple assignment
   outside module level): the emitted statements are  temporaries ++ bindings  with one temporary per target; the
   temporaries evaluate e0, e1, ..., en exactly once each, IN SOURCE ORDER, and the bindings evaluate no source expression
   - so every right-hand side (helper calls with serial lines, delays, pin commands, updates of globals) is evaluated,
   in Python's order, before the first target is written.  [eval_order]: the source expressions a node list evaluates,
   in execution order.  Tie: IR of Lang.Transl vs IR of the real parser on generated programs; the order itself is
   observed on the firmware by the trace oracle (tuple assignments whose first and later elements call effectful helpers). *)
Theorem C01_tuple_rhs_evaluated_in_source_order : forall glob xs es s ns s',
  tr_tuple glob xs es s = Some (ns, s') -> through_tmps glob xs s = true ->
  exists tmps binds,
    ns = tmps ++ binds /\ length tmps = length xs /\
    eval_order tmps = map a_id (firstn (length xs) es) /\ eval_order binds = [] /\
    eval_order ns = map a_id (firstn (length xs) es).
Proof. exact tuple_order_tmps. Qed.
Print Assumptions C01_tuple_rhs_evaluated_in_source_order.

(* Declaration of all-new names at module level (no temporaries): the run-time right-hand sides are evaluated in source
   order; name-free constants become static initialisers. *)
Theorem C01_tuple_declaration_evaluated_in_source_order : forall xs es s ns s',
  tr_tuple true xs es s = Some (ns, s') -> through_tmps true xs s = false ->
  eval_order ns = map a_id (filter (fun e => negb (closed_const e)) (firstn (length xs) es)).
Proof. exact tuple_order_global. Qed.
Print Assumptions C01_tuple_declaration_evaluated_in_source_order.

(* non-vacuity: a, b, c = e5, e6, e7 with a, b declared and c new inside a block: three temporaries, order 5 6 7 *)
Example C01_tuple_order_nonvacuous :
  let s := declare [98] (declare [97] st0) in
  let e := fun id => {| a_id := id; a_ty := TyInt; a_const := false; a_fv := [] |} in
  through_tmps false [[97]; [98]; [99]] s = true /\
  exists ns s', tr_tuple false [[97]; [98]; [99]] [e 5; e 6; e 7] s = Some (ns, s') /\ eval_order ns = [5; 6; 7] /\
                length ns = 6%nat.
Proof. exact tuple_order_demo. Qed.
Print Assumptions C01_tuple_order_nonvacuous.

(* ---------------------------------------------------------------- layout noise (comment lines, blank lines, trailing comments) *)
From RV Require Import Lang.Lex Lang.Layout Lang.StmtLayout Proofs.StmtLayoutP.

(* The statement model works on statement TREES; the parser finds the blocks of a script by indentation (model of
   _collect_block / _collect_if_structure / _parse_simple_lines: Lang/Lex.v).  [stmts_of_lines] is the composition: lines ->
   block tree -> C01 statements (if / elif / else chains, while, for-range, simple statements; the recognisers of one
   comment-stripped line are parameters).  For EVERY layout inside the guard of the C07 round trip - comment-only lines at ANY
   column (0, the column of the enclosing header, deeper, ...), blank and blanks-only lines before any statement and before
   elif / else, trailing blanks or a trailing comment after any statement and any header, any indentation unit - the
   statements read from the lines are the statements of the skeleton: no statement leaves or enters a block, no else arm is
   lost, whatever junk lines stand inside the block. *)
Theorem C01_stmt_layout_noise_invisible : forall simple cond_of for_of u ns,
  layout_ok u ns = true ->
  stmts_of_lines simple cond_of for_of (render_list (ind_unit u) O ns)
  = stmts_of_trees simple cond_of for_of (map lerase ns).
Proof. exact stmts_of_layout. Qed.
Print Assumptions C01_stmt_layout_noise_invisible.

(* hence the IR the statement model produces (setup part + body of the main loop) is the same for any two layouts of a script *)
Theorem C01_stmt_ir_relayout_invariant : forall simple cond_of for_of u1 u2 pre1 pre2 main1 main2,
  layout_ok u1 pre1 = true -> layout_ok u2 pre2 = true ->
  layout_opt_ok u1 main1 = true -> layout_opt_ok u2 main2 = true ->
  map lerase pre1 = map lerase pre2 -> option_map (map lerase) main1 = option_map (map lerase) main2 ->
  ir_of_lines simple cond_of for_of (render_list (ind_unit u1) O pre1) (option_map (render_list (ind_unit u1) O) main1)
  = ir_of_lines simple cond_of for_of (render_list (ind_unit u2) O pre2) (option_map (render_list (ind_unit u2) O) main2).
Proof. exact ir_layout_invariant. Qed.
Print Assumptions C01_stmt_ir_relayout_invariant.

(* from noisy source LINES to the IR: an accepted script keeps every statement of its skeleton in its block and its phase
   (C01_no_silent_drop composed with the round trip) *)
Theorem C01_noisy_lines_keep_every_statement : forall simple cond_of for_of u pre main p m c,
  layout_ok u pre = true -> layout_ok u main = true ->
  stmts_of_trees simple cond_of for_of (map lerase pre) = Some p ->
  stmts_of_trees simple cond_of for_of (map lerase main) = Some m ->
  ir_of_lines simple cond_of for_of (render_list (ind_unit u) O pre) (Some (render_list (ind_unit u) O main)) = Some c ->
  skel_c (c_setup c) = skel_p p /\ skel_c (c_loop c) = skel_p m.
Proof. exact noisy_lines_keep_every_statement. Qed.
Print Assumptions C01_noisy_lines_keep_every_statement.

(* non-vacuity: `if x > 1:` with two statements and a statement after it; the noisy layout (11 lines) has a column-0 comment
   and a blank line INSIDE the block in front of its second statement, trailing comments on the header and on a statement:
   both layouts are inside the guard and are read as [if [a; b]; c]; the script in which b has left the block (what a parser
   reads that lets the dedented comment end the block) is a different statement list *)
Example C01_layout_noise_witness :
  layout_ok [32;32;32;32] lay_plain = true /\ layout_ok [32;32;32;32] lay_noisy = true
  /\ map lerase lay_plain = map lerase lay_noisy
  /\ length (render_list (ind_unit [32;32;32;32]) O lay_noisy) = 11%nat
  /\ demo_stmts (render_list (ind_unit [32;32;32;32]) O lay_noisy)
     = Some [PIf (demo_ann t_if) [PExprS (demo_ann t_a); PExprS (demo_ann t_b)] [] []; PExprS (demo_ann t_c)]
  /\ demo_stmts (render_list (ind_unit [32;32;32;32]) O lay_moved)
     = Some [PIf (demo_ann t_if) [PExprS (demo_ann t_a)] [] []; PExprS (demo_ann t_b); PExprS (demo_ann t_c)]
  /\ demo_stmts (render_list (ind_unit [32;32;32;32]) O lay_moved) <> demo_stmts (render_list (ind_unit [32;32;32;32]) O lay_noisy).
Proof. exact layout_noise_witness. Qed.
Print Assumptions C01_layout_noise_witness.

(* an if / elif / else chain with a while and a for-range inside, junk lines before elif / else and inside every block: assembled
   into one PIf with its arms; an else without its if is refused *)
Example C01_layout_chain_witness :
  layout_ok [32;32] lay_chain = true
  /\ demo_stmts (render_list (ind_unit [32;32]) O lay_chain)
     = Some [PIf (demo_ann t_if) [PExprS (demo_ann t_a)]
                 [(demo_ann t_elif, [PWhile (demo_ann t_while) [PExprS (demo_ann t_b)]])]
                 [PFor [107] (demo_ann t_for) [PExprS (demo_ann t_c); PExprS (demo_ann t_a)]];
             PExprS (demo_ann t_c)]
  /\ stmts_of_trees demo_simple demo_cond demo_for [SBlock Lex.KElse t_else [SLeaf t_a]] = None.
Proof. exact layout_chain_witness. Qed.
Print Assumptions C01_layout_chain_witness.
