(* C02 - Type inference is sound: no value is narrowed or re-typed on the device.
   Nothing but statements, closed by [exact], each followed by Print Assumptions.

   infer_s F A C G e        = _infer_expr_type(e, var_types=G, functions=F, ctx=C): Some (label, var_types afterwards) | None (ValueError)
   peval rho e              = what CPython evaluates e to in environment rho (Lang/PySem.v)
   repr t v                 = a C variable declared from label t holds the Python value v without narrowing
                              (int: int/bool; float: float/int/bool; bool: bool; String: str; list[t]: list of such)
   env_sound G rho          = every bound Python name holds a value its current label represents
   guard F A C G e          = the executable side conditions (Lang/InferGuard.v); every clause has a witness below
   merge_return_types       = _merge_return_types; override_return = the annotated-return override of _parse_function
   sub_ty                   = the order bool < int < float, String alone *)
From Coq Require Import ZArith QArith List Bool.
From RV Require Import Base.Wire Base.Text Lang.PyAst Lang.PySem Lang.Infer Lang.InferGuard Lang.InferSpec
  Lang.InferComp Lang.Decl Lang.DeclSpec Lang.FnSpec Lang.AliasSpec Lang.StmtRef Lang.CtlSpec Lang.CallFree Lang.FnProto
  Proofs.InferP Proofs.JoinP Proofs.DeclP Proofs.FnP Proofs.CompP Proofs.CtlP Proofs.DynP Proofs.FnProtoP Proofs.CallSiteP.
Import ListNotations.
Open Scope Z_scope.

(* ---------------------------------------------------------------- expressions *)

(* inside the guard the inferred label holds the value Python computes, and inference leaves var_types alone *)
Theorem C02_infer_sound_expr_partial :
  forall F A C G rho e t G1 v,
    env_sound G rho -> guard F A C G e = true ->
    infer_s F A C G e = Some (t, G1) -> peval rho e = Ok v ->
    repr t v /\ G1 = G.
Proof. exact infer_s_sound. Qed.
Print Assumptions C02_infer_sound_expr_partial.

Example C02_infer_sound_nonvacuous :
  env_sound demo_G demo_rho /\ guard [] [] None demo_G demo_e = true /\
  infer_s [] [] None demo_G demo_e = Some (TFloat, demo_G) /\
  peval demo_rho demo_e = Ok (VFloat (17 # 2)).
Proof. exact demo_nonvacuous. Qed.
Print Assumptions C02_infer_sound_nonvacuous.

(* a label that holds a value keeps holding it as the declared C type *)
Theorem C02_label_to_ctype : forall t v, repr t v -> crepr (cpp_type t) v.
Proof. exact repr_crepr. Qed.
Print Assumptions C02_label_to_ctype.

(* refuted at full strength: one witness per guard clause (label accepted, Python value not representable) *)
Theorem C02_infer_int_div_refuted : unsound_at [] [] (EBin Div (EInt 7) (EInt 2)).
Proof. exact int_div_unsound. Qed.
Print Assumptions C02_infer_int_div_refuted.

Theorem C02_infer_int_pow_refuted : unsound_at [] [] (EBin Pow (EInt 2) (EInt (-1))).
Proof. exact int_pow_unsound. Qed.
Print Assumptions C02_infer_int_pow_refuted.

Theorem C02_infer_abs_refuted : unsound_at [] [] (ECall n_abs [EFloat (-5 # 2)] []).
Proof. exact abs_unsound. Qed.
Print Assumptions C02_infer_abs_refuted.

Theorem C02_infer_max_refuted : unsound_at [] [] (ECall n_max [EInt 1; EFloat (5 # 2)] []).
Proof. exact max_unsound. Qed.
Print Assumptions C02_infer_max_refuted.

Theorem C02_infer_min_refuted : unsound_at [] [] (ECall n_min [EFloat (5 # 2); EInt 7] []).
Proof. exact min_unsound. Qed.
Print Assumptions C02_infer_min_refuted.

Theorem C02_infer_boolop_refuted : unsound_at [] [] (EBoolOp Or [EInt 0; EInt 5]).
Proof. exact boolop_unsound. Qed.
Print Assumptions C02_infer_boolop_refuted.

Theorem C02_infer_neg_bool_refuted : unsound_at [] [] (EUn USub (EBool true)).
Proof. exact neg_bool_unsound. Qed.
Print Assumptions C02_infer_neg_bool_refuted.

Theorem C02_infer_ifexp_refuted : unsound_at [] [] (EIfExp (EBool false) (EStr [97]) (EInt 1)).
Proof. exact ifexp_unsound. Qed.
Print Assumptions C02_infer_ifexp_refuted.

Theorem C02_infer_list_refuted : unsound_at [] [] (EList [EStr [97]; EInt 1]).
Proof. exact list_unsound. Qed.
Print Assumptions C02_infer_list_refuted.

Theorem C02_infer_subscript_refuted : unsound_at [] [] (ESubscript (EStr [97;98;99]) (EInt 0)).
Proof. exact subscript_unsound. Qed.
Print Assumptions C02_infer_subscript_refuted.

Theorem C02_infer_tuple_refuted : unsound_at [] [] (ETuple [EInt 1; EInt 2]).
Proof. exact tuple_unsound. Qed.
Print Assumptions C02_infer_tuple_refuted.

(* string contagion rewrites the label of a name that still holds a number: a * s with a = 2, s = "ab" *)
Theorem C02_infer_contagion_refuted :
  env_sound G_as rho_as /\
  exists G1, infer_s [] [] None G_as (EBin Mult (EName x_a) (EName x_s)) = Some (TString, G1) /\
             peval rho_as (EBin Mult (EName x_a) (EName x_s)) = Ok (VStr [97;98;97;98]) /\
             ~ env_sound G1 rho_as.
Proof. exact contagion_breaks_env. Qed.
Print Assumptions C02_infer_contagion_refuted.

(* all of these witnesses are excluded by the guard *)
Example C02_witnesses_outside_guard :
  forallb (fun e => negb (guard [] [] None [] e))
    [EBin Div (EInt 7) (EInt 2); EBin Pow (EInt 2) (EInt (-1)); ECall n_abs [EFloat (-5 # 2)] [];
     ECall n_max [EInt 1; EFloat (5 # 2)] []; ECall n_min [EFloat (5 # 2); EInt 7] [];
     EBoolOp Or [EInt 0; EInt 5]; EBoolOp And [EFloat (5 # 2); EFloat (3 # 2)]; EUn USub (EBool true);
     EIfExp (EBool false) (EStr [97]) (EInt 1); EList [EStr [97]; EInt 1];
     ESubscript (EStr [97;98;99]) (EInt 0); ETuple [EInt 1; EInt 2]] = true
  /\ guard [] [] None G_as (EBin Mult (EName x_a) (EName x_s)) = false.
Proof. exact witnesses_outside_guard. Qed.
Print Assumptions C02_witnesses_outside_guard.

(* ---------------------------------------------------------------- function results *)

(* the merged return label is an upper bound of every scalar return label ... *)
Theorem C02_join_is_upper_bound :
  forall types has_void t,
    merge_return_types types has_void = Some t -> forallb scalar types = true ->
    forall u, In u types -> sub_ty u t.
Proof. exact merge_ret_upper. Qed.
Print Assumptions C02_join_is_upper_bound.

(* ... and not more: it is one of them (void when there is no return value) *)
Theorem C02_join_is_least :
  forall types t,
    merge_return_types types false = Some t -> forallb scalar types = true ->
    t = TVoid /\ types = [] \/ In t types.
Proof. exact merge_ret_is_input. Qed.
Print Assumptions C02_join_is_least.

Example C02_join_nonvacuous :
  merge_return_types [TBool; TInt; TFloat; TInt] false = Some TFloat /\
  merge_return_types [TBool; TBool] false = Some TBool /\
  merge_return_types [TString; TInt] false = None.
Proof. vm_compute. repeat split; reflexivity. Qed.
Print Assumptions C02_join_nonvacuous.

(* list labels are joined with anything else to "int" *)
Theorem C02_join_list_refuted :
  merge_return_types [TList TInt; TInt] false = Some TInt /\
  merge_return_types [TList TInt; TList TFloat] false = Some TInt.
Proof. exact merge_ret_list_refuted. Qed.
Print Assumptions C02_join_list_refuted.

(* an annotation replaces the join: def f() -> int: return 2.5 is declared int *)
Theorem C02_annotated_return_refuted :
  merge_return_types [TFloat] false = Some TFloat /\
  override_return TFloat (Some TInt) 1 = TInt /\ ~ sub_ty TFloat TInt.
Proof. exact override_refuted. Qed.
Print Assumptions C02_annotated_return_refuted.

Theorem C02_unannotated_return_is_join : forall m n, override_return m None n = m.
Proof. exact override_none. Qed.
Print Assumptions C02_unannotated_return_is_join.

(* ---------------------------------------------------------------- declarations
   run_items C its   = the declaration bookkeeping of parse() on a program (Lang/Decl.v): globals, loop locals,
                       function variants with their declared C types
   flat_items p      = the program  x1 = e1; x2 = e2; ...  at column 0
   exec_flat [] p    = CPython's final environment of that program
   flat_guard C G p  = every e_i is inside [guard] and every assignment to a name infers the label the name already has *)

(* stable labels => every variable's declared C type holds the value Python leaves in it *)
Theorem C02_decl_covers_flat_partial :
  forall C p ps rho tr,
    flat_guard C [] p = true ->
    run_items C (flat_items p) = Some ps ->
    exec_flat [] p = Ok (rho, tr) ->
    forall x v, lookup x rho = Some v ->
      exists c, tlookup x (p_globals ps) = Some c /\ crepr c v.
Proof. exact decl_covers_flat. Qed.
Print Assumptions C02_decl_covers_flat_partial.

(* ... and so does every value ever assigned on the way (every reachable state) *)
Theorem C02_decl_covers_trace_partial :
  forall C p ps rho tr,
    flat_guard C [] p = true ->
    run_items C (flat_items p) = Some ps ->
    exec_flat [] p = Ok (rho, tr) ->
    forall x v, In (x, v) tr ->
      exists c, tlookup x (p_globals ps) = Some c /\ crepr c v.
Proof. exact decl_covers_trace. Qed.
Print Assumptions C02_decl_covers_trace_partial.

Example C02_decl_covers_nonvacuous :
  flat_guard None [] demo_flat = true /\
  (exists ps, run_items None (flat_items demo_flat) = Some ps /\
              p_globals ps = [(x_a, CInt); (x_c, CFloat); (x_s, CString)]) /\
  (exists rho tr, exec_flat [] demo_flat = Ok (rho, tr) /\ lookup x_c rho = Some (VFloat (15 # 2))).
Proof. exact demo_flat_nonvacuous. Qed.
Print Assumptions C02_decl_covers_nonvacuous.

(* first assignment fixes the C type: a = 1; a = 2.5 declares int a, the device stores 2 *)
Theorem C02_first_assignment_refuted :
  exists ps rho tr,
    run_items None (flat_items first_assign_prog) = Some ps /\
    exec_flat [] first_assign_prog = Ok (rho, tr) /\
    lookup x_a rho = Some (VFloat (5 # 2)) /\
    tlookup x_a (p_globals ps) = Some CInt /\
    ~ crepr CInt (VFloat (5 # 2)) /\
    c_store CInt (VFloat (5 # 2)) = Some (VInt 2).
Proof. exact first_assignment_narrows. Qed.
Print Assumptions C02_first_assignment_refuted.

(* the same through an augmented assignment: a = 1; a += 0.5 *)
Theorem C02_aug_assignment_refuted :
  exists ps,
    run_items None [IStmt (SAssign x_a (EInt 1)); IStmt (SAug x_a Add (EFloat (1 # 2)))] = Some ps /\
    tlookup x_a (p_globals ps) = Some CInt /\ tget (d_types (p_ctx ps)) x_a = TFloat.
Proof. exact aug_assignment_narrows. Qed.
Print Assumptions C02_aug_assignment_refuted.

(* a name first assigned inside a branch is hoisted with the type of the FIRST branch that assigns it:
   if c: x = 1  else: x = 2.5   declares int x *)
Theorem C02_branch_hoist_refuted :
  exists ps,
    run_items None [IStmt (SIf (BrCons (BCons (SAssign x_a (EInt 1)) BNil) BrNil)
                               (OSome (BCons (SAssign x_a (EFloat (5 # 2))) BNil)))] = Some ps /\
    p_globals ps = [(x_a, CInt)].
Proof. exact branch_hoist_narrows. Qed.
Print Assumptions C02_branch_hoist_refuted.

(* ---------------------------------------------------------------- function results, values
   ret_body rets          = a function body  [if c: return e | return e]*  (Lang/FnSpec.v)
   parse_function_core    = _parse_function for one call signature (Lang/Decl.v): the body is typed with the on-demand machinery
                            (a call of another helper under a new signature parses that variant in the middle of the body)
   ucf_block body         = the body calls no user function (Lang/CallFree.v): the reference expression semantics has no
                            user-function calls, so the value theorems are stated for such bodies
   fn_tenv cur params sg  = var_types inside that variant; fn_table = the functions table the body is typed with
   ret_guard              = every return expression is inside [guard] and has a scalar label *)

(* whichever return statement executes, the merged result type holds the value it returns *)
Theorem C02_result_covers_every_return_partial :
  forall (rets : list (ty * pval)) t,
    merge_return_types (map fst rets) false = Some t ->
    forallb scalar (map fst rets) = true ->
    (forall u v, In (u, v) rets -> repr u v) ->
    forall u v, In (u, v) rets -> crepr (cpp_type t) v.
Proof. exact result_covers_every_return. Qed.
Print Assumptions C02_result_covers_every_return_partial.

(* the same about the model of _parse_function: for the variant parsed for call signature sg, in any environment
   whose names hold values of their labels, the declared C return type holds the value of every return expression *)
Theorem C02_function_result_covers_partial :
  forall C fe cur name params rets sg fe1 p1 final d rho,
    ucf_block (ret_body rets) = true -> fe_err fe = false ->
    parse_function_core C fe cur name (mk_fsrc params None (ret_body rets)) (Some sg) = Some (fe1, p1, final) ->
    ret_guard (fn_table fe name) (fe_alias fe) C (fn_tenv cur params sg) rets = true ->
    env_sound (fn_tenv cur params sg) rho ->
    sig_lookup final (get_or [] (tlookup name (fe_defs fe1))) = Some d ->
    forall g e v, In (g, e) rets -> peval rho e = Ok v -> crepr (fd_ret d) v.
Proof. exact function_result_covers_dyn. Qed.
Print Assumptions C02_function_result_covers_partial.

(* def debounce(count, limit): if count < 0: return False ; if count >= limit: return True ; return count + 1
   called as debounce(3, 10): declared int, returns 4 *)
Example C02_function_result_nonvacuous :
  exists fe1 p1 d,
    parse_function_core None fenv0 empty_ctx z_f (mk_fsrc debounce_params None (ret_body debounce_rets)) (Some [TInt; TInt])
      = Some (fe1, p1, [TInt; TInt]) /\
    ucf_block (ret_body debounce_rets) = true /\
    ret_guard (fn_table fenv0 z_f) (fe_alias fenv0) None (fn_tenv empty_ctx debounce_params [TInt; TInt]) debounce_rets = true /\
    env_sound (fn_tenv empty_ctx debounce_params [TInt; TInt]) debounce_rho /\
    sig_lookup [TInt; TInt] (get_or [] (tlookup z_f (fe_defs fe1))) = Some d /\ fd_ret d = CInt /\
    peval debounce_rho (EBin Add (EName z_count) (EInt 1)) = Ok (VInt 4) /\
    peval debounce_rho (EBool true) = Ok (VBool true).
Proof. exact debounce_nonvacuous_dyn. Qed.
Print Assumptions C02_function_result_nonvacuous.

(* a parameter is declared from the label var_types holds for it at the END of the body:
   def f(p): q = p * 2 ; p = 1 ; return q   called as f(2.5) is emitted  float f(int p) *)
Theorem C02_param_relabel_refuted :
  exists ps d,
    run_items None relabel_prog = Some ps /\
    tlookup z_f (fe_calls (p_fe ps)) = Some [[TFloat]] /\
    selected_functions (p_fe ps) = [(z_f, d)] /\
    fd_params d = [(z_p, CInt)] /\ fd_ret d = CFloat /\
    ~ crepr CInt (VFloat (5 # 2)).
Proof. exact param_relabel. Qed.
Print Assumptions C02_param_relabel_refuted.

(* ---------------------------------------------------------------- hoisting, every scope *)

(* the C type of every declaration an if / elif / else hoists is the one of the label var_types holds for that
   name after the statement (the label it has in the first branch that assigns it) - for every statement, every
   nesting, every state of the function tables and WHATEVER the shared promotion table contained before *)
Theorem C02_branch_hoist_type_is_label :
  forall (S : Type) call C (s : S) st brs els s1 st1,
    run_stmt S call C s st (SIf brs els) = Some (s1, st1) ->
    exists hoisted,
      st_decls st1 = st_decls st ++ hoisted /\
      forall x c, In (x, c) hoisted -> c = cpp_type (tget (d_types (st_ctx st1)) x).
Proof. exact branch_hoist_type_is_label. Qed.
Print Assumptions C02_branch_hoist_type_is_label.

Example C02_branch_hoist_nonvacuous :
  exists st1,
    run_stmt unit (call_st [] []) None tt
      (mk_bstate (mk_dctx [] [] (Some [(z_x, CString)])) [] (mk_acc [] [] false))
      (if_else [SAssign z_x (EFloat (5 # 2))] [SAssign z_x (EFloat (1 # 2))]) = Some (tt, st1) /\
    st_decls st1 = [(z_x, CFloat)] /\ tget (d_types (st_ctx st1)) z_x = TFloat.
Proof. exact branch_hoist_nonvacuous. Qed.
Print Assumptions C02_branch_hoist_nonvacuous.

(* loops are different: _make_promotion_decls reads the shared table first, so a name first assigned inside a
   loop takes the C type a same-named variable was hoisted with by an if/else of ANOTHER scope:
   after a top-level hoist,  def f(p): if ..: out = 1 else: out = 2   then   def g(p): while ..: out = p * 0.5
   declares  int out  in g (label float, g(3) is 1.5 in Python, 1 on the device) ... *)
Theorem C02_loop_hoist_stale_table_refuted :
  exists ps d,
    run_items None stale_prog = Some ps /\
    In (z_g, d) (selected_functions (p_fe ps)) /\
    fd_params d = [(z_p, CInt)] /\ fd_ret d = CFloat /\
    tlookup z_out (fd_locals d) = Some CInt /\
    ~ crepr CInt (VFloat (3 # 2)) /\ c_store CInt (VFloat (3 # 2)) = Some (VInt 1).
Proof. exact loop_hoist_stale_table. Qed.
Print Assumptions C02_loop_hoist_stale_table_refuted.

(* ... and float out without the top-level hoist (no shared table) *)
Example C02_loop_hoist_fresh_table :
  exists ps d,
    run_items None fresh_prog = Some ps /\
    In (z_g, d) (selected_functions (p_fe ps)) /\
    tlookup z_out (fd_locals d) = Some CFloat.
Proof. exact loop_hoist_fresh_table. Qed.
Print Assumptions C02_loop_hoist_fresh_table.

(* ---------------------------------------------------------------- list comprehensions (Lang/InferComp.v)
   RComp t n elt          = [elt for t in range(n)] ; RPlain e = an ordinary expression
   infer_rhs_s            = _infer_expr_type on such a right-hand side: var_types[t] is set to "int" while the element
                            is inferred and restored (or popped) afterwards
   with_target G t body   = that bracket, as _infer_expr_type AND _to_c_expr apply it around their work on the element
   eval_rhs               = CPython: the target is bound to 0 .. n-1 in a scope of its own *)

(* inside the guard the label list[...] holds the list Python builds, and var_types is exactly what it was - whatever
   the target shadows (a float, a str, nothing), however the comprehensions are nested *)
Theorem C02_comprehension_sound_partial :
  forall F A C r G rho t G1 v,
    env_sound G rho -> rhs_guard F A C G r = true ->
    infer_rhs_s F A C G r = Some (t, G1) -> eval_rhs rho r = Ok v ->
    repr t v /\ G1 = G.
Proof. exact rhs_sound. Qed.
Print Assumptions C02_comprehension_sound_partial.

(* the bracket itself, for ANY work done inside it that leaves the var_types it is given alone *)
Theorem C02_target_bracket_restores :
  forall (X : Type) G t (body : tenv -> option (X * tenv)) x G1,
    (forall G0 y G2, body G0 = Some (y, G2) -> G2 = G0) ->
    with_target G t body = Some (x, G1) -> G1 = G.
Proof. exact with_target_frame. Qed.
Print Assumptions C02_target_bracket_restores.

(* ... in particular the one of _to_c_expr *)
Theorem C02_translation_keeps_var_types_partial :
  forall F A C r G G1, rhs_pure F A C G r = true -> toc_rhs_types F A C G r = Some G1 -> G1 = G.
Proof. exact toc_rhs_frame. Qed.
Print Assumptions C02_translation_keeps_var_types_partial.

Example C02_comprehension_nonvacuous :
  env_sound comp_G comp_rho /\ rhs_guard [] [] None comp_G demo_comp = true /\
  infer_rhs_s [] [] None comp_G demo_comp = Some (TList TFloat, comp_G) /\
  exists vs, eval_rhs comp_rho demo_comp = Ok (VList vs) /\ length vs = 3%nat.
Proof. exact comp_nonvacuous. Qed.
Print Assumptions C02_comprehension_nonvacuous.

(* t = 0.0 ; L = [t * 2 for t in range(4)] ; y = t * 2 : t keeps its label, y is declared float *)
Example C02_shadowing_target_keeps_label :
  exists ps, run_items None shadow_prog = Some ps /\
             tget (d_types (p_ctx ps)) z_t = TFloat /\
             p_globals ps = [(z_t, CFloat); (z_L, CList CInt); (z_y, CFloat)].
Proof. exact shadow_keeps_label. Qed.
Print Assumptions C02_shadowing_target_keeps_label.

(* ---------------------------------------------------------------- call sites and signature aliases *)

(* Whatever the function tables contain (whatever call sites were met before, in whatever order): once the variant
   for a requested signature sg has been parsed, a call with signature sg resolves - through the alias when the body
   widened a parameter - to the definition stored under the final signature, and the call expression is labelled with
   exactly that definition's return type.  Guard: sg has no alias yet (_ensure_function_variant only parses a
   signature whose canonical form has no definition). *)
Theorem C02_call_site_typed_from_its_variant_partial :
  forall C fe cur name src sg fe1 p1 final,
    ucf_block (fs_body src) = true -> fe_err fe = false ->
    sig_lookup sg (get_or [] (tlookup name (fe_alias fe))) = None ->
    parse_function_core C fe cur name src (Some sg) = Some (fe1, p1, final) ->
    resolve_alias (fe_alias fe1) name sg = final /\
    exists d t, sig_lookup final (get_or [] (tlookup name (fe_defs fe1))) = Some d /\
                resolve_call (fe_F fe1) (fe_alias fe1) name sg = Some t /\
                fd_ret d = cpp_type t.
Proof. exact call_site_typed_from_its_variant_dyn. Qed.
Print Assumptions C02_call_site_typed_from_its_variant_partial.

(* def blend(a, b): a = a + b ; return a   after blend(x, y) on floats: the (float, float) variant exists, and
   parsing the second call site blend(1, y) still labels it float *)
Example C02_call_site_nonvacuous :
  exists ps fe1 p1,
    blend_after_final_first = Some ps /\
    ucf_block (fs_body blend_src) = true /\ fe_err (p_fe ps) = false /\
    sig_lookup [TFloat; TFloat] (get_or [] (tlookup z_blend (fe_defs (p_fe ps)))) <> None /\
    sig_lookup [TInt; TFloat] (get_or [] (tlookup z_blend (fe_alias (p_fe ps)))) = None /\
    parse_function_core None (p_fe ps) (p_ctx ps) z_blend blend_src (Some [TInt; TFloat]) = Some (fe1, p1, [TFloat; TFloat]) /\
    resolve_call (fe_F fe1) (fe_alias fe1) z_blend [TInt; TFloat] = Some TFloat.
Proof. exact call_site_nonvacuous_dyn. Qed.
Print Assumptions C02_call_site_nonvacuous.

(* refuted: requested signatures that end on the same final signature share ONE stored definition - the one parsed
   last.  def blend(a, b): w = a * 2 ; a = a + b ; return a + w  with  p = blend(0.75, 0.25) ; q = blend(1, 0.25)
   is emitted once, float blend(float a, float b) with int w: the first call computes w = 1.5, the device stores 1 *)
Theorem C02_widened_variant_overwritten_refuted :
  exists ps d,
    run_items None overwritten_prog = Some ps /\
    selected_functions (p_fe ps) = [(z_blend, d)] /\
    fd_params d = [(z_a, CFloat); (z_b, CFloat)] /\ fd_ret d = CFloat /\
    tlookup z_w (fd_locals d) = Some CInt /\
    peval [(z_a, VFloat (3 # 4))] (EBin Mult (EName z_a) (EInt 2)) = Ok (VFloat (3 # 2)) /\
    ~ crepr CInt (VFloat (3 # 2)) /\ c_store CInt (VFloat (3 # 2)) = Some (VInt 1).
Proof. exact widened_variant_overwritten. Qed.
Print Assumptions C02_widened_variant_overwritten_refuted.

(* ... float w with the first call site alone *)
Example C02_single_call_variant :
  exists ps d,
    run_items None single_call_prog = Some ps /\
    selected_functions (p_fe ps) = [(z_blend, d)] /\ tlookup z_w (fd_locals d) = Some CFloat.
Proof. exact single_call_variant. Qed.
Print Assumptions C02_single_call_variant.

(* ---------------------------------------------------------------- control flow: every path, every scope
   exec_stmt / exec_block / exec_prog orc ...  = the reference (CPython) execution of the statement syntax of Lang/Decl.v
                            along the path the ORACLE orc picks (branch taken by every if, passes of every while, n of every
                            range(n)); it returns the trace of stores: TAssign x v (a value bound to x), TLoopVar i v (a value
                            of a for target, which lives in the `int i` of the for header), TReturn v (Lang/StmtRef.v)
   script_items pre main  = the script  <statements at column 0, with their nested blocks> ; while True: <main>
   script_guard C pre main = with L the table of DECLARED labels (for every name the label of the store - or hoist - that declares
                            it; Lang/StmtRef.v decl_tab): every store x = e (x op= e, x = [comprehension], each target of a tuple
                            assignment) has e inside the expression guard under the var_types G the transpiler holds at that line;
                            its value is covered - every name e reads has in G exactly its declared label (reads_ok: not narrowed,
                            not read before the line that types it), or typing e under L gives the same label; the label
                            inferred for e is L(x) when the store declares x and AT MOST L(x) (bool < int < float) when x is
                            declared already (a narrower value into a wider variable); x op= e has x declared; a name hoisted out
                            of an if or a loop ends its block with its declared label (hoist_ok, promo_ok) and has no other C type
                            in the shared promotion table; every declared label belongs to a name var_types finally knows
   ev_decl D e            = the store e is held by the C type D declares for its name *)

(* scripts with if / elif / else, while, for at any depth, then any number of passes of the main loop: on EVERY path, every value
   ever stored into a name is held by the C type the sketch declares for it - a global: since the repair of
   F-C05-looplocal-reinit / F-C01-loop-local-reinit a name first stored inside the main loop is a sketch global too
   ([p_loop], the locals of loop(), is empty for every program: C02_no_loop_locals) *)
Theorem C02_decl_covers_script_partial :
  forall C pre main ps orc orc1 rho tr ret,
    script_guard C pre main = true ->
    run_items C (script_items pre main) = Some ps ->
    exec_prog orc pre main = Ok (orc1, rho, tr, ret) ->
    Forall (ev_decl (p_loop ps ++ p_globals ps)) tr.
Proof. exact script_covers. Qed.
Print Assumptions C02_decl_covers_script_partial.

(* for every item list (statements at column 0, defs, the main loop): no declaration is a local of loop() *)
Theorem C02_no_loop_locals : forall C its ps, run_items C its = Some ps -> p_loop ps = [].
Proof. exact run_items_no_loop_locals. Qed.
Print Assumptions C02_no_loop_locals.

(* a = 3 ; if ..: x = a * 2.5 else: x = 0.5 ; k = 0 ; while ..: y = x + k ; k = k + 1 ; for i in range(..): z = i * 2
   while True: r = a + 1 ; if ..: w = r * 0.5 *)
Example C02_decl_covers_script_nonvacuous :
  script_guard None demo_pre demo_main = true /\
  (exists ps, run_items None (script_items demo_pre demo_main) = Some ps /\
              p_globals ps = [(w_a, CInt); (w_x, CFloat); (w_k, CInt); (w_y, CFloat); (w_z, CInt); (w_r, CInt); (w_w, CFloat)] /\
              p_loop ps = []) /\
  (exists rho tr, exec_prog demo_oracle demo_pre demo_main = Ok ([], rho, tr, false) /\
                  In (TAssign w_y (VFloat (17 # 2))) tr /\ In (TAssign w_w (VFloat 2)) tr /\ In (TLoopVar w_i (VInt 1)) tr).
Proof. exact demo_script_nonvacuous. Qed.
Print Assumptions C02_decl_covers_script_nonvacuous.

(* the boundary: the guard excludes the refuted shapes - a later store of a wider label, x op= e widening the label,
   branches that disagree, a name read while its label is below its declared one (flow-insensitive table), a name read
   before the line that types it *)
Example C02_script_guard_excludes_refuted_witnesses :
  forallb (fun p => negb (script_guard None p BNil))
          [first_assign_script; aug_script; branch_script; flow_script; early_read_script] = true.
Proof. exact script_guard_boundary. Qed.
Print Assumptions C02_script_guard_excludes_refuted_witnesses.

(* refuted: a name that is READ, in text order, before the line that types it is labelled int at that read:
   k = 0 ; while k < 2: (if k > 0: b = z) ; z = 2.5 ; k = k + 1   declares int b; on the second pass Python stores 2.5 *)
Theorem C02_read_before_typed_refuted :
  exists ps rho tr,
    run_items None (script_items early_read_script BNil) = Some ps /\
    exec_prog early_read_oracle early_read_script BNil = Ok ([], rho, tr, false) /\
    In (TAssign w_b (VFloat (5 # 2))) tr /\
    tlookup w_b (p_loop ps ++ p_globals ps) = Some CInt /\
    ~ crepr CInt (VFloat (5 # 2)) /\ c_store CInt (VFloat (5 # 2)) = Some (VInt 2).
Proof. exact read_before_typed. Qed.
Print Assumptions C02_read_before_typed_refuted.

(* the two halves of the proof, for every instance of the user-function step (S, call) that answers like a fixed function table:
   (M) the declaration bookkeeping keeps a block state well formed with respect to the declared labels L - every label in
       var_types is at most the declared one, labelled = declared, every labelled name is declared with the C type of its
       DECLARED label, nothing is declared twice;
   (S) on every path every stored value is held by the label L gives the name *)
Theorem C02_hoisting_keeps_declarations_coherent_partial :
  forall (S : Type) call C F A (Inv : S -> Prop),
    (forall d sp G f sg, Inv (fst sp) ->
       Inv (fst (fst (call d sp G f sg))) /\ snd (call d sp G f sg) = resolve_call F A f sg) ->
    forall x L outer base s st s1 st1,
      Inv s -> wf L outer base st -> gd_stmt S call C F A L s st x = true ->
      run_stmt S call C s st x = Some (s1, st1) ->
      Inv s1 /\ wf L outer base st1.
Proof. exact hoisting_keeps_declarations_coherent. Qed.
Print Assumptions C02_hoisting_keeps_declarations_coherent_partial.

Theorem C02_stored_values_within_declared_labels_partial :
  forall (S : Type) call C F A (Inv : S -> Prop),
    (forall d sp G f sg, Inv (fst sp) ->
       Inv (fst (fst (call d sp G f sg))) /\ snd (call d sp G f sg) = resolve_call F A f sg) ->
    forall x L outer base s st s1 st1 orc rho orc1 rho1 tr ret,
      Inv s -> wf L outer base st -> gd_stmt S call C F A L s st x = true ->
      run_stmt S call C s st x = Some (s1, st1) ->
      env_lab L rho -> exec_stmt orc rho x = Ok (orc1, rho1, tr, ret) ->
      env_lab L rho1 /\ Forall (ev_ok L (a_rets (st_acc st1))) tr.
Proof. exact stored_values_within_declared_labels. Qed.
Print Assumptions C02_stored_values_within_declared_labels_partial.

(* ---------------------------------------------------------------- function bodies, every shape
   fn_guard F A C cur params sg body = the same guard for the body parsed for call signature sg (declared labels: the labels
                            visible when the body starts, then the first label recorded for every new name), plus: every
                            parameter ends the body with the label of the signature (it is declared from that final label)
   fn_ev d outer e        = the store e is held by what the emitted variant d declares: a local (fd_locals), a parameter / global
                            (typed from the label it has when the body starts), the declared return type for a returned value *)
Theorem C02_function_body_covers_partial :
  forall C fe cur name params body sg fe1 p1 final d orc rho orc1 rho1 tr ret,
    ucf_block body = true -> fe_err fe = false ->
    parse_function_core C fe cur name (mk_fsrc params None body) (Some sg) = Some (fe1, p1, final) ->
    fn_guard (fn_table fe name) (fe_alias fe) C cur params sg body = true ->
    env_lab (d_types (fn_ctx cur params sg)) rho ->
    sig_lookup final (get_or [] (tlookup name (fe_defs fe1))) = Some d ->
    exec_block orc rho body = Ok (orc1, rho1, tr, ret) ->
    Forall (fn_ev d (lab_decls (d_types (fn_ctx cur params sg)))) tr /\
    (forall p c, In (p, c) (fd_params d) -> c = cpp_type (tget (d_types (fn_ctx cur params sg)) p)).
Proof. exact function_body_covers_dyn. Qed.
Print Assumptions C02_function_body_covers_partial.

(* def f(p, q): w = p * 2 ; if ..: return w ; for i in range(..): (if ..: return q + 0.5) ; w = w + i ; return w
   called as f(3, 0.5): float f(int p, float q) with int w; the path through the inner return yields 1.0 *)
Example C02_function_body_nonvacuous :
  exists fe1 d rho1 tr,
    parse_function_core None fenv0 fresh_cur w_x (mk_fsrc fparams None fbody) (Some fsig) = Some (fe1, None, fsig) /\
    ucf_block fbody = true /\
    fn_guard (fn_table fenv0 w_x) (fe_alias fenv0) None fresh_cur fparams fsig fbody = true /\
    env_lab (d_types (fn_ctx fresh_cur fparams fsig)) frho /\
    sig_lookup fsig (get_or [] (tlookup w_x (fe_defs fe1))) = Some d /\
    fd_ret d = CFloat /\ fd_locals d = [(w_w, CInt)] /\ fd_params d = [(w_p, CInt); (w_q, CFloat)] /\
    exec_block foracle frho fbody = Ok ([], rho1, tr, true) /\
    In (TReturn (VFloat 1)) tr /\ In (TAssign w_w (VInt 6)) tr.
Proof. exact demo_function_nonvacuous_dyn. Qed.
Print Assumptions C02_function_body_nonvacuous.

(* the boundary: the body of g of C02_loop_hoist_stale_table_refuted is outside the guard exactly when the shared promotion
   table holds another C type for its loop-hoisted local; a body that re-labels its parameter is outside *)
Example C02_fn_guard_boundary :
  fn_guard [(w_x, FVariants [])] [] None stale_cur [(w_p, None)] [TInt] gbody = false /\
  fn_guard [(w_x, FVariants [])] [] None fresh_cur [(w_p, None)] [TInt] gbody = true /\
  fn_guard [(w_x, FVariants [])] [] None fresh_cur [(w_p, None)] [TFloat] relabel_body = false.
Proof. exact fn_guard_boundary. Qed.
Print Assumptions C02_fn_guard_boundary.

(* ---------------------------------------------------------------- tuple assignment
   STuple xs es = x1, x2, ... = e1, e2, ...  (Lang/Decl.v do_tuple: at column 0 with every target new the names become globals
   directly; otherwise every value goes through a temporary `__tmp_assign_k`, recorded under [tmp_marker] in the label list).
   It is one more statement of the covering theorems above; its temporaries are typed like their targets: *)
Theorem C02_tuple_temporaries_typed_partial :
  forall (S : Type) call C F A (Inv : S -> Prop),
    (forall d sp G f sg, Inv (fst sp) ->
       Inv (fst (fst (call d sp G f sg))) /\ snd (call d sp G f sg) = resolve_call F A f sg) ->
    forall L s st xs es s1 st1,
      Inv s -> gd_stmt S call C F A L s st (STuple xs es) = true ->
      run_stmt S call C s st (STuple xs es) = Some (s1, st1) ->
      exists ts, a_labels (st_acc st1) = a_labels (st_acc st) ++ map (fun t => (tmp_marker, t)) ts ++ combine xs ts /\
                 Forall2 (fun x t => tlookup x L = Some t) xs ts.
Proof. exact tuple_temporaries_typed. Qed.
Print Assumptions C02_tuple_temporaries_typed_partial.

(* a, b = 1, 2.5 ; a, x = a + 1, b * 2 ; while ..: b, x = x, b *)
Example C02_tuple_nonvacuous :
  script_guard None demo_tuple_pre BNil = true /\
  (exists ps, run_items None (script_items demo_tuple_pre BNil) = Some ps /\
              p_globals ps = [(w_a, CInt); (w_b, CFloat); (w_x, CFloat)] /\
              map snd (filter (fun xt => text_eqb (fst xt) tmp_marker) (p_labels ps)) = [TInt; TFloat; TFloat; TFloat]) /\
  (exists rho tr, exec_prog [1]%nat demo_tuple_pre BNil = Ok ([], rho, tr, false) /\ In (TAssign w_b (VFloat 5)) tr).
Proof. exact demo_tuple_nonvacuous. Qed.
Print Assumptions C02_tuple_nonvacuous.

(* ---------------------------------------------------------------- helpers calling helpers
   The body of a function is typed by the same machinery as the top level (Lang/Decl.v parse_function_step): a call f(..) under
   a signature f has no variant for makes _ensure_function_variant parse that variant on the spot, in the middle of the caller's
   body; recursion is cut by _refreshing_functions (and, in the model, by fuel). *)

(* for a body that calls no user function the on-demand machinery is never entered: _parse_function is the static typing the
   function theorems above were first proved for - whatever is plugged in for the nested parses *)
Theorem C02_call_free_body_parses_statically :
  forall C pf fe cur name src forced,
    ucf_block (fs_body src) = true -> fe_err fe = false ->
    parse_function_step C pf fe cur name src forced = parse_function_static C fe cur name src forced.
Proof. exact parse_dynamic_is_static. Qed.
Print Assumptions C02_call_free_body_parses_statically.

(* the user-function step at ANY call site (column 0, a nested block, the body of another helper): a signature the callee has
   neither a variant nor an alias for is parsed on the spot, and the call expression is labelled with the return type of the
   definition that parse stores (callee bodies that call no user function) *)
Theorem C02_nested_call_typed_from_parsed_variant_partial :
  forall C k declared fe p G f sg src,
    tlookup f (fe_src fe) = Some src -> ucf_block (fs_body src) = true -> fe_err fe = false ->
    sig_lookup sg (get_or [] (tlookup f (fe_alias fe))) = None ->
    sig_lookup sg (get_or [] (tlookup f (fe_defs fe))) = None ->
    refreshing fe f sg = false ->
    forall fe2 p2 r,
      call_dyn_with (parse_function_fuel C (Datatypes.S k)) declared (fe, p) G f sg = ((fe2, p2), r) ->
      fe_err fe2 = false ->
      exists d t final, r = Some t /\ resolve_alias (fe_alias fe2) f sg = final /\
                        sig_lookup final (get_or [] (tlookup f (fe_defs fe2))) = Some d /\ fd_ret d = cpp_type t.
Proof. exact nested_call_typed_from_parsed_variant. Qed.
Print Assumptions C02_nested_call_typed_from_parsed_variant_partial.

(* def ident(p): return p ; def twice(p): return ident(p) + ident(p) ; x = 2.5 ; a = twice(x) ; b = twice(3) *)
Example C02_helper_calls_helper :
  exists ps,
    run_items None hh_prog = Some ps /\
    p_globals ps = [(w_x, CFloat); (w_a, CFloat); (w_b, CInt)] /\
    map (fun nd => (fst nd, fd_params (snd nd), fd_ret (snd nd))) (selected_functions (p_fe ps)) =
      [(n_ident, [(w_p, CInt)], CInt); (n_ident, [(w_p, CFloat)], CFloat);
       (n_twice, [(w_p, CFloat)], CFloat); (n_twice, [(w_p, CInt)], CInt)] /\
    tlookup n_ident (fe_calls (p_fe ps)) = Some [[TInt]; [TFloat]].
Proof. exact helper_calls_helper. Qed.
Print Assumptions C02_helper_calls_helper.

(* ---------------------------------------------------------------- narrower into wider
   The guards above admit a store of a NARROWER label into a variable declared from a wider one (a = 2.5 ; a = 1) - the case the
   declaration bookkeeping really handles: the declared C type holds the value (the covering theorems), and the C++ conversion
   of such a store is exact (below).  What is not sound is the label table afterwards: the name must not be read while its label
   is below its declared one (C02_script_guard_excludes_refuted_witnesses: flow_script). *)
(* a = 2.5 ; a = 1 ; a = 3.5 ; b = 3 ; if ..: a = b ; a = 0.5 ; x = a * 2   is inside the guard (a is declared float and receives
   ints at column 0 and inside a branch);  a = 2.5 ; a = 1 ; x = a  (a read while labelled int) is not *)
Example C02_narrower_into_wider_nonvacuous :
  script_guard None narrow_pre BNil = true /\ script_guard None narrow_read_pre BNil = false /\
  (exists ps, run_items None (script_items narrow_pre BNil) = Some ps /\
              p_globals ps = [(w_a, CFloat); (w_b, CInt); (w_x, CFloat)]) /\
  (exists rho tr, exec_prog [0; 0]%nat narrow_pre BNil = Ok ([], rho, tr, false) /\
                  In (TAssign w_a (VInt 1)) tr /\ In (TAssign w_a (VInt 3)) tr /\ In (TAssign w_x (VFloat 1)) tr).
Proof. exact narrowing_nonvacuous. Qed.
Print Assumptions C02_narrower_into_wider_nonvacuous.

Theorem C02_narrower_store_is_exact :
  forall u t v,
    scalar t = true -> sub_ty u t -> repr u v ->
    exists w, c_store (cpp_type t) v = Some w /\ crepr (cpp_type t) w /\ same_num v w.
Proof. exact narrower_store_exact. Qed.
Print Assumptions C02_narrower_store_is_exact.

(* ---------------------------------------------------------------- which variant a call executes (Lang/FnProto.v)
   The parser types every call site from the variant it specialised for the site's signature; which variant the firmware
   EXECUTES is decided by the C++ compiler: name lookup finds the declarations written above the call site (prototype
   block, then the definitions in emission order), overload resolution ranks the implicit conversions of the arguments.
   emit_sketch defs          = what emit() writes: one prototype per emitted function in front of the first body
   candidates sk s f         = the overload set of f at site s (InBody i: the body of the i-th definition; InMain: setup/loop)
   cxx_resolve sk s f args  = Some ps: the call executes the variant with parameter types ps; None: ambiguous / not viable
   call_guard fe f sg        = the variant the alias table resolves sg to is emitted and either has exactly the argument
                               types or wins overload resolution among all emitted variants (evaluated without a site) *)

(* the overload set does not depend on the place of the call: a caller emitted above the helper sees what setup() sees *)
Theorem C02_overload_set_is_the_same_at_every_call_site :
  forall defs s f, candidates (emit_sketch defs) s f = dedup (named f defs).
Proof. exact candidates_everywhere. Qed.
Print Assumptions C02_overload_set_is_the_same_at_every_call_site.

Theorem C02_resolution_is_position_independent :
  forall defs s1 s2 f args, cxx_resolve (emit_sketch defs) s1 f args = cxx_resolve (emit_sketch defs) s2 f args.
Proof. exact resolution_position_independent. Qed.
Print Assumptions C02_resolution_is_position_independent.

(* a call whose argument types are the parameter types of an emitted variant executes that variant - from any site,
   whatever other variants of any arity and type are emitted, in whatever order *)
Theorem C02_exact_call_reaches_its_variant :
  forall defs s f c, In (f, c) defs -> cxx_resolve (emit_sketch defs) s f (exact_args c) = Some c.
Proof. exact call_reaches_exact_variant. Qed.
Print Assumptions C02_exact_call_reaches_its_variant.

Theorem C02_exact_match_wins_overload_resolution :
  forall cands c, NoDup cands -> In c cands -> pick (exact_args c) cands = Some c.
Proof. exact pick_exact. Qed.
Print Assumptions C02_exact_match_wins_overload_resolution.

(* every call site resolves to the variant the parser specialised for it (the definition stored under the signature the alias
   table resolves the site's labels to), wherever the site is - under the guard, which covers the widened signatures
   (F-C02-widened-variant-overwritten region: an (int, float) request emitted as (float, float)) by running overload resolution *)
Theorem C02_call_site_reaches_the_specialised_variant_partial :
  forall fe f sg d s,
    call_guard fe f sg = true -> meant_variant fe f sg = Some d ->
    cxx_resolve (emit_sketch (emitted_decls fe)) s f (exact_args (map cpp_type sg)) = Some (params_of d).
Proof. exact call_site_reaches_meant_variant. Qed.
Print Assumptions C02_call_site_reaches_the_specialised_variant_partial.

(* def sc(x): return tw(x) + 1 ; def tw(v): return v * 2 ; x = 1.5 ; w = sc(x):  sc(float) is emitted above int tw(int) and
   float tw(float); inside its body both are candidates and the float argument reaches float tw(float) *)
Example C02_call_site_nonvacuous_forward :
  exists ps,
    run_items None fwd_overload_prog = Some ps /\
    emitted_decls (p_fe ps) = demo_decls /\
    call_guard (p_fe ps) n_tw [TFloat] = true /\ call_guard (p_fe ps) n_sc [TFloat] = true /\
    candidates (emit_sketch demo_decls) (InBody 0) n_tw = [[CInt]; [CFloat]] /\
    cxx_resolve (emit_sketch demo_decls) (InBody 0) n_tw [AT CFloat] = Some [CFloat].
Proof. exact fwd_overload_demo. Qed.
Print Assumptions C02_call_site_nonvacuous_forward.

(* the theorems rest on the prototype block declaring EVERY variant: with one prototype per function name the same call,
   written in the body emitted above the helper, silently converts 1.5 to 1 and runs int tw(int) (setup() does not notice);
   with no prototype block the call is ill-formed *)
Theorem C02_prototype_per_variant_is_necessary :
  candidates (emit_sketch_one_proto_per_name demo_decls) (InBody 0) n_tw = [[CInt]] /\
  cxx_resolve (emit_sketch_one_proto_per_name demo_decls) (InBody 0) n_tw [AT CFloat] = Some [CInt] /\
  c_store CInt (VFloat (3 # 2)) = Some (VInt 1) /\
  cxx_resolve (emit_sketch_one_proto_per_name demo_decls) InMain n_tw [AT CFloat] = Some [CFloat] /\
  cxx_resolve (emit_sketch_no_protos demo_decls) (InBody 0) n_tw [AT CFloat] = None.
Proof. exact one_proto_per_name_misroutes. Qed.
Print Assumptions C02_prototype_per_variant_is_necessary.

(* whatever the prototype block is, setup()/loop() see every prototype and every definition *)
Theorem C02_main_sees_every_declaration :
  forall protos defs f s, In s (candidates (mk_sketch protos defs) InMain f) <-> In (f, s) protos \/ In (f, s) defs.
Proof. exact main_sees_everything. Qed.
Print Assumptions C02_main_sees_every_declaration.

(* the boundary of the guard: a C++ double argument (float literal) is ambiguous between int and float variants
   (F-C06-overload-ambiguous), bool is promoted to int, int between float and bool is ambiguous, ... *)
Example C02_overload_resolution_boundary :
  pick [ADouble] [[CInt]; [CFloat]] = None /\
  pick [AT CBool] [[CInt]; [CFloat]] = Some [CInt] /\
  pick [AT CInt] [[CFloat]; [CBool]] = None /\
  pick [AT CInt] [[CFloat]] = Some [CFloat] /\
  pick [AT CInt; AT CFloat] [[CFloat; CFloat]; [CInt; CInt]] = None /\
  pick [AT CInt; AT CFloat] [[CFloat; CFloat]; [CInt; CFloat]] = Some [CInt; CFloat] /\
  pick [AT CString] [[CInt]; [CFloat]] = None /\
  pick [] [[]] = Some [].
Proof. exact overload_boundary. Qed.
Print Assumptions C02_overload_resolution_boundary.

(* a caller defined ABOVE its helper and called with its def-time signature keeps the typing of the def-time parse, when the
   helper had no source: def sc(x): return tw(x) + 1 ; def tw(v): return v * 0.5 ; w = sc(3) emits int sc(int) although
   tw(int) returns float: 2.5 in Python, 2 on the device (finding F-C02-forward-call-result-typed-int) *)
Theorem C02_forward_call_result_refuted :
  exists ps d e,
    run_items None fwd_stale_prog = Some ps /\
    In (n_sc, d) (selected_functions (p_fe ps)) /\ fd_params d = [(i_x, CInt)] /\ fd_ret d = CInt /\
    In (n_tw, e) (selected_functions (p_fe ps)) /\ fd_params e = [(i_v, CInt)] /\ fd_ret e = CFloat /\
    p_globals ps = [(i_w, CInt)] /\
    c_store CInt (VFloat (5 # 2)) = Some (VInt 2).
Proof. exact fwd_stale_result. Qed.
Print Assumptions C02_forward_call_result_refuted.

(* ---------------------------------------------------------------- which call sites are typed at all
   [S] / [call] = whatever the user-function step of _infer_expr_type threads and does (it records the call signature and has
   the variant for it parsed: _ensure_function_variant); the theorems hold for EVERY such step. *)

(* a call of a user function types its arguments, then takes the step with exactly their labels *)
Theorem C02_user_call_takes_the_variant_step :
  forall (S : Type) (call : S -> tenv -> ident -> list ty -> S * option ty) C s G h args kws ats G1 s1,
    tlookup h builtin_rets = None ->
    thread (infer S call C) s G args = Some (ats, G1, s1) ->
    infer S call C s G (ECall h args kws) =
      Some (match snd (call s1 G1 h ats) with Some t => t | None => TInt end, G1, fst (call s1 G1 h ats)).
Proof. exact user_call_takes_the_step. Qed.
Print Assumptions C02_user_call_takes_the_variant_step.

(* the same call nested in a builtin call (str / bool / abs / min / max / len / int / float ...): the builtin's fixed result
   label is returned only AFTER the argument has been typed, so the step is taken with the same labels and the same state *)
Theorem C02_call_nested_in_a_builtin_takes_the_variant_step :
  forall (S : Type) (call : S -> tenv -> ident -> list ty -> S * option ty) C s G b t kwb h args kws ats G1 s1,
    tlookup b builtin_rets = Some t ->
    tlookup h builtin_rets = None ->
    thread (infer S call C) s G args = Some (ats, G1, s1) ->
    infer S call C s G (ECall b [ECall h args kws] kwb) = Some (t, G1, fst (call s1 G1 h ats)).
Proof. exact builtin_around_user_call_takes_the_step. Qed.
Print Assumptions C02_call_nested_in_a_builtin_takes_the_variant_step.

Theorem C02_call_nested_first_in_a_two_argument_builtin :
  forall (S : Type) (call : S -> tenv -> ident -> list ty -> S * option ty) C s G b t kwb h args kws ats G1 s1 e2 t2 G2 s2,
    tlookup b builtin_rets = Some t ->
    tlookup h builtin_rets = None ->
    thread (infer S call C) s G args = Some (ats, G1, s1) ->
    infer S call C (fst (call s1 G1 h ats)) G1 e2 = Some (t2, G2, s2) ->
    infer S call C s G (ECall b [ECall h args kws; e2] kwb) = Some (t, G2, s2).
Proof. exact builtin_around_user_call_first_of_two. Qed.
Print Assumptions C02_call_nested_first_in_a_two_argument_builtin.

(* non-vacuity: str(dbl(x)) with x a float records the signature (float) of dbl *)
Example C02_call_nested_in_a_builtin_nonvacuous :
  infer _ rec_call None [] G_x_float site_builtin = Some (TString, G_x_float, [(n_dbl, [TFloat])]).
Proof. exact builtin_site_records. Qed.
Print Assumptions C02_call_nested_in_a_builtin_nonvacuous.

(* refuted for comparison operands (and `not`, and / or): they are never typed, whatever they contain; `flag = dbl(x) > 4`
   with x a float records no signature of dbl, no float variant exists, C++ converts 2.5 to the int parameter
   (finding F-C02-call-site-never-typed) *)
Theorem C02_compare_operands_never_typed :
  forall (S : Type) (call : S -> tenv -> ident -> list ty -> S * option ty) C s G l ops rs,
    infer S call C s G (ECompare l ops rs) = Some (TBool, G, s).
Proof. exact compare_never_types_its_operands. Qed.
Print Assumptions C02_compare_operands_never_typed.

Theorem C02_not_and_or_operands_never_typed :
  forall (S : Type) (call : S -> tenv -> ident -> list ty -> S * option ty) C s G,
    (forall a, infer S call C s G (EUn Not a) = Some (TBool, G, s)) /\
    (forall op vs, infer S call C s G (EBoolOp op vs) = Some (TBool, G, s)).
Proof. exact not_boolop_never_typed. Qed.
Print Assumptions C02_not_and_or_operands_never_typed.

Theorem C02_call_site_in_a_comparison_refuted :
  infer _ rec_call None [] G_x_float (ECall n_dbl [EName n_x] []) = Some (TInt, G_x_float, [(n_dbl, [TFloat])]) /\
  infer _ rec_call None [] G_x_float site_compare = Some (TBool, G_x_float, []).
Proof. exact compare_site_records_nothing. Qed.
Print Assumptions C02_call_site_in_a_comparison_refuted.
