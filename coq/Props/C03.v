(* C03 - transpile-time evaluation (constant folding / propagation) never changes meaning.
   Nothing but statements, closed by [exact], each followed by Print Assumptions. *)
From Coq Require Import ZArith QArith List Bool.
From RV Require Import Base.Wire Base.Text Lang.PyAst Lang.PySem Gen.SafeCasts Lang.ConstEval Lang.ConstEnv
  Lang.ConstFlow Lang.ConstTuple Lang.ConstNodes Lang.ConstCall Proofs.ConstEvalP Proofs.ConstEnvP Proofs.ConstEnvFreshP Proofs.ConstEnvSplitP
  Proofs.ConstFlowP Proofs.ConstTupleP Proofs.ConstNodesP Proofs.ConstCallP.
Import ListNotations.
Open Scope Z_scope.

(* whatever _eval_const returns is what CPython computes, in every run-time environment that extends the
   known bindings - inside the guard [in_guard] (no one-argument max/min)
   and when the script does not rebind a builtin the evaluator interprets *)
Theorem C03_eval_const_sound_partial : forall e cenv rho v,
  agrees cenv rho -> unshadowed rho -> in_guard cenv e = true ->
  eval_const cenv e = CVal v -> peval rho e = Ok v.
Proof. exact eval_const_sound. Qed.
Print Assumptions C03_eval_const_sound_partial.

Example C03_sound_nonvacuous :
  let c := [([120], Known (VInt 5)); ([115], Known (VStr [97;98])); ([121], Marker)] in
  let rho := [([120], VInt 5); ([115], VStr [97;98]); ([121], VInt 9)] in
  let e := EIfExp (ECompare (EName [120]) [PyAst.Lt; PyAst.LtE] [EInt 7; ECall n_len [EName [115]] []])
                  (EInt 0) (EBin FloorDiv (ECall n_max [EName [120]; EFloat (5#2)] []) (EInt 2)) in
  agrees c rho /\ unshadowed rho /\ in_guard c e = true /\ eval_const c e = CVal (VInt 2).
Proof.
  cbv zeta. split; [|split; [|split; reflexivity]].
  - intros x v H. cbn in H. cbn.
    destruct (text_eqb x [120]); [inversion H; reflexivity|].
    destruct (text_eqb x [115]); [inversion H; reflexivity|].
    destruct (text_eqb x [121]); discriminate.
  - intros f H. cbn in H.
    repeat match goal with H : _ \/ _ |- _ => destruct H as [H|H] end; subst; try reflexivity; contradiction.
Qed.
Print Assumptions C03_sound_nonvacuous.

(* forced guard clauses, each with its witness *)
Theorem C03_minmax_single_refuted :
  exists e v, eval_const [] e = CVal v /\ peval [] e = Ok (VInt 3) /\ v <> VInt 3.
Proof. exact minmax_single_refuted. Qed.
Print Assumptions C03_minmax_single_refuted.

(* unary plus is Python's since the repair of F-C03-unary-plus-identity (`return +v`): replaces C03_uadd_identity_refuted;
   the unary-plus clause of in_guard is gone *)
Theorem C03_uadd_is_python :
  (forall c a v, eval_const c a = CVal v -> eval_const c (EUn UAdd a) = lift (py_un UAdd v)) /\
  eval_const [] e_uadd_bool = CVal (VInt 1) /\ peval [] e_uadd_bool = Ok (VInt 1) /\
  eval_const [] (EUn UAdd (EStr [97;98])) = CFail KType /\ peval [] (EUn UAdd (EStr [97;98])) = Err TypeErr.
Proof. exact uadd_is_python. Qed.
Print Assumptions C03_uadd_is_python.

Theorem C03_shadowed_builtin_refuted :
  exists e c rho v, agrees c rho /\ in_guard c e = true /\ eval_const c e = CVal v /\ peval rho e <> Ok v.
Proof. exact shadowed_builtin_refuted. Qed.
Print Assumptions C03_shadowed_builtin_refuted.

(* what the _resolve_*_arg call sites fold (name-free expressions) does not depend on the environment,
   provided no variable is named like one of _SAFE_NAME_REFERENCES *)
Theorem C03_namefree_closed : forall e cenv,
  has_name e = false -> binds_safe_name cenv = false -> eval_const cenv e = eval_const [] e.
Proof. exact namefree_closed. Qed.
Print Assumptions C03_namefree_closed.

Theorem C03_safe_name_variable_refuted :
  exists e c v, has_name e = false /\ eval_const c e = CVal v /\ eval_const [] e = CFail KValue.
Proof. exact safe_name_variable_refuted. Qed.
Print Assumptions C03_safe_name_variable_refuted.

(* hence the constant a _resolve_numeric_arg / _resolve_bool_arg call site (pins, delays, counts, flags) bakes in is the
   value of the argument expression in EVERY run-time environment, i.e. on every path - inside in_guard *)
Theorem C03_site_numeric_sound_partial : forall cenv e rho z,
  binds_safe_name cenv = false -> unshadowed rho -> in_guard [] e = true ->
  resolve_numeric cenv e = Folded z ->
  exists v, peval rho e = Ok v /\
            match v with VBool b => z = (if b then 1 else 0) | VInt n => z = n | VFloat q => z = qtrunc q | _ => False end.
Proof. exact site_numeric_sound. Qed.
Print Assumptions C03_site_numeric_sound_partial.

Theorem C03_site_bool_sound_partial : forall cenv e rho b,
  binds_safe_name cenv = false -> unshadowed rho -> in_guard [] e = true ->
  resolve_bool cenv e = Folded b ->
  exists v, peval rho e = Ok v /\ is_numv v = true /\ b = truthy v.
Proof. exact site_bool_sound. Qed.
Print Assumptions C03_site_bool_sound_partial.

Example C03_site_sound_nonvacuous :
  resolve_numeric [([120], Known (VInt 9))] (EBin Mult (EInt 250) (EBin Add (EInt 1) (EInt 1))) = Folded 500 /\
  resolve_numeric [([120], Known (VInt 9))] (EBin Mult (EName [120]) (EInt 2)) = Fallback.
Proof. exact site_sound_example. Qed.
Print Assumptions C03_site_sound_nonvacuous.

(* len(...) folded by _literal_length is the length Python computes, if the argument has a value at all *)
Theorem C03_literal_length_sound : forall cenv rho e n v,
  agrees cenv rho -> literal_length cenv e = Some n -> peval rho e = Ok v -> py_call n_len [v] = Ok (VInt n).
Proof. exact literal_length_sound. Qed.
Print Assumptions C03_literal_length_sound.

(* ---- the environment across statements.  The witnesses of the findings F-C03-shared-list-append,
   -stale-reassign-in-branch (= -stale-after-try: a try body is a branch that runs), -stale-in-loop,
   -remove-unknown-pops-first, -stale-glyph-row, after the repair (fix: child scopes copy the tracked lists; names written
   in a block are forgotten after it and, for a loop, before it; append / remove with a run-time argument make the list
   a run-time value): on EVERY path the firmware outputs what Python outputs, or the script is rejected (flash_pattern
   and glyph need a constant).  These replace the theorems C03_shared_list_refuted, C03_stale_len_refuted,
   C03_stale_loop_refuted, C03_remove_unknown_refuted, C03_stale_glyph_refuted; they are instances of
   C03_env_fresh_partial below, spelled out *)
Theorem C03_shared_list_repaired :
  firmware_outputs w_shared [0%nat] = None /\ firmware_outputs w_shared [1%nat] = None /\ tblock [] w_shared [] [] = None /\
  is_fresh w_shared_len = true /\
  firmware_outputs w_shared_len [0%nat] = Some [VList [VInt 1; VInt 0]; VInt 2; VInt 2] /\
  python_outputs w_shared_len [0%nat] = Some [VList [VInt 1; VInt 0]; VInt 2; VInt 2] /\
  firmware_outputs w_shared_len [1%nat] = Some [VList [VInt 1; VInt 0]; VInt 3; VList [VInt 1; VInt 0; VInt 1]; VInt 3] /\
  python_outputs w_shared_len [1%nat] = Some [VList [VInt 1; VInt 0]; VInt 3; VList [VInt 1; VInt 0; VInt 1]; VInt 3].
Proof. exact shared_list_repaired. Qed.
Print Assumptions C03_shared_list_repaired.

Theorem C03_stale_len_repaired :
  is_fresh w_stale = true /\
  firmware_outputs w_stale [1%nat] = Some [VInt 6] /\ python_outputs w_stale [1%nat] = Some [VInt 6] /\
  firmware_outputs w_stale [0%nat] = Some [VInt 3] /\ python_outputs w_stale [0%nat] = Some [VInt 3] /\
  option_map (fun r => match r with (_, _, res, _) => res end) (tblock [] w_stale [] []) =
    Some [SAssign n_s (EStr [97;98;99]); SIf [SAssign n_s (EStr [97;98;99;100;101;102])] []; SObs (OLen n_s)].
Proof. exact stale_len_repaired. Qed.
Print Assumptions C03_stale_len_repaired.

Theorem C03_stale_loop_repaired :
  is_fresh w_loop = true /\
  firmware_outputs w_loop [2%nat] = Some [VInt 2; VInt 4; VInt 4] /\ python_outputs w_loop [2%nat] = Some [VInt 2; VInt 4; VInt 4] /\
  firmware_outputs w_loop [0%nat] = Some [VInt 2] /\ python_outputs w_loop [0%nat] = Some [VInt 2].
Proof. exact stale_loop_repaired. Qed.
Print Assumptions C03_stale_loop_repaired.

Theorem C03_remove_unknown_repaired :
  firmware_outputs w_remove [] = None /\ python_outputs w_remove [] = Some [VList [VInt 1]] /\
  is_fresh w_remove_len = true /\
  firmware_outputs w_remove_len [] = Some [VInt 1; VList [VInt 1]] /\ python_outputs w_remove_len [] = Some [VInt 1; VList [VInt 1]].
Proof. exact remove_unknown_repaired. Qed.
Print Assumptions C03_remove_unknown_repaired.

(* a scalar reassigned in a branch no longer reaches an LCD glyph bitmap with its stale value *)
Theorem C03_stale_glyph_repaired :
  firmware_outputs w_glyph [1%nat] = None /\ firmware_outputs w_glyph [0%nat] = None /\
  is_fresh w_glyph_in = true /\
  firmware_outputs w_glyph_in [1%nat] = Some [VTuple [VInt 2; VInt 0; VInt 0; VInt 0; VInt 0; VInt 0; VInt 0; VInt 0]] /\
  python_outputs w_glyph_in [1%nat] = Some [VTuple [VInt 2; VInt 0; VInt 0; VInt 0; VInt 0; VInt 0; VInt 0; VInt 0]] /\
  firmware_outputs w_glyph_in [0%nat] = Some [VTuple [VInt 1; VInt 0; VInt 0; VInt 0; VInt 0; VInt 0; VInt 0; VInt 0]] /\
  python_outputs w_glyph_in [0%nat] = Some [VTuple [VInt 1; VInt 0; VInt 0; VInt 0; VInt 0; VInt 0; VInt 0; VInt 0]].
Proof. exact stale_glyph_repaired. Qed.
Print Assumptions C03_stale_glyph_repaired.

(* THE simulation theorem.  Its guard - the flag [is_fresh] of the environment model - no longer says anything about
   where a name is written: what is left are the side conditions of single statements (no variable named like a builtin
   the evaluator interprets; every expression the evaluator folds inside [in_guard]: no one-argument max / min; a remove
   with a constant argument finds that constant in the tracked list - otherwise Python raises at run time).
   Inside it the residual program with its baked-in constants produces, on EVERY control-flow path (oracle [orc]:
   branches taken or not, loops run any number of times), exactly the observations of the source program under the
   reference Python semantics, whenever Python defines them - whatever the branches and loop bodies assign, append or
   remove *)
Theorem C03_env_fresh_partial : forall p orc out,
  is_fresh p = true -> python_outputs p orc = Some out -> firmware_outputs p orc = Some out.
Proof. exact env_fresh. Qed.
Print Assumptions C03_env_fresh_partial.

(* the invariant behind it, as the property states it: at every program point an execution reaches, everything the
   constant environment knows is true of the run-time state (hence every fold through it - also len(name) inside a
   translated right-hand side, C03_literal_length_sound - bakes in the run-time value) *)
Theorem C03_env_agrees : forall p orc te st res rho out orc',
  tblock [] p [] [] = Some (te, st, res, true) -> rblock p orc [] = Some (rho, out, orc') -> agrees (view st te) rho.
Proof. exact env_agrees. Qed.
Print Assumptions C03_env_agrees.

Example C03_env_fresh_nonvacuous :
  is_fresh w_fresh = true /\
  python_outputs w_fresh [1%nat; 2%nat] = Some [VInt 3; VInt 3; VInt 3; VInt 3; VList [VInt 1; VInt 0; VInt 1]] /\
  python_outputs w_fresh [0%nat; 0%nat] = Some [VInt 2; VInt 3; VList [VInt 1; VInt 0; VInt 1]].
Proof. exact fresh_nonvacuous. Qed.
Print Assumptions C03_env_fresh_nonvacuous.

(* the witnesses of the repaired findings that the transpiler still accepts are inside that guard *)
Theorem C03_witnesses_inside_guard :
  is_fresh w_shared_len = true /\ is_fresh w_stale = true /\ is_fresh w_loop = true /\ is_fresh w_remove_len = true /\
  is_fresh w_glyph_in = true.
Proof. exact witnesses_inside_guard. Qed.
Print Assumptions C03_witnesses_inside_guard.

(* module level: the first assignment of a name declares a C++ global, whose initialiser runs BEFORE setup().  The
   transpiler hoists the right-hand side into the initialiser only when it is constant AND name-free
   (_handle_assignment_ast: `if not is_const or expr_uses_names: default value + run-time assignment`).
   [sketch_outputs]: static initialisers first, in declaration order, then the residual body of setup().
   Inside the guard [split_ok] = is_fresh and: no variable named like a builtin the evaluator interprets, every hoisted
   expression inside in_guard, no hoisted name written by an earlier statement (a name used earlier as a for-loop
   variable) - the sketch produces on every control-flow path the observations (run-time values of variables,
   folded lengths, flash patterns, glyph rows) of the source program under the reference Python semantics *)
Theorem C03_global_split_partial : forall p orc out,
  split_ok p = true -> python_outputs p orc = Some out -> sketch_outputs p orc = Some out.
Proof. exact global_split_sound. Qed.
Print Assumptions C03_global_split_partial.

(* what is hoisted has, in EVERY run-time environment (hence at every program point, and before setup()), the value
   the evaluator found *)
Theorem C03_static_initialiser_closed : forall p te st gs body f x e rho,
  ttop p [] [] [] = Some (te, st, gs, body, f, true) -> In (x, e) (statics gs) -> unshadowed rho ->
  exists v, eval_const [] e = CVal v /\ peval rho e = Ok v.
Proof. exact static_initialiser_closed. Qed.
Print Assumptions C03_static_initialiser_closed.

Theorem C03_split_ok_is_fresh : forall p, split_ok p = true -> is_fresh p = true.
Proof. exact split_ok_fresh. Qed.
Print Assumptions C03_split_ok_is_fresh.

(* the name-free test is forced: hoisting every constant right-hand side (base = 200; base = 350; period = base * 2)
   initialises period from the INITIAL value of base *)
Theorem C03_hoist_through_names_refuted :
  sketch_outputs_gen false w_retune [] = Some [VInt 400] /\ python_outputs w_retune [] = Some [VInt 700] /\
  sketch_outputs w_retune [] = Some [VInt 700] /\ split_ok w_retune = true.
Proof. exact hoist_through_names_refuted. Qed.
Print Assumptions C03_hoist_through_names_refuted.

Example C03_global_split_nonvacuous :
  split_ok w_split = true /\
  python_outputs w_split [1%nat] = Some [VInt 706; VInt 350; VInt 2] /\
  python_outputs w_split [0%nat] = Some [VInt 705; VInt 350; VInt 2] /\
  match ttop w_split [] [] [] with
  | Some (_, _, gs, body, _, _) =>
      map fst (statics gs) = [n_base; n_s] /\ length body = 8%nat /\ length gs = 4%nat
  | None => False end.
Proof. exact split_nonvacuous. Qed.
Print Assumptions C03_global_split_nonvacuous.

(* ---- if / elif / else chains, sibling branches (what the flow guard C03_flow_partial used to single out is now inside
   C03_env_fresh_partial): the first branch re-assigns a string and a list that the later branches fold - from the
   snapshot; after the chain the string is a run-time value; all three paths *)
Example C03_chain_nonvacuous :
  is_fresh w_chain = true /\
  python_outputs w_chain [1%nat] = Some [VList [VInt 1; VInt 1; VInt 128; VInt 0]; VInt 10; VStr [111;118;101;114;104;101;97;116;101;100]] /\
  python_outputs w_chain [0%nat; 1%nat] = Some [VList [VInt 1; VInt 0; VInt 1; VInt 0]; VInt 7; VStr [119;97;114;109;105;110;103]] /\
  python_outputs w_chain [0%nat; 0%nat] = Some [VList [VInt 1; VInt 0; VInt 1; VInt 0]; VInt 4; VStr [105;100;108;101]] /\
  is_fresh (w_chain ++ [SObs (OLen n_msg)]) = true /\
  firmware_outputs (w_chain ++ [SObs (OLen n_msg)]) [1%nat] = python_outputs (w_chain ++ [SObs (OLen n_msg)]) [1%nat] /\
  firmware_outputs (w_chain ++ [SObs (OLen n_msg)]) [0%nat; 1%nat] = python_outputs (w_chain ++ [SObs (OLen n_msg)]) [0%nat; 1%nat] /\
  python_outputs (w_chain ++ [SObs (OLen n_msg)]) [0%nat; 1%nat] =
    Some [VList [VInt 1; VInt 0; VInt 1; VInt 0]; VInt 7; VStr [119;97;114;109;105;110;103]; VInt 7].
Proof. exact chain_nonvacuous. Qed.
Print Assumptions C03_chain_nonvacuous.

(* every branch works on its own copy of the tracked lists: a list appended in the first branch is not seen by the
   sibling branch (replaces C03_sibling_list_refuted) *)
Theorem C03_sibling_list_repaired :
  firmware_outputs w_sibling_list [0%nat] = Some [VList [VInt 1; VInt 0]] /\
  python_outputs w_sibling_list [0%nat] = Some [VList [VInt 1; VInt 0]] /\ is_fresh w_sibling_list = true.
Proof. exact sibling_list_repaired. Qed.
Print Assumptions C03_sibling_list_repaired.

(* ---- function definitions: the body is parsed once, at the def, with every formal argument bound to a run-time
   marker - whatever module-level constant has the same name - and with every name the script binds at more than one
   site unknown; it runs at the call.  Inside the guard def_ok (the single-statement side conditions of the three
   blocks; no formal argument named like a builtin the evaluator interprets - nothing about what the module re-assigns
   between the def and the call any more) the call produces, FOR EVERY ARGUMENT VALUE and on every path, the
   observations Python produces.  [post]: the module statements after the call (they count as binding sites) *)
Theorem C03_def_partial : forall prefix ps body mid post vals orc outs,
  def_ok prefix ps body mid post = true ->
  python_call_outputs prefix ps body mid vals orc = Some outs ->
  firmware_call_outputs prefix ps body mid post vals orc = Some outs.
Proof. exact def_sound. Qed.
Print Assumptions C03_def_partial.

Example C03_def_nonvacuous :
  def_ok w_def_prefix [n_msg] w_def_body [SAssign n_v (EInt 1)] [] = true /\
  python_call_outputs w_def_prefix [n_msg] w_def_body [SAssign n_v (EInt 1)] [VStr [97;98;99;100;101;102;103]] [] =
    Some ([], [VInt 7; VInt 2; VInt 1]) /\
  python_call_outputs w_def_prefix [n_msg] w_def_body [SAssign n_v (EInt 1)] [VList [VInt 1]] [] = Some ([], [VInt 1; VInt 2; VInt 1]) /\
  option_map (fun r => match r with (_, rb, _) => rb end) (tdef w_def_prefix [n_msg] w_def_body [SAssign n_v (EInt 1)] []) =
    Some [SObs (OLen n_msg); SEmit (VInt 2); SAssign n_q (EStr [120]); SEmit (VInt 1)].
Proof. exact def_nonvacuous. Qed.
Print Assumptions C03_def_nonvacuous.

(* s = 'ab'; def f(q): mon.write(len(s)); s = 'abcdef'; f(0)  (finding F-C03-def-time-global) prints 6, as Python: the
   body reads the length at run time because the script binds s twice (replaces C03_def_time_global_refuted) *)
Theorem C03_def_time_global_repaired :
  firmware_call_outputs w_def_prefix [n_q] [SObs (OLen n_s)] [SAssign n_s (EStr [97;98;99;100;101;102])] [] [VInt 0] [] = Some ([], [VInt 6]) /\
  python_call_outputs w_def_prefix [n_q] [SObs (OLen n_s)] [SAssign n_s (EStr [97;98;99;100;101;102])] [VInt 0] [] = Some ([], [VInt 6]) /\
  def_ok w_def_prefix [n_q] [SObs (OLen n_s)] [SAssign n_s (EStr [97;98;99;100;101;102])] [] = true /\
  option_map (fun r => match r with (_, rb, _) => rb end)
    (tdef w_def_prefix [n_q] [SObs (OLen n_s)] [SAssign n_s (EStr [97;98;99;100;101;102])] []) = Some [SObs (OLen n_s)] /\
  option_map (fun r => match r with (_, rb, _) => rb end)
    (tdef w_def_prefix [n_q] [SObs (OLen n_s)] [] [SAssign n_s (EStr [97;98;99;100;101;102])]) = Some [SObs (OLen n_s)] /\
  option_map (fun r => match r with (_, rb, _) => rb end) (tdef w_def_prefix [n_q] [SObs (OLen n_s)] [] []) = Some [SEmit (VInt 2)].
Proof. exact def_time_global_repaired. Qed.
Print Assumptions C03_def_time_global_repaired.

(* what a function body writes is never known at module level after the def *)
Example C03_def_written_is_volatile :
  option_map (fun r => match r with (_, _, rm) => rm end)
    (tdef [SAssign n_pat (EList [EInt 1; EInt 0])] [n_q] [SAppend n_pat (EName n_q)]
          [SObs (OLen n_pat); SAssign n_pat (EList [EInt 1]); SObs (OLen n_pat)] []) =
    Some [SObs (OLen n_pat); SAssign n_pat (EList [EInt 1]); SObs (OLen n_pat)] /\
  def_ok [SAssign n_pat (EList [EInt 1; EInt 0])] [n_q] [SAppend n_pat (EName n_q)]
         [SObs (OLen n_pat); SAssign n_pat (EList [EInt 1]); SObs (OLen n_pat)] [] = true.
Proof. exact def_written_is_volatile. Qed.
Print Assumptions C03_def_written_is_volatile.

(* ---- tuple assignment  x1, ..., xn = e1, ..., en  (Lang/ConstTuple.v).  The transpiler evaluates every right-hand side -
   for the emitted code into a temporary __tmp_assign_k, for the constant environment into evaluated_values - BEFORE it
   rebinds any target.  In the statement language that is the block [tuple_assign_with ts xs es] (temporaries first, then
   the targets from the temporaries); every theorem above quantifies over all programs, hence over programs containing
   such blocks at any depth.  What remains is that the block means what Python means: for every environment, every arity
   and any overlap between targets and right-hand sides (swaps, rotations, a right-hand side reading an earlier target),
   the block leaves every name of the script bound exactly as Python's simultaneous assignment does, provided the
   temporaries are distinct names the statement does not use *)
Theorem C03_peval_reads_only : forall e rho rho',
  (forall x, reads x e = true -> lookup x rho' = lookup x rho) -> peval rho' e = peval rho e.
Proof. exact peval_frame. Qed.
Print Assumptions C03_peval_reads_only.

Theorem C03_tuple_assign_is_simultaneous : forall ts xs es rho rho' orc,
  tmps_fresh ts xs es = true -> length ts = length es ->
  py_tuple_assign xs es rho = Some rho' ->
  exists rho'', rblock (tuple_assign_with ts xs es) orc rho = Some (rho'', [], orc) /\
                forall y, ~ In y ts -> lookup y rho'' = lookup y rho'.
Proof. exact tuple_assign_simultaneous. Qed.
Print Assumptions C03_tuple_assign_is_simultaneous.

Theorem C03_tuple_assign_undefined : forall ts xs es rho orc,
  tmps_fresh ts xs es = true -> length ts = length es -> peval_all rho es = None ->
  rblock (tuple_assign_with ts xs es) orc rho = None.
Proof. exact tuple_assign_undefined. Qed.
Print Assumptions C03_tuple_assign_undefined.

(* a swap of two strings of different length and a rotation of three ints, inside the freshness guard: the folded
   lengths / glyph rows are those of the values after a real swap *)
Example C03_tuple_nonvacuous :
  tmps_fresh (tmp_names 0 2) [n_ta; n_tb] swap_es = true /\
  is_fresh (w_swap (tuple_assign 0 [n_ta; n_tb] swap_es)) = true /\
  python_outputs (w_swap (tuple_assign 0 [n_ta; n_tb] swap_es)) [] = Some [VInt 6; VInt 2] /\
  python_outputs (w_swap (tuple_assign 0 [n_ta; n_tb] swap_es ++ tuple_assign 2 [n_ta; n_tb] swap_es)) [] = Some [VInt 2; VInt 6] /\
  is_fresh (w_rot (tuple_assign 0 [n_ta; n_tb; n_tc] rot_es)) = true /\
  python_outputs (w_rot (tuple_assign 0 [n_ta; n_tb; n_tc] rot_es)) [] =
    Some [VTuple [VInt 9; VInt 4; VInt 17; VInt 0; VInt 0; VInt 0; VInt 0; VInt 0]].
Proof. exact tuple_nonvacuous. Qed.
Print Assumptions C03_tuple_nonvacuous.

(* evaluating everything first is forced: updating the constant environment target by target while the right-hand
   side is still being evaluated bakes in len(b) = 6 after  a, b = b, a  and glyph rows 9, 9, 9 after a rotation *)
Theorem C03_tuple_sequential_refuted :
  firmware_outputs (w_swap (tuple_sequential [n_ta; n_tb] swap_es)) [] = Some [VInt 6; VInt 6] /\
  firmware_outputs (w_swap (tuple_assign 0 [n_ta; n_tb] swap_es)) [] = Some [VInt 6; VInt 2] /\
  python_outputs (w_swap (tuple_assign 0 [n_ta; n_tb] swap_es)) [] = Some [VInt 6; VInt 2] /\
  firmware_outputs (w_rot (tuple_sequential [n_ta; n_tb; n_tc] rot_es)) [] =
    Some [VTuple [VInt 9; VInt 9; VInt 9; VInt 0; VInt 0; VInt 0; VInt 0; VInt 0]] /\
  firmware_outputs (w_rot (tuple_assign 0 [n_ta; n_tb; n_tc] rot_es)) [] =
    Some [VTuple [VInt 9; VInt 4; VInt 17; VInt 0; VInt 0; VInt 0; VInt 0; VInt 0]].
Proof. exact tuple_sequential_refuted. Qed.
Print Assumptions C03_tuple_sequential_refuted.

(* ---- parse first, emit afterwards (Lang/ConstNodes.v): an IR node that bakes a list holds a list OBJECT, printed only
   when the whole script has been parsed.  The parser gives every flash_pattern node an object of its own; hence what is
   emitted - nodes resolved against the FINAL store and node heap - is the residual whose constants are the lists as
   they were at each call, for every script; and the simulation theorems hold for the two-phase pipeline *)
Theorem C03_emitted_is_snapshot : forall p,
  emitted false p = match tblock [] p [] [] with Some (_, _, res, _) => Some res | None => None end.
Proof. exact emitted_is_snapshot. Qed.
Print Assumptions C03_emitted_is_snapshot.

Theorem C03_ir_firmware_eq : forall p orc, firmware_outputs_ir false p orc = firmware_outputs p orc.
Proof. exact ir_firmware_eq. Qed.
Print Assumptions C03_ir_firmware_eq.

Theorem C03_ir_fresh_partial : forall p orc out,
  is_fresh p = true -> python_outputs p orc = Some out -> firmware_outputs_ir false p orc = Some out.
Proof. exact ir_fresh_sound. Qed.
Print Assumptions C03_ir_fresh_partial.

(* the copy is forced: a node that aliases the tracked list (a shortcut for lists of plain ints) makes EVERY
   flash_pattern(pat) call bake in the final contents of pat - straight-line, inside is_fresh.  (A mutation in a branch
   that is not taken no longer reaches anything: the branch works on its own copy of the list) *)
Theorem C03_node_alias_refuted :
  firmware_outputs_ir true w_flash_mut [] =
    Some [VList [VInt 0; VInt 1; VInt 0; VInt 128]; VList [VInt 0; VInt 1; VInt 0; VInt 128]; VList [VInt 0; VInt 1; VInt 0; VInt 128]] /\
  python_outputs w_flash_mut [] =
    Some [VList [VInt 1; VInt 0; VInt 1]; VList [VInt 1; VInt 0; VInt 1; VInt 0; VInt 128]; VList [VInt 0; VInt 1; VInt 0; VInt 128]] /\
  firmware_outputs_ir false w_flash_mut [] = python_outputs w_flash_mut [] /\ is_fresh w_flash_mut = true /\
  firmware_outputs_ir true w_flash_branch [0%nat] = Some [VList [VInt 255; VInt 0]] /\
  python_outputs w_flash_branch [0%nat] = Some [VList [VInt 255; VInt 0]] /\
  firmware_outputs_ir false w_flash_branch [0%nat] = Some [VList [VInt 255; VInt 0]] /\ is_fresh w_flash_branch = true.
Proof. exact alias_refuted. Qed.
Print Assumptions C03_node_alias_refuted.

(* len(name) inside a right-hand side: after a branch that re-assigns s the environment does not know s any more, the
   translation of  q = len(s) + 1  reads the length at run time - inside the guard, both paths *)
Example C03_rhs_len_is_a_fold_site :
  is_fresh (w_rhs_len [SAssign n_s (EStr [97;98;99;100])]) = true /\
  python_outputs (w_rhs_len [SAssign n_s (EStr [97;98;99;100])]) [1%nat] = Some [VInt 5] /\
  firmware_outputs (w_rhs_len [SAssign n_s (EStr [97;98;99;100])]) [1%nat] = Some [VInt 5] /\
  firmware_outputs (w_rhs_len [SAssign n_s (EStr [97;98;99;100])]) [0%nat] = Some [VInt 3].
Proof. exact rhs_len_fold_site. Qed.
Print Assumptions C03_rhs_len_is_a_fold_site.

(* ---- calls of a function that WRITES module-level names (Lang/ConstCall.v):
       prefix; def f(): body; first; f(); seg_1; f(); seg_2; ... f(); seg_n
   The names the body writes ([vol] = ctx["_function_written"]) are unknown in the calling scope from the def on, and NO
   statement form of the calling scope makes one of them known again: plain assignment, augmented assignment, every
   target of a tuple assignment (temporaries first), append / remove, assignments inside if / else / try, while and for
   bodies (and their loop variables) at any depth - for every block, every dict, every store *)
Theorem C03_volatile_never_known : forall vol b te st te' st' res f,
  tblock vol b te st = Some (te', st', res, f) -> vol_unknown vol te -> vol_unknown vol te'.
Proof. exact vol_unknown_block. Qed.
Print Assumptions C03_volatile_never_known.

(* hence every fold that follows a call reads the run-time value: for any number of calls, whatever re-binds the
   written names between them, on every control-flow path, the firmware (the residual blocks, the residual body inlined
   at each call) outputs what Python outputs (the body run at each call in the module state of that moment) - inside the
   guard calls_ok: the single-statement side conditions of every block, nothing else.  In BOTH scopes: the calling
   sequence at module level (in_fn = false) and as the body of another function (in_fn = true; since the repair of
   F-C03-stale-after-call-in-function a function body forgets what the functions it calls write - when its parsing starts
   and after every assignment statement) *)
Theorem C03_calls_partial : forall in_fn prefix body first rest orc out,
  calls_ok in_fn prefix body first rest = true ->
  python_calls_outputs prefix body first rest orc = Some out ->
  firmware_calls_outputs in_fn prefix body first rest orc = Some out.
Proof. exact calls_sound. Qed.
Print Assumptions C03_calls_partial.

(* pat = [1, 0]; def grow(): pat.append(1); grow(); pat, gap = [1, 0, 1], 50; grow(); mon.write(len(pat)) prints 4 - the
   length is read at run time; with led.flash_pattern(pat) in place of the len the script is rejected (Python flashes
   1, 0, 1, 1: nothing to bake) *)
Example C03_call_after_tuple_rebind :
  calls_ok false w_pat0 w_grow [] [w_tuple_rebind; [SObs (OLen n_pat)]] = true /\
  python_calls_outputs w_pat0 w_grow [] [w_tuple_rebind; [SObs (OLen n_pat)]] [] = Some [VInt 4] /\
  firmware_calls_outputs false w_pat0 w_grow [] [w_tuple_rebind; [SObs (OLen n_pat)]] [] = Some [VInt 4] /\
  option_map (fun r => match r with (_, _, _, rs, _) => rs end) (tcalls false w_pat0 w_grow [] [w_tuple_rebind; [SObs (OLen n_pat)]]) =
    Some [w_tuple_rebind; [SObs (OLen n_pat)]] /\
  tcalls false w_pat0 w_grow [] [w_tuple_rebind; [SObs (OFlash n_pat)]] = None /\
  python_calls_outputs w_pat0 w_grow [] [w_tuple_rebind; [SObs (OFlash n_pat)]] [] = Some [VList [VInt 1; VInt 0; VInt 1; VInt 1]].
Proof. exact call_after_tuple_rebind. Qed.
Print Assumptions C03_call_after_tuple_rebind.

Example C03_calls_nonvacuous :
  calls_ok false w_pat0 w_grow [] w_forms = true /\
  python_calls_outputs w_pat0 w_grow [] w_forms [1%nat; 2%nat] = Some [VInt 5; VInt 2; VInt 3] /\
  python_calls_outputs w_pat0 w_grow [] w_forms [0%nat; 0%nat] = Some [VInt 5; VInt 6; VInt 7] /\
  firmware_calls_outputs false w_pat0 w_grow [] w_forms [0%nat; 0%nat] = Some [VInt 5; VInt 6; VInt 7].
Proof. exact call_forms_nonvacuous. Qed.
Print Assumptions C03_calls_nonvacuous.

(* the same calling sequence in the body of another function - pat = [1, 0]; def grow(): pat.append(1); def use(): global pat;
   pat = [1, 0, 1]; grow(); mon.write(len(pat)); use() - the witness of the repaired finding
   F-C03-stale-after-call-in-function: inside the guard, the residual reads the length at run time and prints 4, as Python;
   with led.flash_pattern(pat) in place of the len the script is rejected.  Replaces C03_call_in_function_refuted (the
   transpiler used to skip the re-forget inside function bodies, `if scope != "function"`, and baked len(pat) = 3) *)
Theorem C03_call_in_function_repaired :
  calls_ok true w_pat0 w_grow w_use_first [[SObs (OLen n_pat)]] = true /\
  python_calls_outputs w_pat0 w_grow w_use_first [[SObs (OLen n_pat)]] [] = Some [VInt 4] /\
  firmware_calls_outputs true w_pat0 w_grow w_use_first [[SObs (OLen n_pat)]] [] = Some [VInt 4] /\
  option_map (fun r => match r with (_, _, _, rs, _) => rs end) (tcalls true w_pat0 w_grow w_use_first [[SObs (OLen n_pat)]]) =
    Some [[SObs (OLen n_pat)]] /\
  tcalls true w_pat0 w_grow w_use_first [[SObs (OFlash n_pat)]] = None.
Proof. exact call_in_function_repaired. Qed.
Print Assumptions C03_call_in_function_repaired.

Example C03_calls_in_function_nonvacuous :
  calls_ok true w_pat0 w_grow [] w_forms = true /\
  python_calls_outputs w_pat0 w_grow [] w_forms [1%nat; 2%nat] = Some [VInt 5; VInt 2; VInt 3] /\
  firmware_calls_outputs true w_pat0 w_grow [] w_forms [1%nat; 2%nat] = Some [VInt 5; VInt 2; VInt 3] /\
  firmware_calls_outputs true w_pat0 w_grow [] w_forms [0%nat; 0%nat] = Some [VInt 5; VInt 6; VInt 7].
Proof. exact call_in_function_forms. Qed.
Print Assumptions C03_calls_in_function_nonvacuous.
