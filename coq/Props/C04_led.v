(* Property C04, unit C04_led: LED commands, device = host.

   dtr pn dinit ops   the level/delay trace of the generated firmware (Device/DLed.v: the emitter's C++,
                      statement by statement) for the commands [ops] on an LED declared on pin [pn]
   htr pn (init p) ops the trace of the host class (Host/Led.v) for the same commands: one level per completed
                      set_brightness, one delay of trunc(q) whole ms per sleep(q)
   canon              Device/Signal.v: per-pin timed level signal (no-change writes dropped, delays accumulated)
   dgets / hgets      the values returned by the state queries, in order
   in_range           the guard: arguments inside the ranges the host accepts and of the annotated kinds
                      (brightness 0..255; duration >= 0; times a positive int; step a positive whole number;
                       pattern entries 0..255 and not strictly between 1 and 2)
   Only statements here; proofs are in Proofs/DLedP.v. *)
From Coq Require Import ZArith QArith List Bool.
From RV Require Import Base.Wire Base.Num Host.Led Device.Signal Device.DLed Proofs.DLedP.
Import ListNotations.
Import Num.

(* same per-pin level sequence, same whole-millisecond time stamps, same getter values, no host call raises *)
Theorem C04_led : forall pn p ops, forallb in_range ops = true ->
  canon (dtr pn dinit ops) = canon (htr pn (init p) ops) /\
  dgets pn dinit ops = hgets (init p) ops /\
  hok (init p) ops = true.
Proof. exact led_device_eq_host. Qed.
Print Assumptions C04_led.

(* ... from any reachable pair of corresponding states, and any state of the canonicaliser that agrees on the pin *)
Theorem C04_led_from_any_state : forall pn ops s cs, Inv_led s -> lookup (fst cs) pn = bright s ->
  forallb in_range ops = true ->
  crun cs (dtr pn (d_of s) ops) = crun cs (htr pn s ops) /\
  dgets pn (d_of s) ops = hgets s ops /\ hok s ops = true.
Proof. exact sim_run. Qed.
Print Assumptions C04_led_from_any_state.

(* the delays: the device waits trunc(q) ms where the host sleeps q ms; inside the guard q >= 0, so the
   two differ by less than one millisecond per delay *)
Theorem C04_led_delays_within_1ms : forall s o, Inv_led s -> in_range o = true ->
  Forall (fun q => 0 <= q - inject_Z (py_int_trunc q) /\ q - inject_Z (py_int_trunc q) < 1)%Q
         (sleeps (evs (step s o))).
Proof. exact led_delays_within_1ms. Qed.
Print Assumptions C04_led_delays_within_1ms.

(* clamp clause, for ALL commands and values (no guard): every analogWrite value is within 0..255 *)
Theorem C04_led_clamp : forall pn ops s, Forall dev_ok (fst (drun pn s ops)).
Proof. exact led_clamp. Qed.
Print Assumptions C04_led_clamp.

(* ... and so is the stored brightness, with state = (brightness > 0) *)
Theorem C04_led_state_clamped : forall pn ops s, dinv s -> dinv (dfinal pn s ops).
Proof. exact led_state_clamped. Qed.
Print Assumptions C04_led_state_clamped.

(* outside the guard the faithful models differ: a fractional fade step (device: int step = 2; host: 2.5) *)
Theorem C04_led_fractional_step_refuted : exists pn p ops,
  canon (dtr pn dinit ops) <> canon (htr pn (init p) ops).
Proof. exists 5%Z, (PI 5), [FadeIn (PF (5 # 2)) (PI 0)]. exact led_fractional_step_differs. Qed.
Print Assumptions C04_led_fractional_step_refuted.

(* ... and a pattern entry strictly between 1 and 2 (device: int(1.5) = 1 = fully on; host: brightness 1) *)
Theorem C04_led_pattern_entry_refuted : exists pn p ops,
  canon (dtr pn dinit ops) <> canon (htr pn (init p) ops).
Proof. exists 5%Z, (PI 5), [FlashPattern [PF (3 # 2)] (PI 0)]. exact led_pattern_between_1_2_differs. Qed.
Print Assumptions C04_led_pattern_entry_refuted.

(* non-vacuity: the guard is satisfied by a history that exercises every command, with a non-trivial signal *)
Example C04_led_guard_inhabited :
  let ops := [On; SetBrightness (PF (301 # 4)); Blink (PF (5 # 2)) (PI 2); FadeIn (PI 100) (PI 3);
              FadeOut (PF 51) (PF (5 # 2)); FlashPattern [PI 1; PI 0; PI 128; PB true; PF (1 # 2)] (PI 20);
              Toggle; GetState; GetBrightness; Off] in
  forallb in_range ops = true /\ length (fst (canon (dtr 5 dinit ops))) = 21%nat /\
  snd (canon (dtr 5 dinit ops)) = 107%Z.
Proof. vm_compute. repeat split. Qed.
Print Assumptions C04_led_guard_inhabited.
