(* Property C04, unit C04_motor: DC motor commands, device vs host.  Statements only; proofs in Proofs/DMotorP.v.
   dmrun p m ops   the digitalWrite / analogWrite / delay events and getter values of the generated firmware (Device/DMotor.v)
   hmrun p m ops   the host class's level signal on the same three pins (direction from the sign of the applied speed,
                   duty = nearest PWM count of 255*|applied|, sleeps truncated to whole ms), its getter values *)
From Coq Require Import ZArith QArith Qabs List Bool.
From RV Require Import Base.Wire Base.NumM Host.DCMotor Device.Signal Device.DLed Device.DMotor Proofs.DMotorP Proofs.DMotorSimP.
Import ListNotations.

(* clamp clause, for ALL commands, values and histories: every analogWrite duty is within 0..255 *)
Theorem C04_motor_clamp : forall p ops m, Forall dev_ok (fst (dmrun p m ops)).
Proof. exact motor_clamp. Qed.
Print Assumptions C04_motor_clamp.

(* the expected refutation: motor.set_speed(0.001); motor.get_mode() - host "drive", device "coast" *)
Theorem C04_motor_tiny_speed_mode_refuted : exists p m ops,
  snd (dmrun p dminit ops) <> snd (fst (hmrun p m ops)).
Proof.
  exists (4, 5, 6)%Z, (m0 (4, 5, 6)%Z), tiny_ops.
  destruct motor_tiny_mode_differs as [-> ->]. discriminate.
Qed.
Print Assumptions C04_motor_tiny_speed_mode_refuted.

(* ... and the pins: the host drives forward at duty 0.255, the device leaves all three pins LOW *)
Theorem C04_motor_tiny_speed_signal_refuted : exists p m ops,
  canon (map dconv (fst (dmrun p dminit ops))) <> canon (fst (fst (hmrun p m ops))).
Proof. exists (4, 5, 6)%Z, (m0 (4, 5, 6)%Z), tiny_ops. exact motor_tiny_signal_differs. Qed.
Print Assumptions C04_motor_tiny_speed_signal_refuted.

(* non-vacuity of the guard of C04_motor_partial: an in-guard history through every command *)
Example C04_motor_guard_inhabited :
  forallb (fun b => b) (motor_guard_flags (m0 (4, 5, 6)%Z) demo_ops) = true /\
  canon (map dconv (fst (dmrun (4, 5, 6)%Z dminit demo_ops))) = canon (fst (fst (hmrun (4, 5, 6)%Z (m0 (4, 5, 6)%Z) demo_ops))) /\
  snd (fst (hmrun (4, 5, 6)%Z (m0 (4, 5, 6)%Z) demo_ops)) = snd (dmrun (4, 5, 6)%Z dminit demo_ops).
Proof. exact motor_demo_agrees. Qed.
Print Assumptions C04_motor_guard_inhabited.

(* C04_motor_partial: device = host for ALL motor commands (set_speed, backward, stop, coast, invert, ramp, run_for, the four
   getters) and all histories inside the guard motor_guard_flags: speeds numbers within -1..1, durations numbers >= 0, and no
   speed the command applies has 0 < |x| < 1/510 (the refutations above show this conjunct is needed).  Then the firmware's
   digitalWrite / analogWrite / delay events ARE, event by event, the host's level signal on the three pins - direction pins from
   the sign of the applied speed (brake: both HIGH), duty = the PWM count nearest to 255*|applied| (C04_motor_duty_nearest: within
   half a count, the statement allows one), each host sleep q as delay(trunc q) (C04_motor_delay_within_1ms) - every getter
   returns the host's value, and no host call raises. *)
Theorem C04_motor_partial : forall p ops,
  forallb (fun b => b) (motor_guard_flags (m0 p) ops) = true ->
  map dconv (fst (dmrun p dminit ops)) = fst (fst (hmrun p (m0 p) ops)) /\
  snd (dmrun p dminit ops) = snd (fst (hmrun p (m0 p) ops)) /\
  snd (hmrun p (m0 p) ops) = true.
Proof. exact motor_device_eq_host. Qed.
Print Assumptions C04_motor_partial.

Theorem C04_motor_duty_nearest : forall ap, (-(1) <= ap <= 1)%Q -> (Qabs (inject_Z (hduty ap) - 255 * qabs ap) <= 1 # 2)%Q.
Proof. exact hduty_nearest. Qed.
Print Assumptions C04_motor_duty_nearest.

Theorem C04_motor_delay_within_1ms : forall q, (0 <= q)%Q -> (0 <= q - inject_Z (ctrunc q))%Q /\ (q - inject_Z (ctrunc q) < 1)%Q.
Proof. exact ctrunc_within_ms. Qed.
Print Assumptions C04_motor_delay_within_1ms.

(* inside the guard every host sleep is >= 0 ms, so C04_motor_delay_within_1ms applies to every delay of the signal *)
Theorem C04_motor_sleeps_nonneg : forall m o, motor_in_range m o = true ->
  Forall (fun q => (0 <= q)%Q) (sleeps (mevents (mstep m o))).
Proof. exact motor_sleeps_nonneg. Qed.
Print Assumptions C04_motor_sleeps_nonneg.
