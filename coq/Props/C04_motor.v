(* Property C04, unit C04_motor: DC motor commands, device vs host.  Statements only; proofs in Proofs/DMotorP.v.
   dmrun p m ops   the digitalWrite / analogWrite / delay events and getter values of the generated firmware (Device/DMotor.v)
   hmrun p m ops   the host class's level signal on the same three pins (direction from the sign of the applied speed,
                   duty = nearest PWM count of 255*|applied|, sleeps truncated to whole ms), its getter values *)
From Coq Require Import ZArith QArith Qabs List Bool.
From RV Require Import Base.Wire Base.NumM Host.DCMotor Device.Signal Device.DLed Device.DMotor Proofs.DMotorP Proofs.DMotorSimP.
Import ListNotations.

(* clamp clause, for ALL commands, values and histories: every analogWrite duty is within 0..255 *)
Theorem C04_motor_clamp : forall p ops m, Forall dev_ok (fst (dmrun p m ops)).
Proof. exact motor_clamp. Qed.
Print Assumptions C04_motor_clamp.

(* the witness of the former finding F-C04-motor-tiny-speed-mode (repaired: the firmware's direction pins and mode now depend
   on the applied speed being non-zero, not on the PWM count): motor.set_speed(0.001); get_mode(); invert(); get_mode();
   get_applied_speed(); set_speed(0); get_mode() - "drive", "drive", -0.001, "coast" on both sides *)
Example C04_motor_tiny_speed_mode_agrees :
  snd (dmrun (4, 5, 6)%Z dminit tiny_ops) = [GNone; GMode Drive; GNone; GMode Drive; GFloat (-1 # 1000); GNone; GMode Coast] /\
  snd (fst (hmrun (4, 5, 6)%Z (m0 (4, 5, 6)%Z) tiny_ops)) = snd (dmrun (4, 5, 6)%Z dminit tiny_ops).
Proof. exact motor_tiny_mode_agrees. Qed.
Print Assumptions C04_motor_tiny_speed_mode_agrees.

(* ... and the pins: forward (IN1 HIGH) at PWM count 0, then reverse (IN2 HIGH) at count 0, then coast - on both sides *)
Example C04_motor_tiny_speed_signal_agrees :
  map dconv (fst (dmrun (4, 5, 6)%Z dminit tiny_ops)) =
    [TL 4 255; TL 5 0; TL 6 0; TL 4 0; TL 5 255; TL 6 0; TL 4 0; TL 5 0; TL 6 0]%Z /\
  fst (fst (hmrun (4, 5, 6)%Z (m0 (4, 5, 6)%Z) tiny_ops)) = map dconv (fst (dmrun (4, 5, 6)%Z dminit tiny_ops)).
Proof. exact motor_tiny_signal_agrees. Qed.
Print Assumptions C04_motor_tiny_speed_signal_agrees.

(* the positive fact the refutations contradicted, for ALL values and states: after any drive change the firmware's mode is
   "coast" exactly when the speed it applies is zero (the host's rule), whatever the PWM count *)
Theorem C04_motor_mode_follows_applied_speed : forall p d store v any,
  let eff := eff_of (dm_inv d) (Qred (qclamp (-(1)) 1 v)) in
  dm_mode (fst (d_apply p d store v)) = (if Qeqb eff 0 then Coast else Drive) /\
  map dconv (snd (d_apply p d store v)) = hmconv p (MLvl any eff (if Qeqb eff 0 then Coast else Drive)).
Proof.
  intros p d store v any eff. destruct (d_apply_spec p d store v any) as [S1 S2]. fold eff in S1, S2.
  split; [rewrite S1; reflexivity|exact S2].
Qed.
Print Assumptions C04_motor_mode_follows_applied_speed.

(* non-vacuity of the guard of C04_motor_partial: an in-guard history through every command *)
Example C04_motor_guard_inhabited :
  forallb (fun b => b) (motor_guard_flags (m0 (4, 5, 6)%Z) demo_ops) = true /\
  canon (map dconv (fst (dmrun (4, 5, 6)%Z dminit demo_ops))) = canon (fst (fst (hmrun (4, 5, 6)%Z (m0 (4, 5, 6)%Z) demo_ops))) /\
  snd (fst (hmrun (4, 5, 6)%Z (m0 (4, 5, 6)%Z) demo_ops)) = snd (dmrun (4, 5, 6)%Z dminit demo_ops).
Proof. exact motor_demo_agrees. Qed.
Print Assumptions C04_motor_guard_inhabited.

(* C04_motor_partial: device = host for ALL motor commands (set_speed, backward, stop, coast, invert, ramp, run_for, the four
   getters) and all histories inside the guard motor_guard_flags: speeds numbers of ANY value - also outside -1..1, where the host
   clamps the argument first (for ramp: the target, BEFORE the 20 interpolation steps) and the firmware must produce the host's
   sequence - durations numbers >= 0 (speeds of any magnitude: the former conjunct "no applied speed with 0 < |x| < 1/510" is gone
   with the repair).  Then the firmware's
   digitalWrite / analogWrite / delay events ARE, event by event, the host's level signal on the three pins - direction pins from
   the sign of the applied speed (brake: both HIGH), duty = the PWM count nearest to 255*|applied| (C04_motor_duty_nearest: within
   half a count, the statement allows one), each host sleep q as delay(trunc q) (C04_motor_delay_within_1ms) - every getter
   returns the host's value, and no host call raises. *)
Theorem C04_motor_partial : forall p ops,
  forallb (fun b => b) (motor_guard_flags (m0 p) ops) = true ->
  map dconv (fst (dmrun p dminit ops)) = fst (fst (hmrun p (m0 p) ops)) /\
  snd (dmrun p dminit ops) = snd (fst (hmrun p (m0 p) ops)) /\
  snd (hmrun p (m0 p) ops) = true.
Proof. exact motor_device_eq_host. Qed.
Print Assumptions C04_motor_partial.

Theorem C04_motor_duty_nearest : forall ap, (-(1) <= ap <= 1)%Q -> (Qabs (inject_Z (hduty ap) - 255 * qabs ap) <= 1 # 2)%Q.
Proof. exact hduty_nearest. Qed.
Print Assumptions C04_motor_duty_nearest.

Theorem C04_motor_delay_within_1ms : forall q, (0 <= q)%Q -> (0 <= q - inject_Z (ctrunc q))%Q /\ (q - inject_Z (ctrunc q) < 1)%Q.
Proof. exact ctrunc_within_ms. Qed.
Print Assumptions C04_motor_delay_within_1ms.

(* inside the guard every host sleep is >= 0 ms, so C04_motor_delay_within_1ms applies to every delay of the signal *)
Theorem C04_motor_sleeps_nonneg : forall m o, motor_in_range m o = true ->
  Forall (fun q => (0 <= q)%Q) (sleeps (mevents (mstep m o))).
Proof. exact motor_sleeps_nonneg. Qed.
Print Assumptions C04_motor_sleeps_nonneg.

(* ---- out-of-range speeds (clamp clause: "clamped on the device to the documented limits") ---- *)

(* the guard places no condition on the value of a speed: every number is inside it *)
Theorem C04_motor_guard_accepts_every_speed : forall m v t d,
  num_ok v = true -> num_ok t = true -> dur_ok d = true ->
  motor_in_range m (MSetSpeed v) = true /\ motor_in_range m (MBackward (Some v)) = true /\
  motor_in_range m (MRamp t d) = true /\ motor_in_range m (MRunFor d v) = true.
Proof. exact motor_guard_any_speed. Qed.
Print Assumptions C04_motor_guard_accepts_every_speed.

(* on the device a command with an out-of-range speed IS the command with the documented limit: same events, same state, same
   getters - for set_speed, backward, run_for and, for ramp, all 20 interpolation steps (the target is clamped before interpolating) *)
Theorem C04_motor_out_of_range_is_the_limit : forall p d v t du,
  dmstep p d (MSetSpeed (PF v)) = dmstep p d (MSetSpeed (PF (clampq v))) /\
  dmstep p d (MBackward (Some (PF v))) = dmstep p d (MBackward (Some (PF (clampq v)))) /\
  dmstep p d (MRunFor du (PF v)) = dmstep p d (MRunFor du (PF (clampq v))) /\
  dmstep p d (MRamp (PF t) du) = dmstep p d (MRamp (PF (clampq t)) du).
Proof. exact motor_out_of_range_is_limit. Qed.
Print Assumptions C04_motor_out_of_range_is_the_limit.

(* non-vacuity: a history whose speeds are all OUTSIDE -1..1 (set_speed(1/4) apart) is inside the guard and the two sides agree:
   ramp(2.0, 200) from 0.25, ramp(-3.0, 100) from 1.0 (direction flips at step 10), backward(300), run_for(20, -2), invert *)
Example C04_motor_out_of_range_guard_inhabited :
  forallb (fun b => b) (motor_guard_flags (m0 (4, 5, 6)%Z) out_ops) = true /\
  map dconv (fst (dmrun (4, 5, 6)%Z dminit out_ops)) = fst (fst (hmrun (4, 5, 6)%Z (m0 (4, 5, 6)%Z) out_ops)) /\
  snd (fst (hmrun (4, 5, 6)%Z (m0 (4, 5, 6)%Z) out_ops)) = snd (dmrun (4, 5, 6)%Z dminit out_ops).
Proof. exact motor_out_ops_agree. Qed.
Print Assumptions C04_motor_out_of_range_guard_inhabited.

(* what the clamp-before-interpolating order means, on the witness the independent testers used: ramp(2.0, d) from 0.2 writes the
   enable duties 61, 71, 82, ... (20 distinct steps up to 255), not 74, 97, 120, ... saturating after 8 steps *)
Example C04_motor_ramp_clamps_target_first :
  map (fun e => match e with EAW _ v => v | _ => (-1)%Z end)
      (filter (fun e => match e with EAW _ _ => true | _ => false end)
              (fst (dmrun (4, 5, 6)%Z dminit [MSetSpeed (PF (1 # 5)); MRamp (PI 2) (PI 0)]))) =
  [51; 61; 71; 82; 92; 102; 112; 122; 133; 143; 153; 163; 173; 184; 194; 204; 214; 224; 235; 245; 255]%Z.
Proof. exact motor_ramp_clamps_first. Qed.
Print Assumptions C04_motor_ramp_clamps_target_first.
