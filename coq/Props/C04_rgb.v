(* Property C04, unit C04_rgb: RGB LED commands, device vs host.

   drrun p st ops       the analogWrite/delay events of the generated firmware (Device/DRGB.v) for the commands [ops]
                        on an RGB LED declared on pins p = (red, green, blue)
   hrrun p s ops        the level signal of the host class (Host/RGBLed.v): three levels per completed set_color,
                        each sleep(q) as the delay the device makes of it (fade: (unsigned long)(q + 0.5f), blink: truncation)
   Only statements here; proofs are in Proofs/DRGBP.v. *)
From Coq Require Import ZArith QArith Qabs List Bool.
From RV Require Import Base.Wire Base.Num Host.Led Host.RGBLed Device.Signal Device.DLed Device.DRGB Proofs.DRGBP Proofs.DRGBSimP.
Import ListNotations.
Import Num.

(* clamp clause, for ALL commands, values and histories: every analogWrite value is within 0..255
   (also the interpolated fade values), and the stored colour stays within 0..255 *)
Theorem C04_rgb_clamp : forall p ops, Forall dev_ok (drrun p drinit ops).
Proof. exact rgb_clamp_init. Qed.
Print Assumptions C04_rgb_clamp.

Theorem C04_rgb_clamp_from_any_state : forall p ops st, triple_ok (dr_col st) ->
  Forall dev_ok (drrun p st ops) /\ triple_ok (dr_col (drfinal p st ops)).
Proof. exact rgb_clamp. Qed.
Print Assumptions C04_rgb_clamp_from_any_state.

(* an interpolated fade value never leaves the interval between start and target *)
Theorem C04_rgb_fade_between : forall n s t i, (0 < n)%Z -> (1 <= i <= n)%Z ->
  ((s <= t)%Z -> (s <= c_interp n s t i <= t)%Z) /\ ((t <= s)%Z -> (t <= c_interp n s t i <= s)%Z).
Proof. exact c_interp_between. Qed.
Print Assumptions C04_rgb_fade_between.

(* delays: whichever way the device rounds a host sleep of q >= 0 ms, the two differ by less than 1 ms *)
Theorem C04_rgb_delay_within_1ms : forall m q, (0 <= q)%Q -> (Qabs (q - inject_Z (rnd m q)) < 1)%Q.
Proof. exact rnd_within_ms. Qed.
Print Assumptions C04_rgb_delay_within_1ms.

(* formerly C04_rgb_fade_rounding_refuted (F-C04-rgb-fade-half-rounding, repaired): rgb.fade(1, 0, 0, 100, steps=2) from
   black - step 1 is exactly 0.5 (a tie): the device used to round it half away from zero (red = 1 at t = 0), the host
   half-even (red = 1 only at t = 50 ms).  Both now round a half to the even neighbour: down (0.5 -> 0, 2.5 -> 2 i.e.
   252.5 -> 252 downwards) and up (1.5 -> 2), rising and falling; C04_rgb below is the general statement *)
Example C04_rgb_fade_half_witness :
  canon (drtr (9, 10, 11)%Z drinit w_ops) = ([(50, 9, 1)], 50)%Z /\
  canon (fst (hrrun (9, 10, 11)%Z (black (9, 10, 11)%Z) w_ops)) = ([(50, 9, 1)], 50)%Z /\
  tie 2 0 1 1 = true /\ c_interp 2 0 1 1 = 0%Z /\ c_interp 2 0 3 1 = 2%Z /\ c_interp 2 3 0 1 = 2%Z /\
  c_interp 4 255 249 3 = 250%Z /\
  canon (drtr (9, 10, 11)%Z drinit w_ops_up) = canon (fst (hrrun (9, 10, 11)%Z (black (9, 10, 11)%Z) w_ops_up)) /\
  canon (drtr (9, 10, 11)%Z drinit w_ops_up) = ([(0, 9, 2); (50, 9, 3)], 50)%Z.
Proof. exact rgb_fade_half_values. Qed.
Print Assumptions C04_rgb_fade_half_witness.

(* for every history of set_color / on / off commands with int components 0..255 the firmware's analogWrite trace IS the
   host's level trace, hence the same canonical signal, and no host call raises (a corollary of C04_rgb below,
   kept because its guard is simpler) *)
Theorem C04_rgb_set_partial : forall p ops, forallb set_only ops = true ->
  canon (drtr p drinit ops) = canon (fst (hrrun p (black p) ops)) /\ snd (hrrun p (black p) ops) = true.
Proof. exact rgb_set_canon. Qed.
Print Assumptions C04_rgb_set_partial.

Example C04_rgb_set_guard_inhabited :
  forallb set_only [On (PI 255) (PI 0) (PB true); SetColor (PI 1) (PI 128) (PI 254); Off] = true /\
  length (fst (canon (drtr (9, 10, 11)%Z drinit [On (PI 255) (PI 0) (PB true); SetColor (PI 1) (PI 128) (PI 254); Off]))) = 8%nat.
Proof. vm_compute. split; reflexivity. Qed.
Print Assumptions C04_rgb_set_guard_inhabited.

(* C04_rgb (formerly C04_rgb_partial, whose guard also excluded every fade with an interpolation step exactly on a half):
   device = host for ALL RGB commands (set_color, on, off, fade, blink) and all histories with in-range arguments,
   rgb_guard: int components 0..255; fade: duration >= 0 and whole, steps a positive int; blink: times a positive int,
   delay >= 0 - nothing else (the colour a fade starts from plays no role any more).  Then the firmware's per-pin level signal with whole-millisecond
   time stamps equals the host's (each fade sleep q rounded as the device does, (unsigned long)(q + 0.5f); each blink sleep
   truncated; C04_rgb_delay_within_1ms bounds both by 1 ms), and no host call raises. *)
Theorem C04_rgb : forall p ops, rgb_guard (black p) ops = true ->
  canon (drtr p drinit ops) = canon (fst (hrrun p (black p) ops)) /\ snd (hrrun p (black p) ops) = true.
Proof. exact rgb_device_eq_host. Qed.
Print Assumptions C04_rgb.

(* the guard is the argument ranges only: it does not depend on the state the history has reached *)
Theorem C04_rgb_guard_is_in_range : forall s ops,
  rgb_guard s ops = forallb (rgb_in_range (0, 0, 0)%Z) ops.
Proof. exact rgb_guard_stateless. Qed.
Print Assumptions C04_rgb_guard_is_in_range.

(* the rounding fact behind it (formerly C04_rgb_fade_value_partial, with the hypothesis "not a tie"): for EVERY step,
   halves included, the device's integer quotient/remainder formula is the host's int(round(...)); the one hypothesis
   says the exact value is not negative, which holds for channels 0..255 (second statement) *)
Theorem C04_rgb_fade_value : forall n s t i, (0 < n)%Z -> (0 <= s * n + (t - s) * i)%Z ->
  interp (inject_Z n) s t i = c_interp n s t i.
Proof. exact c_interp_eq_interp. Qed.
Print Assumptions C04_rgb_fade_value.

Theorem C04_rgb_fade_value_channels : forall n s t i, (0 < n)%Z -> (1 <= i <= n)%Z ->
  (0 <= s <= 255)%Z -> (0 <= t <= 255)%Z ->
  interp (inject_Z n) s t i = c_interp n s t i.
Proof. exact c_interp_eq_interp_channels. Qed.
Print Assumptions C04_rgb_fade_value_channels.

Example C04_rgb_guard_inhabited : rgb_guard (black (9, 10, 11)%Z) rgb_demo_ops = true /\
  length (fst (canon (drtr (9, 10, 11)%Z drinit rgb_demo_ops))) = 48%nat.
Proof. exact rgb_demo_guard. Qed.
Print Assumptions C04_rgb_guard_inhabited.
