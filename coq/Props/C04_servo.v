(* Property C04, unit C04_servo: servo commands, device vs host.  Statements only; proofs in Proofs/DServoP.v.
   ds_decl a        the globals and setup() calls the transpiler generates for  x = Servo(<literal arguments a>)
                    (None: the parser rejects the declaration); Device/DServo.v
   dsrun d ops      the Servo.write / Servo.writeMicroseconds calls and the printed read()/read_us() values of the firmware
   servo_ctor a     the host constructor; hsrun pin h ops the host class's completed writes as library commands
                    (angle level a -> write(nearest integer of a), pulse level p -> writeMicroseconds(nearest integer of p);
                    rnear: nearest integer, halves away from zero),
                    its getter values, and whether every call returned *)
From Coq Require Import ZArith QArith Qabs List Bool.
From RV Require Import Base.Wire Base.NumM Host.Servo Device.DMotor Device.DServo Proofs.DServoP.
Import ListNotations.
Open Scope Q_scope.

(* clamp clause, for ALL declarations the parser accepts, ALL commands, values and histories: every integer handed to
   Servo.write / writeMicroseconds is the rounding cround (if (x < 0.0f) x -= 1.0f; static_cast<int>(x + 0.5f)) of a value x
   within the configured bounds, and the shadow angle / pulse (the getter values) stay within the configured bounds *)
Theorem C04_servo_clamp : forall a d evs ops, ds_decl a = Some (d, evs) ->
  Forall (sdev_ok d) (fst (dsrun d ops)) /\ dsinv (dsfinal d ops) /\ same_bounds d (dsfinal d ops).
Proof. exact servo_clamp. Qed.
Print Assumptions C04_servo_clamp.

(* ... and with whole-number bounds (of either sign) the integer itself is within the bounds *)
Theorem C04_servo_clamp_whole_angle : forall d pin z (m M : Z), ds_min_a d == inject_Z m -> ds_max_a d == inject_Z M ->
  sdev_ok d (SWriteDeg pin z) -> (m <= z <= M)%Z.
Proof. exact servo_clamp_int_deg. Qed.
Print Assumptions C04_servo_clamp_whole_angle.

Theorem C04_servo_clamp_whole_pulse : forall d pin z (m M : Z), ds_min_p d == inject_Z m -> ds_max_p d == inject_Z M ->
  sdev_ok d (SWriteMicros pin z) -> (m <= z <= M)%Z.
Proof. exact servo_clamp_int_us. Qed.
Print Assumptions C04_servo_clamp_whole_pulse.

(* device = host.  Guards: the declaration's arguments are numbers (decl_ok: the literals of the modelled declarations; whole or
   fractional, of either sign); every command is within the configured bounds (servo_range_flags: the host raises otherwise).
   Then the parser accepts the declaration, setup() attaches with the nearest whole microseconds of the host's pulse bounds and
   parks at the minimum pulse, every read()/read_us() prints the host's value, no host call raises, and the library receives,
   call by call, the nearest integer of the host's angle / pulse level - also for negative levels (this replaces the two
   refutations C04_servo_negative_angle_refuted and C04_servo_fractional_pulse_bound_refuted of the unrepaired code) *)
Theorem C04_servo_partial : forall a h ops, decl_ok a = true -> servo_ctor a = inl h ->
  forallb (fun b => b) (servo_range_flags h ops) = true ->
  exists d evs, ds_decl a = Some (d, evs) /\
    evs = [SAttach (ds_pin d) (rnear (min_p h)) (rnear (max_p h)); SWriteMicros (ds_pin d) (rnear (min_p h))] /\
    snd (dsrun d ops) = snd (fst (hsrun (ds_pin d) h ops)) /\
    snd (hsrun (ds_pin d) h ops) = true /\
    fst (dsrun d ops) = fst (fst (hsrun (ds_pin d) h ops)).
Proof. exact servo_device_eq_host. Qed.
Print Assumptions C04_servo_partial.

(* the integer the host side stands for is the nearest one: within 1/2 of the level *)
Theorem C04_servo_level_nearest : forall q, Qabs (inject_Z (rnear q) - q) <= 1 # 2.
Proof. exact rnear_nearest. Qed.
Print Assumptions C04_servo_level_nearest.

(* the positive theorem the negative-angle refutation contradicted: the device's rounding
   if (x < 0.0f) x -= 1.0f; static_cast<int>(x + 0.5f)  IS the nearest integer, for ALL x (negative ones included) *)
Theorem C04_servo_device_rounds_to_nearest : forall x, cround x = rnear x /\ Qabs (inject_Z (cround x) - x) <= 1 # 2.
Proof. intro x. split; [apply cround_rnear|apply cround_nearest]. Qed.
Print Assumptions C04_servo_device_rounds_to_nearest.

(* ... and the integer the emitter computes for attach() from a float literal is the same nearest integer *)
Theorem C04_servo_attach_rounds_to_nearest : forall v, pyround v = rnear v.
Proof. exact pyround_rnear. Qed.
Print Assumptions C04_servo_attach_rounds_to_nearest.

(* the positive theorem the fractional-bound refutation contradicted: whatever numbers the declaration gives (whole or not),
   the firmware's bounds, angle and pulse after the declaration ARE the host object's *)
Theorem C04_servo_decl_state : forall a h d evs, decl_ok a = true -> servo_ctor a = inl h -> ds_decl a = Some (d, evs) -> srel h d.
Proof. exact servo_decl_state. Qed.
Print Assumptions C04_servo_decl_state.

(* ... and the parser accepts exactly the declarations the host constructor accepts (it used to compare the truncated pulse bounds) *)
Theorem C04_servo_decl_accepts : forall a, decl_ok a = true ->
  ((exists h, servo_ctor a = inl h) <-> (exists d evs, ds_decl a = Some (d, evs))).
Proof. exact servo_decl_accepts. Qed.
Print Assumptions C04_servo_decl_accepts.

(* the witness of the former finding F-C04-servo-negative-angle-rounding, with more negative angles (ties included):
   Servo(9, min_angle=-90, max_angle=90).write(-10) commands Servo.write(-10), write(-10.5) -11, write(-0.25) 0, write(-0.5) -1 *)
Example C04_servo_negative_angle_agrees :
  decl_ok neg_args = true /\ servo_ctor neg_args = inl neg_host /\
  forallb (fun b => b) (servo_range_flags neg_host neg_ops) = true /\
  (exists d evs, ds_decl neg_args = Some (d, evs) /\
     fst (dsrun d neg_ops) = [SWriteDeg 9 (-10); SWriteDeg 9 (-11); SWriteDeg 9 0; SWriteDeg 9 (-1); SWriteDeg 9 (-1)] /\
     fst (fst (hsrun 9 neg_host neg_ops)) = fst (dsrun d neg_ops) /\
     nth 1 (snd (dsrun d neg_ops)) SGNone = SGFloat (-10 # 1)).
Proof. exact servo_negative_angle_agrees. Qed.
Print Assumptions C04_servo_negative_angle_agrees.

(* the witness of the former finding F-C04-servo-fractional-pulse-bound: Servo(9, min_pulse_us=544.5) attaches with 545..2400,
   read_us() is 544.5 on both sides, and after write(90) 1472.25 on both sides *)
Example C04_servo_fractional_pulse_bound_agrees :
  decl_ok frac_args = true /\ servo_ctor frac_args = inl frac_host /\
  (exists d, ds_decl frac_args = Some (d, [SAttach 9 545 2400; SWriteMicros 9 545]) /\
     snd (dsrun d [SReadUs; SWrite (PI 90); SReadUs]) = [SGFloat (1089 # 2); SGNone; SGFloat (5889 # 4)] /\
     snd (fst (hsrun 9 frac_host [SReadUs; SWrite (PI 90); SReadUs])) = snd (dsrun d [SReadUs; SWrite (PI 90); SReadUs]) /\
     fst (dsrun d [SReadUs; SWrite (PI 90); SReadUs]) = [SWriteDeg 9 90]).
Proof. exact servo_fractional_bound_agrees. Qed.
Print Assumptions C04_servo_fractional_pulse_bound_agrees.

(* non-vacuity: a custom calibration with a negative minimum angle and an in-guard history through every command *)
Example C04_servo_guard_inhabited :
  decl_ok demo_args = true /\ servo_ctor demo_args = inl demo_host /\
  forallb (fun b => b) (servo_range_flags demo_host demo_sops) = true /\
  fst (fst (hsrun 10 demo_host demo_sops)) = [SWriteDeg 10 91; SWriteMicros 10 1450; SWriteDeg 10 1; SWriteDeg 10 0].
Proof. exact servo_demo_agrees. Qed.
Print Assumptions C04_servo_guard_inhabited.
