(* Property C04, unit C04_servo: servo commands, device vs host.  Statements only; proofs in Proofs/DServoP.v.
   ds_decl a        the globals and setup() calls the transpiler generates for  x = Servo(<literal arguments a>)
                    (None: the parser rejects the declaration); Device/DServo.v
   dsrun d ops      the Servo.write / Servo.writeMicroseconds calls and the printed read()/read_us() values of the firmware
   servo_ctor a     the host constructor; hsrun pin h ops the host class's completed writes as library commands
                    (angle level a -> write(nearest integer of a), pulse level p -> writeMicroseconds(nearest integer of p)),
                    its getter values, and whether every call returned *)
From Coq Require Import ZArith QArith Qabs List Bool.
From RV Require Import Base.Wire Base.NumM Host.Servo Device.DMotor Device.DServo Proofs.DServoP.
Import ListNotations.
Open Scope Q_scope.

(* clamp clause, for ALL declarations the parser accepts, ALL commands, values and histories: every integer handed to
   Servo.write / writeMicroseconds is the rounding static_cast<int>(x + 0.5f) of a value x within the configured bounds,
   and the shadow angle / pulse (the getter values) stay within the configured bounds *)
Theorem C04_servo_clamp : forall a d evs ops, ds_decl a = Some (d, evs) ->
  Forall (sdev_ok d) (fst (dsrun d ops)) /\ dsinv (dsfinal d ops) /\ same_bounds d (dsfinal d ops).
Proof. exact servo_clamp. Qed.
Print Assumptions C04_servo_clamp.

(* ... and with whole-number bounds whose maximum is not negative the integer itself is within the bounds *)
Theorem C04_servo_clamp_whole_angle : forall d pin z (m M : Z), ds_min_a d == inject_Z m -> ds_max_a d == inject_Z M -> (0 <= M)%Z ->
  sdev_ok d (SWriteDeg pin z) -> (m <= z <= M)%Z.
Proof. exact servo_clamp_int_deg. Qed.
Print Assumptions C04_servo_clamp_whole_angle.

Theorem C04_servo_clamp_whole_pulse : forall d pin z (m M : Z), ds_min_p d == inject_Z m -> ds_max_p d == inject_Z M -> (0 <= M)%Z ->
  sdev_ok d (SWriteMicros pin z) -> (m <= z <= M)%Z.
Proof. exact servo_clamp_int_us. Qed.
Print Assumptions C04_servo_clamp_whole_pulse.

(* device = host.  Guards: the declaration's pulse bounds are whole numbers (decl_ok); every command is within the configured
   bounds (servo_range_flags: the host raises otherwise).  Then the parser accepts the declaration, setup() attaches with the
   host's pulse bounds and parks at the minimum pulse, every read()/read_us() prints the host's value, no host call raises;
   and if moreover every commanded value is >= -1/2 (servo_level_ok) the library receives, call by call, the nearest integer
   of the host's angle / pulse level *)
Theorem C04_servo_partial : forall a h ops, decl_ok a = true -> servo_ctor a = inl h ->
  forallb (fun b => b) (servo_range_flags h ops) = true ->
  exists d evs, ds_decl a = Some (d, evs) /\
    evs = [SAttach (ds_pin d) (ctrunc (min_p h)) (ctrunc (max_p h)); SWriteMicros (ds_pin d) (ctrunc (min_p h))] /\
    snd (dsrun d ops) = snd (fst (hsrun (ds_pin d) h ops)) /\
    snd (hsrun (ds_pin d) h ops) = true /\
    (forallb servo_level_ok ops = true -> fst (dsrun d ops) = fst (fst (hsrun (ds_pin d) h ops))).
Proof. exact servo_device_eq_host. Qed.
Print Assumptions C04_servo_partial.

(* the integer the host side stands for is the nearest one: within 1/2 of the level *)
Theorem C04_servo_level_nearest : forall q, Qabs (inject_Z (rnear q) - q) <= 1 # 2.
Proof. exact rnear_nearest. Qed.
Print Assumptions C04_servo_level_nearest.

(* refutation outside the level guard: Servo(9, min_angle=-90, max_angle=90).write(-10) - the firmware commands
   Servo.write(-9) (static_cast<int>(-9.5f) truncates toward zero), the host's angle is -10; read() still prints -10 *)
Theorem C04_servo_negative_angle_refuted : exists a h ops d evs,
  servo_ctor a = inl h /\ decl_ok a = true /\ forallb (fun b => b) (servo_range_flags h ops) = true /\
  ds_decl a = Some (d, evs) /\ fst (dsrun d ops) <> fst (fst (hsrun (ds_pin d) h ops)).
Proof.
  destruct servo_negative_angle_differs as (C & F & d & evs & D & E1 & E2 & _).
  exists neg_args, neg_host, neg_ops, d, evs. repeat split; try assumption; try reflexivity.
  assert (P : ds_pin d = 9%Z) by (vm_compute in D; injection D as <- _; reflexivity).
  rewrite P, E1, E2. discriminate.
Qed.
Print Assumptions C04_servo_negative_angle_refuted.

(* refutation outside the declaration guard: Servo(9, min_pulse_us=544.5).read_us() - the parser truncates the bound to 544 *)
Theorem C04_servo_fractional_pulse_bound_refuted : exists a h d evs,
  servo_ctor a = inl h /\ ds_decl a = Some (d, evs) /\
  snd (dsrun d [SReadUs]) <> snd (fst (hsrun (ds_pin d) h [SReadUs])).
Proof.
  destruct servo_fractional_bound_differs as (C & d & evs & D & E1 & E2).
  exists frac_args, frac_host, d, evs. repeat split; try assumption.
  assert (P : ds_pin d = 9%Z) by (vm_compute in D; injection D as <- _; reflexivity).
  rewrite P, E1, E2. discriminate.
Qed.
Print Assumptions C04_servo_fractional_pulse_bound_refuted.

(* non-vacuity: a custom calibration with a negative minimum angle and an in-guard history through every command *)
Example C04_servo_guard_inhabited :
  decl_ok demo_args = true /\ servo_ctor demo_args = inl demo_host /\
  forallb (fun b => b) (servo_range_flags demo_host demo_sops) = true /\
  forallb servo_level_ok demo_sops = true /\
  fst (fst (hsrun 10 demo_host demo_sops)) = [SWriteDeg 10 91; SWriteMicros 10 1450; SWriteDeg 10 1; SWriteDeg 10 0].
Proof. exact servo_demo_agrees. Qed.
Print Assumptions C04_servo_guard_inhabited.
