(* C05 - setup()/loop() split: run-once prologue, repeated body, configure-before-use.
   Statements only; proofs are in Proofs/C05P.v; the model is Lang/Split.v + Lang/Emit.v. *)
From Coq Require Import ZArith List Bool.
From RV Require Import Lang.Split Lang.Emit Proofs.C05P Lang.EmitPin Proofs.EmitPinP.
Import ListNotations.
Open Scope Z_scope.

(* ---------------------------------------------------------------- once, then repeat *)
(* Structure of every run of the model firmware, for every program, input history and N:
   the setup() trace does not depend on N, there are exactly N pass traces, and the run with
   N passes is the prefix of the run with N+K passes (so each pass is executed once, after
   setup(), from the store the previous pass left). *)
Theorem C05_once_then_repeat : forall inp its n k,
  fst (fst (exec_phases inp n its)) = setup_of inp its /\
  length (snd (fst (exec_phases inp n its))) = n /\
  snd (fst (exec_phases inp n its)) = firstn n (snd (fst (exec_phases inp (n + k) its))).
Proof. exact once_then_repeat_structure. Qed.
Print Assumptions C05_once_then_repeat.

(* For every program parse() accepts - no rejected break, at most one [while True:] and nothing after it - the observable
   trace (numbered statements, printed values) of the firmware is CPython's: the prologue once, in source order, before
   the first pass; the body once per pass, in source order; values persisting between passes, ALSO those of names first
   assigned inside [while True:] (directly in its body or inside a nested block there) and of names bound inside nested
   blocks of the prologue - phase by phase, for every input history and every N.  No guard on the variables any more
   (repaired: F-C05-looplocal-reinit; the guard clause [vars_ok] is gone), and the clause "nothing after the main loop"
   is now part of acceptance (repaired: F-C05-postloop-in-setup, F-C05-second-main-loop-appended). *)
Theorem C05_once_then_repeat_phases : forall inp n its,
  transl_ok its = true ->
  forall ts tl cu ps pl pu,
  exec_phases inp n its = (ts, tl, cu) -> py_phases n its = (ps, pl, pu) ->
  obs ts = obs ps /\ concat (map obs tl) = concat (map obs pl) /\ cu = pu /\
  (no_main its = false -> map obs tl = map obs pl).
Proof. exact once_then_repeat_accepted. Qed.
Print Assumptions C05_once_then_repeat_phases.

Theorem C05_trace_is_pythons : forall inp n its,
  transl_ok its = true ->
  obs (exec inp n its) = py_exec n its.
Proof. exact once_then_repeat_trace. Qed.
Print Assumptions C05_trace_is_pythons.

Example C05_guard_nonvacuous :
  transl_ok w_good = true /\ one_main_last w_good = true /\
  no_main w_good = false /\
  py_exec 2 w_good = [EMark 1; EMark 2; EVal n_g 2; EMark 2; EVal n_g 4].
Proof. exact good_nonvacuous. Qed.
Print Assumptions C05_guard_nonvacuous.

(* ---------------------------------------------------------------- variables first assigned inside the main loop persist *)
(* For every program: no name is a local of loop(), no [VarDecl] node is left in setup_body or loop_body at any depth
   (a name first assigned at setup depth 0 or at the body level of the main loop - directly or hoisted there - is declared
   in Program.global_decls; the default-initialised declaration a deeper block hoists is dropped when the enclosing block
   hoists the name further), and every name assigned anywhere in the prologue or the main loop is among the globals. *)
Theorem C05_main_loop_names_are_globals : forall its,
  flat_map vardecls_irn (ir_setup its) = [] /\ flat_map vardecls_irn (ir_loop its) = [] /\ locals_of its = [].
Proof. exact no_vardecl_nodes. Qed.
Print Assumptions C05_main_loop_names_are_globals.

Theorem C05_every_assigned_name_is_global : forall its x,
  mem_name x (globals_of its) = mem_name x (flat_map assigned_stmt (fst (split its) ++ snd (split its))).
Proof. exact assigned_names_global. Qed.
Print Assumptions C05_every_assigned_name_is_global.

(* the witness of the repaired finding: flag = 1 / while True: if flag: c0 = 0; flag = 0 / c0 = c0 + 1; mon.write(c0)
   printed 1 1 1 while c0 was a local of loop(); now c0 is a global, loop_body only assigns, the firmware prints 1 2 3 *)
Example C05_looplocal_persists :
  transl_ok w_looplocal = true /\ globals_of w_looplocal = [n_flag; n_c0] /\ locals_of w_looplocal = [] /\
  ir_loop w_looplocal = [NIf n_flag [NVarAssign n_c0; NVarAssign n_flag] []; NVarAssign n_c0; NShow n_c0] /\
  obs (exec no_input 3 w_looplocal) = [EVal n_c0 1; EVal n_c0 2; EVal n_c0 3] /\
  py_exec 3 w_looplocal = [EVal n_c0 1; EVal n_c0 2; EVal n_c0 3].
Proof. exact looplocal_persists. Qed.
Print Assumptions C05_looplocal_persists.

(* t0 = g + 1 at the body level of the main loop: a global assigned in place *)
Example C05_local_assigned_first_nonvacuous :
  transl_ok w_local_ok = true /\ globals_of w_local_ok = [n_g; n_t0] /\ locals_of w_local_ok = [] /\
  ir_loop w_local_ok = [NVarAssign n_t0; NVarAssign n_g; NShow n_t0] /\
  py_exec 3 w_local_ok = [EVal n_t0 1; EVal n_t0 3; EVal n_t0 5] /\
  obs (exec no_input 3 w_local_ok) = py_exec 3 w_local_ok.
Proof. exact local_ok_example. Qed.
Print Assumptions C05_local_assigned_first_nonvacuous.

(* ---------------------------------------------------------------- nothing after the main loop *)
(* Whatever stands before a column-0 [while True:] block and whatever follows it - a plain statement, a def, another
   [while True:] - the program is rejected (ValueError "statements after the main loop are unreachable"): a clean
   rejection instead of running the unreachable statements once in setup() / appending a second body to loop(). *)
Theorem C05_after_main_loop_rejected : forall a body it r, transl_ok (a ++ IMainLoop body :: it :: r) = false.
Proof. exact after_main_rejected. Qed.
Print Assumptions C05_after_main_loop_rejected.

(* and the clause rejects nothing else: an accepted program has no main loop, or exactly one, as its last item *)
Theorem C05_accepted_shape : forall its, transl_ok its = true ->
  breaks_ok its = true /\
  (no_main its = true \/ exists a body, its = a ++ [IMainLoop body] /\ no_main a = true).
Proof. exact accepted_shape. Qed.
Print Assumptions C05_accepted_shape.

(* the witnesses of the two repaired findings: mon.write("m1"); while True: mon.write("m2") followed by mon.write("m3"),
   resp. by a second while True: - the break guard alone accepts both, parse() now rejects both *)
Example C05_postloop_rejected_nonvacuous :
  transl_ok w_postloop = false /\ breaks_ok w_postloop = true /\
  transl_ok w_twoloops = false /\ breaks_ok w_twoloops = true.
Proof. exact postloop_rejected_examples. Qed.
Print Assumptions C05_postloop_rejected_nonvacuous.

(* ---------------------------------------------------------------- names bound inside a block of the prologue *)
(* For every program (no guard any more): a name bound ANYWHERE - by a depth-0 statement or inside an if / else / for /
   while / try / except block, at any nesting depth, before or inside the main loop - is never declared inside loop():
   no [VarDecl] node for it at any depth of loop_body (an assignment to it in the main loop is a plain assignment to the
   sketch global, so the value carries over from pass to pass), and it is not a local of loop(). *)
Theorem C05_prologue_names_never_redeclared : forall its x,
  mem_name x (flat_map vardecls_irn (ir_loop its)) = false /\ mem_name x (locals_of its) = false.
Proof. exact prologue_names_global. Qed.
Print Assumptions C05_prologue_names_never_redeclared.

(* flag = 0; n = 2 / if flag: step = 10 else: step = 20 / for _ in range(4): total = 2 / while n: n = n - 1; w = 7 /
   try: q = 5 except: q = 6 / while True: total = total + 1; step = step + 1; w = w + 1; q = q + 1; mon.write(each):
   accepted (C05_trace_is_pythons applies); every name is a global, loop_body only assigns, values persist *)
Example C05_promoted_nonvacuous :
  transl_ok w_promoted = true /\
  one_main_last w_promoted = true /\
  globals_of w_promoted = [n_flag; n_n; n_step; n_total; n_w; n_q] /\ locals_of w_promoted = [] /\
  ir_loop w_promoted = [NVarAssign n_total; NVarAssign n_step; NVarAssign n_w; NVarAssign n_q;
                        NShow n_total; NShow n_step; NShow n_w; NShow n_q] /\
  py_exec 2 w_promoted = [EVal n_total 3; EVal n_step 21; EVal n_w 8; EVal n_q 6;
                          EVal n_total 4; EVal n_step 22; EVal n_w 9; EVal n_q 7] /\
  obs (exec no_input 2 w_promoted) = py_exec 2 w_promoted.
Proof. exact promoted_example. Qed.
Print Assumptions C05_promoted_nonvacuous.

(* ---------------------------------------------------------------- break guard *)
(* a [break] separated from [while True:] (or from the top level) only by [if] / [else] / [try] / [except] lines
   ([brk_at]: any nesting of them) is rejected *)
Theorem C05_break_guard : forall its,
  (forall body, In (IMainLoop body) its -> brk_at body -> transl_ok its = false) /\
  (forall s, In (IStmt s) its -> brk_at [s] -> transl_ok its = false).
Proof. exact break_guard_rejects. Qed.
Print Assumptions C05_break_guard.

(* in an accepted program setup() runs to its last statement and no pass of loop() is cut short,
   whatever the store and the button history (breaks of inner [for] / [while] loops stay inside them; a nested
   [while x:] that needs more than [while_fuel] iterations leaves the model: sticky flag, no break) *)
Theorem C05_break_never_leaves_main : forall its, transl_ok its = true ->
  (forall m, snd (run_annT (p_G (transl its)) m true (st0 (transl its)) (p_setup (transl its)) v0) = false) /\
  (forall m inp v h, snd (run_pass m inp (transl its) v h) = false).
Proof. exact break_guard_sound. Qed.
Print Assumptions C05_break_never_leaves_main.

Example C05_break_guard_nonvacuous :
  transl_ok [IMainLoop [SIf n_flag [SBreak] []]] = false /\
  transl_ok [IMainLoop [SFor 2 [SIf n_flag [SBreak] []]]] = true /\
  transl_ok [IStmt SBreak] = false.
Proof. exact break_guard_examples. Qed.
Print Assumptions C05_break_guard_nonvacuous.

(* handler bodies, else branches and try bodies inherit the guard; an inner for / while in between makes the break legal *)
Example C05_break_handler_nonvacuous :
  transl_ok [IMainLoop [STry [SMark 1 None] [SBreak]]] = false /\
  transl_ok [IMainLoop [STry [SMark 1 None] [SIf n_flag [SMark 2 None] [SBreak]]]] = false /\
  transl_ok [IMainLoop [STry [SBreak] [SMark 1 None]]] = false /\
  transl_ok [IMainLoop [SIf n_flag [SMark 1 None] [SBreak]]] = false /\
  transl_ok [IMainLoop [SFor 2 [STry [SMark 1 None] [SBreak]]]] = true /\
  transl_ok [IMainLoop [SWhile n_flag [STry [SMark 1 None] [SIf n_flag [] [SBreak]]]]] = true /\
  transl_ok [IStmt (STry [SMark 1 None] [SBreak])] = false /\
  transl_ok [IStmt (SWhile n_flag [STry [SMark 1 None] [SBreak]])] = true.
Proof. exact break_handler_examples. Qed.
Print Assumptions C05_break_handler_nonvacuous.

(* ---------------------------------------------------------------- configured before use *)
(* For every accepted program inside [well_placed] - devices declared by top-level statements before the main loop
   or (hoisted kinds) in its body; a device NAME may be bound several times (before the loop, at the loop top, same or
   different pins, same or different kinds) as long as the static resolution check passes: with the bindings and dedup
   keys emit() has at each point of the text, every statement only mentions devices whose resolved pins are configured
   by the hoisted block or by an earlier in-place configuration; one mode per pin - for every button history and every
   N: in the whole firmware trace every command, injected poll, tick and handler command on a pin / UART / Servo / LCD
   is preceded by a fitting configuration event of that resource, and no pin is configured to two modes.  The check is
   static (no N, no input, no branch outcome enters it); the theorem is about every execution. *)
Theorem C05_configured_before_use : forall inp n its,
  transl_ok its = true -> well_placed its = true ->
  cbu (exec inp n its) = true /\ one_mode (exec inp n its) = true.
Proof. exact configured_before_use. Qed.
Print Assumptions C05_configured_before_use.

Example C05_configured_nonvacuous : well_placed w_good = true /\ transl_ok w_good = true /\
  cbu (exec no_input 2 w_good) = true /\ length (exec no_input 2 w_good) = 16%nat.
Proof. exact good_well_placed. Qed.
Print Assumptions C05_configured_nonvacuous.

(* re-bound names are inside the guard: [led = Led(5)] before the loop and [led = Led(6)] at its top (pinMode(6) is
   hoisted, commands in the loop drive pin 6); [sv = Servo(9)] / [sv = Servo(10)] (one Servo object per name, attached
   to pin 9, which every write then drives).  The first program is outside the unique-names guard of the first version. *)
Example C05_rebound_nonvacuous :
  (well_placed w_rebound_led = true /\ transl_ok w_rebound_led = true /\ well_placed_unique w_rebound_led = false /\
   exec no_input 1 w_rebound_led =
     [ECfg (RPin 6) 1; ECfg RSer 0; ECfg (RPin 5) 1; EUse (RPin 5) true; EMark 1; EUse (RPin 6) true; EMark 2]) /\
  (well_placed w_rebound_servo = true /\
   exec no_input 1 w_rebound_servo =
     [ECfg (RServo 9) 0; EUse (RServo 9) true; ECfg RSer 0; EUse (RServo 9) true; EMark 2]).
Proof. exact rebound_examples. Qed.
Print Assumptions C05_rebound_nonvacuous.

(* The guard is needed: the faithful model leaves configured-before-use in two re-binding shapes (findings).
   [b = Button(5); b = Button(8)] before the loop: button_init_emitted is keyed by name, so pinMode(8) is never
   emitted, yet every pass polls digitalRead(8) (still so after 97f26e6: only the loop-top pass emits pinMode by key). *)
Theorem C05_button_rebound_refuted : exists its inp n,
  transl_ok its = true /\ one_main_last its = true /\ forallb nested_decl_free (all_stmts its) = true /\
  well_placed its = false /\ cbu (exec inp n its) = false.
Proof. exact button_rebound_refuted_ex. Qed.
Print Assumptions C05_button_rebound_refuted.

(* [us = Ultrasonic(5, 6); us.measure_distance(); us = Ultrasonic(8, 9)]: the measuring helper is generated once per
   name from the LAST declaration, so the first measurement drives pin 8 before pinMode(8, OUTPUT). *)
Theorem C05_ultra_rebound_refuted : exists its inp n,
  transl_ok its = true /\ one_main_last its = true /\ forallb nested_decl_free (all_stmts its) = true /\
  well_placed its = false /\ cbu (exec inp n its) = false.
Proof. exact ultra_rebound_refuted_ex. Qed.
Print Assumptions C05_ultra_rebound_refuted.

(* A Button declared at the top of the main-loop body (emitter.py since 97f26e6) is configured and sampled in setup()
   exactly like one declared before the loop: same hoisted block for every declaration; with emit()'s dedup sets, for
   every state of them in which the name has not had its start-up sample, the loop-top declaration emits the sample
   (preceded by the pinMode line, which is there whenever its key is new), enters the name in button_init_emitted, and a
   second declaration of the name then emits nothing. *)
Theorem C05_looptop_button_like_prologue : forall d, d_kind d = KButton -> hoist_loop d = hoist_setup d.
Proof. exact looptop_button_hoist. Qed.
Print Assumptions C05_looptop_button_like_prologue.

Theorem C05_looptop_button_sampled_once : forall nm pin r h seen,
  kmem (nm, 0, 70) seen = false -> pin <> 0 ->
  let d := mkDecl KButton nm (pin :: r) h in
  exists t, fst (hoist_loopD d seen) = t ++ [EUse (RPin pin) false] /\
            (t = [] \/ t = [ECfg (RPin pin) 2]) /\
            (kmem (nm, pin, 30) seen = false -> t = [ECfg (RPin pin) 2]) /\
            kmem (nm, 0, 70) (snd (hoist_loopD d seen)) = true /\
            fst (hoist_loopD d (snd (hoist_loopD d seen))) = [].
Proof. exact looptop_button_sampled. Qed.
Print Assumptions C05_looptop_button_sampled_once.

(* def f(): mon.write("m9") / while True: btn = Button(4, on_click=f); mon.write("m2"): inside the guard; a pin that is
   HIGH from power-up produces no click, a level that rises after the start-up sample one click in the first pass *)
Example C05_looptop_button_nonvacuous :
  well_placed w_looptop_button = true /\ transl_ok w_looptop_button = true /\
  exec_phases high_input 2 w_looptop_button =
    ([ECfg (RPin 4) 2; EUse (RPin 4) false; ECfg RSer 0],
     [[EPoll 4; EUse RSer true; EMark 2]; [EPoll 4; EUse RSer true; EMark 2]], false) /\
  snd (fst (exec_phases rising_input 2 w_looptop_button)) =
     [[EPoll 4; EHUse RSer true; EHand 9; EUse RSer true; EMark 2]; [EPoll 4; EUse RSer true; EMark 2]].
Proof. exact looptop_button_example. Qed.
Print Assumptions C05_looptop_button_nonvacuous.

(* ---------------------------------------------------------------- housekeeping *)
(* For every program, history and N (no guard): setup() contains no poll / tick / handler event,
   and every pass consists of exactly the expected polls in sorted order (each followed only by its
   own handler's output), then exactly the expected ticks, then user events only. *)
Theorem C05_housekeeping_once : forall inp n its,
  forallb is_user (fst (fst (exec_phases inp n its))) = true /\
  Forall (fun t => hk_ok (poll_pins (transl its)) (tick_list (transl its)) t = true)
         (snd (fst (exec_phases inp n its))).
Proof. exact housekeeping_once. Qed.
Print Assumptions C05_housekeeping_once.

(* the same, spelled out for one pass from any store and button state *)
Theorem C05_pass_shape : forall m inp p v h,
  exists tp tb, snd (fst (run_pass m inp p v h)) = tp ++ map ETick (tick_list p) ++ tb /\
    forallb is_hk tp = true /\ forallb is_user tb = true /\
    flat_map (fun e => match e with EPoll q => [q] | _ => [] end) tp = poll_pins p.
Proof. exact pass_shape. Qed.
Print Assumptions C05_pass_shape.

Example C05_housekeeping_nonvacuous :
  poll_pins (transl w_good) = [4] /\
  map (firstn 3) (snd (fst (exec_phases odd_input 2 w_good))) =
    [[EPoll 4; EHUse RSer true; EHand 9]; [EPoll 4; EUse (RPin 5) true; EMark 2]].
Proof. exact good_housekeeping. Qed.
Print Assumptions C05_housekeeping_nonvacuous.

(* ---------------------------------------------------------------- source order, read off the trace *)
(* For every accepted program (no other guard): when the top-level statements outside the main loop
   are straight-line, the numbered statements of setup() are exactly those statements, once each, in
   source order - and NOT the body (an accepted program has nothing after the main loop:
   C05_accepted_shape); when the loop body is straight-line, every pass shows exactly its numbered
   statements, once each, in source order. *)
Theorem C05_source_order : forall inp n its, transl_ok its = true ->
  (forallb flat_stmt (fst (split its)) = true ->
     marks_of (fst (fst (exec_phases inp n its))) = flat_map marks_stmt (fst (split its))) /\
  (forallb flat_stmt (snd (split its)) = true ->
     Forall (fun t => marks_of t = flat_map marks_stmt (snd (split its))) (snd (fst (exec_phases inp n its)))).
Proof. exact source_order. Qed.
Print Assumptions C05_source_order.

Example C05_source_order_nonvacuous :
  transl_ok w_straight = true /\
  marks_of (fst (fst (exec_phases no_input 2 w_straight))) = [1; 3] /\
  map marks_of (snd (fst (exec_phases no_input 2 w_straight))) = [[2; 4]; [2; 4]].
Proof. exact source_order_example. Qed.
Print Assumptions C05_source_order_nonvacuous.

(* ---------------------------------------------------------------- the IR placement (what parse() builds) *)
(* For every program: the numbered statements of setup_body are exactly those of the top-level
   statements outside [while True:] (all nesting depths, source order), those of loop_body exactly
   those of the [while True:] bodies, and loop_body is: one ButtonPoll per polled button (sorted),
   one LCDTick per animated LCD (sorted), then user nodes only.  This is the function the
   correspondence compares node by node with the real Program dataclasses. *)
Theorem C05_ir_placement : forall its,
  flat_map marks_irn (ir_setup its) = flat_map marks_stmt (flat_map setup_part its) /\
  flat_map marks_irn (ir_loop its) = flat_map marks_stmt (flat_map loop_part its) /\
  exists user, ir_loop its = map NPoll (poll_names its) ++ map NTick (tick_names its) ++ user /\
               Forall (fun n => match n with NPoll _ | NTick _ => False | _ => True end) user.
Proof. exact ir_placement. Qed.
Print Assumptions C05_ir_placement.

(* no button is polled twice and no LCD ticked twice per pass (the injected lists are duplicate-free);
   with unique device names, every Button declared by a top-level statement - before the main loop
   or at the top of its body - is among the polls, on its own pin *)
Theorem C05_every_button_polled_once : forall its,
  nodup_names (p_polls (transl its)) = true /\ nodup_names (p_ticks (transl its)) = true /\
  (nodup_names (map d_name (p_tab (transl its))) = true ->
   forall d pin r, In d (p_top_setup (transl its) ++ p_top_loop (transl its)) -> is_button d = true ->
     d_pins d = pin :: r ->
     mem_name (d_name d) (p_polls (transl its)) = true /\ pin_of (transl its) (d_name d) = [pin]).
Proof. exact every_button_polled. Qed.
Print Assumptions C05_every_button_polled_once.

(* ---------------------------------------------------------------- pin EXPRESSIONS (Lang/EmitPin.v) *)
(* Devices whose pin argument is an expression over the sketch's globals ([pin], [pin + 1]).  The emitted lines
   mention the expression by its text; the firmware is executed and the monitor sees numeric pins.  [fw] is the
   emit-and-run machine over requests de-duplicated by a key, assignments, and uses; [static_ok] tracks which
   pin texts have their CURRENT value configured (an assignment to x forgets every text that mentions x, a request
   whose key is already in the set configures nothing).  For EVERY key function, key set, environment and
   configuration history: if the static tracking accepts the text, the executed trace is configured-before-use. *)
Theorem C05_pin_text_tracking_sound : forall l seen V r cfg,
  (forall e m, In (e, m) V -> In (peval r e, m) cfg) ->
  static_ok seen V l = true -> pcbu_go cfg (fw seen r l) = true.
Proof. exact static_ok_sound. Qed.
Print Assumptions C05_pin_text_tracking_sound.

(* the sketch emit() makes of a straight-line script (hoisted block evaluated with the static initialisers,
   prologue with in-place configuration, n passes with the injected polls), with emit()'s keys or any other:
   inside the guard every numeric pin a command / poll / safe-stop touches was configured before, for all n *)
Theorem C05_pin_expr_configured_before_use_partial : forall kf p n,
  pins_tracked kf p n = true -> pcbu (run_sketch kf p n) = true.
Proof. exact pins_tracked_cbu. Qed.
Print Assumptions C05_pin_expr_configured_before_use_partial.

(* the guard of a run covers every prefix of it *)
Theorem C05_pin_tracking_prefix : forall l1 l2 seen V,
  static_ok seen V (l1 ++ l2) = true -> static_ok seen V l1 = true.
Proof. exact static_ok_app_l. Qed.
Print Assumptions C05_pin_tracking_prefix.

(* non-vacuity: [pin = 5; red = Led(pin); red.toggle(); pin += 1; green = Led(pin); green.toggle(); while True:
   green.toggle()] is inside the guard with emit()'s keys, and pin 6 is configured at green's declaration *)
Example C05_pin_expr_nonvacuous :
  pins_tracked kf_real w_advancing 3 = true /\ run_sketch kf_real w_advancing 1 = [PCfg 5 1; PUse 5 true; PCfg 6 1; PUse 6 true; PUse 6 true]%list.
Proof. split; [exact advancing_in_guard | exact advancing_trace]. Qed.
Print Assumptions C05_pin_expr_nonvacuous.

(* why the device NAME is part of emit()'s key: with the pin text alone as key the same script - inside the guard,
   configured-before-use with the real keys - drives pin 6 without any pinMode(6, OUTPUT) *)
Theorem C05_text_only_key_refuted :
  exists p n, pins_tracked kf_real p n = true /\ pcbu (run_sketch kf_real p n) = true /\ pcbu (run_sketch kf_text p n) = false.
Proof. exact text_key_refuted. Qed.
Print Assumptions C05_text_only_key_refuted.

(* the unchanged emitter, outside the guard (each reproduced on the real code, known_findings.d/C05.json):
   the key (name, text) is still text: a name re-bound to the same variable after it advanced gets no pinMode *)
Theorem C05_same_name_same_text_refuted :
  exists p n, pcbu (run_sketch kf_real p n) = false /\ pins_tracked kf_real p n = false.
Proof. exact same_name_refuted. Qed.
Print Assumptions C05_same_name_same_text_refuted.

(* a command evaluates the pin text when it runs, not when the device was declared *)
Theorem C05_command_reads_pin_variable_late_refuted :
  exists p n, pcbu (run_sketch kf_real p n) = false /\ pins_tracked kf_real p n = false.
Proof. exact capture_refuted. Qed.
Print Assumptions C05_command_reads_pin_variable_late_refuted.

(* the hoisted configuration block reads a pin variable before the prologue assigns it (Buzzer, loop-top Led,
   DCMotor, Button) *)
Theorem C05_hoisted_reads_pin_variable_early_refuted :
  forall p, In p [w_hoisted_buzzer; w_hoisted_looptop; w_hoisted_motor; w_hoisted_button] ->
  pcbu (run_sketch kf_real p 1) = false /\ pins_tracked kf_real p 1 = false.
Proof. exact hoisted_refuted. Qed.
Print Assumptions C05_hoisted_reads_pin_variable_early_refuted.

(* loop() carries no configuration request (loop-top declarations are configured in the hoisted block), so what a pass
   forgets is forgotten after the first pass: the guard evaluated for TWO passes decides it for every N *)
Theorem C05_pin_guard_two_passes_decide_all : forall kf p n,
  pins_tracked kf p 2 = true -> pins_tracked kf p n = true.
Proof. exact pins_tracked_two_all. Qed.
Print Assumptions C05_pin_guard_two_passes_decide_all.

(* ... hence configured-before-use of the executed sketch for all N >= 0 passes from one finite check *)
Theorem C05_pin_expr_configured_before_use_all_passes_partial : forall kf p,
  pins_tracked kf p 2 = true -> forall n, pcbu (run_sketch kf p n) = true.
Proof. exact pins_cbu_all_passes. Qed.
Print Assumptions C05_pin_expr_configured_before_use_all_passes_partial.

(* where the device name in the key is NOT needed: in a stretch of emitted text without assignments (the hoisted block
   at the top of setup()) the same text has the same value, so with (text, mode) alone as key every request is still
   honoured by an executed pinMode on its numeric pin - the name matters only across assignments (in-place
   configuration of prologue Led / RGBLed / Ultrasonic declarations), which is where C05_text_only_key_refuted lives *)
Theorem C05_text_key_suffices_without_assignments : forall l seen r cfg,
  noset l = true -> text_keyed l = true ->
  (forall e m, In (0, e, m) seen -> In (peval r e, m) cfg) ->
  forall k e m, In (AReq k e m) l -> In (peval r e, m) (cfg_of cfg (fw seen r l)).
Proof. exact text_key_honours_requests. Qed.
Print Assumptions C05_text_key_suffices_without_assignments.
