(* C05 - placeholder while the model is being validated against the code. *)
From Coq Require Import ZArith List Bool.
From RV Require Import Base.Wire Lang.Split Lang.Emit.
Import ListNotations.
Open Scope Z_scope.

Example C05_stub : split [IStmt SBreak] = ([SBreak], []).
Proof. reflexivity. Qed.
Print Assumptions C05_stub.
