(* C06 - Accepted scripts always yield well-formed, compilable Arduino C++.
   Nothing but statements, closed by [exact], each followed by Print Assumptions.
   Models: Lang/Escape.v (escape = _escape_string_literal; clex_string = the g++ lexer of one
   ordinary string literal), Lang/Sections.v (the emitter's stitching order incl. the prototypes,
   declared-before-use).
   Lang/Scope.v (C++ block scoping over the IR of the statement translator Lang/Transl.v).
   Lang/Headers.v (library includes vs. instantiated library classes), Lang/FnSelect.v (which
   specialisations of the user functions are emitted, and their C++ parameter lists).
   Lang/Reserved.v (_check_identifier: the names a script may not declare; the table is regenerated from the parser),
   Lang/ExcDecl.v (the exception classes named by except clauses and their file-scope declarations).
   Lang/EmitScope.v (C++ block scoping of function bodies: one declaration per name and scope; the block structure of the
   text _emit_block produces for every IR node kind).
   Lang/CompScope.v (list comprehensions: the lambda's parameter scope, and the declarations caused by a sequence of assignments over
   the var_types bracket of Lang/InferComp.v, against lexical scoping).
   The C++ type checker is not modelled: it is g++ itself, run by harness/props/c06.py. *)
From Coq Require Import ZArith List Bool Sorting.Sorted.
From RV Require Import Base.Wire Base.Text Lang.Escape Lang.Sections Proofs.EscapeP Proofs.SectionsP.
From RV Require Import Lang.StmtAst Lang.Transl Lang.Scope Proofs.ScopeP.
From RV Require Lang.Headers Proofs.HeadersP Lang.FnSelect Proofs.FnSelectP Lang.CAst.
From RV Require Lang.EmitScope Proofs.EmitScopeP Lang.Globals Proofs.GlobalsP.
From RV Require Gen.Reserved Lang.Reserved Proofs.ReservedP Lang.ExcDecl Proofs.ExcDeclP.
From RV Require Lang.PyAst Lang.Infer Lang.InferComp Lang.CompScope Proofs.CompScopeP Lang.Decl.
Import ListNotations.
Open Scope Z_scope.

(* ---------------------------------------------------------------- string literals *)

(* the emitted literal  quote, escape s, quote  is read back by the C++ lexer as exactly s,
   wherever it stands in the file, for EVERY string: backslashes, quotes, question marks,
   percent signs, line ends (LF, CR), tabs, every other control character, DEL.  A code
   point >= 128 is emitted verbatim and stored by the compiler as its UTF-8 bytes, exactly
   as before the repair (the lexer model keeps it as one code point).
   (Was C06_escape_roundtrip_partial with the guard "no LF / CR in s", next to
   C06_escape_refuted with the witness a LF b, until the fix "escape control characters in
   string literals".) *)
Theorem C06_escape_roundtrip : forall s rest : text,
  clex_string (34 :: escape s ++ [34] ++ rest) = Some (s, rest).
Proof. exact escape_roundtrip. Qed.
Print Assumptions C06_escape_roundtrip.

(* the literal is clean source text: whatever the string, the emitted characters contain no line
   end, no tab, no other code point below 0x20 and no DEL *)
Theorem C06_escape_image_clean : forall (s : text) (c : Z), In c (escape s) ->
  is_ctl c = false /\ c <> 10 /\ c <> 13 /\ c <> 9.
Proof. exact escape_image_clean. Qed.
Print Assumptions C06_escape_image_clean.

Theorem C06_is_ctl_meaning : forall c : Z, is_ctl c = true <-> (0 <= c < 32 \/ c = 127).
Proof. exact is_ctl_range. Qed.
Print Assumptions C06_is_ctl_meaning.

(* distinct strings give distinct literals *)
Theorem C06_escape_injective : forall s t : text, escape s = escape t -> s = t.
Proof. exact escape_injective. Qed.
Print Assumptions C06_escape_injective.

(* the pieces of an f-string are escaped one by one: that is the escape of the whole *)
Theorem C06_escape_app : forall a b : text, escape (a ++ b) = escape a ++ escape b.
Proof. exact escape_app. Qed.
Print Assumptions C06_escape_app.

(* the repair changes nothing for a string without control characters (in particular for every
   str.isprintable() string): same text as the two replace passes for backslash and quote *)
Theorem C06_escape_unchanged_without_control : forall s : text,
  (forall c, In c s -> is_ctl c = false) -> escape s = escape_quotes_only s.
Proof. exact escape_agrees_without_control. Qed.
Print Assumptions C06_escape_unchanged_without_control.

(* an octal escape of exactly three digits is complete: whatever follows it (a digit, a hex digit,
   a backslash, a line splice, the end of input) is read as if the value had been an ordinary
   character - the reason why the repair may not use shorter octal or hexadecimal escapes *)
Theorem C06_three_octal_digits_closed : forall (s : text) (v : Z) (acc : text), v <= 255 ->
  clex_go (LOct 3 v) acc s = clex_go LNorm (v :: acc) s.
Proof. exact go_oct3_done. Qed.
Print Assumptions C06_three_octal_digits_closed.

(* the witnesses of the two repaired findings now denote themselves; a control character followed by
   a digit; and what a one-digit octal / a hexadecimal escape would do with the following character *)
Example C06_escape_witnesses :
  escape [97; 10; 98] = [97; 92; 110; 98] /\
  clex_string (c_literal [97; 10; 98]) = Some ([97; 10; 98], []) /\
  escape [97; 92; 10; 98] = [97; 92; 92; 92; 110; 98] /\
  clex_string (c_literal [97; 92; 10; 98]) = Some ([97; 92; 10; 98], []) /\
  escape [1; 49] = [92; 48; 48; 49; 49] /\
  clex_string (c_literal [1; 49]) = Some ([1; 49], []) /\
  clex_string (34 :: [92; 49] ++ [49] ++ [34]) = Some ([9], []) /\
  clex_string (34 :: [92; 120; 49] ++ [98] ++ [34]) = Some ([27], []).
Proof. exact roundtrip_witnesses. Qed.
Print Assumptions C06_escape_witnesses.

Example C06_escape_nonvacuous :
  let s := [97; 92; 34; 39; 63; 63; 47; 37; 233; 10; 13; 9; 0; 27; 55; 127; 92; 10; 92; 92; 34; 92] in
  escape s = [97; 92; 92; 92; 34; 39; 63; 63; 47; 37; 233; 92; 110; 92; 114; 92; 116; 92; 48; 48; 48;
              92; 48; 51; 51; 55; 92; 49; 55; 55; 92; 92; 92; 110; 92; 92; 92; 92; 92; 34; 92; 92] /\
  clex_string (c_literal s ++ [59]) = Some (s, [59]).
Proof. exact roundtrip_demo. Qed.
Print Assumptions C06_escape_nonvacuous.

(* the expression printer of unit C01_expr (Lang/CAst.v: print_c of a string literal) writes literals with this very function *)
Theorem C06_same_escape_in_expression_printer : forall s : text, CAst.escape s = escape s.
Proof. exact cast_escape_same. Qed.
Print Assumptions C06_same_escape_in_expression_printer.

(* escaping lengthens by one per backslash / quote / LF / CR / tab and by three per other control character *)
Theorem C06_escape_length : forall s : text,
  length (escape s) = (length s + length (filter esc_simple s) + 3 * length (filter esc_octal s))%nat.
Proof. exact escape_length. Qed.
Print Assumptions C06_escape_length.

(* what the repair is for: with backslash and quote alone (the function before the repair), any string
   whose first line-end character is not preceded by a backslash yields a literal that does not lex ... *)
Theorem C06_escape_control_needed : forall (a : text) (e : Z) (b rest : text),
  (forall c, In c a -> c <> 10 /\ c <> 13) -> last a 0 <> 92 -> (e = 10 \/ e = 13) ->
  clex_string (34 :: escape_quotes_only (a ++ e :: b) ++ [34] ++ rest) = None.
Proof. exact old_escape_line_end_fails. Qed.
Print Assumptions C06_escape_control_needed.

(* ... and a backslash before the line end does not fail but silently changes the text *)
Example C06_old_escape_broken :
  clex_string (c_literal_old [97; 10; 98]) = None /\
  clex_string (c_literal_old [97; 92; 10; 98]) = Some ([97; 8], []).
Proof. exact old_escape_broken. Qed.
Print Assumptions C06_old_escape_broken.

(* ---------------------------------------------------------------- section order *)

(* includes < helper snippets < globals < prototypes < functions < ultrasonic helpers < setup < loop,
   exactly one setup and one loop, and they come last *)
Theorem C06_section_order : forall sk : sketch,
  StronglySorted (fun a b => rank a <= rank b) (map ikind (stitch sk)) /\
  count_kind KSetup (stitch sk) = 1%nat /\ count_kind KLoop (stitch sk) = 1%nat /\
  exists pre, stitch sk = pre ++ [tag KSetup (sk_setup sk); tag KLoop (sk_loop sk)].
Proof. exact section_order. Qed.
Print Assumptions C06_section_order.

(* one prototype per emitted function definition and per ultrasonic helper, in that order, each
   declaring exactly the names of its definition *)
Theorem C06_prototypes_complete : forall sk : sketch,
  map idefs (protos sk) = map fst (sk_functions sk ++ sk_ultras sk) /\
  Forall (fun it => ikind it = KProto /\ iuses it = []) (protos sk).
Proof. exact protos_spec. Qed.
Print Assumptions C06_prototypes_complete.

(* wf_order is "every use is preceded by a definition (or is a self reference)" *)
Theorem C06_wf_order_meaning : forall l : list item,
  wf_order l = true <-> declared_before l.
Proof. exact wf_order_spec. Qed.
Print Assumptions C06_wf_order_meaning.

(* when every section mentions only what the guard allows - includes, helper snippets and globals what
   precedes them; a FUNCTION or an ultrasonic helper: includes, helper snippets, globals, ANY user
   function and ANY ultrasonic helper, defined earlier or later; setup / loop everything at file scope -
   the stitched sketch declares everything before use *)
Theorem C06_wf_order_partial : forall sk : sketch,
  guard sk = true -> wf_order (stitch sk) = true /\ declared_before (stitch sk).
Proof. exact (fun sk G => conj (wf_order_partial sk G) (wf_order_partial_prop sk G)). Qed.
Print Assumptions C06_wf_order_partial.

(* a user function that calls <sensor>.measure_distance() mentions __redu_ultrasonic_measure_<sensor>,
   which is DEFINED below it: inside the guard and declared before use, for every choice of names
   (was C06_fn_uses_ultra_refuted until the fix "forward-declare functions") *)
Theorem C06_fn_uses_ultra_declared : forall core fn helper : Sections.ident,
  guard (ultra_in_function core fn helper) = true /\
  wf_order (stitch (ultra_in_function core fn helper)) = true /\
  undeclared (stitch (ultra_in_function core fn helper)) = [].
Proof. exact fn_uses_ultra_declared. Qed.
Print Assumptions C06_fn_uses_ultra_declared.

(* same for a function calling one that is defined later in the script (was C06_fn_forward_call_refuted) *)
Theorem C06_fn_forward_call_declared : forall core f g : Sections.ident,
  guard (forward_call core f g) = true /\
  wf_order (stitch (forward_call core f g)) = true /\
  undeclared (stitch (forward_call core f g)) = [].
Proof. exact fn_forward_call_declared. Qed.
Print Assumptions C06_fn_forward_call_declared.

(* what the prototypes are for: in the order WITHOUT them both shapes use an undeclared name - the
   offending item is item 1 (the function), the identifier the helper *)
Theorem C06_prototypes_needed : forall core fn helper : Sections.ident,
  helper <> fn -> helper <> core ->
  wf_order (stitch_noproto (ultra_in_function core fn helper)) = false /\
  undeclared (stitch_noproto (ultra_in_function core fn helper)) = [(1, helper)] /\
  wf_order (stitch_noproto (forward_call core fn helper)) = false.
Proof.
  exact (fun core fn helper A B =>
    conj (proj1 (noproto_fn_uses_ultra_breaks core fn helper A B))
      (conj (proj2 (noproto_fn_uses_ultra_breaks core fn helper A B))
            (noproto_fn_forward_call_breaks core fn helper A B))).
Qed.
Print Assumptions C06_prototypes_needed.

(* the repair only widens: every sketch the guard of the old order admitted is admitted now *)
Theorem C06_guard_widened : forall sk : sketch, guard_noproto sk = true -> guard sk = true.
Proof. exact guard_widened. Qed.
Print Assumptions C06_guard_widened.

Example C06_guard_nonvacuous :
  guard demo_sketch = true /\ wf_order (stitch demo_sketch) = true /\
  length (stitch demo_sketch) = 13%nat /\ undeclared (stitch demo_sketch) = [] /\
  map idefs (protos demo_sketch) = [[30]; [31]; [40]] /\
  guard_noproto demo_sketch = false /\ undeclared (stitch_noproto demo_sketch) = [(5, 31); (5, 40)].
Proof. exact guard_nonvacuous. Qed.
Print Assumptions C06_guard_nonvacuous.

(* the stitched sketch consists of exactly the given sections and the prototypes generated from the
   functions and the ultrasonic helpers: nothing lost, nothing invented *)
Theorem C06_stitch_complete : forall (sk : sketch) (k : skind) (b : body),
  In (k, b) (stitch sk) <->
  (k = KInclude /\ In b (sk_includes sk)) \/ (k = KHelper /\ In b (sk_helpers sk)) \/
  (k = KGlobal /\ In b (sk_globals sk)) \/
  (k = KProto /\ exists d, In d (sk_functions sk ++ sk_ultras sk) /\ b = (fst d, [])) \/
  (k = KFunction /\ In b (sk_functions sk)) \/
  (k = KUltra /\ In b (sk_ultras sk)) \/ (k = KSetup /\ b = sk_setup sk) \/ (k = KLoop /\ b = sk_loop sk).
Proof. exact stitch_complete. Qed.
Print Assumptions C06_stitch_complete.

(* ---------------------------------------------------------------- user variables: declared before use *)

(* For EVERY program of the statement fragment (assignments, augmented and tuple assignments,
   if/elif/else, while, for-range, break, write, sleep - Lang/Transl.v, the model of
   _handle_assignment_ast and the promotion machinery that unit C01_stmt ties to the real parser):
   in the emitted IR every assignment targets a variable that is visible under C++ block scoping -
   a global (every name first assigned at setup depth 0 or at the body level of the main loop, directly or
   hoisted there), a local declared earlier in an enclosing block, or the for variable; promoted
   declarations precede the control statement they were hoisted out of, and the rewriters turn
   the inner declarations into assignments (and drop the hoisted ones an outer block hoists again)
   without breaking this.  In setup() always; in loop()
   provided setup() has no top-level local declaration (guard; see the next theorem).
   Not covered: targets of augmented assignments (x op= e never declares: Python's NameError when
   x is unbound), reads inside expressions, redeclaration in one block, the tuple temporaries. *)
Theorem C06_transl_scoped_partial : forall (p : pprog) (c : cprog), transl p = Some c ->
  scoped_b false (gnames (c_globals c)) (c_setup c) = true /\
  (topdecls (c_setup c) = [] -> scoped_b false (gnames (c_globals c)) (c_loop c) = true).
Proof. exact transl_scoped. Qed.
Print Assumptions C06_transl_scoped_partial.

(* without the guard it is false:  a = 1 ; a, b = 2, 3 ; while True: b = b + 1   declares b as a
   LOCAL of setup() (tuple assignment that is not all-new), loop() assigns an undeclared b *)
Theorem C06_tuple_local_refuted :
  exists p c, transl p = Some c /\ scoped_b false (gnames (c_globals c)) (c_setup c) = true /\
              topdecls (c_setup c) <> [] /\ scoped_b false (gnames (c_globals c)) (c_loop c) = false.
Proof. exact tuple_local_refuted. Qed.
Print Assumptions C06_tuple_local_refuted.

(* and with the targets of augmented assignments checked as well it is false even inside the
   guard:  for i in range(3): sleep(1) ; i += 1   (the for variable lives in the for header only) *)
Theorem C06_aug_forvar_refuted :
  exists p c, transl p = Some c /\ topdecls (c_setup c) = [] /\
              scoped_prog false c = true /\ scoped_prog true c = false.
Proof. exact aug_forvar_refuted. Qed.
Print Assumptions C06_aug_forvar_refuted.

(* the promotion rewriters preserve scoping when the promoted names become visible *)
Theorem C06_rewriters_preserve_scoping : forall (aug : bool) (pn : list StmtAst.ident) (l : list cnode) (V V' : list StmtAst.ident),
  incl V V' -> incl pn V' -> scoped_b aug V l = true ->
  scoped_b aug V' (map (rewrite_if pn) l) = true /\ scoped_b aug V' (map (rewrite_deep pn) l) = true.
Proof. exact (fun aug pn l V V' I P H => conj (scoped_map_rewrite_if aug pn l V V' I P H) (scoped_map_rewrite_deep aug pn l V V' I P H)). Qed.
Print Assumptions C06_rewriters_preserve_scoping.

(* ... and so does dropping the hoisted declaration of a name the enclosing block hoists again (since the repair of
   F-C01-hoisted-decl-reinit both rewriters drop it instead of turning it into `x = <default>;`): the dropped
   declaration's name is visible anyway (it is declared further out) *)
Theorem C06_dropping_hoisted_preserves_scoping : forall (aug : bool) (pn : list StmtAst.ident) (l : list cnode) (V V' : list StmtAst.ident),
  incl V V' -> incl pn V' -> scoped_b aug V l = true ->
  scoped_b aug V' (map (rewrite_if pn) (drop_hoisted pn l)) = true /\ scoped_b aug V' (map (rewrite_deep pn) (drop_hoisted pn l)) = true.
Proof. exact (fun aug pn l V V' I P H => conj (scoped_rewrite_if_drop aug pn l V V' I P H) (scoped_rewrite_deep_drop aug pn l V V' I P H)). Qed.
Print Assumptions C06_dropping_hoisted_preserves_scoping.

Example C06_scope_nonvacuous :
  exists c, transl scope_demo = Some c /\ topdecls (c_setup c) = [] /\ scoped_prog false c = true /\
            length (c_globals c) = 5%nat /\ length (c_loop c) = 7%nat.
Proof. exact scope_demo_ok. Qed.
Print Assumptions C06_scope_nonvacuous.

(* ---------------------------------------------------------------- library headers *)

(* "the headers for every library class it instantiates are included": for EVERY list of top-level
   device declarations (any number of Servos, parallel and I2C LCDs, in any order and mixture, names
   re-used or not), each library object the emitter creates has all headers of its class among the
   includes (model of _ensure_servo_globals / _ensure_lcd_globals and the header stitching) *)
Theorem C06_headers_complete : forall (ds : list Headers.decl) (n : Z) (k : Headers.lib) (h : Headers.hdr),
  In (n, k) (Headers.objects ds) -> In h (Headers.needs k) -> In h (Headers.includes ds).
Proof. exact HeadersP.headers_complete. Qed.
Print Assumptions C06_headers_complete.

(* the executable form used by the harness on the real text means exactly that, and holds on the model *)
Theorem C06_headers_ok : forall ds : list Headers.decl,
  Headers.headers_ok (Headers.includes ds) (Headers.objects ds) = true.
Proof. exact HeadersP.headers_ok_holds. Qed.
Print Assumptions C06_headers_ok.

Theorem C06_headers_ok_meaning : forall (incs : list Headers.hdr) (objs : list (Z * Headers.lib)),
  Headers.headers_ok incs objs = true <->
  (forall n k h, In (n, k) objs -> In h (Headers.needs k) -> In h incs).
Proof. exact HeadersP.headers_ok_meaning. Qed.
Print Assumptions C06_headers_ok_meaning.

(* nothing superfluous and nothing twice: a header other than Arduino.h is included only for an
   instantiated class; Arduino.h comes first *)
Theorem C06_headers_exact : forall (ds : list Headers.decl) (h : Headers.hdr),
  In h (Headers.includes ds) ->
  h = Headers.HArduino \/ exists n k, In (n, k) (Headers.objects ds) /\ In h (Headers.needs k).
Proof. exact HeadersP.headers_exact. Qed.
Print Assumptions C06_headers_exact.

Theorem C06_includes_nodup : forall ds : list Headers.decl,
  NoDup (Headers.includes ds) /\ exists r, Headers.includes ds = Headers.HArduino :: r.
Proof. exact HeadersP.includes_nodup. Qed.
Print Assumptions C06_includes_nodup.

(* every declared library device does get its object (for an LCD name declared twice: of the class of
   the first declaration) - so the theorems above are not about an empty object list *)
Theorem C06_declared_instantiated : forall (ds : list Headers.decl) (n : Z) (k : Headers.lib),
  In (n, Some k) ds ->
  exists k', In (n, k') (Headers.objects ds) /\ (k = Headers.LServo <-> k' = Headers.LServo).
Proof. exact HeadersP.declared_instantiated. Qed.
Print Assumptions C06_declared_instantiated.

(* the independence of the three include tests matters: with the I2C include as an elif of the parallel
   one, the smallest sketch with both LCD kinds lacks Wire.h / LiquidCrystal_I2C.h *)
Example C06_headers_elif_breaks :
  Headers.headers_ok (Headers.includes_elif (Headers.hrun Headers.both_lcds)) (Headers.objects Headers.both_lcds) = false /\
  Headers.headers_ok (Headers.includes Headers.both_lcds) (Headers.objects Headers.both_lcds) = true /\
  Headers.includes Headers.both_lcds =
    [Headers.HArduino; Headers.HLiquidCrystal; Headers.HWire; Headers.HLiquidCrystalI2C].
Proof. exact HeadersP.elif_breaks. Qed.
Print Assumptions C06_headers_elif_breaks.

Example C06_headers_nonvacuous :
  Headers.includes Headers.all_libs =
    [Headers.HArduino; Headers.HServo; Headers.HLiquidCrystal; Headers.HWire; Headers.HLiquidCrystalI2C] /\
  Headers.objects Headers.all_libs = [(3, Headers.LLcdI2C); (1, Headers.LLcdPar); (5, Headers.LServo)].
Proof. exact HeadersP.all_libs_demo. Qed.
Print Assumptions C06_headers_nonvacuous.

(* ---------------------------------------------------------------- user functions: each variant once *)

(* the selection loop of parse() never selects a (function, signature) pair twice - for EVERY state of
   the specialisation tables (any variants, any recorded call signatures, any alias table, any
   primary signature), as long as the names are the keys of a dict *)
Theorem C06_fn_select_nodup : forall fs : list (Z * FnSelect.fentry),
  NoDup (map fst fs) -> NoDup (FnSelect.select fs).
Proof. exact FnSelectP.select_nodup. Qed.
Print Assumptions C06_fn_select_nodup.

(* only existing variants are selected ... *)
Theorem C06_fn_select_sound : forall (fs : list (Z * FnSelect.fentry)) (n : Z) (s : FnSelect.sig),
  In (n, s) (FnSelect.select fs) -> exists fe, In (n, fe) fs /\ In s (FnSelect.fe_variants fe).
Proof. exact FnSelectP.select_sound. Qed.
Print Assumptions C06_fn_select_sound.

(* ... and every variant that some recorded call resolves to is selected (declared before use needs it) *)
Theorem C06_fn_select_covers_calls : forall (fs : list (Z * FnSelect.fentry)) (n : Z) (fe : FnSelect.fentry) (s : FnSelect.sig),
  In (n, fe) fs -> In s (FnSelect.fe_used fe) ->
  In (FnSelect.resolve (FnSelect.fe_aliases fe) s) (FnSelect.fe_variants fe) ->
  In (n, FnSelect.resolve (FnSelect.fe_aliases fe) s) (FnSelect.select fs).
Proof. exact FnSelectP.select_covers. Qed.
Print Assumptions C06_fn_select_covers_calls.

(* a function that is never called is emitted exactly once (its primary variant when that exists) *)
Theorem C06_fn_uncalled_once : forall fe : FnSelect.fentry,
  FnSelect.fe_used fe = [] -> FnSelect.fe_variants fe <> [] ->
  exists s, FnSelect.select_one fe = [s] /\ In s (FnSelect.fe_variants fe) /\
            (forall c, FnSelect.fe_primary fe = Some c -> In c (FnSelect.fe_variants fe) -> s = c).
Proof. exact FnSelectP.select_one_uncalled. Qed.
Print Assumptions C06_fn_uncalled_once.

(* C++ level: no two emitted definitions share name AND parameter type list ("redefinition of ..."),
   provided every selected signature consists of labels of _cpp_type's table (int, float, bool, String,
   void, lists of those) - on these _cpp_type is injective; any other label would be emitted as int
   (Example below; the transpiler's inference produces no other label, so this is a guard of the model,
   not a finding) *)
Theorem C06_fn_no_redefinition_partial : forall fs : list (Z * FnSelect.fentry),
  NoDup (map fst fs) ->
  (forall n s, In (n, s) (FnSelect.select fs) -> forallb FnSelect.known s = true) ->
  FnSelect.no_redefinition (FnSelect.cpp_defs fs) = true /\ NoDup (FnSelect.cpp_defs fs).
Proof. exact FnSelectP.no_redefinition_partial. Qed.
Print Assumptions C06_fn_no_redefinition_partial.

Theorem C06_fn_no_redefinition_meaning : forall l : list (Z * list FnSelect.cty),
  FnSelect.no_redefinition l = true <-> NoDup l.
Proof. exact FnSelectP.no_redefinition_spec. Qed.
Print Assumptions C06_fn_no_redefinition_meaning.

Example C06_fn_cpp_type_not_injective :
  FnSelect.cpp_type (FnSelect.LOther 0) = FnSelect.cpp_type FnSelect.LInt /\ FnSelect.LOther 0 <> FnSelect.LInt.
Proof. exact FnSelectP.cpp_type_not_injective. Qed.
Print Assumptions C06_fn_cpp_type_not_injective.

(* the "not in keep" test is what does it: without it  def half(x): x = x / 2.0 ...  called as half(3) and
   half(2.5) (two call signatures, one variant) is selected - and then defined - twice *)
Example C06_fn_dedup_needed :
  FnSelect.keep_used_nodedup (FnSelect.fe_aliases FnSelect.half_entry) (FnSelect.fe_variants FnSelect.half_entry)
     (FnSelect.fe_used FnSelect.half_entry) = [[FnSelect.LFloat]; [FnSelect.LFloat]] /\
  FnSelect.select_one FnSelect.half_entry = [[FnSelect.LFloat]] /\
  FnSelect.no_redefinition (map (fun s => (1, FnSelect.cpp_sig s))
     (FnSelect.keep_used_nodedup (FnSelect.fe_aliases FnSelect.half_entry) (FnSelect.fe_variants FnSelect.half_entry)
        (FnSelect.fe_used FnSelect.half_entry))) = false.
Proof. exact FnSelectP.nodedup_breaks. Qed.
Print Assumptions C06_fn_dedup_needed.

Example C06_fn_select_nonvacuous :
  FnSelect.select FnSelect.demo_fns =
    [(1, [FnSelect.LFloat]); (2, [FnSelect.LInt]); (2, [FnSelect.LString]); (3, [FnSelect.LInt; FnSelect.LInt])] /\
  FnSelect.no_redefinition (FnSelect.cpp_defs FnSelect.demo_fns) = true /\
  NoDup (map fst FnSelect.demo_fns) /\
  (forall n s, In (n, s) (FnSelect.select FnSelect.demo_fns) -> forallb FnSelect.known s = true).
Proof. exact FnSelectP.demo_select. Qed.
Print Assumptions C06_fn_select_nonvacuous.

(* ---------------------------------------------------------------- every identifier declared ONCE in its scope *)

Module ES := EmitScope.

(* the scope stack is compositional: a function body is scanned statement by statement *)
Theorem C06_scope_compositional : forall (stk : list (list ES.cname)) (a b : list ES.tok),
  ES.scan stk (a ++ b) = match ES.scan stk a with Some s => ES.scan s b | None => None end.
Proof. exact EmitScopeP.scan_app. Qed.
Print Assumptions C06_scope_compositional.

(* text that leaves every scope stack as it found it can stand anywhere, any number of times *)
Theorem C06_closed_segment_invisible : forall seg : list ES.tok,
  (forall stk, stk <> [] -> ES.scan stk seg = Some stk) ->
  forall stk a b, stk <> [] -> ES.scan stk (a ++ seg ++ b) = ES.scan stk (a ++ b).
Proof. exact EmitScopeP.closed_segment_invisible. Qed.
Print Assumptions C06_closed_segment_invisible.

(* EVERY device-call template of _emit_block (Servo, DCMotor, Led, RGBLed, Buzzer calls with literal or run-time arguments,
   optional arguments present or not, every LCD call but glyph, device declarations, plain statements) is such a text -
   in every state of the emitter and inside any enclosing scopes: its helper locals live in a block of its own *)
Theorem C06_device_call_closed : forall (st : ES.est) (n : ES.node), ES.is_template n = true ->
  forall top u, ES.scan (top :: u) (snd (ES.emit_node st n)) = Some (top :: u).
Proof. exact EmitScopeP.template_closed. Qed.
Print Assumptions C06_device_call_closed.

(* hence any sequence of device calls - the same call twice, any two calls that share a helper local - in one block is
   free of redeclaration *)
Theorem C06_device_calls_any_sequence : forall (l : list ES.node) (st : ES.est) (stk : list (list ES.cname)),
  stk <> [] -> forallb ES.is_template l = true -> ES.scan stk (snd (ES.emit_block st l)) = Some stk.
Proof. exact EmitScopeP.templates_block. Qed.
Print Assumptions C06_device_calls_any_sequence.

(* a whole function body (setup, loop, a user function with its parameters) of ANY shape - device calls, local
   declarations, nested if / while / for / try blocks, button polls, LCD glyphs (whose array names carry a counter that only
   grows) - has no name declared twice in one scope, PROVIDED the declarations the script itself causes (local variables,
   for variables, catch targets, parameters, one poll per button) have none (guard: the parser's bookkeeping, not modelled
   here; Lang/Scope.v says where they are declared, g++ checks the rest) *)
Theorem C06_emit_no_redeclaration_partial : forall (st : ES.est) (params : list text) (l : list ES.node),
  ES.fn_ok (map ES.CUser params) (ES.user_proj st l) = true ->
  ES.fn_ok (map ES.CUser params) (snd (ES.emit_block st l)) = true.
Proof. exact EmitScopeP.emit_fn_ok. Qed.
Print Assumptions C06_emit_no_redeclaration_partial.

(* the same inside any enclosing scopes (a block in the middle of a function), with the invariant that carries it *)
Theorem C06_emit_simulates : forall (l : list ES.node) (st : ES.est) (stk : list (list ES.cname)) (btns : list text) us',
  stk <> [] -> EmitScopeP.glyph_bounded st stk -> btns = ES.e_buttons st ->
  ES.scan (EmitScopeP.uview stk) (flat_map (EmitScopeP.user_tok_b btns) l) = Some us' ->
  exists stk', ES.scan stk (snd (ES.emit_block st l)) = Some stk' /\ EmitScopeP.uview stk' = us' /\
               EmitScopeP.glyph_bounded (fst (ES.emit_block st l)) stk'.
Proof. exact EmitScopeP.emit_simulates. Qed.
Print Assumptions C06_emit_simulates.

(* the report of the harness oracle is sound: well-scoped text is never blamed *)
Theorem C06_first_redecl_sound : forall (l : list ES.tok) stk s, ES.scan stk l = Some s -> ES.first_redecl stk l = None.
Proof. exact EmitScopeP.first_redecl_sound. Qed.
Print Assumptions C06_first_redecl_sound.

Theorem C06_cnodup_meaning : forall l : list ES.cname, ES.cnodup l = true <-> NoDup l.
Proof. exact EmitScopeP.cnodup_NoDup. Qed.
Print Assumptions C06_cnodup_meaning.

(* non-vacuity: a block with a button poll, two inverts, two glyphs of one LCD, a for loop with a local and two device calls,
   a local of the same name after the loop, a beep - 51 tokens, well scoped; the glyph arrays are ..._1 and ..._2 *)
Example C06_emit_scope_nonvacuous :
  ES.fn_ok [] (ES.user_proj ES.demo_state ES.demo_block) = true /\
  ES.fn_ok [] (snd (ES.emit_block ES.demo_state ES.demo_block)) = true /\
  List.length (snd (ES.emit_block ES.demo_state ES.demo_block)) = 51%nat /\
  map ES.render (flat_map (fun t => match t with ES.TDecl (ES.CGlyph l k) => [ES.CGlyph l k] | _ => [] end)
                          (snd (ES.emit_block ES.demo_state ES.demo_block)))
    = ES.demo_glyph_names.
Proof. exact EmitScopeP.demo_ok. Qed.
Print Assumptions C06_emit_scope_nonvacuous.

(* the anonymous block matters: with DCMotorInvert's drive code emitted unwrapped, ONE invert() is still fine (it leaves its
   four locals in the enclosing scope), two in one block redeclare __redu_speed; the real template does not *)
Example C06_unwrapped_invert_breaks :
  ES.scan [[]] (snd (ES.emit_block_with ES.emit_node_unwrapped_invert ES.demo_state [ES.NMotorInvert])) =
    Some [ES.drive_scope] /\
  ES.scan [[]] (snd (ES.emit_block_with ES.emit_node_unwrapped_invert ES.demo_state [ES.NMotorInvert; ES.NPlain; ES.NMotorInvert])) = None /\
  option_map ES.render (ES.first_redecl [[]] (snd (ES.emit_block_with ES.emit_node_unwrapped_invert ES.demo_state [ES.NMotorInvert; ES.NPlain; ES.NMotorInvert]))) = Some ES.name_redu_speed /\
  ES.scan [[]] (snd (ES.emit_block ES.demo_state [ES.NMotorInvert; ES.NPlain; ES.NMotorInvert])) = Some [[]].
Proof. exact EmitScopeP.unwrapped_invert_breaks. Qed.
Print Assumptions C06_unwrapped_invert_breaks.

(* ---------------------------------------------------------------- file-scope definitions of the device state *)

(* emit() adds a global line only if the very same text is not there yet.  When every name is always offered with the same
   initialiser (guard: a device name is not bound twice with different constructor arguments), no name is defined twice and
   every offered line is there *)
Theorem C06_globals_once_partial : forall ls : list Globals.gline,
  Globals.consistent ls = true ->
  NoDup (map fst (Globals.globals ls)) /\ (forall l, In l ls -> In l (Globals.globals ls)).
Proof. exact (fun ls C => conj (GlobalsP.globals_nodup ls C) (GlobalsP.globals_complete ls C)). Qed.
Print Assumptions C06_globals_once_partial.

(* without the guard it is false:  arm = Servo(9) ; arm = Servo(10, min_angle=10)  offers  float __servo_min_angle_arm  twice
   with different initialisers - both lines are kept (g++: redefinition) *)
Theorem C06_globals_once_refuted : exists ls : list Globals.gline, ~ NoDup (map fst (Globals.globals ls)).
Proof. exact GlobalsP.globals_refuted. Qed.
Print Assumptions C06_globals_once_refuted.

Example C06_globals_rebound_servo :
  Globals.globals Globals.rebound_servo = [(1, 0); (2, 180); (1, 10)] /\ Globals.consistent Globals.rebound_servo = false.
Proof. exact GlobalsP.rebound_servo_lines. Qed.
Print Assumptions C06_globals_rebound_servo.

(* ---------------------------------------------------------------- identifiers reserved in C++ (repaired: F-C06-cpp-keyword-identifier) *)

Module RS := Lang.Reserved.

(* every keyword and alternative token of ISO C++17 (84 of them), setup / loop / main, and every identifier of the Arduino
   core that the emitter itself writes into sketches is in the table parser._check_identifier consults - the table is read from
   the CURRENT parser on every run (Gen/Reserved.v), the three lists are fixed in Lang/Reserved.v.
   (Before the repair such a name was emitted verbatim: `int double = 3;`.) *)
Theorem C06_keywords_reserved : forall n : text, In n RS.cpp_keywords -> RS.reserved n = true.
Proof. exact ReservedP.keywords_reserved. Qed.
Print Assumptions C06_keywords_reserved.

Theorem C06_entry_points_reserved : forall n : text, In n RS.sketch_entry_points -> RS.reserved n = true.
Proof. exact ReservedP.entry_points_reserved. Qed.
Print Assumptions C06_entry_points_reserved.

Theorem C06_core_names_reserved : forall n : text, In n RS.core_names_emitted -> RS.reserved n = true.
Proof. exact ReservedP.core_names_reserved. Qed.
Print Assumptions C06_core_names_reserved.

(* A followed by digits, of any length: the analog pin names *)
Theorem C06_analog_pins_reserved : forall (d : Z) (ds : text),
  forallb RS.is_digit (d :: ds) = true -> RS.reserved (65 :: d :: ds) = true.
Proof. exact ReservedP.analog_pins_reserved. Qed.
Print Assumptions C06_analog_pins_reserved.

(* a script is accepted iff every declaration site accepts its name ... *)
Theorem C06_check_all_meaning : forall ns : list text,
  RS.check_all ns = true <-> (forall n, In n ns -> RS.check_identifier n = Some n).
Proof. exact ReservedP.check_all_spec. Qed.
Print Assumptions C06_check_all_meaning.

(* ... and then it declares no keyword, no entry point, no core name the emitter writes, no analog pin: what the finding's
   witness (double = 3) showed to be false before the repair *)
Theorem C06_accepted_declares_nothing_reserved : forall ns : list text, RS.check_all ns = true ->
  forall n, In n ns ->
    ~ In n RS.cpp_keywords /\ ~ In n RS.sketch_entry_points /\ ~ In n RS.core_names_emitted /\ RS.is_analog_pin n = false.
Proof. exact ReservedP.accepted_declares_nothing_reserved. Qed.
Print Assumptions C06_accepted_declares_nothing_reserved.

(* one reserved name among the declarations, wherever: rejected *)
Theorem C06_one_reserved_rejects : forall (pre : list text) (n : text) (post : list text),
  RS.reserved n = true -> RS.check_all (pre ++ n :: post) = false.
Proof. exact ReservedP.one_reserved_rejects. Qed.
Print Assumptions C06_one_reserved_rejects.

(* whole names only: names that merely contain a reserved one stay ordinary identifiers (double2, Loop, class_, int_, A, A0x,
   a0, delay_ms, x, count) *)
Example C06_reserved_near_misses :
  map RS.reserved [ [100;111;117;98;108;101;50]; [76;111;111;112]; [99;108;97;115;115;95]; [105;110;116;95]; [65]; [65;48;120]; [97;48];
                    [100;101;108;97;121;95;109;115]; [120]; [99;111;117;110;116] ] = repeat false 10.
Proof. exact ReservedP.near_misses_free. Qed.
Print Assumptions C06_reserved_near_misses.

Example C06_reserved_nonvacuous :
  RS.reserved [100;111;117;98;108;101] = true /\ RS.reserved [99;108;97;115;115] = true /\ RS.reserved [110;101;119] = true /\
  RS.reserved [108;111;111;112] = true /\ RS.reserved [65;48] = true /\ RS.reserved [65;49;53] = true /\
  RS.check_all [[120]; [99;111;117;110;116]; [100;111;117;98;108;101;50]] = true /\
  RS.check_all [[120]; [100;111;117;98;108;101]; [99;111;117;110;116]] = false /\
  length RS.cpp_keywords = 84%nat /\ Nat.leb (length RS.must_be_reserved) (length Gen.Reserved.reserved_names) = true.
Proof. exact ReservedP.witnesses_reserved. Qed.
Print Assumptions C06_reserved_nonvacuous.

(* ---------------------------------------------------------------- exception classes (repaired: F-C06-named-except) *)

Module XD := Lang.ExcDecl.

(* the classes emit() declares at file scope are exactly the classes that some except clause names - in setup, in loop, in any
   function body, at any depth (try bodies, handler bodies, branches, loop bodies) ... *)
Theorem C06_exception_classes_complete : forall (setup loop : list XD.enode) (fns : list (list XD.enode)) (c : text),
  In c (XD.program_classes setup loop fns) <->
  In c (XD.named setup) \/ In c (XD.named loop) \/ exists f, In f fns /\ In c (XD.named f).
Proof. exact ExcDeclP.program_classes_complete. Qed.
Print Assumptions C06_exception_classes_complete.

(* ... each declared once (a second  struct C {};  would be a redefinition) *)
Theorem C06_exception_classes_once : forall (setup loop : list XD.enode) (fns : list (list XD.enode)),
  NoDup (XD.program_classes setup loop fns).
Proof. exact ExcDeclP.program_classes_nodup. Qed.
Print Assumptions C06_exception_classes_once.

(* in particular: the class of any handler of any try statement of a body is declared
   (was: `catch (ValueError &)` with no ValueError anywhere in the sketch) *)
Theorem C06_handler_class_declared : forall (l b : list XD.enode) hs (c : Z) (r : text) (body : list XD.enode),
  In (XD.XTry b hs) l -> In (Some (c :: r), body) hs -> In (c :: r) (XD.classes l).
Proof. exact ExcDeclP.handler_class_declared. Qed.
Print Assumptions C06_handler_class_declared.

(* the de-duplication at every level of the recursion loses nothing and invents nothing *)
Theorem C06_exception_classes_are_the_named : forall (l : list XD.enode) (c : text), In c (XD.classes l) <-> In c (XD.named l).
Proof. exact ExcDeclP.classes_complete. Qed.
Print Assumptions C06_exception_classes_are_the_named.

(* the qualified name in the catch header (exception.replace(".", "::")) is the path the declaration introduces
   (name.split(".") -> namespaces around a struct), for every class name without a colon *)
Theorem C06_catch_names_the_declared_class : forall name : text,
  (forall ch, In ch name -> ch <> 58) -> XD.catch_path name = XD.decl_path name.
Proof. exact ExcDeclP.catch_path_is_decl_path. Qed.
Print Assumptions C06_catch_names_the_declared_class.

(* ValueError named twice and a.B once and KE once, handlers without a class: three declarations;
   struct ValueError {};   namespace a { namespace b { struct Err {}; } } *)
Example C06_exception_classes_nonvacuous :
  XD.classes XD.demo_tree = [[86;69]; [97;46;66]; [75;69]] /\
  XD.named XD.demo_tree = [[86;69]; [97;46;66]; [86;69]; [75;69]] /\
  XD.class_decl [86;97;108;117;101;69;114;114;111;114] =
    [115;116;114;117;99;116;32;86;97;108;117;101;69;114;114;111;114;32;123;125;59] /\
  XD.class_decl [97;46;98;46;69;114;114] =
    XD.k_namespace ++ [32;97;32;123;32] ++ XD.k_namespace ++ [32;98;32;123;32] ++ XD.k_struct ++ [32;69;114;114;32;123;125;59;32;125;32;125] /\
  XD.decl_path [97;46;98;46;69;114;114] = [[97]; [98]; [69;114;114]] /\
  XD.catch_path [97;46;98;46;69;114;114] = [[97]; [98]; [69;114;114]] /\
  XD.dots_to_colons [97;46;98;46;69;114;114] = [97;58;58;98;58;58;69;114;114].
Proof. exact ExcDeclP.demo. Qed.
Print Assumptions C06_exception_classes_nonvacuous.

(* ---------------------------------------------------------------- names bound in a scope of their own: list comprehensions *)

Module CS := Lang.CompScope.

(* C++ side.  [elt for t in range(n)] becomes a lambda `[&](int t) { return elt; }`: t is declared as the parameter of a block of
   its own.  For EVERY right-hand side (comprehensions nested to any depth, targets named like each other, like the assigned
   variable, like any variable of the enclosing scopes) and every state of the enclosing scopes, the text declares nothing
   twice and leaves the enclosing scopes exactly as they were: the outer declaration of a name the comprehension re-uses is
   neither hidden after it nor redeclared by it *)
Theorem C06_comprehension_scope_closed : forall (r : InferComp.rhs) (top : list ES.cname) (u : list (list ES.cname)),
  ES.scan (top :: u) (CS.comp_toks r) = Some (top :: u).
Proof. exact CompScopeP.comp_toks_closed. Qed.
Print Assumptions C06_comprehension_scope_closed.

(* ... inside the lambda the innermost scope holds the comprehension variable and nothing else *)
Theorem C06_comprehension_target_own_scope : forall t n elt (stk : list (list ES.cname)) (rest : list ES.tok),
  ES.scan stk (CS.comp_toks (InferComp.RComp t n elt) ++ rest) =
  ES.scan ([ES.CUser t] :: stk) (CS.comp_toks elt ++ [ES.TClose] ++ rest).
Proof. exact CompScopeP.comp_target_own_scope. Qed.
Print Assumptions C06_comprehension_target_own_scope.

(* a block made of any sequence of assignments  x = expression | comprehension  (first assignment = declaration): no name is
   declared twice in it, whatever names the comprehensions use, as long as the bookkeeping `declared` knows the names the
   block holds already *)
Theorem C06_assignments_block_scoped : forall (l : list (text * InferComp.rhs)) (declared : list text)
    (top : list ES.cname) (u : list (list ES.cname)),
  (forall x, ES.cmem (ES.CUser x) top = true -> tmem x declared = true) ->
  exists top', ES.scan (top :: u) (CS.prog_toks declared l) = Some (top' :: u).
Proof. exact CompScopeP.prog_scoped. Qed.
Print Assumptions C06_assignments_block_scoped.

(* Python side, the recorded types (var_types is one mutable table that the comprehension writes its target into while it works
   on the element): for every user-function table, every state and every assignment whose plain sub-expressions do not
   change var_types by themselves (guard rhs_pure: no `name + "text"` contagion - unit C02), the assignment changes the
   recorded type of the ASSIGNED name only - in particular not the one of a comprehension target *)
Theorem C06_assignment_keeps_other_types : forall F A C (st : CS.dstate) x r st' y,
  InferComp.rhs_pure F A C (CS.ds_types st) r = true -> CS.assign_decl F A C st x r = Some st' -> text_eqb y x = false ->
  tlookup y (CS.ds_types st') = tlookup y (CS.ds_types st).
Proof. exact CompScopeP.assign_keeps_other_types. Qed.
Print Assumptions C06_assignment_keeps_other_types.

(* hence the declarations a sequence of assignments causes are those of LEXICAL scoping (ref_decls: each element typed under a
   table extended by its target, the extension invisible to every later statement): every variable is declared with the C++
   type of the label of its first assignment, read off the declarations of the variables that assignment mentions *)
Theorem C06_declarations_are_lexical_partial : forall F A C (l : list (text * InferComp.rhs)) (st st' : CS.dstate),
  CS.pure_run F A C (CS.ds_types st) l = true -> CS.run_decls F A C st l = Some st' ->
  exists ds, CS.ref_decls F A C (CS.ds_types st) (CS.ds_declared st) l = Some ds /\ CS.ds_decls st' = CS.ds_decls st ++ ds.
Proof. exact CompScopeP.run_is_lexical. Qed.
Print Assumptions C06_declarations_are_lexical_partial.

(* one declaration per name - for ANY inference function, also a wrong one *)
Theorem C06_assignments_declare_once : forall inf (l : list (text * InferComp.rhs)) (st st' : CS.dstate),
  CS.run_with inf st l = Some st' ->
  NoDup (map fst (CS.ds_decls st)) /\ incl (map fst (CS.ds_decls st)) (CS.ds_declared st) ->
  NoDup (map fst (CS.ds_decls st')) /\ incl (map fst (CS.ds_decls st')) (CS.ds_declared st').
Proof. exact CompScopeP.run_declares_once. Qed.
Print Assumptions C06_assignments_declare_once.

(* the `finally` of the comprehension must RESTORE the saved entry: with a `finally` that always pops it,
   v = 2.5 ; xs = [v * 2 for v in range(3)] ; w = v   declares  int w  for a value that is the float v *)
Theorem C06_popping_finally_refuted :
  exists l st', CS.pure_run [] [] None [] l = true /\ CS.run_pop [] [] None CS.st_empty l = Some st' /\
                CS.ref_decls [] [] None [] [] l <> Some (CS.ds_decls st').
Proof. exact CompScopeP.pop_refuted. Qed.
Print Assumptions C06_popping_finally_refuted.

Example C06_comprehension_reuse_demo :
  CS.pure_run [] [] None [] CS.reuse_prog = true /\
  option_map CS.ds_decls (CS.run_decls [] [] None CS.st_empty CS.reuse_prog) =
    Some [(CS.n_v, Infer.CFloat); (CS.n_xs, Infer.CList Infer.CInt); (CS.n_w, Infer.CFloat)] /\
  CS.ref_decls [] [] None [] [] CS.reuse_prog =
    Some [(CS.n_v, Infer.CFloat); (CS.n_xs, Infer.CList Infer.CInt); (CS.n_w, Infer.CFloat)] /\
  option_map CS.ds_decls (CS.run_pop [] [] None CS.st_empty CS.reuse_prog) =
    Some [(CS.n_v, Infer.CFloat); (CS.n_xs, Infer.CList Infer.CInt); (CS.n_w, Infer.CInt)].
Proof. exact CompScopeP.reuse_demo. Qed.
Print Assumptions C06_comprehension_reuse_demo.

(* v = "cm" ; xs = [[v + 1 for v in range(2)] for v in range(3)] ; w = v ; v = "mm" : three declarations, seven scope tokens,
   the block ends with w, xs, v in ONE scope; a doubly nested comprehension over v inside a scope that holds v is closed *)
Example C06_comprehension_scope_nonvacuous :
  CS.pure_run [] [] None [] CS.nested_prog = true /\
  option_map CS.ds_decls (CS.run_decls [] [] None CS.st_empty CS.nested_prog) =
    Some [(CS.n_v, Infer.CString); (CS.n_xs, Infer.CList (Infer.CList Infer.CInt)); (CS.n_w, Infer.CString)] /\
  option_map (fun st => tlookup CS.n_v (CS.ds_types st)) (CS.run_decls [] [] None CS.st_empty CS.nested_prog) = Some (Some Infer.TString) /\
  length (CS.prog_toks [] CS.nested_prog) = 7%nat /\
  ES.scan [[]] (CS.prog_toks [] CS.nested_prog) = Some [[ES.CUser CS.n_w; ES.CUser CS.n_xs; ES.CUser CS.n_v]] /\
  ES.scan [[ES.CUser CS.n_v]] (CS.comp_toks (InferComp.RComp CS.n_v (PyAst.EInt 3) (InferComp.RComp CS.n_v (PyAst.EInt 2) (InferComp.RPlain (PyAst.EName CS.n_v))))) = Some [[ES.CUser CS.n_v]].
Proof. exact CompScopeP.nested_demo. Qed.
Print Assumptions C06_comprehension_scope_nonvacuous.

(* the binder that gets NO scope of its own: a function that assigns a name which is also a module-level variable (Python: a local
   of the function).  label = "ab" ; def twice(): label = 4 ; return label * 2 : the function is emitted with no local at all and
   returns int, the only declaration of label is the String global - the assignment of an int-labelled value writes to a
   declaration of another type (F-C06-fn-local-shadows-global; g++: invalid conversion).  Over Lang/Decl.v, the model of
   _parse_function that unit C02 ties to parser.py *)
Theorem C06_fn_local_shadows_global_refuted :
  exists ps d,
    Decl.run_items None CS.shadow_items = Some ps /\ Decl.selected_functions (Decl.p_fe ps) = [(CS.n_twice, d)] /\
    Decl.p_globals ps = [(CS.n_label, Infer.CString)] /\ Decl.fd_locals d = [] /\ Decl.fd_params d = [] /\ Decl.fd_ret d = Infer.CInt /\
    Infer.infer_s [] [] None [] (PyAst.EInt 4) = Some (Infer.TInt, []) /\
    CS.fn_assign_consistent (Decl.p_globals ps) d CS.n_label Infer.TInt = false.
Proof. exact CompScopeP.fn_local_shadows_global. Qed.
Print Assumptions C06_fn_local_shadows_global_refuted.

(* inside the guard (the global and the function's value have one type) the same shape is consistent *)
Example C06_fn_assigns_global_same_type :
  exists ps d,
    Decl.run_items None CS.same_type_items = Some ps /\ Decl.selected_functions (Decl.p_fe ps) = [(CS.n_twice, d)] /\
    CS.fn_assign_consistent (Decl.p_globals ps) d CS.n_label Infer.TInt = true.
Proof. exact CompScopeP.fn_assigns_global_same_type. Qed.
Print Assumptions C06_fn_assigns_global_same_type.
