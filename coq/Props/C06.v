(* C06 - Accepted scripts always yield well-formed, compilable Arduino C++.
   Nothing but statements, closed by [exact], each followed by Print Assumptions.
   Models: Lang/Escape.v (escape = _escape_string_literal; clex_string = the g++ lexer of one
   ordinary string literal), Lang/Sections.v (the emitter's stitching order, declared-before-use).
   The C++ type checker is not modelled: it is g++ itself, run by harness/props/c06.py. *)
From Coq Require Import ZArith List Bool Sorting.Sorted.
From RV Require Import Base.Wire Lang.Escape Lang.Sections Proofs.EscapeP Proofs.SectionsP.
Import ListNotations.
Open Scope Z_scope.

(* ---------------------------------------------------------------- string literals *)

(* the emitted literal  quote, escape s, quote  is read back by the C++ lexer as exactly s,
   wherever it stands in the file, for EVERY string without a line-end character
   (LF 10, CR 13) - in particular for every str.isprintable() string, the property's
   quantifier: backslashes, quotes, question marks, percent signs, non-ASCII are all fine *)
Theorem C06_escape_roundtrip_partial : forall s rest : text,
  (forall c, In c s -> c <> 10 /\ c <> 13) ->
  clex_string (34 :: escape s ++ [34] ++ rest) = Some (s, rest).
Proof. exact escape_roundtrip. Qed.
Print Assumptions C06_escape_roundtrip_partial.

(* without the guard it is false: a raw line end lands inside the literal (unterminated
   literal; g++: missing terminating quote character) - witness a, LF, b *)
Theorem C06_escape_refuted : exists s : text, clex_string (34 :: escape s ++ [34]) = None.
Proof. exact escape_refuted. Qed.
Print Assumptions C06_escape_refuted.

(* the guard is (all but) necessary: any string whose first line-end character is not
   preceded by a backslash yields a literal that does not lex *)
Theorem C06_escape_line_end_fails : forall (a : text) (e : Z) (b rest : text),
  (forall c, In c a -> c <> 10 /\ c <> 13) -> last a 0 <> 92 -> (e = 10 \/ e = 13) ->
  clex_string (34 :: escape (a ++ e :: b) ++ [34] ++ rest) = None.
Proof. exact escape_line_end_fails. Qed.
Print Assumptions C06_escape_line_end_fails.

(* distinct strings give distinct literals *)
Theorem C06_escape_injective : forall s t : text, escape s = escape t -> s = t.
Proof. exact escape_injective. Qed.
Print Assumptions C06_escape_injective.

(* the two replace passes are one pass: backslash -> 2 backslashes, quote -> backslash quote *)
Theorem C06_escape_one_pass : forall s : text,
  escape s = flat_map (fun c => if c =? 92 then [92; 92] else if c =? 34 then [92; 34] else [c]) s.
Proof. exact escape_flat. Qed.
Print Assumptions C06_escape_one_pass.

Example C06_escape_nonvacuous :
  let s := [97; 92; 34; 39; 63; 63; 47; 37; 233; 92; 92; 34; 92] in
  no_line_end s /\
  escape s = [97; 92; 92; 92; 34; 39; 63; 63; 47; 37; 233; 92; 92; 92; 92; 92; 34; 92; 92] /\
  clex_string (c_literal s ++ [59]) = Some (s, [59]).
Proof. exact roundtrip_demo. Qed.
Print Assumptions C06_escape_nonvacuous.

(* and a backslash before the line end does not fail but silently changes the text *)
Example C06_escape_splice_corrupts :
  clex_string (c_literal [97; 92; 10; 98]) = Some ([97; 8], []).
Proof. exact escape_splice_corrupts. Qed.
Print Assumptions C06_escape_splice_corrupts.

(* ---------------------------------------------------------------- section order *)

(* includes < helper snippets < globals < functions < ultrasonic helpers < setup < loop,
   exactly one setup and one loop, and they come last *)
Theorem C06_section_order : forall sk : sketch,
  StronglySorted (fun a b => rank a <= rank b) (map ikind (stitch sk)) /\
  count_kind KSetup (stitch sk) = 1%nat /\ count_kind KLoop (stitch sk) = 1%nat /\
  exists pre, stitch sk = pre ++ [tag KSetup (sk_setup sk); tag KLoop (sk_loop sk)].
Proof. exact section_order. Qed.
Print Assumptions C06_section_order.

(* wf_order is "every use is preceded by a definition (or is a self reference)" *)
Theorem C06_wf_order_meaning : forall l : list item,
  wf_order l = true <-> declared_before l.
Proof. exact wf_order_spec. Qed.
Print Assumptions C06_wf_order_meaning.

(* consequence of the order: a user function that calls <sensor>.measure_distance()
   mentions __redu_ultrasonic_measure_<sensor> BEFORE its definition - for every choice
   of names; the offending item is item 1 (the function), the identifier the helper *)
Theorem C06_fn_uses_ultra_refuted : forall core fn helper : ident,
  helper <> fn -> helper <> core ->
  wf_order (stitch (ultra_in_function core fn helper)) = false /\
  undeclared (stitch (ultra_in_function core fn helper)) = [(1, helper)].
Proof. exact fn_uses_ultra_breaks. Qed.
Print Assumptions C06_fn_uses_ultra_refuted.

(* same for a function calling one that is defined later in the script (no prototypes) *)
Theorem C06_fn_forward_call_refuted : forall core f g : ident,
  g <> f -> g <> core -> wf_order (stitch (forward_call core f g)) = false.
Proof. exact fn_forward_call_breaks. Qed.
Print Assumptions C06_fn_forward_call_refuted.

(* when every section mentions only what the guard allows - functions: includes, helper
   snippets, globals, themselves and EARLIER functions (no ultrasonic helper, no later
   function) - the stitched sketch declares everything before use *)
Theorem C06_wf_order_partial : forall sk : sketch,
  guard sk = true -> wf_order (stitch sk) = true /\ declared_before (stitch sk).
Proof. exact (fun sk G => conj (wf_order_partial sk G) (wf_order_partial_prop sk G)). Qed.
Print Assumptions C06_wf_order_partial.

(* the proposed repair (prototypes after the globals) is adequate in the model *)
Theorem C06_proto_fix_wf : forall sk : sketch,
  guard_proto sk = true -> wf_order (stitch_proto sk) = true.
Proof. exact proto_fix_wf. Qed.
Print Assumptions C06_proto_fix_wf.

Theorem C06_proto_fix_covers_findings : forall core fn helper : ident,
  wf_order (stitch_proto (ultra_in_function core fn helper)) = true /\
  wf_order (stitch_proto (forward_call core fn helper)) = true.
Proof. exact proto_fix_covers_findings. Qed.
Print Assumptions C06_proto_fix_covers_findings.

Example C06_guard_nonvacuous :
  guard demo_sketch = true /\ wf_order (stitch demo_sketch) = true /\
  length (stitch demo_sketch) = 10%nat /\ undeclared (stitch demo_sketch) = [].
Proof. exact guard_nonvacuous. Qed.
Print Assumptions C06_guard_nonvacuous.
