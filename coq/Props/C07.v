(* C07 - every line is accounted for and stays in the block Python assigns it to.
   Nothing but statements, closed by [exact], each followed by Print Assumptions.

   Model side: Lang/Lex.v (Reduino's _indent_of, _strip_inline_comment, _collect_block,
   _collect_if/try_structure, the block skeleton of _parse_simple_lines and of parse()).
   Specification side: Lang/PyLayout.v (Python's layout rules), Lang/Layout.v (the re-layout
   relation and its guard), Lang/DispatchSpec.v (the fixed set of lines that may disappear);
   Gen/Dispatch.v is the table observed on the current /repo.

   The model is the parser WITH the repair "fix: comments never change the block structure the
   parser sees"; the three comment defects that used to be refuted here (column-0 comment inside
   a block, trailing comment on a column-0 header, trailing comment on elif/else/except) are now
   covered by positive theorems; their former witnesses are kept as Examples.  The dispatch table is
   the parser WITH the repair "fix: translate `continue` instead of silently dropping it": the three
   `continue` kinds left DispatchSpec.known_gaps and are pinned (C07_continue_accounted); and WITH the repair
   "fix: reject statements the transpiler cannot translate instead of dropping them": the 127 remaining
   (kind, context) pairs left known_gaps, are pinned Rejected (C07_former_gaps_rejected) and the positive
   theorem C07_dispatch_total_partial replaces the refutation; the tail of the dispatch loop is modelled
   (LineDispatch.tail_class) with C07_tail_rejects_unrecognised.

   Firmware side: Lang/EmitBlocks.v models what _emit_block / emit() write for the control-flow
   nodes (one stanza per branch, loop and handler, ALSO when its body emitted nothing) and, as
   specification, how C++ groups lines into compound statements and under which conditions each
   line then runs; the theorems say that the block tree of the firmware is Python's block tree.

   Statement layer between the two (third round): Lang/Promote.v models variable promotion (_rewrite_nodes,
   the local _rewrite of the if handler, _make_promotion_decls and what the while / for / try / if handlers
   append), Lang/EmitStmt.v models _emit_block's statement nodes next to the de-duplication sets it carries
   through setup(); the theorems say that no statement of the script leaves its block or disappears in either
   step, for every set of promoted names and every state of the sets. *)
From Coq Require Import ZArith List Bool.
From RV Require Import Base.Wire Base.Text Lang.Rx Lang.Lex Lang.PyLayout Lang.Layout Lang.DispatchSpec Lang.EmitBlocks Lang.ScriptFw Lang.LineShapes Lang.LineDispatch Lang.Promote Lang.EmitStmt Lang.TopFlow Gen.Dispatch Gen.LineRx.
From RV Require Import Proofs.LexP Proofs.RelayoutP Proofs.RoundTripP Proofs.C07P Proofs.EmitBlocksP Proofs.FirmwareBlocksP.
From RV Require Import Proofs.TopRoundTripP Proofs.ScriptFwP Proofs.ScriptTopP Proofs.RxP Proofs.LineShapesP Proofs.LineDispatchP.
From RV Require Import Proofs.PromoteP Proofs.EmitStmtP Proofs.TopFlowP.
Import ListNotations.
Open Scope Z_scope.

(* ---------------------------------------------------------------- comments *)

(* _strip_inline_comment removes exactly Python's comment (then trailing blanks), for every
   line without a triple quote and without a backslash outside string literals *)
Theorem C07_strip_comment_correct_partial : forall line,
  no_triple_quote line = true -> no_code_backslash PCode line = true ->
  strip_inline_comment line = if py_has_comment line then rstrip (py_strip_comment line) else line.
Proof. exact strip_comment_correct. Qed.
Print Assumptions C07_strip_comment_correct_partial.

(* ... and not for triple-quoted literals: a '#' inside one can be cut as if it were a comment *)
Theorem C07_strip_comment_triple_quote_refuted :
  exists line, no_code_backslash PCode line = true /\ py_has_comment line = false /\
               strip_inline_comment line <> line.
Proof. exact strip_comment_triple_quote_refuted. Qed.
Print Assumptions C07_strip_comment_triple_quote_refuted.

(* ---------------------------------------------------------------- block extent *)

(* _collect_block = Python's block for scripts indented with spaces only or tabs only (and no
   exotic white space); comment-only lines may stand at ANY column, column 0 included *)
Theorem C07_collect_block_partial : forall lines start,
  block_guard lines start = true -> collect_block lines start = py_block lines start.
Proof. exact collect_block_is_py_block. Qed.
Print Assumptions C07_collect_block_partial.

(* non-vacuity: a block with a comment at column 0, a blank line and a statement *)
Example C07_collect_block_nonvacuous :
  block_guard [[119;104;105;108;101;32;120;58]; [35;32;99]; []; [32;32;32;97;61;49]; [98;61;50]] 0 = true
  /\ fst (py_block [[119;104;105;108;101;32;120;58]; [35;32;99]; []; [32;32;32;97;61;49]; [98;61;50]] 0)
     = [[35;32;99]; []; [32;32;32;97;61;49]].
Proof. split; vm_compute; reflexivity. Qed.
Print Assumptions C07_collect_block_nonvacuous.

(* (repaired; was C07_comment_col0_refuted) a comment-only line at any column inside a block moves
   no statement out of the block: the logical lines _collect_block returns are Python's *)
Theorem C07_comment_any_column : forall lines start,
  block_guard lines start = true ->
  filter py_logical (fst (collect_block lines start)) = py_block_logical lines start.
Proof. exact comment_any_column. Qed.
Print Assumptions C07_comment_any_column.

(* the former witness (`# note` at column 0 between two statements of a while block) is inside
   the guard, keeps both statements in the block, and parses like the script without the comment *)
Example C07_comment_col0_witness :
  block_guard w_col0 0 = true
  /\ filter py_logical (fst (collect_block w_col0 0)) = [[32;32;32;32;97;32;61;32;49]; [32;32;32;32;98;32;61;32;50]]
  /\ map erase_item (parse_top w_col0) = map erase_item (parse_top w_col0_plain).
Proof. exact comment_col0_witness. Qed.
Print Assumptions C07_comment_col0_witness.

(* the elif/else/except probes skip a line iff _strip_inline_comment(raw).strip() is empty: these
   are exactly the lines _collect_block keeps in a block (blank or comment-only, any column) *)
Theorem C07_probe_skips_junk : forall l, is_nil (strip (strip_inline_comment l)) = junk l.
Proof. exact probe_blank_is_junk. Qed.
Print Assumptions C07_probe_skips_junk.

(* a tab counts 4 columns for Reduino, up to 8 for Python *)
Theorem C07_mixed_tabs_refuted :
  exists lines start,
    block_guard_nu lines start = true /\
    filter py_logical (fst (collect_block lines start)) <> py_block_logical lines start.
Proof. exact mixed_tabs_refuted. Qed.
Print Assumptions C07_mixed_tabs_refuted.

(* (repaired; was C07_header_trailing_comment_refuted) a trailing comment on a column-0 line of the
   script - the `while True:` header, any other block header, a def, an import, a statement -
   changes nothing of what parse() builds from it and from what follows: same blocks, same
   function, same phase *)
Theorem C07_header_trailing_comment_invisible : forall h tr body,
  trail_ok true tr = true -> stmt_ok h = true ->
  map erase_item (parse_top ((h ++ tr) :: body)) = map erase_item (parse_top (h :: body)).
Proof. exact header_trailing_comment_invisible. Qed.
Print Assumptions C07_header_trailing_comment_invisible.

(* the former witness `while True:  # main loop`: hypotheses satisfied, body = the main loop *)
Example C07_header_trailing_comment_shape :
  map erase_item (parse_top w_hdr_comment) = [SLoop [SLeaf [108;101;100;46;116;111;103;103;108;101;40;41]]]
  /\ map erase_item (parse_top w_hdr_plain) = [SLoop [SLeaf [108;101;100;46;116;111;103;103;108;101;40;41]]].
Proof. exact header_trailing_comment_shape. Qed.
Print Assumptions C07_header_trailing_comment_shape.

(* (repaired; was C07_else_trailing_comment_refuted - the general statement is C07_roundtrip_partial,
   whose guard now allows a trailing comment on elif/else/except) the former witness
   `else:  # otherwise` parses like `else:`, the branch stays a branch *)
Example C07_else_trailing_comment_witness :
  map erase (parse_lines w_else_comment) = map erase (parse_lines w_else_plain)
  /\ map erase (parse_lines w_else_comment)
     = [SBlock KIf [105;102;32;120;32;62;32;48;58] [SLeaf [97;32;61;32;49]];
        SBlock KElse [101;108;115;101;58] [SLeaf [97;32;61;32;50]]].
Proof. exact else_trailing_comment_witness. Qed.
Print Assumptions C07_else_trailing_comment_witness.

(* ---------------------------------------------------------------- re-layout invariance (nested level) *)

(* the block-skeleton parser (model of _parse_simple_lines) applied to ANY layout inside the guard
   - junk lines (blank / white-space-only / comment-only, at ANY column) before any statement,
   elif/else/except included; trailing blanks or a trailing comment after any statement,
   elif/else/except included; any indentation unit of blanks and tabs - gives back the skeleton *)
Theorem C07_roundtrip_partial : forall u ns,
  layout_ok u ns = true ->
  map erase (parse_lines (render_list (ind_unit u) O ns)) = map lerase ns.
Proof. exact parse_render_roundtrip. Qed.
Print Assumptions C07_roundtrip_partial.

(* hence two layouts of the same skeleton are parsed into the same block tree *)
Theorem C07_relayout_invariant_partial : forall u1 u2 ns1 ns2,
  layout_ok u1 ns1 = true -> layout_ok u2 ns2 = true -> map lerase ns1 = map lerase ns2 ->
  map erase (parse_lines (render_list (ind_unit u1) O ns1)) = map erase (parse_lines (render_list (ind_unit u2) O ns2)).
Proof. exact relayout_invariant. Qed.
Print Assumptions C07_relayout_invariant_partial.

(* non-vacuity: a tab-indented layout with comment lines (one at column 0 inside the if block,
   one at column 0 before `else:`), blank lines and trailing comments (one on `else:`), and a
   3-space layout of the same skeleton (column-0 comment inside the while block), are both
   inside the guard *)
Definition ex_layout_a : list ltree :=
  [LBlock [[35;32;99]] KIf [105;102;32;120;32;62;32;49;58] [32;32;35;32;119;104;121]
     [LLeaf [[]; [35;32;99;111;108;48]] [97;32;61;32;49] [32;35;32;116];
      LBlock [] KWhile [119;104;105;108;101;32;97;32;60;32;51;58] [] [LLeaf [] [97;32;43;61;32;49] [32;32]]];
   LBlock [[]; [35;32;120]] KElse [101;108;115;101;58] [32;35;32;111] [LLeaf [] [98;32;61;32;50] []]].
Definition ex_layout_b : list ltree :=
  [LBlock [] KIf [105;102;32;120;32;62;32;49;58] []
     [LLeaf [] [97;32;61;32;49] [];
      LBlock [[32;32;32;32;32;32;35;32;120]] KWhile [119;104;105;108;101;32;97;32;60;32;51;58] [35;32;103;111] [LLeaf [[35;32;121]] [97;32;43;61;32;49] []]];
   LBlock [] KElse [101;108;115;101;58] [] [LLeaf [[32;32;32;32;35;32;121]] [98;32;61;32;50] []]].
Example C07_relayout_nonvacuous :
  layout_ok [9] ex_layout_a = true /\ layout_ok [32;32;32] ex_layout_b = true
  /\ map lerase ex_layout_a = map lerase ex_layout_b
  /\ length (render_list (ind_unit [9]) O ex_layout_a) = 11%nat.
Proof. repeat split; vm_compute; reflexivity. Qed.
Print Assumptions C07_relayout_nonvacuous.

(* ---------------------------------------------------------------- line accounting (finite table, regenerated) *)

(* the observed table has a row for each of the 70 statement kinds in each of the 4 contexts *)
Theorem C07_dispatch_complete : complete table = true.
Proof. exact dispatch_complete. Qed.
Print Assumptions C07_dispatch_complete.

(* every silently ignored (kind, context) is in the fixed set of the property or is a listed gap *)
Theorem C07_dispatch_accounted_partial : forall r, In r table -> row_ok r = true.
Proof. exact dispatch_accounted. Qed.
Print Assumptions C07_dispatch_accounted_partial.

(* the supported kinds (since the repair of `continue`: `continue` in a for/while loop too) are
   translated, return/break/continue outside their construct are rejected, `continue` directly in
   the body of the main loop is translated (it ends the current pass of loop()) *)
Theorem C07_dispatch_pinned : forall r, In r table -> row_pinned_ok r = true.
Proof. exact dispatch_pinned. Qed.
Print Assumptions C07_dispatch_pinned.

(* (repaired; `continue` was one of the listed gaps of C07_dispatch_total_refuted, finding
   F-C07-drop-continue / F-C01-continue-dropped) in every context `continue` is accounted for:
   translated inside a for/while loop, translated directly in the body of the main loop, rejected
   outside any loop - and it is no longer a listed gap, so C07_dispatch_accounted_partial no longer
   tolerates a tree that drops it *)
Theorem C07_continue_accounted : forall c,
  lookup K_continue_in_while c table = Some (match c with AfterLoop => Rejected | _ => Translated end) /\
  lookup K_continue_in_for c table = Some (match c with AfterLoop => Rejected | _ => Translated end) /\
  lookup K_continue_outside_loop c table = Some (match c with MainLoop => Translated | _ => Rejected end) /\
  known_gap K_continue_in_while c = false /\ known_gap K_continue_in_for c = false /\
  known_gap K_continue_outside_loop c = false.
Proof. exact continue_accounted. Qed.
Print Assumptions C07_continue_accounted.

(* (repaired; was the content of C07_dispatch_total_refuted with 123 listed gaps - findings F-C07-drop-del ...
   F-C07-drop-try-finally-else, F-C06-for-over-list) a statement that is neither in the fixed set of the property
   nor the one gap still listed is NEVER dropped: whatever the table holds for it is Translated or Rejected *)
Theorem C07_dispatch_total_partial : forall k c o,
  lookup k c table = Some o -> allowed k = false -> known_gap k c = false -> o <> Ignored.
Proof. exact dispatch_total. Qed.
Print Assumptions C07_dispatch_total_partial.

(* ... and each of the 158 (kind, context) pairs (127 + the same 31 kinds AFTER the main loop) that used to be dropped (del, assert, raise, with, match, class,
   nested / async def, decorator, loop else, for over an iterable, finally / try-else, annotated / chained /
   subscript / attribute assignment, walrus, yield, await, nonlocal, unknown methods of a declared device, calls on
   an undeclared receiver, `;`-joined statements, continuation lines, bodies on the header line) is now rejected
   with an error, is outside the fixed set and is no longer tolerated as a gap *)
Theorem C07_former_gaps_rejected : forall p, In p former_gaps ->
  lookup (fst p) (snd p) table = Some Rejected /\ allowed (fst p) = false /\ known_gap (fst p) (snd p) = false.
Proof. exact former_gaps_rejected. Qed.
Print Assumptions C07_former_gaps_rejected.

Example C07_former_gaps_nonvacuous : (length former_gaps = 158)%nat /\ (length known_gaps = 4)%nat.
Proof. exact former_gaps_count. Qed.
Print Assumptions C07_former_gaps_nonvacuous.

(* the property at full strength is still false for ONE kind: the documented host-side calls
   SerialMonitor.connect() / close() on a declared monitor are skipped without a diagnostic
   (finding F-C07-drop-serial-host-call) *)
Theorem C07_dispatch_total_refuted :
  (exists k c, allowed k = false /\ lookup k c table = Some Ignored)
  /\ forall p, In p known_gaps -> gap_real p = true.
Proof. exact (conj dispatch_total_refuted dispatch_gaps_real). Qed.
Print Assumptions C07_dispatch_total_refuted.

(* ---------------------------------------------------------------- the firmware keeps the block structure *)

(* read the way C++ reads them, the lines _emit_block writes for a list of nodes are exactly the
   compound statements of the nodes: one `if`/`else if` per branch of every IfStatement (whether
   or not its body emitted a line), `else` iff the else body holds a node, one block per loop,
   try and handler, each around its own lines, in order - at every indentation, for every IR
   whose simple nodes emit closed pieces of C++ *)
Theorem C07_emit_block_structure : forall ind ns,
  is_blank ind = true -> irs_ok ns = true ->
  c_read (emit_list ind ns) = Some (irs_c ns).
Proof. exact emit_block_structure. Qed.
Print Assumptions C07_emit_block_structure.

(* the sketch: every function, setup() and loop() is one top-level compound statement around its nodes *)
Theorem C07_sketch_sections_structure : forall ss,
  sections_ok ss = true -> c_read (emit_sections ss) = Some (sections_c ss).
Proof. exact emit_sections_structure. Qed.
Print Assumptions C07_sketch_sections_structure.

(* from Python's block tree (what the lexical layer hands over, C07_roundtrip_partial) through the
   IR to the firmware: the compound statements of the firmware are Python's blocks, header by
   header; nothing is assumed about the statement layer (tr, cx, fv, fn, ex arbitrary) except that
   a simple statement becomes closed pieces of C++ *)
Theorem C07_firmware_blocks_are_pythons_partial : forall tr cx fv fn ex ind ns,
  is_blank ind = true -> chain_ok tr PvNone ns = true ->
  c_read (emit_list ind (to_ir tr cx fv fn ex ns)) = Some (py_cs tr cx fv fn ex ns).
Proof. exact firmware_blocks_are_pythons. Qed.
Print Assumptions C07_firmware_blocks_are_pythons_partial.

(* ... and from ANY layout of the script inside the guard: lines -> skeleton -> IR -> firmware *)
Theorem C07_layout_to_firmware_partial : forall tr cx fv fn ex u ns ind,
  layout_ok u ns = true -> is_blank ind = true -> chain_ok tr PvNone (map lerase ns) = true ->
  c_read (emit_list ind (to_ir tr cx fv fn ex (map erase (parse_lines (render_list (ind_unit u) O ns)))))
  = Some (py_cs tr cx fv fn ex (map lerase ns)).
Proof. exact layout_to_firmware. Qed.
Print Assumptions C07_layout_to_firmware_partial.

(* every line of the firmware runs under the conditions Python gives its statement: a member of an
   if chain under its own condition and the negation of every earlier condition of the chain *)
Theorem C07_firmware_paths_are_pythons_partial : forall tr cx fv fn ex ind ns,
  is_blank ind = true -> chain_ok tr PvNone ns = true ->
  fw_paths (emit_list ind (to_ir tr cx fv fn ex ns)) = Some (py_paths tr cx fv fn ex [] [] ns).
Proof. exact firmware_paths_are_pythons. Qed.
Print Assumptions C07_firmware_paths_are_pythons_partial.

(* non-vacuity and the shape at stake: `if a: s1 / elif b: pass / elif c: print(..) / else: s2` -
   both do-nothing branches keep their `else if` stanza, so s2 runs under not a, not b, not c *)
Example C07_empty_elif_kept :
  chain_ok ex_tr PvNone ex_chain = true
  /\ c_read (emit_list s_two (to_ir ex_tr ex_cx ex_cx ex_cx ex_cx ex_chain))
     = Some [CBlock (h_if [97]) [CLine [115;49;59]]; CBlock (h_else_if [98]) []; CBlock (h_else_if [99]) [];
             CBlock s_else [CLine [115;50;59]]]
  /\ fw_paths (emit_list s_two (to_ir ex_tr ex_cx ex_cx ex_cx ex_cx ex_chain))
     = Some [([PChain [] (Some [97;41])], [115;49;59]);
             ([PChain [[97;41]; [98;41]; [99;41]] None], [115;50;59])].
Proof. exact empty_elif_kept. Qed.
Print Assumptions C07_empty_elif_kept.

(* a firmware that leaves out the stanza of a do-nothing `elif` (as a C++ reader sees it) lets the
   else branch run when that elif's condition holds: its paths differ from Python's *)
Example C07_dropped_elif_moves_else :
  fw_paths ex_dropped <> Some (py_paths ex_tr ex_cx ex_cx ex_cx ex_cx [] [] ex_chain).
Proof. exact dropped_elif_moves_else. Qed.
Print Assumptions C07_dropped_elif_moves_else.

(* ================================================================ the level of parse(): whole scripts *)

(* the model of parse()'s top-level dispatch (target(...) directives and the import filter first; at
   column 0 `while True:` -> main loop, while / for -> one block, def -> a function, if / try -> the whole
   chain collected by _collect_if/try_structure, anything else -> one statement) applied to ANY layout
   of a script inside the guard gives back the skeleton: every statement stays in its block, its
   function and its phase (setup / loop) *)
Theorem C07_top_roundtrip_partial : forall u items final_junk,
  top_layout_ok u items final_junk = true ->
  map erase_item (parse_top (render_top (ind_unit u) items final_junk)) = lerase_tops items.
Proof. exact parse_render_top. Qed.
Print Assumptions C07_top_roundtrip_partial.

Theorem C07_top_relayout_invariant_partial : forall u1 u2 items1 items2 fj1 fj2,
  top_layout_ok u1 items1 fj1 = true -> top_layout_ok u2 items2 fj2 = true -> lerase_tops items1 = lerase_tops items2 ->
  map erase_item (parse_top (render_top (ind_unit u1) items1 fj1)) = map erase_item (parse_top (render_top (ind_unit u2) items2 fj2)).
Proof. exact relayout_invariant_top. Qed.
Print Assumptions C07_top_relayout_invariant_partial.

(* the sketch a script skeleton becomes (one section per def, setup() with the column-0 statements, loop()
   with the main-loop bodies), read the way C++ reads it, is what Python's block tree prescribes *)
Theorem C07_script_sections_structure_partial : forall tr cx fv fn ex fh hs hl phs phl its,
  script_ok tr fh hs hl phs phl its = true ->
  c_read (emit_sections (script_sections tr cx fv fn ex fh hs hl phs phl its)) = Some (script_cs tr cx fv fn ex fh hs hl its).
Proof. exact script_sections_structure. Qed.
Print Assumptions C07_script_sections_structure_partial.

(* ONE THEOREM FROM SOURCE TEXT TO EMITTED C++ BLOCKS: any layout of the script inside the guard *)
Theorem C07_script_to_firmware_partial : forall tr cx fv fn ex fh hs hl phs phl u items fj,
  top_layout_ok u items fj = true ->
  script_ok tr fh hs hl phs phl (lerase_tops items) = true ->
  c_read (emit_sections (script_sections tr cx fv fn ex fh hs hl phs phl
            (map erase_item (parse_top (render_top (ind_unit u) items fj)))))
  = Some (script_cs tr cx fv fn ex fh hs hl (lerase_tops items)).
Proof. exact script_to_firmware. Qed.
Print Assumptions C07_script_to_firmware_partial.

(* any two layouts inside the guard give the same firmware lines, hence the same block structure - Python's *)
Theorem C07_two_layouts_same_firmware_partial : forall tr cx fv fn ex fh hs hl phs phl u1 u2 items1 items2 fj1 fj2,
  top_layout_ok u1 items1 fj1 = true -> top_layout_ok u2 items2 fj2 = true -> lerase_tops items1 = lerase_tops items2 ->
  emit_sections (script_sections tr cx fv fn ex fh hs hl phs phl (map erase_item (parse_top (render_top (ind_unit u1) items1 fj1))))
  = emit_sections (script_sections tr cx fv fn ex fh hs hl phs phl (map erase_item (parse_top (render_top (ind_unit u2) items2 fj2))))
  /\ (script_ok tr fh hs hl phs phl (lerase_tops items1) = true ->
      c_read (emit_sections (script_sections tr cx fv fn ex fh hs hl phs phl (map erase_item (parse_top (render_top (ind_unit u2) items2 fj2)))))
      = Some (script_cs tr cx fv fn ex fh hs hl (lerase_tops items1))).
Proof. exact two_layouts_same_firmware. Qed.
Print Assumptions C07_two_layouts_same_firmware_partial.

(* non-vacuity: a tab layout with comments everywhere (before the target(...) directive, on the def, before
   elif, on the main-loop header) and a plain 2-space layout of the same script are both inside the guard *)
Example C07_top_layouts_nonvacuous :
  top_layout_ok [9] ex_top_a [[]; t_c] = true /\ top_layout_ok [32;32] ex_top_b [] = true
  /\ lerase_tops ex_top_a = lerase_tops ex_top_b
  /\ length (render_top (ind_unit [9]) ex_top_a [[]; t_c]) = 27%nat
  /\ length (lerase_tops ex_top_a) = 4%nat.
Proof. exact top_layouts_nonvacuous. Qed.
Print Assumptions C07_top_layouts_nonvacuous.

(* ================================================================ the statement recognisers (RE_* patterns) *)

(* the matcher that runs the regenerated patterns decides the usual language of a regular expression *)
Theorem C07_rx_match_decides : forall r s, rx_match r s = true <-> lang r s.
Proof. exact rx_match_ok. Qed.
Print Assumptions C07_rx_match_decides.

(* 63 of the 76 RE_* patterns of the CURRENT parser.py are instances of five shapes (method call without /
   with arguments, device declaration, import, sleep) or the two target(...) patterns of Lang/Lex.v *)
Theorem C07_patterns_have_their_shapes : forall p, In p shape_table -> fst p = snd p.
Proof. exact shapes_agree. Qed.
Print Assumptions C07_patterns_have_their_shapes.

(* the dispatch loop of the CURRENT _parse_simple_lines tries the recognisers in the order of DESIGN.md B.5,
   with exactly these device-set guards; every id names the pattern it carries *)
Theorem C07_dispatch_chain_pinned : map strip_id chain = expected_chain /\ n_guard_sets = 5%nat.
Proof. exact chain_order_pinned. Qed.
Print Assumptions C07_dispatch_chain_pinned.

(* optional spacing, exact guard.  NAME g0 . g1 METH g2 ( g3 ): recognised for every white space before
   the dot and inside the parentheses - when g1 and g2 are empty *)
Theorem C07_call0_spacing_partial : forall meth name g0 g3,
  is_ident name = true -> gap g0 = true -> gap g3 = true ->
  rx_match (sh_method0 meth) (line_call0 name meth g0 [] [] g3) = true.
Proof. exact method0_accepts. Qed.
Print Assumptions C07_call0_spacing_partial.

Theorem C07_call_spacing_partial : forall meth name args g0 g3 g4,
  is_ident name = true -> one_line args = true -> gap g0 = true -> gap g3 = true -> gap g4 = true ->
  rx_match (sh_method meth) (line_call name meth args g0 [] [] g3 g4) = true.
Proof. exact method_accepts. Qed.
Print Assumptions C07_call_spacing_partial.

(* device declarations and sleep(...): EVERY gap between tokens is optional (no spacing finding there) *)
Theorem C07_decl_spacing : forall cls name args g0 g1 g2 g3 g4,
  is_ident name = true -> one_line args = true ->
  gap g0 = true -> gap g1 = true -> gap g2 = true -> gap g3 = true -> gap g4 = true ->
  rx_match (sh_decl cls) (line_decl name cls args g0 g1 g2 g3 g4) = true.
Proof. exact decl_accepts. Qed.
Print Assumptions C07_decl_spacing.

Theorem C07_sleep_spacing : forall args g0 g1 g2,
  one_line args = true -> args <> [] -> gap g0 = true -> gap g1 = true -> gap g2 = true ->
  rx_match sh_sleep (line_sleep args g0 g1 g2) = true.
Proof. exact sleep_accepts. Qed.
Print Assumptions C07_sleep_spacing.

(* outside the guard the property fails (findings F-C07-call-paren-space, F-C07-keyword-paren): Python reads
   `led.on ()`, `led. on()`, `mon.write ("x")`, `if(x>1):` as `led.on()`, `mon.write("x")`, `if (x>1):`;
   the recognisers do not, and the line falls through the whole chain to the tail - where, since the repair
   of the silent drops, it is REJECTED (C07_tail_never_drops, C07_tail_examples) instead of disappearing: the
   re-layout changes whether the script is accepted, it no longer changes the firmware silently *)
Theorem C07_call_paren_space_refuted :
  exists name meth g0 g1 g2 g3,
    is_ident name = true /\ gap g0 = true /\ gap g1 = true /\ gap g2 = true /\ gap g3 = true /\
    rx_match (sh_method0 meth) (line_call0 name meth [] [] [] []) = true /\
    rx_match (sh_method0 meth) (line_call0 name meth g0 g1 g2 g3) = false /\
    is_rx_handler RE_LED_ON (hd_of (dispatch chain false [] (line_call0 name meth [] [] [] []))) = true /\
    is_tail (hd_of (dispatch chain false [] (line_call0 name meth g0 g1 g2 g3))) = true.
Proof. exact call_paren_space_refuted. Qed.
Print Assumptions C07_call_paren_space_refuted.

Theorem C07_call_dot_space_refuted :
  exists name meth g1, is_ident name = true /\ gap g1 = true /\
    rx_match (sh_method0 meth) (line_call0 name meth [] g1 [] []) = false /\
    is_tail (hd_of (dispatch chain false [] (line_call0 name meth [] g1 [] []))) = true.
Proof. exact call_dot_space_refuted. Qed.
Print Assumptions C07_call_dot_space_refuted.

Theorem C07_call_args_paren_space_refuted :
  exists name meth args g2, is_ident name = true /\ one_line args = true /\ gap g2 = true /\
    is_rx_handler RE_SERIAL_WRITE (hd_of (dispatch chain false [] (line_call name meth args [] [] [] [] []))) = true /\
    rx_match (sh_method meth) (line_call name meth args [] [] g2 [] []) = false /\
    is_tail (hd_of (dispatch chain false [] (line_call name meth args [] [] g2 [] []))) = true.
Proof. exact call_args_paren_space_refuted. Qed.
Print Assumptions C07_call_args_paren_space_refuted.

Theorem C07_keyword_paren_refuted :
  rx_match RE_IF s_if_blank = true /\ re_if s_if_blank = true /\
  rx_match RE_IF s_if_paren = false /\ re_if s_if_paren = false /\
  is_rx_handler RE_IF (hd_of (dispatch chain false [] s_if_blank)) = true /\
  is_tail (hd_of (dispatch chain false [] s_if_paren)) = true.
Proof. exact keyword_paren_refuted. Qed.
Print Assumptions C07_keyword_paren_refuted.

(* ---------------------------------------------------------------- the end of the dispatch loop (repaired) *)

(* what the CURRENT source does with a line no recogniser took (read by the translator): `pass` and global
   declarations are skipped, an expression _to_c_expr refuses raises, anything else raises *)
Theorem C07_tail_pinned :
  tail_benign_eq = [s_pass] /\ map snd tail_benign_rx = [RE_GLOBAL] /\ tail_rejects = true /\ tail_expr_failure_rejects = true.
Proof. exact tail_pinned. Qed.
Print Assumptions C07_tail_pinned.

(* (repaired; the tail used to end with "unknown -> ignore") no line that reaches the end of the loop is dropped *)
Theorem C07_tail_never_drops : forall isexpr line,
  tail_class_of tail_benign_eq tail_benign_rx tail_rejects isexpr line <> TDropped.
Proof. exact tail_never_drops. Qed.
Print Assumptions C07_tail_never_drops.

(* a line that is neither translated (no recogniser, not an expression) nor benign (`pass`, a global declaration)
   is rejected - for every line *)
Theorem C07_tail_rejects_unrecognised : forall line,
  tail_class_of tail_benign_eq tail_benign_rx tail_rejects false line = TReject
  <-> (line <> s_pass /\ rx_match RE_GLOBAL line = false).
Proof. exact tail_rejects_unrecognised. Qed.
Print Assumptions C07_tail_rejects_unrecognised.

(* non-vacuity, both sides: `pass`, `global x`, `global a ,b_2` skipped; `globalx`, `global`, `global x; y = 5`, `del x`,
   `pass x` and the header `if(x>1):` of finding F-C07-keyword-paren rejected (no longer dropped) *)
Example C07_tail_examples :
  tail_class_of tail_benign_eq tail_benign_rx tail_rejects false s_pass = TBenign /\
  tail_class_of tail_benign_eq tail_benign_rx tail_rejects false [103;108;111;98;97;108;32;120] = TBenign /\
  tail_class_of tail_benign_eq tail_benign_rx tail_rejects false [103;108;111;98;97;108;32;97;32;44;98;95;50] = TBenign /\
  tail_class_of tail_benign_eq tail_benign_rx tail_rejects false [103;108;111;98;97;108;120] = TReject /\
  tail_class_of tail_benign_eq tail_benign_rx tail_rejects false [103;108;111;98;97;108] = TReject /\
  tail_class_of tail_benign_eq tail_benign_rx tail_rejects false [103;108;111;98;97;108;32;120;59;32;121;32;61;32;53] = TReject /\
  tail_class_of tail_benign_eq tail_benign_rx tail_rejects false [100;101;108;32;120] = TReject /\
  tail_class_of tail_benign_eq tail_benign_rx tail_rejects false [112;97;115;115;32;120] = TReject /\
  tail_class_of tail_benign_eq tail_benign_rx tail_rejects false s_if_paren = TReject.
Proof. exact tail_examples. Qed.
Print Assumptions C07_tail_examples.

(* the Led recognisers are unguarded: any receiver that is not a declared RGB LED is taken for a Led *)
Example C07_led_handler_unguarded :
  is_rx_handler RE_LED_ON (hd_of (dispatch chain false [[]; []; []; []; []] (line_call0 [120;121;122] s_on [] [] [] []))) = true /\
  is_rx_handler RE_RGB_LED_ON (hd_of (dispatch chain false [[[120;121;122]]; []; []; []; []] (line_call0 [120;121;122] s_on [] [] [] []))) = true.
Proof. exact led_handler_unguarded. Qed.
Print Assumptions C07_led_handler_unguarded.

(* ================================================================ variable promotion keeps every statement in its block *)

(* _rewrite_nodes: for EVERY set of promoted names and every node tree, the rewritten tree is the same tree of
   the same statements - every declaration of a promoted name has become the assignment with the same target
   and the same value, in the same place; nothing else changed, nothing was dropped, nothing moved *)
Theorem C07_promotion_rewrite_keeps_every_statement : forall p ns,
  map as_assign (rewrite p ns) = map as_assign ns.
Proof. exact rewrite_keeps_statements. Qed.
Print Assumptions C07_promotion_rewrite_keeps_every_statement.

(* the local _rewrite of the if handler (it enters nested if statements only) *)
Theorem C07_promotion_rewrite_if_keeps_every_statement : forall p ns,
  map as_assign (rewrite_if p ns) = map as_assign ns.
Proof. exact rewrite_if_keeps_statements. Qed.
Print Assumptions C07_promotion_rewrite_if_keeps_every_statement.

(* read as (enclosing block headers, statement) pairs in script order: identical before and after *)
Theorem C07_promotion_rewrite_keeps_paths : forall p pre ns,
  items pre (rewrite p ns) = items pre ns /\ items pre (rewrite_if p ns) = items pre ns.
Proof. exact (fun p pre ns => conj (rewrite_keeps_items p pre ns) (rewrite_if_keeps_items p pre ns)). Qed.
Print Assumptions C07_promotion_rewrite_keeps_paths.

(* and the rewrite does its job: no promoted name is still declared below (C++ would see a second declaration) *)
Theorem C07_promotion_rewrite_assigns_promoted : forall p ns,
  forallb (fun x => negb (tmem x p)) (decl_names (rewrite p ns)) = true.
Proof. exact rewrite_assigns_promoted. Qed.
Print Assumptions C07_promotion_rewrite_assigns_promoted.

Theorem C07_promotion_rewrite_if_assigns_promoted_partial : forall p ns, if_reach p ns = true ->
  forallb (fun x => negb (tmem x p)) (decl_names (rewrite_if p ns)) = true.
Proof. exact rewrite_if_assigns_promoted. Qed.
Print Assumptions C07_promotion_rewrite_if_assigns_promoted_partial.

(* what a while / for handler appends to the body it builds: synthetic declarations (default initialiser, one per
   promoted name; none at the top level of the sketch, where the name becomes a global) and then the loop under
   its own header with every statement of its body in place *)
Theorem C07_promoted_loop_keeps_its_body : forall names tys top h b,
  exists decls b',
    promote_loop names tys top h b = decls ++ [PCtl h b']
    /\ forallb is_placeholder decls = true
    /\ decl_names decls = (if top then [] else names)
    /\ map as_assign b' = map as_assign b
    /\ forallb (fun x => negb (tmem x names)) (decl_names b') = true.
Proof. exact promote_loop_spec. Qed.
Print Assumptions C07_promoted_loop_keeps_its_body.

(* loop, try and if handlers alike: the statements (with their paths) after promotion are those of the
   placeholders followed by those of the block as the script wrote it *)
Theorem C07_promotion_adds_only_placeholders : forall names tys (top : bool) pre,
  (forall h b, exists decls,
     forallb is_placeholder decls = true /\ length decls = (if top then O else length names) /\
     items pre (promote_loop names tys top h b) = items pre decls ++ items pre [PCtl h b]) /\
  (forall parts, exists decls,
     forallb is_placeholder decls = true /\ length decls = (if top then O else length names) /\
     items pre (promote_try names tys top parts) = items pre decls ++ items pre parts) /\
  (forall parts, exists decls,
     forallb is_placeholder decls = true /\ length decls = (if top then O else length names) /\
     items pre (promote_if names tys top parts) = items pre decls ++ items pre parts).
Proof.
  exact (fun names tys top pre =>
    conj (fun h b => promote_loop_statements names tys top h b pre)
      (conj (fun parts => promote_try_statements names tys top parts pre)
            (fun parts => promote_if_statements names tys top parts pre))).
Qed.
Print Assumptions C07_promotion_adds_only_placeholders.

(* non-vacuity and the shape at stake: `count = 0` at the top of a for body, directly in front of an inner while -
   a user statement that looks exactly like a synthetic placeholder; it stays the first statement of the for body *)
Example C07_reset_stays_in_loop :
  promote_loop [t_count] [(t_count, s_int)] false (HFor t_i t_3) ex_loop_body
  = [PDecl t_count s_int s_0 false;
     PCtl (HFor t_i t_3) [PAssign t_count s_0; PCtl (HWhile t_lt2) [PSimple [[116;59]]; PAssign t_count t_inc]]]
  /\ is_placeholder (PDecl t_count s_int s_0 false) = true
  /\ items [] (promote_loop [t_count] [(t_count, s_int)] false (HFor t_i t_3) ex_loop_body)
     = [([], ItAssign t_count s_0);
        ([HFor t_i t_3], ItAssign t_count s_0);
        ([HFor t_i t_3; HWhile t_lt2], ItOther [[116;59]]);
        ([HFor t_i t_3; HWhile t_lt2], ItAssign t_count t_inc)].
Proof. exact reset_stays_in_loop. Qed.
Print Assumptions C07_reset_stays_in_loop.

Example C07_dropped_reset_loses_statement :
  items [] ex_reset_dropped <> items [] (promote_loop [t_count] [(t_count, s_int)] false (HFor t_i t_3) ex_loop_body).
Proof. exact dropped_reset_loses_statement. Qed.
Print Assumptions C07_dropped_reset_loses_statement.

(* ================================================================ statement nodes and the emitter's de-duplication sets *)

(* _emit_block = decide what every device declaration writes (the only nodes that look at the sets), then write *)
Theorem C07_emit_resolves_then_writes : forall b l ind st,
  emit_sl b ind l st = (emit_pl ind (fst (res_l b l st)), snd (res_l b l st)).
Proof. exact emit_list_is_resolve_then_write. Qed.
Print Assumptions C07_emit_resolves_then_writes.

(* ... and the first step leaves every statement node and every stanza where and what it was, in every state *)
Theorem C07_resolve_keeps_every_statement : forall b l st,
  map stmt_only (fst (res_l b l st)) = map stmt_only l.
Proof. exact res_l_keeps_statements. Qed.
Print Assumptions C07_resolve_keeps_every_statement.

(* inside and outside setup(), whatever the two sets hold (whatever was emitted before): the lines of every
   statement node and of every stanza are in what _emit_block writes, in order - the same statement twice is
   written twice *)
Theorem C07_statement_lines_written_in_every_state : forall b st ind ns,
  sub (emit_pl ind (map stmt_only ns)) (fst (emit_sl b ind ns st)).
Proof. exact statement_lines_written_in_every_state. Qed.
Print Assumptions C07_statement_lines_written_in_every_state.

Theorem C07_statement_line_count : forall b st ind ns t,
  (count_line t (emit_pl ind (map stmt_only ns)) <= count_line t (fst (emit_sl b ind ns st)))%nat.
Proof. exact statement_line_count. Qed.
Print Assumptions C07_statement_line_count.

(* nodes other than device declarations neither read nor change the sets *)
Theorem C07_statements_ignore_the_sets : forall b l ind st,
  forallb no_decl l = true -> emit_sl b ind l st = (emit_pl ind l, st).
Proof. exact no_decl_list_state_independent. Qed.
Print Assumptions C07_statements_ignore_the_sets.

Theorem C07_outside_setup_sets_unchanged : forall l ind st, snd (emit_sl false ind l st) = st.
Proof. exact outside_setup_sets_unchanged. Qed.
Print Assumptions C07_outside_setup_sets_unchanged.

(* non-vacuity and the shape at stake: OUTPUT -> INPUT -> OUTPUT on one pin and the same statement again inside
   an if block of setup(): four statements, four lines; the declaration's own pinMode is the de-duplicated one *)
Example C07_repeated_pin_mode_written :
  fst (emit_sl true s_two ex_setup ([], []))
  = [s_two ++ l_pm13; s_two ++ l_out7; s_two ++ l_in7; s_two ++ l_out7;
     s_two ++ h_a ++ s_open; s_two ++ s_two ++ l_in7; s_two ++ s_close]
  /\ count_line (s_two ++ l_out7) (fst (emit_sl true s_two ex_setup ([], []))) = 2%nat
  /\ fst (emit_sl true s_two ex_setup ([k_led], []))
     = [s_two ++ l_out7; s_two ++ l_in7; s_two ++ l_out7;
        s_two ++ h_a ++ s_open; s_two ++ s_two ++ l_in7; s_two ++ s_close].
Proof. exact repeated_pin_mode_written. Qed.
Print Assumptions C07_repeated_pin_mode_written.

Example C07_dropped_repeat_not_sub :
  ~ sub (emit_pl s_two (map stmt_only ex_setup))
        [s_two ++ l_pm13; s_two ++ l_out7; s_two ++ l_in7; s_two ++ h_a ++ s_open; s_two ++ s_close].
Proof. exact dropped_repeat_not_sub. Qed.
Print Assumptions C07_dropped_repeat_not_sub.

(* ================================================================ fourth round: the end of the script, function variants *)
(* parse() with its seen_main_loop flag (Lang/TopFlow.v).  An ACCEPTED script is parsed exactly as Lex.parse_top says
   (so every theorem above applies to it) and its main loop is the LAST thing it contains: no second `while True:`, no
   `def`, no `if` / `for` / `while` / `try`, no simple statement, no import and no target() call is accepted behind it *)
Theorem C07_main_loop_is_last : forall ls its, parse_flow ls = Some its ->
  its = parse_top ls /\ (forall pre r n post, its = pre ++ TLoop r n :: post -> post = []).
Proof. exact accepted_script. Qed.
Print Assumptions C07_main_loop_is_last.

(* once the main loop is taken, ANY line that is neither blank nor a comment - whatever it is - makes parse() reject the
   script ... *)
Theorem C07_after_main_loop_rejected : forall f ls,
  (exists l, In l (firstn f ls) /\ top_junk l = false) -> top_flow f true ls = None.
Proof. exact after_loop_rejects. Qed.
Print Assumptions C07_after_main_loop_rejected.

(* ... and what is passed over there is only blank and comment lines, from which nothing is built *)
Theorem C07_after_main_loop_only_junk : forall f ls its, top_flow f true ls = Some its ->
  its = [] /\ forallb top_junk (firstn f ls) = true.
Proof. intros f ls its H. split; [exact (after_loop_nil f ls its H)|exact (after_loop_all_junk f ls its H)]. Qed.
Print Assumptions C07_after_main_loop_only_junk.

(* witnesses: a second `while True:` and a `def` after the main loop are rejected (Lex.parse_top alone would build a
   second loop item); a script whose main loop is followed by a blank and a comment line is accepted *)
Example C07_after_main_loop_witnesses :
  parse_flow w_second_loop = None /\ parse_flow w_late_def = None /\
  (exists its, parse_flow w_loop_last = Some its /\ map is_loop its = [false; false; true]) /\
  length (filter is_loop (parse_top w_second_loop)) = 2%nat.
Proof. exact after_loop_witnesses. Qed.
Print Assumptions C07_after_main_loop_witnesses.

(* the regenerated line-accounting table, context AfterLoop (70+3 statement kinds at column 0 behind the main loop): *)
Theorem C07_after_loop_never_translated : forall k o, lookup k AfterLoop table = Some o -> o <> Translated.
Proof. exact after_loop_never_translated. Qed.
Print Assumptions C07_after_loop_never_translated.

Theorem C07_after_loop_statements_rejected : forall k, allowed k = false -> lookup k AfterLoop table = Some Rejected.
Proof. exact after_loop_rejected. Qed.
Print Assumptions C07_after_loop_statements_rejected.

(* FUNCTION VARIANTS.  A def is parsed once for its primary signature and again - from the lines _parse_function keeps -
   for every other argument-type signature a call site needs.  Every such variant has the block skeleton of the def ... *)
Theorem C07_variant_has_the_defs_blocks : forall ls h raw ns,
  In (TDef h raw ns) (parse_top ls) -> map erase (variant_nodes raw) = map erase ns.
Proof. exact variant_structure. Qed.
Print Assumptions C07_variant_has_the_defs_blocks.

(* ... hence WHATEVER the statement layer makes of the lines for that signature (tr, cx, fv, fn, ex arbitrary), the
   compound statements of the variant's firmware are the ones Python's block tree of the def prescribes *)
Theorem C07_variant_firmware_blocks_partial : forall ls h raw ns tr cx fv fn ex ind,
  In (TDef h raw ns) (parse_top ls) -> is_blank ind = true -> chain_ok tr PvNone (map erase ns) = true ->
  c_read (emit_list ind (to_ir tr cx fv fn ex (map erase (variant_nodes raw)))) = Some (py_cs tr cx fv fn ex (map erase ns)).
Proof. exact variant_firmware_blocks. Qed.
Print Assumptions C07_variant_firmware_blocks_partial.

(* the calls of _parse_simple_lines a re-specialisation makes are those of the def itself (what the tie observes) *)
Theorem C07_variant_calls_are_the_defs : forall fuel ls h raw ns,
  In (TDef h raw ns) (parse_top ls) -> variant_calls fuel raw = (2, 1%nat, raw) :: calls_nodes fuel 2 2%nat ns.
Proof. exact variant_calls_are_the_defs. Qed.
Print Assumptions C07_variant_calls_are_the_defs.

Example C07_variant_witness :
  exists h raw ns, In (TDef h raw ns) (parse_top w_level) /\
    map (fun n => match n with SBlock k _ b => (Some k, length b) | SLeaf _ => (None, 0%nat) end) (map erase (variant_nodes raw))
    = [(Some KIf, 1%nat); (Some KElif, 1%nat); (Some KFor, 1%nat); (None, 0%nat)].
Proof. exact variant_witness. Qed.
Print Assumptions C07_variant_witness.
