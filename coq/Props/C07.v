(* C07 - placeholder while the development is being built *)
From Coq Require Import ZArith List Bool.
From RV Require Import Base.Wire Base.Text Lang.Lex.
Import ListNotations.
Open Scope Z_scope.

Example C07_placeholder : indent_of [32;9;120] = 5%nat.
Proof. reflexivity. Qed.
Print Assumptions C07_placeholder.
