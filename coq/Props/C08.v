(* C08 - Device calls bind arguments exactly like the Python signatures do.
   Nothing but statements, closed by [exact], each followed by Print Assumptions.

   py_bind   = Python's binder on the signatures regenerated from the host classes (Gen/Signatures.v)
   redu_bind = the lookup pattern of each handler of transpile/parser.py (Lang/Bind.v, [table])
   agrees m sh b := redu_bind m sh = Rejected \/ redu_bind m sh = Bound (restrict (device_params m) b)
   Shapes are arbitrary: any number of positionals, any list of keywords in any order. *)
From Coq Require Import String Ascii ZArith List Bool Arith Permutation.
From RV Require Import Base.Wire Base.Text Lang.Sig Gen.Signatures Lang.Bind Proofs.BindP
  Lang.EmitTypes Gen.EmitStage Lang.BindEmit Lang.EmitSlots Proofs.BindEmitP.
Import ListNotations.
Local Open Scope nat_scope.

(* THE property, for every handler (constructor, method, Core helper) and every call shape, without any guard
   (formerly only C08_bind_agrees_partial / C08_bind_agrees_guarded below: the LCD(...) row was excluded for
   i2c_addr together with a parallel pin - F-C08-lcd-i2c-parallel-pins, repaired): whatever call Python accepts is
   rejected by the transpiler or bound to the same arguments and the same default values *)
Theorem C08_bind_agrees : forall (m : method) (sh : call_shape) (b : binding),
  In m translated_methods ->
  py_bind (sig_of m) sh = Some b ->
  redu_bind m sh = Rejected \/ redu_bind m sh = Bound (restrict (device_params m) b).
Proof. exact bind_agrees. Qed.
Print Assumptions C08_bind_agrees.

(* no row carries a guard: the guard mechanism of Lang/Bind.v is empty, every translated method is an agreeing one *)
Theorem C08_no_guard_left :
  agreeing_methods = translated_methods /\ (forall m sh, guard_ok (guard_of m) sh = true).
Proof. exact (conj all_methods_agree guard_ok_always). Qed.
Print Assumptions C08_no_guard_left.

(* (kept, now corollaries of C08_bind_agrees: the statements over the guard mechanism, should a row ever need
   a guard again) every handler whose row carries no guard: whatever call Python accepts is rejected by the
   transpiler or bound to the same arguments and the same default values *)
Theorem C08_bind_agrees_partial : forall (m : method) (sh : call_shape) (b : binding),
  In m agreeing_methods ->
  py_bind (sig_of m) sh = Some b ->
  redu_bind m sh = Rejected \/ redu_bind m sh = Bound (restrict (device_params m) b).
Proof. exact bind_agrees_partial. Qed.
Print Assumptions C08_bind_agrees_partial.

(* all handlers, inside the explicit guards of Lang/Bind.v (none is left: neither RGBLed.on nor LCD(...) carries one) *)
Theorem C08_bind_agrees_guarded : forall (m : method) (sh : call_shape) (b : binding),
  In m translated_methods ->
  guard_ok (guard_of m) sh = true ->
  py_bind (sig_of m) sh = Some b ->
  redu_bind m sh = Rejected \/ redu_bind m sh = Bound (restrict (device_params m) b).
Proof. exact bind_agrees_guarded. Qed.
Print Assumptions C08_bind_agrees_guarded.

(* RGBLed.on (repaired: each colour is looked up by keyword first, then by position): every call
   Python accepts is BOUND - this row never rejects - and bound exactly like Python; this replaces
   the former C08_RGBLed_on_refuted (rgb.on(red=.., green=.., blue=..) kept 255,255,255) *)
Theorem C08_RGBLed_on_binds : forall (sh : call_shape) (b : binding),
  py_bind (sig_of (T "RGBLed.on")) sh = Some b ->
  redu_bind (T "RGBLed.on") sh = Bound (restrict (device_params (T "RGBLed.on")) b).
Proof. exact rgb_on_binds. Qed.
Print Assumptions C08_RGBLed_on_binds.

(* ... in the form that literally negates the former refutation: no accepted call is bound differently *)
Theorem C08_RGBLed_on_no_disagreement : forall (sh : call_shape) (b b' : binding),
  py_bind (sig_of (T "RGBLed.on")) sh = Some b ->
  redu_bind (T "RGBLed.on") sh = Bound b' ->
  b' = restrict (device_params (T "RGBLed.on")) b.
Proof. exact rgb_on_no_disagreement. Qed.
Print Assumptions C08_RGBLed_on_no_disagreement.

(* LCD(...) (repaired; formerly C08_LCD_init_refuted: LCD(rs=.., i2c_addr=..) - Python binds rs, the I2C branch of the
   handler never read it).  The literal negation of that refutation: no call Python accepts is bound differently ... *)
Theorem C08_LCD_init_no_disagreement : forall (sh : call_shape) (b b' : binding),
  py_bind (sig_of (T "LCD.__init__")) sh = Some b ->
  redu_bind (T "LCD.__init__") sh = Bound b' ->
  b' = restrict (device_params (T "LCD.__init__")) b.
Proof. exact lcd_init_no_disagreement. Qed.
Print Assumptions C08_LCD_init_no_disagreement.

(* ... because the I2C branch now rejects every parallel pin (rs, en, d4, d5, d6, d7, rw), whatever else is passed
   and in whatever order, and every positional argument (the parallel branch reads positions as pins) *)
Theorem C08_LCD_i2c_rejects_parallel_pins : forall (sh : call_shape) (k : text),
  In (T "i2c_addr") (kws sh) -> In k lcd_parallel_pins -> In k (kws sh) ->
  redu_bind (T "LCD.__init__") sh = Rejected.
Proof. exact lcd_i2c_rejects_parallel. Qed.
Print Assumptions C08_LCD_i2c_rejects_parallel_pins.

Theorem C08_LCD_i2c_rejects_positionals : forall (sh : call_shape),
  In (T "i2c_addr") (kws sh) -> 0 < npos sh -> redu_bind (T "LCD.__init__") sh = Rejected.
Proof. exact lcd_i2c_rejects_positional. Qed.
Print Assumptions C08_LCD_i2c_rejects_positionals.

(* the former witness LCD(rs=31, i2c_addr=39) is accepted by Python and rejected by the transpiler; so are rw and a
   positional pin; the I2C branch still binds its own parameters and the parallel branch its pins *)
Example C08_LCD_init_witness_rejected :
  py_bind (sig_of (T "LCD.__init__")) lcd_init_witness <> None /\
  redu_bind (T "LCD.__init__") lcd_init_witness = Rejected /\
  redu_bind (T "LCD.__init__") (mk_shape 0 [T "i2c_addr"; T "rw"]) = Rejected /\
  redu_bind (T "LCD.__init__") (mk_shape 1 [T "i2c_addr"]) = Rejected /\
  (exists b, redu_bind (T "LCD.__init__") (mk_shape 0 [T "backlight_pin"; T "i2c_addr"; T "rows"]) = Bound b) /\
  (exists b, redu_bind (T "LCD.__init__") (mk_shape 0 [T "rs"; T "en"; T "d4"; T "d5"; T "d6"; T "d7"; T "rw"]) = Bound b).
Proof. exact lcd_init_witness_rejected. Qed.
Print Assumptions C08_LCD_init_witness_rejected.

(* keyword order is irrelevant to both binders *)
Theorem C08_py_bind_keyword_order : forall sg n ks ks',
  Permutation ks ks' -> py_bind sg (mk_shape n ks) = py_bind sg (mk_shape n ks').
Proof. exact py_bind_perm. Qed.
Print Assumptions C08_py_bind_keyword_order.

Theorem C08_redu_bind_keyword_order : forall m n ks ks',
  Permutation ks ks' -> redu_bind m (mk_shape n ks) = redu_bind m (mk_shape n ks').
Proof. exact redu_bind_perm. Qed.
Print Assumptions C08_redu_bind_keyword_order.

Theorem C08_extract_arg_keyword_order : forall n ks ks' position keyword,
  Permutation ks ks' ->
  extract_arg (mk_shape n ks) position keyword = extract_arg (mk_shape n ks') position keyword.
Proof. exact extract_arg_perm. Qed.
Print Assumptions C08_extract_arg_keyword_order.

(* what Python rejects: too many positionals, repeated / unknown keywords, positional + keyword *)
Theorem C08_py_rejects_too_many : forall sg sh,
  List.length (pk_names sg) < npos sh -> py_bind sg sh = None.
Proof. exact py_bind_too_many. Qed.
Print Assumptions C08_py_rejects_too_many.

Theorem C08_py_rejects_repeated_keyword : forall sg sh, ~ NoDup (kws sh) -> py_bind sg sh = None.
Proof. exact py_bind_repeated_kw. Qed.
Print Assumptions C08_py_rejects_repeated_keyword.

Theorem C08_py_rejects_unknown_keyword : forall sg sh k,
  In k (kws sh) -> ~ In k (names sg) -> py_bind sg sh = None.
Proof. exact py_bind_unknown_kw. Qed.
Print Assumptions C08_py_rejects_unknown_keyword.

Theorem C08_py_rejects_positional_and_keyword : forall sg sh k,
  In k (kws sh) -> In k (firstn (npos sh) (pk_names sg)) -> py_bind sg sh = None.
Proof. exact py_bind_pos_and_kw. Qed.
Print Assumptions C08_py_rejects_positional_and_keyword.

(* the hand-written table and the regenerated signatures cover each other *)
Theorem C08_surface_classified : forall m,
  In m (map fst signatures) -> In m translated_methods \/ In m host_only_methods.
Proof. exact surface_classified. Qed.
Print Assumptions C08_surface_classified.

Theorem C08_table_has_signatures : forall m,
  In m translated_methods \/ In m host_only_methods -> In m (map fst signatures).
Proof. exact table_has_signatures. Qed.
Print Assumptions C08_table_has_signatures.

(* non-vacuity: rgb.fade(r, blue=.., steps=.., green=..) is accepted by Python and bound
   identically by the transpiler; too many positionals / positional+keyword are rejected by
   Python; the LCD row (no guard any more) has accepted, bound shapes *)
Example C08_nonvacuous_binding :
  let sh := mk_shape 1 [T "blue"; T "steps"; T "green"] in
  let b := [(T "red", STag (TPos 0)); (T "green", STag (TKw (T "green"))); (T "blue", STag (TKw (T "blue")));
            (T "duration_ms", SDefault (DNum 1000 1)); (T "steps", STag (TKw (T "steps")))] in
  In (T "RGBLed.fade") agreeing_methods /\
  py_bind (sig_of (T "RGBLed.fade")) sh = Some b /\
  redu_bind (T "RGBLed.fade") sh = Bound b /\
  restrict (device_params (T "RGBLed.fade")) b = b.
Proof. exact nonvacuous_binding. Qed.
Print Assumptions C08_nonvacuous_binding.

(* the three spellings of the property text - rgb.on(red=.., green=.., blue=..), rgb.on(r, g, b),
   rgb.on(r, blue=.., green=..) - and a lone keyword with defaults: accepted by Python, bound by
   the transpiler to the same arguments (RGBLed.on is an agreeing method: no guard) *)
Example C08_nonvacuous_rgb_on :
  let m := T "RGBLed.on" in
  In m agreeing_methods /\
  redu_bind m (mk_shape 0 [T "red"; T "green"; T "blue"]) =
    Bound [(T "red", STag (TKw (T "red"))); (T "green", STag (TKw (T "green"))); (T "blue", STag (TKw (T "blue")))] /\
  redu_bind m (mk_shape 3 []) =
    Bound [(T "red", STag (TPos 0)); (T "green", STag (TPos 1)); (T "blue", STag (TPos 2))] /\
  redu_bind m (mk_shape 1 [T "blue"; T "green"]) =
    Bound [(T "red", STag (TPos 0)); (T "green", STag (TKw (T "green"))); (T "blue", STag (TKw (T "blue")))] /\
  redu_bind m (mk_shape 0 [T "blue"]) =
    Bound [(T "red", SDefault (DNum 255 1)); (T "green", SDefault (DNum 255 1)); (T "blue", STag (TKw (T "blue")))] /\
  (forall sh, In sh [mk_shape 0 [T "red"; T "green"; T "blue"]; mk_shape 3 []; mk_shape 1 [T "blue"; T "green"]; mk_shape 0 [T "blue"]] ->
     exists b, py_bind (sig_of m) sh = Some b /\ redu_bind m sh = Bound b).
Proof. exact rgb_on_spellings. Qed.
Print Assumptions C08_nonvacuous_rgb_on.

Example C08_nonvacuous_rejections :
  py_bind (sig_of (T "RGBLed.set_color")) (mk_shape 4 []) = None /\
  py_bind (sig_of (T "RGBLed.set_color")) (mk_shape 1 [T "red"; T "green"; T "blue"]) = None /\
  py_bind (sig_of (T "LCD.write")) (mk_shape 0 [T "col"; T "row"; T "text"]) <> None /\
  redu_bind (T "LCD.write") (mk_shape 0 [T "col"; T "row"; T "text"]) = Rejected.
Proof. exact nonvacuous_rejections. Qed.
Print Assumptions C08_nonvacuous_rejections.

Example C08_nonvacuous_guard :
  let sh := mk_shape 0 [T "cols"; T "i2c_addr"] in
  guard_ok (guard_of (T "LCD.__init__")) sh = true /\
  (exists b, py_bind (sig_of (T "LCD.__init__")) sh = Some b /\
             redu_bind (T "LCD.__init__") sh = Bound (restrict (device_params (T "LCD.__init__")) b)) /\
  60 <= List.length agreeing_methods.
Proof. exact nonvacuous_guard. Qed.
Print Assumptions C08_nonvacuous_guard.

(* ======================================================================================
   Emitter stage: from the IR fields to the arguments of the firmware (Lang/BindEmit.v).
   emit_table (coq/Gen/EmitStage.v) is regenerated on every run by probing the current emitter
   with hand-made IR nodes: presence test of every field and the places its value is written to.
   ====================================================================================== *)

(* from the call to the firmware: whatever call Python accepts (any handler, any shape: the call-shape guard of Bind.v
   is gone; what makes this _partial is the emitter-stage field guard param_guarded) is rejected, or bound
   like Python AND every bound value - explicit (falsy constants 0 / 0.0 / False / "" and run-time expressions
   included) or a non-None default - is written into the C++ as the argument of its parameter, while a
   parameter Python binds to None (omitted None-default, or an explicit None) never appears as another constant *)
Theorem C08_firmware_args_are_pythons_partial : forall (m : method) (sh : call_shape) (b : binding) (val : tag -> fval),
  In m translated_methods ->
  py_bind (sig_of m) sh = Some b ->
  redu_bind m sh = Rejected \/
  (redu_bind m sh = Bound (restrict (device_params m) b) /\
   forall p s, In (p, s) (restrict (device_params m) b) -> param_guarded m p = false ->
     In (p, s) b /\
     (value val s <> FConst CNone -> fw_arg m val p s = AGiven (value val s)) /\
     (value val s = FConst CNone -> forall c, c <> CNone -> fw_arg m val p s <> AGiven (FConst c))).
Proof. exact (fun m sh b val Hm Hpy => firmware_args_are_pythons_partial m sh b val Hm (guard_ok_always m sh) Hpy). Qed.
Print Assumptions C08_firmware_args_are_pythons_partial.

(* omitted <> explicit falsy, per method parameter: an argument passed explicitly with ANY constant other than None
   never produces the firmware argument of the omitted (None-default) parameter *)
Theorem C08_explicit_falsy_is_not_omitted : forall (m : method) (val : tag -> fval) (p : text) (t : tag) (c : cst),
  In m translated_methods -> In p (device_params m) -> param_guarded m p = false ->
  val t = FConst c -> c <> CNone ->
  fw_arg m val p (STag t) <> fw_arg m val p (SDefault DNone).
Proof. exact explicit_falsy_is_not_omitted. Qed.
Print Assumptions C08_explicit_falsy_is_not_omitted.

(* the same two facts per IR node field of the regenerated table *)
Theorem C08_emit_explicit_value_reaches_slot : forall (k f : text) (e : efield) (v : fval),
  field_of k f = Some e -> guarded k f = false -> v <> FConst CNone ->
  reach (ef_test e) v = AGiven v.
Proof. exact emit_explicit_value_reaches_slot. Qed.
Print Assumptions C08_emit_explicit_value_reaches_slot.

Theorem C08_emit_omitted_ne_explicit_falsy : forall (k f : text) (e : efield) (c : cst),
  field_of k f = Some e -> guarded k f = false -> c <> CNone ->
  reach (ef_test e) (FConst c) <> reach (ef_test e) (FConst CNone).
Proof. exact emit_omitted_ne_explicit_falsy. Qed.
Print Assumptions C08_emit_omitted_ne_explicit_falsy.

(* no falsy constant is written exactly like a different signature default (`x or default`) *)
Theorem C08_emit_no_falsy_constant_written_as_default : forall (k : text) (fs : list efield) (e : efield),
  In (k, fs) emit_table -> In e fs -> ef_falsy_def e = false.
Proof. exact emit_no_falsy_constant_written_as_default. Qed.
Print Assumptions C08_emit_no_falsy_constant_written_as_default.

(* every field reaches its own place: whichever of the other nullable fields are omitted, the field is written
   only to places it also occupies when all fields are present (LCDDecl excepted: rw selects another constructor) *)
Theorem C08_emit_places_stable : forall (k : text) (fs : list efield) (e : efield) (s0 : list text) (rest : list (list text)) (pat : list text) (x : text),
  In (k, fs) emit_table -> tmem k place_guard = false -> In e fs ->
  ef_slots e = s0 :: rest -> In pat rest -> In x pat -> In x s0.
Proof. exact emit_places_stable. Qed.
Print Assumptions C08_emit_places_stable.

(* ... and those places are the reviewed ones (Lang/EmitSlots.v) *)
Theorem C08_emit_places_pinned : place_summary = expected_places.
Proof. exact places_pinned. Qed.
Print Assumptions C08_emit_places_pinned.

(* the parameter -> IR field table has the rows and device parameters of the binding table *)
Theorem C08_ir_table_matches : ir_table_matches = true.
Proof. exact ir_table_matches_now. Qed.
Print Assumptions C08_ir_table_matches.

(* what a truthiness test (`if node.x`) would do, and that the model does not accept it *)
Theorem C08_truthiness_test_loses_falsy : forall c, falsy c = true ->
  reach PTruthy (FConst c) = reach PTruthy (FConst CNone).
Proof. exact truthy_test_loses_falsy. Qed.
Print Assumptions C08_truthiness_test_loses_falsy.

Example C08_nonvacuous_emit :
  (exists e, field_of (T "BuzzerBeep") (T "frequency") = Some e /\ ef_test e = PNotNone /\ guarded (T "BuzzerBeep") (T "frequency") = false) /\
  (exists e, field_of (T "LCDMessage") (T "bottom") = Some e /\ ef_test e = PNotNone /\ List.length (ef_slots e) = 2%nat) /\
  test_of (T "Buzzer.beep") (T "frequency") = PNotNone /\
  test_of (T "Buzzer.play_tone") (T "duration_ms") = PNotNone /\
  test_of (T "Buzzer.beep") (T "times") = PAlways /\
  (let val := fun t => match t with TPos _ => FConst (CNum 0 1) | TKw _ => FConst (CBool false) end in
   fw_arg (T "Buzzer.beep") val (T "frequency") (STag (TPos 0)) = AGiven (FConst (CNum 0 1)) /\
   fw_arg (T "Buzzer.beep") val (T "frequency") (SDefault DNone) = AOmitted /\
   fw_arg (T "Buzzer.play_tone") val (T "duration_ms") (STag (TKw (T "duration_ms"))) = AGiven (FConst (CBool false))) /\
  (35 <= List.length emit_table)%nat.
Proof. exact nonvacuous_emit. Qed.
Print Assumptions C08_nonvacuous_emit.
