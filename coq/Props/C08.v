(* C08 - Device calls bind arguments exactly like the Python signatures do.
   Nothing but statements, closed by [exact], each followed by Print Assumptions.

   py_bind   = Python's binder on the signatures regenerated from the host classes (Gen/Signatures.v)
   redu_bind = the lookup pattern of each handler of transpile/parser.py (Lang/Bind.v, [table])
   agrees m sh b := redu_bind m sh = Rejected \/ redu_bind m sh = Bound (restrict (device_params m) b)
   Shapes are arbitrary: any number of positionals, any list of keywords in any order. *)
From Coq Require Import String Ascii ZArith List Bool Arith Permutation.
From RV Require Import Base.Wire Base.Text Lang.Sig Gen.Signatures Lang.Bind Proofs.BindP.
Import ListNotations.
Local Open Scope nat_scope.

(* every handler whose row carries no guard: whatever call Python accepts is rejected by the
   transpiler or bound to the same arguments and the same default values *)
Theorem C08_bind_agrees_partial : forall (m : method) (sh : call_shape) (b : binding),
  In m agreeing_methods ->
  py_bind (sig_of m) sh = Some b ->
  redu_bind m sh = Rejected \/ redu_bind m sh = Bound (restrict (device_params m) b).
Proof. exact bind_agrees_partial. Qed.
Print Assumptions C08_bind_agrees_partial.

(* all handlers, inside the explicit guard of the two rows that disagree with Python *)
Theorem C08_bind_agrees_guarded : forall (m : method) (sh : call_shape) (b : binding),
  In m translated_methods ->
  guard_ok (guard_of m) sh = true ->
  py_bind (sig_of m) sh = Some b ->
  redu_bind m sh = Rejected \/ redu_bind m sh = Bound (restrict (device_params m) b).
Proof. exact bind_agrees_guarded. Qed.
Print Assumptions C08_bind_agrees_guarded.

(* RGBLed.on binds by position only: rgb.on(red=.., green=.., blue=..) keeps 255,255,255 *)
Theorem C08_RGBLed_on_refuted : rgb_on_keyword_fix_landed = false ->
  exists sh b b',
    py_bind (sig_of (T "RGBLed.on")) sh = Some b /\
    redu_bind (T "RGBLed.on") sh = Bound b' /\
    b' <> restrict (device_params (T "RGBLed.on")) b.
Proof. exact rgb_on_refuted. Qed.
Print Assumptions C08_RGBLed_on_refuted.

(* ... and the same row once the handler looks the keywords up (flag flipped in Lang/Bind.v) *)
Theorem C08_RGBLed_on_fixed : rgb_on_keyword_fix_landed = true ->
  forall sh b, py_bind (sig_of (T "RGBLed.on")) sh = Some b ->
    redu_bind (T "RGBLed.on") sh = Rejected \/
    redu_bind (T "RGBLed.on") sh = Bound (restrict (device_params (T "RGBLed.on")) b).
Proof. exact rgb_on_fixed. Qed.
Print Assumptions C08_RGBLed_on_fixed.

(* LCD(rs=.., i2c_addr=..): Python binds rs, the I2C branch of the handler never reads it *)
Theorem C08_LCD_init_refuted :
  exists sh b b',
    py_bind (sig_of (T "LCD.__init__")) sh = Some b /\
    redu_bind (T "LCD.__init__") sh = Bound b' /\
    b' <> restrict (device_params (T "LCD.__init__")) b.
Proof. exact lcd_init_refuted. Qed.
Print Assumptions C08_LCD_init_refuted.

(* keyword order is irrelevant to both binders *)
Theorem C08_py_bind_keyword_order : forall sg n ks ks',
  Permutation ks ks' -> py_bind sg (mk_shape n ks) = py_bind sg (mk_shape n ks').
Proof. exact py_bind_perm. Qed.
Print Assumptions C08_py_bind_keyword_order.

Theorem C08_redu_bind_keyword_order : forall m n ks ks',
  Permutation ks ks' -> redu_bind m (mk_shape n ks) = redu_bind m (mk_shape n ks').
Proof. exact redu_bind_perm. Qed.
Print Assumptions C08_redu_bind_keyword_order.

Theorem C08_extract_arg_keyword_order : forall n ks ks' position keyword,
  Permutation ks ks' ->
  extract_arg (mk_shape n ks) position keyword = extract_arg (mk_shape n ks') position keyword.
Proof. exact extract_arg_perm. Qed.
Print Assumptions C08_extract_arg_keyword_order.

(* what Python rejects: too many positionals, repeated / unknown keywords, positional + keyword *)
Theorem C08_py_rejects_too_many : forall sg sh,
  List.length (pk_names sg) < npos sh -> py_bind sg sh = None.
Proof. exact py_bind_too_many. Qed.
Print Assumptions C08_py_rejects_too_many.

Theorem C08_py_rejects_repeated_keyword : forall sg sh, ~ NoDup (kws sh) -> py_bind sg sh = None.
Proof. exact py_bind_repeated_kw. Qed.
Print Assumptions C08_py_rejects_repeated_keyword.

Theorem C08_py_rejects_unknown_keyword : forall sg sh k,
  In k (kws sh) -> ~ In k (names sg) -> py_bind sg sh = None.
Proof. exact py_bind_unknown_kw. Qed.
Print Assumptions C08_py_rejects_unknown_keyword.

Theorem C08_py_rejects_positional_and_keyword : forall sg sh k,
  In k (kws sh) -> In k (firstn (npos sh) (pk_names sg)) -> py_bind sg sh = None.
Proof. exact py_bind_pos_and_kw. Qed.
Print Assumptions C08_py_rejects_positional_and_keyword.

(* the hand-written table and the regenerated signatures cover each other *)
Theorem C08_surface_classified : forall m,
  In m (map fst signatures) -> In m translated_methods \/ In m host_only_methods.
Proof. exact surface_classified. Qed.
Print Assumptions C08_surface_classified.

Theorem C08_table_has_signatures : forall m,
  In m translated_methods \/ In m host_only_methods -> In m (map fst signatures).
Proof. exact table_has_signatures. Qed.
Print Assumptions C08_table_has_signatures.

(* non-vacuity: rgb.fade(r, blue=.., steps=.., green=..) is accepted by Python and bound
   identically by the transpiler; too many positionals / positional+keyword are rejected by
   Python; the guarded LCD row still has accepted, bound shapes inside its guard *)
Example C08_nonvacuous_binding :
  let sh := mk_shape 1 [T "blue"; T "steps"; T "green"] in
  let b := [(T "red", STag (TPos 0)); (T "green", STag (TKw (T "green"))); (T "blue", STag (TKw (T "blue")));
            (T "duration_ms", SDefault (DNum 1000 1)); (T "steps", STag (TKw (T "steps")))] in
  In (T "RGBLed.fade") agreeing_methods /\
  py_bind (sig_of (T "RGBLed.fade")) sh = Some b /\
  redu_bind (T "RGBLed.fade") sh = Bound b /\
  restrict (device_params (T "RGBLed.fade")) b = b.
Proof. exact nonvacuous_binding. Qed.
Print Assumptions C08_nonvacuous_binding.

Example C08_nonvacuous_rejections :
  py_bind (sig_of (T "RGBLed.set_color")) (mk_shape 4 []) = None /\
  py_bind (sig_of (T "RGBLed.set_color")) (mk_shape 1 [T "red"; T "green"; T "blue"]) = None /\
  py_bind (sig_of (T "LCD.write")) (mk_shape 0 [T "col"; T "row"; T "text"]) <> None /\
  redu_bind (T "LCD.write") (mk_shape 0 [T "col"; T "row"; T "text"]) = Rejected.
Proof. exact nonvacuous_rejections. Qed.
Print Assumptions C08_nonvacuous_rejections.

Example C08_nonvacuous_guard :
  let sh := mk_shape 0 [T "cols"; T "i2c_addr"] in
  guard_ok (guard_of (T "LCD.__init__")) sh = true /\
  (exists b, py_bind (sig_of (T "LCD.__init__")) sh = Some b /\
             redu_bind (T "LCD.__init__") sh = Bound (restrict (device_params (T "LCD.__init__")) b)) /\
  60 <= List.length agreeing_methods.
Proof. exact nonvacuous_guard. Qed.
Print Assumptions C08_nonvacuous_guard.
