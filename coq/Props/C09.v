(* C09 - Generated firmware is memory-safe and does not leak across loop() passes.
   Nothing but statements, closed by [exact], each followed by Print Assumptions.

   Models: Device/DList.v (heap = list of blocks, never reused; the list helper templates of
   emitter.py:126-254 as heap transformers returning Safe / Unsafe OutOfBounds | UseAfterFree |
   DoubleFree), Device/DListProg.v (the statements the transpiler emits for list scripts,
   setup() + N passes of loop() whose locals die without freeing; the CPython reference
   semantics of the same statements; the [single_owner] guard).

   [rep h l cs]       the struct l = (pointer, size) denotes contents cs in heap h (live block
                      of exactly [size] cells, or nullptr with size 0)
   [in_range l i]     -size <= i < size  (Python's no-IndexError condition)
   [run_fw s b n]     firmware: setup statements s, then n passes of loop body b
   [run_py s b n]     CPython running the same statements
   [f_live_cells st]  cells in live heap blocks (= HEAP live_bytes / sizeof(T))
   [p_live pst]       total length of the distinct list objects reachable from a name
   Device/DListLen.v: the parser's parse-time copy of every list ([track1]: how each statement updates it while the
   script is parsed once), len() folded to the length of that copy ([f_len]: the folded constant, or the run-time
   __redu_len when there is no copy), run-time scalar arguments `c + off` (c read from a sensor in every pass):
   [run_fw_t s b cs]  firmware with FOLDED len(): setup statements s, then one pass of the (gated) body b per value of cs
   [run_py_t s b cs]  CPython: len() is the length the list has at that moment
   [len_ok s b]       the guard: single-owner shapes, only reads under run-time conditions, a constant remove hits the
                      copy, the copies have the same lengths after the loop body as before it; a call h(x) of a function
                      `def h(P): return P[len(Y) + k]` only in the main loop, Y the parameter or a global whose copy has at
                      the call the length it had at the FIRST call of the function (where its list variant is parsed)
   [fn_env td ps]     the constant environment of a function body: the copies [td] of the place where the function is
                      parsed (its first call), every parameter unfolded
   [frozen_ok s bs]   the guard of read-only sharing: lists assigned from a call that returns one of its list arguments
                      (`x = sel(y, z, c)`) or from another list (`x = y`) are deep copies in the firmware and aliases in
                      CPython; the names involved are only read
   [p_named pst]      CPython's live list data counted per NAME (an object bound to two names counts twice) *)
From Coq Require Import ZArith List Bool.
From RV Require Import Device.DList Device.DListProg Device.DListLen Device.DListArm Proofs.DListP Proofs.DListProgP Proofs.C09P Proofs.DListLenP Proofs.DListShareP Proofs.DListArmP.
Import ListNotations.

(* ============================================================== the helper templates *)

(* From a well-formed list value: get / set are safe IFF the index is in Python's range (and
   are an out-of-bounds access otherwise - there is no bounds check in __redu_list_get);
   append / remove / assign (from a list that does not share the buffer, or from the very
   same variable) are always safe, yield a well-formed list with Python's contents, and free
   exactly what they replace. *)
Theorem C09_helpers_safe : forall h l cs, rep h l cs ->
  (forall i, ((exists v, list_get h l i = Safe v) <-> in_range l i) /\
             (~ in_range l i -> list_get h l i = Unsafe OutOfBounds)) /\
  (forall i v, ((exists h', list_set h l i v = Safe h') <-> in_range l i) /\
               (~ in_range l i -> list_set h l i v = Unsafe OutOfBounds)) /\
  (forall v, exists h' l', list_append h l v = Safe (h', l') /\ rep h' l' (cs ++ [v]) /\
                           live_cells h' = live_cells h + 1) /\
  (forall v, exists h' l', list_remove h l v = Safe (h', l') /\
                           rep h' l' (match remove_first v cs with Some cs' => cs' | None => cs end) /\
                           live_cells h' + size l = live_cells h + size l') /\
  (forall s cs2, rep h s cs2 -> (data l = None \/ data l <> data s) ->
                 exists h' l', list_assign h l s false = Safe (h', l') /\ rep h' l' cs2 /\
                               live_cells h' + size l = live_cells h + size l') /\
  list_assign h l l true = Safe (h, l).
Proof. exact helpers_safe. Qed.
Print Assumptions C09_helpers_safe.

Example C09_helpers_safe_nonvacuous : rep [mkblock [5; 6]%Z true] (mklist (Some 0) 2) [5; 6]%Z.
Proof. exact rep_witness. Qed.
Print Assumptions C09_helpers_safe_nonvacuous.

(* the read value is Python's: x[i] with negative indices counted from the end *)
Theorem C09_get_value : forall h l cs i, rep h l cs ->
  list_get h l i = match py_index (length cs) i with
                   | Some k => Safe (nth k cs 0%Z)
                   | None => Unsafe OutOfBounds
                   end.
Proof. exact get_spec. Qed.
Print Assumptions C09_get_value.

(* make / comprehension always produce a well-formed list owning a fresh block (or nothing) *)
Theorem C09_constructors_safe : forall h,
  (forall items, exists h' l', list_make h items = Safe (h', l') /\ rep h' l' items) /\
  (forall c, exists h' l', comp_list h c = Safe (h', l') /\ rep h' l' (comp_vals c)).
Proof. exact constructors_safe. Qed.
Print Assumptions C09_constructors_safe.

(* a struct whose buffer has been freed (what `b = a` leaves behind after a.append): every
   helper that touches it is a memory error *)
Theorem C09_helpers_dead : forall h l b cs, data l = Some b -> nth_error h b = Some (mkblock cs false) ->
  (forall i, list_get h l i = Unsafe UseAfterFree \/ list_get h l i = Unsafe OutOfBounds) /\
  (forall v, exists k, list_append h l v = Unsafe k) /\
  (forall s cs2, rep h s cs2 -> list_assign h l s false = Unsafe DoubleFree).
Proof. exact helpers_dead. Qed.
Print Assumptions C09_helpers_dead.

Example C09_helpers_dead_nonvacuous : exists h l b cs, data l = Some b /\ nth_error h b = Some (mkblock cs false).
Proof. exact dead_witness. Qed.
Print Assumptions C09_helpers_dead_nonvacuous.

(* the argument of append / remove is a `const T &`: for `x.append(y[i])` it refers INTO y's buffer - and y may be
   x itself (`ring.append(ring[0])`, `hist.append(hist[-1])`, `w.remove(w[0])`).  For every well-formed list l and
   every well-formed list s of the same heap (in particular s = l): the helper is safe iff Python's index condition
   holds on s, yields Python's contents, and frees exactly what it replaces.  (The model reads the referenced cell
   where the template reads `value`: after the copy loop, before delete[]; a template that reads it after
   delete[] is a use after free for s = l and no longer refines this model.) *)
Theorem C09_argument_alias_safe : forall h l cs s cs2 i, rep h l cs -> rep h s cs2 ->
  (in_range s i -> exists h' l' v, list_get h s i = Safe v /\
       list_append_a h l (ARef s i) = Safe (h', l') /\ rep h' l' (cs ++ [v]) /\
       live_cells h' = live_cells h + 1) /\
  (~ in_range s i -> list_append_a h l (ARef s i) = Unsafe OutOfBounds) /\
  (in_range s i -> exists h' l' v, list_get h s i = Safe v /\
       list_remove_a h l (ARef s i) = Safe (h', l') /\
       rep h' l' (match remove_first v cs with Some c => c | None => cs end) /\
       live_cells h' + size l = live_cells h + size l').
Proof. exact argument_alias_safe. Qed.
Print Assumptions C09_argument_alias_safe.

(* ... instantiated at s = l: appending / removing an element of the very same list *)
Theorem C09_self_argument_safe : forall h l cs i, rep h l cs -> in_range l i ->
  exists h' l' v, list_get h l i = Safe v /\ list_append_a h l (ARef l i) = Safe (h', l') /\ rep h' l' (cs ++ [v]).
Proof. exact self_argument_safe. Qed.
Print Assumptions C09_self_argument_safe.

(* ============================================================== programs, inside the guard *)

(* single owner (no `b = a` into another name, no re-assignment from a literal / comprehension,
   no list local to the main loop, no function mutating its by-value list parameter): for every
   number of passes the firmware either ran safely - then every list variable owns a distinct
   live block of exactly its size and NOTHING else is live (no leak, whatever the history) - or
   stopped at an out-of-bounds index; never a use-after-free, never a double free. *)
Theorem C09_owner_unique_partial : forall setup body,
  single_owner setup body = true ->
  forall n, match run_fw setup body n with
            | Safe st => wf_heap st /\ tight st
            | Unsafe k => k = OutOfBounds
            end.
Proof. exact owner_unique_fw. Qed.
Print Assumptions C09_owner_unique_partial.

(* ... and when CPython runs the same statements without an exception (in particular without
   IndexError) the firmware is memory-safe for all n passes and its live heap cells equal
   Python's live list data *)
Theorem C09_python_safe_partial : forall setup body n pst,
  single_owner setup body = true -> run_py setup body n = POk pst ->
  exists st, run_fw setup body n = Safe st /\ wf_heap st /\ tight st /\ f_live_cells st = p_live pst.
Proof. exact owner_unique_py. Qed.
Print Assumptions C09_python_safe_partial.

(* the statement's second clause: live data constant from pass k to k+1 => heap usage constant *)
Theorem C09_no_leak_partial : forall setup body k p1 p2,
  single_owner setup body = true ->
  run_py setup body k = POk p1 -> run_py setup body (S k) = POk p2 -> p_live p1 = p_live p2 ->
  exists s1 s2, run_fw setup body k = Safe s1 /\ run_fw setup body (S k) = Safe s2 /\
                f_live_cells s1 = f_live_cells s2.
Proof. exact no_leak_py. Qed.
Print Assumptions C09_no_leak_partial.

(* ---- histories: pass k of the main loop executes the statement sequence bodies_k (run-time
   conditions around list statements select a sub-sequence of the loop body in every pass) *)
Theorem C09_history_owner_unique_partial : forall setup bodies,
  single_owner_seq setup bodies = true ->
  match run_fw_seq setup bodies with
  | Safe st => wf_heap st /\ tight st
  | Unsafe k => k = OutOfBounds
  end.
Proof. exact owner_unique_fw_seq. Qed.
Print Assumptions C09_history_owner_unique_partial.

Theorem C09_history_python_safe_partial : forall setup bodies pst,
  single_owner_seq setup bodies = true -> run_py_seq setup bodies = POk pst ->
  exists st, run_fw_seq setup bodies = Safe st /\ wf_heap st /\ tight st /\ f_live_cells st = p_live pst.
Proof. exact owner_unique_py_seq. Qed.
Print Assumptions C09_history_python_safe_partial.

Theorem C09_history_no_leak_partial : forall setup bodies b p1 p2,
  single_owner_seq setup (bodies ++ [b]) = true ->
  run_py_seq setup bodies = POk p1 -> run_py_seq setup (bodies ++ [b]) = POk p2 -> p_live p1 = p_live p2 ->
  exists s1 s2, run_fw_seq setup bodies = Safe s1 /\ run_fw_seq setup (bodies ++ [b]) = Safe s2 /\
                f_live_cells s1 = f_live_cells s2.
Proof. exact no_leak_py_seq. Qed.
Print Assumptions C09_history_no_leak_partial.

(* a single-owner body stays single-owner under every gating `if g > t:` and every input sequence,
   and N passes of an ungated body are the history that repeats it N times *)
Theorem C09_gated_guard : forall setup body gates gvals,
  single_owner setup body = true ->
  single_owner_seq setup (map (fun g => select g gates body) gvals) = true.
Proof. exact single_owner_gated. Qed.
Print Assumptions C09_gated_guard.

Theorem C09_repeat_history : forall setup body n, run_fw setup body n = run_fw_seq setup (repeat body n).
Proof. exact run_fw_repeat. Qed.
Print Assumptions C09_repeat_history.

(* deep copies are memory-safe too: allowing `x = y` between two declared lists (emitted as
   __redu_list_assign) in the loop keeps every reachable heap well-formed and tight, for every history;
   the only possible memory error is an out-of-bounds index - which now CAN happen on scripts Python runs
   fine, because Python aliases where the firmware copies (C09_clone_out_of_bounds_refuted below) *)
Theorem C09_deep_copy_safe_partial : forall setup bodies,
  owner_or_clone_seq setup bodies = true ->
  match run_fw_seq setup bodies with
  | Safe st => wf_heap st /\ tight st
  | Unsafe k => k = OutOfBounds
  end.
Proof. exact owner_or_clone_fw_seq. Qed.
Print Assumptions C09_deep_copy_safe_partial.

Example C09_deep_copy_nonvacuous :
  owner_or_clone_seq clone_setup_decls [clone_loop; clone_loop] = true /\
  single_owner_seq clone_setup_decls [clone_loop; clone_loop] = false.
Proof. exact clone_guard_witness. Qed.
Print Assumptions C09_deep_copy_nonvacuous.

Example C09_partial_nonvacuous :
  single_owner ok_setup ok_body = true /\ exists pst, run_py ok_setup ok_body 3 = POk pst /\ p_live pst = 8.
Proof. exact (conj ok_guard ok_python). Qed.
Print Assumptions C09_partial_nonvacuous.

(* single_owner also admits `x.append(y[i])`, `x.remove(y[i])` (x, y declared, possibly the same list) and tuple
   assignments `x1, .., xn = y1, .., yn` whose right-hand sides are the same declared names in another order (swap,
   rotation, any permutation: plain pointer exchange through struct-copy temporaries): the witness below uses
   ring.append(ring[0]), ring.remove(ring[0]), a swap and a three-way rotation; CPython runs it for 5 passes. *)
Example C09_partial_alias_tuple_nonvacuous :
  value_ok ok2_setup [ok2_body; ok2_body; ok2_body; ok2_body; ok2_body] = true /\
  exists pst, run_py ok2_setup ok2_body 5 = POk pst /\ p_live pst = 8.
Proof. exact (conj ok2_guard ok2_python). Qed.
Print Assumptions C09_partial_alias_tuple_nonvacuous.

(* the guard on a tuple assignment, spelled out *)
Theorem C09_tuple_guard : forall decl xs rs, tuple_ok decl xs rs = true ->
  exists ys, rhs_vars rs = Some ys /\ length xs = length ys /\ NoDup xs /\ NoDup ys /\ incl ys xs /\ incl xs decl.
Proof. exact tuple_ok_spec. Qed.
Print Assumptions C09_tuple_guard.

(* ============================================================== value semantics (Reduino fix: rule of five for __redu_list) *)

(* The struct owns its buffer: copies are deep, temporaries and by-value parameters are destroyed, assignment releases
   what it replaces.  For EVERY list program whose names are declared before they are used - aliases `x = y`, by-value
   parameters the callee mutates, lists returned by functions (`a = ident(a)` included), lists first assigned in the main
   loop, re-assignment from literals / comprehensions, ANY tuple assignment - and EVERY history (pass k runs the
   statements its run-time conditions select): the firmware either runs safely, and then every list variable owns a
   distinct live block of exactly its size and NOTHING else is live (no leak), or stops at an out-of-bounds index
   (Python's IndexError condition); never a use after free, never a double free.  Replaces C09_alias_refuted,
   C09_alias_double_free_refuted, C09_byvalue_refuted, C09_assign_self_alias_refuted, C09_tuple_literal_leak_refuted,
   C09_leak_comprehension_refuted, C09_leak_local_literal_refuted, C09_leak_reassign_refuted. *)
Theorem C09_value_semantics_safe : forall setup bodies,
  value_ok setup bodies = true ->
  match run_fw_seq setup bodies with
  | Safe st => wf_heap st /\ tight st
  | Unsafe k => k = OutOfBounds
  end.
Proof. exact value_safe_fw_seq. Qed.
Print Assumptions C09_value_semantics_safe.

(* the witnesses of the repaired findings: inside that guard, CPython and the firmware run 1 and 4 passes, heap usage
   after pass 4 = heap usage after pass 1 *)
Theorem C09_alias_repaired : repaired uaf_setup [LGet 0 0; LGet 1 0]%Z.
Proof. exact alias_repaired. Qed.
Print Assumptions C09_alias_repaired.

Theorem C09_alias_double_free_repaired : repaired dfree_setup [LGet 0 0; LGet 1 0]%Z.
Proof. exact alias_double_free_repaired. Qed.
Print Assumptions C09_alias_double_free_repaired.

Theorem C09_byvalue_repaired : repaired byval_setup [LCallAppend 0 2; LGet 0 0]%Z.
Proof. exact byvalue_repaired. Qed.
Print Assumptions C09_byvalue_repaired.

Theorem C09_assign_self_alias_repaired : repaired ret_setup [LAssignRet 0 0; LGet 0 0]%Z.
Proof. exact assign_self_alias_repaired. Qed.
Print Assumptions C09_assign_self_alias_repaired.

Theorem C09_tuple_literal_repaired : repaired tuple_leak_setup tuple_leak_body.
Proof. exact tuple_literal_repaired. Qed.
Print Assumptions C09_tuple_literal_repaired.

Theorem C09_leak_comprehension_repaired : repaired [] leak_comp_body.
Proof. exact leak_comp_local_repaired. Qed.
Print Assumptions C09_leak_comprehension_repaired.

Theorem C09_leak_local_literal_repaired : repaired [] leak_lit_body.
Proof. exact leak_lit_local_repaired. Qed.
Print Assumptions C09_leak_local_literal_repaired.

Theorem C09_leak_reassign_repaired : repaired leak_reassign_setup leak_reassign_body.
Proof. exact leak_reassign_repaired. Qed.
Print Assumptions C09_leak_reassign_repaired.

(* ============================================================== still refuted: copies where Python aliases *)

(* a = [1]; c = [2]; c = a   while True: c.append(5); a.remove(5)
   - `c = a` on a declared list is a deep copy in the firmware and an alias in Python: memory-safe, but
   the firmware heap grows by one cell per pass while Python's live data is constant *)
Theorem C09_clone_divergence_refuted : grows clone_setup clone_body.
Proof. exact clone_grows. Qed.
Print Assumptions C09_clone_divergence_refuted.

(* ... and an index that is fine in Python is out of bounds in the firmware:
   a = [1]; c = [2]; c = a   while True: c.append(5); a[1]; a.remove(5) *)
Theorem C09_clone_out_of_bounds_refuted :
  exists n pst, run_py clone_setup clone_oob_body n = POk pst /\ run_fw clone_setup clone_oob_body n = Unsafe OutOfBounds.
Proof. exact clone_out_of_bounds. Qed.
Print Assumptions C09_clone_out_of_bounds_refuted.

(* ============================================================== len() folded at transpile time *)

(* scripts that index with len(): `x[len(y) + k]`, `x[k - len(y)]` next to append / remove of literals, of run-time
   scalars and of list elements, `x = x`, permutations, gated reads.  Inside [len_ok], for EVERY sequence of run-time
   values (one pass each): when CPython raises no exception the firmware - which uses the length of the parser's
   copy wherever CPython uses the list's length - is memory-safe, holds exactly the cells of the live lists, and its
   heap usage equals CPython's live data. *)
Theorem C09_len_fold_safe_partial : forall setup body cs pst,
  len_ok setup body = true -> run_py_t setup body cs = POk pst ->
  exists st, run_fw_t setup body cs = Safe st /\ wf_heap st /\ tight st /\ f_live_cells st = p_live pst.
Proof. exact len_fold_safe. Qed.
Print Assumptions C09_len_fold_safe_partial.

Theorem C09_len_fold_no_leak_partial : forall setup body cs c p1 p2,
  len_ok setup body = true ->
  run_py_t setup body cs = POk p1 -> run_py_t setup body (cs ++ [c]) = POk p2 -> p_live p1 = p_live p2 ->
  exists s1 s2, run_fw_t setup body cs = Safe s1 /\ run_fw_t setup body (cs ++ [c]) = Safe s2 /\
                f_live_cells s1 = f_live_cells s2.
Proof. exact len_fold_no_leak. Qed.
Print Assumptions C09_len_fold_no_leak_partial.

Example C09_len_fold_nonvacuous :
  len_ok len_ok_setup len_ok_body = true /\
  exists pst, run_py_t len_ok_setup len_ok_body [2; 0; 3; 1]%Z = POk pst /\ p_live pst = 6.
Proof. exact (conj len_ok_guard len_ok_python). Qed.
Print Assumptions C09_len_fold_nonvacuous.

(* what the repaired parser does with its copies (for every copy): an append / remove whose argument is not a parse-time
   constant takes the copy away - no placeholder entry, no pop(0) -, every write under an `if` takes it away after the
   `if`, and the body of `while True:` is parsed without the copies of the names it writes.  (These replace
   C09_copy_remove_runtime / C09_copy_append, the facts the old guard rested on.) *)
Theorem C09_copy_runtime_arg_untracks : forall t x a, targ_val t a = None ->
  t_cur (track1 false t (TAppend x a)) x = None /\ t_cur (track1 false t (TRemove x a)) x = None.
Proof. exact track_runtime_arg_untracks. Qed.
Print Assumptions C09_copy_runtime_arg_untracks.

Theorem C09_copy_gated_untracks : forall t s x, In x (swrites s) -> t_cur (track1 true t s) x = None.
Proof. exact track_gated_untracks. Qed.
Print Assumptions C09_copy_gated_untracks.

Theorem C09_loop_env_untracks : forall t0 body x, In x (body_writes body) -> t_cur (loop_env t0 body) x = None.
Proof. exact loop_env_untracks. Qed.
Print Assumptions C09_loop_env_untracks.

(* ---- the witnesses of the repaired stale-len findings (F-C09-stale-len-out-of-bounds, -later-pass-, -rebind-in-branch-,
   -runtime-remove-pops-first-): inside the guard of C09_len_fold_safe_partial now - hence safe for EVERY sequence of
   readings -, and on the readings that used to read out of bounds the firmware run is safe and holds CPython's live
   data.  They replace C09_stale_len_branch_refuted, _pass_refuted, _rebind_refuted, _pop_refuted *)

(* a = [1, 2, 3]   while True: (if c > 5: a.append(9)); mon.write(a[len(a) - 1]); (if c > 5: a.remove(9))   c = 0, 0, 0 *)
Theorem C09_stale_len_branch_repaired : len_ok stale_branch_setup stale_branch_body = true /\
  exists pst st, run_py_t stale_branch_setup stale_branch_body [0; 0; 0]%Z = POk pst /\
                 run_fw_t stale_branch_setup stale_branch_body [0; 0; 0]%Z = Safe st /\ f_live_cells st = p_live pst.
Proof. exact stale_branch_repaired. Qed.
Print Assumptions C09_stale_len_branch_repaired.

(* a = [1, 2, 3, 4, 5]   while True: a.remove(a[0]); mon.write(a[len(a) - 1]) *)
Theorem C09_stale_len_pass_repaired : len_ok stale_pass_setup stale_pass_body = true /\
  exists pst st, run_py_t stale_pass_setup stale_pass_body [0; 0; 0]%Z = POk pst /\
                 run_fw_t stale_pass_setup stale_pass_body [0; 0; 0]%Z = Safe st /\ f_live_cells st = p_live pst.
Proof. exact stale_pass_repaired. Qed.
Print Assumptions C09_stale_len_pass_repaired.

(* a = [1, 2, 3]; b = [4]   while True: (if c > 0: a, b = b, a); mon.write(a[len(a) - 1])   c = 1, 0 *)
Theorem C09_stale_len_rebind_repaired :
  exists pst st, run_py_t stale_rebind_setup stale_rebind_body [1; 0]%Z = POk pst /\
                 run_fw_t stale_rebind_setup stale_rebind_body [1; 0]%Z = Safe st /\ f_live_cells st = p_live pst.
Proof. exact stale_rebind_repaired. Qed.
Print Assumptions C09_stale_len_rebind_repaired.

(* a = [1, 2, 3]   while True: a.remove(c); a.remove(1); mon.write(a[len(a) - 1]); a.append(1); a.append(c)   c = 3 *)
Theorem C09_stale_len_pop_repaired : len_ok stale_pop_setup stale_pop_body = true /\
  exists pst st, run_py_t stale_pop_setup stale_pop_body [3]%Z = POk pst /\
                 run_fw_t stale_pop_setup stale_pop_body [3]%Z = Safe st /\ f_live_cells st = p_live pst.
Proof. exact stale_pop_repaired. Qed.
Print Assumptions C09_stale_len_pop_repaired.

(* ============================================================== lists returned by functions: read-only sharing *)

(* `x = sel(y, z, c)` / `x = ident(y)` / `x = y` into a DECLARED list x (x different from the source): the firmware clones
   (__redu_list_assign has one overload, `const __redu_list<T> &`: a temporary shallow copy of y is copied element by
   element, never adopted), CPython aliases.  Inside [frozen_ok] - the names that take part in such assignments are
   afterwards only read or re-assigned among each other, everything else is single-owner - for EVERY history (pass k
   runs the statements the run-time values of that pass select, in particular a different source list in every pass):
   when CPython raises no exception the firmware is memory-safe (no use after free, no double free, no out-of-bounds
   index), every name owns a distinct live block and nothing else is live, and the heap holds CPython's live data
   counted per name. *)
Theorem C09_shared_result_python_safe_partial : forall setup bodies pst,
  frozen_ok setup bodies = true -> run_py_seq setup bodies = POk pst ->
  exists st, run_fw_seq setup bodies = Safe st /\ wf_heap st /\ tight st /\ f_live_cells st = p_named pst.
Proof. exact frozen_share_py. Qed.
Print Assumptions C09_shared_result_python_safe_partial.

(* the leak clause: live data constant from one pass to the next - counted per name - => heap usage constant *)
Theorem C09_shared_result_no_leak_partial : forall setup bodies b p1 p2,
  frozen_ok setup (bodies ++ [b]) = true ->
  run_py_seq setup bodies = POk p1 -> run_py_seq setup (bodies ++ [b]) = POk p2 -> p_named p1 = p_named p2 ->
  exists s1 s2, run_fw_seq setup bodies = Safe s1 /\ run_fw_seq setup (bodies ++ [b]) = Safe s2 /\
                f_live_cells s1 = f_live_cells s2.
Proof. exact frozen_share_no_leak. Qed.
Print Assumptions C09_shared_result_no_leak_partial.

(* the demo of the class: active = sel(low, high, c) with alternating readings, three reads per pass: inside the guard
   (and outside single_owner), CPython runs 4 passes, live data 6 elements, 9 counted per name *)
Example C09_shared_result_nonvacuous :
  (frozen_ok share_setup share_bodies = true /\ single_owner_seq share_setup share_bodies = false) /\
  exists pst, run_py_seq share_setup share_bodies = POk pst /\ p_live pst = 6 /\ p_named pst = 9.
Proof. exact (conj share_guard share_python). Qed.
Print Assumptions C09_shared_result_nonvacuous.

(* the guard on `x = f(.., y, ..)` spelled out, and what "only read" means *)
Theorem C09_shared_result_guard : forall decl fz x y, use_ok3 decl fz (LAssignRet x y) = true ->
  x <> y /\ In x decl /\ In y decl /\ In x fz /\ In y fz.
Proof. exact use_ok3_ret_spec. Qed.
Print Assumptions C09_shared_result_guard.

Theorem C09_shared_names_read_only : forall decl fz s x, use_ok3 decl fz s = true -> In x fz ->
  match s with
  | LAppend z _ | LRemove z _ | LSet z _ _ | LAppendRef z _ _ | LRemoveRef z _ _ => z <> x
  | _ => True
  end.
Proof. exact use_ok3_frozen_not_mutated. Qed.
Print Assumptions C09_shared_names_read_only.

(* refuted at full strength (statement counts live data per OBJECT): low = [1, 2, 3]; high = [4, 5]; active = [0, 0, 0]
   while True: active = sel(low, high, c)   readings 2, 0 - inside the guard, memory-safe, CPython's live data is 5
   elements after both passes, the firmware's heap holds 8 cells after the first and 7 after the second *)
Theorem C09_shared_result_heap_varies_refuted :
  frozen_ok vary_setup vary_bodies = true /\
  exists p1 p2 s1 s2,
    run_py_seq vary_setup [[LAssignRet 2 0]%Z] = POk p1 /\ run_py_seq vary_setup vary_bodies = POk p2 /\
    p_live p1 = p_live p2 /\
    run_fw_seq vary_setup [[LAssignRet 2 0]%Z] = Safe s1 /\ run_fw_seq vary_setup vary_bodies = Safe s2 /\
    f_live_cells s1 = 8 /\ f_live_cells s2 = 7.
Proof. exact share_multiplicity. Qed.
Print Assumptions C09_shared_result_heap_varies_refuted.

(* ============================================================== len() inside function bodies *)

(* the constant environment of a function body (parser.py _parse_function): a parameter is never a parse-time constant,
   whatever the enclosing environment binds its name to ... *)
Theorem C09_fn_param_never_folded : forall td params p, In p params -> t_cur (fn_env td params) p = None.
Proof. exact fn_env_param. Qed.
Print Assumptions C09_fn_param_never_folded.

(* ... a global that no parameter shadows keeps the copy of the place where the function is parsed (that place's copies
   are taken without the names the script writes at more than one site: DListLen.fn_first) ... *)
Theorem C09_fn_global_keeps_def_copy : forall td params y, ~ In y params -> t_cur (fn_env td params) y = t_cur td y.
Proof. exact fn_env_global. Qed.
Print Assumptions C09_fn_global_keeps_def_copy.

(* ... hence `def h(P): return P[len(P) + k]` evaluates the run-time length of its ARGUMENT, also when P carries the name
   of a global list with a parse-time copy of another length *)
Theorem C09_fn_param_len_is_argument_len : forall fe t st x p sg k,
  s_len fe t st (TCallLen x p p sg k) = Z.of_nat (list_len (f_lookup st x)).
Proof. exact param_len_unfolded. Qed.
Print Assumptions C09_fn_param_len_is_argument_len.

(* calls of such functions are inside C09_len_fold_safe_partial; witness: the parameter shadows a = [1, 2, 3] and the
   function is called with the shorter list b = [7] *)
Example C09_fn_shadow_nonvacuous :
  len_ok shadow_ok_setup shadow_ok_body = true /\
  exists pst, run_py_t shadow_ok_setup shadow_ok_body [0; 0]%Z = POk pst /\ p_live pst = 4.
Proof. exact (conj shadow_ok_guard shadow_ok_python). Qed.
Print Assumptions C09_fn_shadow_nonvacuous.

(* the witness of the repaired finding F-C09-stale-len-function-first-call-out-of-bounds:
   a = [1, 2, 3];  def h(P): return P[len(a) - 1]
   while True: r = h(a); mon.write(r); a.remove(c); r = h(a); mon.write(r); a.append(c)   c = 2
   - a has more than one write site in the script, so len(a) in the function body is read at run time; inside the guard
   (replaces C09_stale_len_first_call_refuted) *)
Theorem C09_stale_len_first_call_repaired : len_ok stale_def_setup stale_def_body = true /\
  exists pst st, run_py_t stale_def_setup stale_def_body [2]%Z = POk pst /\
                 run_fw_t stale_def_setup stale_def_body [2]%Z = Safe st /\ f_live_cells st = p_live pst.
Proof. exact stale_def_repaired. Qed.
Print Assumptions C09_stale_len_first_call_repaired.

(* ============================================================== sibling arms of one if / elif / else (try / except) statement *)

(* The parser keeps its parse-time list copies as Python list objects, mutates them in place on append / remove of a
   constant and parses every arm in `_branch_ctx()` / `_child_ctx()` = `_copy_const_env(snapshot)` (Device/DListArm.v: object
   identity, one heap for all arms, arms parsed in source order).  For EVERY well-formed parser state (one object per
   name), every snapshot [t] it represents and every list of arms: the lengths folded in the arms are, arm by arm, the
   lengths the arm ALONE is folded with from the snapshot - nothing an earlier arm appends or removes reaches a later one *)
Theorem C09_arms_folded_independently : forall arms e h t, Wf e h -> View e h t ->
  snd (c_arms e h arms) = map (v_lens t) arms.
Proof. exact arms_independent. Qed.
Print Assumptions C09_arms_folded_independently.

(* ... in particular: what is folded in arm k depends only on the statements in front of the statement and on arm k *)
Theorem C09_arm_depends_on_snapshot_and_itself : forall arms arms' e h t k,
  Wf e h -> View e h t -> nth k arms [] = nth k arms' [] -> (k < length arms)%nat -> (k < length arms')%nat ->
  nth k (snd (c_arms e h arms)) [] = nth k (snd (c_arms e h arms')) [].
Proof. exact arm_depends_on_snapshot_and_itself. Qed.
Print Assumptions C09_arm_depends_on_snapshot_and_itself.

(* the state the parser is in after the top-level statements [pre] is well-formed and represents the copies [track] computes *)
Theorem C09_arms_after_setup : forall pre arms,
  arm_lens pre arms = map (v_lens (fst (track false [] [] (ungated pre)))) arms.
Proof. exact arm_lens_spec. Qed.
Print Assumptions C09_arms_after_setup.

(* per path: the lengths folded in arm k are the lengths the straight-line program "statements in front, then arm k" - the
   program that runs when arm k is taken - is folded with; C09_len_fold_safe_partial applies to that program *)
Theorem C09_taken_arm_folded_like_its_path : forall pre arms k, (k < length arms)%nat ->
  block_lens [] (ungated (taken_path pre arms k)) = block_lens [] (ungated pre) ++ nth k (arm_lens pre arms) [].
Proof. exact taken_path_lens. Qed.
Print Assumptions C09_taken_arm_folded_like_its_path.

Theorem C09_taken_arm_safe_partial : forall pre arms k body cs pst,
  len_ok (taken_path pre arms k) body = true -> run_py_t (taken_path pre arms k) body cs = POk pst ->
  exists st, run_fw_t (taken_path pre arms k) body cs = Safe st /\ wf_heap st /\ tight st /\ f_live_cells st = p_live pst.
Proof. intros pre arms k. exact (len_fold_safe (taken_path pre arms k)). Qed.
Print Assumptions C09_taken_arm_safe_partial.

(* after the statement a name is folded iff NO arm writes it (then with the copy it had in front of the statement) *)
Theorem C09_after_arms_forgets : forall t arms x, In x (arms_writes arms) -> t_cur (after_arms t arms) x = None.
Proof. exact after_arms_forgets. Qed.
Print Assumptions C09_after_arms_forgets.

Theorem C09_after_arms_keeps : forall t arms x, ~ In x (arms_writes arms) -> t_cur (after_arms t arms) x = t_cur t x.
Proof. exact after_arms_keeps. Qed.
Print Assumptions C09_after_arms_keeps.

(* l0 = [10, 20, 30]; l1 = [7, 8];  if ..: l0.append(40); l1.append(9); l1.append(10); l0[len(l0) - 1]  elif ..: l0[0]
   else: l0[len(l0) - 1]; l1[len(l1) - 1]   - the else arm is folded with 3 and 2 ... *)
Example C09_arms_nonvacuous : arm_lens arms_pre arms_demo = [[None; None; None; Some 4]; [None]; [Some 3; Some 2]]%nat.
Proof. exact arms_demo_lens. Qed.
Print Assumptions C09_arms_nonvacuous.

(* ... whereas a parser that copies the environment ONCE per statement (every arm working on `dict(copy)`) folds it with 4 and 4 *)
Example C09_arms_shared_copy_differs : arm_lens_shared arms_pre arms_demo = [[None; None; None; Some 4]; [None]; [Some 4; Some 4]]%nat.
Proof. exact arms_demo_shared. Qed.
Print Assumptions C09_arms_shared_copy_differs.
