(* C10 - transpilation is a deterministic, stateless function of the source text.
   Nothing but statements, closed by [exact], each followed by Print Assumptions.

   [sigma : list ident -> list ident] stands for "the order in which CPython iterates the set with
   these elements"; the only thing assumed about it is [perm_oracle] (it is a permutation).  A
   family [otag -> ...] gives every construct of a program its own oracle.

   [promote] / [transl] model the code as it is: the names hoisted out of an if / try branch and out of a while / for
   body are walked through sorted(...) (repair of F-C10-promotion-order, known_findings.d/C10.json kind "fixed").
   [promote_with sigma] / [transl_with sigma] are the same algorithm walking the sets unsorted - the code before the
   repair - and occur only in the last-but-one group of statements. *)
From Coq Require Import ZArith QArith List Bool Permutation Sorted String.
From RV Require Import Base.Wire Base.Text Lang.Order Proofs.OrderP.
From RV Require Import Gen.SetSites Lang.OrderSites Proofs.OrderSitesP Lang.DevSession Proofs.DevSessionP.
From RV Require Import Lang.RetJoin Proofs.RetJoinP.
From RV Require Lang.SortKey Proofs.SortKeyP Lang.MemoSession Proofs.MemoSessionP.
From RV Require Lang.EmitSession Proofs.EmitSessionP Lang.VariantSession Proofs.VariantSessionP Gen.PuritySites Lang.PuritySites Proofs.PuritySitesP.
Import ListNotations.
Open Scope Z_scope.

(* ---------------------------------------------------------------- full strength *)
(* the declaration-and-block skeleton of the translation does not depend on any iteration order of any set: every program
   of the modelled fragment, every family of permutation oracles, no guard *)
Theorem C10_order_independent : forall s1 s2 p,
  perm_family s1 -> perm_family s2 -> transl s1 p = transl s2 p.
Proof. exact transl_independent. Qed.
Print Assumptions C10_order_independent.

(* the hypotheses are satisfiable by two different oracles, on the program that used to separate them (five names first
   assigned in one `if` body: the witness of F-C10-promotion-order, outside the pre-repair guard) *)
Example C10_order_independent_nonvacuous :
  perm_family (fun _ => sid) /\ perm_family (fun _ => srev) /\ sid [n_a; n_b] <> srev [n_a; n_b].
Proof. exact two_oracles. Qed.
Print Assumptions C10_order_independent_nonvacuous.

Example C10_witness_one_order :
  transl (fun _ => sid) witness_prog = transl (fun _ => srev) witness_prog /\
  map fst (o_globals (transl (fun _ => srev) witness_prog)) = [n_cnd; n_a; n_b; n_d; n_e; n_c] /\
  o_ok (transl (fun _ => srev) witness_prog) = false.
Proof. exact witness_fixed. Qed.
Print Assumptions C10_witness_one_order.

(* a program outside the pre-repair guard in three places (function body, second branch re-declaring a recorded name, except
   clause in the main loop): one output, hoisted names in code-point order branch by branch, typed from the first branch *)
Example C10_open_region_program :
  o_ok (transl (fun _ => srev) open_prog) = false /\
  transl (fun _ => sid) open_prog = transl (fun _ => srev) open_prog /\
  o_funs (transl (fun _ => srev) open_prog) =
    [(txt "fn"%string, [NHoist n_a 0; NHoist n_e 1; NHoist n_b 2; NHoist n_d 3;
                        NIf [[NAssign n_e; NAssign n_a]; [NAssign n_d; NAssign n_a; NAssign n_b]]])] /\
  o_loop (transl (fun _ => srev) open_prog) =
    [NTry [[NAssign n_cnd]; [NAssign n_c; NAssign n_b]]] /\
  o_globals (transl (fun _ => srev) open_prog) = [(n_cnd, 0); (n_b, 3); (n_c, 1)].
Proof. exact open_prog_ok. Qed.
Print Assumptions C10_open_region_program.

(* one construct: whatever the branches declare *)
Theorem C10_construct_order_independent : forall s1 s2 c,
  perm_oracle s1 -> perm_oracle s2 -> promote s1 c = promote s2 c.
Proof. exact promote_independent. Qed.
Print Assumptions C10_construct_order_independent.

(* the two construct shapes that separated two oracles before the repair (C10_two_names_in_a_branch_refuted,
   C10_two_unmet_names_in_a_loop_refuted) no longer do - for all names and types, no side condition left *)
Theorem C10_two_names_in_a_branch : forall parent x y tx ty,
  promote sid (CIf parent [[(x, tx); (y, ty)]]) = promote srev (CIf parent [[(x, tx); (y, ty)]]).
Proof. exact promote_two_names_in_a_branch. Qed.
Print Assumptions C10_two_names_in_a_branch.

Theorem C10_two_unmet_names_in_a_loop : forall x y tx ty,
  promote sid (CLoop [] [(x, tx); (y, ty)]) = promote srev (CLoop [] [(x, tx); (y, ty)]).
Proof. exact promote_two_unmet_names_in_a_loop. Qed.
Print Assumptions C10_two_unmet_names_in_a_loop.

(* WHICH order comes out: the one a walk of every set in code-point order yields (branch by branch, first recording wins;
   loop bodies: first-declaration order, then the unmet names in code-point order) *)
Theorem C10_promotion_order_is_canonical : forall s c, perm_oracle s -> promote s c = promote_with sort c.
Proof. exact promote_canonical. Qed.
Print Assumptions C10_promotion_order_is_canonical.

Theorem C10_translation_is_canonical : forall s p, perm_family s -> transl s p = transl_with (fun _ => sort) p.
Proof. exact transl_canonical. Qed.
Print Assumptions C10_translation_is_canonical.

(* the oracles the harness feeds to the extracted model are permutation oracles *)
Theorem C10_harness_oracles_are_permutations : perm_family sigma_rank.
Proof. exact sigma_rank_perm. Qed.
Print Assumptions C10_harness_oracles_are_permutations.

(* ... and they reach every iteration order: the order [l'] of a set with elements [l] is what [sigma_rank l'] yields *)
Theorem C10_harness_oracles_reach_every_order : forall l l',
  NoDup l' -> Permutation l' l -> sigma_rank l' l = l'.
Proof. exact sigma_rank_complete. Qed.
Print Assumptions C10_harness_oracles_reach_every_order.

(* ---------------------------------------------------------------- the sorted() sites *)
Theorem C10_sorted_site_order_independent : forall s1 s2 l,
  perm_oracle s1 -> perm_oracle s2 -> sorted_site s1 l = sorted_site s2 l.
Proof. exact sorted_site_independent. Qed.
Print Assumptions C10_sorted_site_order_independent.

Theorem C10_sorted_site_spec : forall s l,
  perm_oracle s -> StronglySorted tle (sorted_site s l) /\ Permutation (sorted_site s l) l.
Proof. exact sorted_site_spec. Qed.
Print Assumptions C10_sorted_site_spec.

(* unique.pop() under len(unique) == 1 *)
Theorem C10_pop_of_singleton : forall s x, perm_oracle s -> pop_site s [x] = Some x.
Proof. exact pop_site_singleton. Qed.
Print Assumptions C10_pop_of_singleton.

(* ---------------------------------------------------------------- a VALUE chosen from a set: the join of the return types of a
   function (_merge_return_types).  The label that becomes the C++ return type - and the declared type of every variable assigned
   from a call - depends neither on the enumeration of the set of inferred types nor on its iteration order: every set, no guard *)
Theorem C10_return_type_join_order_independent : forall s1 s2 u u' has_void,
  perm_oracle s1 -> perm_oracle s2 -> Permutation u u' -> merge_ret s1 u has_void = merge_ret s2 u' has_void.
Proof. exact merge_ret_independent. Qed.
Print Assumptions C10_return_type_join_order_independent.

(* the guard `len(unique) == 1` in front of the pop() is what buys it: with the pop() unconditional, a function returning lists of
   two element types gets list[int] under one iteration order and list[float] under another (the code as it is says int for both) *)
Theorem C10_unguarded_pop_refuted :
  exists s1 s2 u, perm_oracle s1 /\ perm_oracle s2 /\ NoDup u /\
    merge_ret_pop s1 u false = JTy (txt "list[int]") /\ merge_ret_pop s2 u false = JTy (txt "list[float]") /\
    merge_ret s1 u false = JTy l_int /\ merge_ret s2 u false = JTy l_int.
Proof. exact merge_ret_pop_refuted. Qed.
Print Assumptions C10_unguarded_pop_refuted.

(* ... and it would be harmless exactly where a String / float / int label or at most one label is in the set *)
Theorem C10_unguarded_pop_partial : forall s1 s2 u u' has_void,
  perm_oracle s1 -> perm_oracle s2 -> Permutation u u' -> one_list_type u = true ->
  merge_ret_pop s1 u has_void = merge_ret_pop s2 u' has_void.
Proof. exact merge_ret_pop_partial. Qed.
Print Assumptions C10_unguarded_pop_partial.

Example C10_unguarded_pop_partial_nonvacuous :
  one_list_type [txt "list[int]"; txt "int"; txt "bool"] = true /\ one_list_type [txt "list[int]"; txt "list[bool]"] = false.
Proof. exact one_list_type_example. Qed.
Print Assumptions C10_unguarded_pop_partial_nonvacuous.

(* ---------------------------------------------------------------- statelessness (by construction; the content is the tie) *)
Theorem C10_pure : forall sigma before p after,
  nth_error (session sigma (before ++ p :: after)) (List.length before) = Some (transl sigma p).
Proof. exact session_pure. Qed.
Print Assumptions C10_pure.

Theorem C10_session_order_independent : forall s1 s2 ps,
  perm_family s1 -> perm_family s2 -> session s1 ps = session s2 ps.
Proof. exact session_order_independent. Qed.
Print Assumptions C10_session_order_independent.

(* ---------------------------------------------------------------- what the sorted() calls buy (the code BEFORE the repair) *)
(* the same algorithm walking the sets unsorted depends on the order: this is what the check reports, with the witness of
   the fixed finding as replay, if the sorted() calls are taken out again *)
Theorem C10_unsorted_walk_is_order_dependent :
  exists s1 s2 p, perm_family s1 /\ perm_family s2 /\ transl_with s1 p <> transl_with s2 p.
Proof. exact order_dependence_exists. Qed.
Print Assumptions C10_unsorted_walk_is_order_dependent.

Example C10_unsorted_walk_witness_orders :
  map fst (o_globals (transl_with (fun _ => sid) witness_prog)) = [n_cnd; n_a; n_b; n_d; n_e; n_c] /\
  map fst (o_globals (transl_with (fun _ => srev) witness_prog)) = [n_cnd; n_c; n_e; n_d; n_b; n_a].
Proof. exact witness_globals. Qed.
Print Assumptions C10_unsorted_walk_witness_orders.

(* only the ORDER could vary *)
Theorem C10_unsorted_walk_result_is_permutation : forall s1 s2 c,
  perm_oracle s1 -> perm_oracle s2 -> Permutation (promote_with s1 c) (promote_with s2 c).
Proof. exact promote_permutation. Qed.
Print Assumptions C10_unsorted_walk_result_is_permutation.

(* the sorted() of the while / for handlers is defence only: the construct these handlers build (see walk_stmt: body walked
   from [c], resp. from [c] + the loop variable) always satisfies the loop clause of the guard, because every name a block
   newly declares is met as a declaration node by _collect_order - so even an unsorted walk of `promoted_set` never reached
   the output in the fragment; the defect was confined to if/elif/else and try/except *)
Theorem C10_loop_constructs_always_guarded : forall P body c,
  guard (CLoop (flat_map decl_names (w_nodes (walk_block P body c)))
               (new_decls c (w_ctx (walk_block P body c)))) = true.
Proof. exact loop_guard_holds. Qed.
Print Assumptions C10_loop_constructs_always_guarded.

Theorem C10_unsorted_walk_of_a_loop_site_is_invisible : forall s1 s2 P body c,
  perm_oracle s1 -> perm_oracle s2 ->
  let r := walk_block P body c in
  promote_with s1 (CLoop (flat_map decl_names (w_nodes r)) (new_decls c (w_ctx r))) =
  promote_with s2 (CLoop (flat_map decl_names (w_nodes r)) (new_decls c (w_ctx r))).
Proof. exact loop_site_independent. Qed.
Print Assumptions C10_unsorted_walk_of_a_loop_site_is_invisible.

(* the repair changed no output of a program whose every construct was inside the pre-repair guard ([o_ok]: every if / try
   branch contributes at most one not-yet-recorded new name, every new name of a loop body is met as a declaration node) *)
Theorem C10_repair_conservative : forall s p,
  perm_family s -> o_ok (transl_with s p) = true -> transl s p = transl_with s p.
Proof. exact transl_conservative. Qed.
Print Assumptions C10_repair_conservative.

Example C10_repair_conservative_nonvacuous :
  o_ok (transl_with (fun _ => sid) guarded_prog) = true /\
  o_globals (transl_with (fun _ => sid) guarded_prog) = [(n_cnd, 0); (n_a, 0); (n_b, 1); (n_c, 0); (n_d, 3)] /\
  o_loop (transl_with (fun _ => sid) guarded_prog) = [NWhile [NAssign n_c; NAssign n_d]].
Proof. exact guarded_prog_ok. Qed.
Print Assumptions C10_repair_conservative_nonvacuous.

(* ---------------------------------------------------------------- inventory of the CURRENT source (Gen/SetSites.v) *)
(* no set iteration of parser.py / emitter.py lets its order reach the consumer: every one is wrapped in sorted() or feeds an
   order-insensitive consumer (len, set, any, membership ...) *)
Theorem C10_no_unsorted_set_iteration : forall s, In s sites -> s_class s = 1 \/ s_class s = 2.
Proof. exact sites_sorted_or_insensitive. Qed.
Print Assumptions C10_no_unsorted_set_iteration.

(* the sorted() sites the property names, and the ones of the repair, are (still) wrapped in sorted() ... *)
Theorem C10_sorted_sites_present : forall r, In r required_sorted_sites ->
  exists s, In s sites /\ s_file s = fst (fst r) /\ s_fn s = snd (fst r) /\ s_iter s = snd r /\ s_class s = 1.
Proof. exact sorted_sites_present. Qed.
Print Assumptions C10_sorted_sites_present.

(* ... all four loops of the repair: both `new_names` loops of _promote_branch_decls, the `promoted_set` loop of the while
   handler and the one of the for handler *)
Theorem C10_repaired_sites_sorted :
  count_sorted (txt "_promote_branch_decls"%string) (txt "new_names"%string) = 2%nat /\
  count_sorted (txt "_parse_simple_lines"%string) (txt "promoted_set"%string) = 2%nat.
Proof. exact repaired_sites_counted. Qed.
Print Assumptions C10_repaired_sites_sorted.

(* no function of the three transpiler modules mutates module-level state, except the verification hook's log *)
Theorem C10_no_module_state : forall m, In m module_state -> m_mutated m = true -> m_name m = hook_log.
Proof. exact no_module_state. Qed.
Print Assumptions C10_no_module_state.

(* the only modules imported (anywhere) by parser.py / emitter.py / ast.py are pure helpers - no time, random, os, uuid ... -
   except `os` inside the verification hook, which reads its REDUINO_VERIF switch *)
Theorem C10_imports_are_pure : forall i, In i imports ->
  In (i_module i) allowed_modules \/ (i_module i = txt "os"%string /\ i_fn i = hook_fn).
Proof. exact imports_accounted. Qed.
Print Assumptions C10_imports_are_pure.

(* no use of hash / id / open / input / eval / exec / globals / object() ... in the three files *)
Theorem C10_no_ambient_builtins : ambient_calls = [].
Proof. exact no_ambient_calls. Qed.
Print Assumptions C10_no_ambient_builtins.

(* ---------------------------------------------------------------- statelessness across parse() calls (Lang/DevSession.v) *)
(* The device-name registries of ctx, created by `ctx.setdefault(key, D)` and read by `ctx.get(key, D)`, with a module-level
   store threaded from one parse() to the next.  [cfg_ok]: every key that does not exist before the first statement takes
   FRESH defaults.  Then the output of a program is its own translation [transl_dev p], whatever was transpiled before and
   after it and whatever the module-level objects hold. *)
Theorem C10_session_stateless : forall c ms before p after, cfg_ok c = true ->
  nth_error (dsession c ms (before ++ p :: after)) (List.length before) = Some (transl_dev p).
Proof. exact dsession_stateless. Qed.
Print Assumptions C10_session_stateless.

(* ... and one parse() leaves the module-level store as it found it *)
Theorem C10_parse_leaves_module_store : forall c ms p, cfg_ok c = true -> run c ms p = (transl_dev p, ms).
Proof. exact run_pure. Qed.
Print Assumptions C10_parse_leaves_module_store.

Example C10_session_stateless_nonvacuous :
  cfg_ok (cfg_fresh (fun k => negb (key_eqb k KSerial))) = true /\
  dsession (cfg_fresh (fun k => negb (key_eqb k KSerial))) [(txt "_NO_NAMES"%string, [n_x])] [leak_A; leak_B; leak_A]
    = [Some []; Some [(n_y, 2, 0)]; Some []].
Proof. exact stateless_nonvacuous. Qed.
Print Assumptions C10_session_stateless_nonvacuous.

(* the guard is tight: a lazily created registry whose default is one module-level object (here the serial monitors) makes a
   later, unrelated program come out differently: x = SerialMonitor(..) in A; x = Potentiometer(..), y = x.read() in B *)
Theorem C10_shared_default_refuted : forall c o,
  c_pre c KSerial = false -> c_set c KSerial = Some o -> c_get c KSerial = Some o ->
  c_pre c KServo = true -> c_pre c KPot = true -> c_pre c KPotPin = true ->
  exists A B, nth_error (dsession c [] [A; B]) 1 <> Some (transl_dev B).
Proof. exact shared_default_refutes. Qed.
Print Assumptions C10_shared_default_refuted.

Example C10_shared_default_witness : forall c o,
  c_pre c KSerial = false -> c_set c KSerial = Some o -> c_get c KSerial = Some o ->
  c_pre c KServo = true -> c_pre c KPot = true -> c_pre c KPotPin = true ->
  transl_dev leak_B = Some [(n_y, 2, 0)] /\ dsession c [] [leak_A; leak_B] = [Some []; Some [(n_y, 2, 3)]].
Proof. exact shared_default_leaks. Qed.
Print Assumptions C10_shared_default_witness.

(* the CURRENT source (Gen/SetSites.v: the keys parse() and the prologue of _parse_simple_lines seed, the default of every
   setdefault/get site) is inside the guard ... *)
Theorem C10_current_source_defaults_fresh : cfg_ok cfg_gen = true.
Proof. exact cfg_gen_ok. Qed.
Print Assumptions C10_current_source_defaults_fresh.

(* ... hence stateless for every session *)
Theorem C10_session_stateless_current_source : forall ms before p after,
  nth_error (dsession cfg_gen ms (before ++ p :: after)) (List.length before) = Some (transl_dev p).
Proof. exact session_stateless_current_source. Qed.
Print Assumptions C10_session_stateless_current_source.

(* every use of a module-level (or class-level) mutable object - set/dict/list displays and constructor calls bound at module
   level - in parser.py / emitter.py / ast.py is read-only: none is mutated, not even through a local alias, and none ESCAPES
   (passed to a call such as ctx.setdefault(key, M) / ctx.get(key, M), stored, returned, default argument); the only exception
   is the verification hook appending to its own log *)
Theorem C10_module_objects_never_escape : forall u, In u module_uses -> u_class u <> 0 ->
  u_name u = hook_log /\ u_class u = 2.
Proof. exact module_uses_accounted. Qed.
Print Assumptions C10_module_objects_never_escape.

(* no `X.setdefault("key", D)` / `X.get("key", D)` of the three files takes a module-level object as D *)
Theorem C10_no_shared_default : forall d, In d default_sites -> d_class d <> 2.
Proof. exact default_sites_accounted. Qed.
Print Assumptions C10_no_shared_default.

(* every key of the dictionary parse() starts from is seeded with a fresh object or a constant *)
Theorem C10_ctx_seeded_fresh : forall e, In e ctx_preseeded -> snd e = true.
Proof. exact preseeded_fresh. Qed.
Print Assumptions C10_ctx_seeded_fresh.

(* ---------------------------------------------------------------- sorted() with a key (Lang/SortKey.v) *)
(* sorted(<set>, key=k) is stable: names whose keys tie keep the iteration order of the set.  ANY tie between two different names
   separates two iteration orders - for every key type, every order on the keys, every key function *)
Theorem C10_keyed_sort_tie_refuted : forall (K : Type) (kle : K -> K -> bool) (key : ident -> K) x y,
  x <> y -> SortKey.key_tie K kle key x y = true ->
  SortKey.keyed_sorted_site K kle key sid [x; y] <> SortKey.keyed_sorted_site K kle key srev [x; y].
Proof. exact SortKeyP.tie_separates. Qed.
Print Assumptions C10_keyed_sort_tie_refuted.

(* ... what comes out for the tied pair is the iteration order itself *)
Theorem C10_keyed_sort_tie_keeps_set_order : forall (K : Type) (kle : K -> K -> bool) (key : ident -> K) x y,
  SortKey.key_tie K kle key x y = true ->
  SortKey.keyed_sorted_site K kle key sid [x; y] = [x; y] /\ SortKey.keyed_sorted_site K kle key srev [x; y] = [y; x].
Proof. exact SortKeyP.tie_keeps_iteration_order. Qed.
Print Assumptions C10_keyed_sort_tie_keeps_set_order.

(* guard: a total, transitive order on keys and a key that separates the names of the set - then one result for all orders *)
Theorem C10_keyed_sort_partial : forall (K : Type) (kle : K -> K -> bool) (key : ident -> K),
  (forall a b, kle a b = true \/ kle b a = true) ->
  (forall a b c, kle a b = true -> kle b c = true -> kle a c = true) ->
  forall s1 s2 l, perm_oracle s1 -> perm_oracle s2 -> SortKey.key_injective_on K kle key l ->
  SortKey.keyed_sorted_site K kle key s1 l = SortKey.keyed_sorted_site K kle key s2 l.
Proof. exact SortKeyP.keyed_site_independent. Qed.
Print Assumptions C10_keyed_sort_partial.

Example C10_keyed_sort_partial_nonvacuous :
  SortKey.key_injective_on (list SortKey.chunk) SortKey.chunks_leb SortKey.natkey [SortKey.n_key1; SortKey.n_key2; SortKey.n_key10] /\
  SortKey.keyed_sorted_site (list SortKey.chunk) SortKey.chunks_leb SortKey.natkey srev [SortKey.n_key1; SortKey.n_key2; SortKey.n_key10]
    = [SortKey.n_key1; SortKey.n_key2; SortKey.n_key10].
Proof. exact SortKeyP.natkey_injective_example. Qed.
Print Assumptions C10_keyed_sort_partial_nonvacuous.

(* the key-less sorted() of the code is the instance "key = the name": injective on every set, hence unconditional above *)
Theorem C10_keyless_sort_is_the_identity_key : forall s l,
  SortKey.keyed_sorted_site text text_leb SortKey.idkey s l = sorted_site s l.
Proof. exact SortKeyP.keyless_is_idkey. Qed.
Print Assumptions C10_keyless_sort_is_the_identity_key.

Theorem C10_identity_key_injective : forall l, SortKey.key_injective_on text text_leb SortKey.idkey l.
Proof. exact SortKeyP.idkey_injective. Qed.
Print Assumptions C10_identity_key_injective.

(* natural number order (btn2 before btn10): key1 and key01 tie, so the order of two Buttons / LCDs so named would follow the hash seed *)
Theorem C10_natural_key_refuted : exists s1 s2 l, perm_oracle s1 /\ perm_oracle s2 /\
  SortKey.keyed_sorted_site (list SortKey.chunk) SortKey.chunks_leb SortKey.natkey s1 l <>
  SortKey.keyed_sorted_site (list SortKey.chunk) SortKey.chunks_leb SortKey.natkey s2 l.
Proof. exact SortKeyP.natkey_site_refuted. Qed.
Print Assumptions C10_natural_key_refuted.

Example C10_natural_key_witness :
  SortKey.keyed_sorted_site (list SortKey.chunk) SortKey.chunks_leb SortKey.natkey sid [SortKey.n_key1; SortKey.n_key01; SortKey.n_key2; SortKey.n_key10]
    = [SortKey.n_key1; SortKey.n_key01; SortKey.n_key2; SortKey.n_key10] /\
  SortKey.keyed_sorted_site (list SortKey.chunk) SortKey.chunks_leb SortKey.natkey srev [SortKey.n_key1; SortKey.n_key01; SortKey.n_key2; SortKey.n_key10]
    = [SortKey.n_key01; SortKey.n_key1; SortKey.n_key2; SortKey.n_key10] /\
  sorted_site srev [SortKey.n_key1; SortKey.n_key01; SortKey.n_key2; SortKey.n_key10] = [SortKey.n_key01; SortKey.n_key1; SortKey.n_key10; SortKey.n_key2].
Proof. exact SortKeyP.natkey_witness. Qed.
Print Assumptions C10_natural_key_witness.

(* the CURRENT source: no sorted() over a set takes a key *)
Theorem C10_sorted_sites_keyless : forall s, In s sites -> s_keyed s = false.
Proof. exact sorted_sites_keyless. Qed.
Print Assumptions C10_sorted_sites_keyless.

(* ---------------------------------------------------------------- memoised helpers (Lang/MemoSession.v) *)
(* a process-wide memo table in front of a pure helper of the emitter - any key equality, any set of memoised calls, any
   hit / eviction policy that invents no entries, any initial table of true results - cannot be seen, PROVIDED calls the table
   identifies have one result *)
Theorem C10_memo_stateless_partial : forall keq cached hit miss,
  MemoSession.key_refines keq cached -> MemoSession.policy_ok hit -> MemoSession.policy_ok miss ->
  forall t before p after, MemoSession.table_ok t ->
  nth_error (MemoSession.session keq cached hit miss t (before ++ p :: after)) (List.length before) = Some (map MemoSession.spec p).
Proof. exact MemoSessionP.memo_stateless. Qed.
Print Assumptions C10_memo_stateless_partial.

Example C10_memo_stateless_nonvacuous :
  MemoSession.key_refines MemoSession.py_keq MemoSession.cache_fmt /\
  MemoSession.cache_fmt (MemoSession.CFmt (MemoSession.VB true)) = true /\
  MemoSession.py_keq (MemoSession.CFmt (MemoSession.VF (1 # 1))) (MemoSession.CFmt (MemoSession.VB true)) = true /\
  MemoSession.session MemoSession.py_keq MemoSession.cache_fmt MemoSession.keep MemoSession.keep []
    [[MemoSession.CFmt (MemoSession.VB true)]; [MemoSession.CFmt (MemoSession.VF (1 # 1)); MemoSession.CFmt (MemoSession.VI 1)]]
    = [[MemoSession.OFix 1000000]; [MemoSession.OFix 1000000; MemoSession.OFix 1000000]].
Proof. exact MemoSessionP.memo_nonvacuous. Qed.
Print Assumptions C10_memo_stateless_nonvacuous.

(* the guard is tight: ONE pair of memoised calls that the table identifies and whose results differ makes the second program
   come out with the first one's text *)
Theorem C10_memo_conflation_refuted : forall keq cached a b,
  cached a = true -> cached b = true -> keq b a = true -> MemoSession.spec a <> MemoSession.spec b ->
  MemoSession.session keq cached MemoSession.keep MemoSession.keep [] [[a]; [b]] = [[MemoSession.spec a]; [MemoSession.spec a]] /\
  nth_error (MemoSession.session keq cached MemoSession.keep MemoSession.keep [] ([[a]] ++ [[b]])) 1 <> Some (map MemoSession.spec [b]).
Proof. exact MemoSessionP.conflation_refutes. Qed.
Print Assumptions C10_memo_conflation_refuted.

(* functools.lru_cache in front of _emit_duration_ms: Python's == identifies the int 100 (a defaulted on_ms) with the float 100.0
   (a spelled-out one), str() does not *)
Theorem C10_lru_cache_on_duration_refuted : exists before p,
  nth_error (MemoSession.session MemoSession.py_keq MemoSession.cache_all MemoSession.keep MemoSession.keep [] (before ++ [p]))
            (List.length before) <> Some (map MemoSession.spec p).
Proof. exact MemoSessionP.lru_cache_on_duration_refuted. Qed.
Print Assumptions C10_lru_cache_on_duration_refuted.

Example C10_lru_cache_on_duration_witness :
  MemoSession.session MemoSession.py_keq MemoSession.cache_all MemoSession.keep MemoSession.keep [] [[MemoSession.beep_default]; [MemoSession.beep_explicit]] =
    [[MemoSession.ODurLit MemoSession.ind4 MemoSession.v_on_ms (MemoSession.VI 100)]; [MemoSession.ODurLit MemoSession.ind4 MemoSession.v_on_ms (MemoSession.VI 100)]] /\
  MemoSession.session MemoSession.py_keq MemoSession.cache_all MemoSession.keep MemoSession.keep [] [[MemoSession.beep_explicit]; [MemoSession.beep_default]] =
    [[MemoSession.ODurLit MemoSession.ind4 MemoSession.v_on_ms (MemoSession.VF (100 # 1))]; [MemoSession.ODurLit MemoSession.ind4 MemoSession.v_on_ms (MemoSession.VF (100 # 1))]] /\
  map (map MemoSession.spec) [[MemoSession.beep_default]; [MemoSession.beep_explicit]] =
    [[MemoSession.ODurLit MemoSession.ind4 MemoSession.v_on_ms (MemoSession.VI 100)]; [MemoSession.ODurLit MemoSession.ind4 MemoSession.v_on_ms (MemoSession.VF (100 # 1))]].
Proof. exact MemoSessionP.duration_witness. Qed.
Print Assumptions C10_lru_cache_on_duration_witness.

(* ... whereas the same cache in front of _format_float alone is harmless (float(value) forgets what == identifies), *)
Theorem C10_format_float_cache_harmless : forall t before p after, MemoSession.table_ok t ->
  nth_error (MemoSession.session MemoSession.py_keq MemoSession.cache_fmt MemoSession.keep MemoSession.keep t (before ++ p :: after))
            (List.length before) = Some (map MemoSession.spec p).
Proof. exact MemoSessionP.format_float_cache_harmless. Qed.
Print Assumptions C10_format_float_cache_harmless.

(* ... and so is lru_cache(typed=True) in front of any of them *)
Theorem C10_typed_cache_harmless : forall cached t before p after, MemoSession.table_ok t ->
  nth_error (MemoSession.session MemoSession.typed_keq cached MemoSession.keep MemoSession.keep t (before ++ p :: after))
            (List.length before) = Some (map MemoSession.spec p).
Proof. exact MemoSessionP.typed_cache_harmless. Qed.
Print Assumptions C10_typed_cache_harmless.

(* the CURRENT source: no function of the three files carries a memoising decorator, *)
Theorem C10_no_cached_helper : cache_sites = [].
Proof. exact no_cached_helper. Qed.
Print Assumptions C10_no_cached_helper.

(* ... hence the helpers are stateless in every session, for every key equality, policy and initial table *)
Theorem C10_helpers_stateless_current_source : forall keq hit miss t before p after,
  nth_error (MemoSession.session keq cached_gen hit miss t (before ++ p :: after)) (List.length before) = Some (map MemoSession.spec p).
Proof. exact helpers_stateless_current_source. Qed.
Print Assumptions C10_helpers_stateless_current_source.

(* ---------------------------------------------------------------- emit() is a function of the Program VALUE (Lang/EmitSession.v) *)
(* "repeated calls", "all sequences of earlier parse()/emit() calls": a Program kept by the caller may be emitted any number of times,
   between any other calls.  A sequence field of an IR node is a list or a one-shot iterator; [emit] returns the Program as the call
   leaves it.  Guard: the parser stores the validated rows as a LIST with the same masked items.  Then every emit() of every parsed
   script, in every sequence of parse() / emit() calls, yields the text of that script. *)
Theorem C10_emit_session_stateless_partial : forall mk srcs ops, EmitSession.faithful mk ->
  EmitSession.esession mk srcs ops [] = EmitSession.espec srcs ops [].
Proof. exact EmitSessionP.emit_session_stateless. Qed.
Print Assumptions C10_emit_session_stateless_partial.

Theorem C10_emit_repeatable_partial : forall mk src n, EmitSession.faithful mk ->
  EmitSession.esession mk [src] (EmitSession.EParse 0 :: repeat (EmitSession.EEmit 0) n) [] = repeat (Some (EmitSession.spec_emit src)) n.
Proof. exact EmitSessionP.emit_repeatable. Qed.
Print Assumptions C10_emit_repeatable_partial.

Example C10_emit_session_nonvacuous :
  EmitSession.faithful EmitSession.mk_masked_list /\
  EmitSession.esession EmitSession.mk_masked_list [EmitSession.w_src; [EmitSession.SOther (txt "x"%string)]]
    [EmitSession.EParse 0; EmitSession.EEmit 0; EmitSession.EParse 1; EmitSession.EEmit 0; EmitSession.EEmit 1; EmitSession.EEmit 0] [] =
    [Some (EmitSession.spec_emit EmitSession.w_src); Some (EmitSession.spec_emit EmitSession.w_src); Some [EmitSession.OText (txt "x"%string)];
     Some (EmitSession.spec_emit EmitSession.w_src)] /\
  EmitSession.spec_emit EmitSession.w_src =
    [EmitSession.OText (txt "begin"%string); EmitSession.OGlyph EmitSession.n_lcd 1 (txt "0"%string) [0; 10; 31; 31; 14; 4; 0; 0];
     EmitSession.OGlyph EmitSession.n_lcd 2 (txt "1"%string) [4; 14; 31; 4; 4; 4; 4; 0]].
Proof. exact EmitSessionP.emit_session_nonvacuous. Qed.
Print Assumptions C10_emit_session_nonvacuous.

(* masking the rows while the node is built is harmless as long as the result is a list (the emitter masks again) *)
Theorem C10_mask_in_parser_harmless : EmitSession.faithful EmitSession.mk_masked_list.
Proof. exact EmitSessionP.faithful_masked_list. Qed.
Print Assumptions C10_mask_in_parser_harmless.

(* the guard is tight: the same rows stored as a generator expression - the second emit() of a Program renders empty glyphs *)
Theorem C10_one_shot_field_refuted : exists srcs ops,
  EmitSession.esession EmitSession.mk_masked_gen srcs ops [] <> EmitSession.espec srcs ops [].
Proof. exact EmitSessionP.one_shot_refutes. Qed.
Print Assumptions C10_one_shot_field_refuted.

Example C10_one_shot_field_witness :
  EmitSession.esession EmitSession.mk_masked_gen [EmitSession.w_src] [EmitSession.EParse 0; EmitSession.EEmit 0; EmitSession.EEmit 0] [] =
    [Some (EmitSession.spec_emit EmitSession.w_src);
     Some [EmitSession.OText (txt "begin"%string); EmitSession.OGlyph EmitSession.n_lcd 1 (txt "0"%string) [];
           EmitSession.OGlyph EmitSession.n_lcd 2 (txt "1"%string) []]] /\
  EmitSession.espec [EmitSession.w_src] [EmitSession.EParse 0; EmitSession.EEmit 0; EmitSession.EEmit 0] [] =
    [Some (EmitSession.spec_emit EmitSession.w_src); Some (EmitSession.spec_emit EmitSession.w_src)].
Proof. exact EmitSessionP.one_shot_witness. Qed.
Print Assumptions C10_one_shot_field_witness.

(* ANY non-empty one-shot field: the second emit() of the Program differs from the first *)
Theorem C10_one_shot_second_emit_differs : forall lcd slot v rows,
  let p := [EmitSession.EGlyph lcd slot (EmitSession.OneShot (v :: rows))] in
  fst (EmitSession.emit (snd (EmitSession.emit p))) <> fst (EmitSession.emit p).
Proof. exact EmitSessionP.one_shot_second_emit_differs. Qed.
Print Assumptions C10_one_shot_second_emit_differs.

(* ... whereas every session that parses afresh before each emit() - target(), the unit tests, same-script-twice and hash-seed
   comparisons - sees the right text: such a defect needs a Program that is emitted twice *)
Theorem C10_one_shot_invisible_to_parse_emit_flows : forall srcs is,
  (forall i, In i is -> (i < List.length srcs)%nat) ->
  forall st parsed, EmitSession.esession EmitSession.mk_masked_gen srcs (EmitSession.once_each is) st =
                    EmitSession.espec srcs (EmitSession.once_each is) parsed.
Proof. exact EmitSessionP.one_shot_invisible_to_parse_emit_flows. Qed.
Print Assumptions C10_one_shot_invisible_to_parse_emit_flows.

(* the CURRENT source (Gen/PuritySites.v): every lazily evaluated value (generator expression, map / filter / zip / iter / reversed /
   enumerate, call of a generator function) of the three files is consumed where it is made, *)
Theorem C10_no_lazy_value_escapes : forall s, In s PuritySites.lazy_sites -> PuritySites.l_class s = 1.
Proof. exact PuritySitesP.lazy_sites_accounted. Qed.
Print Assumptions C10_no_lazy_value_escapes.

(* no IR-node constructor of the parser takes one, *)
Theorem C10_no_lazy_ir_field : PuritySites.node_lazy_args = [].
Proof. exact PuritySitesP.no_lazy_ir_field. Qed.
Print Assumptions C10_no_lazy_ir_field.

(* no statement of emitter.py stores into / deletes from / calls a mutating method on an object reached through an attribute, *)
Theorem C10_emit_never_changes_its_argument : PuritySites.emit_arg_mutations = [].
Proof. exact PuritySitesP.no_emit_arg_mutation. Qed.
Print Assumptions C10_emit_never_changes_its_argument.

(* hence the storage the inventory reads off the source is inside the guard, and emit() is stateless in every session *)
Theorem C10_current_source_glyph_rows_reiterable : EmitSession.faithful Lang.PuritySites.mk_gen.
Proof. exact PuritySitesP.mk_gen_faithful. Qed.
Print Assumptions C10_current_source_glyph_rows_reiterable.

Theorem C10_emit_stateless_current_source : forall srcs ops,
  EmitSession.esession Lang.PuritySites.mk_gen srcs ops [] = EmitSession.espec srcs ops [].
Proof. exact PuritySitesP.emit_stateless_current_source. Qed.
Print Assumptions C10_emit_stateless_current_source.

(* ---------------------------------------------------------------- a REJECTED parse() leaves nothing behind (Lang/VariantSession.v) *)
(* The re-entrancy guard of _ensure_function_variant: a set of (helper, signature) keys, consulted before a variant is generated.
   [vcfg]: where the set lives (per-parse ctx / module level) and how the key is released (finally / a statement after the call).
   [vspec] is the translation without any guard.  Guard of the theorem: the set dies with the parse, or every exit path releases. *)
Theorem C10_variant_session_stateless_partial : forall c before p after, VariantSession.cfg_safe c = true ->
  nth_error (VariantSession.vsession c [] (before ++ p :: after)) (List.length before) = Some (VariantSession.vspec p).
Proof. exact VariantSessionP.vsession_stateless. Qed.
Print Assumptions C10_variant_session_stateless_partial.

(* each of the two edits alone is harmless: a per-parse set needs no release, whatever a module-level set holds; *)
Theorem C10_variant_guard_per_parse_any_store : forall rel ms before p after,
  nth_error (VariantSession.vsession (VariantSession.mk_vcfg VariantSession.PerParse rel) ms (before ++ p :: after)) (List.length before)
    = Some (VariantSession.vspec p).
Proof. exact VariantSessionP.per_parse_guard_any_store. Qed.
Print Assumptions C10_variant_guard_per_parse_any_store.

(* a module-level set released on every exit path is left as it was found by every parse, rejected or not *)
Theorem C10_parse_leaves_guard_store : forall c p, VariantSession.cfg_safe c = true ->
  VariantSession.vrun c [] p = (VariantSession.vspec p, []).
Proof. exact VariantSessionP.vrun_leaves_store. Qed.
Print Assumptions C10_parse_leaves_guard_store.

Example C10_variant_session_nonvacuous :
  VariantSession.cfg_safe VariantSession.cfg_code = true /\
  VariantSession.cfg_safe (VariantSession.mk_vcfg VariantSession.ModuleLevel VariantSession.Finally) = true /\
  VariantSession.cfg_safe (VariantSession.mk_vcfg VariantSession.PerParse VariantSession.Straight) = true /\
  VariantSession.vsession VariantSession.cfg_code [] [VariantSession.rej_A; VariantSession.ok_B; VariantSession.rej_A] =
    [VariantSession.Rejected; VariantSession.Accepted [(VariantSession.n_v, 3)] [(VariantSession.n_pick, 3, 3)]; VariantSession.Rejected] /\
  VariantSession.vsession (VariantSession.mk_vcfg VariantSession.ModuleLevel VariantSession.Finally) []
      [VariantSession.rej_A; VariantSession.ok_B; VariantSession.rej_A] =
    [VariantSession.Rejected; VariantSession.Accepted [(VariantSession.n_v, 3)] [(VariantSession.n_pick, 3, 3)]; VariantSession.Rejected] /\
  VariantSession.vsession (VariantSession.mk_vcfg VariantSession.PerParse VariantSession.Straight) []
      [VariantSession.rej_A; VariantSession.ok_B; VariantSession.rej_A] =
    [VariantSession.Rejected; VariantSession.Accepted [(VariantSession.n_v, 3)] [(VariantSession.n_pick, 3, 3)]; VariantSession.Rejected].
Proof. exact VariantSessionP.safe_nonvacuous. Qed.
Print Assumptions C10_variant_session_nonvacuous.

(* the guard is tight: a module-level set released by a statement after the call.  `def pick(x): if x == 0: return x / return 0;
   v = pick("a")` is rejected while the String variant is generated and leaves its key; the valid `def pick(x): return x; v = pick("b")`
   then loses the variant and types v from the int variant *)
Theorem C10_variant_guard_leak_refuted : exists A B,
  nth_error (VariantSession.vsession VariantSession.cfg_leaky [] ([A] ++ B :: [])) 1 <> Some (VariantSession.vspec B).
Proof. exact VariantSessionP.leaky_guard_refutes. Qed.
Print Assumptions C10_variant_guard_leak_refuted.

(* ... and the rejected script itself is accepted at its second attempt *)
Theorem C10_rejected_script_accepted_second_time_refuted : exists A,
  VariantSession.vsession VariantSession.cfg_leaky [] [A; A] <> [VariantSession.vspec A; VariantSession.vspec A].
Proof. exact VariantSessionP.leaky_guard_rejected_then_accepted. Qed.
Print Assumptions C10_rejected_script_accepted_second_time_refuted.

Example C10_variant_guard_leak_witness :
  VariantSession.vspec VariantSession.rej_A = VariantSession.Rejected /\
  VariantSession.vspec VariantSession.ok_B = VariantSession.Accepted [(VariantSession.n_v, 3)] [(VariantSession.n_pick, 3, 3)] /\
  VariantSession.vsession VariantSession.cfg_leaky [] [VariantSession.rej_A; VariantSession.ok_B] =
    [VariantSession.Rejected; VariantSession.Accepted [(VariantSession.n_v, 0)] []] /\
  VariantSession.vsession VariantSession.cfg_leaky [] [VariantSession.rej_A; VariantSession.rej_A] =
    [VariantSession.Rejected; VariantSession.Accepted [(VariantSession.n_v, 0)] []] /\
  VariantSession.vsession VariantSession.cfg_leaky [] [VariantSession.ok_B; VariantSession.rej_A; VariantSession.ok_B] =
    [VariantSession.Accepted [(VariantSession.n_v, 3)] [(VariantSession.n_pick, 3, 3)]; VariantSession.Rejected;
     VariantSession.Accepted [(VariantSession.n_v, 0)] []].
Proof. exact VariantSessionP.leaky_witness. Qed.
Print Assumptions C10_variant_guard_leak_witness.

(* only a REJECTED script can leave a trace, under every configuration: why sessions of valid scripts never show such a defect *)
Theorem C10_accepted_scripts_leave_no_trace : forall c p, VariantSession.vspec p <> VariantSession.Rejected ->
  VariantSession.vrun c [] p = (VariantSession.vspec p, []).
Proof. exact VariantSessionP.accepted_scripts_leave_no_trace. Qed.
Print Assumptions C10_accepted_scripts_leave_no_trace.

(* the CURRENT source: every `R.add(k) ... R.remove(k)` guard of the three files is on an object of the current call or is released in
   a finally block; the guard of _ensure_function_variant is found and its configuration is inside the guard of the theorem *)
Theorem C10_guards_released_or_per_call : forall g, In g PuritySites.guard_sites ->
  PuritySites.g_scope g = 0 \/ PuritySites.g_release g = 0.
Proof. exact PuritySitesP.guards_safe. Qed.
Print Assumptions C10_guards_released_or_per_call.

Theorem C10_current_source_variant_guard_safe :
  Lang.PuritySites.variant_guards <> [] /\ VariantSession.cfg_safe Lang.PuritySites.vcfg_gen = true.
Proof. exact (conj PuritySitesP.variant_guard_found PuritySitesP.vcfg_gen_safe). Qed.
Print Assumptions C10_current_source_variant_guard_safe.

Theorem C10_variant_session_stateless_current_source : forall before p after,
  nth_error (VariantSession.vsession Lang.PuritySites.vcfg_gen [] (before ++ p :: after)) (List.length before) = Some (VariantSession.vspec p).
Proof. exact PuritySitesP.variant_session_stateless_current_source. Qed.
Print Assumptions C10_variant_session_stateless_current_source.
