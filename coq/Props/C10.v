From Coq Require Import ZArith List Bool Permutation.
From RV Require Import Base.Wire Base.Text Lang.Order Proofs.OrderP.
Import ListNotations.

Theorem C10_pure : forall sigma before p after,
  nth_error (session sigma (before ++ p :: after)) (List.length before) = Some (transl sigma p).
Proof. exact session_pure. Qed.
Print Assumptions C10_pure.
