(* C10 - transpilation is a deterministic, stateless function of the source text.
   Nothing but statements, closed by [exact], each followed by Print Assumptions.

   [sigma : list ident -> list ident] stands for "the order in which CPython iterates the set with
   these elements"; the only thing assumed about it is [perm_oracle] (it is a permutation).  A
   family [otag -> ...] gives every construct of a program its own oracle. *)
From Coq Require Import ZArith List Bool Permutation Sorted String.
From RV Require Import Base.Wire Base.Text Lang.Order Proofs.OrderP.
From RV Require Import Gen.SetSites Lang.OrderSites Proofs.OrderSitesP Lang.DevSession Proofs.DevSessionP.
Import ListNotations.
Open Scope Z_scope.

(* ---------------------------------------------------------------- full strength: refuted *)
(* C10_order_independent (forall s1 s2 p, perm s1 -> perm s2 -> transl s1 p = transl s2 p) is FALSE for the code as it is:
   five names first assigned in one `if` body come out in the iteration order of a set (known finding F-C10-promotion-order) *)
Theorem C10_promotion_order_refuted :
  exists s1 s2 p, perm_family s1 /\ perm_family s2 /\ transl s1 p <> transl s2 p.
Proof. exact order_dependence_exists. Qed.
Print Assumptions C10_promotion_order_refuted.

Example C10_witness_orders :
  map fst (o_globals (transl (fun _ => sid) witness_prog)) = [n_cnd; n_a; n_b; n_d; n_e; n_c] /\
  map fst (o_globals (transl (fun _ => srev) witness_prog)) = [n_cnd; n_c; n_e; n_d; n_b; n_a].
Proof. exact witness_globals. Qed.
Print Assumptions C10_witness_orders.

(* the guard is tight: ANY branch with two distinct new names separates two oracles ... *)
Theorem C10_two_names_in_a_branch_refuted : forall parent x y tx ty,
  x <> y -> tmem x parent = false -> tmem y parent = false ->
  promote sid (CIf parent [[(x, tx); (y, ty)]]) <> promote srev (CIf parent [[(x, tx); (y, ty)]]).
Proof. exact promote_if_two_names. Qed.
Print Assumptions C10_two_names_in_a_branch_refuted.

(* ... and so does any loop construct with two new names that _collect_order does not meet (the loop clause of the guard;
   the translation of the modelled fragment always meets them, the clause keeps the construct-level model honest) *)
Theorem C10_two_unmet_names_in_a_loop_refuted : forall x y tx ty,
  x <> y ->
  promote sid (CLoop [] [(x, tx); (y, ty)]) <> promote srev (CLoop [] [(x, tx); (y, ty)]).
Proof. exact promote_loop_two_names. Qed.
Print Assumptions C10_two_unmet_names_in_a_loop_refuted.

(* ---------------------------------------------------------------- _partial: inside the guard *)
(* one construct.  [guard]: every branch of an if / try contributes at most one name that is neither declared by the parent
   nor recorded by an earlier branch; every new name of a loop body is met by _collect_order *)
Theorem C10_partial_construct : forall s1 s2 c,
  perm_oracle s1 -> perm_oracle s2 -> guard c = true -> promote s1 c = promote s2 c.
Proof. exact promote_guarded. Qed.
Print Assumptions C10_partial_construct.

(* the simple sufficient condition: at most one new name per branch *)
Theorem C10_guard_one_name_per_branch : forall parent brs,
  forallb (fun br : list decl => (List.length br <=? 1)%nat) brs = true -> guard (CIf parent brs) = true.
Proof. exact (fun parent brs => guard_if_small parent brs []). Qed.
Print Assumptions C10_guard_one_name_per_branch.

(* whole programs of the modelled fragment: if every construct met by the translation is inside the guard
   ([o_ok]), the declaration-and-block skeleton does not depend on any iteration order *)
Theorem C10_partial : forall s1 s2 p,
  perm_family s1 -> perm_family s2 -> o_ok (transl s1 p) = true -> transl s1 p = transl s2 p.
Proof. exact transl_guarded. Qed.
Print Assumptions C10_partial.

(* non-vacuity: a guarded program that hoists four declarations *)
Example C10_partial_nonvacuous :
  o_ok (transl (fun _ => sid) guarded_prog) = true /\
  o_globals (transl (fun _ => sid) guarded_prog) = [(n_cnd, 0); (n_a, 0); (n_b, 1)] /\
  o_loop (transl (fun _ => sid) guarded_prog) = [NDecl n_c 0; NDecl n_d 3; NWhile [NAssign n_c; NAssign n_d]].
Proof. exact guarded_prog_ok. Qed.
Print Assumptions C10_partial_nonvacuous.

Example C10_partial_nonvacuous_two_names :
  o_ok (transl (fun _ => sid) guarded_prog2) = true /\
  o_funs (transl (fun _ => srev) guarded_prog2) =
    [(txt "fn"%string, [NDecl n_a 0; NDecl n_b 1; NIf [[NAssign n_a]; [NAssign n_b; NAssign n_a]]])].
Proof. exact guarded_prog2_ok. Qed.
Print Assumptions C10_partial_nonvacuous_two_names.

(* the while / for sites never matter in the fragment: the construct these handlers build (see walk_stmt: body walked from
   [c], resp. from [c] + the loop variable) always satisfies the loop clause of the guard, because every name a block newly
   declares is met as a declaration node by _collect_order - so the defect is confined to if/elif/else and try/except *)
Theorem C10_loop_constructs_always_guarded : forall P body c,
  guard (CLoop (flat_map decl_names (w_nodes (walk_block P body c)))
               (new_decls c (w_ctx (walk_block P body c)))) = true.
Proof. exact loop_guard_holds. Qed.
Print Assumptions C10_loop_constructs_always_guarded.

(* being inside the guard is a property of the program, not of the iteration orders *)
Theorem C10_guard_is_oracle_independent : forall s1 s2 p,
  perm_family s1 -> perm_family s2 -> o_ok (transl s1 p) = o_ok (transl s2 p).
Proof. exact guard_oracle_independent. Qed.
Print Assumptions C10_guard_is_oracle_independent.

(* the oracles the harness feeds to the extracted model are permutation oracles *)
Theorem C10_harness_oracles_are_permutations : perm_family sigma_rank.
Proof. exact sigma_rank_perm. Qed.
Print Assumptions C10_harness_oracles_are_permutations.

(* ... and they reach every iteration order: the order [l'] of a set with elements [l] is what [sigma_rank l'] yields, so when
   the correspondence finds no rank list explaining an output, no iteration order explains it *)
Theorem C10_harness_oracles_reach_every_order : forall l l',
  NoDup l' -> Permutation l' l -> sigma_rank l' l = l'.
Proof. exact sigma_rank_complete. Qed.
Print Assumptions C10_harness_oracles_reach_every_order.

(* ---------------------------------------------------------------- only the ORDER can vary *)
Theorem C10_result_is_permutation : forall s1 s2 c,
  perm_oracle s1 -> perm_oracle s2 -> Permutation (promote s1 c) (promote s2 c).
Proof. exact promote_permutation. Qed.
Print Assumptions C10_result_is_permutation.

(* ---------------------------------------------------------------- the candidate repair (not the code as it is) *)
(* `for name in sorted(new_names)` / `for name in sorted(promoted_set)`: order independent with NO guard ... *)
Theorem C10_candidate_fix_order_independent : forall s1 s2 p,
  perm_family s1 -> perm_family s2 -> transl_fixed s1 p = transl_fixed s2 p.
Proof. exact transl_fixed_independent. Qed.
Print Assumptions C10_candidate_fix_order_independent.

(* ... and it changes no output for programs inside the guard *)
Theorem C10_candidate_fix_conservative : forall s p,
  perm_family s -> o_ok (transl s p) = true -> transl_fixed s p = transl s p.
Proof. exact transl_fixed_conservative. Qed.
Print Assumptions C10_candidate_fix_conservative.

(* ---------------------------------------------------------------- the sorted() sites *)
Theorem C10_sorted_site_order_independent : forall s1 s2 l,
  perm_oracle s1 -> perm_oracle s2 -> sorted_site s1 l = sorted_site s2 l.
Proof. exact sorted_site_independent. Qed.
Print Assumptions C10_sorted_site_order_independent.

Theorem C10_sorted_site_spec : forall s l,
  perm_oracle s -> StronglySorted tle (sorted_site s l) /\ Permutation (sorted_site s l) l.
Proof. exact sorted_site_spec. Qed.
Print Assumptions C10_sorted_site_spec.

(* unique.pop() under len(unique) == 1 *)
Theorem C10_pop_of_singleton : forall s x, perm_oracle s -> pop_site s [x] = Some x.
Proof. exact pop_site_singleton. Qed.
Print Assumptions C10_pop_of_singleton.

(* ---------------------------------------------------------------- statelessness (by construction; the content is the tie) *)
Theorem C10_pure : forall sigma before p after,
  nth_error (session sigma (before ++ p :: after)) (List.length before) = Some (transl sigma p).
Proof. exact session_pure. Qed.
Print Assumptions C10_pure.

Theorem C10_session_of_guarded_programs : forall s1 s2 ps,
  perm_family s1 -> perm_family s2 ->
  forallb (fun p => o_ok (transl s1 p)) ps = true -> session s1 ps = session s2 ps.
Proof. exact session_guarded. Qed.
Print Assumptions C10_session_of_guarded_programs.

(* ---------------------------------------------------------------- inventory of the CURRENT source (Gen/SetSites.v) *)
(* every set iteration of parser.py / emitter.py whose order reaches its consumer is one of the modelled sites *)
Theorem C10_sites_accounted : forall s, In s sites -> s_class s = 0 ->
  exists m, In m modelled_sites /\ s_fn s = fst m /\ s_iter s = snd m.
Proof. exact sites_accounted. Qed.
Print Assumptions C10_sites_accounted.

(* the sorted() sites the property names are (still) wrapped in sorted() *)
Theorem C10_sorted_sites_present : forall r, In r required_sorted_sites ->
  exists s, In s sites /\ s_file s = fst (fst r) /\ s_fn s = snd (fst r) /\ s_iter s = snd r /\ s_class s = 1.
Proof. exact sorted_sites_present. Qed.
Print Assumptions C10_sorted_sites_present.

(* no function of the three transpiler modules mutates module-level state, except the verification hook's log *)
Theorem C10_no_module_state : forall m, In m module_state -> m_mutated m = true -> m_name m = hook_log.
Proof. exact no_module_state. Qed.
Print Assumptions C10_no_module_state.

(* the only modules imported (anywhere) by parser.py / emitter.py / ast.py are pure helpers - no time, random, os, uuid ... -
   except `os` inside the verification hook, which reads its REDUINO_VERIF switch *)
Theorem C10_imports_are_pure : forall i, In i imports ->
  In (i_module i) allowed_modules \/ (i_module i = txt "os"%string /\ i_fn i = hook_fn).
Proof. exact imports_accounted. Qed.
Print Assumptions C10_imports_are_pure.

(* no use of hash / id / open / input / eval / exec / globals / object() ... in the three files *)
Theorem C10_no_ambient_builtins : ambient_calls = [].
Proof. exact no_ambient_calls. Qed.
Print Assumptions C10_no_ambient_builtins.

(* ---------------------------------------------------------------- statelessness across parse() calls (Lang/DevSession.v) *)
(* The device-name registries of ctx, created by `ctx.setdefault(key, D)` and read by `ctx.get(key, D)`, with a module-level
   store threaded from one parse() to the next.  [cfg_ok]: every key that does not exist before the first statement takes
   FRESH defaults.  Then the output of a program is its own translation [transl_dev p], whatever was transpiled before and
   after it and whatever the module-level objects hold. *)
Theorem C10_session_stateless : forall c ms before p after, cfg_ok c = true ->
  nth_error (dsession c ms (before ++ p :: after)) (List.length before) = Some (transl_dev p).
Proof. exact dsession_stateless. Qed.
Print Assumptions C10_session_stateless.

(* ... and one parse() leaves the module-level store as it found it *)
Theorem C10_parse_leaves_module_store : forall c ms p, cfg_ok c = true -> run c ms p = (transl_dev p, ms).
Proof. exact run_pure. Qed.
Print Assumptions C10_parse_leaves_module_store.

Example C10_session_stateless_nonvacuous :
  cfg_ok (cfg_fresh (fun k => negb (key_eqb k KSerial))) = true /\
  dsession (cfg_fresh (fun k => negb (key_eqb k KSerial))) [(txt "_NO_NAMES"%string, [n_x])] [leak_A; leak_B; leak_A]
    = [Some []; Some [(n_y, 2, 0)]; Some []].
Proof. exact stateless_nonvacuous. Qed.
Print Assumptions C10_session_stateless_nonvacuous.

(* the guard is tight: a lazily created registry whose default is one module-level object (here the serial monitors) makes a
   later, unrelated program come out differently: x = SerialMonitor(..) in A; x = Potentiometer(..), y = x.read() in B *)
Theorem C10_shared_default_refuted : forall c o,
  c_pre c KSerial = false -> c_set c KSerial = Some o -> c_get c KSerial = Some o ->
  c_pre c KServo = true -> c_pre c KPot = true -> c_pre c KPotPin = true ->
  exists A B, nth_error (dsession c [] [A; B]) 1 <> Some (transl_dev B).
Proof. exact shared_default_refutes. Qed.
Print Assumptions C10_shared_default_refuted.

Example C10_shared_default_witness : forall c o,
  c_pre c KSerial = false -> c_set c KSerial = Some o -> c_get c KSerial = Some o ->
  c_pre c KServo = true -> c_pre c KPot = true -> c_pre c KPotPin = true ->
  transl_dev leak_B = Some [(n_y, 2, 0)] /\ dsession c [] [leak_A; leak_B] = [Some []; Some [(n_y, 2, 3)]].
Proof. exact shared_default_leaks. Qed.
Print Assumptions C10_shared_default_witness.

(* the CURRENT source (Gen/SetSites.v: the keys parse() and the prologue of _parse_simple_lines seed, the default of every
   setdefault/get site) is inside the guard ... *)
Theorem C10_current_source_defaults_fresh : cfg_ok cfg_gen = true.
Proof. exact cfg_gen_ok. Qed.
Print Assumptions C10_current_source_defaults_fresh.

(* ... hence stateless for every session *)
Theorem C10_session_stateless_current_source : forall ms before p after,
  nth_error (dsession cfg_gen ms (before ++ p :: after)) (List.length before) = Some (transl_dev p).
Proof. exact session_stateless_current_source. Qed.
Print Assumptions C10_session_stateless_current_source.

(* every use of a module-level (or class-level) mutable object - set/dict/list displays and constructor calls bound at module
   level - in parser.py / emitter.py / ast.py is read-only: none is mutated, not even through a local alias, and none ESCAPES
   (passed to a call such as ctx.setdefault(key, M) / ctx.get(key, M), stored, returned, default argument); the only exception
   is the verification hook appending to its own log *)
Theorem C10_module_objects_never_escape : forall u, In u module_uses -> u_class u <> 0 ->
  u_name u = hook_log /\ u_class u = 2.
Proof. exact module_uses_accounted. Qed.
Print Assumptions C10_module_objects_never_escape.

(* no `X.setdefault("key", D)` / `X.get("key", D)` of the three files takes a module-level object as D *)
Theorem C10_no_shared_default : forall d, In d default_sites -> d_class d <> 2.
Proof. exact default_sites_accounted. Qed.
Print Assumptions C10_no_shared_default.

(* every key of the dictionary parse() starts from is seeded with a fresh object or a constant *)
Theorem C10_ctx_seeded_fresh : forall e, In e ctx_preseeded -> snd e = true.
Proof. exact preseeded_fresh. Qed.
Print Assumptions C10_ctx_seeded_fresh.
