(* C11 - transpiling never runs user code, fails only cleanly (the evaluator and its call sites).
   Nothing but statements, closed by [exact], each followed by Print Assumptions. *)
From Coq Require Import ZArith QArith List Bool.
From RV Require Import Base.Wire Base.Text Lang.PyAst Lang.PySem Gen.SafeCasts Lang.ConstEval Proofs.ConstEvalP Proofs.ConstEvalCostP Proofs.ConstEvalBoundP.
Import ListNotations.
Open Scope Z_scope.

(* every primitive operation the evaluator performs is an operator of _BIN applied to two evaluated values,
   a cast of _SAFE_CASTS, or one of the constructor-fixed kinds (str + str, negation, str of an f-string part, len, abs,
   max/min, comparison, truth test, lookup in the environment dict) *)
Theorem C11_whitelist : forall e cenv p, In p (snd (eval_const_fx cenv e)) -> allowed p.
Proof. exact whitelist. Qed.
Print Assumptions C11_whitelist.

(* the cast table of the current source holds nothing but int, float, str, bool *)
Theorem C11_safe_casts_pure : forall f, In f safe_casts -> In f pure_casts.
Proof. exact safe_casts_pure. Qed.
Print Assumptions C11_safe_casts_pure.

(* the instrumented evaluator is the evaluator *)
Theorem C11_fx_is_eval_const : forall cenv e, fst (eval_const_fx cenv e) = eval_const cenv e.
Proof. exact eval_const_fx_fst. Qed.
Print Assumptions C11_fx_is_eval_const.

(* a method call, attribute, subscript, lambda, comprehension, starred, call of any other name, keyword call,
   wrong arity, operator outside _BIN/_UN: ValueError at once - nothing below the node is evaluated and no
   primitive is performed *)
Theorem C11_no_eval_of_unsupported : forall e cenv,
  unsupported_head e = true -> eval_const_fx cenv e = (CFail KValue, []).
Proof. exact no_eval_of_unsupported. Qed.
Print Assumptions C11_no_eval_of_unsupported.

Theorem C11_value_has_supported_head : forall e cenv v, eval_const cenv e = CVal v -> unsupported_head e = false.
Proof. exact value_has_supported_head. Qed.
Print Assumptions C11_value_has_supported_head.

Example C11_no_eval_nonvacuous :
  eval_const_fx [] (ECall [111;115] [EBin Add (EInt 1) (EInt 1)] []) = (CFail KValue, []) /\
  eval_const_fx [] (EBin Add (EInt 1) (EMethod (EName [120]) [121] [EBin Add (EInt 1) (EInt 1)] [])) = (CFail KValue, []) /\
  snd (eval_const_fx [] (EBin Add (EInt 1) (EInt 1))) = [PArith Add].
Proof. exact no_eval_example. Qed.
Print Assumptions C11_no_eval_nonvacuous.

(* which exception kinds leave the evaluator (on the modelled domain: CPython's recursion limit is not modelled - a
   RecursionError is caught by the call sites or turned into ValueError by parse(); no IEEE infinities):
   ValueError anywhere; ZeroDivisionError only below / // % **; TypeError only below unary minus, a comparison,
   max/min or a bit operator *)
Theorem C11_error_kinds_partial : forall cenv e k,
  eval_const cenv e = CFail k -> mentions (src k) e = true.
Proof. exact error_kinds. Qed.
Print Assumptions C11_error_kinds_partial.

(* at the call sites nothing but ValueError gets out *)
Theorem C11_call_sites_clean : forall cenv e,
  (forall k, resolve_numeric cenv e <> Raises k) /\
  (forall k, resolve_float cenv e <> Raises k) /\
  (forall k, resolve_bool cenv e <> Raises k) /\
  (forall k, assign_binding cenv e <> Raises k) /\
  (forall k, glyph_bitmap cenv e = Raises k -> k = KValue).
Proof. exact call_sites_clean. Qed.
Print Assumptions C11_call_sites_clean.

Theorem C11_sleep_site_clean : forall cenv e k, resolve_sleep cenv e <> Raises k.
Proof. exact sleep_site_clean. Qed.
Print Assumptions C11_sleep_site_clean.

Example C11_error_kinds_nonvacuous :
  eval_const [] (EBin Div (EInt 1) (EInt 0)) = CFail KZeroDiv /\
  eval_const [] (EUn USub (EStr [97])) = CFail KType /\
  eval_const [] (EBin LShift (EInt 1) (EInt (-1))) = CFail KValue /\
  resolve_numeric [] (EBin Div (EInt 1) (EInt 0)) = Fallback /\
  glyph_bitmap [] (EBin Div (EInt 1) (EInt 0)) = Raises KValue.
Proof. exact error_kinds_nonvacuous. Qed.
Print Assumptions C11_error_kinds_nonvacuous.

(* the size of every integer the evaluator builds is bounded (the repaired F-C11-exponent-blowup; fold_max_bits is
   _MAX_CONST_BITS of the current source, Gen/SafeCasts.v):
   one application of _apply_bin - any operator of _BIN, any two values - yields at most
   max(fold_max_bits, widest operand + 1) bits: ** << * are refused (ValueError, caught by the call sites like every
   other evaluator error) when the predicted size exceeds the bound, the other operators grow an operand by one bit at most *)
Theorem C11_fold_step_bounded : forall op a b v, apply_bin op a b = CVal v ->
  bits v <= Z.max fold_max_bits (Z.max (bits a) (bits b) + 1).
Proof. exact fold_step_bounded. Qed.
Print Assumptions C11_fold_step_bounded.

(* whole expressions, every environment: on the arithmetic fragment (literals, names, operators, conditions; the guard
   excludes calls - int(<float>), int(<str>), len - whose results the exact-rational floats and the strings of the model
   do not bound, not a defect of the code) the folded value has at most max(fold_max_bits, widest leaf) + size bits:
   linear in the input, where the unrepaired evaluator reached 2^n + 1 bits on the n + 5 characters of 2**2**n *)
Theorem C11_fold_bits_bounded : forall cenv e v, arith_only e = true -> eval_const cenv e = CVal v ->
  bits v <= Z.max fold_max_bits (leaf_bits cenv e) + Z.of_nat (esize e).
Proof. exact fold_bits_bounded_arith. Qed.
Print Assumptions C11_fold_bits_bounded.

(* the former witness family: 2 ** (2 ** n) is not folded as soon as its value would exceed the bound *)
Theorem C11_tower_refused : forall n, 0 <= n -> fold_max_bits < 2 * 2 ^ n -> eval_const [] (tower n) = CFail KValue.
Proof. exact tower_refused. Qed.
Print Assumptions C11_tower_refused.

(* non-vacuity: small towers are still folded (2**2**3 = 256), the first refused tower, 1 << (bound - 1) is folded and
   1 << bound is not, a product one bit too wide, 9**9**9, an expression of the arithmetic fragment, the measure *)
Example C11_fold_bound_nonvacuous :
  eval_const [] (tower 3) = CVal (VInt 256) /\
  eval_const [] (tower (Z.log2 fold_max_bits)) = CFail KValue /\
  eval_const [] (EBin LShift (EInt 1) (EInt (fold_max_bits - 1))) = CVal (VInt (2 ^ (fold_max_bits - 1))) /\
  eval_const [] (EBin LShift (EInt 1) (EInt fold_max_bits)) = CFail KValue /\
  eval_const [] (EBin Mult (EInt (2 ^ fold_max_bits)) (EInt 2)) = CFail KValue /\
  eval_const [] (EBin Pow (EInt 9) (EBin Pow (EInt 9) (EInt 9))) = CFail KValue /\
  arith_only (EBin Add (EName [120]) (EBin Mult (EInt 3) (EInt 5))) = true /\
  bits (VInt 255) = 8 /\ bits (VInt (-256)) = 9.
Proof. exact fold_bound_examples. Qed.
Print Assumptions C11_fold_bound_nonvacuous.

(* ... and the NUMBER of primitive operations is linear: fewer than twice the number of AST nodes, for every
   expression and environment.  With the bound on the operands above, the work of transpile-time evaluation is
   polynomial in the size of the input. *)
Theorem C11_operations_linear : forall cenv e, (length (snd (eval_const_fx cenv e)) < 2 * esize e)%nat.
Proof. exact ops_linear. Qed.
Print Assumptions C11_operations_linear.

Example C11_operations_linear_nonvacuous :
  length (snd (eval_const_fx [] (EBin Add (EBin Add (EBin Add (EInt 1) (EInt 2)) (EInt 3)) (EInt 4)))) = 3%nat /\
  esize (EBin Add (EBin Add (EBin Add (EInt 1) (EInt 2)) (EInt 3)) (EInt 4)) = 7%nat.
Proof. exact ops_linear_example. Qed.
Print Assumptions C11_operations_linear_nonvacuous.
